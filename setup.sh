#!/bin/sh
# Offline setup: nothing to build (python3 + verus are pre-installed); verify the tools answer.
cd "$(dirname "$0")" || exit 1
mkdir -p build evidence
verus --version >/dev/null 2>&1 || { echo "verus missing"; exit 1; }
python3 -c "import sys; sys.path.insert(0,'.'); import vx.main" || exit 1
echo "setup ok"
