"""CLI:  ./check <PROPERTY> [--tier quick|thorough] [--replay FILE] [--rebaseline] [--list]

exit 0  property held on everything explored (KNOWN-FINDING lines possible)
exit 1  VIOLATION property=<id> replay=<path> ...
exit 2  UNDECIDED <reason>   (lost anchor, unsupported construct, resource limit, broken guard): never an alarm
"""
import concurrent.futures as cf
import glob
import hashlib
import json
import os
import re
import sys
import time
import traceback

from .assemble import ROOT, REPO, template_props, line_tags
from .rust_text import LostAnchor
from . import run as vrun

EVID = os.environ.get('VERIF_EVIDENCE_DIR') or os.path.join(ROOT, 'evidence')
REPLAY = os.path.join(os.environ.get('VERIF_BUILD_DIR') or os.path.join(ROOT, 'build'), 'replay')


def load_json(path, default):
    try:
        return json.load(open(path))
    except FileNotFoundError:
        return default


def known_findings():
    return load_json(os.path.join(ROOT, 'known_findings.json'), {'findings': []})['findings']


def templates_for(prop):
    res = []
    for t in sorted(glob.glob(os.path.join(ROOT, 'units', '*.rs'))):
        if prop in template_props(t):
            res.append(t)
    return res


def unit_fn_names(info, linemap, text_lines):
    """emitted fn name -> (kind, unit id) for unit functions, twins and template-level functions."""
    names = {}
    for idx, m in enumerate(linemap):
        reg = m.get('region', '')
        ln = text_lines[idx]
        mm = re.search(r'\bfn\s+(\w+)', ln)
        if not mm:
            continue
        if reg.endswith('-sig'):
            base = reg[:-4]
            names.setdefault(mm.group(1), (base, m.get('unit')))
        elif (reg == 'template' or reg.startswith('spec:')) and not ln.strip().startswith('//'):
            names.setdefault(mm.group(1), ('template', None))
        elif reg == 'guard':
            names.setdefault(mm.group(1), ('guard', None))
    return names


def analyse(res, prop, expected, open_f):
    """Classify one template result for property `prop`."""
    info, linemap = res['info'], res['linemap']
    text_lines = open(res['emitted']).read().split('\n')[:len(res['linemap'])]
    names = unit_fn_names(info, linemap, text_lines)
    out = dict(template=info['template'], undecided=[], violations=[], known=[], foreign=[], notes=[],
               obligations=0, discharged=0, functions=[], smt_us=0)
    v = res['verus']
    if v['json'] is None or v['rc'] not in (0, 1):
        out['undecided'].append('verus did not produce a result for %s (rc=%s): %s' % (info['template'], v['rc'], (v['stderr'] or '')[-400:]))
        return out
    tool = [i for i in res['issues'] if i['kind'] == 'tool']
    if tool:
        out['undecided'].append('%s: verus rejected the emitted file: %s' % (info['template'], '; '.join(sorted(set(i['message'] for i in tool)))[:600]))
        return out
    rsrc = [i for i in res['issues'] if i['kind'] == 'resource']
    for i in rsrc:
        out['undecided'].append('%s: resource limit: %s' % (info['template'], i['message'][:200]))
    units = {u['id']: u for u in info['units']}
    unit_props = {u['id']: u['props'] for u in info['units']}
    ex = {e['unit']: e for e in info['extraction'] if 'unit' in e}
    # --- guards
    vac_hit = set()
    guard_hit = False
    finding_hit = {}
    for i in res['issues']:
        reg = i.get('region') or ''
        if i['kind'] != 'verification':
            continue
        if reg.startswith('vac'):
            vac_hit.add(i['unit'])
        elif reg == 'guard':
            guard_hit = True
        elif reg.startswith('finding:'):
            finding_hit.setdefault(reg.split(':')[1].split('-')[0], []).append(i)
    for uid, e in ex.items():
        if e.get('has_vacuity_twin') and uid not in vac_hit:
            out['undecided'].append('%s: vacuity guard: the precondition of unit %s is contradictory (its `requires false` twin verified)' % (info['template'], uid))
    n_guards = sum(1 for idx, m in enumerate(linemap) if m.get('region') == 'guard' and 'proof fn' in text_lines[idx])
    n_guard_hits = len(set(i['site']['line'] for i in res['issues'] if i['kind'] == 'verification' and (i.get('region') or '') == 'guard' and i.get('site')))
    if n_guards and n_guard_hits < n_guards:
        out['undecided'].append('%s: shim consistency guard verified `false` -- the assumed axioms are inconsistent' % info['template'])
    # --- findings
    for uid, e in ex.items():
        for fid in e.get('finding_twins', []):
            f = open_f.get(fid)
            if fid in finding_hit:
                if prop in f.get('properties', []):
                    out['known'].append(dict(finding=fid, unit=uid, what=f.get('what', ''), message=finding_hit[fid][0]['message']))
            else:
                out['notes'].append('finding %s (unit %s) is listed as open but its obligation now discharges' % (fid, uid))
    # --- real failures
    exp_fns = set(expected.get(info['template'], {}).get('functions', []))
    kf_only_units, other_issue_units = set(), set()
    for i in res['issues']:
        if i['kind'] != 'verification':
            continue
        reg = i.get('region') or ''
        if reg.startswith('vac') or reg == 'guard' or reg.startswith('finding:'):
            continue
        if not reg.startswith('unit'):
            out['undecided'].append('%s: a lemma / spec / shim obligation failed (%s at emitted line %s): machinery problem' % (
                info['template'], i['message'], i['site'] and i['site']['line']))
            continue
        uid = i['unit']
        # a listed open finding may be identified by the failing call site (unit + regex on the site text)
        kf_hit = None
        for fid, f in open_f.items():
            if f.get('site_regex') and f.get('unit') == uid and i.get('site') and re.search(f['site_regex'], i['site'].get('text') or ''):
                kf_hit = (fid, f)
        if kf_hit:
            if prop in kf_hit[1].get('properties', []):
                out['known'].append(dict(finding=kf_hit[0], unit=uid, what=kf_hit[1].get('what', ''), message=i['message']))
            kf_only_units.add(uid)
            continue
        other_issue_units.add(uid)
        props = None
        for ent in (i.get('clause'), i.get('site')):
            if ent and ent['info'].get('tags', {}).get('props'):
                props = ent['info']['tags']['props'].split(',')
                break
        if props is None:
            props = unit_props.get(uid, [])
        if i['safety'] and 'C17' in unit_props.get(uid, []):
            props = ['C17']
        name = None
        for ent in (i.get('clause'), i.get('site')):
            if ent and ent['info'].get('tags', {}).get('name'):
                name = ent['info']['tags']['name']
                break
        if name is None:
            name = '%s: %s' % (uid, i['message'])
        rec = dict(unit=uid, obligation=name, message=i['message'], props=props,
                   clause=(i['clause'] or {}).get('text'), site_line=(i['site'] or {}).get('line'),
                   site_text=(i['site'] or {}).get('text'), rendered=i['rendered'])
        fn = ex[uid]['emitted_fn'] if uid in ex else None
        if exp_fns and not any(k == fn or k.endswith('::' + fn) for k in exp_fns):
            out['undecided'].append('%s: unit %s fails but has no passing baseline in expected.json' % (info['template'], uid))
        elif prop in props:
            out['violations'].append(rec)
        else:
            out['foreign'].append(rec)
    # --- obligation accounting
    for fname, r in sorted(res['functions'].items()):
        last = fname.split('::')[-1]
        kind, uid = names.get(last, (None, None))
        if kind is None:
            continue
        if kind in ('vac', 'guard') or kind.startswith('finding'):
            continue
        if kind == 'unit' and uid in kf_only_units and uid not in other_issue_units:
            # fails only at the call site of a listed open finding: reported as KNOWN-FINDING, not counted as an obligation
            out['notes'].append('unit %s is not counted: its only failing obligation is the listed open finding' % uid)
            continue
        if kind == 'unit' and prop not in unit_props.get(uid, []) and not any(
                prop in (m.get('tags', {}).get('props', '')).split(',') for m in linemap if m.get('unit') == uid):
            continue
        out['obligations'] += 1
        out['discharged'] += 1 if r['success'] else 0
        out['smt_us'] += r['time_us']
        out['functions'].append(dict(function=fname, kind=kind, unit=uid, success=r['success'], smt_us=r['time_us'], rlimit=r['rlimit']))
    return out


def named_obligations(res, prop):
    """Contract clauses (ensures / invariants) spliced onto extracted code that serve `prop`."""
    text_lines = open(res['emitted']).read().split('\n')[:len(res['linemap'])]
    unit_props = {u['id']: u['props'] for u in res['info']['units']}
    obs = []
    for idx, m in enumerate(res['linemap']):
        reg = m.get('region', '')
        if not reg.startswith('unit'):
            continue
        ln = text_lines[idx].strip()
        if not ln or ln in ('requires', 'ensures', '{', '}'):
            continue
        is_clause = m.get('clause') == 'ensures' or (reg == 'unit-body' and m.get('spliced'))
        if m.get('clause') != 'ensures':
            continue
        tags = m.get('tags') or {}
        props = tags.get('props', ','.join(unit_props.get(m['unit'], []))).split(',')
        if prop in props:
            obs.append(dict(unit=m['unit'], clause=re.sub(r'\s*//.*$', '', ln), name=tags.get('name')))
    return obs


def trusted_scan(res):
    """Mechanical scan of the emitted file for assumptions."""
    text_lines = open(res['emitted']).read().split('\n')[:len(res['linemap'])]
    items = []
    pend = None
    for idx, ln in enumerate(text_lines):
        reg = res['linemap'][idx].get('region', '')
        if 'external_body' in ln or 'assume_specification' in ln or re.search(r'\baxiom fn\b', ln) or 'uninterp spec fn' in ln or re.search(r'\b(assume|admit)\s*\(', ln):
            mm = re.search(r'\bfn\s+(\w+)', ln)
            kind = 'axiom' if 'axiom fn' in ln else 'uninterp' if 'uninterp' in ln else 'assume' if re.search(r'\b(assume|admit)\s*\(', ln) else 'external_body'
            if mm:
                items.append('%s %s [%s]' % (kind, mm.group(1), reg))
            elif re.search(r'\bstruct\s+(\w+)', ln):
                items.append('%s struct %s [%s]' % (kind, re.search(r'\bstruct\s+(\w+)', ln).group(1), reg))
            else:
                pend = (kind, reg)
        elif pend:
            mm = re.search(r'\b(?:fn|struct)\s+(\w+)', ln)
            if mm:
                items.append('%s %s [%s]' % (pend[0], mm.group(1), pend[1]))
                pend = None
    return items


def write_replay(prop, rec, res):
    os.makedirs(REPLAY, exist_ok=True)
    ex = [e for e in res['info']['extraction'] if e.get('unit') == rec['unit']]
    h = hashlib.sha256((rec['unit'] + rec['obligation'] + (ex[0]['sha256'] if ex else '')).encode()).hexdigest()[:10]
    path = os.path.join(REPLAY, '%s-%s-%s.txt' % (prop, re.sub(r'\W+', '_', rec['unit']), h))
    pinned = load_json(os.path.join(ROOT, 'pinned', re.sub(r'\W+', '_', rec['unit']) + '.json'), None)
    with open(path, 'w') as fh:
        fh.write('VIOLATION property=%s\n' % prop)
        fh.write('failed obligation : %s\n' % rec['obligation'])
        fh.write('unit              : %s\n' % rec['unit'])
        if ex:
            fh.write('source            : %s lines %s (sha256 %s)\n' % (ex[0]['file'], ex[0]['lines'], ex[0]['sha256']))
        fh.write('verifier message  : %s\n' % rec['message'])
        fh.write('clause            : %s\n' % rec.get('clause'))
        fh.write('counterexample    : none (Verus gives no model) -- no-failing-input-found\n')
        fh.write('emitted file      : %s\n' % res['emitted'])
        fh.write('\n--- verifier output ---\n%s\n' % rec['rendered'])
        if ex:
            fh.write('\n--- current source of the unit ---\n%s\n' % ex[0]['source_text'])
            if pinned and pinned.get('sha256') != ex[0]['sha256']:
                import difflib
                fh.write('\n--- diff pinned -> current ---\n')
                fh.write('\n'.join(difflib.unified_diff(pinned['source_text'].split('\n'), ex[0]['source_text'].split('\n'), 'pinned', 'current', lineterm='')))
                fh.write('\n')
            elif pinned:
                fh.write('\n(unit text identical to the pinned baseline: the change is in a callee contract or a struct)\n')
    return path


def _fail_key(i):
    return i['unit'] or ('L:' + ((i.get('site') or {}).get('text') or i['message']))


def _real_failures(r):
    """keys of the failed obligations that are neither vacuity twins, consistency guards nor finding twins"""
    out = set()
    for i in r['issues']:
        reg = i.get('region') or ''
        if i['kind'] != 'verification' or reg.startswith('vac') or reg == 'guard' or reg.startswith('finding:'):
            continue
        out.add(_fail_key(i))
    return out


def check_property(prop, tier, seed, rebaseline=False):
    t0 = time.time()
    kf = known_findings()
    open_f = {f['id']: f for f in kf if f.get('status') == 'open'}
    expected = load_json(os.path.join(ROOT, 'expected.json'), {})
    tpls = templates_for(prop)
    results, undecided = [], []
    if not tpls:
        print('UNDECIDED no unit serves property %s' % prop)
        return 2

    def one(t):
        try:
            rl = 120 if tier == 'thorough' else 30
            sd = seed if tier == 'thorough' and seed else None
            r = vrun.run_template(t, open_f.keys(), seed=sd, rlimit=rl, tag='__' + prop)
            # a resource-limit outcome decides nothing: retry once with five times the budget before reporting it
            if any(i['kind'] == 'resource' for i in r['issues']) or r['verus']['rc'] == 124:
                r2 = vrun.run_template(t, open_f.keys(), seed=sd, rlimit=rl * 5, tag='__' + prop)
                r2['retried_with_rlimit'] = rl * 5
                r = r2
            # an obligation that fails to discharge decides nothing by itself (the SMT search depends on symbol names): before it
            # is reported, the same text is verified again under two other file names; an obligation discharged in ANY complete run
            # is proved (every run is a full proof attempt of the same text), only one that fails in all of them is reported
            if _real_failures(r) and r['verus']['json'] is not None and not any(i['kind'] == 'tool' for i in r['issues']):
                alts = []
                for k in ('r1', 'r2'):
                    ra = vrun.run_template(t, open_f.keys(), seed=sd, rlimit=rl * 5, tag='__' + prop + k)
                    if ra['verus']['json'] is not None and not any(i['kind'] in ('tool', 'resource') for i in ra['issues']):
                        alts.append(ra)
                    if alts and not _real_failures(ra):
                        break
                rescued = set()
                for key in _real_failures(r):
                    if any(key not in _real_failures(ra) for ra in alts):
                        rescued.add(key)
                if rescued:
                    r['issues'] = [i for i in r['issues'] if not (i['kind'] == 'verification' and _fail_key(i) in rescued)]
                    for fn, fv in r['functions'].items():
                        if not fv['success'] and any(ra['functions'].get(fn, {}).get('success') for ra in alts):
                            fv['success'] = True
                    r['proved_under_alternative_names'] = sorted(rescued)
                r['alternative_name_runs'] = len(alts)
            return r
        except LostAnchor as e:
            return ('lost', t, str(e))
        except Exception as e:   # noqa
            return ('crash', t, traceback.format_exc())
    with cf.ThreadPoolExecutor(max_workers=int(os.environ.get('VERIF_JOBS', '8'))) as ex:
        for r in ex.map(one, tpls):
            if isinstance(r, tuple):
                undecided.append('%s: %s: %s' % (os.path.relpath(r[1], ROOT), 'lost anchor' if r[0] == 'lost' else 'internal error', r[2]))
            else:
                results.append(r)
    analyses = [(r, analyse(r, prop, expected, open_f)) for r in results]
    violations, known, notes, foreign = [], [], [], []
    obligations = discharged = 0
    smt_us = 0
    funcs, samples, trusted, extraction, stubs = [], [], [], [], []
    for r, a in analyses:
        undecided += a['undecided']
        for vrec in a['violations']:
            vrec['replay'] = write_replay(prop, vrec, r)
            violations.append(vrec)
        known += a['known']
        notes += a['notes']
        foreign += a['foreign']
        obligations += a['obligations']
        discharged += a['discharged']
        smt_us += a['smt_us']
        funcs += a['functions']
        samples += named_obligations(r, prop)
        for it in trusted_scan(r):
            if it not in trusted:
                trusted.append(it)
        for e in r['info']['extraction']:
            e2 = {k: v for k, v in e.items() if k not in ('source_text',)}
            extraction.append(e2)
        stubs += r['info']['stubs']
    status = 0
    lines = []
    thorough = {}
    if tier == 'thorough' and not os.environ.get('VERIF_NO_NESTED'):
        thorough = thorough_extras(prop, kf)
        for u in thorough.get('undecided', []):
            undecided.append(u)
    for k in known:
        lines.append('KNOWN-FINDING: property=%s %s: %s (unit %s)' % (prop, k['finding'], k['what'], k['unit']))
    seen = set()
    for vrec in violations:
        key = (vrec['unit'], vrec['obligation'])
        if key in seen:
            continue
        seen.add(key)
        lines.append('VIOLATION property=%s replay=%s obligation="%s" no-failing-input-found' % (prop, vrec['replay'], vrec['obligation']))
        status = 1
    if status == 0 and undecided:
        status = 2
        for u in undecided:
            lines.append('UNDECIDED %s' % u)
    elif undecided:
        for u in undecided:
            lines.append('note: also undecided: %s' % u)
    for n in notes:
        lines.append('note: %s' % n)
    wall = time.time() - t0
    ev = dict(
        property_id=prop, tier=tier, seed=int(seed or 0), level='proof',
        coverage=dict(
            obligations=obligations, discharged=discharged,
            checker_cmd='verus <emitted>.rs --multiple-errors 200 --triggers-mode silent --output-json --time -- --error-format=json   (one emitted file per template: %s)' % ', '.join(os.path.relpath(t, ROOT) for t in tpls),
            trusted_base=trusted,
            samples=samples[:400],
            rule='an obligation = one Verus verification query (an extracted function incl. its loops, a lemma or a spec-function termination check) in the units serving this property; vacuity twins, guards and open-finding twins are not counted',
            functions_under_contract=[dict(unit=e['unit'], file=e['file'], lines=e['lines'], sha256=e['sha256']) for e in extraction if 'unit' in e],
            verification_queries=funcs,
            backends=['verus 0.2026.09.13 / z3 (bundled)'],
            smt_time_s=round(smt_us / 1e6, 3),
            extraction=extraction,
            contracts_assumed_for_in_repo_callees=stubs,
            guards=dict(vacuity_twins=sum(1 for e in extraction if e.get('has_vacuity_twin')),
                        shim_consistency=sum(1 for r in results if any(m.get('region') == 'guard' for m in r['linemap']))),
            known_findings_seen=known, foreign_failures=[dict(unit=f['unit'], obligation=f['obligation'], props=f['props']) for f in foreign],
            undecided=undecided, notes=notes,
            thorough=thorough,
            not_covered=load_json(os.path.join(ROOT, 'scope.json'), {}).get(prop, {}).get('not_covered', ''),
        ),
        assumptions=load_json(os.path.join(ROOT, 'scope.json'), {}).get('_assumptions', []),
        wall_s=round(wall, 2), violations=len(seen),
    )
    os.makedirs(EVID, exist_ok=True)
    with open(os.path.join(EVID, prop + '.json'), 'w') as fh:
        json.dump(ev, fh, indent=1)
    if rebaseline:
        if status == 0:
            do_rebaseline(results)
        else:
            lines.append('note: baseline NOT rewritten (status %d)' % status)
    for ln in lines:
        print(ln)
    print('%s %s: %d/%d verification queries discharged over %d units in %d templates, %.1fs (smt %.2fs)%s' % (
        prop, {0: 'OK', 1: 'VIOLATION', 2: 'UNDECIDED'}[status], discharged, obligations,
        sum(1 for e in extraction if 'unit' in e), len(tpls), wall, smt_us / 1e6,
        ', %d known finding(s)' % len(known) if known else ''))
    return status


def thorough_extras(prop, kf):
    """thorough tier: (a) mutation self-test of the contracts serving this property (each hand-written property-breaking
    edit in mutants.json is applied to a scratch copy of the sources and must be rejected), (b) replay of the known
    findings of this property against the real code."""
    import subprocess
    res = dict(undecided=[])
    muts = [m for m in load_json(os.path.join(ROOT, 'mutants.json'), []) if m.get('prop') == prop]
    if muts and REPO == '/repo' or (muts and os.environ.get('VERIF_REPO')):
        env = dict(os.environ, VERIF_NO_NESTED='1', VERIF_TIER='quick')
        p = subprocess.run([os.path.join(ROOT, 'tools', 'mutants.py')] + ['=' + m['id'] for m in muts], capture_output=True, text=True, env=env)
        rows = [ln.split() for ln in p.stdout.split('\n') if ln and not ln.startswith('killed ')]
        killed = [r[0] for r in rows if len(r) > 1 and r[1] == 'killed']
        survived = [r[0] for r in rows if len(r) > 1 and r[1] == 'SURVIVED']
        other = [r[0] for r in rows if len(r) > 1 and r[1] not in ('killed', 'SURVIVED')]
        res['mutation_self_test'] = dict(mutants=len(muts), killed=len(killed), survived=survived, undecided_or_skipped=other)
        if survived:
            res['undecided'].append('mutation self-test: contract too weak, surviving mutants: %s' % ', '.join(survived))
    fnd = [f for f in kf if prop in f.get('properties', [])]
    if fnd:
        p = subprocess.run([os.path.join(ROOT, 'tools', 'replay_findings.py')], capture_output=True, text=True)
        rep = {}
        for ln in p.stdout.split('\n'):
            mm = re.match(r'REPLAY (F\d+) (reproduces|does NOT reproduce)', ln)
            if mm:
                rep[mm.group(1)] = (mm.group(2) == 'reproduces')
        res['findings_replayed_on_real_code'] = {f['id']: dict(status=f.get('status'), reproduces=rep.get(f['id'])) for f in fnd}
        for f in fnd:
            r = rep.get(f['id'])
            if f.get('status') == 'fixed' and r is True:
                res['undecided'].append('finding %s is recorded as fixed but its replay still exhibits the defect on the real code' % f['id'])
    return res


def do_rebaseline(results):
    expected = load_json(os.path.join(ROOT, 'expected.json'), {})
    os.makedirs(os.path.join(ROOT, 'pinned'), exist_ok=True)
    for r in results:
        expected[r['info']['template']] = dict(functions=sorted(k for k, v in r['functions'].items() if v['success']))
        for e in r['info']['extraction']:
            if 'unit' in e:
                with open(os.path.join(ROOT, 'pinned', re.sub(r'\W+', '_', e['unit']) + '.json'), 'w') as fh:
                    json.dump(dict(unit=e['unit'], file=e['file'], lines=e['lines'], sha256=e['sha256'], source_text=e['source_text']), fh, indent=1)
    with open(os.path.join(ROOT, 'expected.json'), 'w') as fh:
        json.dump(expected, fh, indent=1, sort_keys=True)


def main(argv):
    import argparse
    ap = argparse.ArgumentParser()
    ap.add_argument('prop')
    ap.add_argument('--tier', default=os.environ.get('VERIF_TIER', 'quick'))
    ap.add_argument('--replay')
    ap.add_argument('--rebaseline', action='store_true')
    a = ap.parse_args(argv)
    seed = int(os.environ.get('VERIF_SEED', '0') or 0)
    if a.replay:
        print(open(a.replay).read())
        return 0
    if a.prop == 'all':
        props = sorted({p for t in glob.glob(os.path.join(ROOT, 'units', '*.rs')) for p in template_props(t)})
        rc = 0
        for p in props:
            rc = max(rc, check_property(p, a.tier, seed, a.rebaseline))
        return rc
    return check_property(a.prop, a.tier, seed, a.rebaseline)


if __name__ == '__main__':
    try:
        rc = main(sys.argv[1:])
    except SystemExit:
        raise
    except BaseException:   # an internal error must never look like a violation (exit 1)
        traceback.print_exc()
        print('UNDECIDED internal error in the checker')
        rc = 2
    sys.exit(rc)
