"""Token-level helpers for Rust source text.

Nothing here parses Rust; it only knows enough lexical structure (comments,
string/char literals, nesting of () [] {}) to cut items out of a file and to
find loop headers / closures inside a function body.  Whenever something is
ambiguous or missing the helpers raise LostAnchor, which the runner turns into
exit status 2 (undecided), never into an alarm.
"""
import re


class LostAnchor(Exception):
    pass


def mask(src: str) -> str:
    return mask2(src)[0]


def mask2(src: str):
    """Return (mask, kinds): `mask` is a string of the same length as `src` in which the contents of
    comments, string literals and char literals are replaced by spaces
    (newlines are kept).  Brace matching and regex searches run on the mask;
    text is always cut from the original."""
    out = list(src)
    kinds = [' '] * len(src)
    i, n = 0, len(src)

    def blank(a, b, kind='s'):
        for k in range(a, min(b, n)):
            kinds[k] = kind
            if out[k] != '\n':
                out[k] = ' '

    while i < n:
        c = src[i]
        if c == '/' and i + 1 < n and src[i + 1] == '/':
            j = src.find('\n', i)
            if j < 0:
                j = n
            blank(i, j, 'c')
            i = j
        elif c == '/' and i + 1 < n and src[i + 1] == '*':
            depth, j = 1, i + 2
            while j < n and depth:
                if src.startswith('/*', j):
                    depth += 1
                    j += 2
                elif src.startswith('*/', j):
                    depth -= 1
                    j += 2
                else:
                    j += 1
            blank(i, j, 'c')
            i = j
        elif c == '"' or (c in 'rb' and re.match(r'(?:b?r#*"|b")', src[i:i + 8]) and (i == 0 or not (src[i - 1].isalnum() or src[i - 1] == '_'))):
            m = re.match(r'(b?)(r(#*))?"', src[i:i + 12])
            if not m:
                i += 1
                continue
            start = i
            i += m.end()
            if m.group(2):  # raw string
                term = '"' + m.group(3)
                j = src.find(term, i)
                if j < 0:
                    j = n
                blank(start + m.end(), j)
                i = j + len(term)
            else:
                j = i
                while j < n and src[j] != '"':
                    if src[j] == '\\':
                        j += 1
                    j += 1
                blank(start + 1, j)
                i = j + 1
        elif c == "'":
            # char literal or lifetime
            m = re.match(r"'(\\.[^']*|[^\\'])'", src[i:i + 12])
            if m:
                blank(i + 1, i + m.end() - 1)
                i += m.end()
            else:
                i += 1
        else:
            i += 1
    return ''.join(out), kinds


OPEN = {'(': ')', '[': ']', '{': '}'}
CLOSE = {')': '(', ']': '[', '}': '{'}


def match_close(msk: str, pos: int) -> int:
    """msk[pos] is an opening bracket; return the index of its partner."""
    assert msk[pos] in OPEN, (pos, msk[pos:pos + 20])
    stack = []
    for i in range(pos, len(msk)):
        c = msk[i]
        if c in OPEN:
            stack.append(c)
        elif c in CLOSE:
            if not stack or stack[-1] != CLOSE[c]:
                raise LostAnchor('unbalanced brackets near offset %d' % i)
            stack.pop()
            if not stack:
                return i
    raise LostAnchor('unterminated bracket at offset %d' % pos)


def depth_at(msk: str, start: int, pos: int) -> int:
    """Brace ({}) depth of `pos` relative to `start`."""
    d = 0
    for i in range(start, pos):
        if msk[i] == '{':
            d += 1
        elif msk[i] == '}':
            d -= 1
    return d


def line_of(src: str, pos: int) -> int:
    return src.count('\n', 0, pos) + 1


def find_scope(src: str, msk: str, scope_re: str, nth: int = 1):
    """Return (start, end) offsets of the inside of the braces of the nth item
    whose header matches scope_re (searched on the mask, whitespace
    normalised: any run of whitespace in the pattern matches any run)."""
    if scope_re in ('top', ''):
        return 0, len(src)
    pat = re.compile(scope_re)
    hits = [m for m in pat.finditer(msk)]
    if len(hits) < nth:
        raise LostAnchor('scope /%s/ (occurrence %d) not found' % (scope_re, nth))
    m = hits[nth - 1]
    b = msk.find('{', m.end() - 1 if msk[m.end() - 1] == '{' else m.end())
    if b < 0:
        raise LostAnchor('scope /%s/: no opening brace' % scope_re)
    # there must be no ';' or '}' between header and brace (would be another item)
    between = msk[m.end():b]
    if ';' in between or '}' in between:
        raise LostAnchor('scope /%s/: header not followed by a block' % scope_re)
    e = match_close(msk, b)
    return b + 1, e


def find_fn(src: str, msk: str, lo: int, hi: int, name: str, nth: int = 1):
    """Find `fn name` at brace depth 0 inside [lo, hi).  Returns a dict with
    offsets: item_start (start of the line holding `fn`, after attributes),
    sig_start (the `fn` keyword incl. visibility), body_open, body_close."""
    pat = re.compile(r'\bfn\s+%s\b' % re.escape(name))
    hits = []
    for m in pat.finditer(msk, lo, hi):
        if depth_at(msk, lo, m.start()) == 0:
            hits.append(m)
    if len(hits) < nth:
        raise LostAnchor('fn %s (occurrence %d) not found in scope' % (name, nth))
    if len(hits) > nth and nth == 1 and len(hits) != 1:
        raise LostAnchor('fn %s is ambiguous in scope (%d matches)' % (name, len(hits)))
    m = hits[nth - 1]
    # visibility / qualifiers in front of `fn`
    s = m.start()
    pre = re.search(r'((?:pub(?:\s*\([^)]*\))?\s+)?(?:const\s+)?(?:unsafe\s+)?)$', msk[lo:s])
    sig_start = s - len(pre.group(1)) if pre else s
    # first '{' or ';' after the parameter list
    p = msk.find('(', m.end())
    if p < 0:
        raise LostAnchor('fn %s: no parameter list' % name)
    pe = match_close(msk, p)
    i = pe + 1
    body_open = None
    while i < hi:
        c = msk[i]
        if c == '{':
            body_open = i
            break
        if c == ';':
            raise LostAnchor('fn %s has no body (declaration only)' % name)
        if c in '([':
            i = match_close(msk, i)
        i += 1
    if body_open is None:
        raise LostAnchor('fn %s: no body' % name)
    body_close = match_close(msk, body_open)
    return dict(sig_start=sig_start, name_end=m.end(), params_open=p, params_close=pe,
                body_open=body_open, body_close=body_close)


def split_top(text: str, msk: str, sep: str = ','):
    """Split text at depth-0 separators (depth counts () [] {} and <>)."""
    parts, depth, cur, angle = [], 0, 0, 0
    i = 0
    while i < len(msk):
        c = msk[i]
        if c in OPEN:
            depth += 1
        elif c in CLOSE:
            depth -= 1
        elif c == '<':
            angle += 1
        elif c == '>' and i > 0 and msk[i - 1] != '-' and msk[i - 1] != '=':
            angle = max(0, angle - 1)
        elif c == sep and depth == 0 and angle == 0:
            parts.append(text[cur:i])
            cur = i + 1
        i += 1
    parts.append(text[cur:])
    return parts


def param_names(params_text: str):
    """Names of the parameters in the text between the parentheses of a fn."""
    msk = mask(params_text)
    names = []
    for part in split_top(params_text, msk):
        p = mask(part).strip()
        if not p:
            continue
        if re.match(r'^(&\s*)?(\'\w+\s+)?(mut\s+)?self\b', p):
            names.append('self')
            continue
        head = p.split(':', 1)[0].strip()
        head = re.sub(r'^(mut|ref)\s+', '', head)
        head = re.sub(r'^Tracked\((.*)\)$', r'\1', head)
        names.append(head)
    return names


LOOP_KW = re.compile(r'\b(for|while|loop)\b')


def find_loops(msk: str, lo: int, hi: int):
    """Loop headers in [lo,hi) in source order.  Each: dict(kw, kw_pos,
    brace_pos, in_pos (for `for`: offset just after ' in ')).  `for<'a>` is
    skipped."""
    res = []
    for m in LOOP_KW.finditer(msk, lo, hi):
        kw = m.group(1)
        j = m.end()
        if kw == 'for' and re.match(r'\s*<', msk[j:j + 4]):
            continue
        # preceded by '.'?  (method named loop/for cannot happen; be safe)
        k = m.start() - 1
        while k >= lo and msk[k] in ' \t':
            k -= 1
        if k >= lo and msk[k] == '.':
            continue
        # find the body brace at bracket depth 0
        i, brace, inpos = j, None, None
        while i < hi:
            c = msk[i]
            if c == '{':
                brace = i
                break
            if c in '([':
                i = match_close(msk, i)
            elif kw == 'for' and inpos is None and re.match(r'\bin\b', msk[i:i + 3]) and not (msk[i - 1].isalnum() or msk[i - 1] == '_'):
                inpos = i + 2
            i += 1
        if brace is None:
            raise LostAnchor('loop header without body')
        res.append(dict(kw=kw, kw_pos=m.start(), brace_pos=brace, in_pos=inpos))
    return res


def find_closures(msk: str, lo: int, hi: int):
    """Closures in [lo,hi) in source order.  A closure header is `|...|`
    (or `||`) whose opening bar follows one of ( , = or the keyword move/return,
    i.e. stands in expression position.  Returns dicts with head_start,
    head_end (just after the closing bar), body_start, body_end, block (bool)."""
    res = []
    i = lo
    while i < hi:
        if msk[i] == '|':
            k = i - 1
            while k >= lo and msk[k] in ' \t\n':
                k -= 1
            prev = msk[k] if k >= lo else '('
            is_kw = bool(re.search(r'\b(move|return)$', msk[max(lo, k - 6):k + 1]))
            if (prev in '(,=' or is_kw) and not (msk[i + 1:i + 2] == '=' ) and not (prev == '=' and msk[k - 1] in '|&^'):
                hs = i
                if is_kw and msk[max(lo, k - 3):k + 1] == 'move':
                    hs = k - 3
                if msk[i + 1] == '|':
                    he = i + 2
                else:
                    j = i + 1
                    while j < hi and msk[j] != '|':
                        if msk[j] in OPEN:
                            j = match_close(msk, j)
                        j += 1
                    he = j + 1
                # optional return type
                j = he
                while j < hi and msk[j] in ' \t\n':
                    j += 1
                bs = j
                if msk[bs:bs + 2] == '->':
                    # explicit return type: the body is the block that follows; the type belongs to the header
                    k2 = bs
                    while k2 < hi and msk[k2] != '{':
                        if msk[k2] in '([':
                            k2 = match_close(msk, k2)
                        k2 += 1
                    he = k2
                    bs = k2
                if msk[bs] == '{':
                    be = match_close(msk, bs) + 1
                    block = True
                else:
                    # expression up to the enclosing ')' or a depth-0 ','
                    j = bs
                    while j < hi:
                        c = msk[j]
                        if c in OPEN:
                            j = match_close(msk, j)
                        elif c in ')]},;':
                            break
                        j += 1
                    be = j
                    block = False
                res.append(dict(head_start=hs, head_end=he, body_start=bs, body_end=be, block=block))
                i = he
                continue
        i += 1
    return res


def strip_comments(src: str) -> str:
    """Remove // and /* */ comments (keeps string contents)."""
    _, kinds = mask2(src)
    return ''.join(ch for ch, k in zip(src, kinds) if k != 'c')
