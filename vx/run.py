"""Run Verus on assembled units and classify the outcome."""
import json
import os
import re
import subprocess
import time

from .assemble import assemble, ROOT
from .rust_text import LostAnchor

BUILD = os.environ.get('VERIF_BUILD_DIR') or os.path.join(ROOT, 'build')

VERIF_FAIL = [
    'postcondition not satisfied',
    'precondition not satisfied',
    'precondition not met',
    'invariant not satisfied at end of loop body',
    'invariant not satisfied before loop',
    'assertion failed',
    'unable to prove post-condition of closure',
    'possible arithmetic underflow/overflow',
    'possible division by zero',
    'possible bit shift underflow/overflow',
    'decreases not satisfied',
    'loop invariant not satisfied',
    'cannot show invariant',
    'unable to prove',
    'might not be allowed',
    'recommendation not met',
    'could not prove termination',
    'unreachable',
    'fails to satisfy',
]
SAFETY = ['precondition not satisfied', 'precondition not met', 'possible arithmetic underflow/overflow', 'possible division by zero',
          'possible bit shift underflow/overflow', 'decreases not satisfied', 'could not prove termination']
RESOURCE = ['Resource limit', 'rlimit', 'timed out', 'canceled']


def verus_cmd(path, rlimit=None, seed=None):
    cmd = ['verus', path, '--multiple-errors', '200', '--triggers-mode', 'silent', '--output-json', '--time']
    if rlimit:
        cmd += ['--rlimit', str(rlimit)]
    if seed is not None:
        cmd += ['--smt-option', 'smt.random_seed=%d' % seed]
    cmd += ['--', '--error-format=json']
    return cmd


def run_verus(path, rlimit=None, seed=None, timeout=None):
    import signal
    timeout = timeout or int(os.environ.get('VERIF_VERUS_TIMEOUT', '900'))
    t0 = time.time()
    cmd = verus_cmd(path, rlimit, seed)
    # own process group, so that a timeout also kills the z3 child
    p = subprocess.Popen(cmd, stdout=subprocess.PIPE, stderr=subprocess.PIPE, text=True, cwd=os.path.dirname(path), start_new_session=True)
    try:
        out, err = p.communicate(timeout=timeout)
        rc = p.returncode
    except subprocess.TimeoutExpired:
        try:
            os.killpg(p.pid, signal.SIGKILL)
        except Exception:
            pass
        out, err = p.communicate()
        out, err, rc = out or '', 'TIMEOUT after %ds (solver did not return)' % timeout, 124
    wall = time.time() - t0
    diags = []
    for ln in err.split('\n'):
        ln = ln.strip()
        if ln.startswith('{'):
            try:
                diags.append(json.loads(ln))
            except Exception:
                pass
    res = None
    try:
        res = json.loads(out[out.index('{'):]) if '{' in out else None
    except Exception:
        res = None
    return dict(cmd=' '.join(cmd), rc=rc, wall=wall, diags=diags, json=res, stderr=err if rc not in (0, 1) or not diags else '')


def function_results(vjson):
    """{function name (module prefix stripped): dict(success, time_us, rlimit)}"""
    res = {}
    if not vjson:
        return res
    try:
        mods = vjson['times-ms']['smt']['smt-run-module-times']
    except Exception:
        return res
    for m in mods:
        for f in m.get('function-breakdown', []):
            nm = f['function'].split('::', 1)[1] if '::' in f['function'] else f['function']
            r = res.setdefault(nm, dict(success=True, time_us=0, rlimit=0))
            r['success'] = r['success'] and bool(f.get('success'))
            r['time_us'] += f.get('time-micros', 0)
            r['rlimit'] += f.get('rlimit', 0)
    return res


def classify_diag(d, linemap, text_lines=None):
    """Map one rustc/Verus diagnostic to a dict describing it."""
    msg = d.get('message', '')
    level = d.get('level')
    spans = d.get('spans', [])
    if level != 'error':
        return None
    if msg.startswith('aborting due to'):
        return None
    kind = 'tool'
    for v in VERIF_FAIL:
        if v in msg:
            kind = 'verification'
            break
    if any(r in msg for r in RESOURCE):
        kind = 'resource'
    site, clause = None, None
    labels = []
    for s in spans:
        ln = s.get('line_start', 0)
        info = dict(linemap[ln - 1]) if 0 < ln <= len(linemap) else {}
        # a clause may span several lines: its tags sit at the end of its last line
        for l2 in range(ln, min(s.get('line_end', ln), ln + 8, len(linemap)) + 1):
            t2 = linemap[l2 - 1].get('tags')
            if t2 and not info.get('tags'):
                info['tags'] = t2
        lab = s.get('label') or ''
        labels.append(lab)
        ent = dict(line=ln, label=lab, info=info, text=(s.get('text') or [{}])[0].get('text', '').strip())
        if 'failed this postcondition' in lab or 'failed precondition' in lab or 'failed this' in lab:
            clause = ent
        elif site is None or s.get('is_primary'):
            if site is None or info.get('unit'):
                site = ent
    if site is None and clause is not None:
        site = clause
    # the unit is where the failing code is (site); fall back to the clause
    unit, region = None, None
    for ent in (site, clause):
        if ent and ent['info'].get('unit'):
            unit = ent['info']['unit']
            region = ent['info'].get('region')
            break
    if region is None and site:
        region = site['info'].get('region')
    safety = any(s in msg for s in SAFETY)
    if safety and 'precondition not' in msg and clause is not None and text_lines is not None:
        # the failed precondition of a PROOF function (a lemma of the contract's own argument) is a functional obligation, not a
        # run-time safety condition: find the header of the function the clause belongs to
        for l2 in range(clause['line'], max(0, clause['line'] - 60), -1):
            t2 = text_lines[l2 - 1] if 0 < l2 <= len(text_lines) else ''
            if re.search(r'\bfn\s+\w+', t2):
                if re.search(r'\bproof\s+fn\b', t2):
                    safety = False
                break
    if 'precondition not satisfied' in msg and clause is not None and clause['info'].get('region', '').startswith(('unit', 'stub', 'finding')):
        # precondition of an in-repo callee: a functional obligation of the caller
        safety = True
    return dict(kind=kind, message=msg, unit=unit, region=region, site=site, clause=clause, safety=safety,
                rendered=d.get('rendered', ''))


def run_template(tpath, open_findings=(), rlimit=None, seed=None, tag=''):
    """Assemble + verify one template.  Returns a result dict; raises LostAnchor."""
    os.makedirs(BUILD, exist_ok=True)
    text, linemap, info = assemble(tpath, open_findings)
    base = os.path.splitext(os.path.basename(tpath))[0]
    out = os.path.join(BUILD, base + tag + '.rs')
    with open(out, 'w') as fh:
        fh.write(text)
    r = run_verus(out, rlimit, seed)
    fr = function_results(r['json'])
    tl = text.split('\n')
    issues = [c for c in (classify_diag(d, linemap, tl) for d in r['diags']) if c]
    return dict(template=info['template'], emitted=out, info=info, linemap=linemap, verus=r, functions=fr, issues=issues,
                summary=(r['json'] or {}).get('verification-results'))
