// ===== shim/poly.rs : ASSUMED contracts of ark-poly DensePolynomial (trusted) =====
pub struct Poly { pub coeffs: Vec<Fr> }
impl Poly {
    pub open spec fn cv(&self) -> Seq<FS> { fviews(self.coeffs@) }
    pub open spec fn len(&self) -> nat { self.coeffs@.len() }
    pub open spec fn ev(&self, x: FS) -> FS { peval(self.cv(), x, self.len()) }
    pub open spec fn is_zero_spec(&self) -> bool { forall|i: int| 0 <= i < self.coeffs@.len() ==> (#[trigger] self.coeffs@[i])@ == f_zero() }
    // type invariant of DensePolynomial: no trailing zero coefficient
    pub open spec fn wf(&self) -> bool { self.coeffs@.len() == 0 || self.coeffs@[self.coeffs@.len() - 1]@ != f_zero() }
    pub open spec fn degree_spec(&self) -> nat { if self.is_zero_spec() { 0 } else { (self.coeffs@.len() - 1) as nat } }
    pub fn coeffs(&self) -> (r: &[Fr]) ensures r@ == self.coeffs@ { self.coeffs.as_slice() }
    // ark-poly: `if self.is_zero() { 0 } else { assert!(last != 0); len - 1 }`  (the assert is divergence)
    #[verifier::external_body] pub fn degree(&self) -> (r: usize) ensures r == self.degree_spec(), !self.is_zero_spec() ==> self.wf() { unimplemented!() }
    #[verifier::external_body] pub fn is_zero(&self) -> (r: bool) ensures r == self.is_zero_spec() { unimplemented!() }
    #[verifier::external_body] pub fn zero() -> (r: Poly) ensures r.coeffs@.len() == 0 { unimplemented!() }
    #[verifier::external_body] pub fn evaluate(&self, point: &Fr) -> (r: Fr) ensures r@ == self.ev(point@) { unimplemented!() }
    // truncates trailing zeros: same evaluation function, prefix of the input
    #[verifier::external_body] pub fn from_coefficients_vec(v: Vec<Fr>) -> (r: Poly)
        ensures r.wf(), r.coeffs@.len() <= v@.len(), r.coeffs@ == v@.subrange(0, r.coeffs@.len() as int),
                forall|i: int| r.coeffs@.len() <= i < v@.len() ==> (#[trigger] v@[i])@ == f_zero(),
                (v@.len() > 0 && v@[v@.len() - 1]@ != f_zero()) ==> r.coeffs@ == v@ { unimplemented!() }
    // P::rand(d, rng): d + 1 coefficients taken from the caller's stream (ark-poly re-samples the leading one until non-zero:
    // modelled as one draw that is non-zero)
    #[verifier::external_body] pub fn rand(d: usize, rng: &mut Rng) -> (r: Poly)
        ensures r.coeffs@.len() == d + 1, r.wf(), final(rng).id == old(rng).id, final(rng).pos@ == old(rng).pos@ + d + 1, final(rng).present == old(rng).present, old(rng).present@,
                forall|i: int| 0 <= i <= d ==> (#[trigger] r.coeffs@[i])@ == draw(old(rng).id@, old(rng).pos@ + i as nat) { unimplemented!() }
    #[verifier::external_body] pub fn clone(&self) -> (r: Poly) ensures r.coeffs@ == self.coeffs@ { unimplemented!() }
}
// Euclidean division `&p / &d` (ark-poly divide_with_q_and_r, quotient only):  p = q*d + r with r = 0 or deg r < deg d.
// Stated through evaluations; for a monic linear divisor d = X - z the remainder is the constant p(z).  A dividend shorter than the
// divisor gives the zero quotient (`self.degree() < divisor.degree()` branch).
pub open spec fn euclid(p: &Poly, d: &Poly, q: &Poly, r: Seq<FS>) -> bool {
    r.len() < d.coeffs@.len() && forall|x: FS| p.ev(x) == f_add(f_mul(#[trigger] q.ev(x), d.ev(x)), peval(r, x, r.len()))
}
pub open spec fn is_linear_monic(d: &Poly) -> bool { d.coeffs@.len() == 2 && d.coeffs@[1]@ == f_one() }
pub open spec fn lin_root(d: &Poly) -> FS { f_neg(d.coeffs@[0]@) }   // d = X - lin_root(d)
impl vstd::std_specs::ops::DivSpecImpl<&Poly> for &Poly {
    open spec fn obeys_div_spec() -> bool { false }
    open spec fn div_req(self, rhs: &Poly) -> bool { !rhs.is_zero_spec() }
    open spec fn div_spec(self, rhs: &Poly) -> Poly { arbitrary() }
}
impl Div<&Poly> for &Poly { type Output = Poly; #[verifier::external_body] fn div(self, rhs: &Poly) -> (q: Poly)
    ensures q.wf(), q.coeffs@.len() + 1 <= self.coeffs@.len() || q.coeffs@.len() == 0,
            is_linear_monic(rhs) ==> forall|x: FS| self.ev(x) == f_add(f_mul(#[trigger] q.ev(x), f_sub(x, lin_root(rhs))), self.ev(lin_root(rhs))),
            (self.wf() && rhs.wf()) ==> exists|r: Seq<FS>| #[trigger] euclid(self, rhs, &q, r),
            (self.wf() && rhs.wf() && self.coeffs@.len() < rhs.coeffs@.len()) ==> q.coeffs@.len() == 0,
    { unimplemented!() } }
impl vstd::std_specs::ops::DivSpecImpl<Poly> for &Poly {
    open spec fn obeys_div_spec() -> bool { false }
    open spec fn div_req(self, rhs: Poly) -> bool { !rhs.is_zero_spec() }
    open spec fn div_spec(self, rhs: Poly) -> Poly { arbitrary() }
}
impl Div<Poly> for &Poly { type Output = Poly; #[verifier::external_body] fn div(self, rhs: Poly) -> (q: Poly)
    ensures q.wf(), q.coeffs@.len() + 1 <= self.coeffs@.len() || q.coeffs@.len() == 0,
            is_linear_monic(&rhs) ==> forall|x: FS| self.ev(x) == f_add(f_mul(#[trigger] q.ev(x), f_sub(x, lin_root(&rhs))), self.ev(lin_root(&rhs))),
            (self.wf() && rhs.wf()) ==> exists|r: Seq<FS>| #[trigger] euclid(self, &rhs, &q, r),
            (self.wf() && rhs.wf() && self.coeffs@.len() < rhs.coeffs@.len()) ==> q.coeffs@.len() == 0,
    { unimplemented!() } }
impl vstd::std_specs::ops::DivSpecImpl<&Poly> for Poly {
    open spec fn obeys_div_spec() -> bool { false }
    open spec fn div_req(self, rhs: &Poly) -> bool { !rhs.is_zero_spec() }
    open spec fn div_spec(self, rhs: &Poly) -> Poly { arbitrary() }
}
impl Div<&Poly> for Poly { type Output = Poly; #[verifier::external_body] fn div(self, rhs: &Poly) -> (q: Poly)
    ensures q.wf(), q.coeffs@.len() + 1 <= self.coeffs@.len() || q.coeffs@.len() == 0,
            is_linear_monic(rhs) ==> forall|x: FS| self.ev(x) == f_add(f_mul(#[trigger] q.ev(x), f_sub(x, lin_root(rhs))), self.ev(lin_root(rhs))),
            (self.wf() && rhs.wf()) ==> exists|r: Seq<FS>| #[trigger] euclid(&self, rhs, &q, r),
            (self.wf() && rhs.wf() && self.coeffs@.len() < rhs.coeffs@.len()) ==> q.coeffs@.len() == 0,
    { unimplemented!() } }
impl vstd::std_specs::ops::DivSpecImpl<Poly> for Poly {
    open spec fn obeys_div_spec() -> bool { false }
    open spec fn div_req(self, rhs: Poly) -> bool { !rhs.is_zero_spec() }
    open spec fn div_spec(self, rhs: Poly) -> Poly { arbitrary() }
}
impl Div<Poly> for Poly { type Output = Poly; #[verifier::external_body] fn div(self, rhs: Poly) -> (q: Poly)
    ensures q.wf(), q.coeffs@.len() + 1 <= self.coeffs@.len() || q.coeffs@.len() == 0,
            is_linear_monic(&rhs) ==> forall|x: FS| self.ev(x) == f_add(f_mul(#[trigger] q.ev(x), f_sub(x, lin_root(&rhs))), self.ev(lin_root(&rhs))),
            (self.wf() && rhs.wf()) ==> exists|r: Seq<FS>| #[trigger] euclid(&self, &rhs, &q, r),
            (self.wf() && rhs.wf() && self.coeffs@.len() < rhs.coeffs@.len()) ==> q.coeffs@.len() == 0,
    { unimplemented!() } }
// p += (f, &q)  and  p += &q   (ark-poly AddAssign impls): pointwise linear
impl vstd::std_specs::ops::AddAssignSpecImpl<(Fr, &Poly)> for Poly {
    open spec fn obeys_add_assign_spec() -> bool { false }
    open spec fn add_assign_req(&self, rhs: (Fr, &Poly)) -> bool { true }
    open spec fn add_assign_spec(&self, rhs: (Fr, &Poly)) -> &Poly { arbitrary() }
}
impl AddAssign<(Fr, &Poly)> for Poly { #[verifier::external_body] fn add_assign(&mut self, rhs: (Fr, &Poly))
    ensures forall|x: FS| #[trigger] final(self).ev(x) == f_add(old(self).ev(x), f_mul(rhs.0@, rhs.1.ev(x))),
            final(self).coeffs@.len() <= (if old(self).coeffs@.len() >= rhs.1.coeffs@.len() { old(self).coeffs@.len() } else { rhs.1.coeffs@.len() }),
    { unimplemented!() } }
impl vstd::std_specs::ops::AddAssignSpecImpl<&Poly> for Poly {
    open spec fn obeys_add_assign_spec() -> bool { false }
    open spec fn add_assign_req(&self, rhs: &Poly) -> bool { true }
    open spec fn add_assign_spec(&self, rhs: &Poly) -> &Poly { arbitrary() }
}
impl AddAssign<&Poly> for Poly { #[verifier::external_body] fn add_assign(&mut self, rhs: &Poly)
    ensures forall|x: FS| #[trigger] final(self).ev(x) == f_add(old(self).ev(x), rhs.ev(x)),
            final(self).coeffs@.len() <= (if old(self).coeffs@.len() >= rhs.coeffs@.len() { old(self).coeffs@.len() } else { rhs.coeffs@.len() }),
    { unimplemented!() } }
