// ===== shim/real.rs : f64 modelled as mathematical reals (rewrite R8) -- ASSUMPTION: machine floating point is treated as
// exact real arithmetic; `ok` is false for NaN / infinities (division by zero, log2 of a non-positive number) =====
pub uninterp spec fn r_log2(x: real) -> real;
pub uninterp spec fn r_pow(x: real, t: int) -> real;       // x^t
pub uninterp spec fn r_ceil(x: real) -> int;
pub uninterp spec fn r_sqrt(x: real) -> real;
pub broadcast axiom fn ax_log_mono(a: real, b: real)
    requires 0real < a, 0real < b
    ensures (a <= b) == (#[trigger] r_log2(a) <= #[trigger] r_log2(b));
pub broadcast axiom fn ax_log_pow(x: real, t: int)
    requires 0real < x, t >= 0
    ensures #[trigger] r_log2(r_pow(x, t)) == (t as real) * r_log2(x), r_pow(x, t) > 0real;
pub broadcast axiom fn ax_log_half(a: real)
    requires 0real < a
    ensures #[trigger] r_log2(a / 2real) == r_log2(a) - 1real;
pub axiom fn ax_log_one() ensures r_log2(1real) == 0real;
pub axiom fn ax_pow_pos(x: real, t: int) requires 0real < x ensures r_pow(x, t) > 0real;
pub axiom fn ax_pow2_le_one(t: int) requires t <= 0 ensures r_pow(2real, t) <= 1real;
pub axiom fn ax_ceil(x: real) ensures (r_ceil(x) as real) >= x, (r_ceil(x) as real) < x + 1real;
pub axiom fn ax_ceil_int(i: int) ensures r_ceil(i as real) == i;
pub axiom fn ax_sqrt(x: real) requires x >= 0real ensures r_sqrt(x) >= 0real, r_sqrt(x) * r_sqrt(x) == x;
#[derive(Clone, Copy)] pub struct R64 { pub v: Ghost<real>, pub ok: Ghost<bool> }
impl View for R64 { type V = real; open spec fn view(&self) -> real { self.v@ } }
impl R64 {
    pub open spec fn mk(x: real, ok: bool) -> R64 { R64 { v: Ghost(x), ok: Ghost(ok) } }
    #[verifier::external_body] pub fn from_usize(x: usize) -> (r: R64) ensures r@ == x as real, r.ok@ { unimplemented!() }
    #[verifier::external_body] pub fn lit(a: u64, b: u64) -> (r: R64) requires b > 0 ensures r@ == (a as real) / (b as real), r.ok@ { unimplemented!() }
    #[verifier::external_body] pub fn lit0() -> (r: R64) ensures r@ == 0real, r.ok@ { unimplemented!() }
    #[verifier::external_body] pub fn lit1() -> (r: R64) ensures r@ == 1real, r.ok@ { unimplemented!() }
    #[verifier::external_body] pub fn lit2() -> (r: R64) ensures r@ == 2real, r.ok@ { unimplemented!() }
    #[verifier::external_body] pub fn lit_half() -> (r: R64) ensures r@ == 1real / 2real, r.ok@ { unimplemented!() }
    #[verifier::external_body] pub fn powi(self, e: i32) -> (r: R64) ensures r@ == r_pow(self@, e as int), r.ok@ == (self.ok@ && (self@ != 0real || e >= 0)) { unimplemented!() }
    #[verifier::external_body] pub fn log2(self) -> (r: R64) ensures r.ok@ == (self.ok@ && self@ > 0real), r.ok@ ==> r@ == r_log2(self@) { unimplemented!() }
    #[verifier::external_body] pub fn sqrt(self) -> (r: R64) ensures r.ok@ == (self.ok@ && self@ >= 0real), r.ok@ ==> r@ == r_sqrt(self@) { unimplemented!() }
    #[verifier::external_body] pub fn ceil(self) -> (r: R64) ensures r.ok@ == self.ok@, r@ == r_ceil(self@) as real { unimplemented!() }
    // f64::is_normal: neither zero, infinite, subnormal nor NaN (subnormals are outside the real model)
    #[verifier::external_body] pub fn is_normal(self) -> (r: bool) ensures r == (self.ok@ && self@ != 0real) { unimplemented!() }
    // f64::is_finite: neither infinite nor NaN (zero and subnormals ARE finite)
    #[verifier::external_body] pub fn is_finite(self) -> (r: bool) ensures r == self.ok@ { unimplemented!() }
    // `x as usize` on a float: saturating, NaN -> 0
    #[verifier::external_body] pub fn to_usize(x: R64) -> (r: usize)
        ensures !x.ok@ ==> true, x.ok@ && x@ <= 0real ==> r == 0,
                x.ok@ && x@ > 0real && x@ == r_ceil(x@) as real && r_ceil(x@) <= usize::MAX ==> r == r_ceil(x@),
                x.ok@ && x@ > 0real && r_ceil(x@) > usize::MAX ==> r == usize::MAX { unimplemented!() }
}
impl vstd::std_specs::ops::AddSpecImpl<R64> for R64 {
    open spec fn obeys_add_spec() -> bool { true }
    open spec fn add_req(self, rhs: R64) -> bool { true }
    open spec fn add_spec(self, rhs: R64) -> R64 { R64::mk(if true { self@ + rhs@ } else { 0real }, self.ok@ && rhs.ok@) }
}
impl Add<R64> for R64 { type Output = R64; #[verifier::external_body] fn add(self, rhs: R64) -> R64 { unimplemented!() } }
impl vstd::std_specs::ops::AddSpecImpl<&R64> for R64 {
    open spec fn obeys_add_spec() -> bool { true }
    open spec fn add_req(self, rhs: &R64) -> bool { true }
    open spec fn add_spec(self, rhs: &R64) -> R64 { R64::mk(if true { self@ + rhs@ } else { 0real }, self.ok@ && rhs.ok@) }
}
impl Add<&R64> for R64 { type Output = R64; #[verifier::external_body] fn add(self, rhs: &R64) -> R64 { unimplemented!() } }
impl vstd::std_specs::ops::AddSpecImpl<R64> for &R64 {
    open spec fn obeys_add_spec() -> bool { true }
    open spec fn add_req(self, rhs: R64) -> bool { true }
    open spec fn add_spec(self, rhs: R64) -> R64 { R64::mk(if true { self@ + rhs@ } else { 0real }, self.ok@ && rhs.ok@) }
}
impl Add<R64> for &R64 { type Output = R64; #[verifier::external_body] fn add(self, rhs: R64) -> R64 { unimplemented!() } }
impl vstd::std_specs::ops::AddSpecImpl<&R64> for &R64 {
    open spec fn obeys_add_spec() -> bool { true }
    open spec fn add_req(self, rhs: &R64) -> bool { true }
    open spec fn add_spec(self, rhs: &R64) -> R64 { R64::mk(if true { self@ + rhs@ } else { 0real }, self.ok@ && rhs.ok@) }
}
impl Add<&R64> for &R64 { type Output = R64; #[verifier::external_body] fn add(self, rhs: &R64) -> R64 { unimplemented!() } }
impl vstd::std_specs::ops::SubSpecImpl<R64> for R64 {
    open spec fn obeys_sub_spec() -> bool { true }
    open spec fn sub_req(self, rhs: R64) -> bool { true }
    open spec fn sub_spec(self, rhs: R64) -> R64 { R64::mk(if true { self@ - rhs@ } else { 0real }, self.ok@ && rhs.ok@) }
}
impl Sub<R64> for R64 { type Output = R64; #[verifier::external_body] fn sub(self, rhs: R64) -> R64 { unimplemented!() } }
impl vstd::std_specs::ops::SubSpecImpl<&R64> for R64 {
    open spec fn obeys_sub_spec() -> bool { true }
    open spec fn sub_req(self, rhs: &R64) -> bool { true }
    open spec fn sub_spec(self, rhs: &R64) -> R64 { R64::mk(if true { self@ - rhs@ } else { 0real }, self.ok@ && rhs.ok@) }
}
impl Sub<&R64> for R64 { type Output = R64; #[verifier::external_body] fn sub(self, rhs: &R64) -> R64 { unimplemented!() } }
impl vstd::std_specs::ops::SubSpecImpl<R64> for &R64 {
    open spec fn obeys_sub_spec() -> bool { true }
    open spec fn sub_req(self, rhs: R64) -> bool { true }
    open spec fn sub_spec(self, rhs: R64) -> R64 { R64::mk(if true { self@ - rhs@ } else { 0real }, self.ok@ && rhs.ok@) }
}
impl Sub<R64> for &R64 { type Output = R64; #[verifier::external_body] fn sub(self, rhs: R64) -> R64 { unimplemented!() } }
impl vstd::std_specs::ops::SubSpecImpl<&R64> for &R64 {
    open spec fn obeys_sub_spec() -> bool { true }
    open spec fn sub_req(self, rhs: &R64) -> bool { true }
    open spec fn sub_spec(self, rhs: &R64) -> R64 { R64::mk(if true { self@ - rhs@ } else { 0real }, self.ok@ && rhs.ok@) }
}
impl Sub<&R64> for &R64 { type Output = R64; #[verifier::external_body] fn sub(self, rhs: &R64) -> R64 { unimplemented!() } }
impl vstd::std_specs::ops::MulSpecImpl<R64> for R64 {
    open spec fn obeys_mul_spec() -> bool { true }
    open spec fn mul_req(self, rhs: R64) -> bool { true }
    open spec fn mul_spec(self, rhs: R64) -> R64 { R64::mk(if true { self@ * rhs@ } else { 0real }, self.ok@ && rhs.ok@) }
}
impl Mul<R64> for R64 { type Output = R64; #[verifier::external_body] fn mul(self, rhs: R64) -> R64 { unimplemented!() } }
impl vstd::std_specs::ops::MulSpecImpl<&R64> for R64 {
    open spec fn obeys_mul_spec() -> bool { true }
    open spec fn mul_req(self, rhs: &R64) -> bool { true }
    open spec fn mul_spec(self, rhs: &R64) -> R64 { R64::mk(if true { self@ * rhs@ } else { 0real }, self.ok@ && rhs.ok@) }
}
impl Mul<&R64> for R64 { type Output = R64; #[verifier::external_body] fn mul(self, rhs: &R64) -> R64 { unimplemented!() } }
impl vstd::std_specs::ops::MulSpecImpl<R64> for &R64 {
    open spec fn obeys_mul_spec() -> bool { true }
    open spec fn mul_req(self, rhs: R64) -> bool { true }
    open spec fn mul_spec(self, rhs: R64) -> R64 { R64::mk(if true { self@ * rhs@ } else { 0real }, self.ok@ && rhs.ok@) }
}
impl Mul<R64> for &R64 { type Output = R64; #[verifier::external_body] fn mul(self, rhs: R64) -> R64 { unimplemented!() } }
impl vstd::std_specs::ops::MulSpecImpl<&R64> for &R64 {
    open spec fn obeys_mul_spec() -> bool { true }
    open spec fn mul_req(self, rhs: &R64) -> bool { true }
    open spec fn mul_spec(self, rhs: &R64) -> R64 { R64::mk(if true { self@ * rhs@ } else { 0real }, self.ok@ && rhs.ok@) }
}
impl Mul<&R64> for &R64 { type Output = R64; #[verifier::external_body] fn mul(self, rhs: &R64) -> R64 { unimplemented!() } }
impl vstd::std_specs::ops::DivSpecImpl<R64> for R64 {
    open spec fn obeys_div_spec() -> bool { true }
    open spec fn div_req(self, rhs: R64) -> bool { true }
    open spec fn div_spec(self, rhs: R64) -> R64 { R64::mk(if rhs@ != 0real { self@ / rhs@ } else { 0real }, self.ok@ && rhs.ok@ && rhs@ != 0real) }
}
impl Div<R64> for R64 { type Output = R64; #[verifier::external_body] fn div(self, rhs: R64) -> R64 { unimplemented!() } }
impl vstd::std_specs::ops::DivSpecImpl<&R64> for R64 {
    open spec fn obeys_div_spec() -> bool { true }
    open spec fn div_req(self, rhs: &R64) -> bool { true }
    open spec fn div_spec(self, rhs: &R64) -> R64 { R64::mk(if rhs@ != 0real { self@ / rhs@ } else { 0real }, self.ok@ && rhs.ok@ && rhs@ != 0real) }
}
impl Div<&R64> for R64 { type Output = R64; #[verifier::external_body] fn div(self, rhs: &R64) -> R64 { unimplemented!() } }
impl vstd::std_specs::ops::DivSpecImpl<R64> for &R64 {
    open spec fn obeys_div_spec() -> bool { true }
    open spec fn div_req(self, rhs: R64) -> bool { true }
    open spec fn div_spec(self, rhs: R64) -> R64 { R64::mk(if rhs@ != 0real { self@ / rhs@ } else { 0real }, self.ok@ && rhs.ok@ && rhs@ != 0real) }
}
impl Div<R64> for &R64 { type Output = R64; #[verifier::external_body] fn div(self, rhs: R64) -> R64 { unimplemented!() } }
impl vstd::std_specs::ops::DivSpecImpl<&R64> for &R64 {
    open spec fn obeys_div_spec() -> bool { true }
    open spec fn div_req(self, rhs: &R64) -> bool { true }
    open spec fn div_spec(self, rhs: &R64) -> R64 { R64::mk(if rhs@ != 0real { self@ / rhs@ } else { 0real }, self.ok@ && rhs.ok@ && rhs@ != 0real) }
}
impl Div<&R64> for &R64 { type Output = R64; #[verifier::external_body] fn div(self, rhs: &R64) -> R64 { unimplemented!() } }
