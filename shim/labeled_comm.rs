// ===== shim/labeled_comm.rs =====
// LabeledCommitment<C> as the callers see it: the constructor / getter contracts restated here are PROVED for the real functions of data_structures.rs in units/labeled_types.rs
pub struct LabeledCommitment<C> { pub label: String, pub commitment: C, pub degree_bound: Option<usize> }
impl<C> LabeledCommitment<C> {
    pub fn new(label: String, commitment: C, degree_bound: Option<usize>) -> (r: Self)
        ensures r.label == label, r.commitment == commitment, r.degree_bound == degree_bound { LabeledCommitment { label, commitment, degree_bound } }
    pub fn label(&self) -> (r: &String) ensures *r == self.label { &self.label }
    pub fn commitment(&self) -> (r: &C) ensures *r == self.commitment { &self.commitment }
    pub fn degree_bound(&self) -> (r: Option<usize>) ensures r == self.degree_bound { self.degree_bound }
}
