// ===== shim/core.rs : ASSUMED contracts of ark-ff / ark-ec (trusted, never proved) =====
//
// Algebraic model.  `FS` is an abstract commutative field (only the axioms
// below are known about it).  G1, G2 and GT are cyclic groups of prime order
// |FS| with a non-degenerate bilinear map; an element is represented by its
// discrete logarithm with respect to fixed (unnamed) generators g1, g2 and
// e(g1, g2).  Under that representation group addition is f_add, scalar
// multiplication is f_mul and the pairing is f_mul.  Nothing else is assumed;
// in particular no ordering, no characteristic, no size.
#[verifier::external_body] pub struct FS { _x: u8 }
pub type AS = FS;   // G1 element (discrete log)
pub type BS = FS;   // G2 element
pub type TS = FS;   // GT element (written additively)
pub uninterp spec fn f_add(a: FS, b: FS) -> FS;
pub uninterp spec fn f_neg(a: FS) -> FS;
pub uninterp spec fn f_mul(a: FS, b: FS) -> FS;
pub uninterp spec fn f_inv(a: FS) -> FS;
pub uninterp spec fn f_zero() -> FS;
pub uninterp spec fn f_one() -> FS;
pub uninterp spec fn f_from_nat(n: nat) -> FS;     // the image of n in the prime field
pub open spec fn f_sub(a: FS, b: FS) -> FS { f_add(a, f_neg(b)) }
pub open spec fn f_div(a: FS, b: FS) -> FS { f_mul(a, f_inv(b)) }
pub open spec fn pair(a: AS, b: BS) -> TS { f_mul(a, b) }

pub broadcast axiom fn ax_add_comm(a: FS, b: FS) ensures #[trigger] f_add(a, b) == f_add(b, a);
pub broadcast axiom fn ax_add_assoc(a: FS, b: FS, c: FS) ensures #[trigger] f_add(f_add(a, b), c) == f_add(a, f_add(b, c));
pub broadcast axiom fn ax_add_zero(a: FS) ensures #[trigger] f_add(a, f_zero()) == a;
pub broadcast axiom fn ax_add_neg(a: FS) ensures #[trigger] f_add(a, f_neg(a)) == f_zero();
pub broadcast axiom fn ax_mul_comm(a: FS, b: FS) ensures #[trigger] f_mul(a, b) == f_mul(b, a);
pub broadcast axiom fn ax_mul_assoc(a: FS, b: FS, c: FS) ensures #[trigger] f_mul(f_mul(a, b), c) == f_mul(a, f_mul(b, c));
pub broadcast axiom fn ax_mul_one(a: FS) ensures #[trigger] f_mul(a, f_one()) == a;
pub broadcast axiom fn ax_distrib(a: FS, b: FS, c: FS) ensures #[trigger] f_mul(a, f_add(b, c)) == f_add(f_mul(a, b), f_mul(a, c));
pub axiom fn ax_mul_inv(a: FS) ensures a != f_zero() ==> f_mul(a, f_inv(a)) == f_one();
pub axiom fn ax_no_zero_div(a: FS, b: FS) ensures f_mul(a, b) == f_zero() ==> (a == f_zero() || b == f_zero());
pub axiom fn ax_one_ne_zero() ensures f_one() != f_zero();
pub axiom fn ax_from_nat_zero() ensures f_from_nat(0) == f_zero();
pub axiom fn ax_from_nat_succ(n: nat) ensures f_from_nat(n + 1) == f_add(f_from_nat(n), f_one());
pub broadcast group ring_axioms { ax_add_comm, ax_add_assoc, ax_add_zero, ax_add_neg, ax_mul_comm, ax_mul_assoc, ax_mul_one, ax_distrib }

// ----- exec types: the abstract value is carried in a ghost field -----
#[derive(Clone, Copy)] pub struct Fr { pub v: Ghost<FS> }
#[derive(Clone, Copy)] pub struct G1 { pub v: Ghost<FS> }
#[derive(Clone, Copy)] pub struct G1Affine { pub v: Ghost<FS> }
#[derive(Clone, Copy)] pub struct G2 { pub v: Ghost<FS> }
#[derive(Clone, Copy)] pub struct G2Affine { pub v: Ghost<FS> }
#[derive(Clone, Copy)] pub struct G2Prepared { pub v: Ghost<FS> }
#[derive(Clone, Copy)] pub struct G1Prepared { pub v: Ghost<FS> }
#[derive(Clone, Copy)] pub struct Fq12 { pub v: Ghost<FS> }
#[derive(Clone, Copy)] pub struct GT(pub Fq12);
#[derive(Clone, Copy)] pub struct BigInt { pub v: Ghost<FS> }   // into_bigint is injective: carry the field value
impl View for Fr { type V = FS; open spec fn view(&self) -> FS { self.v@ } }
impl View for G1 { type V = FS; open spec fn view(&self) -> FS { self.v@ } }
impl View for G1Affine { type V = FS; open spec fn view(&self) -> FS { self.v@ } }
impl View for G2 { type V = FS; open spec fn view(&self) -> FS { self.v@ } }
impl View for G2Affine { type V = FS; open spec fn view(&self) -> FS { self.v@ } }
impl View for G2Prepared { type V = FS; open spec fn view(&self) -> FS { self.v@ } }
impl View for G1Prepared { type V = FS; open spec fn view(&self) -> FS { self.v@ } }
impl View for Fq12 { type V = FS; open spec fn view(&self) -> FS { self.v@ } }
impl View for GT { type V = FS; open spec fn view(&self) -> FS { self.0.v@ } }
impl View for BigInt { type V = FS; open spec fn view(&self) -> FS { self.v@ } }
impl Fr { pub open spec fn mk(a: FS) -> Fr { Fr { v: Ghost(a) } } }
impl G1 { pub open spec fn mk(a: FS) -> G1 { G1 { v: Ghost(a) } } }
impl G1Affine { pub open spec fn mk(a: FS) -> G1Affine { G1Affine { v: Ghost(a) } } }
impl G2 { pub open spec fn mk(a: FS) -> G2 { G2 { v: Ghost(a) } } }
impl G2Affine { pub open spec fn mk(a: FS) -> G2Affine { G2Affine { v: Ghost(a) } } }
impl G2Prepared { pub open spec fn mk(a: FS) -> G2Prepared { G2Prepared { v: Ghost(a) } } }
impl GT { pub open spec fn mk(a: FS) -> GT { GT(Fq12 { v: Ghost(a) }) } }

pub open spec fn fviews(s: Seq<Fr>) -> Seq<FS> { Seq::new(s.len(), |i: int| s[i]@) }
pub open spec fn bviews(s: Seq<BigInt>) -> Seq<FS> { Seq::new(s.len(), |i: int| s[i]@) }
pub open spec fn g1views(s: Seq<G1Affine>) -> Seq<FS> { Seq::new(s.len(), |i: int| s[i]@) }
pub open spec fn g1pviews(s: Seq<G1>) -> Seq<FS> { Seq::new(s.len(), |i: int| s[i]@) }
pub open spec fn g2views(s: Seq<G2Affine>) -> Seq<FS> { Seq::new(s.len(), |i: int| s[i]@) }
pub open spec fn g2pviews(s: Seq<G2>) -> Seq<FS> { Seq::new(s.len(), |i: int| s[i]@) }
pub open spec fn min(a: nat, b: nat) -> nat { if a <= b { a } else { b } }

// sum_{i<n} a[i]*b[i]  (multi-scalar multiplication, inner product, product of pairings written additively)
pub open spec fn dot(a: Seq<FS>, b: Seq<FS>, n: nat) -> FS decreases n {
    if n == 0 { f_zero() } else { f_add(dot(a, b, (n - 1) as nat), f_mul(a[n - 1], b[n - 1])) }
}
pub open spec fn msm(bases: Seq<G1Affine>, s: Seq<FS>, n: nat) -> FS { dot(g1views(bases), s, n) }
pub open spec fn f_pow(x: FS, n: nat) -> FS decreases n { if n == 0 { f_one() } else { f_mul(f_pow(x, (n - 1) as nat), x) } }

// sum_{i<n} c[i] * x^i
pub open spec fn peval(c: Seq<FS>, x: FS, n: nat) -> FS decreases n {
    if n == 0 { f_zero() } else { f_add(peval(c, x, (n - 1) as nat), f_mul(c[n - 1], f_pow(x, (n - 1) as nat))) }
}

// RNG: a stream identified by `id`; `pos` values have been consumed.  Everything drawn is a
// function of (id, position) -- i.e. the only assumption is that the generator is a deterministic stream.
// `present` is false for an OptionalRng wrapping None: every draw from it panics (= diverges), so a draw that returns implies `present`.
pub struct Rng { pub id: Ghost<int>, pub pos: Ghost<nat>, pub present: Ghost<bool> }
pub uninterp spec fn draw(id: int, pos: nat) -> FS;        // field/group element (as dlog) drawn at a position
pub uninterp spec fn draw_u128(id: int, pos: nat) -> FS;   // image in the field of a u128 drawn at a position

// scalars accepted by `.mul(..)`: F or &F
pub trait AsFr { spec fn frv(&self) -> FS; }
impl AsFr for Fr { open spec fn frv(&self) -> FS { self@ } }
impl AsFr for &Fr { open spec fn frv(&self) -> FS { (**self)@ } }
impl Fr {
    #[verifier::external_body] pub fn zero() -> (r: Fr) ensures r@ == f_zero() { unimplemented!() }
    #[verifier::external_body] pub fn one() -> (r: Fr) ensures r@ == f_one() { unimplemented!() }
    #[verifier::external_body] pub fn is_zero(&self) -> (r: bool) ensures r == (self@ == f_zero()) { unimplemented!() }
    #[verifier::external_body] pub fn is_one(&self) -> (r: bool) ensures r == (self@ == f_one()) { unimplemented!() }
    #[verifier::external_body] pub fn into_bigint(&self) -> (r: BigInt) ensures r@ == self@ { unimplemented!() }
    #[verifier::external_body] pub fn inverse(&self) -> (r: Option<Fr>) ensures (r is Some) == (self@ != f_zero()), r is Some ==> r->Some_0@ == f_inv(self@) { unimplemented!() }
    #[verifier::external_body] pub fn square(&self) -> (r: Fr) ensures r@ == f_mul(self@, self@) { unimplemented!() }
    #[verifier::external_body] pub fn double(&self) -> (r: Fr) ensures r@ == f_add(self@, self@) { unimplemented!() }
    #[verifier::external_body] pub fn pow(&self, e: [u64; 1]) -> (r: Fr) ensures r@ == f_pow(self@, e[0] as nat) { unimplemented!() }
    #[verifier::external_body] pub fn rand(rng: &mut Rng) -> (r: Fr)
        ensures r@ == draw(old(rng).id@, old(rng).pos@), final(rng).id == old(rng).id, final(rng).pos@ == old(rng).pos@ + 1, final(rng).present == old(rng).present, old(rng).present@ { unimplemented!() }
    #[verifier::external_body] pub fn from_u128_rand(rng: &mut Rng) -> (r: Fr)     // `u128::rand(rng).into()`
        ensures r@ == draw_u128(old(rng).id@, old(rng).pos@), final(rng).id == old(rng).id, final(rng).pos@ == old(rng).pos@ + 1, final(rng).present == old(rng).present, old(rng).present@ { unimplemented!() }
    #[verifier::external_body] pub fn from_u64(x: u64) -> (r: Fr) ensures r@ == f_from_nat(x as nat) { unimplemented!() }
}
impl G1 {
    #[verifier::external_body] pub fn zero() -> (r: G1) ensures r@ == f_zero() { unimplemented!() }
    #[verifier::external_body] pub fn is_zero(&self) -> (r: bool) ensures r == (self@ == f_zero()) { unimplemented!() }
    #[verifier::external_body] pub fn mul<S: AsFr>(self, s: S) -> (r: G1) ensures r@ == f_mul(self@, s.frv()) { unimplemented!() }
    #[verifier::external_body] pub fn into_affine(self) -> (r: G1Affine) ensures r@ == self@ { unimplemented!() }
    #[verifier::external_body] pub fn into(self) -> (r: G1Affine) ensures r@ == self@ { unimplemented!() }
    #[verifier::external_body] pub fn rand(rng: &mut Rng) -> (r: G1)
        ensures r@ == draw(old(rng).id@, old(rng).pos@), final(rng).id == old(rng).id, final(rng).pos@ == old(rng).pos@ + 1, final(rng).present == old(rng).present, old(rng).present@ { unimplemented!() }
    // ark-ec VariableBaseMSM::msm_bigint: sum over zip(bases, scalars) (the shorter length wins)
    #[verifier::external_body] pub fn msm_bigint(bases: &[G1Affine], bigints: &[BigInt]) -> (r: G1)
        ensures r@ == msm(bases@, bviews(bigints@), min(bases@.len(), bigints@.len())) { unimplemented!() }
    #[verifier::external_body] pub fn msm_unchecked(bases: &[G1Affine], scalars: &[Fr]) -> (r: G1)
        ensures r@ == msm(bases@, fviews(scalars@), min(bases@.len(), scalars@.len())) { unimplemented!() }
    // ark-ec ScalarMul::batch_mul: [s_i * self]
    #[verifier::external_body] pub fn batch_mul(self, s: &[Fr]) -> (r: Vec<G1Affine>)
        ensures r@.len() == s@.len(), forall|i: int| 0 <= i < s@.len() ==> (#[trigger] r@[i])@ == f_mul(self@, s@[i]@) { unimplemented!() }
    // ark-ec CurveGroup::normalize_batch: pointwise conversion
    #[verifier::external_body] pub fn normalize_batch(v: &[G1]) -> (r: Vec<G1Affine>)
        ensures r@.len() == v@.len(), forall|i: int| 0 <= i < v@.len() ==> (#[trigger] r@[i])@ == v@[i]@ { unimplemented!() }
}
impl G1Affine {
    #[verifier::external_body] pub fn zero() -> (r: G1Affine) ensures r@ == f_zero() { unimplemented!() }
    #[verifier::external_body] pub fn is_zero(&self) -> (r: bool) ensures r == (self@ == f_zero()) { unimplemented!() }
    #[verifier::external_body] pub fn into_group(self) -> (r: G1) ensures r@ == self@ { unimplemented!() }
    #[verifier::external_body] pub fn mul<S: AsFr>(self, s: S) -> (r: G1) ensures r@ == f_mul(self@, s.frv()) { unimplemented!() }
    #[verifier::external_body] pub fn into(self) -> (r: G1) ensures r@ == self@ { unimplemented!() }
}
impl G2 {
    #[verifier::external_body] pub fn zero() -> (r: G2) ensures r@ == f_zero() { unimplemented!() }
    #[verifier::external_body] pub fn mul<S: AsFr>(self, s: S) -> (r: G2) ensures r@ == f_mul(self@, s.frv()) { unimplemented!() }
    #[verifier::external_body] pub fn into_affine(self) -> (r: G2Affine) ensures r@ == self@ { unimplemented!() }
    #[verifier::external_body] pub fn rand(rng: &mut Rng) -> (r: G2)
        ensures r@ == draw(old(rng).id@, old(rng).pos@), final(rng).id == old(rng).id, final(rng).pos@ == old(rng).pos@ + 1, final(rng).present == old(rng).present, old(rng).present@ { unimplemented!() }
    #[verifier::external_body] pub fn batch_mul(self, s: &[Fr]) -> (r: Vec<G2Affine>)
        ensures r@.len() == s@.len(), forall|i: int| 0 <= i < s@.len() ==> (#[trigger] r@[i])@ == f_mul(self@, s@[i]@) { unimplemented!() }
}
impl G2Affine {
    #[verifier::external_body] pub fn into_group(self) -> (r: G2) ensures r@ == self@ { unimplemented!() }
    #[verifier::external_body] pub fn mul<S: AsFr>(self, s: S) -> (r: G2) ensures r@ == f_mul(self@, s.frv()) { unimplemented!() }
    #[verifier::external_body] pub fn into(self) -> (r: G2Prepared) ensures r@ == self@ { unimplemented!() }   // G2Prepared::from
}
impl G2Prepared {
    #[verifier::external_body] pub fn from(a: G2Affine) -> (r: G2Prepared) ensures r@ == a@ { unimplemented!() }
}
impl Fq12 {
    #[verifier::external_body] pub fn is_one(&self) -> (r: bool) ensures r == (self@ == f_zero()) { unimplemented!() }   // GT written additively: identity = 0
}
// conversions accepted by pairing()
pub trait IntoG1 { spec fn g1v(&self) -> FS; }
impl IntoG1 for G1 { open spec fn g1v(&self) -> FS { self@ } }
impl IntoG1 for G1Affine { open spec fn g1v(&self) -> FS { self@ } }
impl IntoG1 for &G1Affine { open spec fn g1v(&self) -> FS { (**self)@ } }
pub trait IntoG2 { spec fn g2v(&self) -> FS; }
impl IntoG2 for G2 { open spec fn g2v(&self) -> FS { self@ } }
impl IntoG2 for G2Affine { open spec fn g2v(&self) -> FS { self@ } }
impl IntoG2 for G2Prepared { open spec fn g2v(&self) -> FS { self@ } }
impl IntoG2 for &G2Affine { open spec fn g2v(&self) -> FS { (**self)@ } }
pub struct E;
impl E {
    #[verifier::external_body]
    pub fn pairing<A: IntoG1, B: IntoG2>(a: A, b: B) -> (r: GT) ensures r@ == pair(a.g1v(), b.g2v()) { unimplemented!() }
    // product of pairings over zip(a, b), written additively
    #[verifier::external_body]
    pub fn multi_pairing2<A: IntoG1, B: IntoG2>(a: [A; 2], b: [B; 2]) -> (r: GT)
        ensures r@ == f_add(pair(a[0].g1v(), b[0].g2v()), pair(a[1].g1v(), b[1].g2v())) { unimplemented!() }
    #[verifier::external_body]
    pub fn multi_pairing_vec(a: Vec<G1Affine>, b: Vec<G2Prepared>) -> (r: GT)
        ensures r@ == dot(g1views(a@), Seq::new(b@.len(), |i: int| b@[i]@), min(a@.len(), b@.len())) { unimplemented!() }
}
// crate::optional_rng::OptionalRng(rng): an RNG that forwards to `rng` if present and panics on use otherwise.
// Modelled by value: same stream identity and position as the wrapped generator.
#[verifier::external_body]
pub fn optional_rng_wrap(rng: Option<&mut Rng>) -> (r: Rng)
    ensures r.present@ == (rng is Some && old(rng->Some_0).present@), rng is Some ==> (r.id == old(rng->Some_0).id && r.pos == old(rng->Some_0).pos)
{ unimplemented!() }
// `rng.expect(..)` on Option<&mut dyn RngCore>: the generator itself (by value: same stream identity and position); None aborts
#[verifier::external_body]
pub fn expect_rng(rng: Option<&mut Rng>) -> (r: Rng)
    ensures rng is Some, r.present@ == old(rng->Some_0).present@, r.id == old(rng->Some_0).id, r.pos == old(rng->Some_0).pos
{ unimplemented!() }
impl G2 {
    #[verifier::external_body] pub fn msm_bigint(bases: &[G2Affine], bigints: &[BigInt]) -> (r: G2)
        ensures r@ == dot(g2views(bases@), bviews(bigints@), min(bases@.len(), bigints@.len())) { unimplemented!() }
}
impl G1Prepared {
    #[verifier::external_body] pub fn from(a: G1Affine) -> (r: G1Prepared) ensures r@ == a@ { unimplemented!() }
}
pub open spec fn g1prep_views(s: Seq<G1Prepared>) -> Seq<FS> { Seq::new(s.len(), |i: int| s[i]@) }
pub open spec fn g2prep_views(s: Seq<G2Prepared>) -> Seq<FS> { Seq::new(s.len(), |i: int| s[i]@) }
impl E {
    // E::multi_pairing(a, b): product over zip(a, b) of e(a_i, b_i)  (written additively)
    #[verifier::external_body]
    pub fn multi_pairing(a: Vec<G1Prepared>, b: Vec<G2Prepared>) -> (r: GT)
        ensures r@ == dot(g1prep_views(a@), g2prep_views(b@), min(a@.len(), b@.len())) { unimplemented!() }
}
// ark-ff `Sum` for field elements: fold from zero with +   (rewrite R7 turns `iter.sum()` into collect + sum_vec)
pub open spec fn fsum(s: Seq<FS>, n: nat) -> FS decreases n { if n == 0 { f_zero() } else { f_add(fsum(s, (n - 1) as nat), s[n - 1]) } }
#[verifier::external_body] pub fn sum_vec(v: &Vec<Fr>) -> (r: Fr) ensures r@ == fsum(fviews(v@), v@.len()) { unimplemented!() }
