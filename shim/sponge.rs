// ===== shim/sponge.rs : ASSUMED contract of ark-crypto-primitives CryptographicSponge (trusted) =====
// A sponge is a deterministic state machine over an abstract state SS: what is squeezed, and the state after an
// operation, are (uninterpreted) functions of the state before and of the data absorbed.  Nothing else is assumed.
#[verifier::external_body] pub struct SS { _x: u8 }
pub enum AbsData { Bytes(Seq<u8>), Field(Seq<FS>), Group(Seq<FS>) }
pub uninterp spec fn sp_absorb(s: SS, d: AbsData) -> SS;
pub uninterp spec fn sp_sq_fe(s: SS) -> FS;                 // squeeze_field_elements_with_sizes(&[CHALLENGE_SIZE])[0]
pub uninterp spec fn sp_sq_next(s: SS) -> SS;
pub uninterp spec fn sp_sqn_fe(s: SS, n: nat, i: nat) -> FS; // squeeze_field_elements(n)[i]
pub uninterp spec fn sp_sqn_next(s: SS, n: nat) -> SS;
pub uninterp spec fn sp_sqb(s: SS, n: nat) -> Seq<u8>;       // squeeze_bytes(n)
pub uninterp spec fn sp_sqb_next(s: SS, n: nat) -> SS;
// state after k successive single-challenge squeezes
pub open spec fn sp_iter(s: SS, k: nat) -> SS decreases k { if k == 0 { s } else { sp_sq_next(sp_iter(s, (k - 1) as nat)) } }
pub open spec fn sp_chal(s: SS, j: nat) -> FS { sp_sq_fe(sp_iter(s, j)) }   // the j-th challenge squeezed from s
pub struct Sponge { pub st: Ghost<SS> }
pub struct ChallengeSize;
pub const CHALLENGE_SIZE: ChallengeSize = ChallengeSize;
pub trait Absorb { spec fn abs(&self) -> AbsData; }
impl Absorb for Vec<u8> { open spec fn abs(&self) -> AbsData { AbsData::Bytes(self@) } }
impl Absorb for Vec<Fr> { open spec fn abs(&self) -> AbsData { AbsData::Field(fviews(self@)) } }
impl Absorb for Fr { open spec fn abs(&self) -> AbsData { AbsData::Field(seq![self@]) } }
impl Sponge {
    #[verifier::external_body]
    pub fn squeeze_field_elements_with_sizes(&mut self, sizes: &[ChallengeSize; 1]) -> (r: Vec<Fr>)
        ensures r@.len() == 1, r@[0]@ == sp_sq_fe(old(self).st@), final(self).st@ == sp_sq_next(old(self).st@) { unimplemented!() }
    #[verifier::external_body]
    pub fn squeeze_field_elements(&mut self, n: usize) -> (r: Vec<Fr>)
        ensures r@.len() == n, forall|i: int| 0 <= i < n ==> (#[trigger] r@[i])@ == sp_sqn_fe(old(self).st@, n as nat, i as nat),
                final(self).st@ == sp_sqn_next(old(self).st@, n as nat) { unimplemented!() }
    #[verifier::external_body]
    pub fn squeeze_bytes(&mut self, n: usize) -> (r: Vec<u8>)
        ensures r@ == sp_sqb(old(self).st@, n as nat), r@.len() == n, final(self).st@ == sp_sqb_next(old(self).st@, n as nat) { unimplemented!() }
    #[verifier::external_body]
    pub fn absorb<A: Absorb>(&mut self, x: &A)
        ensures final(self).st@ == sp_absorb(old(self).st@, x.abs()) { unimplemented!() }
    #[verifier::external_body]
    pub fn clone(&self) -> (r: Sponge) ensures r.st@ == self.st@ { unimplemented!() }
}
impl Absorb for &Vec<Fr> { open spec fn abs(&self) -> AbsData { AbsData::Field(fviews((**self)@)) } }
impl Absorb for &Vec<u8> { open spec fn abs(&self) -> AbsData { AbsData::Bytes((**self)@) } }
