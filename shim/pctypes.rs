// ===== shim/pctypes.rs : abstract environment of the trait-default batch methods of lib.rs (trusted) =====
// the scheme's own types, its per-point `check` as a deterministic function, and the BTreeMap/BTreeSet operations used there
// ---- environment (abstract): the scheme's own types and its per-point `check` ----
#[verifier::external_body] pub struct VK { _x: u8 }
#[verifier::external_body] pub struct Comm { _x: u8 }
#[verifier::external_body] pub struct Pt { _x: u8 }
#[verifier::external_body] pub struct Proof { _x: u8 }
pub struct BatchProof { pub v: Vec<Proof> }
impl Pt { #[verifier::external_body] pub fn clone(&self) -> (r: Pt) ensures r == *self { unimplemented!() } }
// `proof.clone().into()` : BatchProof -> Vec<Proof>
#[verifier::external_body] pub fn batch_proof_to_vec(p: &BatchProof) -> (r: Vec<Proof>) ensures r@ == p.v@ { unimplemented!() }
// the decision of the scheme's per-point verifier and the sponge state it leaves: deterministic functions of its inputs
// (the verifier's own RNG does not enter: the schemes that use this default method ignore it)
pub enum Dec { Accept, Reject, Error }
pub uninterp spec fn chk_dec(vk: &VK, comms: Seq<&LabeledCommitment<Comm>>, point: Pt, values: Seq<Fr>, proof: Proof, s: SS) -> Dec;
pub uninterp spec fn chk_sponge(vk: &VK, comms: Seq<&LabeledCommitment<Comm>>, point: Pt, values: Seq<Fr>, proof: Proof, s: SS) -> SS;
