// ===== shim/lcenv.rs : BTreeSet / BTreeMap operations used by the trait-default linear-combination methods of lib.rs (trusted) =====
// BTreeSet::new / insert for query sets; the values of the label -> combination map (each key once)   [assumed]
#[verifier::external_body] pub fn qset_new() -> (r: BTreeSet<(String, (String, Pt))>) ensures forall|e: (String, (String, Pt))| !r@.contains(e) { unimplemented!() }
#[verifier::external_body] pub fn qset_insert(s: &mut BTreeSet<(String, (String, Pt))>, e: (String, (String, Pt))) ensures final(s)@ == old(s)@.insert(e) { unimplemented!() }
pub uninterp spec fn mkeys(m: Map<&String, &LinearCombination>) -> Seq<String>;
#[verifier::external_body] pub fn lcmap_values_vec<'a>(m: &BTreeMap<&'a String, &'a LinearCombination>) -> (r: Vec<&'a LinearCombination>)     // m.values().copied()
    ensures r@.len() == mkeys(m@).len(), forall|i: int| 0 <= i < r@.len() ==> (#[trigger] r@[i]) == m@[&mkeys(m@)[i]],
            forall|i: int, j: int| 0 <= i < j < mkeys(m@).len() ==> mkeys(m@)[i] != mkeys(m@)[j],
            forall|k: &String| m@.dom().contains(k) == (exists|i: int| 0 <= i < mkeys(m@).len() && #[trigger] mkeys(m@)[i] == *k) { unimplemented!() }
// BTreeSet<(String, Pt)> / `poly_query_set.clone().into_iter()` / `evals.clone().unwrap()`: the operations used to pair the prover's
// evaluation list with the (polynomial, point) keys   [assumed: a set iterates over its elements, each once, in the key order `kseq`,
// which is also the order in which a BTreeMap with these keys lists its values]
pub uninterp spec fn kseq(s: Set<(String, Pt)>) -> Seq<(String, Pt)>;
pub open spec fn kseq_ok(s: Set<(String, Pt)>) -> bool {
    (forall|i: int, j: int| 0 <= i < j < kseq(s).len() ==> kseq(s)[i] != kseq(s)[j]) && (forall|k: (String, Pt)| s.contains(k) == (exists|i: int| 0 <= i < kseq(s).len() && #[trigger] kseq(s)[i] == k))
}
#[verifier::external_body] pub fn qset_clone_into_vec(s: &BTreeSet<(String, (String, Pt))>) -> (r: Vec<(String, (String, Pt))>)
    ensures r@ == set_seq(s@), forall|q: (String, (String, Pt))| s@.contains(q) == (exists|i: int| 0 <= i < set_seq(s@).len() && #[trigger] set_seq(s@)[i] == q) { unimplemented!() }
#[verifier::external_body] pub fn keyset_from_vec(v: Vec<(String, Pt)>) -> (r: BTreeSet<(String, Pt)>)
    ensures forall|k: (String, Pt)| r@.contains(k) == (exists|i: int| 0 <= i < v@.len() && #[trigger] v@[i] == k) { unimplemented!() }
#[verifier::external_body] pub fn keyset_into_sorted_vec(s: BTreeSet<(String, Pt)>) -> (r: Vec<(String, Pt)>) ensures r@ == kseq(s@), kseq_ok(s@) { unimplemented!() }
#[verifier::external_body] pub fn opt_vec_clone_unwrap(o: &Option<Vec<Fr>>) -> (r: Vec<Fr>) ensures *o is Some, r@ == o->Some_0@ { unimplemented!() }   // None: abort
// `map.values().copied().collect()` of an Evaluations map: its values in key order (the order `kseq` of its key set)
#[verifier::external_body] pub fn evals_values_vec(m: &BTreeMap<(String, Pt), Fr>) -> (r: Vec<Fr>)
    ensures r@.len() == kseq(m@.dom()).len(), forall|i: int| 0 <= i < r@.len() ==> (#[trigger] r@[i]) == m@[kseq(m@.dom())[i]], kseq_ok(m@.dom()) { unimplemented!() }
// `v.iter().copied()` / `v.into_iter().collect::<Vec<_>>()` of a vector of references: the same references
#[verifier::external_body] pub fn vec_refs_copy<'a, T>(v: &Vec<&'a T>) -> (r: Vec<&'a T>) ensures r@ == v@ { unimplemented!() }
