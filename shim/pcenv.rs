// ===== shim/pcenv.rs : BTreeMap/BTreeSet operations of the batch methods (lib.rs, marlin/mod.rs), by their observable contracts (trusted) =====
// needs types `Comm` (commitment) and `Pt` (point) from shim/pctypes.rs (abstract scheme) or from the template (concrete scheme)
// order of the BTree collections on labels: a strict total order (lexicographic on strings), exposed only through sortedness of iteration
pub uninterp spec fn key_lt(a: String, b: String) -> bool;
// iteration sequence of a set (its elements, each once)
pub uninterp spec fn set_seq(s: Set<(String, (String, Pt))>) -> Seq<(String, (String, Pt))>;
#[verifier::external_body] pub fn query_set_to_vec(s: &BTreeSet<(String, (String, Pt))>) -> (r: Vec<&(String, (String, Pt))>)
    ensures r@.len() == set_seq(s@).len(), forall|i: int| 0 <= i < r@.len() ==> *(#[trigger] r@[i]) == set_seq(s@)[i],
            forall|q: (String, (String, Pt))| s@.contains(q) == (exists|i: int| 0 <= i < set_seq(s@).len() && #[trigger] set_seq(s@)[i] == q) { unimplemented!() }
pub open spec fn set_vals(s: Set<&String>) -> Set<String> { s.map(|r: &String| *r) }
// `let labels = m.entry(point_label).or_insert((point, BTreeSet::new())); labels.1.insert(label);`
#[verifier::external_body]
pub fn group_insert<'a>(m: &mut BTreeMap<&'a String, (&'a Pt, BTreeSet<&'a String>)>, point_label: &'a String, point: &'a Pt, label: &'a String)
    ensures final(m)@.dom() == old(m)@.dom().insert(point_label),
        old(m)@.dom().contains(point_label) ==> final(m)@[point_label].0 == old(m)@[point_label].0 && final(m)@[point_label].1@ == old(m)@[point_label].1@.insert(label),
        !old(m)@.dom().contains(point_label) ==> final(m)@[point_label].0 == point && final(m)@[point_label].1@ == Set::<&String>::empty().insert(label),
        forall|k: &String| k != point_label && old(m)@.dom().contains(k) ==> final(m)@[k] == old(m)@[k] { unimplemented!() }
// BTreeMap::into_iter: the entries in increasing key order; BTreeSet::into_iter likewise
#[verifier::external_body]
pub fn map_into_sorted_vec<'a>(m: BTreeMap<&'a String, (&'a Pt, BTreeSet<&'a String>)>) -> (r: Vec<(&'a String, (&'a Pt, BTreeSet<&'a String>))>)
    ensures r@.len() == m@.dom().len(), m@.dom().finite(),
        forall|i: int| 0 <= i < r@.len() ==> m@.dom().contains((#[trigger] r@[i]).0) && r@[i].1 == m@[r@[i].0],
        forall|k: &String| m@.dom().contains(k) ==> exists|i: int| 0 <= i < r@.len() && (#[trigger] r@[i]).0 == k,
        forall|i: int, j: int| 0 <= i < j < r@.len() ==> key_lt(*(#[trigger] r@[i]).0, *(#[trigger] r@[j]).0) && r@[i].0 != r@[j].0 { unimplemented!() }
pub uninterp spec fn labels_seq(s: Set<String>) -> Seq<String>;     // the sorted enumeration of a label set
#[verifier::external_body]
pub fn set_into_sorted_vec<'a>(s: BTreeSet<&'a String>) -> (r: Vec<&'a String>)
    ensures r@.len() == labels_seq(set_vals(s@)).len(), forall|i: int| 0 <= i < r@.len() ==> *(#[trigger] r@[i]) == labels_seq(set_vals(s@))[i] { unimplemented!() }
#[verifier::external_body] pub fn btree_get_by_label<'b, V>(m: &'b BTreeMap<&String, V>, k: &String) -> (r: Option<&'b V>)
    ensures (r is Some) == m@.dom().contains(k), r is Some ==> *r->Some_0 == m@[k] { unimplemented!() }
#[verifier::external_body] pub fn map_len<'a>(m: &BTreeMap<&'a String, (&'a Pt, BTreeSet<&'a String>)>) -> (r: usize) ensures r == m@.dom().len(), m@.dom().finite() { unimplemented!() }


// Evaluations::clone, the keys of the map (each once), reading and writing the entry of a key   [`for (key, value) in map.iter_mut()` = for each key once: read the value, run the body on it, write it back]
#[verifier::external_body] pub fn evals_clone(m: &BTreeMap<(String, Pt), Fr>) -> (r: BTreeMap<(String, Pt), Fr>) ensures r@ == m@ { unimplemented!() }
#[verifier::external_body] pub fn evals_keys(m: &BTreeMap<(String, Pt), Fr>) -> (r: Vec<(String, Pt)>)
    ensures forall|i: int| 0 <= i < r@.len() ==> m@.dom().contains(#[trigger] r@[i]), forall|k: (String, Pt)| m@.dom().contains(k) ==> exists|i: int| 0 <= i < r@.len() && (#[trigger] r@[i]) == k,
            forall|i: int, j: int| 0 <= i < j < r@.len() ==> r@[i] != r@[j] { unimplemented!() }
#[verifier::external_body] pub fn evals_get(m: &BTreeMap<(String, Pt), Fr>, k: &(String, Pt)) -> (r: Fr) requires m@.dom().contains(*k) ensures r == m@[*k] { unimplemented!() }
#[verifier::external_body] pub fn evals_put(m: &mut BTreeMap<(String, Pt), Fr>, k: &(String, Pt), v: Fr) requires old(m)@.dom().contains(*k) ensures final(m)@ == old(m)@.insert(*k, v) { unimplemented!() }
#[verifier::external_body] pub fn string_eq(a: &String, b: &String) -> (r: bool) ensures r == (*a == *b) { unimplemented!() }   // <String as PartialEq>::eq

