// ===== shim/labeled.rs : LabeledPolynomial as the callers see it.  The constructor / getter contracts restated here are PROVED for the real functions of
// data_structures.rs in units/labeled_types.rs (same clauses); the Deref-to-polynomial conveniences (degree, is_zero, coeffs, evaluate) forward to shim/poly.rs =====
pub struct LabeledPolynomial { pub label: String, pub polynomial: Poly, pub degree_bound: Option<usize>, pub hiding_bound: Option<usize> }
impl LabeledPolynomial {
    pub fn new(label: String, polynomial: Poly, degree_bound: Option<usize>, hiding_bound: Option<usize>) -> (r: Self)
        ensures r.label == label, r.polynomial == polynomial, r.degree_bound == degree_bound, r.hiding_bound == hiding_bound { LabeledPolynomial { label, polynomial, degree_bound, hiding_bound } }
    pub fn label(&self) -> (r: &String) ensures *r == self.label { &self.label }
    pub fn polynomial(&self) -> (r: &Poly) ensures *r == self.polynomial { &self.polynomial }
    pub fn degree_bound(&self) -> (r: Option<usize>) ensures r == self.degree_bound { self.degree_bound }
    pub fn hiding_bound(&self) -> (r: Option<usize>) ensures r == self.hiding_bound { self.hiding_bound }
    pub fn is_hiding(&self) -> (r: bool) ensures r == self.hiding_bound.is_some() { self.hiding_bound.is_some() }
    // Deref<Target = P>
    pub fn degree(&self) -> (r: usize) ensures r == self.polynomial.degree_spec(), !self.polynomial.is_zero_spec() ==> self.polynomial.wf() { self.polynomial.degree() }
    pub fn is_zero(&self) -> (r: bool) ensures r == self.polynomial.is_zero_spec() { self.polynomial.is_zero() }
    pub fn coeffs(&self) -> (r: &[Fr]) ensures r@ == self.polynomial.coeffs@ { self.polynomial.coeffs() }
    pub fn evaluate(&self, point: &Fr) -> (r: Fr) ensures r@ == self.polynomial.ev(point@) { self.polynomial.evaluate(point) }
}
