// ===== shim/lincode.rs : abstract environment of the linear-code PCS (trusted) =====
// Merkle tree / CRH (ark-crypto-primitives), the code-specific trait LinearEncode (encode, tensor, point_to_vec) and the
// parameter getters of LinCodeParametersInfo are external to the verified text; they are deterministic functions here.
#[verifier::external_body] pub struct Digest { _x: u8 }        // C::InnerDigest
#[verifier::external_body] pub struct Leaf { _x: u8 }          // C::Leaf
#[verifier::external_body] pub struct HOut { _x: u8 }          // H::Output
#[verifier::external_body] pub struct HashParams { _x: u8 }
#[verifier::external_body] pub struct Pt { _x: u8 }            // P::Point
impl SerBytes for Digest { uninterp spec fn ser_bytes(&self) -> Seq<u8>; }
impl SerBytes for &Digest { open spec fn ser_bytes(&self) -> Seq<u8> { (**self).ser_bytes() } }
impl Pt { #[verifier::external_body] pub fn clone(&self) -> (r: Pt) ensures r == *self { unimplemented!() } }
impl Leaf { #[verifier::external_body] pub fn clone(&self) -> (r: Leaf) ensures r == *self { unimplemented!() } }
pub uninterp spec fn col_hash(col: Seq<FS>) -> Leaf;                       // H::evaluate(params, col).into()
pub uninterp spec fn path_valid(p: Path, root: Digest, leaf: Leaf) -> bool;   // what Path::verify decides
pub struct Path { pub leaf_index: usize, pub auth: Ghost<int> }
pub struct PathError;
impl Path {
    // ark-crypto-primitives Path::verify: Ok(true) iff the authentication path links `leaf` at `leaf_index` to `root`
    #[verifier::external_body]
    pub fn verify(&self, lp: &HashParams, tp: &HashParams, root: &Digest, leaf: Leaf) -> (r: Result<bool, PathError>)
        ensures r is Ok ==> r->Ok_0 == path_valid(*self, *root, leaf) { unimplemented!() }
}
pub struct H;
impl H {
    #[verifier::external_body]
    pub fn evaluate(params: &HashParams, col: Vec<Fr>) -> (r: Result<HOut, PathError>)
        ensures r is Ok ==> hout_leaf(r->Ok_0) == col_hash(fviews(col@)) { unimplemented!() }
}
pub uninterp spec fn hout_leaf(h: HOut) -> Leaf;
impl HOut { #[verifier::external_body] pub fn into(self) -> (r: Leaf) ensures r == hout_leaf(self) { unimplemented!() } }
// parameters (LinCodeParametersInfo getters)
pub struct Params { pub sec: usize, pub dist: (usize, usize), pub wf: bool, pub lp: HashParams, pub tp: HashParams, pub cp: HashParams }
impl Params {
    pub fn sec_param(&self) -> (r: usize) ensures r == self.sec { self.sec }
    pub fn distance(&self) -> (r: (usize, usize)) ensures r == self.dist { self.dist }
    pub fn check_well_formedness(&self) -> (r: bool) ensures r == self.wf { self.wf }
    pub fn leaf_hash_param(&self) -> (r: &HashParams) ensures *r == self.lp { &self.lp }
    pub fn two_to_one_hash_param(&self) -> (r: &HashParams) ensures *r == self.tp { &self.tp }
    pub fn col_hash_params(&self) -> (r: &HashParams) ensures *r == self.cp { &self.cp }
}
// LinearEncode (code-specific): deterministic functions of their arguments
pub uninterp spec fn encode_spec(msg: Seq<FS>, p: &Params) -> Seq<FS>;
pub uninterp spec fn tensor_a(z: &Pt, n: nat, m: nat) -> Seq<FS>;
pub uninterp spec fn tensor_b(z: &Pt, n: nat, m: nat) -> Seq<FS>;
pub uninterp spec fn point_vec_spec(z: Pt) -> Seq<FS>;
pub struct L;
impl L {
    #[verifier::external_body] pub fn encode(msg: &[Fr], param: &Params) -> (r: Result<Vec<Fr>, Error>) ensures r is Ok ==> fviews(r->Ok_0@) == encode_spec(fviews(msg@), param) { unimplemented!() }
    #[verifier::external_body] pub fn tensor(z: &Pt, n: usize, m: usize) -> (r: (Vec<Fr>, Vec<Fr>)) ensures fviews(r.0@) == tensor_a(z, n as nat, m as nat), fviews(r.1@) == tensor_b(z, n as nat, m as nat) { unimplemented!() }
    #[verifier::external_body] pub fn point_to_vec(z: Pt) -> (r: Vec<Fr>) ensures fviews(r@) == point_vec_spec(z) { unimplemented!() }
}
