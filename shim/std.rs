// ===== shim/std.rs : std methods redirected to functions carrying the std-documented contract (rewrite R9) =====
pub open spec fn sorted_usize(s: Seq<usize>) -> bool { forall|i: int, j: int| 0 <= i < j < s.len() ==> s[i] <= s[j] }
pub open spec fn strictly_sorted_usize(s: Seq<usize>) -> bool { forall|i: int, j: int| 0 <= i < j < s.len() ==> s[i] < s[j] }
// <[usize]>::binary_search on a sorted slice
#[verifier::external_body]
pub fn binary_search_usize(v: &[usize], x: &usize) -> (r: Result<usize, usize>)
    requires sorted_usize(v@)
    ensures r is Ok ==> r->Ok_0 < v@.len() && v@[r->Ok_0 as int] == *x,
            r is Err ==> forall|i: int| 0 <= i < v@.len() ==> v@[i] != *x,
{ unimplemented!() }
// <[usize]>::contains
#[verifier::external_body]
pub fn contains_usize(v: &[usize], x: &usize) -> (r: bool)
    ensures r == (exists|i: int| 0 <= i < v@.len() && v@[i] == *x),
{ unimplemented!() }
// Vec<usize>::sort: a sorted permutation;  Vec<usize>::dedup on a sorted vector: strictly sorted, same set
#[verifier::external_body]
pub fn sort_usize(v: &mut Vec<usize>)
    ensures sorted_usize(final(v)@), final(v)@.len() == old(v)@.len(), final(v)@.to_multiset() == old(v)@.to_multiset(),
            forall|x: usize| final(v)@.contains(x) == old(v)@.contains(x),
{ unimplemented!() }
#[verifier::external_body]
pub fn dedup_usize(v: &mut Vec<usize>)
    ensures sorted_usize(old(v)@) ==> strictly_sorted_usize(final(v)@),
            forall|x: usize| final(v)@.contains(x) == old(v)@.contains(x), final(v)@.len() <= old(v)@.len(),
{ unimplemented!() }
// alloc::collections::BTreeMap, used only through the operations given here
#[verifier::external_body] #[verifier::reject_recursive_types(K)] #[verifier::reject_recursive_types(V)]
pub struct BTreeMap<K, V> { _k: core::marker::PhantomData<(K, V)> }
impl<K, V> View for BTreeMap<K, V> { type V = Map<K, V>; uninterp spec fn view(&self) -> Map<K, V>; }
// bit length: bitlen(n) = number of bits needed to write n (0 for n = 0); usize::leading_zeros = 64 - bitlen
pub open spec fn p2(b: nat) -> nat decreases b { if b == 0 { 1 } else { 2 * p2((b - 1) as nat) } }
pub open spec fn bitlen(n: nat) -> nat decreases n { if n == 0 { 0 } else { 1 + bitlen(n / 2) } }
pub assume_specification [usize::leading_zeros] (n: usize) -> (r: u32)
    ensures r == 64 - bitlen(n as nat), r <= 64;
impl<K, V> BTreeMap<K, V> {
    #[verifier::external_body] pub fn new() -> (r: Self) ensures r@ == Map::<K, V>::empty() { unimplemented!() }
    #[verifier::external_body] pub fn len(&self) -> (r: usize) ensures r == self@.len(), self@.dom().finite() { unimplemented!() }
}
// `v.into_iter().enumerate().collect::<BTreeMap<usize, T>>()`  (rewrite R10): the map i -> v[i]
#[verifier::external_body]
pub fn btree_from_indexed<T>(v: Vec<T>) -> (r: BTreeMap<usize, T>)
    ensures forall|i: usize| r@.dom().contains(i) == (i < v@.len()), forall|i: usize| i < v@.len() ==> r@[i] == v@[i as int]
{ unimplemented!() }
// `m[&k]` (Index<&K>): panics (= diverges) if the key is absent
#[verifier::external_body]
pub fn btree_index<V: Copy>(m: &BTreeMap<usize, V>, k: &usize) -> (r: V)
    ensures m@.dom().contains(*k), r == m@[*k]
{ unimplemented!() }
pub assume_specification<T: Clone>[ <[T]>::to_vec ](s: &[T]) -> (r: Vec<T>)
    ensures r@ == s@;
// R2: `.unwrap()` / `.expect(..)` on a value that may be Err/None panics (= diverges)
pub trait UnwrapAbort<T> { fn unwrap_abort(self) -> T; }
impl<T, E2> UnwrapAbort<T> for Result<T, E2> { #[verifier::external_body] fn unwrap_abort(self) -> (r: T) ensures self is Ok, r == self->Ok_0 { unimplemented!() } }
impl<T> UnwrapAbort<T> for Option<T> { #[verifier::external_body] fn unwrap_abort(self) -> (r: T) ensures self is Some, r == self->Some_0 { unimplemented!() } }
impl<K, V> BTreeMap<K, V> {
    // BTreeMap::insert (the returned old value is not used by the verified code)
    #[verifier::external_body] pub fn insert(&mut self, k: K, v: V) -> (r: Option<V>) ensures final(self)@ == old(self)@.insert(k, v) { unimplemented!() }
}
#[verifier::external_body]
pub fn btree_index_g2<V: Copy>(m: &BTreeMap<usize, V>, k: &usize) -> (r: V)
    ensures m@.dom().contains(*k), r == m@[*k]
{ unimplemented!() }
// ark_std::log2(x) = ceil(log2 x) for x >= 1 (and 0 for x = 0)
#[verifier::external_body] pub fn log2_ceil(x: usize) -> (r: u32)
    ensures r <= 64, x <= p2(r as nat), x > 1 ==> p2((r - 1) as nat) < x, x <= 1 ==> r == 0 { unimplemented!() }
// `*m.entry(k).or_insert(G1::zero()) += &v`  (BTreeMap entry API): m[k] := (m[k] if present else 0) + v
#[verifier::external_body]
pub fn btree_entry_add_g1(m: &mut BTreeMap<Option<usize>, G1>, k: Option<usize>, v: &G1)
    ensures final(m)@.dom() == old(m)@.dom().insert(k),
            final(m)@[k]@ == f_add(if old(m)@.dom().contains(k) { old(m)@[k]@ } else { f_zero() }, v@),
            forall|k2: Option<usize>| k2 != k && old(m)@.dom().contains(k2) ==> final(m)@[k2] == old(m)@[k2],
{ unimplemented!() }
// `m.into_iter()` of a BTreeMap: its (key, value) pairs, each key once (in key order)
pub uninterp spec fn btree_entries<V>(m: Map<Option<usize>, V>) -> Seq<(Option<usize>, V)>;
#[verifier::external_body]
pub fn btree_into_vec_g1(m: BTreeMap<Option<usize>, G1>) -> (r: Vec<(Option<usize>, G1)>)
    ensures r@ == btree_entries(m@),
            forall|i: int| 0 <= i < r@.len() ==> m@.dom().contains((#[trigger] r@[i]).0) && r@[i].1 == m@[r@[i].0],
            forall|i: int, j: int| 0 <= i < j < r@.len() ==> r@[i].0 != r@[j].0,
            forall|k: Option<usize>| m@.dom().contains(k) ==> exists|i: int| 0 <= i < r@.len() && (#[trigger] r@[i]).0 == k,
{ unimplemented!() }

// usize::next_power_of_two (std): the least power of two >= n   [assumed contract of std]
pub open spec fn is_pow2(n: nat) -> bool { exists|k: nat| n == p2(k) }
pub open spec fn np2(n: nat) -> nat { choose|r: nat| is_pow2(r) && r >= n && (forall|q: nat| is_pow2(q) && q >= n ==> r <= q) }
pub assume_specification[usize::next_power_of_two](n: usize) -> (r: usize)
    requires n <= 0x8000_0000_0000_0000
    ensures is_pow2(r as nat), r >= n, forall|q: nat| is_pow2(q) && q >= n ==> r <= q, r >= 1, n >= 1 ==> r < 2 * n, r == np2(n as nat);
// Rust allocation limit: a Vec of non-zero-sized elements holds at most isize::MAX elements   [assumed]
#[verifier::external_body] pub proof fn axiom_vec_len_bound<T>(v: &Vec<T>) ensures v@.len() <= 0x7fff_ffff_ffff_ffff { }
// verifier-side indexing into prover-supplied vectors: an out-of-range index panics (= diverges)
#[verifier::external_body] pub fn at<T>(v: &Vec<T>, i: usize) -> (r: &T) ensures i < v@.len(), *r == v@[i as int] { unimplemented!() }
#[verifier::external_body] pub fn at_fr(v: &Vec<Fr>, i: usize) -> (r: Fr) ensures i < v@.len(), r == v@[i as int] { unimplemented!() }
// alloc::collections::BTreeSet, used only through the operations given here
#[verifier::external_body] #[verifier::reject_recursive_types(K)]
pub struct BTreeSet<K> { _k: core::marker::PhantomData<K> }
impl<K> View for BTreeSet<K> { type V = Set<K>; uninterp spec fn view(&self) -> Set<K>; }
impl<K> BTreeSet<K> {
    #[verifier::external_body] pub fn new() -> (r: Self) ensures r@ == Set::<K>::empty() { unimplemented!() }
    #[verifier::external_body] pub fn insert(&mut self, k: K) -> (b: bool) ensures final(self)@ == old(self)@.insert(k), b == !old(self)@.contains(k) { unimplemented!() }
    #[verifier::external_body] pub fn contains(&self, k: &K) -> (b: bool) ensures b == self@.contains(*k) { unimplemented!() }
}
// `for x in &set`: the elements, each once (in key order; the order is not exposed)
#[verifier::external_body] pub fn btree_set_to_vec<K>(s: &BTreeSet<K>) -> (r: Vec<&K>)
    ensures forall|i: int| 0 <= i < r@.len() ==> s@.contains(*(#[trigger] r@[i])), forall|k: K| s@.contains(k) ==> exists|i: int| 0 <= i < r@.len() && *(#[trigger] r@[i]) == k,
            forall|i: int, j: int| 0 <= i < j < r@.len() ==> *r@[i] != *r@[j] { unimplemented!() }
// `BTreeMap::from_iter(pairs)`: later pairs overwrite earlier ones with the same key
#[verifier::external_body] pub fn btree_from_pairs<K, V>(v: Vec<(K, V)>) -> (r: BTreeMap<K, V>)
    ensures forall|k: K| r@.dom().contains(k) == (exists|i: int| 0 <= i < v@.len() && (#[trigger] v@[i]).0 == k),
            forall|i: int| 0 <= i < v@.len() && (forall|j: int| i < j < v@.len() ==> v@[j].0 != v@[i].0) ==> r@[(#[trigger] v@[i]).0] == v@[i].1 { unimplemented!() }
impl<K, V> BTreeMap<K, V> {
    #[verifier::external_body] pub fn get(&self, k: &K) -> (r: Option<&V>) ensures (r is Some) == self@.dom().contains(*k), r is Some ==> *r->Some_0 == self@[*k] { unimplemented!() }
}
// String::clone / to_string on a String: an equal value
#[verifier::external_body] pub fn string_to_string(s: &String) -> (r: String) ensures r == *s { unimplemented!() }

// `vec![e; n]`: e is evaluated ONCE and cloned n times   [std semantics]
#[verifier::external_body] pub fn vec_from_elem<T: Copy>(e: T, n: usize) -> (r: Vec<T>) ensures r@.len() == n, forall|i: int| 0 <= i < n ==> #[trigger] r@[i] == e { unimplemented!() }

