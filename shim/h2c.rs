// ===== shim/h2c.rs : hash-to-curve environment of the transparent-setup schemes (IPA, Hyrax) (trusted) =====
// ---- trusted environment: digest, from_random_bytes, cofactor multiplication, byte-string plumbing ----
pub uninterp spec fn pname() -> Seq<u8>;                       // Self::PROTOCOL_NAME
pub uninterp spec fn le8(x: u64) -> Seq<u8>;                   // u64::to_le_bytes
pub uninterp spec fn dig(b: Seq<u8>) -> Seq<u8>;               // D::digest
pub uninterp spec fn frb(b: Seq<u8>) -> Option<G1Affine>;      // G::from_random_bytes
pub uninterp spec fn cof(g: G1Affine) -> AS;                   // mul_by_cofactor_to_group
#[verifier::external_body] pub fn protocol_name() -> (r: Vec<u8>) ensures r@ == pname() { unimplemented!() }
#[verifier::external_body] pub fn u64_to_le_bytes(x: u64) -> (r: Vec<u8>) ensures r@ == le8(x) { unimplemented!() }
#[verifier::external_body] pub fn bytes_concat2(a: Vec<u8>, b: &Vec<u8>) -> (r: Vec<u8>) ensures r@ == a@ + b@ { unimplemented!() }        // [a, b].concat()
#[verifier::external_body] pub fn bytes_extend(v: &mut Vec<u8>, b: &Vec<u8>) ensures final(v)@ == old(v)@ + b@ { unimplemented!() }           // v.extend(b)
#[verifier::external_body] pub fn digest(b: &[u8]) -> (r: Vec<u8>) ensures r@ == dig(b@) { unimplemented!() }
#[verifier::external_body] pub fn from_random_bytes(b: &Vec<u8>) -> (r: Option<G1Affine>) ensures r == frb(b@) { unimplemented!() }
#[verifier::external_body] pub fn mul_by_cofactor_to_group(g: G1Affine) -> (r: G1) ensures r@ == cof(g) { unimplemented!() }
#[verifier::external_body] pub fn ctr_inc_u64(j: &mut u64) ensures *final(j) == *old(j) + 1 { unimplemented!() }      // j += 1 (assumption: fewer than 2^64 retries)
pub uninterp spec fn frf(b: Seq<u8>) -> Option<Fr>;            // <ScalarField as Field>::from_random_bytes
#[verifier::external_body] pub fn field_from_random_bytes(b: &Vec<u8>) -> (r: Option<Fr>) ensures r == frf(b@) { unimplemented!() }
#[verifier::external_body] pub fn bytes_to_vec(b: &[u8]) -> (r: Vec<u8>) ensures r@ == b@ { unimplemented!() }                               // <[u8]>::to_vec
