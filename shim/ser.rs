// ===== shim/ser.rs : ASSUMED contract of ark-serialize on component types (trusted) =====
// Every component type has a canonical encoding `ser(x, compress)`: serialize appends exactly it, serialized_size is its
// length, deserialize consumes exactly one encoding from the front of the input, and encodings are prefix-free/injective
// (`ser_injective`).  `valid()` is the (uninterpreted) predicate decided by `Valid::check`.
#[derive(Clone, Copy, PartialEq, Eq)] pub enum Compress { Yes, No }
#[derive(Clone, Copy, PartialEq, Eq)] pub enum Validate { Yes, No }
#[derive(Debug)] pub enum SerializationError { NotEnoughSpace, InvalidData, UnexpectedFlags, IoError }
pub struct Sink { pub bytes: Ghost<Seq<u8>> }      // `W: Write` -- the bytes written so far
pub struct Source { pub bytes: Ghost<Seq<u8>> }    // `R: Read`  -- the bytes not yet consumed
pub trait Canon: Sized {
    spec fn ser(&self, c: Compress) -> Seq<u8>;
    spec fn valid(&self) -> bool;
    fn serialize_with_mode(&self, writer: &mut Sink, compress: Compress) -> (r: Result<(), SerializationError>)
        ensures r is Ok ==> final(writer).bytes@ == old(writer).bytes@ + self.ser(compress);
    fn serialized_size(&self, compress: Compress) -> (r: usize)
        ensures r == self.ser(compress).len();
    fn deserialize_with_mode(reader: &mut Source, compress: Compress, validate: Validate) -> (r: Result<Self, SerializationError>)
        ensures r is Ok ==> old(reader).bytes@ == r->Ok_0.ser(compress) + final(reader).bytes@,
                (r is Ok && validate == Validate::Yes) ==> r->Ok_0.valid();
    fn check(&self) -> (r: Result<(), SerializationError>)
        ensures (r is Ok) == self.valid();
    proof fn ser_injective(a: Self, b: Self, c: Compress, ra: Seq<u8>, rb: Seq<u8>)
        requires a.ser(c) + ra == b.ser(c) + rb
        ensures a.ser(c) == b.ser(c), ra == rb;
    // the provided convenience methods of ark-serialize, by their definitions (fixed compression / validation mode)
    fn deserialize_compressed(reader: &mut Source) -> (r: Result<Self, SerializationError>)
        ensures r is Ok ==> old(reader).bytes@ == r->Ok_0.ser(Compress::Yes) + final(reader).bytes@, r is Ok ==> r->Ok_0.valid()
    { Self::deserialize_with_mode(reader, Compress::Yes, Validate::Yes) }
    fn deserialize_compressed_unchecked(reader: &mut Source) -> (r: Result<Self, SerializationError>)
        ensures r is Ok ==> old(reader).bytes@ == r->Ok_0.ser(Compress::Yes) + final(reader).bytes@
    { Self::deserialize_with_mode(reader, Compress::Yes, Validate::No) }
    fn deserialize_uncompressed(reader: &mut Source) -> (r: Result<Self, SerializationError>)
        ensures r is Ok ==> old(reader).bytes@ == r->Ok_0.ser(Compress::No) + final(reader).bytes@, r is Ok ==> r->Ok_0.valid()
    { Self::deserialize_with_mode(reader, Compress::No, Validate::Yes) }
    fn deserialize_uncompressed_unchecked(reader: &mut Source) -> (r: Result<Self, SerializationError>)
        ensures r is Ok ==> old(reader).bytes@ == r->Ok_0.ser(Compress::No) + final(reader).bytes@
    { Self::deserialize_with_mode(reader, Compress::No, Validate::No) }
    // (serialize_compressed / serialize_uncompressed into a byte vector: see trait SerU below)
}
#[verifier::external_body] pub struct Term { _x: u8 }   // P::Term of the multivariate polynomial type (opaque)
impl Canon for G1Affine {
    uninterp spec fn ser(&self, c: Compress) -> Seq<u8>;
    uninterp spec fn valid(&self) -> bool;
    #[verifier::external_body] fn serialize_with_mode(&self, writer: &mut Sink, compress: Compress) -> (r: Result<(), SerializationError>) { unimplemented!() }
    #[verifier::external_body] fn serialized_size(&self, compress: Compress) -> (r: usize) { unimplemented!() }
    #[verifier::external_body] fn deserialize_with_mode(reader: &mut Source, compress: Compress, validate: Validate) -> (r: Result<Self, SerializationError>) { unimplemented!() }
    #[verifier::external_body] fn check(&self) -> (r: Result<(), SerializationError>) { unimplemented!() }
    #[verifier::external_body] proof fn ser_injective(a: Self, b: Self, c: Compress, ra: Seq<u8>, rb: Seq<u8>) {}
}
impl Canon for G2Affine {
    uninterp spec fn ser(&self, c: Compress) -> Seq<u8>;
    uninterp spec fn valid(&self) -> bool;
    #[verifier::external_body] fn serialize_with_mode(&self, writer: &mut Sink, compress: Compress) -> (r: Result<(), SerializationError>) { unimplemented!() }
    #[verifier::external_body] fn serialized_size(&self, compress: Compress) -> (r: usize) { unimplemented!() }
    #[verifier::external_body] fn deserialize_with_mode(reader: &mut Source, compress: Compress, validate: Validate) -> (r: Result<Self, SerializationError>) { unimplemented!() }
    #[verifier::external_body] fn check(&self) -> (r: Result<(), SerializationError>) { unimplemented!() }
    #[verifier::external_body] proof fn ser_injective(a: Self, b: Self, c: Compress, ra: Seq<u8>, rb: Seq<u8>) {}
}
impl Canon for usize {
    uninterp spec fn ser(&self, c: Compress) -> Seq<u8>;
    uninterp spec fn valid(&self) -> bool;
    #[verifier::external_body] fn serialize_with_mode(&self, writer: &mut Sink, compress: Compress) -> (r: Result<(), SerializationError>) { unimplemented!() }
    #[verifier::external_body] fn serialized_size(&self, compress: Compress) -> (r: usize) { unimplemented!() }
    #[verifier::external_body] fn deserialize_with_mode(reader: &mut Source, compress: Compress, validate: Validate) -> (r: Result<Self, SerializationError>) { unimplemented!() }
    #[verifier::external_body] fn check(&self) -> (r: Result<(), SerializationError>) { unimplemented!() }
    #[verifier::external_body] proof fn ser_injective(a: Self, b: Self, c: Compress, ra: Seq<u8>, rb: Seq<u8>) {}
}
impl Canon for Term {
    uninterp spec fn ser(&self, c: Compress) -> Seq<u8>;
    uninterp spec fn valid(&self) -> bool;
    #[verifier::external_body] fn serialize_with_mode(&self, writer: &mut Sink, compress: Compress) -> (r: Result<(), SerializationError>) { unimplemented!() }
    #[verifier::external_body] fn serialized_size(&self, compress: Compress) -> (r: usize) { unimplemented!() }
    #[verifier::external_body] fn deserialize_with_mode(reader: &mut Source, compress: Compress, validate: Validate) -> (r: Result<Self, SerializationError>) { unimplemented!() }
    #[verifier::external_body] fn check(&self) -> (r: Result<(), SerializationError>) { unimplemented!() }
    #[verifier::external_body] proof fn ser_injective(a: Self, b: Self, c: Compress, ra: Seq<u8>, rb: Seq<u8>) {}
}
impl<T: Canon> Canon for Vec<T> {
    uninterp spec fn ser(&self, c: Compress) -> Seq<u8>;
    uninterp spec fn valid(&self) -> bool;
    #[verifier::external_body] fn serialize_with_mode(&self, writer: &mut Sink, compress: Compress) -> (r: Result<(), SerializationError>) { unimplemented!() }
    #[verifier::external_body] fn serialized_size(&self, compress: Compress) -> (r: usize) { unimplemented!() }
    #[verifier::external_body] fn deserialize_with_mode(reader: &mut Source, compress: Compress, validate: Validate) -> (r: Result<Self, SerializationError>) { unimplemented!() }
    #[verifier::external_body] fn check(&self) -> (r: Result<(), SerializationError>) { unimplemented!() }
    #[verifier::external_body] proof fn ser_injective(a: Self, b: Self, c: Compress, ra: Seq<u8>, rb: Seq<u8>) {}
}
impl<T: Canon> Canon for Option<T> {
    uninterp spec fn ser(&self, c: Compress) -> Seq<u8>;
    uninterp spec fn valid(&self) -> bool;
    #[verifier::external_body] fn serialize_with_mode(&self, writer: &mut Sink, compress: Compress) -> (r: Result<(), SerializationError>) { unimplemented!() }
    #[verifier::external_body] fn serialized_size(&self, compress: Compress) -> (r: usize) { unimplemented!() }
    #[verifier::external_body] fn deserialize_with_mode(reader: &mut Source, compress: Compress, validate: Validate) -> (r: Result<Self, SerializationError>) { unimplemented!() }
    #[verifier::external_body] fn check(&self) -> (r: Result<(), SerializationError>) { unimplemented!() }
    #[verifier::external_body] proof fn ser_injective(a: Self, b: Self, c: Compress, ra: Seq<u8>, rb: Seq<u8>) {}
}
impl<A: Canon, B: Canon> Canon for (A, B) {
    uninterp spec fn ser(&self, c: Compress) -> Seq<u8>;
    uninterp spec fn valid(&self) -> bool;
    #[verifier::external_body] fn serialize_with_mode(&self, writer: &mut Sink, compress: Compress) -> (r: Result<(), SerializationError>) { unimplemented!() }
    #[verifier::external_body] fn serialized_size(&self, compress: Compress) -> (r: usize) { unimplemented!() }
    #[verifier::external_body] fn deserialize_with_mode(reader: &mut Source, compress: Compress, validate: Validate) -> (r: Result<Self, SerializationError>) { unimplemented!() }
    #[verifier::external_body] fn check(&self) -> (r: Result<(), SerializationError>) { unimplemented!() }
    #[verifier::external_body] proof fn ser_injective(a: Self, b: Self, c: Compress, ra: Seq<u8>, rb: Seq<u8>) {}
}
impl<K: Canon, V: Canon> Canon for BTreeMap<K, V> {
    uninterp spec fn ser(&self, c: Compress) -> Seq<u8>;
    uninterp spec fn valid(&self) -> bool;
    #[verifier::external_body] fn serialize_with_mode(&self, writer: &mut Sink, compress: Compress) -> (r: Result<(), SerializationError>) { unimplemented!() }
    #[verifier::external_body] fn serialized_size(&self, compress: Compress) -> (r: usize) { unimplemented!() }
    #[verifier::external_body] fn deserialize_with_mode(reader: &mut Source, compress: Compress, validate: Validate) -> (r: Result<Self, SerializationError>) { unimplemented!() }
    #[verifier::external_body] fn check(&self) -> (r: Result<(), SerializationError>) { unimplemented!() }
    #[verifier::external_body] proof fn ser_injective(a: Self, b: Self, c: Compress, ra: Seq<u8>, rb: Seq<u8>) {}
}
// ark_serialize::serialize_to_vec!(x): the compressed canonical encoding of x (prelude macro -> ser_to_vec)
pub trait SerBytes { spec fn ser_bytes(&self) -> Seq<u8>; }
impl<T: Canon> SerBytes for T { open spec fn ser_bytes(&self) -> Seq<u8> { self.ser(Compress::Yes) } }
#[verifier::external_body]
pub fn ser_to_vec<T: SerBytes>(x: &T) -> (r: Result<Vec<u8>, SerializationError>)
    ensures r is Ok ==> r->Ok_0@ == x.ser_bytes()
{ unimplemented!() }
// CanonicalSerialize::serialize_uncompressed into a Vec<u8>: appends the (uncompressed) canonical encoding; writing to a Vec cannot fail
pub trait SerU { spec fn ser_u(&self) -> Seq<u8>; fn serialize_uncompressed(&self, w: &mut Vec<u8>) -> (r: Result<(), SerializationError>) ensures r is Ok, final(w)@ == old(w)@ + self.ser_u(); }
pub uninterp spec fn g1_ser_u(x: FS) -> Seq<u8>;
pub uninterp spec fn fr_ser_u(x: FS) -> Seq<u8>;
impl SerU for G1Affine { open spec fn ser_u(&self) -> Seq<u8> { g1_ser_u(self@) } #[verifier::external_body] fn serialize_uncompressed(&self, w: &mut Vec<u8>) -> (r: Result<(), SerializationError>) { unimplemented!() } }
impl SerU for Fr { open spec fn ser_u(&self) -> Seq<u8> { fr_ser_u(self@) } #[verifier::external_body] fn serialize_uncompressed(&self, w: &mut Vec<u8>) -> (r: Result<(), SerializationError>) { unimplemented!() } }
