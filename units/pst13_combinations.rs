// marlin_pst13_pc/combinations.rs: the multiset enumerator behind MarlinPST13::setup, at T = usize   (C15, C17)
// Decided here: the enumerator never indexes out of bounds for any input, keeps its position vector strictly increasing and in range, and every
// selection it hands out has `len` entries original[p_0], original[p_1], .. at those positions (a sorted sub-multiset of the input).
// NOT decided: that successive calls enumerate EVERY sub-multiset of size `len` exactly once.
//@use core std
//@typemap /<T>/ =>
//@typemap /\bVec<T>/ => Vec<usize>
//@typemap /\bT\b/ => usize
//@struct file=poly-commit/src/marlin/marlin_pst13_pc/combinations.rs name=Combinations
// ---- trusted environment ----
#[verifier::external_body] pub fn range_collect(n: usize) -> (r: Vec<usize>) ensures r@.len() == n, forall|i: int| 0 <= i < n ==> r@[i] == i { unimplemented!() }   // (0..n).collect()
#[verifier::external_body] pub fn vec_clear(v: &mut Vec<usize>) ensures final(v)@.len() == 0 { unimplemented!() }                                                     // Vec::clear
#[verifier::external_body] pub fn vec_insert(v: &mut Vec<usize>, p: usize, x: usize) requires p <= old(v)@.len() ensures final(v)@ == old(v)@.insert(p as int, x) { unimplemented!() }   // Vec::insert (p > len aborts)
// ======================= specification =======================
pub open spec fn pos_ok(pos: Seq<usize>, n: nat) -> bool {
    (forall|a: int, b: int| 0 <= a < b < pos.len() ==> pos[a] < pos[b]) && (forall|a: int| 0 <= a < pos.len() ==> (#[trigger] pos[a]) < n)
}
pub open spec fn comb_wf(c: &Combinations) -> bool {
    c.len >= 1 && c.original@.len() > c.len && c.possition@.len() == c.len && sorted_usize(c.original@) && pos_ok(c.possition@, c.original@.len())
}
// the selection at the current positions
pub open spec fn selected(c: &Combinations, col: Seq<usize>) -> bool {
    col.len() == c.len && forall|p: int| 0 <= p < c.len ==> col[p] == c.original@[(#[trigger] c.possition@[p]) as int]
}
// the value sequence at positions p1 is lexicographically GREATER than at p0: equal before idx, strictly greater at idx
pub open spec fn lex_at(orig: Seq<usize>, p0: Seq<usize>, p1: Seq<usize>, idx: int) -> bool {
    0 <= idx < p0.len() && p1.len() == p0.len() && (forall|q: int| 0 <= q < idx ==> p1[q] == p0[q]) && orig[p0[idx] as int] < orig[p1[idx] as int]
}
pub open spec fn lex_greater(orig: Seq<usize>, p0: Seq<usize>, p1: Seq<usize>) -> bool { exists|idx: int| #[trigger] lex_at(orig, p0, p1, idx) }
impl Combinations {
//@fn id=pst13.Combinations.new file=poly-commit/src/marlin/marlin_pst13_pc/combinations.rs scope="impl<T> Combinations<T>" name=new props=C15,C17
    pub fn new(original: Vec<usize>, len: usize) -> (r: Self)
    ensures
        original@.len() > len && len >= 1,   // name=pst13.Combinations.new.too_short_input_aborts props=C17
        comb_wf(&r) && r.len == len && !r.started,   // name=pst13.Combinations.new.well_formed_start props=C15
        r.original@.len() == original@.len() && (forall|x: usize| r.original@.contains(x) == original@.contains(x)),   // name=pst13.Combinations.new.same_elements_sorted props=C15
//@body
//@rw 1 /original\.sort_unstable\(\);/ => sort_usize(&mut original);
//@rw 1 /\(0\.\.len\)\.collect\(\)/ => range_collect(len)
//@rw 1 /pub\(crate\) fn new\(mut original/ => pub(crate) fn new(original
//@after start
        let mut original = original;
//@end

//@fn id=pst13.Combinations.insert file=poly-commit/src/marlin/marlin_pst13_pc/combinations.rs scope="impl<T> Combinations<T>" name=insert props=C15,C17
    fn insert(&self, col: &mut Vec<usize>)
    requires
        comb_wf(self),
    ensures
        selected(self, final(col)@),   // name=pst13.Combinations.insert.selection_at_the_positions props=C15
//@body
//@rw 1 /col\.clear\(\);/ => vec_clear(col);
//@rw 1 /(?s)self\.possition\s*\.iter\(\)\s*\.enumerate\(\)\s*\.for_each\(\|\(p, n\)\| (col\.insert\(.*?\)\))\)/ => let mut p: usize = 0; for n in it: self.possition.iter() invariant comb_wf(self), p == it.index@, col@.len() == it.index@, forall|q: int| 0 <= q < it.index@ ==> col@[q] == self.original@[(#[trigger] self.possition@[q]) as int], { \1; p += 1; }
//@rw 1 /col\.insert\(p, self\.original\[\*n\]\.clone\(\)\)/ => vec_insert(col, p, self.original[*n])
//@end

//@fn id=pst13.Combinations.next_combination file=poly-commit/src/marlin/marlin_pst13_pc/combinations.rs scope="impl<T> Combinations<T>" name=next_combination props=C15,C17
    fn next_combination(&mut self, comb: &mut Vec<usize>) -> (r: bool)
    requires
        comb_wf(old(self)),
    ensures
        comb_wf(final(self)) && final(self).original@ == old(self).original@ && final(self).len == old(self).len,   // name=pst13.Combinations.next_combination.positions_stay_increasing_and_in_range props=C15,C17
        r ==> selected(final(self), final(comb)@),   // name=pst13.Combinations.next_combination.hands_out_the_selection_at_its_positions props=C15
        // after the first call every selection is lexicographically greater (as a sequence of VALUES) than the previous one: no selection is handed out twice
        (r && old(self).started) ==> lex_greater(old(self).original@, old(self).possition@, final(self).possition@),   // name=pst13.Combinations.next_combination.strictly_increasing_hence_no_duplicates props=C15
        final(self).started, (!old(self).started) ==> (r && final(self).possition@ == old(self).possition@),
//@body
//@rw 3 /self\.insert\(&mut comb\)/ => self.insert(comb)
//@after start
        let ghost orig0 = self.original@; let ghost pos0 = self.possition@; let ghost len0 = self.len;
//@loop 1 kw=for name=it1
                    invariant orig0 == old(self).original@, pos0 == old(self).possition@, len0 == old(self).len, old(self).started, comb_wf(self), self.original@ == orig0, self.possition@ == pos0, self.len == len0, org_len == orig0.len(), self.started,
//@loop 2 kw=for name=it2
                            invariant orig0 == old(self).original@, pos0 == old(self).possition@, len0 == old(self).len, old(self).started, comb_wf(self), self.original@ == orig0, self.possition@ == pos0, self.len == len0, org_len == orig0.len(), self.started,
                                2 <= i <= len0, lastpos == pos0[len0 - i], lastpos < org_len - i, *val == orig0[lastpos as int], orig0[lastpos as int] < orig0[org_len - i],
                                forall|t: int| lastpos < t < j ==> orig0[t] <= *val,
//@loop 3 kw=for name=it3
                                    invariant self.original@ == orig0, self.len == len0, org_len == orig0.len(), self.started, self.possition@.len() == len0,
                                        2 <= i <= len0, j + i <= org_len, lastpos < j, lastpos == pos0[len0 - i], pos_ok(pos0, org_len as nat), len0 >= 1, orig0.len() > len0, sorted_usize(orig0),
                                        forall|q: int| 0 <= q < len0 - i ==> self.possition@[q] == pos0[q],
                                        forall|q: int| len0 - i <= q < len0 - i + k ==> (#[trigger] self.possition@[q]) == j + (q - (len0 - i)),
//@beforeloop 3
                                proof {
                                    if j > org_len - i { assert(orig0[org_len - i] <= *val); }
                                    assert(j + i <= org_len);
                                }
//@afterloop 3
                                proof {
                                    let np = self.possition@;
                                    assert forall|a: int, b: int| 0 <= a < b < np.len() implies np[a] < np[b] by {
                                        if b < len0 - i { assert(np[a] == pos0[a] && np[b] == pos0[b]); }
                                        else if a < len0 - i { assert(np[a] == pos0[a]); assert(pos0[a] <= pos0[len0 - i]); assert(np[b] == j + (b - (len0 - i))); }
                                        else { assert(np[a] == j + (a - (len0 - i))); assert(np[b] == j + (b - (len0 - i))); }
                                    }
                                    assert forall|a: int| 0 <= a < np.len() implies (#[trigger] np[a]) < org_len by {
                                        if a < len0 - i { assert(np[a] == pos0[a]); } else { assert(np[a] == j + (a - (len0 - i))); }
                                    }
                                }
//@after /self\.insert\(&mut comb\);/ #2
                                proof { assert(lex_at(orig0, pos0, self.possition@, len0 - i)); assert(lex_greater(orig0, pos0, self.possition@)); }
//@after /self\.insert\(&mut comb\);/ #3
                proof { assert(lex_at(orig0, pos0, self.possition@, len0 - 1)); assert(lex_greater(orig0, pos0, self.possition@)); }
//@loop 4 kw=while
                    invariant self.original@ == orig0, self.possition@ == pos0, self.len == len0, org_len == orig0.len(), comb_wf(self),
                        pos0[len0 - 1] <= i < org_len, *next == orig0[i as int], *current == orig0[pos0[len0 - 1] as int], orig0[pos0[len0 - 1] as int] != orig0[org_len - 1],
                    decreases org_len - i
//@rw 1 /self\.possition\[self\.len - i \+ k\] = j \+ k;/ => self.possition.set(self.len - i + k, j + k);
//@rw 1 /self\.possition\[self\.len - 1\] = i;/ => self.possition.set(self.len - 1, i);
//@end
//@fn id=pst13.Combinations.next file=poly-commit/src/marlin/marlin_pst13_pc/combinations.rs scope="impl<T> Iterator for Combinations<T>" name=next props=C15,C17
    fn next(&mut self) -> (r: Option<Vec<usize>>)
    requires
        comb_wf(old(self)),
    ensures
        comb_wf(final(self)) && final(self).original@ == old(self).original@ && final(self).len == old(self).len,   // name=pst13.Combinations.next.stays_well_formed props=C15,C17
        // every selection handed out has `len` entries, taken from the (sorted) input at strictly increasing positions
        r is Some ==> selected(final(self), r->Some_0@),   // name=pst13.Combinations.next.selection_of_len_entries_of_the_input props=C15
        (r is Some && old(self).started) ==> lex_greater(old(self).original@, old(self).possition@, final(self).possition@),   // name=pst13.Combinations.next.no_selection_twice props=C15
//@body
//@rw 1 /let mut vals = Vec::with_capacity\(self\.len\);/ => let mut vals: Vec<usize> = Vec::with_capacity(self.len);
//@rw 1 /Self::Item/ => Vec<usize>
//@end
}
