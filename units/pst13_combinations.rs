// marlin_pst13_pc/combinations.rs: the multiset enumerator behind MarlinPST13::setup, at T = usize   (C15, C17)
// Decided here: the enumerator never indexes out of bounds for any input, keeps its position vector strictly increasing and in range, and every
// selection it hands out has `len` entries original[p_0], original[p_1], .. at those positions (a sorted sub-multiset of the input).
// NOT decided: that successive calls enumerate EVERY sub-multiset of size `len` exactly once.
//@use core std
//@typemap /<T>/ =>
//@typemap /\bVec<T>/ => Vec<usize>
//@typemap /\bT\b/ => usize
//@struct file=poly-commit/src/marlin/marlin_pst13_pc/combinations.rs name=Combinations
// ---- trusted environment ----
#[verifier::external_body] pub fn range_collect(n: usize) -> (r: Vec<usize>) ensures r@.len() == n, forall|i: int| 0 <= i < n ==> r@[i] == i { unimplemented!() }   // (0..n).collect()
#[verifier::external_body] pub fn vec_clear(v: &mut Vec<usize>) ensures final(v)@.len() == 0 { unimplemented!() }                                                     // Vec::clear
#[verifier::external_body] pub fn vec_insert(v: &mut Vec<usize>, p: usize, x: usize) requires p <= old(v)@.len() ensures final(v)@ == old(v)@.insert(p as int, x) { unimplemented!() }   // Vec::insert (p > len aborts)
// ======================= specification =======================
pub open spec fn pos_ok(pos: Seq<usize>, n: nat) -> bool {
    (forall|a: int, b: int| 0 <= a < b < pos.len() ==> pos[a] < pos[b]) && (forall|a: int| 0 <= a < pos.len() ==> (#[trigger] pos[a]) < n)
}
pub open spec fn comb_wf(c: &Combinations) -> bool {
    c.len >= 1 && c.original@.len() > c.len && c.possition@.len() == c.len && sorted_usize(c.original@) && pos_ok(c.possition@, c.original@.len())
    && (!c.started ==> forall|t: int| 0 <= t < c.len ==> (#[trigger] c.possition@[t]) == t)       // before the first call: positions 0, 1, .., len-1
}
// ---- the ORDER in which selections are handed out: by their value sequences orig[q_0], orig[q_1], .. ----
pub open spec fn valid_sel(orig: Seq<usize>, q: Seq<usize>, k: nat) -> bool { q.len() == k && pos_ok(q, orig.len()) }
pub open spec fn lex_gt_at(orig: Seq<usize>, q: Seq<usize>, p: Seq<usize>, t: int) -> bool {
    0 <= t < p.len() && q.len() == p.len() && (forall|s: int| 0 <= s < t ==> orig[(#[trigger] q[s]) as int] == orig[p[s] as int]) && orig[q[t] as int] > orig[p[t] as int]
}
pub open spec fn lex_gt(orig: Seq<usize>, q: Seq<usize>, p: Seq<usize>) -> bool { exists|t: int| #[trigger] lex_gt_at(orig, q, p, t) }
pub open spec fn same_vals(orig: Seq<usize>, q: Seq<usize>, p: Seq<usize>) -> bool { q.len() == p.len() && forall|s: int| 0 <= s < p.len() ==> orig[(#[trigger] q[s]) as int] == orig[p[s] as int] }
pub open spec fn lex_ge(orig: Seq<usize>, q: Seq<usize>, p: Seq<usize>) -> bool { same_vals(orig, q, p) || lex_gt(orig, q, p) }
// slot len-i' already holds the largest value any selection can have there
pub open spec fn slot_max(orig: Seq<usize>, p: Seq<usize>, ip: int) -> bool { orig[p[p.len() - ip] as int] >= orig[orig.len() - ip] }
pub proof fn lemma_sel_gap(q: Seq<usize>, n: nat, t: int, s: int)
    requires pos_ok(q, n), 0 <= t, 0 <= s, t + s < q.len()
    ensures q[t + s] >= q[t] + s
    decreases s
{ if s > 0 { lemma_sel_gap(q, n, t, s - 1); assert(q[t + s - 1] < q[t + s]); } }
pub proof fn lemma_sel_upper(q: Seq<usize>, n: nat, t: int)
    requires pos_ok(q, n), 0 <= t < q.len()
    ensures q[t] + (q.len() - t) <= n
{ lemma_sel_gap(q, n, t, q.len() - 1 - t); assert(q[q.len() - 1] < n); }
// equal values before t0 and pointwise >= from t0 on: lexicographically >=
pub proof fn lemma_pointwise_ge(orig: Seq<usize>, q: Seq<usize>, p: Seq<usize>, t0: int)
    requires q.len() == p.len(), 0 <= t0 <= p.len(), forall|s: int| 0 <= s < t0 ==> orig[(#[trigger] q[s]) as int] == orig[p[s] as int],
        forall|s: int| t0 <= s < p.len() ==> orig[(#[trigger] q[s]) as int] >= orig[p[s] as int]
    ensures lex_ge(orig, q, p)
    decreases p.len() - t0
{
    if t0 == p.len() { assert(same_vals(orig, q, p)); }
    else if orig[q[t0] as int] > orig[p[t0] as int] { assert(lex_gt_at(orig, q, p, t0)); }
    else { lemma_pointwise_ge(orig, q, p, t0 + 1); }
}
// FIRST selection (positions 0..len-1) is the least one
pub proof fn lemma_first_is_least(orig: Seq<usize>, p: Seq<usize>, q: Seq<usize>)
    requires sorted_usize(orig), valid_sel(orig, q, p.len()), forall|t: int| 0 <= t < p.len() ==> (#[trigger] p[t]) == t
    ensures lex_ge(orig, q, p)
{
    assert forall|s: int| 0 <= s < p.len() implies orig[(#[trigger] q[s]) as int] >= orig[p[s] as int] by { lemma_sel_gap(q, orig.len(), 0, s); }
    lemma_pointwise_ge(orig, q, p, 0);
}
// `false` is returned only at the GREATEST selection: every slot already holds its largest possible value
pub proof fn lemma_last_is_greatest(orig: Seq<usize>, p: Seq<usize>, q: Seq<usize>)
    requires sorted_usize(orig), valid_sel(orig, q, p.len()), pos_ok(p, orig.len()), forall|ip: int| 1 <= ip <= p.len() ==> #[trigger] slot_max(orig, p, ip)
    ensures !lex_gt(orig, q, p)
{
    if lex_gt(orig, q, p) {
        let t = choose|t: int| #[trigger] lex_gt_at(orig, q, p, t);
        lemma_sel_upper(q, orig.len(), t);
        assert(slot_max(orig, p, p.len() - t));
    }
}
// advancing the LAST position to the next distinct value gives the immediate successor
pub proof fn lemma_succ_last(orig: Seq<usize>, p: Seq<usize>, p1: Seq<usize>, inew: int, q: Seq<usize>)
    requires sorted_usize(orig), pos_ok(p, orig.len()), p.len() >= 1, p1 == p.update(p.len() - 1, inew as usize), p[p.len() - 1] < inew < orig.len(),
        forall|x: int| p[p.len() - 1] <= x < inew ==> (#[trigger] orig[x]) == orig[p[p.len() - 1] as int],
        valid_sel(orig, q, p.len()), lex_gt(orig, q, p)
    ensures lex_ge(orig, q, p1)
{
    let k = p.len() as int; let t = choose|t: int| #[trigger] lex_gt_at(orig, q, p, t);
    if t < k - 1 { assert(lex_gt_at(orig, q, p1, t)); }
    else {
        let cur = orig[p[k - 1] as int];
        assert(q[t] >= inew) by { if q[t] < inew { if q[t] >= p[k - 1] { assert(orig[q[t] as int] == cur); } else { assert(orig[q[t] as int] <= cur); } } }
        lemma_pointwise_ge(orig, q, p1, k - 1);
    }
}
// bumping slot len-i to the first larger value and packing the following slots right behind it gives the immediate successor
pub proof fn lemma_succ_bump(orig: Seq<usize>, p: Seq<usize>, p1: Seq<usize>, i: int, j: int, q: Seq<usize>)
    requires sorted_usize(orig), pos_ok(p, orig.len()), 2 <= i <= p.len(), p1.len() == p.len(),
        forall|a: int| 0 <= a < p.len() - i ==> p1[a] == p[a], forall|a: int| p.len() - i <= a < p.len() ==> (#[trigger] p1[a]) == j + (a - (p.len() - i)),
        p[p.len() - i] < j, j + i <= orig.len(), orig[j] > orig[p[p.len() - i] as int],
        forall|x: int| p[p.len() - i] < x < j ==> (#[trigger] orig[x]) <= orig[p[p.len() - i] as int],
        forall|ip: int| 1 <= ip < i ==> #[trigger] slot_max(orig, p, ip),
        valid_sel(orig, q, p.len()), lex_gt(orig, q, p)
    ensures lex_ge(orig, q, p1)
{
    let k = p.len() as int; let t = choose|t: int| #[trigger] lex_gt_at(orig, q, p, t); let lastpos = p[k - i]; let val = orig[lastpos as int];
    if t < k - i { assert(lex_gt_at(orig, q, p1, t)); }
    else if t > k - i {
        lemma_sel_upper(q, orig.len(), t);
        assert(slot_max(orig, p, k - t));
        assert(false);
    } else {
        assert(q[t] >= j) by { if q[t] < j { if q[t] > lastpos { assert(orig[q[t] as int] <= val); } else { assert(orig[q[t] as int] <= val); } } }
        assert forall|s: int| t <= s < k implies orig[(#[trigger] q[s]) as int] >= orig[p1[s] as int] by {
            lemma_sel_gap(q, orig.len(), t, s - t);
            assert(p1[s] == j + (s - (k - i)));
        }
        lemma_pointwise_ge(orig, q, p1, t);
    }
}
// the selection at the current positions
pub open spec fn selected(c: &Combinations, col: Seq<usize>) -> bool {
    col.len() == c.len && forall|p: int| 0 <= p < c.len ==> col[p] == c.original@[(#[trigger] c.possition@[p]) as int]
}
// the value sequence at positions p1 is lexicographically GREATER than at p0: equal before idx, strictly greater at idx
pub open spec fn lex_at(orig: Seq<usize>, p0: Seq<usize>, p1: Seq<usize>, idx: int) -> bool {
    0 <= idx < p0.len() && p1.len() == p0.len() && (forall|q: int| 0 <= q < idx ==> p1[q] == p0[q]) && orig[p0[idx] as int] < orig[p1[idx] as int]
}
pub open spec fn lex_greater(orig: Seq<usize>, p0: Seq<usize>, p1: Seq<usize>) -> bool { exists|idx: int| #[trigger] lex_at(orig, p0, p1, idx) }
impl Combinations {
//@fn id=pst13.Combinations.new file=poly-commit/src/marlin/marlin_pst13_pc/combinations.rs scope="impl<T> Combinations<T>" name=new props=C15,C17
    pub fn new(original: Vec<usize>, len: usize) -> (r: Self)
    ensures
        original@.len() > len && len >= 1,   // name=pst13.Combinations.new.too_short_input_aborts props=C17
        comb_wf(&r) && r.len == len && !r.started,   // name=pst13.Combinations.new.well_formed_start props=C15
        r.original@.len() == original@.len() && (forall|x: usize| r.original@.contains(x) == original@.contains(x)),   // name=pst13.Combinations.new.same_elements_sorted props=C15
//@body
//@rw 1 /original\.sort_unstable\(\);/ => sort_usize(&mut original);
//@rw 1 /\(0\.\.len\)\.collect\(\)/ => range_collect(len)
//@rw 1 /pub\(crate\) fn new\(mut original/ => pub(crate) fn new(original
//@after start
        let mut original = original;
//@end

//@fn id=pst13.Combinations.insert file=poly-commit/src/marlin/marlin_pst13_pc/combinations.rs scope="impl<T> Combinations<T>" name=insert props=C15,C17
    fn insert(&self, col: &mut Vec<usize>)
    requires
        comb_wf(self),
    ensures
        selected(self, final(col)@),   // name=pst13.Combinations.insert.selection_at_the_positions props=C15
//@body
//@rw 1 /col\.clear\(\);/ => vec_clear(col);
//@rw 1 /(?s)self\.possition\s*\.iter\(\)\s*\.enumerate\(\)\s*\.for_each\(\|\(p, n\)\| (col\.insert\(.*?\)\))\)/ => let mut p: usize = 0; for n in it: self.possition.iter() invariant comb_wf(self), p == it.index@, col@.len() == it.index@, forall|q: int| 0 <= q < it.index@ ==> col@[q] == self.original@[(#[trigger] self.possition@[q]) as int], { \1; p += 1; }
//@rw 1 /col\.insert\(p, self\.original\[\*n\]\.clone\(\)\)/ => vec_insert(col, p, self.original[*n])
//@end

//@fn id=pst13.Combinations.next_combination file=poly-commit/src/marlin/marlin_pst13_pc/combinations.rs scope="impl<T> Combinations<T>" name=next_combination props=C15,C17
    fn next_combination(&mut self, comb: &mut Vec<usize>) -> (r: bool)
    requires
        comb_wf(old(self)),
    ensures
        comb_wf(final(self)) && final(self).original@ == old(self).original@ && final(self).len == old(self).len,   // name=pst13.Combinations.next_combination.positions_stay_increasing_and_in_range props=C15,C17
        r ==> selected(final(self), final(comb)@),   // name=pst13.Combinations.next_combination.hands_out_the_selection_at_its_positions props=C15
        // after the first call every selection is lexicographically greater (as a sequence of VALUES) than the previous one: no selection is handed out twice
        (r && old(self).started) ==> lex_greater(old(self).original@, old(self).possition@, final(self).possition@),   // name=pst13.Combinations.next_combination.strictly_increasing_hence_no_duplicates props=C15
        final(self).started, (!old(self).started) ==> (r && final(self).possition@ == old(self).possition@),
        // EXHAUSTIVE, in order: the first selection is the least one; each later one is the IMMEDIATE successor of the one before (no selection's value
        // sequence lies strictly between); `false` comes only after the greatest one
        (!old(self).started) ==> (forall|q: Seq<usize>| #[trigger] valid_sel(old(self).original@, q, old(self).len as nat) ==> lex_ge(old(self).original@, q, final(self).possition@)),   // name=pst13.Combinations.next_combination.first_selection_is_the_least props=C15
        (r && old(self).started) ==> (forall|q: Seq<usize>| (#[trigger] valid_sel(old(self).original@, q, old(self).len as nat) && lex_gt(old(self).original@, q, old(self).possition@))
            ==> lex_ge(old(self).original@, q, final(self).possition@)),   // name=pst13.Combinations.next_combination.next_selection_is_the_immediate_successor props=C15
        (!r) ==> (forall|q: Seq<usize>| #[trigger] valid_sel(old(self).original@, q, old(self).len as nat) ==> !lex_gt(old(self).original@, q, old(self).possition@)),   // name=pst13.Combinations.next_combination.false_only_after_the_greatest_selection props=C15
//@body
//@rw 3 /self\.insert\(&mut comb\)/ => self.insert(comb)
//@after start
        let ghost orig0 = self.original@; let ghost pos0 = self.possition@; let ghost len0 = self.len;
//@loop 1 kw=for name=it1
                    invariant (forall|ip: int| 1 <= ip < 2 + it1.index@ ==> #[trigger] slot_max(orig0, pos0, ip)), orig0 == old(self).original@, pos0 == old(self).possition@, len0 == old(self).len, old(self).started, comb_wf(self), self.original@ == orig0, self.possition@ == pos0, self.len == len0, org_len == orig0.len(), self.started,
//@loop 2 kw=for name=it2
                            invariant (forall|ip: int| 1 <= ip < i ==> #[trigger] slot_max(orig0, pos0, ip)), orig0 == old(self).original@, pos0 == old(self).possition@, len0 == old(self).len, old(self).started, comb_wf(self), self.original@ == orig0, self.possition@ == pos0, self.len == len0, org_len == orig0.len(), self.started,
                                2 <= i <= len0, lastpos == pos0[len0 - i], lastpos < org_len - i, *val == orig0[lastpos as int], orig0[lastpos as int] < orig0[org_len - i],
                                forall|t: int| lastpos < t < j ==> orig0[t] <= *val,
//@loop 3 kw=for name=it3
                                    invariant self.original@ == orig0, self.len == len0, org_len == orig0.len(), self.started, self.possition@.len() == len0,
                                        2 <= i <= len0, j + i <= org_len, lastpos < j, lastpos == pos0[len0 - i], pos_ok(pos0, org_len as nat), len0 >= 1, orig0.len() > len0, sorted_usize(orig0),
                                        forall|q: int| 0 <= q < len0 - i ==> self.possition@[q] == pos0[q],
                                        forall|q: int| len0 - i <= q < len0 - i + k ==> (#[trigger] self.possition@[q]) == j + (q - (len0 - i)),
//@beforeloop 3
                                proof {
                                    if j > org_len - i { assert(orig0[org_len - i] <= *val); }
                                    assert(j + i <= org_len);
                                }
//@afterloop 3
                                proof {
                                    let np = self.possition@;
                                    assert forall|a: int, b: int| 0 <= a < b < np.len() implies np[a] < np[b] by {
                                        if b < len0 - i { assert(np[a] == pos0[a] && np[b] == pos0[b]); }
                                        else if a < len0 - i { assert(np[a] == pos0[a]); assert(pos0[a] <= pos0[len0 - i]); assert(np[b] == j + (b - (len0 - i))); }
                                        else { assert(np[a] == j + (a - (len0 - i))); assert(np[b] == j + (b - (len0 - i))); }
                                    }
                                    assert forall|a: int| 0 <= a < np.len() implies (#[trigger] np[a]) < org_len by {
                                        if a < len0 - i { assert(np[a] == pos0[a]); } else { assert(np[a] == j + (a - (len0 - i))); }
                                    }
                                }
//@after /self\.insert\(&mut comb\);/ #2
                                proof {
                                    assert(lex_at(orig0, pos0, self.possition@, len0 - i)); assert(lex_greater(orig0, pos0, self.possition@));
                                    let p1 = self.possition@;
                                    assert forall|q: Seq<usize>| (#[trigger] valid_sel(orig0, q, len0 as nat) && lex_gt(orig0, q, pos0)) implies lex_ge(orig0, q, p1) by {
                                        lemma_succ_bump(orig0, pos0, p1, i as int, j as int, q);
                                    }
                                }
//@after /self\.insert\(&mut comb\);/ #3
                proof {
                    assert(lex_at(orig0, pos0, self.possition@, len0 - 1)); assert(lex_greater(orig0, pos0, self.possition@));
                    let p1 = self.possition@;
                    assert(p1 =~= pos0.update(len0 - 1, i));
                    assert forall|q: Seq<usize>| (#[trigger] valid_sel(orig0, q, len0 as nat) && lex_gt(orig0, q, pos0)) implies lex_ge(orig0, q, p1) by {
                        lemma_succ_last(orig0, pos0, p1, i as int, q);
                    }
                }
//@after /self\.insert\(&mut comb\);/ #1
            proof {
                assert forall|q: Seq<usize>| #[trigger] valid_sel(orig0, q, len0 as nat) implies lex_ge(orig0, q, pos0) by { lemma_first_is_least(orig0, pos0, q); }
            }
//@afterloop 2
                        proof { assert(orig0[org_len - i] <= *val); assert(false); }
//@afterloop 1
                proof {
                    assert forall|q: Seq<usize>| #[trigger] valid_sel(orig0, q, len0 as nat) implies !lex_gt(orig0, q, pos0) by { lemma_last_is_greatest(orig0, pos0, q); }
                }
//@loop 4 kw=while
                    invariant self.original@ == orig0, self.possition@ == pos0, self.len == len0, org_len == orig0.len(), comb_wf(self),
                        (forall|x: int| pos0[len0 - 1] <= x < i ==> (#[trigger] orig0[x]) == *current),
                        pos0[len0 - 1] <= i < org_len, *next == orig0[i as int], *current == orig0[pos0[len0 - 1] as int], orig0[pos0[len0 - 1] as int] != orig0[org_len - 1],
                    decreases org_len - i
//@rw 1 /self\.possition\[self\.len - i \+ k\] = j \+ k;/ => self.possition.set(self.len - i + k, j + k);
//@rw 1 /self\.possition\[self\.len - 1\] = i;/ => self.possition.set(self.len - 1, i);
//@end
//@fn id=pst13.Combinations.next file=poly-commit/src/marlin/marlin_pst13_pc/combinations.rs scope="impl<T> Iterator for Combinations<T>" name=next props=C15,C17
    fn next(&mut self) -> (r: Option<Vec<usize>>)
    requires
        comb_wf(old(self)),
    ensures
        comb_wf(final(self)) && final(self).original@ == old(self).original@ && final(self).len == old(self).len,   // name=pst13.Combinations.next.stays_well_formed props=C15,C17
        // every selection handed out has `len` entries, taken from the (sorted) input at strictly increasing positions
        r is Some ==> selected(final(self), r->Some_0@),   // name=pst13.Combinations.next.selection_of_len_entries_of_the_input props=C15
        (r is Some && old(self).started) ==> lex_greater(old(self).original@, old(self).possition@, final(self).possition@),   // name=pst13.Combinations.next.no_selection_twice props=C15
        (!old(self).started) ==> (r is Some && forall|q: Seq<usize>| #[trigger] valid_sel(old(self).original@, q, old(self).len as nat) ==> lex_ge(old(self).original@, q, final(self).possition@)),   // name=pst13.Combinations.next.starts_at_the_least_selection props=C15
        (r is Some && old(self).started) ==> (forall|q: Seq<usize>| (#[trigger] valid_sel(old(self).original@, q, old(self).len as nat) && lex_gt(old(self).original@, q, old(self).possition@))
            ==> lex_ge(old(self).original@, q, final(self).possition@)),   // name=pst13.Combinations.next.no_selection_skipped props=C15
        (r is None) ==> (forall|q: Seq<usize>| #[trigger] valid_sel(old(self).original@, q, old(self).len as nat) ==> !lex_gt(old(self).original@, q, old(self).possition@)),   // name=pst13.Combinations.next.none_only_after_the_greatest_selection props=C15
//@body
//@rw 1 /let mut vals = Vec::with_capacity\(self\.len\);/ => let mut vals: Vec<usize> = Vec::with_capacity(self.len);
//@rw 1 /Self::Item/ => Vec<usize>
//@end
}
// ======================= C15: what a complete run of the enumerator lists =======================
// A run = the position vectors after the successive calls that returned a selection (ps[0] after the first call, ...), ended by the call that
// returned None.  From the three per-call clauses proved above (first is least / next is the immediate successor / None only after the greatest),
// EVERY valid selection's value sequence is the value sequence of some listed selection: no sub-multiset is missing.  (That none occurs twice is
// the strict increase proved per call.)
proof fn lemma_run_from(orig: Seq<usize>, ps: Seq<Seq<usize>>, k: nat, q: Seq<usize>, i: int)
    requires 0 <= i < ps.len(), valid_sel(orig, q, k), lex_ge(orig, q, ps[i]),
        forall|a: int, q1: Seq<usize>| 0 <= a < ps.len() - 1 && #[trigger] valid_sel(orig, q1, k) && lex_gt(orig, q1, #[trigger] ps[a]) ==> lex_ge(orig, q1, ps[a + 1]),
        forall|q1: Seq<usize>| #[trigger] valid_sel(orig, q1, k) ==> !lex_gt(orig, q1, ps[ps.len() - 1]),
    ensures exists|b: int| 0 <= b < ps.len() && same_vals(orig, q, #[trigger] ps[b])
    decreases ps.len() - i
{
    if same_vals(orig, q, ps[i]) { } else {
        assert(lex_gt(orig, q, ps[i]));
        if i == ps.len() - 1 { assert(false); } else { assert(lex_ge(orig, q, ps[i + 1])); lemma_run_from(orig, ps, k, q, i + 1); }
    }
}
//@lemma props=C15
pub proof fn lemma_enumeration_is_exhaustive(orig: Seq<usize>, ps: Seq<Seq<usize>>, k: nat, q: Seq<usize>)
    requires ps.len() >= 1, valid_sel(orig, q, k),
        forall|q1: Seq<usize>| #[trigger] valid_sel(orig, q1, k) ==> lex_ge(orig, q1, ps[0]),                                             // clause first_selection_is_the_least
        forall|a: int, q1: Seq<usize>| 0 <= a < ps.len() - 1 && #[trigger] valid_sel(orig, q1, k) && lex_gt(orig, q1, #[trigger] ps[a]) ==> lex_ge(orig, q1, ps[a + 1]),   // clause next_selection_is_the_immediate_successor
        forall|q1: Seq<usize>| #[trigger] valid_sel(orig, q1, k) ==> !lex_gt(orig, q1, ps[ps.len() - 1]),                                   // clause false_only_after_the_greatest_selection
    ensures exists|b: int| 0 <= b < ps.len() && same_vals(orig, q, #[trigger] ps[b])
{ lemma_run_from(orig, ps, k, q, 0); }
// ======================= C15: every monomial of degree k <= d is a selection of the variable list 0^d 1^d .. (n-1)^d =======================
// length of the run of equal entries that ends just before position t (for a sorted u: the number of earlier entries equal to u[t])
pub open spec fn run_before(u: Seq<usize>, t: int) -> nat decreases t { if t <= 0 { 0 } else if u[t - 1] == u[t] { run_before(u, t - 1) + 1 } else { 0 } }
proof fn lemma_run_bound(u: Seq<usize>, t: int) requires 0 <= t < u.len() ensures run_before(u, t) <= t decreases t { if t > 0 && u[t - 1] == u[t] { lemma_run_bound(u, t - 1); } }
pub open spec fn sel_of(u: Seq<usize>, d: nat) -> Seq<usize> { Seq::new(u.len(), |t: int| (u[t] * d + run_before(u, t)) as usize) }
proof fn lemma_sel_of_facts(u: Seq<usize>, n: nat, d: nat, t: int)
    requires d >= 1, 1 <= u.len() <= d, sorted_usize(u), forall|a: int| 0 <= a < u.len() ==> (#[trigger] u[a]) < n, 0 <= t < u.len(), n * d <= usize::MAX
    ensures
        u[t] * d + run_before(u, t) < n * d, (u[t] * d + run_before(u, t)) / (d as int) == u[t],
        t + 1 < u.len() ==> u[t] * d + run_before(u, t) < u[t + 1] * d + run_before(u, t + 1),
{
    let r = run_before(u, t); let a = u[t] as int; let dd = d as int;
    lemma_run_bound(u, t);
    assert(r < dd);
    assert(a * dd + r < (a + 1) * dd) by (nonlinear_arith) requires r < dd;
    assert((a + 1) * dd <= n * dd) by (nonlinear_arith) requires a + 1 <= n, dd >= 1;
    assert((a * dd + r) / dd == a) by { vstd::arithmetic::div_mod::lemma_fundamental_div_mod_converse(a * dd + r, dd, a, r as int); }
    if t + 1 < u.len() {
        let b = u[t + 1] as int;
        if u[t] == u[t + 1] { } else {
            assert(a < b);
            assert((a + 1) * dd <= b * dd) by (nonlinear_arith) requires a + 1 <= b, dd >= 1;
        }
    }
}
proof fn lemma_adjacent_increasing(q: Seq<usize>, a: int, b: int)
    requires 0 <= a < b < q.len(), forall|t: int| 0 <= t && t + 1 < q.len() ==> (#[trigger] q[t]) < q[t + 1]
    ensures q[a] < q[b]
    decreases b - a
{ if b > a + 1 { lemma_adjacent_increasing(q, a, b - 1); assert(q[b - 1] < q[b - 1 + 1]); } else { assert(q[a] < q[a + 1]); } }
//@lemma props=C15
pub proof fn lemma_every_monomial_is_a_selection(orig: Seq<usize>, n: nat, d: nat, u: Seq<usize>)
    requires d >= 1, n * d <= usize::MAX, orig.len() == n * d, forall|i: int| 0 <= i < orig.len() ==> (#[trigger] orig[i]) == i / (d as int),     // the variable list 0^d 1^d .. (n-1)^d
        1 <= u.len() <= d, sorted_usize(u), forall|a: int| 0 <= a < u.len() ==> (#[trigger] u[a]) < n,                                         // a monomial of degree k <= d, as the sorted list of its variables
    ensures valid_sel(orig, sel_of(u, d), u.len()), forall|t: int| 0 <= t < u.len() ==> orig[(#[trigger] sel_of(u, d)[t]) as int] == u[t]
{
    let q = sel_of(u, d);
    assert forall|t: int| 0 <= t < u.len() implies q[t] == u[t] * d + run_before(u, t) && (#[trigger] q[t]) < n * d && orig[q[t] as int] == u[t] by { lemma_sel_of_facts(u, n, d, t); }
    assert forall|t: int| 0 <= t && t + 1 < q.len() implies (#[trigger] q[t]) < q[t + 1] by { lemma_sel_of_facts(u, n, d, t); lemma_sel_of_facts(u, n, d, t + 1); }
    assert forall|a: int, b: int| 0 <= a < b < q.len() implies q[a] < q[b] by { lemma_adjacent_increasing(q, a, b); }
}

