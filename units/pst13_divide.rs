// MarlinPST13::divide_at_point (marlin/marlin_pst13_pc/mod.rs): the prover's quotient decomposition is exact  (C15, C01)
//@use core ops_gen std
//@spec ring mvpoly_spec
//@typemap /\bP::Term::new\b/ => Term::new
//@typemap /\bP::from_coefficients_vec\b/ => MvPoly::from_coefficients_vec
//@typemap /\bP::zero\(\)/ => MvPoly::zero()
// ---- trusted environment: ark-poly SparsePolynomial / SparseTerm (multivariate), a list of (coefficient, monomial) ----
pub struct Term { pub v: Vec<(usize, usize)> }
impl Term {
    // SparseTerm::new: drops zero powers, sorts by variable, merges duplicates: same monomial function, normal form
    #[verifier::external_body] pub fn new(term: Vec<(usize, usize)>) -> (r: Term)
        ensures term_wf(r.v@), term_wf(term@) ==> r.v@ == term@, forall|x: Asg| #[trigger] te(r.v@, x) == te(term@, x),
            forall|lo: int, hi: int| #[trigger] term_vars_in(term@, lo, hi) ==> term_vars_in(r.v@, lo, hi) { unimplemented!() }
    // SparseTerm::is_constant: no variables (in normal form: the empty list)
    #[verifier::external_body] pub fn is_constant(&self) -> (r: bool) requires term_wf(self.v@) ensures r == (self.v@.len() == 0) { unimplemented!() }
    #[verifier::external_body] pub fn clone(&self) -> (r: Term) ensures r.v@ == self.v@ { unimplemented!() }
}
#[verifier::external_body] pub fn term_to_vec(t: &Term) -> (r: Vec<(usize, usize)>) ensures r@ == t.v@ { unimplemented!() }    // (&*term).to_vec()
#[verifier::external_body] pub fn clone_term_vec(t: &Vec<(usize, usize)>) -> (r: Vec<(usize, usize)>) ensures r@ == t@ { unimplemented!() }
// slice::binary_search_by(|(var, _)| var.cmp(&i)) on a list sorted by variable
#[verifier::external_body] pub fn binary_search_var(v: &Vec<(usize, usize)>, i: usize) -> (r: Result<usize, usize>)
    requires forall|a: int, b: int| 0 <= a < b < v@.len() ==> (#[trigger] v@[a]).0 < (#[trigger] v@[b]).0
    ensures r is Ok ==> r->Ok_0 < v@.len() && v@[r->Ok_0 as int].0 == i, r is Err ==> forall|a: int| 0 <= a < v@.len() ==> (#[trigger] v@[a]).0 != i { unimplemented!() }
pub struct MvPoly { pub num_vars: usize, pub terms: Vec<(Fr, Term)> }
impl MvPoly {
    #[verifier::external_body] pub fn num_vars(&self) -> (r: usize) ensures r == self.num_vars { unimplemented!() }
    #[verifier::external_body] pub fn is_zero(&self) -> (r: bool) ensures r ==> forall|x: Asg| #[trigger] mve(self.terms@, x) == f_zero() { unimplemented!() }
    #[verifier::external_body] pub fn zero() -> (r: MvPoly) ensures r.terms@.len() == 0 { unimplemented!() }
    #[verifier::external_body] pub fn clone(&self) -> (r: MvPoly) ensures r.terms@ == self.terms@, r.num_vars == self.num_vars { unimplemented!() }
    #[verifier::external_body] pub fn terms(&self) -> (r: &Vec<(Fr, Term)>) ensures r@ == self.terms@ { unimplemented!() }
    // SparsePolynomial::from_coefficients_vec: sorts the terms, adds up equal monomials, drops zero coefficients:
    // the same polynomial function, and every monomial of the result is one of the given monomials
    #[verifier::external_body] pub fn from_coefficients_vec(num_vars: usize, terms: Vec<(Fr, Term)>) -> (r: MvPoly)
        ensures r.num_vars == num_vars, forall|x: Asg| #[trigger] mve(r.terms@, x) == mve(terms@, x),
            forall|lo: int, hi: int| #[trigger] terms_ok(terms@, lo, hi) ==> terms_ok(r.terms@, lo, hi) { unimplemented!() }
}
#[verifier::external_body] pub fn vec_repeat_zero(n: usize) -> (r: Vec<MvPoly>) ensures r@.len() == n, forall|j: int| 0 <= j < n ==> (#[trigger] r@[j]).terms@.len() == 0 { unimplemented!() }   // vec![P::zero(); n]

// ---- specification ----
// invariants, one instance per assignment x
pub open spec fn outer_inv(x: Asg, p: Seq<(Fr, Term)>, qs: Seq<MvPoly>, z: Asg, i: int, cur: Seq<(Fr, Term)>, k: FS) -> bool {
    mve(p, x) == f_add(f_add(qsum(qs, x, z, i as nat), mve(cur, x)), k)
}
pub open spec fn inner_inv(x: Asg, done: Seq<(Fr, Term)>, z: Asg, i: int, q: Seq<(Fr, Term)>, r: Seq<(Fr, Term)>, kl: FS) -> bool {
    mve(done, x) == f_add(f_add(f_mul(f_sub(x(i), z(i)), mve(q, x)), mve(r, x)), kl)
}
pub open spec fn while_inv(x: Asg, done: Seq<(Fr, Term)>, c0: FS, t0: Seq<(usize, usize)>, z: Asg, i: int, q: Seq<(Fr, Term)>, r: Seq<(Fr, Term)>, kl: FS, coeff: FS, rest: Seq<(usize, usize)>, e: nat) -> bool {
    f_add(mve(done, x), f_mul(c0, te(t0, x))) == f_add(f_add(f_add(f_mul(f_sub(x(i), z(i)), mve(q, x)), mve(r, x)), kl), f_mul(coeff, f_mul(te(rest, x), f_pow(x(i), e))))
}

pub struct MarlinPST13;
impl MarlinPST13 {
//@fn id=pst13.divide_at_point file=poly-commit/src/marlin/marlin_pst13_pc/mod.rs scope="impl<E: Pairing, P: DenseMVPolynomial<E::ScalarField>> MarlinPST13<E, P>" name=divide_at_point props=C15,C01
    fn divide_at_point(p: &MvPoly, point: &Vec<Fr>) -> (res: Vec<MvPoly>)
    requires
        terms_ok(p.terms@, 0, p.num_vars as int),        // monomials in normal form over the polynomial's variables (SparsePolynomial invariant)
        point@.len() >= p.num_vars,
    ensures
        res@.len() == p.num_vars,   // name=pst13.divide_at_point.one_quotient_per_variable props=C15,C19
        // p(X) - p(z) = sum_i (X_i - z_i) * w_i(X)   as polynomial functions: at every assignment X
        forall|x: Asg| f_sub(#[trigger] mve(p.terms@, x), mve(p.terms@, zf(point@))) == qsum(res@, x, zf(point@), p.num_vars as nat),   // name=pst13.divide_at_point.decomposition_is_exact props=C15,C01
//@body
//@rw 1 /return vec!\[P::zero\(\); num_vars\];/ => let zs__ = vec_repeat_zero(num_vars);
            proof {
                assert forall|x: Asg| f_sub(#[trigger] mve(p.terms@, x), mve(p.terms@, zf(point@))) == qsum(zs__@, x, zf(point@), p.num_vars as nat) by {
                    assert(mve(p.terms@, zf(point@)) == f_zero()); lemma_sub_self(f_zero());
                    lemma_qsum_zero_polys(zs__@, x, zf(point@), p.num_vars as nat);
                }
            }
            return zs__;
//@rw 1 /\(&\*term\)\.to_vec\(\)/ => term_to_vec(term)
//@rw 1 /term_vec\.binary_search_by\(\|\(var, _\)\| var\.cmp\(&i\)\)/ => binary_search_var(&term_vec, i)
//@rw * /term_vec\.clone\(\)/ => clone_term_vec(&term_vec)
//@rw 1 /let mut quotients = Vec::with_capacity\(num_vars\);/ => let mut quotients: Vec<MvPoly> = Vec::with_capacity(num_vars);
//@rw 1 /let mut quotient_terms = Vec::new\(\);/ => let mut quotient_terms: Vec<(Fr, Term)> = Vec::new();
//@rw 1 /let mut remainder_terms = Vec::new\(\);/ => let mut remainder_terms: Vec<(Fr, Term)> = Vec::new();
//@name cv = /for \((?:mut )?(\w+), \w+\) in/
//@name tv = /for \((?:mut )?\w+, (\w+)\) in/
//@name cw = /(\w+) \*= [^;]*;/
//@rw * /for \(mut (\w+), (\w+)\) in([^{]*?)cur\.terms\(\)([^{]*)\{/ => let cur_terms__ = cur.terms(); for ct__ in\3cur_terms__.iter()\4{ let mut \1: Fr = ct__.0; let \2: &Term = &ct__.1;
//@rw * /for \((\w+), (\w+)\) in([^{]*?)cur\.terms\(\)([^{]*)\{/ => let cur_terms__ = cur.terms(); for ct__ in\3cur_terms__.iter()\4{ let \1: &Fr = &ct__.0; let \2: &Term = &ct__.1;
//@before /let mut quotients =/
        let ghost z = zf(point@);
        let ghost mut kk: FS = f_zero();
//@after /let mut cur = p\.clone\(\);/
        proof {
            assert forall|x: Asg| #[trigger] outer_inv(x, p.terms@, quotients@, z, 0, cur.terms@, kk) by { ax_add_zero(mve(p.terms@, x)); ax_add_comm(f_zero(), mve(p.terms@, x)); }
        }
//@loop 1 kw=for name=it
            invariant it.index@ <= num_vars, num_vars == p.num_vars, point@.len() >= num_vars, z == zf(point@),
                quotients@.len() == it.index@,
                terms_ok(cur.terms@, it.index@ as int, num_vars as int),
                forall|x: Asg| #[trigger] outer_inv(x, p.terms@, quotients@, z, it.index@, cur.terms@, kk),
//@after /let mut remainder_terms = Vec::new\(\);/
            let ghost mut kl: FS = f_zero();
            proof { assert(i as int == it.index@); assert(forall|x: Asg| #[trigger] outer_inv(x, p.terms@, quotients@, z, i as int, cur.terms@, kk)); }
            let ghost cur0 = cur.terms@;
            let ghost qs0 = quotients@;
            proof {
                assert forall|x: Asg| #[trigger] inner_inv(x, cur0.take(0), z, i as int, quotient_terms@, remainder_terms@, kl) by {
                    lemma_mul_zero(f_sub(x(i as int), z(i as int))); ax_add_zero(f_zero());
                }
            }
//@loop 2 kw=for name=it2
                invariant it2.index@ <= cur0.len(), cur_terms__@ == cur0, i < num_vars, point@.len() >= num_vars, z == zf(point@),
                    terms_ok(cur0, i as int, num_vars as int),
                    terms_ok(remainder_terms@, i + 1, num_vars as int),
                    forall|x: Asg| #[trigger] inner_inv(x, cur0.take(it2.index@), z, i as int, quotient_terms@, remainder_terms@, kl),
//@loopstart 2
                let ghost k = it2.index@;
                let ghost done = cur0.take(k);
                let ghost c0 = $cv@;
                let ghost t0 = $tv.v@;
                let ghost q0 = quotient_terms@;
                let ghost r0 = remainder_terms@;
                let ghost mut br: int = 0;
                proof {
                    assert(ct__ == cur0[k]);
                    assert(cur0.take(k + 1).drop_last() =~= done);
                    assert(cur0.take(k + 1).last() == cur0[k]);
                    assert(term_wf(t0) && term_vars_in(t0, i as int, num_vars as int));
                }
//@beforeloop 3
                        let ghost rest = t0.remove(idx as int);
                        proof {
                            br = 1;
                            assert forall|x: Asg| #[trigger] while_inv(x, done, c0, t0, z, i as int, quotient_terms@, remainder_terms@, kl, $cw@, rest, term_vec@[idx as int].1 as nat) by {
                                assert(inner_inv(x, done, z, i as int, q0, r0, kl));
                                lemma_te_split(t0, idx as int, x);
                            }
                        }
//@loop 3 kw=while
                            invariant
                                idx < term_vec@.len(), term_vec@[idx as int].0 == i, term_vec@[idx as int].1 >= 1,
                                i < num_vars, point@.len() >= num_vars, z == zf(point@),
                                term_wf(term_vec@), term_vars_in(term_vec@, i as int, num_vars as int),
                                term_vec@.remove(idx as int) == rest,
                                forall|x: Asg| #[trigger] while_inv(x, done, c0, t0, z, i as int, quotient_terms@, remainder_terms@, kl, $cw@, rest, term_vec@[idx as int].1 as nat),
                            decreases term_vec@[idx as int].1
//@loopstart 3
                            let ghost e = term_vec@[idx as int].1 as nat;
                            let ghost qw = quotient_terms@;
                            let ghost cw = $cw;
//@loopend 3
                            proof {
                                let tnew = quotient_terms@[qw.len() as int].1;
                                assert(quotient_terms@ =~= qw.push((cw, tnew)));
                                assert(term_vec@.remove(idx as int) =~= rest);
                                assert(z(i as int) == point@[i as int]@);
                                assert forall|x: Asg| #[trigger] while_inv(x, done, c0, t0, z, i as int, quotient_terms@, remainder_terms@, kl, $cw@, rest, (e - 1) as nat) by {
                                    assert(while_inv(x, done, c0, t0, z, i as int, qw, remainder_terms@, kl, cw@, rest, e));
                                    lemma_te_split(term_vec@, idx as int, x);
                                    assert(te(tnew.v@, x) == f_mul(te(rest, x), f_pow(x(i as int), (e - 1) as nat)));
                                    lemma_mve_push(qw, cw, tnew, x);
                                    assert(f_pow(x(i as int), e) == f_mul(f_pow(x(i as int), (e - 1) as nat), x(i as int)));
                                    lemma_w_step(f_add(mve(done, x), f_mul(c0, te(t0, x))), f_sub(x(i as int), z(i as int)), mve(qw, x), mve(remainder_terms@, x), kl, cw@, te(rest, x), f_pow(x(i as int), (e - 1) as nat), x(i as int), z(i as int));
                                }
                            }
//@afterloop 3
                        let ghost qa = quotient_terms@;
                        let ghost tva = term_vec@;
//@after /remainder_terms\.push\(/ #1
                        proof {
                            let t1 = quotient_terms@[qa.len() as int].1; let t2 = remainder_terms@[r0.len() as int].1; let zc = remainder_terms@[r0.len() as int].0;
                            assert(quotient_terms@ =~= qa.push(($cw, t1)));
                            assert(remainder_terms@ =~= r0.push((zc, t2)));
                            assert(tva.remove(idx as int) =~= rest);
                            assert(term_wf(rest)) by {
                                assert forall|a: int, b: int| 0 <= a < b < rest.len() implies (#[trigger] rest[a]).0 < (#[trigger] rest[b]).0 by {
                                    let a2 = if a < idx { a } else { a + 1 }; let b2 = if b < idx { b } else { b + 1 };
                                    assert(rest[a] == tva[a2] && rest[b] == tva[b2]);
                                }
                                assert forall|a: int| 0 <= a < rest.len() implies (#[trigger] rest[a]).1 >= 1 by { let a2 = if a < idx { a } else { a + 1 }; assert(rest[a] == tva[a2]); }
                            }
                            assert(term_vars_in(rest, i + 1, num_vars as int)) by {
                                assert forall|a: int| 0 <= a < rest.len() implies i + 1 <= (#[trigger] rest[a]).0 < num_vars by {
                                    let a2 = if a < idx { a } else { a + 1 }; assert(rest[a] == tva[a2]);
                                    if a2 < idx { assert(tva[a2].0 < tva[idx as int].0); } else { assert(tva[idx as int].0 < tva[a2].0); }
                                }
                            }
                            assert(t1.v@ == rest && t2.v@ == rest);
                            assert(z(i as int) == point@[i as int]@);
                            assert forall|x: Asg| #[trigger] inner_inv(x, cur0.take(k + 1), z, i as int, quotient_terms@, remainder_terms@, kl) by {
                                assert(while_inv(x, done, c0, t0, z, i as int, qa, r0, kl, $cw@, rest, 1));
                                assert(f_pow(x(i as int), 1) == f_mul(f_pow(x(i as int), 0), x(i as int)));
                                lemma_mve_push(qa, $cw, t1, x); lemma_mve_push(r0, zc, t2, x);
                                lemma_w_finish(f_add(mve(done, x), f_mul(c0, te(t0, x))), f_sub(x(i as int), z(i as int)), mve(qa, x), mve(r0, x), kl, $cw@, te(rest, x), x(i as int), z(i as int));
                            }
                        }
//@loopend 2
                proof {
                    if t0.len() == 0 {
                        // constant term: dropped, remembered in kl
                        let kl0 = kl;
                        kl = f_add(kl, c0);
                        assert forall|x: Asg| #[trigger] inner_inv(x, cur0.take(k + 1), z, i as int, quotient_terms@, remainder_terms@, kl) by {
                            assert(inner_inv(x, done, z, i as int, q0, r0, kl0));
                            lemma_te_empty(t0, x);
                            lemma_to_const(mve(done, x), f_mul(f_sub(x(i as int), z(i as int)), mve(q0, x)), mve(r0, x), kl0, c0);
                        }
                    } else if br == 0 {
                        // the monomial does not contain X_i: it goes to the remainder unchanged
                        let t2 = remainder_terms@[r0.len() as int].1; let cpush = remainder_terms@[r0.len() as int].0;
                        assert(remainder_terms@ =~= r0.push((cpush, t2)));
                        assert(t2.v@ == t0);
                        assert(term_vars_in(t0, i + 1, num_vars as int));
                        assert forall|x: Asg| #[trigger] inner_inv(x, cur0.take(k + 1), z, i as int, quotient_terms@, remainder_terms@, kl) by {
                            assert(inner_inv(x, done, z, i as int, q0, r0, kl));
                            lemma_mve_push(r0, cpush, t2, x);
                            lemma_to_remainder(mve(done, x), f_mul(f_sub(x(i as int), z(i as int)), mve(q0, x)), mve(r0, x), kl, f_mul(c0, te(t0, x)));
                        }
                    }
                }
//@before /quotients\.push\(P::from_coefficients_vec/
            let ghost qf = quotient_terms@;
            let ghost rf = remainder_terms@;
            proof { assert(cur0.take(cur0.len() as int) =~= cur0); assert(terms_ok(rf, i + 1, num_vars as int)); }
//@loopend 1
            proof {
                let kk0 = kk;
                kk = f_add(kk, kl);
                assert forall|x: Asg| #[trigger] outer_inv(x, p.terms@, quotients@, z, i + 1, cur.terms@, kk) by {
                    assert(outer_inv(x, p.terms@, qs0, z, i as int, cur0, kk0));
                    assert(inner_inv(x, cur0, z, i as int, qf, rf, kl));
                    lemma_qsum_prefix(quotients@, qs0, x, z, i as nat);
                    assert(mve(quotients@[i as int].terms@, x) == mve(qf, x));
                    assert(mve(cur.terms@, x) == mve(rf, x));
                    lemma_round(mve(p.terms@, x), qsum(qs0, x, z, i as nat), mve(cur0, x), kk0, f_mul(f_sub(x(i as int), z(i as int)), mve(qf, x)), mve(rf, x), kl);
                }
            }
//@before /\bquotients\s*\}$/
        proof {
            assert(terms_ok(cur.terms@, num_vars as int, num_vars as int));
            assert(forall|x: Asg| #[trigger] outer_inv(x, p.terms@, quotients@, z, num_vars as int, cur.terms@, kk));
            assert forall|k: int| 0 <= k < cur.terms@.len() implies (#[trigger] cur.terms@[k]).1.v@.len() == 0 by {
                let tk = cur.terms@[k].1.v@; assert(term_vars_in(tk, num_vars as int, num_vars as int)); if tk.len() > 0 { let e0 = tk[0]; assert(num_vars as int <= e0.0 < num_vars as int); }
            }
            assert forall|x: Asg| f_sub(#[trigger] mve(p.terms@, x), mve(p.terms@, z)) == qsum(quotients@, x, z, num_vars as nat) by {
                assert(outer_inv(x, p.terms@, quotients@, z, num_vars as int, cur.terms@, kk));
                assert(outer_inv(z, p.terms@, quotients@, z, num_vars as int, cur.terms@, kk));
                lemma_mve_const(cur.terms@, x, z);
                lemma_qsum_at_z(quotients@, z, num_vars as nat);
                lemma_final_sub(mve(p.terms@, x), mve(p.terms@, z), qsum(quotients@, x, z, num_vars as nat), mve(cur.terms@, z), kk);
            }
        }
//@end
}
