// Prepared tables (kzg10/data_structures.rs, marlin/marlin_pc/data_structures.rs) and kzg10::Commitment += (f, &c)  (C09, C08)
//@use core ops_gen std
//@spec ring
//@typemap /<E>/ =>
//@typemap /::<E>::/ => ::
//@typemap /E::ScalarField::MODULUS_BIT_SIZE as usize/ => fr_modulus_bit_size()
//@typemap /Vec::<E::G1Affine>::new\(\)/ => Vec::<G1Affine>::new()
//@typemap /Vec::<\(usize, Vec<E::G1Affine>\)>::new\(\)/ => Vec::<(usize, Vec<G1Affine>)>::new()
//@typemap /Option<Vec<\(usize, Vec<E::G1Affine>\)>>/ => Option<Vec<(usize, Vec<G1Affine>)>>
//@typemap /E::G1::from\(/ => g1_from_affine(
// ---- trusted environment ----
pub uninterp spec fn modbits() -> usize;     // <E::ScalarField as PrimeField>::MODULUS_BIT_SIZE
#[verifier::external_body] pub fn fr_modulus_bit_size() -> (r: usize) ensures r == modbits() { unimplemented!() }
#[verifier::external_body] pub fn g1_from_affine(a: G1Affine) -> (r: G1) ensures r@ == a@ { unimplemented!() }      // E::G1::from(affine)
impl G1Affine { #[verifier::external_body] pub fn clone(&self) -> (r: G1Affine) ensures r == *self { unimplemented!() } }
impl G2Prepared { #[verifier::external_body] pub fn clone(&self) -> (r: G2Prepared) ensures r == *self { unimplemented!() } }
impl G1 {
    #[verifier::external_body] pub fn clone(&self) -> (r: G1) ensures r == *self { unimplemented!() }
    #[verifier::external_body] pub fn double_in_place(&mut self) ensures final(self)@ == f_add(old(self)@, old(self)@) { unimplemented!() }
    #[verifier::external_body] pub fn add_assign(&mut self, o: &G1Affine) ensures final(self)@ == f_add(old(self)@, o@) { unimplemented!() }
}
// ======================= specification =======================
// 2^i * a
pub open spec fn dbl(a: FS, i: nat) -> FS decreases i { if i == 0 { a } else { f_add(dbl(a, (i - 1) as nat), dbl(a, (i - 1) as nat)) } }
// the table of successive doublings of a, one entry per bit of a scalar
pub open spec fn is_dbl_table(t: Seq<G1Affine>, a: FS) -> bool { t.len() == modbits() && forall|i: int| 0 <= i < t.len() ==> (#[trigger] t[i])@ == dbl(a, i as nat) }
pub mod kzg10 {
    use super::*;
//@struct file=poly-commit/src/kzg10/data_structures.rs name=VerifierKey
//@struct file=poly-commit/src/kzg10/data_structures.rs name=PreparedVerifierKey
//@struct file=poly-commit/src/kzg10/data_structures.rs name=Commitment
//@struct file=poly-commit/src/kzg10/data_structures.rs name=PreparedCommitment
    impl PreparedVerifierKey {
//@fn id=kzg10.PreparedVerifierKey.prepare file=poly-commit/src/kzg10/data_structures.rs scope="impl<E: Pairing> PreparedVerifierKey<E>" name=prepare props=C09
        pub fn prepare(vk: &VerifierKey) -> (r: Self)
        ensures
            is_dbl_table(r.prepared_g@, vk.g@),     // name=kzg10.PreparedVerifierKey.prepare.table_of_successive_doublings_of_g props=C09
            r.prepared_h == vk.prepared_h, r.prepared_beta_h == vk.prepared_beta_h,   // name=kzg10.PreparedVerifierKey.prepare.g2_elements_copied props=C09
//@body
//@loop 1 kw=for name=it
            invariant it.index@ <= supported_bits, supported_bits == modbits(), prepared_g@.len() == it.index@, g@ == dbl(vk.g@, it.index@ as nat),
                forall|i: int| 0 <= i < prepared_g@.len() ==> (#[trigger] prepared_g@[i])@ == dbl(vk.g@, i as nat),
//@loopstart 1
            let ghost k = it.index@; let ghost t0 = prepared_g@;
//@loopend 1
            proof { assert forall|i: int| 0 <= i < prepared_g@.len() implies (#[trigger] prepared_g@[i])@ == dbl(vk.g@, i as nat) by { if i < k { assert(prepared_g@[i] == t0[i]); } } }
//@end
    }
    impl PreparedCommitment {
//@fn id=kzg10.PreparedCommitment.prepare file=poly-commit/src/kzg10/data_structures.rs scope="impl<E: Pairing> PreparedCommitment<E>" name=prepare props=C09
        pub fn prepare(comm: &Commitment) -> (r: Self)
        ensures
            is_dbl_table(r.0@, comm.0@),     // name=kzg10.PreparedCommitment.prepare.table_of_successive_doublings_of_the_commitment props=C09
//@body
//@loop 1 kw=for name=it
            invariant it.index@ <= supported_bits, supported_bits == modbits(), prepared_comm@.len() == it.index@, cur@ == dbl(comm.0@, it.index@ as nat),
                forall|i: int| 0 <= i < prepared_comm@.len() ==> (#[trigger] prepared_comm@[i])@ == dbl(comm.0@, i as nat),
//@loopstart 1
            let ghost k = it.index@; let ghost t0 = prepared_comm@;
//@loopend 1
            proof { assert forall|i: int| 0 <= i < prepared_comm@.len() implies (#[trigger] prepared_comm@[i])@ == dbl(comm.0@, i as nat) by { if i < k { assert(prepared_comm@[i] == t0[i]); } } }
//@end
    }
    impl Commitment {
//@fn id=kzg10.Commitment.add_assign_scaled file=poly-commit/src/kzg10/data_structures.rs scope="impl<'a, E: Pairing> AddAssign<\(E::ScalarField, &'a Commitment<E>\)> for Commitment<E>" name=add_assign props=C08
        pub fn add_assign(&mut self, p: (Fr, &Commitment))
        ensures
            final(self).0@ == f_add(f_mul(p.1.0@, p.0@), old(self).0@),     // name=kzg10.Commitment.add_assign_scaled.adds_f_times_other props=C08
//@body
//@destructure p = (f, other)
//@end
    }
}
//@typemap /kzg10::PreparedVerifierKey::prepare\(/ => kzg10::PreparedVerifierKey::prepare(
//@typemap /kzg10::PreparedCommitment::prepare\(/ => kzg10::PreparedCommitment::prepare(
//@struct file=poly-commit/src/marlin/marlin_pc/data_structures.rs name=VerifierKey
//@struct file=poly-commit/src/marlin/marlin_pc/data_structures.rs name=PreparedVerifierKey
//@struct file=poly-commit/src/marlin/marlin_pc/data_structures.rs name=Commitment
//@struct file=poly-commit/src/marlin/marlin_pc/data_structures.rs name=PreparedCommitment
#[verifier::external_body] pub fn usize_clone(x: &usize) -> (r: usize) ensures r == *x { unimplemented!() }
#[verifier::external_body] pub fn opt_comm_clone(x: &Option<kzg10::Commitment>) -> (r: Option<kzg10::Commitment>) ensures r == *x { unimplemented!() }
pub open spec fn shift_tables_ok(t: Seq<(usize, Vec<G1Affine>)>, v: Seq<(usize, G1Affine)>) -> bool {
    t.len() == v.len() && forall|j: int| 0 <= j < v.len() ==> t[j].0 == (#[trigger] v[j]).0 && is_dbl_table(t[j].1@, v[j].1@)
}
impl PreparedVerifierKey {
//@fn id=marlin_pc.PreparedVerifierKey.prepare file=poly-commit/src/marlin/marlin_pc/data_structures.rs scope="impl<E: Pairing> PCPreparedVerifierKey<VerifierKey<E>> for PreparedVerifierKey<E>" name=prepare props=C09
    pub fn prepare(vk: &VerifierKey) -> (r: Self)
    ensures
        is_dbl_table(r.prepared_vk.prepared_g@, vk.vk.g@), r.prepared_vk.prepared_h == vk.vk.prepared_h, r.prepared_vk.prepared_beta_h == vk.vk.prepared_beta_h,   // name=marlin_pc.PreparedVerifierKey.prepare.kzg_part props=C09
        (r.prepared_degree_bounds_and_shift_powers is Some) == (vk.degree_bounds_and_shift_powers is Some),
        // one doubling table per enforced bound, for exactly that bound's shift power, in the same order
        vk.degree_bounds_and_shift_powers is Some ==> shift_tables_ok(r.prepared_degree_bounds_and_shift_powers->Some_0@, vk.degree_bounds_and_shift_powers->Some_0@),   // name=marlin_pc.PreparedVerifierKey.prepare.one_doubling_table_per_shift_power props=C09,C04
        r.max_degree == vk.max_degree, r.supported_degree == vk.supported_degree,   // name=marlin_pc.PreparedVerifierKey.prepare.degrees_copied props=C09
//@body
//@rw 1 /for \(d, shift_power\) in([^{]*?)degree_bounds_and_shift_powers([^{]*)\{/ => for ds__ in\1degree_bounds_and_shift_powers.iter()\2{ let d: &usize = &ds__.0; let shift_power: &G1Affine = &ds__.1;
//@rw 1 /d\.clone\(\)/ => usize_clone(d)
//@loop 1 kw=for name=it
                    invariant it.index@ <= v0.len(), v0 == degree_bounds_and_shift_powers@, supported_bits == modbits(), res@.len() == it.index@,
                        forall|j: int| 0 <= j < res@.len() ==> res@[j].0 == (#[trigger] v0[j]).0 && is_dbl_table(res@[j].1@, v0[j].1@),
//@beforeloop 1
                let ghost v0 = degree_bounds_and_shift_powers@;
//@loopstart 1
                    let ghost kk = it.index@; let ghost res0 = res@;
                    proof { assert(*ds__ == v0[kk]); }
//@loop 2 kw=for name=it2
                        invariant it2.index@ <= supported_bits, supported_bits == modbits(), prepared_shift_power@.len() == it2.index@, cur@ == dbl(shift_power@, it2.index@ as nat),
                            forall|i: int| 0 <= i < prepared_shift_power@.len() ==> (#[trigger] prepared_shift_power@[i])@ == dbl(shift_power@, i as nat),
//@loopstart 2
                        let ghost k = it2.index@; let ghost t0 = prepared_shift_power@;
//@loopend 2
                        proof { assert forall|i: int| 0 <= i < prepared_shift_power@.len() implies (#[trigger] prepared_shift_power@[i])@ == dbl(shift_power@, i as nat) by { if i < k { assert(prepared_shift_power@[i] == t0[i]); } } }
//@loopend 1
                    proof {
                        assert forall|j: int| 0 <= j < res@.len() implies res@[j].0 == (#[trigger] v0[j]).0 && is_dbl_table(res@[j].1@, v0[j].1@) by { if j < kk { assert(res@[j] == res0[j]); } }
                    }
//@end
}
impl PreparedCommitment {
//@fn id=marlin_pc.PreparedCommitment.prepare file=poly-commit/src/marlin/marlin_pc/data_structures.rs scope="impl<E: Pairing> PCPreparedCommitment<Commitment<E>> for PreparedCommitment<E>" name=prepare props=C09
    pub fn prepare(comm: &Commitment) -> (r: Self)
    ensures
        is_dbl_table(r.prepared_comm.0@, comm.comm.0@), r.shifted_comm == comm.shifted_comm,   // name=marlin_pc.PreparedCommitment.prepare.doubling_table_and_shifted_part_copied props=C09
//@body
//@rw 1 /comm\.shifted_comm\.clone\(\)/ => opt_comm_clone(&comm.shifted_comm)
//@end
}
