// InnerProductArgPC::shift_polynomial (ipa_pc/mod.rs): the prover-side degree-bound shift  (C04, C01)
//@use core ops_gen poly labeled labeled_comm sponge std ser
//@spec ring pcf_spec
//@typemap /<G>/ => 
//@typemap /G::Group::/ => G1::
//@typemap /Option<G>/ => Option<G1Affine>
//@typemap /Vec<G>/ => Vec<G1Affine>
//@typemap /: G,/ => : G1Affine,
//@typemap /&\[G\]/ => &[G1Affine]
//@typemap /\bG::zero\(\)/ => G1Affine::zero()
//@typemap /G::ScalarField::/ => Fr::
//@typemap /Self::CommitterKey/ => CommitterKey
//@typemap /Self::Commitment\b/ => Commitment
//@typemap /Self::CommitmentState/ => Randomness
//@typemap /Self::Error/ => Error
//@typemap /: &P =/ => : &Poly =
//@enum file=poly-commit/src/error.rs name=Error
//@struct file=poly-commit/src/ipa_pc/data_structures.rs name=CommitterKey
//@struct file=poly-commit/src/ipa_pc/data_structures.rs name=Commitment
//@struct file=poly-commit/src/ipa_pc/data_structures.rs name=Randomness
impl CommitterKey {
//@stub from=ipa.rs id=ipa.CommitterKey.supported_degree
}
#[verifier::external_body] pub fn vec_zero_fr(len: usize) -> (r: Vec<Fr>) ensures r@.len() == len, forall|i: int| 0 <= i < len ==> (#[trigger] r@[i])@ == f_zero() { unimplemented!() }   // vec![zero; len]
pub struct InnerProductArgPC;
impl InnerProductArgPC {
//@fn id=ipa.shift_polynomial file=poly-commit/src/ipa_pc/mod.rs scope="impl<G, D, P> InnerProductArgPC<G, D, P>" name=shift_polynomial props=C04,C01
    fn shift_polynomial(ck: &CommitterKey, p: &Poly, degree_bound: usize) -> (r: Poly)
    requires
        ck.comm_key@.len() >= 1,
        !p.is_zero_spec() ==> degree_bound <= ck.comm_key@.len() - 1,          // (a bound above the supported degree underflows: abort)
        p.coeffs@.len() + ck.comm_key@.len() < usize::MAX,
    ensures
        // X^(supported_degree - d) * p(X): a polynomial of degree <= d is moved to the top of the key
        forall|x: FS| #[trigger] r.ev(x) == (if p.is_zero_spec() { f_zero() } else { f_mul(f_pow(x, (ck.comm_key@.len() - 1 - degree_bound) as nat), p.ev(x)) }),   // name=ipa.shift_polynomial.multiplies_by_x_to_the_shift props=C04,C01
        // coefficient-wise: the coefficients of p moved up by D - d, zeros below
        forall|t: int| #[trigger] pcf(&r, t) == (if t >= ck.comm_key@.len() - 1 - degree_bound { pcf(p, t - (ck.comm_key@.len() - 1 - degree_bound)) } else { f_zero() }),   // name=ipa.shift_polynomial.coefficients_moved_up_by_the_shift props=C04,C08
        r.wf(), p.is_zero_spec() ==> r.coeffs@.len() == 0, !p.is_zero_spec() ==> r.coeffs@.len() <= ck.comm_key@.len() - 1 - degree_bound + p.coeffs@.len(),
//@body
//@rw 1 /vec!\[G::ScalarField::zero\(\); ck\.supported_degree\(\) - degree_bound\]/ => vec_zero_fr(ck.supported_degree() - degree_bound)
//@rw 1 /P::zero\(\)/ => Poly::zero()
//@rw 1 /P::from_coefficients_vec/ => Poly::from_coefficients_vec
//@rw 1 /extend_from_slice\(&p\.coeffs\(\)\)/ => extend_from_slice(p.coeffs())
//@before /P::zero\(\)/
            proof { assert forall|t: int| #[trigger] pcf(p, t) == f_zero() by { if 0 <= t < p.coeffs@.len() { assert(p.coeffs@[t]@ == f_zero()); } } }
//@before /shifted_polynomial_coeffs\.extend_from_slice/
            let ghost z0 = shifted_polynomial_coeffs@;
//@before /P::from_coefficients_vec\(shifted_polynomial_coeffs\)/
            let ghost v0 = shifted_polynomial_coeffs@;
            proof {
                assert(fviews(v0) =~= fviews(z0) + p.cv());
                assert forall|x: FS| peval(fviews(v0), x, v0.len()) == f_mul(f_pow(x, z0.len()), p.ev(x)) by { lemma_peval_shift(fviews(z0), p.cv(), x, p.len()); }
                assert forall|rr: Poly, x: FS| (rr.coeffs@.len() <= v0.len() && rr.coeffs@ == v0.subrange(0, rr.coeffs@.len() as int) && (forall|i: int| rr.coeffs@.len() <= i < v0.len() ==> (#[trigger] v0[i])@ == f_zero()))
                    implies #[trigger] rr.ev(x) == peval(fviews(v0), x, v0.len()) by { lemma_peval_trailing_zeros(fviews(v0), x, rr.len(), v0.len()); lemma_peval_ext(fviews(v0), rr.cv(), x, rr.len()); }
                assert forall|rr: Poly, t: int| (rr.coeffs@.len() <= v0.len() && rr.coeffs@ == v0.subrange(0, rr.coeffs@.len() as int) && (forall|i: int| rr.coeffs@.len() <= i < v0.len() ==> (#[trigger] v0[i])@ == f_zero()))
                    implies #[trigger] pcf(&rr, t) == (if t >= z0.len() { pcf(p, t - z0.len()) } else { f_zero() }) by {
                    if 0 <= t < v0.len() {
                        if t < z0.len() { assert(v0[t] == z0[t]); } else { assert(v0[t] == p.coeffs@[t - z0.len()]); }
                        if t < rr.coeffs@.len() { assert(rr.coeffs@[t] == v0[t]); }
                    }
                }
            }
//@end
}
