// SonicKZG10::trim (C09, C04)
//@use core ops_gen std
//@typemap /::<E, P>::/ => ::
//@typemap /<E>/ => 
//@typemap /Self::UniversalParams/ => UniversalParams
//@typemap /Self::CommitterKey/ => CommitterKey
//@typemap /Self::VerifierKey/ => VerifierKey
//@typemap /Self::Error/ => Error
//@enum file=poly-commit/src/error.rs name=Error
pub mod kzg10 {
    use super::*;
//@struct file=poly-commit/src/kzg10/data_structures.rs name=UniversalParams
    impl UniversalParams {
//@stub from=marlin_trim.rs id=kzg10.UniversalParams.max_degree
    }
}
pub type UniversalParams = kzg10::UniversalParams;
//@struct file=poly-commit/src/sonic_pc/data_structures.rs name=CommitterKey
//@struct file=poly-commit/src/sonic_pc/data_structures.rs name=VerifierKey
pub open spec fn same_set(a: Seq<usize>, b: Seq<usize>) -> bool { forall|x: usize| a.contains(x) == b.contains(x) }
pub open spec fn min3(a: int, b: int) -> int { if a <= b { a } else { b } }

pub struct SonicKZG10;
impl SonicKZG10 {
//@fn id=sonic_pc.trim file=poly-commit/src/sonic_pc/mod.rs scope="impl<E, P> PolynomialCommitment<E::ScalarField, P> for SonicKZG10<E, P>" name=trim props=C09,C04,C17
    fn trim(pp: &UniversalParams, supported_degree: usize, supported_hiding_bound: usize, enforced_degree_bounds: Option<&[usize]>) -> (res: Result<(CommitterKey, VerifierKey), Error>)
    requires
        pp.powers_of_g@.len() >= 1, pp.powers_of_g@.len() < 0x3fff_ffff_ffff_ffff,
        supported_hiding_bound < usize::MAX - 1,
        // the parameters contain the gamma powers 0..=max_degree+1 and (Sonic) the negative G2 powers 0..=max_degree; requests beyond them abort
        forall|i: usize| i <= pp.powers_of_g@.len() ==> pp.powers_of_gamma_g@.dom().contains(i),
        forall|i: usize| i <= pp.powers_of_g@.len() - 1 ==> pp.neg_powers_of_h@.dom().contains(i),
        supported_hiding_bound + 1 <= pp.powers_of_g@.len(),
    ensures
        supported_degree > pp.powers_of_g@.len() - 1 ==> res is Err,   // name=sonic_pc.trim.err_if_degree_beyond_parameters props=C09,C17
        // ... and only then: in-domain requests are answered
        res is Err ==> (supported_degree > pp.powers_of_g@.len() - 1 || (enforced_degree_bounds is Some && exists|i: int| 0 <= i < enforced_degree_bounds->Some_0@.len() && (#[trigger] enforced_degree_bounds->Some_0@[i]) > supported_degree)),   // name=sonic_pc.trim.only_out_of_domain_requests_are_refused props=C17,C09
        (res is Ok && enforced_degree_bounds is Some) ==> (forall|i: int| 0 <= i < enforced_degree_bounds->Some_0@.len() ==> (#[trigger] enforced_degree_bounds->Some_0@[i]) <= supported_degree),   // name=sonic_pc.trim.err_if_bound_beyond_supported_degree props=C04,C17
        res is Ok ==> res->Ok_0.0.powers_of_g@ =~= pp.powers_of_g@.subrange(0, supported_degree + 1),   // name=sonic_pc.trim.exactly_the_requested_powers props=C09
        res is Ok ==> res->Ok_0.0.powers_of_gamma_g@.len() == supported_hiding_bound + 2,
        res is Ok ==> (forall|i: int| 0 <= i <= supported_hiding_bound + 1 ==> (#[trigger] res->Ok_0.0.powers_of_gamma_g@[i]) == pp.powers_of_gamma_g@[i as usize]),   // name=sonic_pc.trim.hiding_powers props=C09
        res is Ok ==> (res->Ok_0.1.g == pp.powers_of_g@[0] && res->Ok_0.1.gamma_g == pp.powers_of_gamma_g@[0usize] && res->Ok_0.1.h == pp.h && res->Ok_0.1.beta_h == pp.beta_h
                       && res->Ok_0.1.prepared_h@ == pp.prepared_h@ && res->Ok_0.1.prepared_beta_h@ == pp.prepared_beta_h@),   // name=sonic_pc.trim.same_generators props=C09
        res is Ok ==> (res->Ok_0.0.max_degree == pp.powers_of_g@.len() - 1 && res->Ok_0.1.max_degree == pp.powers_of_g@.len() - 1 && res->Ok_0.1.supported_degree == supported_degree),   // name=sonic_pc.trim.truthful_degree_reports props=C09
        (res is Ok && enforced_degree_bounds is Some) ==> (res->Ok_0.0.enforced_degree_bounds is Some && strictly_sorted_usize(res->Ok_0.0.enforced_degree_bounds->Some_0@)
            && same_set(res->Ok_0.0.enforced_degree_bounds->Some_0@, enforced_degree_bounds->Some_0@)),   // name=sonic_pc.trim.bounds_sorted_deduplicated_same_set props=C09,C04
        res is Ok ==> (res->Ok_0.0.shifted_powers_of_g is Some) == (enforced_degree_bounds is Some && enforced_degree_bounds->Some_0@.len() > 0),
        res is Ok ==> (res->Ok_0.1.degree_bounds_and_neg_powers_of_h is Some) == (res->Ok_0.0.shifted_powers_of_g is Some),
        // shifted powers: the top of the SRS, starting at max_degree - (largest bound)
        (res is Ok && res->Ok_0.0.shifted_powers_of_g is Some) ==> res->Ok_0.0.shifted_powers_of_g->Some_0@ =~=
            pp.powers_of_g@.subrange(pp.powers_of_g@.len() - 1 - res->Ok_0.0.enforced_degree_bounds->Some_0@.last(), pp.powers_of_g@.len() as int),   // name=sonic_pc.trim.shifted_powers_window_is_relative_to_max_degree props=C04,C09
        // verifier shift element for bound d: beta^-(max_degree - d) H
        (res is Ok && res->Ok_0.0.shifted_powers_of_g is Some) ==> (res->Ok_0.1.degree_bounds_and_neg_powers_of_h->Some_0@.len() == res->Ok_0.0.enforced_degree_bounds->Some_0@.len()
            && forall|i: int| 0 <= i < res->Ok_0.0.enforced_degree_bounds->Some_0@.len() ==>
                (#[trigger] res->Ok_0.1.degree_bounds_and_neg_powers_of_h->Some_0@[i]).0 == res->Ok_0.0.enforced_degree_bounds->Some_0@[i]
                && res->Ok_0.1.degree_bounds_and_neg_powers_of_h->Some_0@[i].1 == pp.neg_powers_of_h@[(pp.powers_of_g@.len() - 1 - res->Ok_0.0.enforced_degree_bounds->Some_0@[i]) as usize]),   // name=sonic_pc.trim.shift_element_is_relative_to_max_degree props=C04,C09
        // hiding powers for bound d start at gamma power max_degree - d
        (res is Ok && res->Ok_0.0.shifted_powers_of_g is Some) ==> (res->Ok_0.0.shifted_powers_of_gamma_g is Some
            && forall|i: int| 0 <= i < res->Ok_0.0.enforced_degree_bounds->Some_0@.len() ==> {
                let d = #[trigger] res->Ok_0.0.enforced_degree_bounds->Some_0@[i]; let m = res->Ok_0.0.shifted_powers_of_gamma_g->Some_0@;
                m.dom().contains(d) && m[d]@.len() == min3(supported_hiding_bound + 2, d + 2)
                && forall|k: int| 0 <= k < m[d]@.len() ==> (#[trigger] m[d]@[k]) == pp.powers_of_gamma_g@[(pp.powers_of_g@.len() - 1 - d + k) as usize] }),   // name=sonic_pc.trim.shifted_hiding_powers props=C04,C09
//@body
//@rw * /pp\.powers_of_gamma_g\[&(\(?[\w +]+\)?)\]/ => btree_index(&pp.powers_of_gamma_g, &\1)
//@rw * /neg_powers_of_h\[&(\([^\]]+\))\]/ => btree_index_g2(neg_powers_of_h, &\1)
//@rw * /v\.sort\(\);/ => sort_usize(&mut v);
//@rw * /v\.dedup\(\);/ => dedup_usize(&mut v);
//@rw * /for degree_bound in enforced_degree_bounds \{/ => for degree_bound in enforced_degree_bounds.iter() {
//@rw * /let mut powers_for_degree_bound = vec!\[\];/ => let mut powers_for_degree_bound: Vec<G1Affine> = Vec::new();
//@rw * /let mut shifted_powers_of_gamma_g = BTreeMap::new\(\);/ => let mut shifted_powers_of_gamma_g: BTreeMap<usize, Vec<G1Affine>> = BTreeMap::new();
//@closure |bounds| => |bounds: &[usize]| -> (w: Vec<usize>) ensures strictly_sorted_usize(w@), same_set(w@, bounds@), w@.len() <= bounds@.len()
//@closure |i| => |i: usize| -> (r: G1Affine) requires i <= supported_hiding_bound + 1 ensures r == pp.powers_of_gamma_g@[i]
//@closure |bound| => |bound: &usize| -> (r: (usize, G2Affine)) requires *bound <= max_degree, max_degree == pp.powers_of_g@.len() - 1 ensures r.0 == *bound, r.1 == pp.neg_powers_of_h@[(max_degree - *bound) as usize]
//@before /let enforced_degree_bounds = enforced_degree_bounds\.map/
        let ghost bounds0 = enforced_degree_bounds;
//@before /let \(shifted_powers_of_g, shifted_powers_of_gamma_g, degree_bounds_and_neg_powers_of_h\) =/
        proof {
            if enforced_degree_bounds is Some {
                let eb = enforced_degree_bounds->Some_0@;
                if bounds0->Some_0@.len() > 0 { assert(bounds0->Some_0@.contains(bounds0->Some_0@[0])); assert(eb.contains(bounds0->Some_0@[0])); }
            }
        }
//@before /if highest_enforced_degree_bound > supported_degree \{/
                    proof {
                        if highest_enforced_degree_bound > supported_degree {
                            let eb = enforced_degree_bounds@;
                            assert(eb.contains(eb[eb.len() - 1]));
                            assert(bounds0->Some_0@.contains(highest_enforced_degree_bound));
                            let j = choose|j: int| 0 <= j < bounds0->Some_0@.len() && bounds0->Some_0@[j] == highest_enforced_degree_bound;
                            assert(bounds0->Some_0@[j] > supported_degree);
                        }
                    }
//@after /if highest_enforced_degree_bound > supported_degree \{/
                    proof {
                        let eb = enforced_degree_bounds@;
                        assert forall|i: int| 0 <= i < eb.len() implies (#[trigger] eb[i]) <= supported_degree by { }
                        assert forall|i: int| 0 <= i < bounds0->Some_0@.len() implies (#[trigger] bounds0->Some_0@[i]) <= supported_degree by {
                            assert(bounds0->Some_0@.contains(bounds0->Some_0@[i]));
                            let j = choose|j: int| 0 <= j < eb.len() && eb[j] == bounds0->Some_0@[i];
                        }
                    }
//@loop 1 kw=for name=ito
                        invariant max_degree == pp.powers_of_g@.len() - 1, supported_degree <= max_degree, supported_hiding_bound < usize::MAX - 1,
                            pp.powers_of_g@.len() < 0x3fff_ffff_ffff_ffff, supported_hiding_bound + 1 <= pp.powers_of_g@.len(),
                            forall|i: usize| i <= pp.powers_of_g@.len() ==> pp.powers_of_gamma_g@.dom().contains(i),
                            forall|i: int| 0 <= i < enforced_degree_bounds@.len() ==> (#[trigger] enforced_degree_bounds@[i]) <= supported_degree,
                            forall|i: int| 0 <= i < ito.index@ ==> {
                                let d = #[trigger] enforced_degree_bounds@[i]; let m = shifted_powers_of_gamma_g@;
                                m.dom().contains(d) && m[d]@.len() == min3(supported_hiding_bound + 2, d + 2)
                                && forall|k: int| 0 <= k < m[d]@.len() ==> (#[trigger] m[d]@[k]) == pp.powers_of_gamma_g@[(max_degree - d + k) as usize] },
//@loop 2 kw=for name=iti
                            invariant max_degree == pp.powers_of_g@.len() - 1, shift_degree == max_degree - *degree_bound, *degree_bound <= max_degree,
                                supported_hiding_bound < usize::MAX - 1, pp.powers_of_g@.len() < 0x3fff_ffff_ffff_ffff, supported_hiding_bound + 1 <= pp.powers_of_g@.len(), iti.index@ <= supported_hiding_bound + 2,
                                forall|i: usize| i <= pp.powers_of_g@.len() ==> pp.powers_of_gamma_g@.dom().contains(i),
                                powers_for_degree_bound@.len() == min3(iti.index@, *degree_bound + 2),
                                forall|k: int| 0 <= k < powers_for_degree_bound@.len() ==> (#[trigger] powers_for_degree_bound@[k]) == pp.powers_of_gamma_g@[(shift_degree + k) as usize],
//@loopstart 2
                            proof { assert(i == iti.index@); }
//@end
}
