// linear-code glue: univariate Ligero tensor / poly_to_vec / point_to_vec, multilinear tensor_vec, Brakedown distance  (C13, C01, C08)
//@use core ops_gen poly std
//@spec ring
//@typemap /\bF::/ => Fr::
//@typemap /Vec<F>/ => Vec<Fr>
//@typemap /&\[F\]/ => &[Fr]
//@typemap /<F: PrimeField>/ =>
// powers (1, z, z^2, ..): the row/column evaluation tensors of a univariate polynomial arranged as an (m x n) coefficient matrix
pub struct UnivariateLigero;
impl UnivariateLigero {
//@fn id=univariate_ligero.tensor file=poly-commit/src/linear_codes/univariate_ligero/mod.rs scope="impl<F, C, P, H> LinearEncode<F, C, P, H> for UnivariateLigero<F, C, P, H>" name=tensor props=C13,C01
    fn tensor(z: &Fr, left: usize, right: usize) -> (r: (Vec<Fr>, Vec<Fr>))
    ensures
        r.0@.len() == left && r.1@.len() == right,
        forall|i: int| 0 <= i < left ==> (#[trigger] r.0@[i])@ == f_pow(z@, i as nat),                      // name=univariate_ligero.tensor.left_is_powers_of_z props=C13,C01
        forall|j: int| 0 <= j < right ==> (#[trigger] r.1@[j])@ == f_pow(f_pow(z@, left as nat), j as nat),   // name=univariate_ligero.tensor.right_is_powers_of_z_to_the_row_length props=C13,C01
//@body
//@rw * /for _ in/ => for _i in
//@rw 1 /let mut left_out = Vec::with_capacity\(left\);/ => let mut left_out: Vec<Fr> = Vec::with_capacity(left);
//@rw 1 /let mut right_out = Vec::with_capacity\(right\);/ => let mut right_out: Vec<Fr> = Vec::with_capacity(right);
//@loop 1 kw=for name=it
            invariant it.index@ <= left, left_out@.len() == it.index@, pow_a@ == f_pow(z@, it.index@ as nat),
                forall|i: int| 0 <= i < it.index@ ==> (#[trigger] left_out@[i])@ == f_pow(z@, i as nat),
//@loop 2 kw=for name=it2
            invariant it2.index@ <= right, right_out@.len() == it2.index@, pow_a@ == f_pow(z@, left as nat), pow_b@ == f_pow(pow_a@, it2.index@ as nat),
                forall|j: int| 0 <= j < it2.index@ ==> (#[trigger] right_out@[j])@ == f_pow(pow_a@, j as nat),
//@end

//@fn id=univariate_ligero.poly_to_vec file=poly-commit/src/linear_codes/univariate_ligero/mod.rs scope="impl<F, C, P, H> LinearEncode<F, C, P, H> for UnivariateLigero<F, C, P, H>" name=poly_to_vec props=C08,C01
    fn poly_to_vec(polynomial: &Poly) -> (r: Vec<Fr>)
    ensures
        r@ == polynomial.coeffs@,   // name=univariate_ligero.poly_to_vec.coefficients props=C08
//@body
//@end
}

// (1 - z_1 | z_1) (x) (1 - z_2 | z_2) (x) ...: the multilinear Lagrange basis at z, most significant variable last
pub open spec fn tensor_spec(vals: Seq<FS>, k: nat) -> Seq<FS> decreases k {
    if k == 0 { seq![f_one()] } else {
        let prev = tensor_spec(vals, (k - 1) as nat);
        Seq::new(2 * prev.len(), |i: int| if i < prev.len() { f_mul(prev[i], f_sub(f_one(), vals[k - 1])) } else { f_mul(prev[i - prev.len()], vals[k - 1]) })
    }
}
//@fn id=lc_utils.tensor_vec file=poly-commit/src/linear_codes/utils.rs scope=top name=tensor_vec props=C13,C01
pub fn tensor_vec(values: &[Fr]) -> (r: Vec<Fr>)
    requires
        values@.len() < 63,
    ensures
        fviews(r@) == tensor_spec(fviews(values@), values@.len()),   // name=lc_utils.tensor_vec.lagrange_basis_at_the_point props=C13,C01
//@body
//@rw 1 /let mut layer: Vec<F> = vec!\[one\];/ => let mut layer: Vec<Fr> = Vec::new(); layer.push(one);
//@rw 1 /let mut new_layer = Vec::new\(\);/ => let mut new_layer: Vec<Fr> = Vec::new();
//@rw * /for v in &layer/ => for v in layer.iter()
//@closure |v| => |v: &Fr| -> (a: Fr) ensures a@ == f_sub(one@, v@)
//@loop 1 kw=for name=it
        invariant it.index@ <= values@.len(), one@ == f_one(), anti_values@.len() == values@.len(),
            forall|j: int| 0 <= j < values@.len() ==> (#[trigger] anti_values@[j])@ == f_sub(f_one(), values@[j]@),
            fviews(layer@) == tensor_spec(fviews(values@), it.index@ as nat),
//@loop 2 kw=for name=it2
            invariant it2.index@ <= layer@.len(), new_layer@.len() == it2.index@, i < values@.len(), anti_values@.len() == values@.len(),
                forall|j: int| 0 <= j < it2.index@ ==> (#[trigger] new_layer@[j])@ == f_mul(layer@[j]@, anti_values@[i as int]@),
//@loop 3 kw=for name=it3
            invariant it3.index@ <= layer@.len(), new_layer@.len() == layer@.len() + it3.index@, i < values@.len(),
                forall|j: int| 0 <= j < layer@.len() ==> (#[trigger] new_layer@[j])@ == f_mul(layer@[j]@, anti_values@[i as int]@),
                forall|j: int| 0 <= j < it3.index@ ==> (#[trigger] new_layer@[layer@.len() + j])@ == f_mul(layer@[j]@, values@[i as int]@),
//@before /layer = new_layer;/
        proof {
            let prev = tensor_spec(fviews(values@), i as nat);
            assert(fviews(new_layer@) =~= tensor_spec(fviews(values@), (i + 1) as nat)) by {
                assert forall|j: int| 0 <= j < new_layer@.len() implies fviews(new_layer@)[j] == tensor_spec(fviews(values@), (i + 1) as nat)[j] by {
                    if j >= layer@.len() { let jj = j - layer@.len(); assert(new_layer@[layer@.len() + jj]@ == f_mul(layer@[jj]@, values@[i as int]@)); }
                }
            }
        }
//@end

// ark_std::log2 as a specification function: the least r with x <= 2^r  (assumed contract in shim/std.rs: log2_ceil)
pub open spec fn is_log2c(x: usize, r: nat) -> bool { r <= 64 && x <= p2(r) && (x > 1 ==> p2((r - 1) as nat) < x) && (x <= 1 ==> r == 0) }
// the split position sp = ceil(log2(left_len)) and the two Lagrange bases
pub open spec fn mlt_rel(point: Seq<Fr>, left_len: usize, l: Seq<Fr>, r: Seq<Fr>, sp: nat) -> bool {
    is_log2c(left_len, sp) && sp <= point.len()
    && fviews(l) == tensor_spec(fviews(point.subrange(0, sp as int)), sp)
    && fviews(r) == tensor_spec(fviews(point.subrange(sp as int, point.len() as int)), (point.len() - sp) as nat)
}
#[verifier::external_body] pub fn vec_fr_clone(v: &Vec<Fr>) -> (r: Vec<Fr>) ensures r@ == v@ { unimplemented!() }
#[verifier::external_body] pub fn slice_to(v: &Vec<Fr>, k: usize) -> (r: &[Fr]) ensures k <= v@.len(), r@ == v@.subrange(0, k as int) { unimplemented!() }          // &v[..k]  (k > len aborts)
#[verifier::external_body] pub fn slice_from(v: &Vec<Fr>, k: usize) -> (r: &[Fr]) ensures k <= v@.len(), r@ == v@.subrange(k as int, v@.len() as int) { unimplemented!() }   // &v[k..]
pub struct MultilinearLigero;
impl MultilinearLigero {
//@fn id=multilinearligero.point_to_vec file=poly-commit/src/linear_codes/multilinear_ligero/mod.rs scope="impl<F, C, P, H> LinearEncode<F, C, P, H> for MultilinearLigero<F, C, P, H>" name=point_to_vec props=C08
    fn point_to_vec(point: Vec<Fr>) -> (r: Vec<Fr>)
    ensures
        r@ == point@,   // name=multilinearligero.point_to_vec.identity props=C08
//@body
//@end
//@fn id=multilinearligero.tensor file=poly-commit/src/linear_codes/multilinear_ligero/mod.rs scope="impl<F, C, P, H> LinearEncode<F, C, P, H> for MultilinearLigero<F, C, P, H>" name=tensor props=C13,C01
    fn tensor(point: &Vec<Fr>, left_len: usize, _right_len: usize) -> (r: (Vec<Fr>, Vec<Fr>))
    requires
        point@.len() < 63,
    ensures
        // the point is split after ceil(log2(left_len)) coordinates; each half becomes its multilinear Lagrange basis
        // the point is split after ceil(log2(left_len)) coordinates (fewer coordinates: abort); each half becomes its multilinear Lagrange basis
        exists|sp: nat| #[trigger] mlt_rel(point@, left_len, r.0@, r.1@, sp),   // name=multilinearligero.tensor.lagrange_bases_of_the_two_halves_of_the_point props=C13,C01,C17
//@body
//@rw 1 /let point: Vec<F> = Self::point_to_vec\(point\.clone\(\)\);/ => let pv__: Vec<Fr> = Self::point_to_vec(vec_fr_clone(point));
//@rw 1 /log2\(left_len\) as usize/ => log2_ceil(left_len) as usize
//@rw 1 /&point\[\.\.split\]/ => slice_to(&pv__, split)
//@rw 1 /&point\[split\.\.\]/ => slice_from(&pv__, split)
//@rw 1 /\(tensor_vec\(left\), tensor_vec\(right\)\)/ => { let l__ = tensor_vec(left); let r__ = tensor_vec(right); let res__ = (l__, r__); proof { assert(mlt_rel(point@, left_len, res__.0@, res__.1@, split as nat)); } res__ }
//@after start
        let ghost point0 = point@;
//@end
}
pub struct MultilinearBrakedown;
impl MultilinearBrakedown {
//@fn id=multilinearbrakedown.point_to_vec file=poly-commit/src/linear_codes/multilinear_brakedown/mod.rs scope="impl<F, C, P, H> LinearEncode<F, C, P, H> for MultilinearBrakedown<F, C, P, H>" name=point_to_vec props=C08
    fn point_to_vec(point: Vec<Fr>) -> (r: Vec<Fr>)
    ensures
        r@ == point@,   // name=multilinearbrakedown.point_to_vec.identity props=C08
//@body
//@end
//@fn id=multilinearbrakedown.tensor file=poly-commit/src/linear_codes/multilinear_brakedown/mod.rs scope="impl<F, C, P, H> LinearEncode<F, C, P, H> for MultilinearBrakedown<F, C, P, H>" name=tensor props=C13,C01
    fn tensor(point: &Vec<Fr>, left_len: usize, _right_len: usize) -> (r: (Vec<Fr>, Vec<Fr>))
    requires
        point@.len() < 63,
    ensures
        // the point is split after ceil(log2(left_len)) coordinates; each half becomes its multilinear Lagrange basis
        // the point is split after ceil(log2(left_len)) coordinates (fewer coordinates: abort); each half becomes its multilinear Lagrange basis
        exists|sp: nat| #[trigger] mlt_rel(point@, left_len, r.0@, r.1@, sp),   // name=multilinearbrakedown.tensor.lagrange_bases_of_the_two_halves_of_the_point props=C13,C01,C17
//@body
//@rw 1 /let point: Vec<F> = Self::point_to_vec\(point\.clone\(\)\);/ => let pv__: Vec<Fr> = Self::point_to_vec(vec_fr_clone(point));
//@rw 1 /log2\(left_len\) as usize/ => log2_ceil(left_len) as usize
//@rw 1 /&point\[\.\.split\]/ => slice_to(&pv__, split)
//@rw 1 /&point\[split\.\.\]/ => slice_from(&pv__, split)
//@rw 1 /\(tensor_vec\(left\), tensor_vec\(right\)\)/ => { let l__ = tensor_vec(left); let r__ = tensor_vec(right); let res__ = (l__, r__); proof { assert(mlt_rel(point@, left_len, res__.0@, res__.1@, split as nat)); } res__ }
//@after start
        let ghost point0 = point@;
//@end
}
//@struct file=poly-commit/src/linear_codes/data_structures.rs name=BrakedownPCParams drop=a_mats,b_mats,leaf_hash_param,two_to_one_hash_param,col_hash_params
impl BrakedownPCParams {
//@fn id=brakedown.distance file=poly-commit/src/linear_codes/brakedown.rs scope="impl<F, C, H> LinCodeParametersInfo<C, H> for BrakedownPCParams<F, C, H>" name=distance props=C13
    fn distance(&self) -> (r: (usize, usize))
    requires
        self.rho_inv.1 * self.beta.0 <= usize::MAX, self.rho_inv.0 * self.beta.1 <= usize::MAX,
    ensures
        // relative distance beta / rho_inv  (= beta.0 * rho_inv.1 / (beta.1 * rho_inv.0)) as a fraction
        r.0 == self.rho_inv.1 * self.beta.0 && r.1 == self.rho_inv.0 * self.beta.1,   // name=brakedown.distance.beta_over_rho_inv props=C13
//@body
//@end
//@fn id=brakedown.compute_dimensions file=poly-commit/src/linear_codes/brakedown.rs scope="impl<F, C, H> LinCodeParametersInfo<C, H> for BrakedownPCParams<F, C, H>" name=compute_dimensions props=C19
    fn compute_dimensions(&self, _n: usize) -> (r: (usize, usize))
    ensures
        r == (self.n, self.m),   // name=brakedown.compute_dimensions.fixed_at_setup props=C19
//@body
//@end
}
// ---- LinearCodePCS::{setup, trim} (linear_codes/mod.rs): admission of the parameters  (C17, C09) ----
//@enum file=poly-commit/src/error.rs name=Error
pub mod pcs {
    use super::*;
    // the code's parameters, hash parameters and `L::setup` are external: deterministic functions of their arguments
    #[verifier::external_body] pub struct LParams { _x: u8 }
    #[verifier::external_body] pub struct HashP { _x: u8 }
    pub uninterp spec fn lp_max_degree(p: &LParams) -> usize;                     // <UniversalParams as PCUniversalParams>::max_degree
    pub uninterp spec fn l_setup(max_degree: usize, num_vars: Option<usize>, id: int, pos: nat) -> LParams;
    impl LParams { #[verifier::external_body] pub fn clone(&self) -> (r: LParams) ensures r == *self { unimplemented!() } }
    #[verifier::external_body] pub fn pp_max_degree(p: &LParams) -> (r: usize) ensures r == lp_max_degree(p) { unimplemented!() }
    // the three CRH setups (`.unwrap()`: a failing one aborts) and L::setup, drawing from the caller's RNG
    #[verifier::external_body] pub fn hash_setup(rng: &mut Rng) -> (r: HashP) ensures final(rng).id == old(rng).id, final(rng).present == old(rng).present { unimplemented!() }
    #[verifier::external_body] pub fn code_setup(max_degree: usize, num_vars: Option<usize>, rng: &mut Rng, a: HashP, b: HashP, c: HashP) -> (r: LParams)
        ensures r == l_setup(max_degree, num_vars, old(rng).id@, old(rng).pos@) { unimplemented!() }
    #[verifier::external_body] pub fn field_size_error() -> (r: String) { unimplemented!() }     // FIELD_SIZE_ERROR.to_string(): error text only
    pub struct LinearCodePCS;
    impl LinearCodePCS {
//@fn id=linear_codes.setup file=poly-commit/src/linear_codes/mod.rs scope="impl<L, F, P, C, H> PolynomialCommitment<F, P> for LinearCodePCS<L, F, P, C, H>" name=setup props=C17,C09
        fn setup(max_degree: usize, num_vars: Option<usize>, rng: &mut Rng) -> (res: Result<LParams, Error>)
        ensures
            // refused exactly when the code's parameters cannot hold the requested degree (or are unusable: zero)
            res is Ok ==> max_degree <= lp_max_degree(&res->Ok_0) && lp_max_degree(&res->Ok_0) != 0,   // name=linear_codes.setup.parameters_cover_the_requested_degree props=C17,C09
            res is Err ==> exists|pp: LParams| #![trigger lp_max_degree(&pp)] (max_degree > lp_max_degree(&pp) || lp_max_degree(&pp) == 0),   // name=linear_codes.setup.only_unusable_parameters_are_refused props=C17
//@body
//@rw 1 /<C::LeafHash as CRHScheme>::setup\(rng\)\.unwrap\(\)/ => hash_setup(rng)
//@rw 1 /(?s)<C::TwoToOneHash as TwoToOneCRHScheme>::setup\(rng\)\s*\.unwrap\(\)\s*\.clone\(\)/ => hash_setup(rng)
//@rw 1 /<H as CRHScheme>::setup\(rng\)\.unwrap\(\)/ => hash_setup(rng)
//@rw 1 /L::setup::<R>\(/ => code_setup(
//@rw 1 /<Self::UniversalParams as PCUniversalParams>::max_degree\(&pp\)/ => pp_max_degree(&pp)
//@rw 1 /FIELD_SIZE_ERROR\.to_string\(\)/ => field_size_error()
//@end
//@fn id=linear_codes.trim file=poly-commit/src/linear_codes/mod.rs scope="impl<L, F, P, C, H> PolynomialCommitment<F, P> for LinearCodePCS<L, F, P, C, H>" name=trim props=C17,C09
        fn trim(pp: &LParams, _supported_degree: usize, _supported_hiding_bound: usize, _enforced_degree_bounds: Option<&[usize]>) -> (res: Result<(LParams, LParams), Error>)
        ensures
            (res is Err) == (lp_max_degree(pp) == 0),   // name=linear_codes.trim.refused_iff_parameters_unusable props=C17
            res is Ok ==> res->Ok_0.0 == *pp && res->Ok_0.1 == *pp,   // name=linear_codes.trim.committer_and_verifier_key_are_the_parameters props=C09
//@body
//@rw 1 /<Self::UniversalParams as PCUniversalParams>::max_degree\(pp\)/ => pp_max_degree(pp)
//@rw 1 /FIELD_SIZE_ERROR\.to_string\(\)/ => field_size_error()
//@end
    }
}
// ======================= Brakedown's systematic Reed-Solomon step (multilinear_brakedown/mod.rs) =======================
// Horner evaluation of the segment cw[s..ie] (lowest coefficient first) at x, consumed from the top:  h(j) = sum_{i>=j} cw[i] x^(i-j)
pub open spec fn rs_h(cw: Seq<Fr>, x: FS, j: int, ie: int) -> FS decreases ie - j { if j >= ie { f_zero() } else { f_add(f_mul(rs_h(cw, x, j + 1, ie), x), cw[j]@) } }
#[verifier::external_body] pub fn vec_zero_n(len: usize) -> (r: Vec<Fr>) ensures r@.len() == len, forall|i: int| 0 <= i < len ==> (#[trigger] r@[i])@ == f_zero() { unimplemented!() }   // vec![F::zero(); len]
// `dst[a..b].copy_from_slice(src)`  (length mismatch or out-of-range: abort)
#[verifier::external_body] pub fn copy_into(dst: &mut Vec<Fr>, a: usize, b: usize, src: &Vec<Fr>)
    ensures a <= b && b <= old(dst)@.len() && src@.len() == b - a, final(dst)@.len() == old(dst)@.len(),
        forall|i: int| 0 <= i < old(dst)@.len() ==> final(dst)@[i] == (if a <= i < b { src@[i - a] } else { old(dst)@[i] }) { unimplemented!() }
//@fn id=brakedown.naive_reed_solomon file=poly-commit/src/linear_codes/multilinear_brakedown/mod.rs scope=top name=naive_reed_solomon props=C13,C08
fn naive_reed_solomon(cw: &mut Vec<Fr>, s: usize, ie: usize, oe: usize)
    requires
        s <= oe, s <= ie <= old(cw)@.len(),                 // (oe < s underflows, ie beyond the vector indexes out of range: abort)
    ensures
        oe <= old(cw)@.len() && final(cw)@.len() == old(cw)@.len(),
        // positions s..oe receive the evaluations of the polynomial with coefficients cw[s..ie] at the points 1, 2, .., oe - s; everything else is untouched
        forall|k: int| 0 <= k < oe - s ==> (#[trigger] final(cw)@[s + k])@ == rs_h(old(cw)@, f_from_nat((k + 1) as nat), s as int, ie as int),   // name=brakedown.naive_reed_solomon.evaluations_at_1_to_n props=C13,C08
        forall|i: int| 0 <= i < old(cw)@.len() && !(s <= i < oe) ==> final(cw)@[i] == old(cw)@[i],   // name=brakedown.naive_reed_solomon.rest_untouched props=C13
//@body
//@rw 1 /let mut res = vec!\[F::zero\(\); oe - s\];/ => let mut res: Vec<Fr> = vec_zero_n(oe - s);
//@rw 1 /for r in res\.iter_mut\(\) \{/ => for k__ in itk: 0..(oe - s) invariant res@.len() == oe - s, s <= oe, (forall|q: int| k__ <= q < res@.len() ==> (#[trigger] res@[q])@ == f_zero()), cw0 == cw@, cw@ == old(cw)@, s <= ie <= cw0.len(), x@ == f_from_nat((k__ + 1) as nat), forall|q: int| 0 <= q < k__ ==> (#[trigger] res@[q])@ == rs_h(cw0, f_from_nat((q + 1) as nat), s as int, ie as int), { let mut r__: Fr = res[k__];
//@rw 1 /\*r \*= x;/ => r__ *= x;
//@rw 1 /\*r \+= cw\[j\];/ => r__ += cw[j];
//@rw 1 /x \+= F::one\(\);/ => res.set(k__, r__); proof { ax_from_nat_succ((k__ + 1) as nat); } x += Fr::one();
//@rw 1 /cw\[s\.\.oe\]\.copy_from_slice\(&res\);/ => copy_into(cw, s, oe, &res);
//@after start
    let ghost cw0 = cw@;
//@after /let mut x = F::one\(\);/
    proof { ax_from_nat_zero(); ax_from_nat_succ(0); ax_add_comm(f_zero(), f_one()); ax_add_zero(f_one()); }
//@loop 2 kw=for name=itj
            invariant cw0 == cw@, s <= ie <= cw0.len(), r__@ == rs_h(cw0, x@, ie - itj.index@, ie as int), itj.index@ <= ie - s, k__ < res@.len(),
//@end
