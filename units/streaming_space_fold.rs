// streaming_kzg/space.rs: CommitterKeyStream::open_folding - the space-efficient prover for ALL folded polynomials of a tree at once  (C14, C01)
// Decided here, for every tree depth, point set, key and stream of (level, coefficient) items: each level's sliding window performs the streaming division of THAT level's
// coefficient stream by the vanishing polynomial (the long-division invariant of units/streaming_space.rs, one instance per level, windows starting as zeros),
// and the single accumulated proof is sum_l eta_l * <bases of level l, quotient stream of level l>.
// ENVIRONMENT, stated: the tree is taken by the sequence of items its iterator yields (that iterator is verified in units/streaming_fold.rs); `Vec<VecDeque<F>>`,
// `Vec<Skip<Iter>>` and HashMapPippenger are taken by their element-wise meaning (shims below).  The `for .. in polynomials.iter()` loop is rewritten to
// `next()` calls (`continue` keeps advancing the iterator); the two `(0..k).for_each(..)` calls to index loops around the captured bodies.
//@use core ops_gen poly std
//@spec ring longdiv_spec
//@typemap /<E, SG>/ =>
//@typemap /<E>/ =>
//@typemap /: SG,/ => : Vec<G1Affine>,
//@typemap /E::ScalarField::/ => Fr::
//@struct file=poly-commit/src/streaming_kzg/space.rs name=CommitterKeyStream
//@struct file=poly-commit/src/streaming_kzg/mod.rs name=EvaluationProof
pub struct HashMapPippenger { pub acc: Ghost<FS> }
impl HashMapPippenger {
    #[verifier::external_body] pub fn new(max_msm_buffer: usize) -> (r: Self) ensures r.acc@ == f_zero() { unimplemented!() }
    #[verifier::external_body] pub fn add(&mut self, base: G1Affine, scalar: Fr) ensures final(self).acc@ == f_add(old(self).acc@, f_mul(base@, scalar@)) { unimplemented!() }
    #[verifier::external_body] pub fn finalize(self) -> (r: G1) ensures r@ == self.acc@ { unimplemented!() }
}
// FoldedPolynomialTree, by what its iterator yields: (level, coefficient) items, level 0 = the base polynomial
pub struct FoldedTree { pub depth: usize, pub len: usize, pub items: Ghost<Seq<(usize, Fr)>> }
pub struct TreeItems { pub items: Ghost<Seq<(usize, Fr)>>, pub pos: Ghost<nat> }
impl FoldedTree {
    #[verifier::external_body] pub fn depth(&self) -> (r: usize) ensures r == self.depth { unimplemented!() }
    #[verifier::external_body] pub fn len(&self) -> (r: usize) ensures r == self.len { unimplemented!() }
    #[verifier::external_body] pub fn iter(&self) -> (r: TreeItems) ensures r.items@ == self.items@, r.pos@ == 0 { unimplemented!() }
}
impl TreeItems {
    #[verifier::external_body] pub fn next(&mut self) -> (r: Option<(usize, Fr)>)
        ensures final(self).items@ == old(self).items@, old(self).pos@ <= old(self).items@.len(),
            old(self).pos@ < old(self).items@.len() ==> (r == Some(old(self).items@[old(self).pos@ as int]) && final(self).pos@ == old(self).pos@ + 1),
            old(self).pos@ >= old(self).items@.len() ==> (r is None && final(self).pos@ == old(self).pos@) { unimplemented!() }
}
// `v.iter().skip(k)`: a cursor into v
pub struct SkipIter { pub pos: Ghost<nat> }
#[verifier::external_body] pub fn skip_iter(v: &Vec<G1Affine>, k: usize) -> (r: SkipIter) ensures r.pos@ == k { unimplemented!() }
// `its[idx].next().unwrap()`: index out of range or cursor at the end: abort
#[verifier::external_body] pub fn skip_next_unwrap(its: &mut Vec<SkipIter>, idx: usize, v: &Vec<G1Affine>) -> (r: G1Affine)
    ensures idx < old(its)@.len(), old(its)@[idx as int].pos@ < v@.len(), r == v@[old(its)@[idx as int].pos@ as int], final(its)@.len() == old(its)@.len(),
        final(its)@[idx as int].pos@ == old(its)@[idx as int].pos@ + 1, forall|l: int| 0 <= l < old(its)@.len() && l != idx ==> final(its)@[l] == old(its)@[l] { unimplemented!() }
// std VecDeque used as a sliding window: a sequence (front = index 0); a vector of them, updated one at a time (index out of range: abort)
pub struct VDq { pub v: Ghost<Seq<Fr>> }
#[verifier::external_body] pub fn vdqs_new(n: usize) -> (r: Vec<VDq>) ensures r@.len() == n, forall|l: int| 0 <= l < n ==> (#[trigger] r@[l]).v@.len() == 0 { unimplemented!() }     // vec![VecDeque::new(); n]
#[verifier::external_body] pub fn vdqs_push_back(rs: &mut Vec<VDq>, idx: usize, x: Fr)
    ensures idx < old(rs)@.len(), final(rs)@.len() == old(rs)@.len(), final(rs)@[idx as int].v@ == old(rs)@[idx as int].v@.push(x), forall|l: int| 0 <= l < old(rs)@.len() && l != idx ==> final(rs)@[l] == old(rs)@[l] { unimplemented!() }
#[verifier::external_body] pub fn vdqs_pop_front_unwrap(rs: &mut Vec<VDq>, idx: usize) -> (r: Fr)
    ensures idx < old(rs)@.len(), old(rs)@[idx as int].v@.len() > 0, r == old(rs)@[idx as int].v@[0], final(rs)@.len() == old(rs)@.len(),
        final(rs)@[idx as int].v@ == old(rs)@[idx as int].v@.subrange(1, old(rs)@[idx as int].v@.len() as int), forall|l: int| 0 <= l < old(rs)@.len() && l != idx ==> final(rs)@[l] == old(rs)@[l] { unimplemented!() }
#[verifier::external_body] pub fn vdqs_sub_at(rs: &mut Vec<VDq>, idx: usize, j: usize, d: Fr)      // rs[idx][j] -= d
    ensures idx < old(rs)@.len(), j < old(rs)@[idx as int].v@.len(), final(rs)@.len() == old(rs)@.len(), final(rs)@[idx as int].v@.len() == old(rs)@[idx as int].v@.len(),
        final(rs)@[idx as int].v@[j as int]@ == f_sub(old(rs)@[idx as int].v@[j as int]@, d@),
        forall|t: int| 0 <= t < old(rs)@[idx as int].v@.len() && t != j ==> final(rs)@[idx as int].v@[t] == old(rs)@[idx as int].v@[t],
        forall|l: int| 0 <= l < old(rs)@.len() && l != idx ==> final(rs)@[l] == old(rs)@[l] { unimplemented!() }
#[verifier::external_body] pub fn vdqs_to_vecs(rs: &Vec<VDq>) -> (r: Vec<Vec<Fr>>) ensures r@.len() == rs@.len(), forall|l: int| 0 <= l < rs@.len() ==> (#[trigger] r@[l])@ == rs@[l].v@ { unimplemented!() }   // iter_mut().map(|x| x.make_contiguous().to_vec()).collect()
pub open spec fn vprod(pts: Seq<Fr>, k: nat, x: FS) -> FS decreases k { if k == 0 { f_one() } else { f_mul(vprod(pts, (k - 1) as nat, x), f_sub(x, pts[k - 1]@)) } }
//@stub from=streaming_helpers.rs id=streaming.vanishing_polynomial vis=pub
//@stub from=lc_utils.rs id=utils.ceil_div vis=pub
// ======================= specification =======================
// the coefficients of level i among the first k items
pub open spec fn lvl(items: Seq<(usize, Fr)>, i: int, k: nat) -> Seq<FS> decreases k {
    if k == 0 { Seq::empty() } else if items[k - 1].0 == i { lvl(items, i, (k - 1) as nat).push(items[k - 1].1@) } else { lvl(items, i, (k - 1) as nat) }
}
pub open spec fn zpad(m: nat, s: Seq<FS>) -> Seq<FS> { Seq::new(m, |j: int| f_zero()) + s }
// sum over the levels l < ll of eta_l * <bases from offset offs[l], quotient stream of level l>
pub open spec fn lsum(etas: Seq<Fr>, g: Seq<FS>, offs: Seq<nat>, qss: Seq<Seq<FS>>, ll: nat) -> FS decreases ll {
    if ll == 0 { f_zero() } else { let l = (ll - 1) as int; f_add(lsum(etas, g, offs, qss, l as nat), f_mul(etas[l]@, dot(g.subrange(offs[l] as int, g.len() as int), qss[l], qss[l].len()))) }
}
pub proof fn lemma_lsum_ext(etas: Seq<Fr>, g: Seq<FS>, offs: Seq<nat>, q1: Seq<Seq<FS>>, q2: Seq<Seq<FS>>, ll: nat)
    requires ll <= q1.len(), ll <= q2.len(), forall|l: int| 0 <= l < ll ==> q1[l] == q2[l]
    ensures lsum(etas, g, offs, q1, ll) == lsum(etas, g, offs, q2, ll)
    decreases ll
{ if ll > 0 { lemma_lsum_ext(etas, g, offs, q1, q2, (ll - 1) as nat); } }
// one more quotient coefficient on level c adds  eta_c * base * qc  to the sum
pub proof fn lemma_lsum_push(etas: Seq<Fr>, g: Seq<FS>, offs: Seq<nat>, q1: Seq<Seq<FS>>, q2: Seq<Seq<FS>>, ll: nat, c: int, qc: FS)
    requires q1.len() == q2.len(), ll <= q1.len(), 0 <= c < q1.len(), q2[c] == q1[c].push(qc), forall|l: int| 0 <= l < q1.len() && l != c ==> q2[l] == q1[l],
        offs[c] + q1[c].len() < g.len()
    ensures lsum(etas, g, offs, q2, ll) == f_add(lsum(etas, g, offs, q1, ll), if c < ll { f_mul(g[(offs[c] + q1[c].len()) as int], f_mul(etas[c]@, qc)) } else { f_zero() })
    decreases ll
{
    if ll == 0 { ax_add_zero(f_zero()); }
    else {
        let l = (ll - 1) as int;
        lemma_lsum_push(etas, g, offs, q1, q2, l as nat, c, qc);
        let a = lsum(etas, g, offs, q1, l as nat);
        if l == c {
            lemma_lsum_ext(etas, g, offs, q1, q2, l as nat);
            let tl = g.subrange(offs[c] as int, g.len() as int); let k = q1[c].len(); let e = etas[c]@;
            lemma_dot_ext(tl, tl, q2[c], q1[c], k);
            assert(dot(tl, q2[c], k + 1) == f_add(dot(tl, q1[c], k), f_mul(tl[k as int], qc)));
            assert(tl[k as int] == g[(offs[c] + k) as int]);
            let d0 = dot(tl, q1[c], k); let b = g[(offs[c] + k) as int];
            ax_distrib(e, d0, f_mul(b, qc)); ax_mul_assoc(b, e, qc); ax_mul_comm(b, e); ax_mul_assoc(e, b, qc);
            ax_add_zero(a);
            ax_add_assoc(a, f_mul(e, d0), f_mul(e, f_mul(b, qc)));
        } else {
            let x = if c < l { f_mul(g[(offs[c] + q1[c].len()) as int], f_mul(etas[c]@, qc)) } else { f_zero() };
            let y = f_mul(etas[l]@, dot(g.subrange(offs[l] as int, g.len() as int), q1[l], q1[l].len()));
            ax_add_assoc(a, x, y); ax_add_comm(x, y); ax_add_assoc(a, y, x);
        }
    }
}
// the state of level l after k items: the long division of (m zeros ++ the level's coefficients so far) by Z, quotient stream qs
pub open spec fn lvl_ok(items: Seq<(usize, Fr)>, k: nat, l: int, qs: Seq<FS>, window: Seq<Fr>, zr: Seq<FS>, m: nat) -> bool {
    let f = zpad(m, lvl(items, l + 1, k)); smp_inv(f, qs, fviews(window), zr, m, f.len())
}
// what open_folding returns
pub open spec fn fold_open_rel(ck: &CommitterKeyStream, tree: &FoldedTree, pts: Seq<Fr>, etas: Seq<Fr>, offs: Seq<nat>, rems: Seq<Vec<Fr>>, pv: FS, qss: Seq<Seq<FS>>) -> bool {
    let m = pts.len(); let n = tree.depth as nat;
    rems.len() == n && qss.len() == n
    && (forall|l: int| 0 <= l < n ==> {
            let f = zpad(m, lvl(tree.items@, l + 1, tree.items@.len()));
            (#[trigger] rems[l])@.len() == m && qss[l].len() == f.len() - m
            // f_l = q_l * Z + r_l   (big-endian streams, Z the vanishing polynomial of the points)
            && forall|x: FS| be(f, x, f.len()) == f_add(f_mul(#[trigger] be(qss[l], x, (f.len() - m) as nat), vprod(pts, m, x)), be(fviews(rems[l]@), x, m)) })
    && pv == lsum(etas, g1views(ck.powers_of_g@), offs, qss, n)
}
pub open spec fn fold_offs(ck: &CommitterKeyStream, tree: &FoldedTree) -> Seq<nat> {
    Seq::new(tree.depth as nat, |l: int| (ck.powers_of_g@.len() - (tree.len + vstd::arithmetic::power2::pow2((l + 1) as nat) - 1) / (vstd::arithmetic::power2::pow2((l + 1) as nat) as int)) as nat)
}
impl CommitterKeyStream {
//@fn id=streaming.space.open_folding file=poly-commit/src/streaming_kzg/space.rs scope="impl<E, SG> CommitterKeyStream<E, SG>" name=open_folding props=C14,C01,C19
    pub fn open_folding(&self, polynomials: FoldedTree, points: &[Fr], etas: &[Fr], max_msm_buffer: usize) -> (r: (Vec<Vec<Fr>>, EvaluationProof))
    requires
        points@.len() >= 1, polynomials.depth < 63, polynomials.len <= self.powers_of_g@.len(), self.powers_of_g@.len() < 0x4000_0000_0000_0000,
        etas@.len() >= polynomials.depth,      // (fewer batching challenges than levels: index out of bounds, abort)
    ensures
        exists|qss: Seq<Seq<FS>>| #[trigger] fold_open_rel(self, &polynomials, points@, etas@, fold_offs(self, &polynomials), r.0@, r.1.0@, qss),   // name=streaming.space.open_folding.every_level_divided_by_the_vanishing_polynomial_and_one_batched_quotient_commitment props=C14,C01,C19
//@body
//@rw 1 /HashMapPippenger::<E::G1>::new\(max_msm_buffer\)/ => HashMapPippenger::new(max_msm_buffer)
//@rw 1 /let mut folded_bases = Vec::new\(\);/ => let mut folded_bases: Vec<SkipIter> = Vec::new();
//@rw 1 /vec!\[VecDeque::new\(\); n\]/ => vdqs_new(n)
//@rw 1 /let bases_init = self\.powers_of_g\.iter\(\);/ => let bases_unused__ = 0usize;
//@rw 1 /let bases = bases_init\.skip\(delta\);/ => let bases = skip_iter(&self.powers_of_g, delta);
//@rw 2 /remainders\[([^\]]*)\]\.push_back\(([^;]*)\);/ => vdqs_push_back(&mut remainders, \1, \2);
//@rw 1 /(?s)\(0\.\.points\.len\(\)\)\.for_each\(\|_\| \{(.*?)\}\);/ => for k__ in ita: 0..points.len() invariant 1 <= i <= n, remainders@.len() == n, remainders@[i - 1].v@.len() == k__, (forall|t: int| 0 <= t < k__ ==> (#[trigger] remainders@[i - 1].v@[t])@ == f_zero()), (forall|l: int| 0 <= l < i - 1 ==> (#[trigger] remainders@[l]).v@.len() == points@.len() && (forall|t: int| 0 <= t < points@.len() ==> (#[trigger] remainders@[l].v@[t])@ == f_zero())), (forall|l: int| i <= l < n ==> (#[trigger] remainders@[l]).v@.len() == 0) {\1}
//@rw 1 /for \(i, coefficient\) in polynomials\.iter\(\) \{/ => let mut it__ = polynomials.iter(); let mut nx__ = it__.next(); while nx__.is_some()
            invariant m == points@.len(), m >= 1, n == polynomials.depth, n < 63, etas@.len() >= n, remainders@.len() == n, folded_bases@.len() == n, qss.len() == n,
                zeros.coeffs@.len() == m + 1, zeros.coeffs@[m as int]@ == f_one(), zeros.wf(), zc == fviews(zeros.coeffs@), zr == Seq::new(m, |t: int| zc[m - 1 - t]), g == g1views(self.powers_of_g@), offs == fold_offs(self, &polynomials),
                it__.items@ == polynomials.items@, it__.pos@ <= it__.items@.len(),
                nx__ is Some ==> (it__.pos@ >= 1 && nx__ == Some(it__.items@[it__.pos@ - 1])), nx__ is None ==> it__.pos@ == it__.items@.len(),
                forall|l: int| 0 <= l < n ==> lvl_ok(it__.items@, (if nx__ is Some { (it__.pos@ - 1) as nat } else { it__.pos@ }), l, #[trigger] qss[l], remainders@[l].v@, zr, m),
                forall|l: int| 0 <= l < n ==> (#[trigger] folded_bases@[l]).pos@ == offs[l] + qss[l].len(),
                forall|l: int| 0 <= l < n ==> (#[trigger] remainders@[l]).v@.len() == m,
                pippenger.acc@ == lsum(etas@, g, offs, qss, n as nat),
            decreases it__.items@.len() - it__.pos@ + (if nx__ is Some { 1nat } else { 0nat })
        { let (i, coefficient) = nx__.unwrap(); let ghost kpos = (it__.pos@ - 1) as nat; let ghost q0 = qss; let ghost rs0 = remainders@;
// (`if i == 0 { continue; }` is turned into if/else by the generic rule R11; the spliced `nx__ = it__.next()` at the end of the loop body runs on both paths)
//@rw 1 /folded_bases\[([^\]]*)\]\.next\(\)\.unwrap\(\)/ => skip_next_unwrap(&mut folded_bases, \1, &self.powers_of_g)
//@rw 1 /remainders\[([^\]]*)\]\.pop_front\(\)\.unwrap\(\)/ => vdqs_pop_front_unwrap(&mut remainders, \1)
//@rw 1 /(?s)\(0\.\.points\.len\(\)\)\.for_each\(\|j\| \{\s*remainders\[i - 1\]\[j\] -= ([^;]*);\s*\}\);/ => let ghost sh0 = remainders@[i - 1].v@; for j in itb: 0..points.len() invariant m == points@.len(), 1 <= i <= n, remainders@.len() == n, remainders@[i - 1].v@.len() == m, sh0.len() == m, zeros.coeffs@.len() == m + 1, zeros.coeffs@[m as int]@ == f_one(), zeros.wf(), zc == fviews(zeros.coeffs@), (forall|t: int| 0 <= t < j ==> (#[trigger] remainders@[i - 1].v@[t])@ == f_sub(sh0[t]@, f_mul(zc[m - 1 - t], quotient_coefficient@))), (forall|t: int| j <= t < m ==> remainders@[i - 1].v@[t] == sh0[t]), (forall|l: int| 0 <= l < n && l != i - 1 ==> remainders@[l] == rs0[l]) { proof { ax_one_ne_zero(); assert(!zeros.is_zero_spec()) by { assert(zeros.coeffs@[m as int]@ == f_one()); } } let d__ = \1; vdqs_sub_at(&mut remainders, i - 1, j, d__); }
//@rw 1 /(?s)remainders\s*\.iter_mut\(\)\s*\.map\(\|x\| x\.make_contiguous\(\)\.to_vec\(\)\)\s*\.collect::<Vec<_>>\(\)/ => vdqs_to_vecs(&remainders)
//@after /let zeros = vanishing_polynomial\(points\);/
        let ghost m = points@.len() as nat; let ghost zc = fviews(zeros.coeffs@); let ghost zr = Seq::new(m, |t: int| zc[m - 1 - t]); let ghost g = g1views(self.powers_of_g@);
        let ghost offs = fold_offs(self, &polynomials);
        let ghost mut qss: Seq<Seq<FS>> = Seq::new(n as nat, |l: int| Seq::<FS>::empty());
//@loop 1 kw=for name=iti
            invariant 1 <= i <= n + 1, n == polynomials.depth, n < 63, polynomials.len <= self.powers_of_g@.len(), self.powers_of_g@.len() < 0x4000_0000_0000_0000, points@.len() >= 1,
                remainders@.len() == n, folded_bases@.len() == i - 1, offs == fold_offs(self, &polynomials),
                forall|l: int| 0 <= l < i - 1 ==> (#[trigger] folded_bases@[l]).pos@ == offs[l],
                forall|l: int| 0 <= l < i - 1 ==> (#[trigger] remainders@[l]).v@.len() == points@.len() && (forall|t: int| 0 <= t < points@.len() ==> (#[trigger] remainders@[l].v@[t])@ == f_zero()),
                forall|l: int| i - 1 <= l < n ==> (#[trigger] remainders@[l]).v@.len() == 0,
//@loopstart 1
            proof { lemma_shl_pow2(i); vstd::arithmetic::power2::lemma_pow2_pos(i as nat); lemma_ceil_le(polynomials.len as int, (1usize << i) as int); }
//@before /let mut it__ = polynomials\.iter\(\);|for \(i, coefficient\) in polynomials\.iter\(\) \{/
        proof {
            assert forall|l: int| 0 <= l < n implies lvl_ok(polynomials.items@, 0, l, #[trigger] qss[l], remainders@[l].v@, zr, m) by {
                let f = zpad(m, lvl(polynomials.items@, l + 1, 0));
                assert(f.len() == m);
                lemma_smp_init(f, fviews(remainders@[l].v@), zr, m);
            }
            lemma_lsum_zero(etas@, g, offs, qss, n as nat);
        }
//@after /pippenger\.add\(base, scalar\);/
            proof {
                let c = (i - 1) as int; let items = it__.items@; let f0 = zpad(m, lvl(items, i as int, kpos)); let f1 = zpad(m, lvl(items, i as int, kpos + 1));
                let st0 = fviews(rs0[c].v@); let st1 = fviews(remainders@[c].v@);
                assert(items[kpos as int] == (i, coefficient));
                assert(f1 =~= f0.push(coefficient@));
                assert forall|t: int| 0 <= t < m implies st1[t] == f_sub(st0.subrange(1, m as int).push(f1[f0.len() as int])[t], f_mul(zr[t], st0[0])) by {
                    assert(sh0[t]@ == st0.subrange(1, m as int).push(coefficient@)[t]);
                }
                reveal(smp_inv);
                assert(smp_inv(f1, q0[c], st0, zr, m, f0.len())) by { assert forall|x: FS| be(f1, x, f0.len()) == be(f0, x, f0.len()) by { lemma_be_ext(f1, f0, x, f0.len()); } }
                lemma_smp_step(f1, q0[c], st0, st1, zr, m, f0.len());
                qss = q0.update(c, q0[c].push(quotient_coefficient@));
                assert forall|l: int| 0 <= l < n implies lvl_ok(items, kpos + 1, l, #[trigger] qss[l], remainders@[l].v@, zr, m) by {
                    if l != c { assert(lvl(items, l + 1, kpos + 1) == lvl(items, l + 1, kpos)); assert(remainders@[l] == rs0[l]); assert(lvl_ok(items, kpos, l, q0[l], rs0[l].v@, zr, m)); }
                }
                lemma_lsum_push(etas@, g, offs, q0, qss, n as nat, c, quotient_coefficient@);
                assert forall|l: int| 0 <= l < n implies (#[trigger] remainders@[l]).v@.len() == m by { if l != c { assert(remainders@[l] == rs0[l]); } }
            }
//@loopend 2
            nx__ = it__.next();
//@before /let evaluation_proof = pippenger\.finalize/
        proof {
            let items = polynomials.items@;
            assert forall|l: int| 0 <= l < n implies ({ let f = zpad(m, lvl(items, l + 1, items.len())); (#[trigger] remainders@[l]).v@.len() == m && qss[l].len() == f.len() - m
                && forall|x: FS| be(f, x, f.len()) == f_add(f_mul(#[trigger] be(qss[l], x, (f.len() - m) as nat), vprod(points@, m, x)), be(fviews(remainders@[l].v@), x, m)) }) by {
                let f = zpad(m, lvl(items, l + 1, items.len()));
                assert(lvl_ok(items, items.len(), l, qss[l], remainders@[l].v@, zr, m));
                assert(remainders@[l].v@.len() == m && qss[l].len() == f.len() - m) by { reveal(smp_inv); }
                assert forall|x: FS| be(f, x, f.len()) == f_add(f_mul(#[trigger] be(qss[l], x, (f.len() - m) as nat), vprod(points@, m, x)), be(fviews(remainders@[l].v@), x, m)) by {
                    lemma_smp_final(f, qss[l], fviews(remainders@[l].v@), zr, zc, m, x);
                    assert(zeros.ev(x) == peval(zc, x, m + 1));
                }
            }
        }
//@rw 1 /\(remainders, EvaluationProof\(evaluation_proof\)\)/ => { let res__ = (remainders, EvaluationProof(evaluation_proof)); proof { assert forall|l: int| 0 <= l < n implies fviews((#[trigger] res__.0@[l])@) == fviews(rems_g[l].v@) by {} assert(fold_open_rel(self, &polynomials, points@, etas@, offs, res__.0@, res__.1.0@, qss)); } res__ }
//@before /let remainders = remainders/
        let ghost rems_g = remainders@;
//@end
}
pub proof fn lemma_shl_pow2(i: usize) requires i < 63 ensures (1usize << i) == vstd::arithmetic::power2::pow2(i as nat), (1usize << i) >= 1, (1usize << i) < 0x8000_0000_0000_0000
{
    vstd::arithmetic::power2::lemma_pow2_strictly_increases(i as nat, 63); vstd::arithmetic::power2::lemma2_to64_rest(); vstd::arithmetic::power2::lemma_pow2_pos(i as nat);
    assert(1 * vstd::arithmetic::power2::pow2(i as nat) <= usize::MAX);
    vstd::bits::lemma_usize_shl_is_mul(1usize, i);
}
pub proof fn lemma_ceil_le(x: int, y: int) requires x >= 0, y >= 1 ensures (x + y - 1) / y <= x
{
    if x == 0 { vstd::arithmetic::div_mod::lemma_basic_div(y - 1, y); }
    else {
        assert(x + y - 1 <= x * y) by (nonlinear_arith) requires x >= 1, y >= 1;
        vstd::arithmetic::div_mod::lemma_div_is_ordered(x + y - 1, x * y, y);
        vstd::arithmetic::div_mod::lemma_div_multiples_vanish(x, y);
        assert(x * y == y * x) by (nonlinear_arith);
    }
}
pub proof fn lemma_lsum_zero(etas: Seq<Fr>, g: Seq<FS>, offs: Seq<nat>, qss: Seq<Seq<FS>>, ll: nat)
    requires ll <= qss.len(), forall|l: int| 0 <= l < ll ==> (#[trigger] qss[l]).len() == 0
    ensures lsum(etas, g, offs, qss, ll) == f_zero()
    decreases ll
{ if ll > 0 { lemma_lsum_zero(etas, g, offs, qss, (ll - 1) as nat); lemma_mul_zero(etas[ll - 1]@); ax_add_zero(f_zero()); } }

// ---- commit_folding: one commitment per level, all levels in one pass over the tree ----
//@struct file=poly-commit/src/streaming_kzg/mod.rs name=Commitment
pub struct ChunkedPippenger { pub acc: Ghost<FS> }
impl ChunkedPippenger { #[verifier::external_body] pub fn with_size(max_msm_buffer: usize) -> (r: Self) ensures r.acc@ == f_zero() { unimplemented!() } }
// `ps[idx].add(base, scalar)` (index out of range: abort) and the final `into_iter().map(|p| Commitment(p.finalize().into_affine())).collect()`
#[verifier::external_body] pub fn pips_add(ps: &mut Vec<ChunkedPippenger>, idx: usize, base: G1Affine, scalar: BigInt)
    ensures idx < old(ps)@.len(), final(ps)@.len() == old(ps)@.len(), final(ps)@[idx as int].acc@ == f_add(old(ps)@[idx as int].acc@, f_mul(base@, scalar@)),
        forall|l: int| 0 <= l < old(ps)@.len() && l != idx ==> final(ps)@[l] == old(ps)@[l] { unimplemented!() }
#[verifier::external_body] pub fn pips_finalize(ps: Vec<ChunkedPippenger>) -> (r: Vec<Commitment>) ensures r@.len() == ps@.len(), forall|l: int| 0 <= l < ps@.len() ==> (#[trigger] r@[l]).0@ == ps@[l].acc@ { unimplemented!() }
impl CommitterKeyStream {
//@fn id=streaming.space.commit_folding file=poly-commit/src/streaming_kzg/space.rs scope="impl<E, SG> CommitterKeyStream<E, SG>" name=commit_folding props=C14,C08
    pub fn commit_folding(&self, polynomials: &FoldedTree, max_msm_buffer: usize) -> (r: Vec<Commitment>)
    requires
        1 <= polynomials.depth < 63, polynomials.len <= self.powers_of_g@.len(), self.powers_of_g@.len() < 0x4000_0000_0000_0000,      // (depth 0 divides the buffer size by zero: abort)
        forall|k: int| 0 <= k < polynomials.items@.len() ==> (#[trigger] polynomials.items@[k]).0 >= 1,     // the tree iterator never yields level 0 (proved: streaming.tree_iter.next.item_is_the_fold_of_the_window_ending_here)
    ensures
        r@.len() == polynomials.depth,   // name=streaming.space.commit_folding.one_commitment_per_level props=C14,C19
        // commitment l = <bases from the offset of level l+1, the coefficient stream of level l+1>
        forall|l: int| 0 <= l < polynomials.depth ==> (#[trigger] r@[l]).0@ == dot(g1views(self.powers_of_g@).subrange(fold_offs(self, polynomials)[l] as int, self.powers_of_g@.len() as int),
            lvl(polynomials.items@, l + 1, polynomials.items@.len()), lvl(polynomials.items@, l + 1, polynomials.items@.len()).len()),   // name=streaming.space.commit_folding.each_level_committed_under_its_own_window_of_the_key props=C14,C08
//@body
//@rw 1 /let mut pippengers: Vec<ChunkedPippenger<E::G1>> = Vec::new\(\);/ => let mut pippengers: Vec<ChunkedPippenger> = Vec::new();
//@rw 1 /let mut folded_bases = Vec::new\(\);/ => let mut folded_bases: Vec<SkipIter> = Vec::new();
//@rw 1 /(?s)let pippenger: ChunkedPippenger<<E as Pairing>::G1> =\s*ChunkedPippenger::with_size/ => let pippenger: ChunkedPippenger = ChunkedPippenger::with_size
//@rw 1 /let bases_init = self\.powers_of_g\.iter\(\);/ => let bases_unused__ = 0usize;
//@rw 1 /let bases = bases_init\.skip\(delta\);/ => let bases = skip_iter(&self.powers_of_g, delta);
//@rw 1 /for \(i, coefficient\) in polynomials\.iter\(\) \{/ => let mut it__ = polynomials.iter(); let mut nx__ = it__.next(); while nx__.is_some()
            invariant n == polynomials.depth, 1 <= n < 63, pippengers@.len() == n, folded_bases@.len() == n, g == g1views(self.powers_of_g@), offs == fold_offs(self, polynomials),
                it__.items@ == polynomials.items@, it__.pos@ <= it__.items@.len(),
                forall|k: int| 0 <= k < polynomials.items@.len() ==> (#[trigger] polynomials.items@[k]).0 >= 1,
                nx__ is Some ==> (it__.pos@ >= 1 && nx__ == Some(it__.items@[it__.pos@ - 1])), nx__ is None ==> it__.pos@ == it__.items@.len(),
                forall|l: int| 0 <= l < n ==> (#[trigger] folded_bases@[l]).pos@ == offs[l] + lvl(it__.items@, l + 1, (if nx__ is Some { (it__.pos@ - 1) as nat } else { it__.pos@ })).len(),
                forall|l: int| 0 <= l < n ==> (#[trigger] pippengers@[l]).acc@ == dot(g.subrange(offs[l] as int, g.len() as int), lvl(it__.items@, l + 1, (if nx__ is Some { (it__.pos@ - 1) as nat } else { it__.pos@ })),
                    lvl(it__.items@, l + 1, (if nx__ is Some { (it__.pos@ - 1) as nat } else { it__.pos@ })).len()),
            decreases it__.items@.len() - it__.pos@ + (if nx__ is Some { 1nat } else { 0nat })
        { let (i, coefficient) = nx__.unwrap(); let ghost kpos = (it__.pos@ - 1) as nat; let ghost ps0 = pippengers@; let ghost fb0 = folded_bases@; proof { assert(polynomials.items@[kpos as int].0 >= 1); }
//@rw 1 /folded_bases\[([^\]]*)\]\.next\(\)\.unwrap\(\)/ => skip_next_unwrap(&mut folded_bases, \1, &self.powers_of_g)
//@rw 1 /pippengers\[([^\]]*)\]\.add\(base\.borrow\(\), ([^;]*)\);/ => pips_add(&mut pippengers, \1, base, \2);
//@rw 1 /(?s)pippengers\s*\.into_iter\(\)\s*\.map\(\|p\| Commitment\(p\.finalize\(\)\.into_affine\(\)\)\)\s*\.collect::<Vec<_>>\(\)/ => pips_finalize(pippengers)
//@after /let n = polynomials\.depth\(\);/
        let ghost g = g1views(self.powers_of_g@); let ghost offs = fold_offs(self, polynomials);
//@loop 1 kw=for name=iti
            invariant 1 <= i <= n + 1, n == polynomials.depth, 1 <= n < 63, polynomials.len <= self.powers_of_g@.len(), self.powers_of_g@.len() < 0x4000_0000_0000_0000,
                pippengers@.len() == i - 1, folded_bases@.len() == i - 1, offs == fold_offs(self, polynomials),
                forall|l: int| 0 <= l < i - 1 ==> (#[trigger] folded_bases@[l]).pos@ == offs[l],
                forall|l: int| 0 <= l < i - 1 ==> (#[trigger] pippengers@[l]).acc@ == f_zero(),
//@loopstart 1
            proof { lemma_shl_pow2(i); vstd::arithmetic::power2::lemma_pow2_pos(i as nat); lemma_ceil_le(polynomials.len as int, (1usize << i) as int); }
//@loopend 2
            proof {
                let items = it__.items@; let c = (i - 1) as int;
                assert forall|l: int| 0 <= l < n implies (#[trigger] pippengers@[l]).acc@ == dot(g.subrange(offs[l] as int, g.len() as int), lvl(items, l + 1, kpos + 1), lvl(items, l + 1, kpos + 1).len())
                    && (#[trigger] folded_bases@[l]).pos@ == offs[l] + lvl(items, l + 1, kpos + 1).len() by {
                    let tl = g.subrange(offs[l] as int, g.len() as int); let s0 = lvl(items, l + 1, kpos); let s1 = lvl(items, l + 1, kpos + 1);
                    if l == c {
                        assert(items[kpos as int] == (i, coefficient));
                        assert(s1 == s0.push(coefficient@));
                        lemma_dot_ext(tl, tl, s1, s0, s0.len());
                        assert(tl[s0.len() as int] == g[(offs[l] + s0.len()) as int]);
                    } else { assert(s1 == s0); assert(pippengers@[l] == ps0[l]); assert(folded_bases@[l] == fb0[l]); }
                }
            }
            nx__ = it__.next();
//@end
}
