// data_structures.rs: LabeledPolynomial / LabeledCommitment constructors and accessors.  The contracts proved here for the REAL functions are exactly the
// ones every other template takes from shim/labeled.rs and shim/labeled_comm.rs (where they are restated for the callers)   (C04, C07, C16, C17)
//@use core ops_gen poly std
//@typemap /<F, P>/ =>
//@typemap /<C>/ =>
//@typemap /polynomial: P\b/ => polynomial: Poly
//@typemap /-> &P\b/ => -> &Poly
//@typemap /&P::Point/ => &Fr
//@typemap /_field: PhantomData<F>/ => _field: core::marker::PhantomData<Fr>
//@typemap /_field: PhantomData,/ => _field: core::marker::PhantomData,
//@typemap /PolynomialLabel/ => String
//@typemap /commitment: C\b/ => commitment: Cm
//@typemap /-> &C\b/ => -> &Cm
pub struct Cm { pub x: Ghost<int> }    // any commitment type
//@struct file=poly-commit/src/data_structures.rs name=LabeledPolynomial
//@struct file=poly-commit/src/data_structures.rs name=LabeledCommitment
impl LabeledPolynomial {
//@fn id=lib.LabeledPolynomial.new file=poly-commit/src/data_structures.rs scope="impl<'a, F: Field, P: Polynomial<F>> LabeledPolynomial<F, P>" name=new props=C04,C07
    pub fn new(label: String, polynomial: Poly, degree_bound: Option<usize>, hiding_bound: Option<usize>) -> (r: Self)
    ensures
        r.label == label && r.polynomial == polynomial && r.degree_bound == degree_bound && r.hiding_bound == hiding_bound,   // name=lib.LabeledPolynomial.new.fields_as_given props=C04,C07
//@body
//@end
//@fn id=lib.LabeledPolynomial.label file=poly-commit/src/data_structures.rs scope="impl<'a, F: Field, P: Polynomial<F>> LabeledPolynomial<F, P>" name=label props=C16
    pub fn label(&self) -> (r: &String)
    ensures
        *r == self.label,   // name=lib.LabeledPolynomial.label.is_the_label props=C16
//@body
//@end
//@fn id=lib.LabeledPolynomial.polynomial file=poly-commit/src/data_structures.rs scope="impl<'a, F: Field, P: Polynomial<F>> LabeledPolynomial<F, P>" name=polynomial props=C16
    pub fn polynomial(&self) -> (r: &Poly)
    ensures
        *r == self.polynomial,   // name=lib.LabeledPolynomial.polynomial.is_the_polynomial props=C16
//@body
//@end
//@fn id=lib.LabeledPolynomial.evaluate file=poly-commit/src/data_structures.rs scope="impl<'a, F: Field, P: Polynomial<F>> LabeledPolynomial<F, P>" name=evaluate props=C16
    pub fn evaluate(&self, point: &Fr) -> (r: Fr)
    ensures
        r@ == self.polynomial.ev(point@),   // name=lib.LabeledPolynomial.evaluate.evaluates_the_polynomial props=C16
//@body
//@end
//@fn id=lib.LabeledPolynomial.degree file=poly-commit/src/data_structures.rs scope="impl<'a, F: Field, P: Polynomial<F>> LabeledPolynomial<F, P>" name=degree props=C04,C17
    pub fn degree(&self) -> (r: usize)
    ensures
        r == self.polynomial.degree_spec(),   // name=lib.LabeledPolynomial.degree.degree_of_the_polynomial props=C04,C17
//@body
//@end
//@fn id=lib.LabeledPolynomial.degree_bound file=poly-commit/src/data_structures.rs scope="impl<'a, F: Field, P: Polynomial<F>> LabeledPolynomial<F, P>" name=degree_bound props=C04
    pub fn degree_bound(&self) -> (r: Option<usize>)
    ensures
        r == self.degree_bound,   // name=lib.LabeledPolynomial.degree_bound.is_the_declared_bound props=C04
//@body
//@end
//@fn id=lib.LabeledPolynomial.is_hiding file=poly-commit/src/data_structures.rs scope="impl<'a, F: Field, P: Polynomial<F>> LabeledPolynomial<F, P>" name=is_hiding props=C07
    pub fn is_hiding(&self) -> (r: bool)
    ensures
        r == self.hiding_bound.is_some(),   // name=lib.LabeledPolynomial.is_hiding.iff_a_hiding_bound_is_declared props=C07
//@body
//@end
//@fn id=lib.LabeledPolynomial.hiding_bound file=poly-commit/src/data_structures.rs scope="impl<'a, F: Field, P: Polynomial<F>> LabeledPolynomial<F, P>" name=hiding_bound props=C07
    pub fn hiding_bound(&self) -> (r: Option<usize>)
    ensures
        r == self.hiding_bound,   // name=lib.LabeledPolynomial.hiding_bound.is_the_declared_bound props=C07
//@body
//@end
}
impl LabeledCommitment {
//@fn id=lib.LabeledCommitment.new file=poly-commit/src/data_structures.rs scope="impl<C: PCCommitment> LabeledCommitment<C>" name=new props=C04
    pub fn new(label: String, commitment: Cm, degree_bound: Option<usize>) -> (r: Self)
    ensures
        r.label == label && r.commitment == commitment && r.degree_bound == degree_bound,   // name=lib.LabeledCommitment.new.fields_as_given props=C04
//@body
//@end
//@fn id=lib.LabeledCommitment.label file=poly-commit/src/data_structures.rs scope="impl<C: PCCommitment> LabeledCommitment<C>" name=label props=C16
    pub fn label(&self) -> (r: &String)
    ensures
        *r == self.label,   // name=lib.LabeledCommitment.label.is_the_label props=C16
//@body
//@end
//@fn id=lib.LabeledCommitment.commitment file=poly-commit/src/data_structures.rs scope="impl<C: PCCommitment> LabeledCommitment<C>" name=commitment props=C16
    pub fn commitment(&self) -> (r: &Cm)
    ensures
        *r == self.commitment,   // name=lib.LabeledCommitment.commitment.is_the_commitment props=C16
//@body
//@end
//@fn id=lib.LabeledCommitment.degree_bound file=poly-commit/src/data_structures.rs scope="impl<C: PCCommitment> LabeledCommitment<C>" name=degree_bound props=C04
    pub fn degree_bound(&self) -> (r: Option<usize>)
    ensures
        r == self.degree_bound,   // name=lib.LabeledCommitment.degree_bound.is_the_declared_bound props=C04
//@body
//@end
}
