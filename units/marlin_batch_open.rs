// MarlinKZG10::batch_open (marlin/marlin_pc/mod.rs): the scheme's own copy of the per-point grouping prover; same contract and lemmas as the trait default (units/batch_open_default.rs)
//@use core ops_gen poly labeled labeled_comm sponge std
//@typemap /Self::CommitterKey/ => CK
//@typemap /&CommitterKey<E>/ => &CK
//@typemap /LabeledCommitment<Commitment<E>>/ => LabeledCommitment<Comm>
//@typemap /Vec<kzg10::Proof<E>>/ => BatchProof
//@typemap /Self::Commitment\b/ => Comm
//@typemap /Self::CommitmentState/ => St
//@typemap /Self::BatchProof/ => BatchProof
//@typemap /Self::Error/ => Error
//@typemap /&QuerySet<P::Point>/ => &BTreeSet<(String, (String, Pt))>
//@typemap /LabeledPolynomial<_, _>/ => LabeledPolynomial
//@enum file=poly-commit/src/error.rs name=Error
//@use pctypes pcenv
//@spec group_spec batch_spec
#[verifier::external_body] pub struct CK { _x: u8 }
#[verifier::external_body] pub struct St { _x: u8 }
// the scheme's per-point prover: proof and resulting sponge state are deterministic functions of its inputs and the RNG state
pub uninterp spec fn open_res(ck: &CK, ps: Seq<&LabeledPolynomial>, cs: Seq<&LabeledCommitment<Comm>>, pt: Pt, s: SS, sts: Seq<&St>, rid: int, rpos: nat) -> Option<Proof>;   // None = error
pub uninterp spec fn open_sponge(ck: &CK, ps: Seq<&LabeledPolynomial>, cs: Seq<&LabeledCommitment<Comm>>, pt: Pt, s: SS, sts: Seq<&St>, rid: int, rpos: nat) -> SS;
pub uninterp spec fn open_rpos(ck: &CK, ps: Seq<&LabeledPolynomial>, cs: Seq<&LabeledCommitment<Comm>>, pt: Pt, s: SS, sts: Seq<&St>, rid: int, rpos: nat) -> nat;
// poly/state/commitment triples by label: the last one wins
pub open spec fn t_is_last(ps: Seq<&LabeledPolynomial>, i: int) -> bool { 0 <= i < ps.len() && forall|j: int| i < j < ps.len() ==> (#[trigger] ps[j]).label != ps[i].label }
pub open spec fn tmap_ok(m: Map<&String, (&LabeledPolynomial, &St, &LabeledCommitment<Comm>)>, ps: Seq<&LabeledPolynomial>, sts: Seq<&St>, cs: Seq<&LabeledCommitment<Comm>>) -> bool {
    let n = min(min(ps.len(), sts.len()), cs.len());
    (forall|k: &String| m.dom().contains(k) == (exists|i: int| 0 <= i < n && (#[trigger] ps[i]).label == *k))
    && (forall|i: int| #[trigger] t_is_last(ps.subrange(0, n as int), i) ==> m[&ps[i].label] == (ps[i], sts[i], cs[i]))
}
pub open spec fn tgather_ok(m: Map<&String, (&LabeledPolynomial, &St, &LabeledCommitment<Comm>)>, ls: Seq<String>, k: nat) -> bool { forall|i: int| 0 <= i < k ==> m.dom().contains(&#[trigger] ls[i]) }
pub open spec fn tg_p<'a>(m: Map<&'a String, (&'a LabeledPolynomial, &'a St, &'a LabeledCommitment<Comm>)>, ls: Seq<String>) -> Seq<&'a LabeledPolynomial> { Seq::new(ls.len(), |i: int| m[&ls[i]].0) }
pub open spec fn tg_s<'a>(m: Map<&'a String, (&'a LabeledPolynomial, &'a St, &'a LabeledCommitment<Comm>)>, ls: Seq<String>) -> Seq<&'a St> { Seq::new(ls.len(), |i: int| m[&ls[i]].1) }
pub open spec fn tg_c<'a>(m: Map<&'a String, (&'a LabeledPolynomial, &'a St, &'a LabeledCommitment<Comm>)>, ls: Seq<String>) -> Seq<&'a LabeledCommitment<Comm>> { Seq::new(ls.len(), |i: int| m[&ls[i]].2) }
// the prover's run over the first k groups: None = error, else (proofs so far, sponge state, rng position)
pub open spec fn orun(ck: &CK, m: Map<&String, (&LabeledPolynomial, &St, &LabeledCommitment<Comm>)>, gs: Seq<(String, (Pt, Set<String>))>, s0: SS, rid: int, rpos0: nat, k: nat) -> Option<(Seq<Proof>, SS, nat)> decreases k {
    if k == 0 { Some((Seq::empty(), s0, rpos0)) } else {
        match orun(ck, m, gs, s0, rid, rpos0, (k - 1) as nat) {
            None => None,
            Some((prs, s, rp)) => {
                let g = gs[k - 1]; let ls = labels_seq(g.1.1);
                if !tgather_ok(m, ls, ls.len()) { None } else {
                    match open_res(ck, tg_p(m, ls), tg_c(m, ls), g.1.0, s, tg_s(m, ls), rid, rp) {
                        None => None,
                        Some(pr) => Some((prs.push(pr), open_sponge(ck, tg_p(m, ls), tg_c(m, ls), g.1.0, s, tg_s(m, ls), rid, rp), open_rpos(ck, tg_p(m, ls), tg_c(m, ls), g.1.0, s, tg_s(m, ls), rid, rp))),
                    }
                }
            }
        }
    }
}
pub proof fn lemma_orun_none(ck: &CK, m: Map<&String, (&LabeledPolynomial, &St, &LabeledCommitment<Comm>)>, gs: Seq<(String, (Pt, Set<String>))>, s0: SS, rid: int, rpos0: nat, k: nat, n: nat)
    requires k <= n, orun(ck, m, gs, s0, rid, rpos0, k) is None
    ensures orun(ck, m, gs, s0, rid, rpos0, n) is None
    decreases n
{ if k < n { lemma_orun_none(ck, m, gs, s0, rid, rpos0, k, (n - 1) as nat); } }
pub open spec fn rng_tag(rid: int, rpos: nat) -> bool { true }
pub open spec fn bopen_post(ck: &CK, ps: Seq<&LabeledPolynomial>, cs: Seq<&LabeledCommitment<Comm>>, qs: Set<(String, (String, Pt))>, sts: Seq<&St>, s0: SS, rng_in: Option<(int, nat)>, res: Result<BatchProof, Error>, s1: SS) -> bool {
    exists|gs: Seq<(String, (Pt, Set<String>))>, m: Map<&String, (&LabeledPolynomial, &St, &LabeledCommitment<Comm>)>, rid: int, rpos0: nat| #![trigger groups_of(qs, gs), tmap_ok(m, ps, sts, cs), rng_tag(rid, rpos0)]
        groups_of(qs, gs) && tmap_ok(m, ps, sts, cs) && (rng_in is Some ==> rng_in->Some_0 == (rid, rpos0))     // (without an RNG the wrapper's identity is unconstrained; a scheme that draws aborts)
        && (res is Err) == (orun(ck, m, gs, s0, rid, rpos0, gs.len()) is None)
        // one proof per point label, in the SAME group order the batch verifier uses (groups_of), each the per-point prover's output
        && (res is Ok ==> res->Ok_0.v@ == orun(ck, m, gs, s0, rid, rpos0, gs.len())->Some_0.0 && s1 == orun(ck, m, gs, s0, rid, rpos0, gs.len())->Some_0.1)
}
#[verifier::external_body] pub fn vec_into_batch_proof(v: Vec<Proof>) -> (r: BatchProof) ensures r.v@ == v@ { unimplemented!() }   // proofs.into()
#[verifier::external_body] pub fn tmap_get<'b, 'a>(m: &'b BTreeMap<&'a String, (&'a LabeledPolynomial, &'a St, &'a LabeledCommitment<Comm>)>, k: &String) -> (r: Option<&'b (&'a LabeledPolynomial, &'a St, &'a LabeledCommitment<Comm>)>)
    ensures (r is Some) == m@.dom().contains(k), r is Some ==> *r->Some_0 == m@[k] { unimplemented!() }


// ======================= C11 / C01 for the default batch methods =======================
// Hypothesis (per scheme, per point): whatever the scheme's `open` returns is accepted by its `check` for the true evaluations,
// and both leave the sponge in the same state.  Conclusion: batch_check accepts batch_open's output and both end in the same
// sponge state - for every query set, every number of groups.  (Prover and verifier group the queries identically: groups_of.)
pub uninterp spec fn p_eval(p: &LabeledPolynomial, pt: Pt) -> Fr;      // evaluation of a labelled polynomial at an (abstract) point
pub open spec fn evals_of(ps: Seq<&LabeledPolynomial>, pt: Pt) -> Seq<Fr> { Seq::new(ps.len(), |i: int| p_eval(ps[i], pt)) }
pub open spec fn point_complete(ck: &CK, vk: &VK) -> bool {
    forall|ps: Seq<&LabeledPolynomial>, cs: Seq<&LabeledCommitment<Comm>>, pt: Pt, s: SS, sts: Seq<&St>, rid: int, rp: nat| #![trigger open_res(ck, ps, cs, pt, s, sts, rid, rp)]
        open_res(ck, ps, cs, pt, s, sts, rid, rp) is Some ==>
            chk_dec(vk, cs, pt, evals_of(ps, pt), open_res(ck, ps, cs, pt, s, sts, rid, rp)->Some_0, s) is Accept
            && chk_sponge(vk, cs, pt, evals_of(ps, pt), open_res(ck, ps, cs, pt, s, sts, rid, rp)->Some_0, s) == open_sponge(ck, ps, cs, pt, s, sts, rid, rp)
}
pub open spec fn maps_agree(tm: Map<&String, (&LabeledPolynomial, &St, &LabeledCommitment<Comm>)>, cm: Map<&String, &LabeledCommitment<Comm>>) -> bool {
    forall|l: String| tm.dom().contains(&l) ==> cm.dom().contains(&l) && cm[&l] == (#[trigger] tm[&l]).2
}
pub open spec fn evs_true(tm: Map<&String, (&LabeledPolynomial, &St, &LabeledCommitment<Comm>)>, ev: Map<(String, Pt), Fr>, g: (String, (Pt, Set<String>))) -> bool {
    forall|j: int| 0 <= j < labels_seq(g.1.1).len() && tm.dom().contains(&labels_seq(g.1.1)[j])
        ==> ev.dom().contains((#[trigger] labels_seq(g.1.1)[j], g.1.0)) && ev[(labels_seq(g.1.1)[j], g.1.0)] == p_eval(tm[&labels_seq(g.1.1)[j]].0, g.1.0)
}
//@lemma props=C11,C01
pub proof fn lemma_default_batch_lockstep(ck: &CK, vk: &VK, tm: Map<&String, (&LabeledPolynomial, &St, &LabeledCommitment<Comm>)>, cm: Map<&String, &LabeledCommitment<Comm>>,
        ev: Map<(String, Pt), Fr>, gs: Seq<(String, (Pt, Set<String>))>, pv: Seq<Proof>, s0: SS, rid: int, rpos0: nat, k: nat)
    requires
        point_complete(ck, vk),
        k <= gs.len(), k <= pv.len(),
        // the verifier holds the prover's commitments under the same labels, and the true evaluations of the queried polynomials
        maps_agree(tm, cm),
        forall|i: int| 0 <= i < k ==> #[trigger] evs_true(tm, ev, gs[i]),
        // pv is what the prover produced
        orun(ck, tm, gs, s0, rid, rpos0, k) is Some,
        forall|i: int| 0 <= i < k ==> pv[i] == (#[trigger] orun(ck, tm, gs, s0, rid, rpos0, (i + 1) as nat))->Some_0.0[i],
    ensures
        brun(vk, cm, ev, gs, pv, s0, k) == Some((true, orun(ck, tm, gs, s0, rid, rpos0, k)->Some_0.1)),     // accepted, same sponge state
    decreases k
{
    if k > 0 {
        let km = (k - 1) as nat;
        assert(orun(ck, tm, gs, s0, rid, rpos0, km) is Some);
        lemma_default_batch_lockstep(ck, vk, tm, cm, ev, gs, pv, s0, rid, rpos0, km);
        let prev = orun(ck, tm, gs, s0, rid, rpos0, km)->Some_0;
        let g = gs[k - 1]; let ls = labels_seq(g.1.1);
        assert(tgather_ok(tm, ls, ls.len()));
        assert(gather_ok(cm, ev, g.1.0, ls, ls.len())) by {
            assert(evs_true(tm, ev, gs[k - 1]));
            assert forall|j: int| 0 <= j < ls.len() implies cm.dom().contains(&#[trigger] ls[j]) && ev.dom().contains((ls[j], g.1.0)) by {
                assert(tm.dom().contains(&ls[j])); let t = tm[&ls[j]];
            }
        }
        assert(gather_c(cm, ls) =~= tg_c(tm, ls)) by { assert forall|j: int| 0 <= j < ls.len() implies cm[&ls[j]] == tm[&ls[j]].2 by { assert(tm.dom().contains(&ls[j])); let t = tm[&ls[j]]; } }
        assert(gather_v(ev, g.1.0, ls) =~= evals_of(tg_p(tm, ls), g.1.0)) by {
            assert(evs_true(tm, ev, gs[k - 1]));
            assert forall|j: int| 0 <= j < ls.len() implies ev[(ls[j], g.1.0)] == p_eval(tm[&ls[j]].0, g.1.0) by {
                assert(tm.dom().contains(&ls[j]));
            }
        }
        let pr = open_res(ck, tg_p(tm, ls), tg_c(tm, ls), g.1.0, prev.1, tg_s(tm, ls), rid, prev.2);
        assert(pr is Some);
        assert(orun(ck, tm, gs, s0, rid, rpos0, k)->Some_0.0 == prev.0.push(pr->Some_0));
        assert(prev.0.len() == km) by { lemma_orun_len(ck, tm, gs, s0, rid, rpos0, km); }
        assert(pv[k - 1] == pr->Some_0);
    }
}
pub proof fn lemma_orun_len(ck: &CK, m: Map<&String, (&LabeledPolynomial, &St, &LabeledCommitment<Comm>)>, gs: Seq<(String, (Pt, Set<String>))>, s0: SS, rid: int, rpos0: nat, k: nat)
    requires orun(ck, m, gs, s0, rid, rpos0, k) is Some
    ensures orun(ck, m, gs, s0, rid, rpos0, k)->Some_0.0.len() == k
    decreases k
{ if k > 0 { lemma_orun_len(ck, m, gs, s0, rid, rpos0, (k - 1) as nat); } }

pub struct PC;
impl PC {
    // Self::open of the scheme
    #[verifier::external_body]
    fn open<'a>(ck: &CK, labeled_polynomials: Vec<&'a LabeledPolynomial>, commitments: Vec<&'a LabeledCommitment<Comm>>, point: &'a Pt, sponge: &mut Sponge, states: Vec<&'a St>, rng: Option<&mut Rng>) -> (res: Result<Proof, Error>)
        requires rng is Some
        ensures (res is Err) == (open_res(ck, labeled_polynomials@, commitments@, *point, old(sponge).st@, states@, old(rng->Some_0).id@, old(rng->Some_0).pos@) is None),
            res is Ok ==> res->Ok_0 == open_res(ck, labeled_polynomials@, commitments@, *point, old(sponge).st@, states@, old(rng->Some_0).id@, old(rng->Some_0).pos@)->Some_0,
            res is Ok ==> final(sponge).st@ == open_sponge(ck, labeled_polynomials@, commitments@, *point, old(sponge).st@, states@, old(rng->Some_0).id@, old(rng->Some_0).pos@),
            res is Ok ==> final(rng->Some_0).pos@ == open_rpos(ck, labeled_polynomials@, commitments@, *point, old(sponge).st@, states@, old(rng->Some_0).id@, old(rng->Some_0).pos@)
                && final(rng->Some_0).id == old(rng->Some_0).id && final(rng->Some_0).present == old(rng->Some_0).present { unimplemented!() }

//@fn id=marlin_pc.batch_open file=poly-commit/src/marlin/marlin_pc/mod.rs scope="impl<E, P> PolynomialCommitment<E::ScalarField, P> for MarlinKZG10<E, P>" name=batch_open props=C11,C01,C05,C17
    #[verifier::loop_isolation(false)]
    fn batch_open<'a>(ck: &CK, labeled_polynomials: Vec<&'a LabeledPolynomial>, commitments: Vec<&'a LabeledCommitment<Comm>>, query_set: &BTreeSet<(String, (String, Pt))>, sponge: &mut Sponge, states: Vec<&'a St>, rng: Option<&mut Rng>) -> (res: Result<BatchProof, Error>)
    ensures
        bopen_post(ck, labeled_polynomials@, commitments@, query_set@, states@, old(sponge).st@,
            (if rng is Some { Some((old(rng->Some_0).id@, old(rng->Some_0).pos@)) } else { None }), res, final(sponge).st@),   // name=marlin_pc.batch_open.one_per_point_proof_per_group_in_verifier_order props=C11,C01,C05,C17
//@body
//@rw 1 /&mut crate::optional_rng::OptionalRng\(rng\)/ => &mut optional_rng_wrap(rng)
//@rw 1 /(?s)let poly_rand_comm: BTreeMap<_, _> = (labeled_polynomials.*?)\.collect\(\);/ => let tv__: Vec<(&String, (&LabeledPolynomial, &St, &LabeledCommitment<Comm>))> = \1.collect();
        let poly_rand_comm: BTreeMap<&String, (&LabeledPolynomial, &St, &LabeledCommitment<Comm>)> = btree_from_pairs(tv__);
        proof {
            let nn = min(min(ps0.len(), sts0.len()), cs0.len());
            assert(tv__@.len() == nn);
            assert forall|i: int| #[trigger] t_is_last(ps0.subrange(0, nn as int), i) implies poly_rand_comm@[&ps0[i].label] == (ps0[i], sts0[i], cs0[i]) by {
                assert(tv__@[i].0 == &ps0[i].label);
                assert forall|j: int| i < j < tv__@.len() implies tv__@[j].0 != tv__@[i].0 by { assert(*tv__@[j].0 == ps0.subrange(0, nn as int)[j].label); }
            }
            assert forall|k: &String| poly_rand_comm@.dom().contains(k) == (exists|i: int| 0 <= i < nn && (#[trigger] ps0[i]).label == *k) by {
                if poly_rand_comm@.dom().contains(k) { let i = choose|i: int| 0 <= i < tv__@.len() && (#[trigger] tv__@[i]).0 == k; assert(ps0[i].label == *k); }
                if exists|i: int| 0 <= i < nn && (#[trigger] ps0[i]).label == *k { let i = choose|i: int| 0 <= i < nn && (#[trigger] ps0[i]).label == *k; assert(tv__@[i].0 == k); }
            }
            assert(tmap_ok(poly_rand_comm@, ps0, sts0, cs0));
        }
//@closure |((poly, r), comm)| => |t: ((&'a LabeledPolynomial, &'a St), &'a LabeledCommitment<Comm>)| -> (kv: (&String, (&LabeledPolynomial, &St, &LabeledCommitment<Comm>))) ensures *kv.0 == t.0.0.label, kv.1 == (t.0.0, t.0.1, t.1) ;; let ((poly, r), comm) = t;
//@rw 1 /let mut query_to_labels_map = BTreeMap::new\(\);/ => let mut query_to_labels_map: BTreeMap<&String, (&Pt, BTreeSet<&String>)> = BTreeMap::new();
//@rw 1 /for \(label, \(point_label, point\)\) in([^{]*?)query_set\.iter\(\)([^{]*)\{/ => let qv__ = query_set_to_vec(query_set); for q__ in\1qv__.iter()\2{ let label: &String = &q__.0; let point_label: &String = &q__.1.0; let point: &Pt = &q__.1.1;
//@rw 1 /(?s)let labels = query_to_labels_map\s*\.entry\(point_label\)\s*\.or_insert\(\(point, BTreeSet::new\(\)\)\);\s*labels\.1\.insert\(label\);/ => group_insert(&mut query_to_labels_map, point_label, point, label);
//@rw 1 /let mut proofs = Vec::new\(\);/ => let mut proofs: Vec<Proof> = Vec::new();
//@rw 1 /for \(_point_label, \(point, labels\)\) in([^{]*?)query_to_labels_map\.into_iter\(\)/ => let gv__ = map_into_sorted_vec(query_to_labels_map); let ghost gs = Seq::new(gv__@.len(), |i: int| (*gv__@[i].0, (*gv__@[i].1.0, set_vals(gv__@[i].1.1@))));
        proof { lemma_groups(query_set@, qmap0, gv__@, gs); }
        for (_point_label, (point, labels)) in\1gv__.into_iter()
//@rw 1 /for label in([^{]*?)labels([^{]*)\{/ => let ghost lset = labels@; let lv__ = set_into_sorted_vec(labels); for label__r in\1lv__.iter()\2{ let label: &String = *label__r;
//@rw 1 /poly_rand_comm\.get\(&label\)/ => *tmap_get(&poly_rand_comm, label)
//@rw * /label\.to_string\(\)/ => string_to_string(label)
//@rw 1 /Some\(rng\)/ => Some(&mut *rng)
//@rw 1 /Ok\(proofs\.into\(\)\)/ => Ok(vec_into_batch_proof(proofs))
//@after start
        let ghost ps0 = labeled_polynomials@; let ghost cs0 = commitments@; let ghost sts0 = states@;
        let ghost s0 = sponge.st@;
//@after /let rng = &mut optional_rng::OptionalRng\(rng\);/
        let ghost rid = rng.id@;
        let ghost rpos0 = rng.pos@;
//@loop 1 kw=for name=it
            invariant it.index@ <= qv__@.len(), qv__@.len() == set_seq(query_set@).len(),
                forall|i: int| 0 <= i < qv__@.len() ==> *(#[trigger] qv__@[i]) == set_seq(query_set@)[i],
                qmap_abs(query_to_labels_map@, gmap(set_seq(query_set@), it.index@ as nat)),
//@loopstart 1
            let ghost m0 = query_to_labels_map@;
            let ghost kq = it.index@;
//@loopend 1
            proof {
                let qseq = set_seq(query_set@);
                assert(*q__ == qseq[kq]);
                lemma_gmap_step(m0, query_to_labels_map@, qseq, kq as nat, point_label, point, label);
            }
//@afterloop 1
        let ghost qmap0 = query_to_labels_map@;
//@loop 2 kw=for name=it2
            invariant it2.index@ <= gs.len(), gs.len() == gv__@.len(),
                gs == Seq::new(gv__@.len(), |i: int| (*gv__@[i].0, (*gv__@[i].1.0, set_vals(gv__@[i].1.1@)))),
                rng.id@ == rid,
                orun(ck, poly_rand_comm@, gs, s0, rid, rpos0, it2.index@ as nat) == Some((proofs@, sponge.st@, rng.pos@)),
//@loopstart 2
            let ghost k = it2.index@;
            let ghost s_k = sponge.st@;
            let ghost ls = labels_seq(gs[k].1.1);
            proof { assert(groups_of(query_set@, gs) && tmap_ok(poly_rand_comm@, ps0, sts0, cs0)); assert(rng_tag(rid, rpos0)); }
//@beforeloop 3
                proof { assert(*point == gs[k].1.0 && set_vals(labels@) == gs[k].1.1); }
//@loop 3 kw=for name=it3
                invariant k < gs.len(), it3.index@ <= lv__@.len(), lv__@.len() == ls.len(), forall|i: int| 0 <= i < ls.len() ==> *(#[trigger] lv__@[i]) == ls[i],
                    query_polys@.len() == it3.index@, query_states@.len() == it3.index@, query_comms@.len() == it3.index@,
                    tgather_ok(poly_rand_comm@, ls, it3.index@ as nat),
                    forall|i: int| 0 <= i < it3.index@ ==> (#[trigger] query_polys@[i]) == poly_rand_comm@[&ls[i]].0 && query_states@[i] == poly_rand_comm@[&ls[i]].1 && query_comms@[i] == poly_rand_comm@[&ls[i]].2,
//@loopstart 3
                    let ghost j = it3.index@;
                    proof {
                        assert(*label == ls[j]);
                        if !poly_rand_comm@.dom().contains(label) {
                            assert(!tgather_ok(poly_rand_comm@, ls, ls.len()));
                            lemma_orun_none(ck, poly_rand_comm@, gs, s0, rid, rpos0, (k + 1) as nat, gs.len());
                        }
                    }
//@loopend 3
                    proof { assert(query_polys@[j] == poly_rand_comm@[&ls[j]].0); }
//@afterloop 3
                proof {
                    assert forall|i: int| 0 <= i < ls.len() implies query_states@[i] == tg_s(poly_rand_comm@, ls)[i] && query_comms@[i] == tg_c(poly_rand_comm@, ls)[i] by { let c = query_polys@[i]; assert(c == poly_rand_comm@[&ls[i]].0); }
                    assert(query_polys@ =~= tg_p(poly_rand_comm@, ls));
                    assert(query_states@ =~= tg_s(poly_rand_comm@, ls));
                    assert(query_comms@ =~= tg_c(poly_rand_comm@, ls));
                    if open_res(ck, query_polys@, query_comms@, *point, s_k, query_states@, rid, rng.pos@) is None {
                        assert(orun(ck, poly_rand_comm@, gs, s0, rid, rpos0, (k + 1) as nat) is None);
                        lemma_orun_none(ck, poly_rand_comm@, gs, s0, rid, rpos0, (k + 1) as nat, gs.len());
                    }
                }
//@before /Ok\(proofs\.into\(\)\)/
        proof { assert(groups_of(query_set@, gs) && tmap_ok(poly_rand_comm@, ps0, sts0, cs0)); assert(rng_tag(rid, rpos0)); }
//@end
}
