// evaluate_query_set (lib.rs)  (C16)
//@use core ops_gen poly labeled std
//@typemap /\bF::/ => Fr::
//@typemap /&QuerySet<T>/ => &BTreeSet<(String, (String, Fr))>
//@typemap /Evaluations<T, F>/ => BTreeMap<(String, Fr), Fr>
//@typemap /Evaluations::new\(\)/ => BTreeMap::<(String, Fr), Fr>::new()
#[verifier::external_body] pub fn fr_clone(x: &Fr) -> (r: Fr) ensures r == *x { unimplemented!() }   // <Fr as Clone>::clone
// BTreeMap::<&String, V>::get(&String)  (K: Borrow<Q>)
#[verifier::external_body] pub fn btree_get_by_label<'b, V>(m: &'b BTreeMap<&String, V>, k: &String) -> (r: Option<&'b V>)
    ensures (r is Some) == m@.dom().contains(k), r is Some ==> *r->Some_0 == m@[k] { unimplemented!() }
pub open spec fn is_last(ps: Seq<&LabeledPolynomial>, i: int) -> bool { 0 <= i < ps.len() && forall|j: int| i < j < ps.len() ==> (#[trigger] ps[j]).label != ps[i].label }
pub open spec fn map_ok(m: Map<&String, &LabeledPolynomial>, ps: Seq<&LabeledPolynomial>) -> bool {
    forall|i: int| #[trigger] is_last(ps, i) ==> m.dom().contains(&ps[i].label) && m[&ps[i].label] == ps[i]
}
pub open spec fn q_ok(ps: Seq<&LabeledPolynomial>, q: (String, (String, Fr)), ev: Map<(String, Fr), Fr>) -> bool {
    forall|i: int| #[trigger] is_last(ps, i) && ps[i].label == q.0 ==> ev.dom().contains((q.0, q.1.1)) && ev[(q.0, q.1.1)]@ == ps[i].polynomial.ev(q.1.1@)
}
//@fn id=lib.evaluate_query_set file=poly-commit/src/lib.rs scope=top name=evaluate_query_set props=C16
pub fn evaluate_query_set<'a>(polys: Vec<&'a LabeledPolynomial>, query_set: &BTreeSet<(String, (String, Fr))>) -> (res: BTreeMap<(String, Fr), Fr>)
    ensures
        // every queried (label, point) gets the evaluation there of the polynomial carrying that label (the last one, if a label repeats)
        forall|q: (String, (String, Fr))| query_set@.contains(q) ==> #[trigger] q_ok(polys@, q, res@),   // name=lib.evaluate_query_set.value_is_the_labelled_polynomials_evaluation props=C16
        // every queried pair is reported (a query for a label without polynomial aborts)
        forall|q: (String, (String, Fr))| query_set@.contains(q) ==> res@.dom().contains((q.0, q.1.1)),   // name=lib.evaluate_query_set.every_queried_pair_is_reported props=C16,C06
        // nothing else is reported
        forall|k: (String, Fr)| res@.dom().contains(k) ==> exists|q: (String, (String, Fr))| query_set@.contains(q) && q.0 == k.0 && q.1.1 == k.1,   // name=lib.evaluate_query_set.only_queried_pairs props=C16
//@body
//@rw 1 /(?s)let polys = BTreeMap::from_iter\((.*?)\);/ => let pv__: Vec<(&String, &LabeledPolynomial)> = \1.collect();
    let polys: BTreeMap<&String, &LabeledPolynomial> = btree_from_pairs(pv__);
    proof {
        assert forall|i: int| #[trigger] is_last(polys0, i) implies polys@.dom().contains(&polys0[i].label) && polys@[&polys0[i].label] == polys0[i] by {
            assert(pv__@[i].0 == &polys0[i].label);
            assert forall|j: int| i < j < pv__@.len() implies pv__@[j].0 != pv__@[i].0 by { assert(*pv__@[j].0 == polys0[j].label); }
        }
    }
//@closure |p| => |p: &'a LabeledPolynomial| -> (kv: (&String, &LabeledPolynomial)) ensures *kv.0 == p.label, kv.1 == p
//@rw 1 /for \(label, \(_, point\)\) in([^{]*?)query_set([^{]*)\{/ => let qv__ = btree_set_to_vec(query_set); for q__ in\1qv__.iter()\2{ let label: &String = &q__.0; let point: &Fr = &q__.1.1;
//@rw 1 /polys\s*\.get\(label\)/ => btree_get_by_label(&polys, label)
//@rw 1 /\.expect\("[^"]*"\)/ => .unwrap_abort()
//@rw 1 /label\.clone\(\)/ => string_to_string(label)
//@rw 1 /point\.clone\(\)/ => fr_clone(point)
//@after start
    let ghost polys0 = polys@;
//@loop 1 kw=for name=it
        invariant it.index@ <= qv__@.len(), map_ok(polys@, polys0),
            forall|k: int| 0 <= k < it.index@ ==> q_ok(polys0, *(#[trigger] qv__@[k]), evaluations@),
            forall|k: int| 0 <= k < it.index@ ==> evaluations@.dom().contains(((#[trigger] qv__@[k]).0, qv__@[k].1.1)),
            forall|kk: (String, Fr)| evaluations@.dom().contains(kk) ==> exists|k: int| 0 <= k < it.index@ && (#[trigger] qv__@[k]).0 == kk.0 && qv__@[k].1.1 == kk.1,
//@loopstart 1
        let ghost ev0 = evaluations@;
        let ghost kx = it.index@;
//@loopend 1
        proof {
            let key = (q__.0, q__.1.1);
            assert(evaluations@ == ev0.insert(key, eval));
            assert forall|i: int| #[trigger] is_last(polys0, i) && polys0[i].label == q__.0 implies eval@ == polys0[i].polynomial.ev(q__.1.1@) by { assert(polys@[&polys0[i].label] == polys0[i]); }
            assert forall|k: int| 0 <= k < kx + 1 implies q_ok(polys0, *(#[trigger] qv__@[k]), evaluations@) by {
                if k < kx { assert(q_ok(polys0, *qv__@[k], ev0)); }
            }
            assert forall|kk: (String, Fr)| evaluations@.dom().contains(kk) implies exists|k: int| 0 <= k < kx + 1 && (#[trigger] qv__@[k]).0 == kk.0 && qv__@[k].1.1 == kk.1 by {
                if kk == key { assert(qv__@[kx].0 == kk.0); } else { assert(ev0.dom().contains(kk)); }
            }
        }
//@end
