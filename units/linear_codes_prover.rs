// LinearCodePCS prover side (linear_codes/mod.rs): create_merkle_tree, generate_proof, open, commit  (C13, C11, C08, C19)
//@use core ops_gen poly labeled labeled_comm sponge std ser real
//@spec ring vec_spec lc_utils_spec lincode_spec
//@typemap /Self::CommitterKey/ => Params
//@typemap /Self::Proof/ => Vec<LinCodePCProof>
//@typemap /Self::CommitmentState/ => LinCodePCCommitmentState
//@typemap /Self::Commitment/ => LinCodePCCommitment
//@typemap /Self::Error/ => Error
//@typemap /\bP::Point\b/ => Pt
//@typemap /::<F>\(/ => (
//@typemap /::<C>\(/ => (
//@typemap /Vec<F>/ => Vec<Fr>
//@typemap /&\[F\]/ => &[Fr]
//@typemap /Matrix<F>/ => Matrix
//@typemap /Path<C>/ => Path
//@typemap /MerkleTree::<C>::/ => MerkleTree::
//@typemap /MerkleTree<C>/ => MerkleTree
//@typemap /C::InnerDigest/ => Digest
//@typemap /Vec<C::Leaf>/ => Vec<Leaf>
//@typemap /<C::Leaf>::default\(\)/ => Leaf::default()
//@typemap /Vec<H::Output>/ => Vec<HOut>
//@typemap /\|_\|/ => |_e|
//@typemap /LinCodePCProofSingle<F, C>/ => LinCodePCProofSingle
//@typemap /LPCPArray::default\(\)/ => Vec::<LinCodePCProof>::new()
//@typemap /&<<C as Config>::LeafHash as CRHScheme>::Parameters/ => &HashParams
//@typemap /&<<C as Config>::TwoToOneHash as TwoToOneCRHScheme>::Parameters/ => &HashParams
//@enum file=poly-commit/src/error.rs name=Error derive=Debug
//@use lincode
//@struct file=poly-commit/src/utils.rs name=Matrix
//@struct file=poly-commit/src/linear_codes/data_structures.rs name=Metadata
//@struct file=poly-commit/src/linear_codes/data_structures.rs name=LinCodePCCommitment
//@struct file=poly-commit/src/linear_codes/data_structures.rs name=LinCodePCCommitmentState
//@struct file=poly-commit/src/linear_codes/data_structures.rs name=LinCodePCProofSingle
//@struct file=poly-commit/src/linear_codes/data_structures.rs name=LinCodePCProof
#[verifier::external_body] pub fn modulus_bit_size() -> (r: u32) ensures r == MBS(), 0 < r < 0x4000_0000 { unimplemented!() }
//@stub from=lc_utils.rs id=lc_utils.calculate_t
//@stub from=lc_utils.rs id=lc_utils.get_indices_from_sponge
pub open spec fn mat_wf(m: &Matrix) -> bool { m.entries@.len() == m.n && forall|r: int| 0 <= r < m.n ==> (#[trigger] m.entries@[r])@.len() == m.m }
impl Matrix {
//@stub from=matrix.rs id=utils.Matrix.cols
//@stub from=matrix.rs id=utils.Matrix.row_mul
}

// ---- trusted environment: ark-crypto-primitives MerkleTree (a deterministic function of hash parameters and leaves) ----
pub uninterp spec fn mt_root(lp: HashParams, tp: HashParams, leaves: Seq<Leaf>) -> Digest;
pub struct MerkleTree { pub lp: Ghost<HashParams>, pub tp: Ghost<HashParams>, pub leaves: Ghost<Seq<Leaf>>, pub rt: Digest }
impl MerkleTree {
    #[verifier::external_body]
    pub fn new(lp: &HashParams, tp: &HashParams, leaves: &mut Vec<Leaf>) -> (r: Result<MerkleTree, PathError>)
        ensures final(leaves)@ == old(leaves)@,
            r is Ok ==> r->Ok_0.lp@ == *lp && r->Ok_0.tp@ == *tp && r->Ok_0.leaves@ == old(leaves)@ && r->Ok_0.rt == mt_root(*lp, *tp, old(leaves)@) { unimplemented!() }
    #[verifier::external_body]
    pub fn root(&self) -> (r: Digest) ensures r == self.rt { unimplemented!() }
    // MerkleTree::generate_proof(i): the authentication path of leaf i; it verifies against the tree's root (correctness of the library's tree)
    #[verifier::external_body]
    pub fn generate_proof(&self, i: usize) -> (r: Result<Path, PathError>)
        ensures r is Ok ==> i < self.leaves@.len() && r->Ok_0.leaf_index == i && path_valid(r->Ok_0, self.rt, self.leaves@[i as int]) && r->Ok_0 == mt_path(self.lp@, self.tp@, self.leaves@, i as int) { unimplemented!() }
}
pub uninterp spec fn mt_path(lp: HashParams, tp: HashParams, leaves: Seq<Leaf>, i: int) -> Path;
pub uninterp spec fn leaf_default() -> Leaf;
impl Leaf { #[verifier::external_body] pub fn default() -> (r: Leaf) ensures r == leaf_default() { unimplemented!() } }
#[verifier::external_body] pub fn vec_resize_leaf(v: &mut Vec<Leaf>, new_len: usize, value: Leaf)
    ensures final(v)@.len() == new_len, forall|i: int| 0 <= i < new_len ==> (#[trigger] final(v)@[i]) == (if i < old(v)@.len() { old(v)@[i] } else { value }) { unimplemented!() }
#[verifier::external_body] pub fn clone_vec_hout(v: &Vec<HOut>) -> (r: Vec<HOut>) ensures r@ == v@ { unimplemented!() }
#[verifier::external_body] pub fn clone_vec_fr(v: &Vec<Fr>) -> (r: Vec<Fr>) ensures r@ == v@ { unimplemented!() }
// leaves padded with the default leaf to the next power of two
pub open spec fn padded(l: Seq<Leaf>) -> Seq<Leaf> { Seq::new(np2(l.len()), |i: int| if i < l.len() { l[i] } else { leaf_default() }) }

//@fn id=linear_codes.create_merkle_tree file=poly-commit/src/linear_codes/mod.rs scope=top name=create_merkle_tree props=C08
fn create_merkle_tree(leaves: &mut Vec<Leaf>, leaf_hash_param: &HashParams, two_to_one_hash_param: &HashParams) -> (res: Result<MerkleTree, Error>)
    ensures
        final(leaves)@ == padded(old(leaves)@),
        res is Ok ==> res->Ok_0.leaves@ == padded(old(leaves)@) && res->Ok_0.lp@ == *leaf_hash_param && res->Ok_0.tp@ == *two_to_one_hash_param
            && res->Ok_0.rt == mt_root(*leaf_hash_param, *two_to_one_hash_param, padded(old(leaves)@)),   // name=linear_codes.create_merkle_tree.tree_over_leaves_padded_to_power_of_two props=C08
//@body
//@after start
    proof { axiom_vec_len_bound(leaves); }
//@rw 1 /leaves\.resize\(/ => vec_resize_leaf(leaves,
//@before /MerkleTree::<C>::new\(/
    proof { assert(leaves@ =~= padded(old(leaves)@)); }
//@end

// ---- prover: one opening ----
pub open spec fn mat_col(m: &Matrix, c: int) -> Seq<FS> { Seq::new(m.n as nat, |rw: int| m.entries@[rw]@[c]@) }
pub open spec fn gp_index(s: SS, n: usize, j: nat) -> nat { let nb = get_num_bytes_spec(n); be_value(sp_sqb(idx_state(s, nb, j), nb), nb) % (n as nat) }
//@fn id=linear_codes.generate_proof file=poly-commit/src/linear_codes/mod.rs scope=top name=generate_proof props=C13,C11,C19,C01
fn generate_proof(sec_param: usize, distance: (usize, usize), b: &[Fr], mat: &Matrix, ext_mat: &Matrix, col_tree: &MerkleTree, sponge: &mut Sponge) -> (res: Result<LinCodePCProofSingle, Error>)
    requires
        mat_wf(mat), mat_wf(ext_mat), ext_mat.m > 0, sec_param <= 0x7fff_ffff,
    ensures
        res is Ok ==> res->Ok_0.v@.len() == mat.m
            && forall|c: int| 0 <= c < mat.m ==> (#[trigger] res->Ok_0.v@[c])@ == ip(fviews(b@), mat_col(mat, c)),   // name=linear_codes.generate_proof.v_is_b_times_matrix props=C01,C10
        res is Ok ==> res->Ok_0.columns@.len() == t_value(sec_param as int, distance, ext_mat.m as int)
            && res->Ok_0.paths@.len() == t_value(sec_param as int, distance, ext_mat.m as int),   // name=linear_codes.generate_proof.exactly_t_columns_and_paths props=C13,C19
        res is Ok ==> forall|j: int| 0 <= j < t_value(sec_param as int, distance, ext_mat.m as int) ==> {
            let q = gp_index(sp_absorb(old(sponge).st@, AbsData::Field(fviews(res->Ok_0.v@))), ext_mat.m, j as nat);
            q < ext_mat.m && fviews((#[trigger] res->Ok_0.columns@[j])@) == mat_col(ext_mat, q as int)
              && res->Ok_0.paths@[j].leaf_index == q && q < col_tree.leaves@.len()
              && path_valid(res->Ok_0.paths@[j], col_tree.rt, col_tree.leaves@[q as int]) },   // name=linear_codes.generate_proof.opens_the_transcript_derived_columns props=C13,C01,C11
        res is Ok ==> final(sponge).st@ == idx_state(sp_absorb(old(sponge).st@, AbsData::Field(fviews(res->Ok_0.v@))), get_num_bytes_spec(ext_mat.m), t_value(sec_param as int, distance, ext_mat.m as int) as nat),   // name=linear_codes.generate_proof.transcript_schedule props=C11
//@body
//@rw * /ext_mat_cols\[i\]\.clone\(\)/ => clone_vec_fr(&ext_mat_cols[i])
//@rw 1 /for i in indices \{/ => for i__r in indices.iter() { let i: usize = *i__r;
//@rw 1 /let mut queried_columns = Vec::with_capacity\(t\);/ => let mut queried_columns: Vec<Vec<Fr>> = Vec::with_capacity(t);
//@rw 1 /let mut paths = Vec::with_capacity\(t\);/ => let mut paths: Vec<Path> = Vec::with_capacity(t);
//@before /for i in indices \{/
    let ghost s1 = sponge.st@;
    let ghost idx = indices@;
//@loop 1 kw=for name=it
        invariant
            it.index@ <= t, idx.len() == t, indices@ == idx, mat_wf(ext_mat),
            ext_mat_cols@.len() == ext_mat.m,
            forall|c: int| 0 <= c < ext_mat.m ==> (#[trigger] ext_mat_cols@[c])@.len() == ext_mat.n,
            forall|c: int, rw: int| 0 <= c < ext_mat.m && 0 <= rw < ext_mat.n ==> #[trigger] ext_mat_cols@[c]@[rw] == ext_mat.entries@[rw]@[c],
            forall|j: int| 0 <= j < t ==> (#[trigger] idx[j]) < ext_mat.m,
            queried_columns@.len() == it.index@, paths@.len() == it.index@,
            forall|j: int| 0 <= j < it.index@ ==> fviews((#[trigger] queried_columns@[j])@) == mat_col(ext_mat, idx[j] as int)
                && paths@[j].leaf_index == idx[j] && idx[j] < col_tree.leaves@.len() && path_valid(paths@[j], col_tree.rt, col_tree.leaves@[idx[j] as int]),
//@after /queried_columns\.push\(.*;/
        proof { assert(fviews(queried_columns@[queried_columns@.len() - 1]@) =~= mat_col(ext_mat, i as int)); }
//@end

// the commitment state belongs to the commitment: shapes agree (what commit() produces)
pub open spec fn state_matches(com: &LinCodePCCommitment, st: &LinCodePCCommitmentState) -> bool {
    mat_wf(&st.mat) && mat_wf(&st.ext_mat) && st.mat.n == com.metadata.n_rows && st.mat.m == com.metadata.n_cols
    && st.ext_mat.m == com.metadata.n_ext_cols && st.ext_mat.m > 0
}
// what the prover puts into the i-th proof, given the transcript state s at its start
#[verifier::opaque]
pub open spec fn lc_honest_one(s: SS, ck: &Params, com: &LinCodePCCommitment, st: &LinCodePCCommitmentState, pr: &LinCodePCProof, z: &Pt) -> bool {
    let t = lc_t(ck, com); let pv = point_vec_spec(*z);
    let b = tensor_b(z, com.metadata.n_cols as nat, com.metadata.n_rows as nat);
    (pr.well_formedness is Some) == ck.wf
    && (ck.wf ==> pr.well_formedness->Some_0@.len() == st.mat.m && forall|c: int| 0 <= c < st.mat.m ==>
            (#[trigger] pr.well_formedness->Some_0@[c])@ == ip(sqn_seq(lc_pre_wf(s, com), com.metadata.n_rows as nat), mat_col(&st.mat, c)))
    && pr.opening.v@.len() == st.mat.m
    && (forall|c: int| 0 <= c < st.mat.m ==> (#[trigger] pr.opening.v@[c])@ == ip(b, mat_col(&st.mat, c)))
    && pr.opening.columns@.len() == t && pr.opening.paths@.len() == t
    && (forall|j: int| 0 <= j < t ==> (#[trigger] lc_index(s, ck, com, pr, pv, j as nat)) < st.ext_mat.m
            && fviews(pr.opening.columns@[j]@) == mat_col(&st.ext_mat, lc_index(s, ck, com, pr, pv, j as nat) as int)
            && pr.opening.paths@[j].leaf_index == lc_index(s, ck, com, pr, pv, j as nat))
}

// ---- committer ----
pub uninterp spec fn compute_matrices_spec(p: &Poly, ck: &Params) -> (Matrix, Matrix);
impl L {
    // LinearEncode::compute_matrices (verified in ligero_dims.rs / matrix.rs): a deterministic function of polynomial and key; both matrices rectangular
    #[verifier::external_body] pub fn compute_matrices(polynomial: &Poly, param: &Params) -> (r: (Matrix, Matrix))
        ensures r == compute_matrices_spec(polynomial, param), mat_wf(&r.0), mat_wf(&r.1) { unimplemented!() }
}
pub open spec fn col_leaves(ext: &Matrix) -> Seq<Leaf> { Seq::new(ext.m as nat, |c: int| col_hash(mat_col(ext, c))) }
// commitment i is (shape metadata, Merkle root over the hashed columns of the encoded matrix, padded to a power of two); the state keeps both matrices
pub open spec fn commit_one_ok(ck: &Params, p: &LabeledPolynomial, c: &LabeledCommitment<LinCodePCCommitment>, st: &LinCodePCCommitmentState) -> bool {
    let mm = compute_matrices_spec(&p.polynomial, ck);
    st.mat == mm.0 && st.ext_mat == mm.1
    && c.label == p.label && c.degree_bound is None
    && c.commitment.metadata.n_rows == mm.0.n && c.commitment.metadata.n_cols == mm.0.m && c.commitment.metadata.n_ext_cols == mm.1.m
    && st.leaves@.len() == mm.1.m && (forall|k: int| 0 <= k < mm.1.m ==> hout_leaf(#[trigger] st.leaves@[k]) == col_hash(mat_col(&mm.1, k)))
    && c.commitment.root == mt_root(ck.lp, ck.tp, padded(col_leaves(&mm.1)))
}

pub proof fn lemma_lc_state_prefix(s: SS, vk: &Params, coms: Seq<&LabeledCommitment<LinCodePCCommitment>>, p1: Seq<LinCodePCProof>, p2: Seq<LinCodePCProof>, pv: Seq<FS>, k: nat)
    requires k <= p1.len(), k <= p2.len(), forall|i: int| 0 <= i < k ==> p1[i] == p2[i]
    ensures lc_state(s, vk, coms, p1, pv, k) == lc_state(s, vk, coms, p2, pv, k)
    decreases k
{ if k > 0 { lemma_lc_state_prefix(s, vk, coms, p1, p2, pv, (k - 1) as nat); } }

pub struct LinearCodePCS;
impl LinearCodePCS {
//@fn id=linear_codes.open file=poly-commit/src/linear_codes/mod.rs scope="impl<L, F, P, C, H> PolynomialCommitment<F, P> for LinearCodePCS<L, F, P, C, H>" name=open props=C11,C13,C19,C01
    fn open<'a>(ck: &Params, _labeled_polynomials: Vec<&'a LabeledPolynomial>, commitments: Vec<&'a LabeledCommitment<LinCodePCCommitment>>, point: &'a Pt, sponge: &mut Sponge, states: Vec<&'a LinCodePCCommitmentState>, _rng: Option<&mut Rng>) -> (res: Result<Vec<LinCodePCProof>, Error>)
    requires
        ck.sec <= 0x7fff_ffff,
        forall|i: int| 0 <= i < min(commitments@.len(), states@.len()) ==> state_matches(&(#[trigger] commitments@[i]).commitment, states@[i]),
    ensures
        res is Ok ==> res->Ok_0@.len() == min(commitments@.len(), states@.len()),   // name=linear_codes.open.one_proof_per_commitment props=C19,C01
        res is Ok ==> final(sponge).st@ == lc_state(old(sponge).st@, ck, commitments@, res->Ok_0@, point_vec_spec(*point), min(commitments@.len(), states@.len())),   // name=linear_codes.open.transcript_schedule_is_the_verifiers props=C11
        res is Ok ==> forall|i: int| 0 <= i < min(commitments@.len(), states@.len()) ==>
            lc_honest_one(lc_state(old(sponge).st@, ck, commitments@, res->Ok_0@, point_vec_spec(*point), i as nat), ck, &(#[trigger] commitments@[i]).commitment, states@[i], &res->Ok_0@[i], point),   // name=linear_codes.open.proof_contents props=C13,C01,C19
//@body
//@rw 1 /col_hashes\.clone\(\)/ => clone_vec_hout(col_hashes)
//@closure |h| => |h: HOut| -> (l: Leaf) ensures l == hout_leaf(h)
//@before /for \(labeled_commitment, state\) in/
        let ghost coms = commitments@;
        let ghost sts = states@;
        let ghost s0 = sponge.st@;
        let ghost pv = point_vec_spec(*point);
        let ghost n = min(coms.len(), sts.len());
//@loop 1 kw=for name=it
            invariant it.index@ <= n, n == min(coms.len(), sts.len()), coms == commitments@, sts == states@, ck.sec <= 0x7fff_ffff, pv == point_vec_spec(*point),
                forall|i: int| 0 <= i < n ==> state_matches(&(#[trigger] coms[i]).commitment, sts[i]),
                proof_array@.len() == it.index@,
                sponge.st@ == lc_state(s0, ck, coms, proof_array@, pv, it.index@ as nat),
                forall|k: int| 0 <= k < it.index@ ==> lc_honest_one(lc_state(s0, ck, coms, proof_array@, pv, k as nat), ck, &(#[trigger] coms[k]).commitment, sts[k], &proof_array@[k], point),
//@loopstart 1
            let ghost i = proof_array@.len() as int;
            let ghost pa0 = proof_array@;
            let ghost s_i = sponge.st@;
            proof { assert(labeled_commitment == coms[i]); assert(state == sts[i]); assert(state_matches(&coms[i].commitment, sts[i])); }
//@after /let v = mat\.row_mul\(&r\);/
                proof {
                    assert(fviews(r@) =~= sqn_seq(lc_pre_wf(s_i, commitment), n_rows as nat));
                    assert forall|c: int| 0 <= c < mat.m implies (#[trigger] v@[c])@ == ip(sqn_seq(lc_pre_wf(s_i, commitment), n_rows as nat), mat_col(mat, c)) by {}
                }
//@before /proof_array\.push\(/
            let ghost s_gp = sponge.st@;
//@after /proof_array\.push\(/
            proof {
                let pr = proof_array@[i];
                assert(proof_array@ =~= pa0.push(pr));
                assert forall|k: nat| k <= i implies #[trigger] lc_state(s0, ck, coms, proof_array@, pv, k) == lc_state(s0, ck, coms, pa0, pv, k) by {
                    lemma_lc_state_prefix(s0, ck, coms, proof_array@, pa0, pv, k);
                }
                reveal(lc_pre_indices); reveal(lc_index); reveal(lc_post); reveal(lc_honest_one);
                assert(t_value(ck.sec as int, ck.dist, ext_mat.m as int) == lc_t(ck, commitment));
                assert(fviews(point_vec@) == pv);
                assert(s_gp == sp_absorb(if ck.wf { sp_absorb(sp_sqn_next(lc_pre_wf(s_i, commitment), n_rows as nat), AbsData::Field(fviews(pr.well_formedness->Some_0@))) } else { lc_pre_wf(s_i, commitment) }, AbsData::Field(pv)));
                assert(sponge.st@ == lc_post(s_i, ck, commitment, &pr, pv));
                assert(fviews(b@) == tensor_b(point, n_cols as nat, n_rows as nat));
                let t = lc_t(ck, commitment);
                let bb = tensor_b(point, commitment.metadata.n_cols as nat, commitment.metadata.n_rows as nat);
                assert((pr.well_formedness is Some) == ck.wf);
                assert(ck.wf ==> pr.well_formedness->Some_0@.len() == state.mat.m && forall|c: int| 0 <= c < state.mat.m ==>
                    (#[trigger] pr.well_formedness->Some_0@[c])@ == ip(sqn_seq(lc_pre_wf(s_i, commitment), commitment.metadata.n_rows as nat), mat_col(&state.mat, c)));
                assert(pr.opening.v@.len() == state.mat.m);
                assert(forall|c: int| 0 <= c < state.mat.m ==> (#[trigger] pr.opening.v@[c])@ == ip(bb, mat_col(&state.mat, c)));
                assert(pr.opening.columns@.len() == t && pr.opening.paths@.len() == t);
                assert(forall|j: int| 0 <= j < t ==> (#[trigger] lc_index(s_i, ck, commitment, &pr, pv, j as nat)) < state.ext_mat.m
                    && fviews(pr.opening.columns@[j]@) == mat_col(&state.ext_mat, lc_index(s_i, ck, commitment, &pr, pv, j as nat) as int)
                    && pr.opening.paths@[j].leaf_index == lc_index(s_i, ck, commitment, &pr, pv, j as nat));
                assert(lc_honest_one(s_i, ck, commitment, state, &pr, point));
                assert(lc_state(s0, ck, coms, proof_array@, pv, (i + 1) as nat) == lc_post(lc_state(s0, ck, coms, proof_array@, pv, i as nat), ck, &coms[i].commitment, &proof_array@[i], pv));
            }
//@end

//@fn id=linear_codes.commit file=poly-commit/src/linear_codes/mod.rs scope="impl<L, F, P, C, H> PolynomialCommitment<F, P> for LinearCodePCS<L, F, P, C, H>" name=commit props=C08,C19,C01
    fn commit<'a>(ck: &Params, polynomials: Vec<&'a LabeledPolynomial>, _rng: Option<&mut Rng>) -> (res: Result<(Vec<LabeledCommitment<LinCodePCCommitment>>, Vec<LinCodePCCommitmentState>), Error>)
    ensures
        res is Ok ==> res->Ok_0.0@.len() == polynomials@.len() && res->Ok_0.1@.len() == polynomials@.len(),   // name=linear_codes.commit.one_commitment_and_state_per_polynomial props=C19,C01
        res is Ok ==> forall|i: int| 0 <= i < polynomials@.len() ==>
            commit_one_ok(ck, (#[trigger] polynomials@[i]), &res->Ok_0.0@[i], &res->Ok_0.1@[i]),   // name=linear_codes.commit.root_is_merkle_root_of_column_hashes_of_encoded_matrix props=C08,C19
//@body
//@rw 1 /state\.leaves\.clone\(\)/ => clone_vec_hout(&state.leaves)
//@rw 1 /labeled_polynomial\.label\(\)\.clone\(\)/ => string_to_string(labeled_polynomial.label())
//@rw * /(\.map_err\(\|_\| Error::HashingError\)\s*)\.unwrap\(\)/ => \1.unwrap_abort()
//@rw 1 /let mut commitments = Vec::new\(\);/ => let mut commitments: Vec<LabeledCommitment<LinCodePCCommitment>> = Vec::new();
//@rw 1 /let mut states = Vec::new\(\);/ => let mut states: Vec<LinCodePCCommitmentState> = Vec::new();
//@closure |col| => |col: Vec<Fr>| -> (h: HOut) ensures hout_leaf(h) == col_hash(fviews(col@))
//@closure |h| => |h: HOut| -> (l: Leaf) ensures l == hout_leaf(h)
//@loop 1 kw=for name=it
            invariant it.index@ <= polynomials@.len(), commitments@.len() == it.index@, states@.len() == it.index@,
                forall|k: int| 0 <= k < it.index@ ==> commit_one_ok(ck, (#[trigger] polynomials@[k]), &commitments@[k], &states@[k]),
//@before /let state = Self::CommitmentState \{/
            proof {
                assert forall|c: int| 0 <= c < ext_mat.m implies hout_leaf(#[trigger] leaves@[c]) == col_hash(mat_col(&ext_mat, c)) by {
                    assert(fviews(ext_mat_cols@[c]@) =~= mat_col(&ext_mat, c));
                }
            }
//@before /let col_tree = create_merkle_tree/
            let ghost lv0 = leaves@;
            proof {
                assert(lv0 =~= col_leaves(&state.ext_mat)) by {
                    assert forall|c: int| 0 <= c < state.ext_mat.m implies lv0[c] == col_hash(mat_col(&state.ext_mat, c)) by {
                        assert(fviews(ext_mat_cols@[c]@) =~= mat_col(&state.ext_mat, c));
                    }
                }
            }
//@after /states\.push\(state\);/
            proof {
                let k = commitments@.len() - 1;
                let c = &commitments@[k]; let st = &states@[k]; let p = polynomials@[k];
                let mm = compute_matrices_spec(&p.polynomial, ck);
                assert(labeled_polynomial == p);
                assert(st.mat == mm.0 && st.ext_mat == mm.1);
                assert(c.label == p.label && c.degree_bound is None);
                assert(c.commitment.metadata.n_rows == mm.0.n && c.commitment.metadata.n_cols == mm.0.m && c.commitment.metadata.n_ext_cols == mm.1.m);
                assert(st.leaves@.len() == mm.1.m);
                assert(forall|k: int| 0 <= k < mm.1.m ==> hout_leaf(#[trigger] st.leaves@[k]) == col_hash(mat_col(&mm.1, k)));
                assert(c.commitment.root == mt_root(ck.lp, ck.tp, padded(col_leaves(&mm.1))));
                assert(commit_one_ok(ck, polynomials@[k], &commitments@[k], &states@[k]));
            }
//@end
}
// ---------------- completeness of the linear-code schemes for ONE polynomial, relative to stated hypotheses on the (external) encoder and tensor maps ----------------
pub open spec fn vec_mat(r: Seq<FS>, m: &Matrix) -> Seq<FS> { Seq::new(m.m as nat, |c: int| ip(r, mat_col(m, c))) }
// HYPOTHESIS on the encoder (uninterpreted `encode_spec`, = LinearEncode::encode, external / not under contract): it has the declared output length and is linear,
// and the extended matrix holds the encodings of the rows of the coefficient matrix - in one clause: the encoding of a combination r of the rows, at position q,
// is the same combination of column q of the extended matrix
pub open spec fn enc_linear(vk: &Params, mat: &Matrix, ext: &Matrix) -> bool {
    forall|r: Seq<FS>| r.len() == mat.n ==> (#[trigger] encode_spec(vec_mat(r, mat), vk)).len() == ext.m
        && forall|q: int| 0 <= q < ext.m ==> encode_spec(vec_mat(r, mat), vk)[q] == ip(r, mat_col(ext, q))
}
//@lemma props=C01
// what `open` puts into the i-th proof (lc_honest_one: its postcondition) for a state that belongs to the commitment, with a linear encoder, satisfies everything `check`
// establishes before accepting (lc_accepts_one: the conclusion of its postcondition) - for the claimed value <v, a> (the tensor identity p(z) = b M a is NOT under contract)
pub proof fn lemma_lincode_complete_one(s: SS, vk: &Params, com: &LinCodePCCommitment, st: &LinCodePCCommitmentState, pr: &LinCodePCProof, z: &Pt)
    requires
        state_matches(com, st), lc_honest_one(s, vk, com, st, pr, z), enc_linear(vk, &st.mat, &st.ext_mat), lc_t(vk, com) >= 0,
        tensor_b(z, com.metadata.n_cols as nat, com.metadata.n_rows as nat).len() == st.mat.n,
    ensures
        lc_accepts_one(s, vk, com, ip(fviews(pr.opening.v@), tensor_a(z, com.metadata.n_cols as nat, com.metadata.n_rows as nat)), pr, z)
{
    reveal(lc_honest_one); reveal(lc_accepts_one);
    let t = lc_t(vk, com); let pv = point_vec_spec(*z);
    let b = tensor_b(z, com.metadata.n_cols as nat, com.metadata.n_rows as nat);
    let v = fviews(pr.opening.v@);
    assert(v =~= vec_mat(b, &st.mat));
    let w = encode_spec(v, vk);
    assert(w.len() == st.ext_mat.m);
    assert forall|j: int| 0 <= j < t implies (#[trigger] lc_index(s, vk, com, pr, pv, j as nat)) < w.len()
        && ip(b, fviews(pr.opening.columns@[j]@)) == w[lc_index(s, vk, com, pr, pv, j as nat) as int] by {
        let q = lc_index(s, vk, com, pr, pv, j as nat) as int;
        assert(fviews(pr.opening.columns@[j]@) == mat_col(&st.ext_mat, q));
    }
    if vk.wf {
        let r = sqn_seq(lc_pre_wf(s, com), com.metadata.n_rows as nat);
        let wfv = fviews(pr.well_formedness->Some_0@);
        assert(wfv =~= vec_mat(r, &st.mat));
        assert forall|j: int| 0 <= j < t implies ip(r, fviews(pr.opening.columns@[j]@)) == encode_spec(wfv, vk)[(#[trigger] lc_index(s, vk, com, pr, pv, j as nat)) as int] by {
            let q = lc_index(s, vk, com, pr, pv, j as nat) as int;
            assert(fviews(pr.opening.columns@[j]@) == mat_col(&st.ext_mat, q));
        }
    }
}
