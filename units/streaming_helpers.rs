// streaming_kzg/mod.rs: vanishing_polynomial and linear_combination - the two iterator-style helpers that the multi-point prover and verifier units take by contract  (C14, C05)
//@use core ops_gen poly std
//@spec ring
//@typemap /<F: Field>/ =>
//@typemap /<F: Field, PP>/ =>
//@typemap /DensePolynomial<F>/ => Poly
//@typemap /&\[F\]/ => &[Fr]
//@typemap /\bF::/ => Fr::
// ---- trusted environment: ark-poly arithmetic and the std fold rule ----
impl Poly {
    // from_coefficients_vec(vec![a]) / (vec![a, b]) with b != 0: no trimming happens
    #[verifier::external_body] pub fn from_coeffs1(a: Fr) -> (r: Poly) ensures forall|x: FS| #[trigger] r.ev(x) == a@, r.wf(), a@ != f_zero() ==> (r.coeffs@.len() == 1 && r.coeffs@[0] == a) { unimplemented!() }
    #[verifier::external_body] pub fn from_coeffs2(a: Fr, b: Fr) -> (r: Poly) ensures forall|x: FS| #[trigger] r.ev(x) == f_add(a@, f_mul(b@, x)), r.wf(), b@ != f_zero() ==> (r.coeffs@.len() == 2 && r.coeffs@[1] == b) { unimplemented!() }
    // DensePolynomial::naive_mul: the product; for non-zero factors the degrees add and the leading coefficients multiply
    #[verifier::external_body] pub fn naive_mul(&self, o: &Poly) -> (r: Poly)
        ensures forall|x: FS| #[trigger] r.ev(x) == f_mul(self.ev(x), o.ev(x)), r.wf(),
            (self.coeffs@.len() > 0 && o.coeffs@.len() > 0 && self.wf() && o.wf()) ==> (r.coeffs@.len() == self.coeffs@.len() + o.coeffs@.len() - 1
                && r.coeffs@[r.coeffs@.len() - 1]@ == f_mul(self.coeffs@[self.coeffs@.len() - 1]@, o.coeffs@[o.coeffs@.len() - 1]@)) { unimplemented!() }
}
// `s.iter().map(f).fold(init, g)`: the left fold of g over the mapped items, by its induction rule (inv is any predicate the caller can show to be inductive)
#[verifier::external_body]
pub fn slice_map_fold<F1: Fn(&Fr) -> Poly, F2: Fn(Poly, Poly) -> Poly>(s: &[Fr], f: F1, init: Poly, g: F2, Ghost(inv): Ghost<spec_fn(int, Poly) -> bool>) -> (r: Poly)
    requires inv(0, init),
        forall|k: int| 0 <= k < s@.len() ==> f.requires((&#[trigger] s@[k],)),
        forall|k: int, acc: Poly, item: Poly| 0 <= k < s@.len() && inv(k, acc) && #[trigger] f.ensures((&s@[k],), item) ==> #[trigger] g.requires((acc, item)),
        forall|k: int, acc: Poly, item: Poly, out: Poly| 0 <= k < s@.len() && inv(k, acc) && #[trigger] f.ensures((&s@[k],), item) && #[trigger] g.ensures((acc, item), out) ==> inv(k + 1, out),
    ensures inv(s@.len() as int, r)
{ unimplemented!() }
// ======================= specification =======================
// prod_{t < k} (x - pts[t])
pub open spec fn vprod(pts: Seq<Fr>, k: nat, x: FS) -> FS decreases k { if k == 0 { f_one() } else { f_mul(vprod(pts, (k - 1) as nat, x), f_sub(x, pts[k - 1]@)) } }
pub open spec fn vp_inv(pts: Seq<Fr>, k: int, acc: Poly) -> bool {
    acc.wf() && acc.coeffs@.len() == k + 1 && acc.coeffs@[k]@ == f_one() && forall|x: FS| #[trigger] acc.ev(x) == vprod(pts, k as nat, x)
}
pub proof fn lemma_vp_step(pts: Seq<Fr>, k: int, acc: Poly, item: Poly, out: Poly)
    requires 0 <= k < pts.len(), vp_inv(pts, k, acc), item.wf(), item.coeffs@.len() == 2, item.coeffs@[1]@ == f_one(), forall|x: FS| #[trigger] item.ev(x) == f_add(f_neg(pts[k]@), f_mul(f_one(), x)),
        out.wf(), forall|x: FS| #[trigger] out.ev(x) == f_mul(acc.ev(x), item.ev(x)),
        out.coeffs@.len() == acc.coeffs@.len() + item.coeffs@.len() - 1, out.coeffs@[out.coeffs@.len() - 1]@ == f_mul(acc.coeffs@[acc.coeffs@.len() - 1]@, item.coeffs@[item.coeffs@.len() - 1]@)
    ensures vp_inv(pts, k + 1, out)
{
    ax_mul_one(f_one());
    assert forall|x: FS| #[trigger] out.ev(x) == vprod(pts, (k + 1) as nat, x) by {
        ax_mul_comm(f_one(), x); ax_mul_one(x); ax_add_comm(f_neg(pts[k]@), x);
        assert(item.ev(x) == f_sub(x, pts[k]@));
        assert(acc.ev(x) == vprod(pts, k as nat, x));
    }
}
//@fn id=streaming.vanishing_polynomial file=poly-commit/src/streaming_kzg/mod.rs scope=top name=vanishing_polynomial props=C14,C05
pub fn vanishing_polynomial(points: &[Fr]) -> (r: Poly)
    ensures
        forall|x: FS| #[trigger] r.ev(x) == vprod(points@, points@.len(), x),   // name=streaming.vanishing_polynomial.product_of_x_minus_point props=C14,C05
        r.wf() && r.coeffs@.len() == points@.len() + 1 && r.coeffs@[points@.len() as int]@ == f_one(),   // name=streaming.vanishing_polynomial.monic_of_degree_n props=C14
//@body
//@rw 1 /DensePolynomial::from_coefficients_vec\(vec!\[([^\],]*)\]\)/ => Poly::from_coeffs1(\1)
//@rw 1 /(?s)points\s*\.iter\(\)\s*\.map\(\|&point\| DensePolynomial::from_coefficients_vec\(vec!\[(.*?), F::one\(\)\]\)\)\s*\.fold\(one, \|x, y\| (.*?)\)\s*\}\s*$/ => { let f__ = |p__: &Fr| -> (it: Poly) ensures it.wf(), it.coeffs@.len() == 2, it.coeffs@[1]@ == f_one(), forall|x: FS| #[trigger] it.ev(x) == f_add(f_neg(p__@), f_mul(f_one(), x)) { let point = *p__; proof { ax_one_ne_zero(); } Poly::from_coeffs2(\1, Fr::one()) }; let g__ = |x: Poly, y: Poly| -> (o: Poly) ensures o.wf(), forall|t: FS| #[trigger] o.ev(t) == f_mul(x.ev(t), y.ev(t)), (x.coeffs@.len() > 0 && y.coeffs@.len() > 0 && x.wf() && y.wf()) ==> (o.coeffs@.len() == x.coeffs@.len() + y.coeffs@.len() - 1 && o.coeffs@[o.coeffs@.len() - 1]@ == f_mul(x.coeffs@[x.coeffs@.len() - 1]@, y.coeffs@[y.coeffs@.len() - 1]@)) { \2 }; proof { assert forall|k: int, acc: Poly, item: Poly, out: Poly| 0 <= k < points@.len() && vp_inv(points@, k, acc) && #[trigger] f__.ensures((&points@[k],), item) && #[trigger] g__.ensures((acc, item), out) implies vp_inv(points@, k + 1, out) by { lemma_vp_step(points@, k, acc, item, out); } } slice_map_fold(points, f__, one, g__, Ghost(|k: int, acc: Poly| vp_inv(points@, k, acc))) } }
//@after /let one =/
    proof { ax_one_ne_zero(); assert(vp_inv(points@, 0, one)); }
//@end
// ---- linear_combination: coefficient-wise sum_i c_i p_i over the shorter of the two lists; None if that is empty ----
pub open spec fn cf(p: Seq<Fr>, t: int) -> FS { if 0 <= t < p.len() { p[t]@ } else { f_zero() } }
pub open spec fn lc_cf(ps: Seq<Vec<Fr>>, cs: Seq<Fr>, k: nat, t: int) -> FS decreases k { if k == 0 { f_zero() } else { f_add(lc_cf(ps, cs, (k - 1) as nat, t), f_mul(cf(ps[k - 1]@, t), cs[k - 1]@)) } }
impl Poly {
    // &p * c  (Mul<F> for &DensePolynomial) and  x + y  (Add): coefficient-wise (trailing zeros trimmed: coefficients beyond the length count as zero)   [assumed]
    #[verifier::external_body] pub fn mul_scalar(&self, c: Fr) -> (r: Poly) ensures forall|t: int| #[trigger] cf(r.coeffs@, t) == f_mul(cf(self.coeffs@, t), c@) { unimplemented!() }
    #[verifier::external_body] pub fn add_poly(self, o: Poly) -> (r: Poly) ensures forall|t: int| #[trigger] cf(r.coeffs@, t) == f_add(cf(self.coeffs@, t), cf(o.coeffs@, t)) { unimplemented!() }
}
#[verifier::external_body] pub fn vec_fr_to_vec(v: &Vec<Fr>) -> (r: Vec<Fr>) ensures r@ == v@ { unimplemented!() }     // p.borrow().to_vec()
// `a.iter().zip(b.iter()).map(f).reduce(g)`: None on an empty zip, else the left fold of g starting from the first mapped item (induction rule)
#[verifier::external_body]
pub fn zip_map_reduce<F1: Fn((&Vec<Fr>, &Fr)) -> Poly, F2: Fn(Poly, Poly) -> Poly>(a: &[Vec<Fr>], b: &[Fr], f: F1, g: F2, Ghost(inv): Ghost<spec_fn(int, Poly) -> bool>) -> (r: Option<Poly>)
    requires
        forall|k: int| 0 <= k < min(a@.len(), b@.len()) ==> f.requires(((&#[trigger] a@[k], &b@[k]),)),
        forall|item: Poly| min(a@.len(), b@.len()) > 0 && #[trigger] f.ensures(((&a@[0], &b@[0]),), item) ==> inv(1, item),
        forall|k: int, acc: Poly, item: Poly| 1 <= k < min(a@.len(), b@.len()) && inv(k, acc) && #[trigger] f.ensures(((&a@[k], &b@[k]),), item) ==> #[trigger] g.requires((acc, item)),
        forall|k: int, acc: Poly, item: Poly, out: Poly| 1 <= k < min(a@.len(), b@.len()) && inv(k, acc) && #[trigger] f.ensures(((&a@[k], &b@[k]),), item) && #[trigger] g.ensures((acc, item), out) ==> inv(k + 1, out),
    ensures (r is Some) == (min(a@.len(), b@.len()) > 0), r is Some ==> inv(min(a@.len(), b@.len()) as int, r->Some_0)
{ unimplemented!() }
pub open spec fn lc_inv(ps: Seq<Vec<Fr>>, cs: Seq<Fr>, k: int, acc: Poly) -> bool { forall|t: int| #[trigger] cf(acc.coeffs@, t) == lc_cf(ps, cs, k as nat, t) }
//@fn id=streaming.linear_combination file=poly-commit/src/streaming_kzg/mod.rs scope=top name=linear_combination props=C14,C05
pub fn linear_combination(polynomials: &[Vec<Fr>], challenges: &[Fr]) -> (r: Option<Vec<Fr>>)
    ensures
        (r is Some) == (min(polynomials@.len(), challenges@.len()) > 0),   // name=streaming.linear_combination.none_iff_nothing_to_combine props=C14
        r is Some ==> forall|t: int| #[trigger] cf(r->Some_0@, t) == lc_cf(polynomials@, challenges@, min(polynomials@.len(), challenges@.len()), t),   // name=streaming.linear_combination.coefficientwise_challenge_weighted_sum props=C14,C05
//@body
//@rw * /&DensePolynomial::from_coefficients_vec\(p\.borrow\(\)\.to_vec\(\)\) \* (.*?)\)(\s*\.reduce)/ => Poly::from_coefficients_vec(vec_fr_to_vec(p)).mul_scalar(\1))\2
//@rw * /\|x, y\| x \+ y/ => |x, y| x.add_poly(y)
//@rw 1 /(?s)polynomials\s*\.iter\(\)\s*\.zip\(challenges\.iter\(\)\)\s*\.map\(\|\(p, &c\)\| (.*?)\)\s*\.reduce\(\|x, y\| (.*?)\)\?\s*\.coeffs\s*\.into\(\)\s*\}\s*$/ => { let f__ = |pc__: (&Vec<Fr>, &Fr)| -> (it: Poly) ensures forall|t: int| #[trigger] cf(it.coeffs@, t) == f_mul(cf(pc__.0@, t), pc__.1@) { let (p, c__r) = pc__; let c = *c__r; \1 }; let g__ = |x: Poly, y: Poly| -> (o: Poly) ensures forall|t: int| #[trigger] cf(o.coeffs@, t) == f_add(cf(x.coeffs@, t), cf(y.coeffs@, t)) { \2 }; proof { let ps = polynomials@; let cs = challenges@; assert forall|item: Poly| min(ps.len(), cs.len()) > 0 && #[trigger] f__.ensures(((&ps[0], &cs[0]),), item) implies lc_inv(ps, cs, 1, item) by { assert forall|t: int| #[trigger] cf(item.coeffs@, t) == lc_cf(ps, cs, 1, t) by { let y = f_mul(cf(ps[0]@, t), cs[0]@); assert(lc_cf(ps, cs, 0, t) == f_zero()); ax_add_comm(f_zero(), y); ax_add_zero(y); } } assert forall|k: int, acc: Poly, item: Poly, out: Poly| 1 <= k < min(ps.len(), cs.len()) && lc_inv(ps, cs, k, acc) && #[trigger] f__.ensures(((&ps[k], &cs[k]),), item) && #[trigger] g__.ensures((acc, item), out) implies lc_inv(ps, cs, k + 1, out) by { assert forall|t: int| #[trigger] cf(out.coeffs@, t) == lc_cf(ps, cs, (k + 1) as nat, t) by { assert(cf(acc.coeffs@, t) == lc_cf(ps, cs, k as nat, t)); } } } let red__ = zip_map_reduce(polynomials, challenges, f__, g__, Ghost(|k: int, acc: Poly| lc_inv(polynomials@, challenges@, k, acc))); let pr__ = red__?; Some(pr__.coeffs) } }
//@end
