// MarlinPST13::setup (marlin/marlin_pst13_pc/mod.rs): every published group element is the generator scaled by ITS monomial at one common
// trapdoor point; gamma powers, beta_h.   (C15, C09, C17)   -- the COUNT of published monomials (C(n+d,d), none missing) is NOT decided here
//@use core ops_gen std
//@spec ring
//@typemap /<E>/ =>
//@typemap /Self::Error/ => Error
//@typemap /E::ScalarField::/ => Fr::
//@typemap /: E::ScalarField\b/ => : Fr
//@typemap /\bE::G1::/ => G1::
//@typemap /\bE::G2::/ => G2::
//@typemap /P::Term::new/ => Term::new
//@enum file=poly-commit/src/error.rs name=Error
// ---- trusted environment: the monomial type, the term-indexed table, iterator glue ----
pub struct Term { pub v: Vec<(usize, usize)> }
pub struct MvPoly { pub num_vars: usize, pub terms: Vec<(Fr, Term)> }   // (only named by the shared specification file)
//@spec mvpoly_spec pst13_setup_spec
impl Term {
    // SparseTerm::new: normal form (zero powers dropped, sorted by variable, equal variables merged): the same monomial function, the same total degree   [assumed]
    #[verifier::external_body] pub fn new(v: Vec<(usize, usize)>) -> (r: Term)
        ensures forall|x: Asg| #[trigger] te(r.v@, x) == te(v@, x), v@.len() == 0 ==> r.v@ == Seq::<(usize, usize)>::empty() { unimplemented!() }
}
#[verifier::external_body] pub struct TermTable { _x: u8 }
pub uninterp spec fn pst_key(t: &TermTable, m: Seq<(usize, usize)>) -> FS;        // the key element stored for monomial m
pub uninterp spec fn pst_has(t: &TermTable, m: Seq<(usize, usize)>) -> bool;      // the table has an entry for monomial m
pub struct UniversalParams { pub powers_of_g: TermTable, pub gamma_g: G1Affine, pub powers_of_gamma_g: Vec<Vec<G1Affine>>, pub h: G2Affine, pub beta_h: Vec<G2Affine>, pub prepared_h: G2Prepared, pub prepared_beta_h: Vec<G2Prepared>, pub num_vars: usize, pub max_degree: usize }
// `keys.into_iter().zip(values.into_iter()).collect::<BTreeMap<_,_>>()`: every entry of the map is one of the zipped pairs, every zipped key is present   [assumed]
#[verifier::external_body] pub fn table_from_zip(keys: Vec<Term>, values: Vec<G1Affine>) -> (r: TermTable)
    ensures forall|m: Seq<(usize, usize)>| #[trigger] pst_has(&r, m) == (exists|i: int| 0 <= i < min(keys@.len(), values@.len()) && (#[trigger] keys@[i]).v@ == m),
            forall|m: Seq<(usize, usize)>| #[trigger] pst_has(&r, m) ==> (exists|i: int| 0 <= i < min(keys@.len(), values@.len()) && (#[trigger] keys@[i]).v@ == m && pst_key(&r, m) == values@[i]@)
{ unimplemented!() }
// `(0..n).flat_map(|var| vec![var; d]).collect()`: d copies of each variable index below n   [assumed]
#[verifier::external_body] pub fn variable_multiset(n: usize, d: usize) -> (r: Vec<usize>) ensures r@.len() == n * d, forall|i: int| 0 <= i < r@.len() ==> (#[trigger] r@[i]) < n && r@[i] == i / (d as int) { unimplemented!() }
#[verifier::external_body] pub fn vec_usize_clone(v: &Vec<usize>) -> (r: Vec<usize>) ensures r@ == v@ { unimplemented!() }
// `Combinations::new(set, k).collect()`: every produced selection has k entries, all taken from `set`   [assumed HERE as the meaning of collect(); the same fact is PROVED for
// every `next()` of the real enumerator in units/pst13_combinations.rs; that the selections are exactly the
// k-multisets, each once, is the part of C15 that is NOT decided]
#[verifier::external_body] pub fn combinations_collect(set: Vec<usize>, k: usize) -> (r: Vec<Vec<usize>>)
    ensures forall|j: int, i: int| 0 <= j < r@.len() && 0 <= i < r@[j]@.len() ==> set@.contains(#[trigger] r@[j]@[i]), forall|j: int| 0 <= j < r@.len() ==> (#[trigger] r@[j])@.len() == k { unimplemented!() }
// `v.iter().map(f).product()`
#[verifier::external_body] pub fn iter_map_product<F: Fn(&usize) -> Fr>(v: &Vec<usize>, f: F, Ghost(val): Ghost<Asg>) -> (r: Fr)
    requires forall|i: int| 0 <= i < v@.len() ==> f.requires((&#[trigger] v@[i],)),
        forall|e: &usize, o: Fr| f.requires((e,)) && #[trigger] f.ensures((e,), o) ==> o@ == val(*e as int)
    ensures r@ == mprod(v@, val, v@.len()) { unimplemented!() }
// `v.iter().filter(p).count()`
#[verifier::external_body] pub fn iter_filter_count<F: Fn(&&usize) -> bool>(v: &Vec<usize>, p: F, Ghost(var): Ghost<int>) -> (r: usize)
    requires forall|e: &&usize| #[trigger] p.requires((e,)), forall|e: &&usize, o: bool| #[trigger] p.ensures((e,), o) ==> o == (**e == var)
    ensures r == cnt(v@, var, v@.len()) { unimplemented!() }
// `(lo..hi).map(f).collect()`
#[verifier::external_body] pub fn range_map_collect<F: Fn(usize) -> (usize, usize)>(lo: usize, hi: usize, f: F) -> (r: Vec<(usize, usize)>)
    requires forall|i: usize| lo <= i < hi ==> #[trigger] f.requires((i,))
    ensures r@.len() == (if hi >= lo { hi - lo } else { 0 }), forall|i: int| 0 <= i < r@.len() ==> f.ensures(((lo + i) as usize,), #[trigger] r@[i]) { unimplemented!() }
// `(lo..=hi).flat_map(f).unzip()`: both lists have one entry per produced pair, in order; every pair was produced by some call of f   [assumed]
pub open spec fn all_good(out: Seq<(Fr, Term)>, good: spec_fn(FS, Seq<(usize, usize)>) -> bool) -> bool { forall|j: int| 0 <= j < out.len() ==> good((#[trigger] out[j]).0@, out[j].1.v@) }
#[verifier::external_body] pub fn flat_map_unzip<F: Fn(usize) -> Vec<(Fr, Term)>>(lo: usize, hi: usize, f: F, Ghost(good): Ghost<spec_fn(FS, Seq<(usize, usize)>) -> bool>) -> (r: (Vec<Fr>, Vec<Term>))
    requires forall|d: usize| lo <= d <= hi ==> #[trigger] f.requires((d,)), forall|d: usize, out: Vec<(Fr, Term)>| #[trigger] f.ensures((d,), out) ==> all_good(out@, good)
    ensures r.0@.len() == r.1@.len(), forall|i: int| 0 <= i < r.0@.len() ==> good((#[trigger] r.0@[i])@, r.1@[i].v@) { unimplemented!() }
#[verifier::external_body] pub fn vec_of_empty(n: usize) -> (r: Vec<Vec<G1Affine>>) ensures r@.len() == n, forall|i: int| 0 <= i < n ==> (#[trigger] r@[i])@.len() == 0 { unimplemented!() }   // vec![Vec::new(); n]
// ark-ec BatchMulPreprocessing::new(base, n) + batch_mul: [s_i * base]
pub struct BatchMulPreprocessing { pub base: Ghost<FS> }
impl BatchMulPreprocessing {
    #[verifier::external_body] pub fn new(base: G1, n: usize) -> (r: BatchMulPreprocessing) ensures r.base@ == base@ { unimplemented!() }
    #[verifier::external_body] pub fn batch_mul(&self, s: &[Fr]) -> (r: Vec<G1Affine>) ensures r@.len() == s@.len(), forall|i: int| 0 <= i < s@.len() ==> (#[trigger] r@[i])@ == f_mul(self.base@, s@[i]@) { unimplemented!() }
}
#[verifier::external_body] pub fn g2_prepare(h: G2Affine) -> (r: G2Prepared) ensures r@ == h@ { unimplemented!() }    // `h.into()`

// ======================= specification =======================
pub open spec fn basg(betas: Seq<Fr>) -> Asg { |i: int| if 0 <= i < betas.len() { betas[i]@ } else { f_one() } }
// WHAT setup publishes (the part decided here): one common trapdoor point (beta_0..beta_{n-1}) and generators g, gamma_g, h, all drawn from the caller's
// RNG in this order; every entry of powers_of_g is g scaled by ITS monomial at that point; the constant monomial is present; gamma powers and beta_h
pub open spec fn pst_setup_ok(pp: &UniversalParams, num_vars: usize, max_degree: usize, id: int, pos: nat) -> bool {
    let b: Asg = |i: int| if 0 <= i < num_vars { draw(id, pos + i as nat) } else { f_one() };
    let g = draw(id, pos + num_vars as nat); let gm = draw(id, pos + num_vars as nat + 1); let hh = draw(id, pos + num_vars as nat + 2);
    pp.num_vars == num_vars && pp.max_degree == max_degree
    && (forall|m: Seq<(usize, usize)>| #[trigger] pst_has(&pp.powers_of_g, m) ==> pst_key(&pp.powers_of_g, m) == f_mul(g, te(m, b)))
    && pst_has(&pp.powers_of_g, Seq::empty())
    && pp.gamma_g@ == gm && pp.h@ == hh && pp.prepared_h@ == hh
    && pp.powers_of_gamma_g@.len() == num_vars
    && (forall|v: int| 0 <= v < num_vars ==> (#[trigger] pp.powers_of_gamma_g@[v])@.len() == max_degree + 1)
    && (forall|v: int, j: int| 0 <= v < num_vars && 0 <= j <= max_degree ==> (#[trigger] pp.powers_of_gamma_g@[v]@[j])@ == f_mul(gm, f_pow(b(v), (j + 1) as nat)))
    && pp.beta_h@.len() == num_vars && pp.prepared_beta_h@.len() == num_vars
    && (forall|v: int| 0 <= v < num_vars ==> (#[trigger] pp.beta_h@[v])@ == f_mul(hh, b(v)))
    && (forall|v: int| 0 <= v < num_vars ==> (#[trigger] pp.prepared_beta_h@[v])@ == f_mul(hh, b(v)))
}
pub struct MarlinPST13;
impl MarlinPST13 {
//@fn id=pst13.setup file=poly-commit/src/marlin/marlin_pst13_pc/mod.rs scope="impl<E, P> PolynomialCommitment<E::ScalarField, P> for MarlinPST13<E, P>" name=setup props=C15,C09,C17
    fn setup(max_degree: usize, num_vars: Option<usize>, rng: &mut Rng) -> (res: Result<UniversalParams, Error>)
    requires
        max_degree < usize::MAX - 1,
        num_vars is Some ==> num_vars->Some_0 * max_degree < usize::MAX,
    ensures
        (res is Err) == (num_vars is None || num_vars->Some_0 < 1 || max_degree < 1),   // name=pst13.setup.refused_iff_no_variables_or_degree_zero props=C17,C09
        res is Ok ==> pst_setup_ok(&res->Ok_0, num_vars->Some_0, max_degree, old(rng).id@, old(rng).pos@),   // name=pst13.setup.every_published_element_is_g_scaled_by_its_monomial_at_one_trapdoor_point props=C15,C09
        res is Ok ==> final(rng).pos@ == old(rng).pos@ + num_vars->Some_0 + 3,   // name=pst13.setup.draws_num_vars_plus_three_elements props=C09
//@body
//@rw 1 /let mut betas = Vec::with_capacity\(num_vars\);/ => let mut betas: Vec<Fr> = Vec::with_capacity(num_vars);
//@rw 1 /(?s)let variable_set: Vec<_> = \(0\.\.num_vars\)\s*\.flat_map\(\|var\| vec!\[var; max_degree\]\)\s*\.collect\(\);/ => let variable_set: Vec<usize> = variable_multiset(num_vars, max_degree);
//@rw 1 /term\.iter\(\)\.map\(\|e\| (.*?)\)\.product\(\)/ => iter_map_product(&term, |e: &usize| -> (o: Fr) requires *e < betas@.len() ensures o@ == basg(betas@)(*e as int) { \1 }, Ghost(basg(betas@)))
//@rw 1 /term\.iter\(\)\.filter\(\|e\| (.*?)\)\.count\(\)/ => iter_filter_count(&term, |e: &&usize| -> (b: bool) ensures b == (**e == var) { \1 }, Ghost(var as int))
//@rw 1 /(?s)\(0\.\.num_vars\)\s*\.map\(\|var\| (.*?)\)\s*\.collect\(\);/ => range_map_collect(0, num_vars, |var: usize| -> (o: (usize, usize)) ensures o.0 == var, o.1 == cnt(t0, var as int, t0.len()) { \1 });
//@rw 1 /ark_std::cfg_into_iter!\(terms\)/ => terms.into_iter()
//@rw 1 /\.collect::<Vec<_>>\(\)/ => .collect::<Vec<(Fr, Term)>>()
//@rw 1 /vec!\[variable_set\.clone\(\)\]/ => vec![vec_usize_clone(&variable_set)]
//@rw 1 /Combinations::new\(variable_set\.clone\(\), degree\)\.collect\(\)/ => combinations_collect(vec_usize_clone(&variable_set), degree)
//@rw 1 /(?s)let \(powers_of_beta, mut powers_of_beta_terms\): \(Vec<_>, Vec<_>\) = \(1\.\.=max_degree\)\s*\.flat_map\(/ => let (powers_of_beta, mut powers_of_beta_terms): (Vec<Fr>, Vec<Term>) = flat_map_unzip(1, max_degree, 
//@rw 1 /(?s)\}\)\s*\.unzip\(\);/ => }, Ghost(good));
//@rw 1 /g\.batch_mul\(&powers_of_beta\)/ => g.batch_mul(powers_of_beta.as_slice())
//@rw 1 /P::Term::new\(vec!\[\]\)/ => Term::new(Vec::new())
//@rw 1 /let mut powers_of_gamma_g = vec!\[Vec::new\(\); num_vars\];/ => let mut powers_of_gamma_g: Vec<Vec<G1Affine>> = vec_of_empty(num_vars);
//@rw 1 /(?s)ark_std::cfg_iter_mut!\(powers_of_gamma_g\)\s*\.enumerate\(\)\s*\.for_each\(\|\(i, v\)\| \{(.*?)\}\);/ => for i in it2: 0..num_vars             invariant it2.index@ <= num_vars, powers_of_gamma_g@.len() == num_vars, betas@.len() == num_vars, max_degree < usize::MAX - 1, gamma_g_table.base@ == gamma_g@,                 forall|v: int| 0 <= v < it2.index@ ==> (#[trigger] powers_of_gamma_g@[v])@.len() == max_degree + 1,                 forall|v: int, j: int| 0 <= v < it2.index@ && 0 <= j <= max_degree ==> (#[trigger] powers_of_gamma_g@[v]@[j])@ == f_mul(gamma_g@, f_pow(betas@[v]@, (j + 1) as nat)),         {\1}
//@rw 1 /\*v = gamma_g_table\.batch_mul\(&powers_of_beta\);/ => powers_of_gamma_g.set(i, gamma_g_table.batch_mul(powers_of_beta.as_slice()));
//@rw 1 /let mut powers_of_beta = Vec::with_capacity\(max_degree \+ 1\);/ => let mut powers_of_beta: Vec<Fr> = Vec::with_capacity(max_degree + 1);
//@rw 1 /let beta_h: Vec<_> =/ => let beta_h: Vec<G2Affine> =
//@rw 1 /let prepared_h = h\.into\(\);/ => let prepared_h = g2_prepare(h);
//@rw 1 /let prepared_beta_h = beta_h\.iter\(\)\.map\(\|bh\| \(\*bh\)\.into\(\)\)\.collect\(\);/ => let prepared_beta_h: Vec<G2Prepared> = beta_h.iter().map(|bh: &G2Affine| -> (o: G2Prepared) ensures o@ == bh@ { g2_prepare(*bh) }).collect();
//@rw 1 /(?s)let powers_of_g = powers_of_beta_terms\s*\.into_iter\(\)\s*\.zip\(powers_of_g\.into_iter\(\)\)\s*\.collect\(\);/ => let powers_of_g = table_from_zip(powers_of_beta_terms, powers_of_g);
//@closure |b| => |b: &Fr| -> (o: G2Affine) ensures o@ == f_mul(h@, b@)
//@closure |degree| => |degree: usize| -> (out: Vec<(Fr, Term)>) requires 1 <= degree <= max_degree ensures all_good(out@, good)
//@closure |term| => |term: Vec<usize>| -> (o: (Fr, Term)) requires forall|i: int| 0 <= i < term@.len() ==> (#[trigger] term@[i]) < num_vars, term@.len() < usize::MAX, betas@.len() == num_vars ensures o.0@ == te(o.1.v@, basg(betas@)) ;; let ghost t0 = term@;
//@before /\(value, P::Term::new\(term\)\)/
                        proof {
                            assert(term@ =~= cvec(t0, num_vars as nat, t0.len()));
                            lemma_cvec_is_mprod(t0, num_vars as nat, t0.len(), basg(betas@));
                        }
//@before /let value: E::ScalarField =/
                        proof { assert(forall|x: int| 0 <= x < betas@.len() ==> #[trigger] basg(betas@)(x) == betas@[x]@); }
//@after /let terms: Vec<Vec<usize>> =/
                proof {
                    assert forall|j: int, i: int| 0 <= j < terms@.len() && 0 <= i < terms@[j]@.len() implies (#[trigger] terms@[j]@[i]) < num_vars by {
                        assert(variable_set@.contains(terms@[j]@[i]));
                    }
                    assert forall|j: int| 0 <= j < terms@.len() implies (#[trigger] terms@[j])@.len() < usize::MAX by { }
                }
//@after start
        let ghost id0 = rng.id@; let ghost pos0 = rng.pos@;
//@loop 1 kw=for name=it
            invariant it.index@ <= num_vars, betas@.len() == it.index@, rng.id@ == id0, rng.pos@ == pos0 + it.index@,
                forall|q: int| 0 <= q < it.index@ ==> (#[trigger] betas@[q])@ == draw(id0, pos0 + q as nat),
//@before /let variable_set/
        let ghost good: spec_fn(FS, Seq<(usize, usize)>) -> bool = |v: FS, m: Seq<(usize, usize)>| v == te(m, basg(betas@));
//@loop 2 kw=for name=it3
                invariant it3.index@ <= max_degree + 1, powers_of_beta@.len() == it3.index@, i < betas@.len(), max_degree < usize::MAX - 1,
                    cur@ == f_pow(betas@[i as int]@, it3.index@ as nat),
                    forall|j: int| 0 <= j < it3.index@ ==> (#[trigger] powers_of_beta@[j])@ == f_pow(betas@[i as int]@, (j + 1) as nat),
//@before /let mut powers_of_g = g\.batch_mul/
        let ghost pb0 = powers_of_beta@; let ghost tm0 = powers_of_beta_terms@;
//@before /let powers_of_g = powers_of_beta_terms/
        let ghost keys0 = powers_of_beta_terms@; let ghost vals0 = powers_of_g@;
        proof {
            ax_mul_one(g@);
            assert(keys0.len() == vals0.len() && keys0.len() == tm0.len() + 1);
            assert forall|i: int| 0 <= i < keys0.len() implies (#[trigger] vals0[i])@ == f_mul(g@, te(keys0[i].v@, basg(betas@))) by {
                if i < tm0.len() { assert(keys0[i] == tm0[i]); assert(good(pb0[i]@, tm0[i].v@)); assert(vals0[i]@ == f_mul(g@, pb0[i]@)); }
                else { assert(keys0[i].v@ == Seq::<(usize, usize)>::empty()); assert(te(keys0[i].v@, basg(betas@)) == f_one()); }
            }
        }
//@before /let pp = UniversalParams \{/
        proof {
            let b: Asg = |i: int| if 0 <= i < num_vars { draw(id0, pos0 + i as nat) } else { f_one() };
            assert(b =~= basg(betas@));
            assert forall|m: Seq<(usize, usize)>| #[trigger] pst_has(&powers_of_g, m) implies pst_key(&powers_of_g, m) == f_mul(g@, te(m, b)) by {
                let i = choose|i: int| 0 <= i < min(keys0.len(), vals0.len()) && (#[trigger] keys0[i]).v@ == m && pst_key(&powers_of_g, m) == vals0[i]@;
                assert(vals0[i]@ == f_mul(g@, te(keys0[i].v@, basg(betas@))));
            }
            assert(pst_has(&powers_of_g, Seq::empty())) by { assert(keys0[keys0.len() - 1].v@ == Seq::<(usize, usize)>::empty()); }
            assert forall|v: int, j: int| 0 <= v < num_vars && 0 <= j <= max_degree implies (#[trigger] powers_of_gamma_g@[v]@[j])@ == f_mul(gamma_g@, f_pow(b(v), (j + 1) as nat)) by { assert(b(v) == betas@[v]@); }
            assert forall|v: int| 0 <= v < num_vars implies (#[trigger] beta_h@[v])@ == f_mul(h@, b(v)) by { assert(b(v) == betas@[v]@); }
            assert forall|v: int| 0 <= v < num_vars implies (#[trigger] prepared_beta_h@[v])@ == f_mul(h@, b(v)) by { assert(prepared_beta_h@[v]@ == beta_h@[v]@); }
        }
//@end
}
