// KZG10 verifier: check, batch_check.   Properties: C10 (relation), C02 (uniqueness lemmas), C05 (batch), C01 (via lemma in kzg10_prove)
//@use core ops_gen
//@struct file=poly-commit/src/kzg10/data_structures.rs name=VerifierKey
//@struct file=poly-commit/src/kzg10/data_structures.rs name=Commitment
//@struct file=poly-commit/src/kzg10/data_structures.rs name=Proof
pub enum Error { Other }

// ---- published relation (KZG10, with the hiding extension of Marlin/CHMMVW19, sec. 6):
//      e(C - v*G - rv*gammaG, H) = e(W, beta*H - z*H)
pub open spec fn kzg_lhs(vk: &VerifierKey, comm: &Commitment, value: Fr, proof: &Proof) -> FS {
    let inner = f_sub(comm.0@, f_mul(vk.g@, value@));
    match proof.random_v {
        Some(rv) => f_sub(inner, f_mul(vk.gamma_g@, rv@)),
        None => inner,
    }
}
pub open spec fn kzg_relation(vk: &VerifierKey, comm: &Commitment, point: Fr, value: Fr, proof: &Proof) -> bool {
    pair(kzg_lhs(vk, comm, value, proof), vk.h@) == pair(proof.w@, f_sub(vk.beta_h@, f_mul(vk.h@, point@)))
}

pub struct KZG10;
impl KZG10 {
//@fn id=kzg10.check file=poly-commit/src/kzg10/mod.rs scope="impl<E, P> KZG10<E, P>" name=check props=C10,C02,C01,C17
    pub fn check(vk: &VerifierKey, comm: &Commitment, point: Fr, value: Fr, proof: &Proof) -> (res: Result<bool, Error>)
    ensures
        res is Ok,
        res->Ok_0 == kzg_relation(vk, comm, point, value, proof),   // name=kzg10.check.relation props=C10,C02,C01
//@body
//@end
}
