// MarlinPST13 (marlin/marlin_pst13_pc/mod.rs): verifier `check`  (C10, C02, C03, C11)
//@use core ops_gen poly labeled labeled_comm sponge std
//@spec ring
//@typemap /::<E, P, Self>::/ => ::
//@typemap /<E>/ => 
//@typemap /\bP::Point\b/ => Vec<Fr>
//@typemap /Self::VerifierKey/ => VerifierKey
//@typemap /Self::Commitment/ => marlin_pc::Commitment
//@typemap /Self::Proof/ => Proof
//@typemap /Self::Error/ => Error
//@typemap /\bMarlin::/ => marlin_pc::Marlin::
//@enum file=poly-commit/src/error.rs name=Error
pub mod kzg10 {
    use super::*;
//@struct file=poly-commit/src/kzg10/data_structures.rs name=Commitment
}
pub mod marlin_pc {
    use super::*;
//@struct file=poly-commit/src/marlin/marlin_pc/data_structures.rs name=Commitment
//@struct file=poly-commit/src/marlin/marlin_pc/data_structures.rs name=VerifierKey drop=vk
//@spec marlin_sched_spec marlin_acc_spec
    pub struct Marlin;
    impl Marlin {
//@stub from=marlin.rs id=marlin.accumulate_commitments_and_values vis=pub
    }
}
//@struct file=poly-commit/src/marlin/marlin_pst13_pc/data_structures.rs name=VerifierKey
//@struct file=poly-commit/src/marlin/marlin_pst13_pc/data_structures.rs name=Proof
// G1Prepared::from(G1Affine)
#[verifier::external_body] pub fn g1_prepare(a: G1Affine) -> (r: G1Prepared) ensures r@ == a@ { unimplemented!() }

// ======================= specification ([PST13] sec. 4 / [KZG10] multivariate): =======================
// e(C - v G - rv gamma G, H) = prod_j e(w_j, beta_j H - z_j H)      (written additively over discrete logs)
pub open spec fn pst_rhs(vk: &VerifierKey, w: Seq<G1Affine>, z: Seq<Fr>, k: nat) -> FS decreases k {
    if k == 0 { f_zero() } else { f_add(pst_rhs(vk, w, z, (k - 1) as nat), pair(w[k - 1]@, f_sub(vk.beta_h@[k - 1]@, f_mul(vk.h@, z[k - 1]@)))) }
}
pub open spec fn pst_inner(vk: &VerifierKey, c: FS, v: FS, pr: &Proof) -> FS {
    let i0 = f_sub(c, f_mul(vk.g@, v));
    match pr.random_v { Some(rv) => f_sub(i0, f_mul(vk.gamma_g@, rv@)), None => i0 }
}

pub struct MarlinPST13;
impl MarlinPST13 {
//@fn id=pst13.check file=poly-commit/src/marlin/marlin_pst13_pc/mod.rs scope="impl<E, P> PolynomialCommitment<E::ScalarField, P> for MarlinPST13<E, P>" name=check props=C10,C02,C03,C11
    fn check<'a>(vk: &VerifierKey, commitments: Vec<&'a LabeledCommitment<marlin_pc::Commitment>>, point: &'a Vec<Fr>, values: Vec<Fr>, proof: &Proof, sponge: &mut Sponge, _rng: Option<&mut Rng>) -> (res: Result<bool, Error>)
    ensures
        // accepted iff the pairing equation holds for the challenge-weighted combination of commitments and values
        res is Ok ==> (res->Ok_0 <==> pair(pst_inner(vk, marlin_pc::acc_c0(commitments@, old(sponge).st@, min(commitments@.len(), values@.len())),
                                                    marlin_pc::acc_v(commitments@, values@, old(sponge).st@, min(commitments@.len(), values@.len())), proof), vk.h@)
                                      == pst_rhs(vk, proof.w@, point@, proof.w@.len())),   // name=pst13.check.accepts_iff_pairing_equation props=C10,C02,C03
        res is Ok ==> proof.w@.len() <= vk.beta_h@.len() && proof.w@.len() <= point@.len(),   // name=pst13.check.one_key_element_and_coordinate_per_witness props=C03
        res is Ok ==> forall|j: int| 0 <= j < min(commitments@.len(), values@.len()) ==> (#[trigger] commitments@[j]).degree_bound is None,   // name=pst13.check.no_degree_bounds props=C04
        res is Ok ==> final(sponge).st@ == sp_iter(old(sponge).st@, marlin_pc::nsq(commitments@, min(commitments@.len(), values@.len()))),   // name=pst13.check.squeeze_schedule props=C11
//@body
//@rw 1 /(?s)let \(rhs_product_g1, rhs_product_g2\): \(Vec<E::G1Prepared>, Vec<E::G2Prepared>\) =\s*ark_std::cfg_iter!\(proof\.w\)\s*\.enumerate\(\)\s*\.map\(\|\(j, w_j\)\| \{(.*?)\n\s*\(\(\*w_j\)\.into\(\), beta_minus_z\.into\(\)\)\s*\}\)\s*\.unzip\(\);/ => let mut rhs_product_g1: Vec<G1Prepared> = Vec::new();
        let mut rhs_product_g2: Vec<G2Prepared> = Vec::new();
        let mut j: usize = 0;
        for w_j in itw: proof.w.iter()
            invariant j == itw.index@, itw.index@ <= proof.w@.len(), rhs_product_g1@.len() == j, rhs_product_g2@.len() == j,
                j <= vk.beta_h@.len(), j <= point@.len(),
                dot(g1prep_views(rhs_product_g1@), g2prep_views(rhs_product_g2@), j as nat) == pst_rhs(vk, proof.w@, point@, j as nat),
        {
            \1
            let ghost a0 = rhs_product_g1@; let ghost b0 = rhs_product_g2@;
            rhs_product_g1.push(g1_prepare(*w_j)); rhs_product_g2.push(beta_minus_z.into());
            proof {
                lemma_dot_ext(g1prep_views(rhs_product_g1@), g1prep_views(a0), g2prep_views(rhs_product_g2@), g2prep_views(b0), j as nat);
                assert(g1prep_views(rhs_product_g1@)[j as int] == proof.w@[j as int]@);
                assert(g2prep_views(rhs_product_g2@)[j as int] == f_sub(vk.beta_h@[j as int]@, f_mul(vk.h@, point@[j as int]@)));
            }
            ctr_inc(&mut j);
        }
//@after start
        let ghost cs = commitments@; let ghost vs = values@; let ghost s0 = sponge.st@;
        let ghost n = min(cs.len(), vs.len());
//@after /sponge,\s*None,\s*\)\?;/
        proof { marlin_pc::lemma_acc_c_no_bounds(cs, vs, None, s0, n); }
//@before /end_timer!\(check_time\);/
        proof {
            assert(combined_comm@ == marlin_pc::acc_c0(cs, s0, n));
            assert(combined_value@ == marlin_pc::acc_v(cs, vs, s0, n));
            assert(rhs@ == pst_rhs(vk, proof.w@, point@, proof.w@.len()));
            assert(inner@ == pst_inner(vk, combined_comm@, combined_value@, proof));
            assert(lhs@ == pair(inner@, vk.h@));
        }
//@rw 1 /vk\.beta_h\[j\]/ => (*at(&vk.beta_h, j))
//@rw 1 /point\[j\]/ => at_fr(point, j)
//@rw 1 /(?s)(let beta_minus_z: E::G2Affine =\s*\(.*?\))\.into\(\);/ => \1.into_affine();
//@end
}
