// MarlinPST13 (marlin/marlin_pst13_pc/mod.rs): verifier `check`  (C10, C02, C03, C11)
//@use core ops_gen poly labeled labeled_comm sponge std
//@spec ring
//@typemap /::<E, P, Self>::/ => ::
//@typemap /<E>/ => 
//@typemap /\bP::Point\b/ => Vec<Fr>
//@typemap /Self::VerifierKey/ => VerifierKey
//@typemap /Self::Commitment/ => marlin_pc::Commitment
//@typemap /Self::BatchProof/ => Vec<Proof>
//@typemap /Self::Proof/ => Proof
//@typemap /&QuerySet<Vec<Fr>>/ => &BTreeSet<(String, (String, Vec<Fr>))>
//@typemap /&Evaluations<Vec<Fr>, E::ScalarField>/ => &BTreeMap<(String, Vec<Fr>), Fr>
//@typemap /<'a, R: RngCore>/ => <'a>
//@typemap /&mut R\b/ => &mut Rng
//@typemap /E::ScalarField::/ => Fr::
//@typemap /<E::G1>::zero\(\)/ => G1::zero()
//@typemap /: E::G1 =/ => : G1 =
//@typemap /Self::Error/ => Error
//@typemap /\bMarlin::/ => marlin_pc::Marlin::
//@enum file=poly-commit/src/error.rs name=Error
pub mod kzg10 {
    use super::*;
//@struct file=poly-commit/src/kzg10/data_structures.rs name=Commitment
}
pub mod marlin_pc {
    use super::*;
//@struct file=poly-commit/src/marlin/marlin_pc/data_structures.rs name=Commitment
//@struct file=poly-commit/src/marlin/marlin_pc/data_structures.rs name=VerifierKey drop=vk
//@spec marlin_sched_spec marlin_acc_spec
    pub struct Marlin;
    impl Marlin {
//@stub from=marlin.rs id=marlin.accumulate_commitments_and_values vis=pub
    }
}
//@struct file=poly-commit/src/marlin/marlin_pst13_pc/data_structures.rs name=VerifierKey
//@struct file=poly-commit/src/marlin/marlin_pst13_pc/data_structures.rs name=Proof
// G1Prepared::from(G1Affine)
#[verifier::external_body] pub fn g1_prepare(a: G1Affine) -> (r: G1Prepared) ensures r@ == a@ { unimplemented!() }

// ======================= specification ([PST13] sec. 4 / [KZG10] multivariate): =======================
// e(C - v G - rv gamma G, H) = prod_j e(w_j, beta_j H - z_j H)      (written additively over discrete logs)
pub open spec fn pst_rhs(vk: &VerifierKey, w: Seq<G1Affine>, z: Seq<Fr>, k: nat) -> FS decreases k {
    if k == 0 { f_zero() } else { f_add(pst_rhs(vk, w, z, (k - 1) as nat), pair(w[k - 1]@, f_sub(vk.beta_h@[k - 1]@, f_mul(vk.h@, z[k - 1]@)))) }
}
pub open spec fn pst_inner(vk: &VerifierKey, c: FS, v: FS, pr: &Proof) -> FS {
    let i0 = f_sub(c, f_mul(vk.g@, v));
    match pr.random_v { Some(rv) => f_sub(i0, f_mul(vk.gamma_g@, rv@)), None => i0 }
}

// ---- batch verification ----
// Marlin::combine_and_normalize is generic in the point type; it is verified for the univariate instance in units/marlin_batch.rs.
// Here (points = Vec<Fr>) its three output vectors enter as deterministic functions of its inputs.
pub uninterp spec fn cn_c(cs: Seq<&LabeledCommitment<marlin_pc::Commitment>>, qs: Set<(String, (String, Vec<Fr>))>, ev: Map<(String, Vec<Fr>), Fr>, s: SS) -> Seq<kzg10::Commitment>;
pub uninterp spec fn cn_q(cs: Seq<&LabeledCommitment<marlin_pc::Commitment>>, qs: Set<(String, (String, Vec<Fr>))>, ev: Map<(String, Vec<Fr>), Fr>, s: SS) -> Seq<Vec<Fr>>;
pub uninterp spec fn cn_v(cs: Seq<&LabeledCommitment<marlin_pc::Commitment>>, qs: Set<(String, (String, Vec<Fr>))>, ev: Map<(String, Vec<Fr>), Fr>, s: SS) -> Seq<Fr>;
pub uninterp spec fn cn_s(cs: Seq<&LabeledCommitment<marlin_pc::Commitment>>, qs: Set<(String, (String, Vec<Fr>))>, ev: Map<(String, Vec<Fr>), Fr>, s: SS) -> SS;
impl marlin_pc::Marlin {
    #[verifier::external_body]
    pub fn combine_and_normalize<'a>(commitments: Vec<&'a LabeledCommitment<marlin_pc::Commitment>>, query_set: &BTreeSet<(String, (String, Vec<Fr>))>, evaluations: &BTreeMap<(String, Vec<Fr>), Fr>, sponge: &mut Sponge, vk: Option<&marlin_pc::VerifierKey>)
        -> (res: Result<(Vec<kzg10::Commitment>, Vec<Vec<Fr>>, Vec<Fr>), Error>)
        ensures res is Ok ==> res->Ok_0.0@ == cn_c(commitments@, query_set@, evaluations@, old(sponge).st@) && res->Ok_0.1@ == cn_q(commitments@, query_set@, evaluations@, old(sponge).st@)
            && res->Ok_0.2@ == cn_v(commitments@, query_set@, evaluations@, old(sponge).st@) && final(sponge).st@ == cn_s(commitments@, query_set@, evaluations@, old(sponge).st@)
            && res->Ok_0.0@.len() == res->Ok_0.1@.len() && res->Ok_0.1@.len() == res->Ok_0.2@.len() { unimplemented!() }
}
#[verifier::external_body] pub fn vec_g1_zero(n: usize) -> (r: Vec<G1>) ensures r@.len() == n, forall|i: int| 0 <= i < n ==> (#[trigger] r@[i])@ == f_zero() { unimplemented!() }   // vec![G1::zero(); n]
pub open spec fn pst_dotw(vk: &VerifierKey, tw: Seq<G1>, j: nat) -> FS decreases j { if j == 0 { f_zero() } else { f_add(pst_dotw(vk, tw, (j - 1) as nat), pair(f_neg(tw[j - 1]@), vk.prepared_beta_h@[j - 1]@)) } }
pub proof fn lemma_dotw(vk: &VerifierKey, tw: Seq<G1>, pv: Seq<Proof>, id: int, pos: nat, n: nat, j: nat)
    requires j <= tw.len(), forall|jj: int| 0 <= jj < tw.len() ==> (#[trigger] tw[jj])@ == pb_tw(pv, id, pos, jj, n)
    ensures pst_dotw(vk, tw, j) == pb_pair_w(vk, pv, id, pos, n, j)
    decreases j
{ if j > 0 { lemma_dotw(vk, tw, pv, id, pos, n, (j - 1) as nat); } }
// randomiser of query i, and the adjusted commitment  C_i + sum_j z_ij w_ij  of query i
pub open spec fn pb_r(id: int, pos: nat, i: nat) -> FS { if i == 0 { f_one() } else { draw_u128(id, (pos + i - 1) as nat) } }
pub open spec fn pb_zw(w: Seq<G1Affine>, z: Seq<Fr>, k: nat) -> FS decreases k { if k == 0 { f_zero() } else { f_add(pb_zw(w, z, (k - 1) as nat), f_mul(w[k - 1]@, z[k - 1]@)) } }
pub open spec fn pb_tc(cc: Seq<kzg10::Commitment>, qq: Seq<Vec<Fr>>, pv: Seq<Proof>, id: int, pos: nat, k: nat) -> FS decreases k {
    if k == 0 { f_zero() } else { f_add(pb_tc(cc, qq, pv, id, pos, (k - 1) as nat), f_mul(f_add(pb_zw(pv[k - 1].w@, qq[k - 1]@, pv[k - 1].w@.len()), cc[k - 1].0@), pb_r(id, pos, (k - 1) as nat))) }
}
pub open spec fn pb_gm(ee: Seq<Fr>, id: int, pos: nat, k: nat) -> FS decreases k { if k == 0 { f_zero() } else { f_add(pb_gm(ee, id, pos, (k - 1) as nat), f_mul(pb_r(id, pos, (k - 1) as nat), ee[k - 1]@)) } }
pub open spec fn pb_ggm(pv: Seq<Proof>, id: int, pos: nat, k: nat) -> FS decreases k {
    if k == 0 { f_zero() } else { let p = pb_ggm(pv, id, pos, (k - 1) as nat); match pv[k - 1].random_v { Some(rv) => f_add(p, f_mul(pb_r(id, pos, (k - 1) as nat), rv@)), None => p } }
}
// total_w[j] = sum_i r_i * w_ij
pub open spec fn pb_tw(pv: Seq<Proof>, id: int, pos: nat, j: int, k: nat) -> FS decreases k { if k == 0 { f_zero() } else { f_add(pb_tw(pv, id, pos, j, (k - 1) as nat), f_mul(pv[k - 1].w@[j]@, pb_r(id, pos, (k - 1) as nat))) } }
pub open spec fn pb_pair_w(vk: &VerifierKey, pv: Seq<Proof>, id: int, pos: nat, n: nat, j: nat) -> FS decreases j {
    if j == 0 { f_zero() } else { f_add(pb_pair_w(vk, pv, id, pos, n, (j - 1) as nat), pair(f_neg(pb_tw(pv, id, pos, j - 1, n)), vk.prepared_beta_h@[j - 1]@)) }
}
pub struct MarlinPST13;
impl MarlinPST13 {
//@fn id=pst13.check file=poly-commit/src/marlin/marlin_pst13_pc/mod.rs scope="impl<E, P> PolynomialCommitment<E::ScalarField, P> for MarlinPST13<E, P>" name=check props=C10,C02,C03,C11
    fn check<'a>(vk: &VerifierKey, commitments: Vec<&'a LabeledCommitment<marlin_pc::Commitment>>, point: &'a Vec<Fr>, values: Vec<Fr>, proof: &Proof, sponge: &mut Sponge, _rng: Option<&mut Rng>) -> (res: Result<bool, Error>)
    ensures
        // accepted iff the pairing equation holds for the challenge-weighted combination of commitments and values
        res is Ok ==> (res->Ok_0 <==> pair(pst_inner(vk, marlin_pc::acc_c0(commitments@, old(sponge).st@, min(commitments@.len(), values@.len())),
                                                    marlin_pc::acc_v(commitments@, values@, old(sponge).st@, min(commitments@.len(), values@.len())), proof), vk.h@)
                                      == pst_rhs(vk, proof.w@, point@, proof.w@.len())),   // name=pst13.check.accepts_iff_pairing_equation props=C10,C02,C03
        res is Ok ==> proof.w@.len() <= vk.beta_h@.len() && proof.w@.len() <= point@.len(),   // name=pst13.check.one_key_element_and_coordinate_per_witness props=C03
        res is Ok ==> forall|j: int| 0 <= j < min(commitments@.len(), values@.len()) ==> (#[trigger] commitments@[j]).degree_bound is None,   // name=pst13.check.no_degree_bounds props=C04
        res is Ok ==> final(sponge).st@ == sp_iter(old(sponge).st@, marlin_pc::nsq(commitments@, min(commitments@.len(), values@.len()))),   // name=pst13.check.squeeze_schedule props=C11
//@body
//@rw 1 /(?s)let \(rhs_product_g1, rhs_product_g2\): \(Vec<E::G1Prepared>, Vec<E::G2Prepared>\) =\s*ark_std::cfg_iter!\(proof\.w\)\s*\.enumerate\(\)\s*\.map\(\|\(j, w_j\)\| \{(.*?)\n\s*\(\(\*w_j\)\.into\(\), beta_minus_z\.into\(\)\)\s*\}\)\s*\.unzip\(\);/ => let mut rhs_product_g1: Vec<G1Prepared> = Vec::new();
        let mut rhs_product_g2: Vec<G2Prepared> = Vec::new();
        let mut j: usize = 0;
        for w_j in itw: proof.w.iter()
            invariant j == itw.index@, itw.index@ <= proof.w@.len(), rhs_product_g1@.len() == j, rhs_product_g2@.len() == j,
                j <= vk.beta_h@.len(), j <= point@.len(),
                dot(g1prep_views(rhs_product_g1@), g2prep_views(rhs_product_g2@), j as nat) == pst_rhs(vk, proof.w@, point@, j as nat),
        {
            \1
            let ghost a0 = rhs_product_g1@; let ghost b0 = rhs_product_g2@;
            rhs_product_g1.push(g1_prepare(*w_j)); rhs_product_g2.push(beta_minus_z.into());
            proof {
                lemma_dot_ext(g1prep_views(rhs_product_g1@), g1prep_views(a0), g2prep_views(rhs_product_g2@), g2prep_views(b0), j as nat);
                assert(g1prep_views(rhs_product_g1@)[j as int] == proof.w@[j as int]@);
                assert(g2prep_views(rhs_product_g2@)[j as int] == f_sub(vk.beta_h@[j as int]@, f_mul(vk.h@, point@[j as int]@)));
            }
            ctr_inc(&mut j);
        }
//@after start
        let ghost cs = commitments@; let ghost vs = values@; let ghost s0 = sponge.st@;
        let ghost n = min(cs.len(), vs.len());
//@after /sponge,\s*None,\s*\)\?;/
        proof { marlin_pc::lemma_acc_c_no_bounds(cs, vs, None, s0, n); }
//@before /end_timer!\(check_time\);/
        proof {
            assert(combined_comm@ == marlin_pc::acc_c0(cs, s0, n));
            assert(combined_value@ == marlin_pc::acc_v(cs, vs, s0, n));
            assert(rhs@ == pst_rhs(vk, proof.w@, point@, proof.w@.len()));
            assert(inner@ == pst_inner(vk, combined_comm@, combined_value@, proof));
            assert(lhs@ == pair(inner@, vk.h@));
        }
//@rw 1 /vk\.beta_h\[j\]/ => (*at(&vk.beta_h, j))
//@rw 1 /point\[j\]/ => at_fr(point, j)
//@rw 1 /(?s)(let beta_minus_z: E::G2Affine =\s*\(.*?\))\.into\(\);/ => \1.into_affine();
//@end

//@fn id=pst13.batch_check file=poly-commit/src/marlin/marlin_pst13_pc/mod.rs scope="impl<E, P> PolynomialCommitment<E::ScalarField, P> for MarlinPST13<E, P>" name=batch_check props=C05,C03,C10,C11
    fn batch_check<'a>(vk: &VerifierKey, commitments: Vec<&'a LabeledCommitment<marlin_pc::Commitment>>, query_set: &BTreeSet<(String, (String, Vec<Fr>))>, values: &BTreeMap<(String, Vec<Fr>), Fr>, proof: &Vec<Proof>, sponge: &mut Sponge, rng: &mut Rng) -> (res: Result<bool, Error>)
    requires
        rng.present@, vk.prepared_beta_h@.len() >= vk.num_vars,
    ensures
        // one proof per combined query (otherwise abort)   [fix 3f7fbb0 of finding F4]
        res is Ok ==> proof@.len() == cn_q(commitments@, query_set@, values@, old(sponge).st@).len(),   // name=pst13.batch_check.one_proof_per_query_point props=C05,C03
        // accepted iff  e(sum_i r_i (C_i + sum_j z_ij w_ij) - (sum r_i v_i) G - (sum r_i rv_i) gamma G, H) * prod_j e(-sum_i r_i w_ij, beta_j H) = 1
        res is Ok ==> { let cc = cn_c(commitments@, query_set@, values@, old(sponge).st@); let qq = cn_q(commitments@, query_set@, values@, old(sponge).st@); let ee = cn_v(commitments@, query_set@, values@, old(sponge).st@);
            let n = proof@.len();
            res->Ok_0 == (f_add(pb_pair_w(vk, proof@, old(rng).id@, old(rng).pos@, n, vk.num_vars as nat),
                pair(f_sub(f_sub(pb_tc(cc, qq, proof@, old(rng).id@, old(rng).pos@, n), f_mul(vk.g@, pb_gm(ee, old(rng).id@, old(rng).pos@, n))), f_mul(vk.gamma_g@, pb_ggm(proof@, old(rng).id@, old(rng).pos@, n))), vk.prepared_h@)) == f_zero()) },   // name=pst13.batch_check.randomised_pairing_equation props=C05,C10
//@body
//@rw 1 /let mut total_w = vec!\[G1::zero\(\); vk\.num_vars\];|let mut total_w = vec!\[<E::G1>::zero\(\); vk\.num_vars\];/ => let mut total_w: Vec<G1> = vec_g1_zero(vk.num_vars);
//@rw 1 /(?s)for \(\(\(c, z\), v\), proof\) in([^{]*?)combined_comms\s*\.iter\(\)\s*\.zip\(combined_queries\)\s*\.zip\(combined_evals\)\s*\.zip\(proof\)/ => let pf__: &Vec<Proof> = proof; for (((c, z), v), proof) in\1combined_comms.iter().zip(combined_queries).zip(combined_evals).zip(pf__.iter())
//@rw 1 /(?s)let mut temp: E::G1 = ark_std::cfg_iter!\(w\)\s*\.enumerate\(\)\s*\.map\(\|\(j, w_j\)\| ([^;]*?)\)\s*\.sum\(\);/ => let mut temp: G1 = G1::zero();
            let mut j: usize = 0;
            for w_j in itw: w.iter()
                invariant j == itw.index@, itw.index@ <= w@.len(), temp@ == pb_zw(w@, z@, j as nat),
            { let term__: G1 = \1; temp += &term__; ctr_inc(&mut j); }
//@rw * /\bz\[j\]/ => at_fr(&z, j)
//@rw 1 /(?s)ark_std::cfg_iter_mut!\(total_w\)\s*\.enumerate\(\)\s*\.for_each\(\|\(i, w_i\)\| \*w_i \+= &([^;]*?)\);/ => let mut i: usize = 0;
            while i < total_w.len()
                invariant i <= total_w@.len(), total_w@.len() == vk.num_vars, 0 <= nq < pv0.len(), *w == pv0[nq as int].w, randomizer@ == pb_r(id0, pos0, nq as nat),
                    forall|jj: int| 0 <= jj < i ==> jj < w@.len() && (#[trigger] total_w@[jj])@ == pb_tw(pv0, id0, pos0, jj, (nq + 1) as nat),
                    forall|jj: int| i <= jj < total_w@.len() ==> (#[trigger] total_w@[jj])@ == pb_tw(pv0, id0, pos0, jj, nq as nat),
                decreases total_w@.len() - i,
            { let mut t__ = total_w[i]; let ghost t0 = t__@; let add__: G1 = \1; t__ += &add__;
              proof { assert(t0 == pb_tw(pv0, id0, pos0, i as int, nq as nat)); assert(t__@ == f_add(t0, f_mul(w@[i as int]@, randomizer@))); assert(pb_tw(pv0, id0, pos0, i as int, (nq + 1) as nat) == f_add(pb_tw(pv0, id0, pos0, i as int, nq as nat), f_mul(pv0[nq as int].w@[i as int]@, pb_r(id0, pos0, nq as nat)))); }
              total_w.set(i, t__); i = i + 1; }
//@rw * /\bw\[i\]/ => (*at(w, i))
//@rw 1 /u128::rand\(rng\)\.into\(\)/ => Fr::from_u128_rand(rng)
//@rw 1 /(?s)let \(mut p1, mut p2\): \(Vec<E::G1Prepared>, Vec<E::G2Prepared>\) = total_w\s*\.into_iter\(\)\s*\.enumerate\(\)\s*\.map\(\|\(j, w_j\)\| \(\(-w_j\)\.into_affine\(\)\.into\(\), vk\.prepared_beta_h\[j\]\.clone\(\)\)\)\s*\.unzip\(\);/ => let mut p1: Vec<G1Prepared> = Vec::new(); let mut p2: Vec<G2Prepared> = Vec::new();
        let mut j: usize = 0;
        for w_j in itp: total_w.iter()
            invariant j == itp.index@, itp.index@ <= total_w@.len(), total_w@.len() == vk.num_vars, vk.prepared_beta_h@.len() >= vk.num_vars, p1@.len() == j, p2@.len() == j,
                dot(g1prep_views(p1@), g2prep_views(p2@), j as nat) == pst_dotw(vk, total_w@, j as nat),
        {
            let ghost a0 = p1@; let ghost b0 = p2@;
            p1.push(g1_prepare((-*w_j).into_affine())); p2.push(vk.prepared_beta_h[j]);
            proof { lemma_dot_ext(g1prep_views(p1@), g1prep_views(a0), g2prep_views(p2@), g2prep_views(b0), j as nat); }
            ctr_inc(&mut j);
        }
//@rw 1 /p1\.push\(total_c\.into_affine\(\)\.into\(\)\);/ => p1.push(g1_prepare(total_c.into_affine()));
//@rw 1 /p2\.push\(vk\.prepared_h\.clone\(\)\);/ => p2.push(vk.prepared_h);
//@rw 1 /assert_eq!\(proof\.len\(\), combined_queries\.len\(\)\);/ => assert_eq!(proof.len(), combined_queries.len());
//@after start
        let ghost id0 = rng.id@; let ghost pos0 = rng.pos@; let ghost pv0 = proof@;
//@after /Marlin::<E, P, Self>::combine_and_normalize\(/
        let ghost cc = combined_comms@; let ghost qq = combined_queries@; let ghost ee = combined_evals@;
//@loop 1 kw=for name=it
            invariant it.index@ <= pv0.len(), pv0.len() == qq.len(), qq.len() == cc.len(), cc.len() == ee.len(), combined_comms@ == cc, combined_queries@ == qq, combined_evals@ == ee, pf__@ == pv0,
                total_w@.len() == vk.num_vars, rng.id@ == id0, rng.present@, rng.pos@ == pos0 + it.index@, randomizer@ == pb_r(id0, pos0, it.index@ as nat),
                total_c@ == pb_tc(cc, qq, pv0, id0, pos0, it.index@ as nat),
                g_multiplier@ == pb_gm(ee, id0, pos0, it.index@ as nat), gamma_g_multiplier@ == pb_ggm(pv0, id0, pos0, it.index@ as nat),
                forall|jj: int| 0 <= jj < total_w@.len() ==> (#[trigger] total_w@[jj])@ == pb_tw(pv0, id0, pos0, jj, it.index@ as nat),
//@loopstart 1
            let ghost nq = it.index@;
            proof { assert(*proof == pv0[nq]); assert(*c == cc[nq]); assert(z == qq[nq]); assert(v == ee[nq]); }
//@before /p1\.push\(total_c\.into_affine\(\)\.into\(\)\);/
        let ghost a1 = p1@; let ghost b1 = p2@; let ghost tw = total_w@;
//@before /let pairing_time =/
        proof {
            let n = pv0.len();
            let nv = vk.num_vars as nat;
            lemma_dot_ext(g1prep_views(p1@), g1prep_views(a1), g2prep_views(p2@), g2prep_views(b1), nv);
            assert(dot(g1prep_views(p1@), g2prep_views(p2@), nv + 1) == f_add(pst_dotw(vk, tw, nv), pair(total_c@, vk.prepared_h@)));
            lemma_dotw(vk, tw, pv0, id0, pos0, n, nv);
        }
//@end
}

//@lemma props=C02
// C02 for MarlinPST13::check: the accepted combined value is unique, hence (lemma_acc_v_unique_at) so is each claimed value whose challenge is non-zero
pub proof fn lemma_pst13_value_unique(vk: &VerifierKey, c: FS, v1: FS, v2: FS, pr: &Proof, rhs: FS)
    requires vk.g@ != f_zero(), vk.h@ != f_zero(), pair(pst_inner(vk, c, v1, pr), vk.h@) == rhs, pair(pst_inner(vk, c, v2, pr), vk.h@) == rhs
    ensures v1 == v2
{
    lemma_mul_cancel(pst_inner(vk, c, v1, pr), pst_inner(vk, c, v2, pr), vk.h@);
    let a1 = f_sub(c, f_mul(vk.g@, v1)); let a2 = f_sub(c, f_mul(vk.g@, v2));
    match pr.random_v { Some(rv) => { lemma_sub_cancel_right(a1, a2, f_mul(vk.gamma_g@, rv@)); } None => {} }
    lemma_sub_cancel_left(c, f_mul(vk.g@, v1), f_mul(vk.g@, v2));
    ax_mul_comm(vk.g@, v1); ax_mul_comm(vk.g@, v2);
    lemma_mul_cancel(v1, v2, vk.g@);
}
//@lemma props=C02
pub proof fn lemma_pst13_check_value_unique_at(vk: &VerifierKey, cs: Seq<&LabeledCommitment<marlin_pc::Commitment>>, point: Seq<Fr>, vs: Seq<Fr>, vs2: Seq<Fr>, pr: &Proof, s: SS, i: int)
    requires vk.g@ != f_zero(), vk.h@ != f_zero(), vs.len() == vs2.len(), 0 <= i < min(cs.len(), vs.len()),
        forall|j: int| 0 <= j < min(cs.len(), vs.len()) && j != i ==> vs[j]@ == vs2[j]@,
        sp_chal(s, marlin_pc::nsq(cs, i as nat)) != f_zero(),
        // both value vectors accepted by `check` (its postcondition pst13.check.accepts_iff_pairing_equation)
        pair(pst_inner(vk, marlin_pc::acc_c0(cs, s, min(cs.len(), vs.len())), marlin_pc::acc_v(cs, vs, s, min(cs.len(), vs.len())), pr), vk.h@) == pst_rhs(vk, pr.w@, point, pr.w@.len()),
        pair(pst_inner(vk, marlin_pc::acc_c0(cs, s, min(cs.len(), vs.len())), marlin_pc::acc_v(cs, vs2, s, min(cs.len(), vs.len())), pr), vk.h@) == pst_rhs(vk, pr.w@, point, pr.w@.len()),
    ensures vs[i]@ == vs2[i]@
{
    let n = min(cs.len(), vs.len());
    lemma_pst13_value_unique(vk, marlin_pc::acc_c0(cs, s, n), marlin_pc::acc_v(cs, vs, s, n), marlin_pc::acc_v(cs, vs2, s, n), pr, pst_rhs(vk, pr.w@, point, pr.w@.len()));
    marlin_pc::lemma_acc_v_unique_at(cs, vs, vs2, s, n, i);
}
