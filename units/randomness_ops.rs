// marlin_pc::Randomness arithmetic (marlin/marlin_pc/data_structures.rs): the operators Marlin::open_combinations uses to build sum_i c_i r_i   (C06, C07, C08)
//@use core ops_gen poly std
//@spec ring
//@typemap /<F, P>/ =>
//@typemap /kzg10::Randomness<F, P>/ => kzg10::Randomness
//@typemap /: P\b/ => : Poly
//@typemap /PhantomData<F>/ => PhantomData<Fr>
//@typemap /\bPhantomData\b/ => core::marker::PhantomData
pub mod kzg10 {
    use super::*;
//@struct file=poly-commit/src/kzg10/data_structures.rs name=Randomness
    impl Randomness {
        #[verifier::external_body] pub fn clone(&self) -> (r: Randomness) ensures r == *self { unimplemented!() }   // #[derive(Clone)]
//@stub from=kzg10.rs id=kzg10.Randomness.empty
//@stub from=marlin_prover.rs id=kzg10.Randomness.add_assign_scaled
//@fn id=kzg10.Randomness.add_scaled file=poly-commit/src/kzg10/data_structures.rs scope="impl<'a, F: PrimeField, P: DenseUVPolynomial<F>> Add<\(F, &'a Randomness<F, P>\)>\s+for Randomness<F, P>" name=add props=C08,C07
        pub fn add_scaled(self, other: (Fr, &Randomness)) -> (r: Randomness)
        ensures
            forall|x: FS| #[trigger] r.blinding_polynomial.ev(x) == f_add(self.blinding_polynomial.ev(x), f_mul(other.0@, other.1.blinding_polynomial.ev(x))),   // name=kzg10.Randomness.add_scaled.linear props=C08,C07
//@body
//@rw 1 /fn add\(mut self, other/ => fn add(self, other
//@rw 1 /(?s)self \+= other;\s*self/ => let mut s__ = self; s__.add_assign_scaled(other); s__
//@end
//@fn id=kzg10.Randomness.add_assign file=poly-commit/src/kzg10/data_structures.rs scope="impl<'a, F: PrimeField, P: DenseUVPolynomial<F>> AddAssign<&'a Randomness<F, P>>\s+for Randomness<F, P>" name=add_assign props=C08,C07
        pub fn add_assign_plain(&mut self, other: &Randomness)
        ensures
            forall|x: FS| #[trigger] final(self).blinding_polynomial.ev(x) == f_add(old(self).blinding_polynomial.ev(x), other.blinding_polynomial.ev(x)),   // name=kzg10.Randomness.add_assign.pointwise_sum props=C08,C07
//@body
//@rw 1 /self\.blinding_polynomial \+= &other\.blinding_polynomial;/ => self.blinding_polynomial.add_assign_plain(&other.blinding_polynomial);
//@end
    }
}
impl Poly {
    #[verifier::external_body] pub fn add_assign_scaled(&mut self, q: (Fr, &Poly))
        ensures forall|x: FS| #[trigger] final(self).ev(x) == f_add(old(self).ev(x), f_mul(q.0@, q.1.ev(x))), final(self).wf(),
                final(self).coeffs@.len() <= (if old(self).coeffs@.len() >= q.1.coeffs@.len() { old(self).coeffs@.len() } else { q.1.coeffs@.len() }) { unimplemented!() }
    #[verifier::external_body] pub fn add_assign_plain(&mut self, q: &Poly)
        ensures forall|x: FS| #[trigger] final(self).ev(x) == f_add(old(self).ev(x), q.ev(x)), final(self).wf() { unimplemented!() }
}
//@struct file=poly-commit/src/marlin/marlin_pc/data_structures.rs name=Randomness
// evaluation of the optional shifted blinding polynomial (absent = zero)
pub open spec fn sr_ev(r: &Randomness, x: FS) -> FS { match r.shifted_rand { Some(s) => s.blinding_polynomial.ev(x), None => f_zero() } }
impl Randomness {
//@fn id=marlin_pc.Randomness.add_assign_scaled file=poly-commit/src/marlin/marlin_pc/data_structures.rs scope="impl<'a, F: PrimeField, P: DenseUVPolynomial<F>> AddAssign<\(F, &'a Randomness<F, P>\)>\s+for Randomness<F, P>" name=add_assign props=C06,C07,C08
    pub fn add_assign_scaled(&mut self, q: (Fr, &Randomness))
    ensures
        forall|x: FS| #[trigger] final(self).rand.blinding_polynomial.ev(x) == f_add(old(self).rand.blinding_polynomial.ev(x), f_mul(q.0@, q.1.rand.blinding_polynomial.ev(x))),   // name=marlin_pc.Randomness.add_assign_scaled.plain_part_linear props=C06,C08
        // the shifted part: present afterwards iff it was present in either operand; absent operands count as zero
        (final(self).shifted_rand is Some) == (old(self).shifted_rand is Some || q.1.shifted_rand is Some),   // name=marlin_pc.Randomness.add_assign_scaled.shifted_part_kept props=C06,C07
        forall|x: FS| #[trigger] sr_ev(final(self), x) == f_add(sr_ev(old(self), x), f_mul(q.0@, sr_ev(q.1, x))),   // name=marlin_pc.Randomness.add_assign_scaled.shifted_part_linear props=C06,C07,C08
//@body
//@destructure q = (f, other)
//@rw 1 /self\.rand \+= \(f, &other\.rand\);/ => self.rand.add_assign_scaled((f, &other.rand));
//@rw 1 /\*r1 \+= \(f, ([^;]*)\);/ => r1.add_assign_scaled((f, \1));
//@rw 1 /empty \+ \(([^()]*), r\)/ => empty.add_scaled((\1, r))
//@closure |r| => |r: &kzg10::Randomness| -> (o: kzg10::Randomness) requires empty.blinding_polynomial.coeffs@.len() == 0 ensures forall|x: FS| #[trigger] o.blinding_polynomial.ev(x) == f_add(f_zero(), f_mul(f@, r.blinding_polynomial.ev(x)))
//@after /if let Some\(r1\) = &mut self\.shifted_rand \{/
        proof {
            lemma_mul_zero(f@); ax_add_zero(f_zero());
            assert forall|x: FS| #[trigger] sr_ev(self, x) == f_add(sr_ev(old(self), x), f_mul(f@, sr_ev(other, x))) by { }
        }
//@end
//@fn id=marlin_pc.Randomness.add_assign file=poly-commit/src/marlin/marlin_pc/data_structures.rs scope="impl<'a, F: PrimeField, P: DenseUVPolynomial<F>> AddAssign<&'a Self> for Randomness<F, P>" name=add_assign props=C06,C07,C08
    pub fn add_assign_plain(&mut self, other: &Randomness)
    ensures
        forall|x: FS| #[trigger] final(self).rand.blinding_polynomial.ev(x) == f_add(old(self).rand.blinding_polynomial.ev(x), other.rand.blinding_polynomial.ev(x)),   // name=marlin_pc.Randomness.add_assign.plain_part_sum props=C06,C08
        (final(self).shifted_rand is Some) == (old(self).shifted_rand is Some || other.shifted_rand is Some),   // name=marlin_pc.Randomness.add_assign.shifted_part_kept props=C06,C07
        forall|x: FS| #[trigger] sr_ev(final(self), x) == f_add(sr_ev(old(self), x), sr_ev(other, x)),   // name=marlin_pc.Randomness.add_assign.shifted_part_sum props=C06,C07,C08
//@body
//@rw 1 /self\.rand \+= &other\.rand;/ => self.rand.add_assign_plain(&other.rand);
//@rw 1 /(?s)\*r1 \+= (other\s*\.shifted_rand\s*\.as_ref\(\)\s*\.unwrap_or\(&kzg10::Randomness::empty\(\)\));/ => let e__ = kzg10::Randomness::empty(); r1.add_assign_plain(other.shifted_rand.as_ref().unwrap_or(&e__));
//@closure |r| => |r: &kzg10::Randomness| -> (o: kzg10::Randomness) ensures o == *r
//@after /if let Some\(r1\) = &mut self\.shifted_rand \{/
        proof {
            ax_add_zero(f_zero());
            assert forall|x: FS| #[trigger] sr_ev(self, x) == f_add(sr_ev(old(self), x), sr_ev(other, x)) by {
                if old(self).shifted_rand is None && other.shifted_rand is Some { ax_add_comm(f_zero(), sr_ev(other, x)); ax_add_zero(sr_ev(other, x)); }
            }
        }
//@end
//@fn id=marlin_pc.Randomness.empty file=poly-commit/src/marlin/marlin_pc/data_structures.rs scope="impl<F: PrimeField, P: DenseUVPolynomial<F>> PCCommitmentState for Randomness<F, P>" name=empty props=C07
    pub fn empty() -> (r: Self)
    ensures
        r.rand.blinding_polynomial.coeffs@.len() == 0 && r.shifted_rand is None,   // name=marlin_pc.Randomness.empty.no_blinding props=C07
//@body
//@end
}
