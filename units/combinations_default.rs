// PolynomialCommitment::check_combinations, the trait's default method (lib.rs)  (C06, C05)
//@use core ops_gen labeled_comm sponge std
//@typemap /Self::VerifierKey/ => VK
//@typemap /Self::Commitment/ => Comm
//@typemap /Self::BatchProof/ => BatchProof
//@typemap /Self::Error/ => Error
//@typemap /&QuerySet<P::Point>/ => &BTreeSet<(String, (String, Pt))>
//@typemap /&Evaluations<P::Point, F>/ => &BTreeMap<(String, Pt), Fr>
//@typemap /&BatchLCProof<F, BatchProof>/ => &BatchLCProof
//@typemap /<'a, R: RngCore>/ => <'a>
//@typemap /&mut R\b/ => &mut Rng
//@typemap /\bF::/ => Fr::
//@typemap /\(F, LCTerm\)/ => (Fr, LCTerm)
//@typemap /Vec<\(F,/ => Vec<(Fr,
//@enum file=poly-commit/src/error.rs name=Error
//@enum file=poly-commit/src/data_structures.rs name=LCTerm
//@struct file=poly-commit/src/data_structures.rs name=LinearCombination
//@use pctypes pcenv
//@spec group_spec batch_spec
//@use lcenv
//@spec lc_default_spec
pub struct BatchLCProof { pub proof: BatchProof, pub evals: Option<Vec<Fr>> }
impl LinearCombination { pub fn label(&self) -> (r: &String) ensures *r == self.label { &self.label } }
impl LCTerm {
//@stub from=linear_combination.rs id=lc.LCTerm.is_one vis=pub
}
// ---- trusted environment of this method ----
#[verifier::external_body] pub fn string_into(s: String) -> (r: String) ensures r == s { unimplemented!() }   // String::into::<String>
#[verifier::external_body] pub fn rt_label(l: &String, p: &Pt) -> (r: String) { unimplemented!() }        // format!("{}-{:?}", l, point): error text only

// ======================= specification =======================
// value of the first k terms of a combination at `pt` under the (to be verified) polynomial evaluations pe; None if one is missing
pub open spec fn lc_sum(ts: Seq<(Fr, LCTerm)>, pt: Pt, pe: Map<(String, Pt), Fr>, k: nat) -> Option<FS> decreases k {
    if k == 0 { Some(f_zero()) } else {
        match lc_sum(ts, pt, pe, (k - 1) as nat) {
            None => None,
            Some(acc) => match ts[k - 1].1 {
                LCTerm::One => Some(f_add(acc, f_mul(ts[k - 1].0@, f_one()))),
                LCTerm::PolyLabel(l) => if pe.dom().contains((l, pt)) { Some(f_add(acc, f_mul(ts[k - 1].0@, pe[(l, pt)]@))) } else { None },
            },
        }
    }
}
pub enum EqS { Cont, Rejected, Error }
// the equation checks over the first k queries (in the set's iteration order)
pub open spec fn crun(m: Map<&String, &LinearCombination>, q: Seq<(String, (String, Pt))>, ev: Map<(String, Pt), Fr>, pe: Map<(String, Pt), Fr>, k: nat) -> EqS decreases k {
    if k == 0 { EqS::Cont } else {
        match crun(m, q, ev, pe, (k - 1) as nat) {
            EqS::Cont => {
                let e = q[k - 1];
                if !m.dom().contains(&e.0) { EqS::Cont }                                   // a query for an unknown combination is skipped
                else if !ev.dom().contains((e.0, e.1.1)) { EqS::Error }                    // no claimed value
                else { match lc_sum(m[&e.0].terms@, e.1.1, pe, m[&e.0].terms@.len()) {
                    None => EqS::Error,                                                    // an underlying evaluation is missing
                    Some(v) => if ev[(e.0, e.1.1)]@ == v { EqS::Cont } else { EqS::Rejected },   // claimed value != sum_i coeff_i * eval_i (+ constants)
                } }
            },
            other => other,
        }
    }
}
pub open spec fn cc_post(vk: &VK, lcs: Seq<&LinearCombination>, cs: Seq<&LabeledCommitment<Comm>>, qs: Set<(String, (String, Pt))>, ev: Map<(String, Pt), Fr>, pr: &BatchLCProof, s0: SS, res: Result<bool, Error>, s1: SS) -> bool {
    exists|m: Map<&String, &LinearCombination>, pqs: Set<(String, (String, Pt))>| #![trigger lmap_ok(m, lcs), is_pqs(m, qs, pqs)] lmap_ok(m, lcs) && is_pqs(m, qs, pqs) && {
        let pe = pevals_spec(pqs, pr.evals);
        match crun(m, set_seq(qs), ev, pe, set_seq(qs).len()) {
            EqS::Error => res is Err,
            EqS::Rejected => res == Ok::<bool, Error>(false) && s1 == s0,
            // every stated combination matches its claimed value under pe: the verdict is the batch verification of exactly those evaluations
            EqS::Cont => batch_post(vk, cs, pqs, pe, pr.proof.v@, s0, res, s1),
        }
    }
}

//@fn id=lib.lc_query_set_to_poly_query_set file=poly-commit/src/lib.rs scope=top name=lc_query_set_to_poly_query_set props=C06
#[verifier::loop_isolation(false)]
pub fn lc_query_set_to_poly_query_set<'a>(linear_combinations: Vec<&'a LinearCombination>, query_set: &BTreeSet<(String, (String, Pt))>) -> (r: BTreeSet<(String, (String, Pt))>)
    ensures
        // exactly the (polynomial label, (point label, point)) triples behind the queried combinations (the last combination carrying a label counts)
        forall|m: Map<&String, &LinearCombination>| #[trigger] lmap_ok(m, linear_combinations@) ==> is_pqs(m, query_set@, r@),   // name=lib.lc_query_set_to_poly_query_set.exactly_the_polynomial_queries_behind_the_combination_queries props=C06
//@body
//@rw 1 /let mut poly_query_set = QuerySet::<T>::new\(\);/ => let mut poly_query_set: BTreeSet<(String, (String, Pt))> = qset_new();
//@rw 1 /(?s)let lc_s = (linear_combinations\.into_iter\(\)\.map\(.*?\));\s*let linear_combinations = BTreeMap::from_iter\(lc_s\);/ => let lv__: Vec<(&String, &LinearCombination)> = \1.collect();
    let linear_combinations: BTreeMap<&String, &LinearCombination> = btree_from_pairs(lv__);
    proof {
        assert forall|i: int| #[trigger] l_is_last(ls0, i) implies linear_combinations@[&ls0[i].label] == ls0[i] by {
            assert(lv__@[i].0 == &ls0[i].label);
            assert forall|j: int| i < j < lv__@.len() implies lv__@[j].0 != lv__@[i].0 by { assert(*lv__@[j].0 == ls0[j].label); }
        }
        assert forall|k: &String| linear_combinations@.dom().contains(k) == (exists|i: int| 0 <= i < ls0.len() && (#[trigger] ls0[i]).label == *k) by {
            if linear_combinations@.dom().contains(k) { let i = choose|i: int| 0 <= i < lv__@.len() && (#[trigger] lv__@[i]).0 == k; assert(ls0[i].label == *k); }
            if exists|i: int| 0 <= i < ls0.len() && (#[trigger] ls0[i]).label == *k { let i = choose|i: int| 0 <= i < ls0.len() && (#[trigger] ls0[i]).label == *k; assert(lv__@[i].0 == k); }
        }
        assert(lmap_ok(linear_combinations@, ls0));
    }
//@closure |lc| => |lc: &'a LinearCombination| -> (kv: (&String, &LinearCombination)) ensures *kv.0 == lc.label, kv.1 == lc
//@rw 1 /for \(lc_label, \(point_label, point\)\) in([^{]*?)query_set([^{]*)\{/ => let qv__ = query_set_to_vec(query_set); for q__ in\1qv__.iter()\2{ let lc_label: &String = &q__.0; let point_label: &String = &q__.1.0; let point: &Pt = &q__.1.1;
//@rw 1 /linear_combinations\.get\(lc_label\)/ => btree_get_by_label(&linear_combinations, lc_label)
//@rw 1 /for \(_, poly_label\) in([^{]*?)lc\s*\.iter\(\)\s*\.filter\(\|\((\w+), l\)\| (.*?)\)((?:\s|\d+)*)\{/ => for ct__ in\1lc.terms.iter()\4{ let poly_label: &LCTerm = &ct__.1; let l: &LCTerm = poly_label; let \2: &Fr = &ct__.0; let ghost b = it2.index@; proof { assert(*ct__ == lc.terms@[b]); } if \3 {
//@rw 1 /poly_query_set\.insert\((.*)\);/ => qset_insert(&mut poly_query_set, \1);
//@rw * /\bl\.into\(\)/ => string_to_string(l)
//@rw * /point_label\.clone\(\)/ => string_to_string(point_label)
//@after start
    let ghost ls0 = linear_combinations@;
//@beforeloop 1
    let ghost mm = linear_combinations@;
    let ghost qseq = set_seq(query_set@);
//@loop 1 kw=for name=it
        invariant it.index@ <= qv__@.len(), qv__@.len() == qseq.len(), forall|i: int| 0 <= i < qseq.len() ==> *(#[trigger] qv__@[i]) == qseq[i], mm == linear_combinations@,
            forall|e: (String, (String, Pt))| poly_query_set@.contains(e) == pq_upto(mm, qseq, it.index@, e),
//@loopstart 1
        let ghost a = it.index@;
        let ghost s1 = poly_query_set@;
        proof { assert(*q__ == qseq[a]); }
//@loop 2 kw=for name=it2
                invariant it2.index@ <= lc.terms@.len(), mm.dom().contains(lc_label), mm[lc_label] == lc, *q__ == qseq[a],
                    forall|e: (String, (String, Pt))| poly_query_set@.contains(e) == (pq_upto(mm, qseq, a, e) || pq_in(mm, qseq[a], it2.index@, e)),
//@loopend 2
                }
                proof {
                    let q = qseq[a];
                    assert forall|e: (String, (String, Pt))| poly_query_set@.contains(e) == (pq_upto(mm, qseq, a, e) || pq_in(mm, q, b + 1, e)) by {
                        if pq_in(mm, q, b + 1, e) && !pq_in(mm, q, b, e) { let j = choose|j: int| 0 <= j < b + 1 && #[trigger] hit(mm, q, j, e); assert(j == b); }
                        if pq_in(mm, q, b, e) { let j = choose|j: int| 0 <= j < b && #[trigger] hit(mm, q, j, e); assert(hit(mm, q, j, e)); }
                        match lc.terms@[b].1 {
                            LCTerm::One => {},
                            LCTerm::PolyLabel(l) => { let e0 = (l, q.1); assert(hit(mm, q, b, e0)); if e == e0 { assert(pq_in(mm, q, b + 1, e)); } },
                        }
                    }
                }
//@afterloop 2
            proof {
                assert forall|e: (String, (String, Pt))| poly_query_set@.contains(e) == pq_upto(mm, qseq, a + 1, e) by {
                    let q = qseq[a];
                    if pq_in(mm, q, lc.terms@.len() as int, e) { let j = choose|j: int| 0 <= j < lc.terms@.len() && #[trigger] hit(mm, q, j, e); assert(hit(mm, qseq[a], j, e)); }
                    if pq_upto(mm, qseq, a, e) { let (x, j) = choose|x: int, j: int| 0 <= x < a && #[trigger] hit(mm, qseq[x], j, e); assert(hit(mm, qseq[x], j, e)); }
                    if pq_upto(mm, qseq, a + 1, e) && !pq_upto(mm, qseq, a, e) { let (x, j) = choose|x: int, j: int| 0 <= x < a + 1 && #[trigger] hit(mm, qseq[x], j, e); assert(x == a); assert(pq_in(mm, q, lc.terms@.len() as int, e)); }
                }
            }
//@loopend 1
        proof {
            if !mm.dom().contains(lc_label) {
                assert forall|e: (String, (String, Pt))| poly_query_set@.contains(e) == pq_upto(mm, qseq, a + 1, e) by {
                    if pq_upto(mm, qseq, a, e) { let (x, j) = choose|x: int, j: int| 0 <= x < a && #[trigger] hit(mm, qseq[x], j, e); assert(hit(mm, qseq[x], j, e)); }
                    if pq_upto(mm, qseq, a + 1, e) && !pq_upto(mm, qseq, a, e) { let (x, j) = choose|x: int, j: int| 0 <= x < a + 1 && #[trigger] hit(mm, qseq[x], j, e); assert(x == a); }
                }
            }
        }
//@before /poly_query_set\s*\}$/
    proof {
        assert forall|m: Map<&String, &LinearCombination>| #[trigger] lmap_ok(m, ls0) implies is_pqs(m, query_set@, poly_query_set@) by {
            lemma_lmap_unique(m, mm, ls0);
            assert forall|e: (String, (String, Pt))| poly_query_set@.contains(e) == pq_of(m, query_set@, e) by {
                if pq_upto(mm, qseq, qseq.len() as int, e) { let (x, j) = choose|x: int, j: int| 0 <= x < qseq.len() && #[trigger] hit(mm, qseq[x], j, e); assert(query_set@.contains(qseq[x])); assert(hit(m, qseq[x], j, e)); }
                if pq_of(m, query_set@, e) { let (q, j) = choose|q: (String, (String, Pt)), j: int| query_set@.contains(q) && #[trigger] hit(m, q, j, e); let x = choose|x: int| 0 <= x < qseq.len() && #[trigger] qseq[x] == q; assert(hit(mm, qseq[x], j, e)); }
            }
        }
    }
//@end
pub struct PC;
impl PC {
//@stub from=batch_default.rs id=lib.batch_check
//@fn id=lib.check_combinations file=poly-commit/src/lib.rs scope="pub trait PolynomialCommitment<F: PrimeField, P: Polynomial<F>>: Sized" name=check_combinations props=C06,C05,C17,C02,C11
    #[verifier::loop_isolation(false)]
    fn check_combinations<'a>(vk: &VK, linear_combinations: Vec<&'a LinearCombination>, commitments: Vec<&'a LabeledCommitment<Comm>>, eqn_query_set: &BTreeSet<(String, (String, Pt))>, eqn_evaluations: &BTreeMap<(String, Pt), Fr>, proof: &BatchLCProof, sponge: &mut Sponge, rng: &mut Rng) -> (res: Result<bool, Error>)
    ensures
        cc_post(vk, linear_combinations@, commitments@, eqn_query_set@, eqn_evaluations@, proof, old(sponge).st@, res, final(sponge).st@),   // name=lib.check_combinations.equations_then_batch_verification props=C06,C05,C17,C02
//@body
//@r13
//@rw 1 /let BatchLCProof \{ proof, evals \} = proof;/ => let bp__ = proof; let proof = &bp__.proof; let evals = &bp__.evals;
//@rw 1 /(?s)let lc_s = BTreeMap::from_iter\((.*?)\);/ => let lv__: Vec<(&String, &LinearCombination)> = \1.collect();
        let lc_s: BTreeMap<&String, &LinearCombination> = btree_from_pairs(lv__);
        proof {
            assert forall|i: int| #[trigger] l_is_last(ls0, i) implies lc_s@[&ls0[i].label] == ls0[i] by {
                assert(lv__@[i].0 == &ls0[i].label);
                assert forall|j: int| i < j < lv__@.len() implies lv__@[j].0 != lv__@[i].0 by { assert(*lv__@[j].0 == ls0[j].label); }
            }
            assert forall|k: &String| lc_s@.dom().contains(k) == (exists|i: int| 0 <= i < ls0.len() && (#[trigger] ls0[i]).label == *k) by {
                if lc_s@.dom().contains(k) { let i = choose|i: int| 0 <= i < lv__@.len() && (#[trigger] lv__@[i]).0 == k; assert(ls0[i].label == *k); }
                if exists|i: int| 0 <= i < ls0.len() && (#[trigger] ls0[i]).label == *k { let i = choose|i: int| 0 <= i < ls0.len() && (#[trigger] ls0[i]).label == *k; assert(lv__@[i].0 == k); }
            }
            assert(lmap_ok(lc_s@, ls0));
        }
//@closure |lc| => |lc: &'a LinearCombination| -> (kv: (&String, &LinearCombination)) ensures *kv.0 == lc.label, kv.1 == lc
//@rw 1 /let poly_query_set = lc_query_set_to_poly_query_set\(lc_s\.values\(\)\.copied\(\), eqn_query_set\);/ => let vals__: Vec<&LinearCombination> = lcmap_values_vec(&lc_s);
        proof {
            // the map rebuilt from the values of lc_s is lc_s itself: its values carry pairwise different labels, each its own key
            let ks = mkeys(lc_s@);
            assert forall|k: &String| lc_s@.dom().contains(k) implies lc_s@[k].label == *k by {
                let i0 = choose|i: int| 0 <= i < ls0.len() && (#[trigger] ls0[i]).label == *k;
                let i = lemma_last_lc(ls0, *k, i0, ls0.len() as int);
                assert(l_is_last(ls0, i));
            }
            assert forall|i: int| 0 <= i < vals__@.len() implies (#[trigger] vals__@[i]).label == ks[i] by { assert(lc_s@.dom().contains(&ks[i])); }
            assert forall|i: int| #[trigger] l_is_last(vals__@, i) implies lc_s@[&vals__@[i].label] == vals__@[i] by { }
            assert forall|k: &String| lc_s@.dom().contains(k) == (exists|i: int| 0 <= i < vals__@.len() && (#[trigger] vals__@[i]).label == *k) by {
                if lc_s@.dom().contains(k) { let i = choose|i: int| 0 <= i < ks.len() && #[trigger] ks[i] == *k; assert(vals__@[i].label == *k); }
                if exists|i: int| 0 <= i < vals__@.len() && (#[trigger] vals__@[i]).label == *k { let i = choose|i: int| 0 <= i < vals__@.len() && (#[trigger] vals__@[i]).label == *k; assert(lc_s@.dom().contains(&ks[i])); }
            }
            assert(lmap_ok(lc_s@, vals__@));
        }
        let poly_query_set = lc_query_set_to_poly_query_set(vals__, eqn_query_set);
        proof { assert(is_pqs(lc_s@, eqn_query_set@, poly_query_set@)); }
//@rw 1 /(?s)let sorted_by_poly_and_point: BTreeSet<_> = poly_query_set\s*\.clone\(\)\s*\.into_iter\(\)\s*\.map\(\|\(poly_label, v\)\| (.*?)\)\s*\.collect\(\);/ => let pv__: Vec<(String, (String, Pt))> = qset_clone_into_vec(&poly_query_set);
        let kv__: Vec<(String, Pt)> = pv__.into_iter().map(|e__: (String, (String, Pt))| -> (o: (String, Pt)) ensures o == (e__.0, e__.1.1) { let (poly_label, v) = e__; \1 }).collect();
        let sorted_by_poly_and_point: BTreeSet<(String, Pt)> = keyset_from_vec(kv__);
        proof {
            let pqs = poly_query_set@; let sq = set_seq(pqs);
            assert forall|k: (String, Pt)| sorted_by_poly_and_point@.contains(k) == keyset(pqs).contains(k) by {
                if sorted_by_poly_and_point@.contains(k) { let i = choose|i: int| 0 <= i < kv__@.len() && #[trigger] kv__@[i] == k; assert(pqs.contains(sq[i])); assert(keyset(pqs).contains((sq[i].0, sq[i].1.1))); }
                if keyset(pqs).contains(k) { let e = choose|e: (String, (String, Pt))| pqs.contains(e) && k == (e.0, e.1.1); let i = choose|i: int| 0 <= i < sq.len() && #[trigger] sq[i] == e; assert(kv__@[i] == k); }
            }
            assert(sorted_by_poly_and_point@ =~= keyset(pqs));
        }
//@rw * /poly_label\.clone\(\)/ => string_to_string(&poly_label)
//@rw 1 /(?s)let poly_evals = Evaluations::from_iter\(\s*sorted_by_poly_and_point\s*\.into_iter\(\)\s*\.zip\(evals\.clone\(\)\.unwrap\(\)\)\s*\.map\(\|\(\(poly_label, point\), eval\)\| (.*?)\),\s*\);/ => let ks__: Vec<(String, Pt)> = keyset_into_sorted_vec(sorted_by_poly_and_point);
        let ev__: Vec<Fr> = opt_vec_clone_unwrap(evals);
        let pairs__: Vec<((String, Pt), Fr)> = ks__.into_iter().zip(ev__).map(|t__: ((String, Pt), Fr)| -> (o: ((String, Pt), Fr)) ensures o == t__ { let ((poly_label, point), eval) = t__; \1 }).collect();
        let poly_evals: BTreeMap<(String, Pt), Fr> = btree_from_pairs(pairs__);
        proof {
            let ks = kseq(keyset(poly_query_set@)); let vs = evals->Some_0@; let n = lmin(ks.len(), vs.len());
            lemma_pm(ks, vs, n);
            assert(pairs__@.len() == n);
            assert forall|i: int| 0 <= i < n implies pairs__@[i] == (ks[i], vs[i]) by { }
            assert forall|k: (String, Pt)| poly_evals@.dom().contains(k) == pm(ks, vs, n).dom().contains(k) by {
                if poly_evals@.dom().contains(k) { let i = choose|i: int| 0 <= i < pairs__@.len() && (#[trigger] pairs__@[i]).0 == k; assert(ks[i] == k); }
                if pm(ks, vs, n).dom().contains(k) { let i = choose|i: int| 0 <= i < n && #[trigger] ks[i] == k; assert(pairs__@[i].0 == k); }
            }
            assert forall|k: (String, Pt)| poly_evals@.dom().contains(k) implies poly_evals@[k] == pm(ks, vs, n)[k] by {
                let i = choose|i: int| 0 <= i < n && #[trigger] ks[i] == k;
                assert forall|j: int| i < j < pairs__@.len() implies pairs__@[j].0 != pairs__@[i].0 by { assert(ks[j] != ks[i]); }
                assert(poly_evals@[pairs__@[i].0] == pairs__@[i].1);
            }
            assert(poly_evals@ =~= pevals_spec(poly_query_set@, *evals));
        }
//@rw 1 /for &\(ref lc_label, \(_, ref point\)\) in([^{]*?)eqn_query_set([^{]*)\{/ => let qv__ = query_set_to_vec(eqn_query_set); for q__ in\1qv__.iter()\2{ let lc_label: &String = &q__.0; let point: &Pt = &q__.1.1;
//@rw 1 /lc_s\.get\(lc_label\)/ => btree_get_by_label(&lc_s, lc_label)
//@rw 1 /lc_label\.clone\(\)/ => string_to_string(lc_label)
//@rw 1 /lc_label\.to_string\(\)/ => string_to_string(lc_label)
//@rw 1 /for \(coeff, label\) in([^{]*?)lc\.iter\(\)([^{]*)\{/ => for ct__ in\1lc.terms.iter()\2{ let coeff: &Fr = &ct__.0; let label: &LCTerm = &ct__.1;
//@rw 1 /l\.clone\(\)\.into\(\)/ => string_into(string_to_string(l))
//@rw 1 /format!\("[^"]*", l\.clone\(\), point\.clone\(\)\)/ => rt_label(l, point)
//@rw * /eprintln!\([^;]*\);/ => 
//@after start
        let ghost ls0 = linear_combinations@;
        let ghost s0 = sponge.st@;
//@beforeloop 1
        let ghost qseq = set_seq(eqn_query_set@);
        let ghost pe = poly_evals@;
        let ghost n = qseq.len();
//@loop 1 kw=for name=it
            invariant it.index@ <= qv__@.len(), qv__@.len() == n, forall|i: int| 0 <= i < n ==> *(#[trigger] qv__@[i]) == qseq[i],
                crun(lc_s@, qseq, eqn_evaluations@, pe, it.index@ as nat) is Cont, sponge.st@ == s0,
//@loopstart 1
            let ghost k = it.index@;
            proof { assert(*q__ == qseq[k]); }
//@before /let claimed_rhs = /
                proof {
                    if !eqn_evaluations@.dom().contains((*lc_label, *point)) {
                        assert(crun(lc_s@, qseq, eqn_evaluations@, pe, (k + 1) as nat) is Error);
                        lemma_crun_stays(lc_s@, qseq, eqn_evaluations@, pe, (k + 1) as nat, n);
                    }
                }
//@loop 2 kw=for name=it2
                    invariant it2.index@ <= lc.terms@.len(), lc_sum(lc.terms@, *point, pe, it2.index@ as nat) == Some(actual_rhs@),
//@loopstart 2
                    let ghost j = it2.index@;
                    proof {
                        assert(*ct__ == lc.terms@[j]);
                        match lc.terms@[j].1 {
                            LCTerm::One => {},
                            LCTerm::PolyLabel(l) => {
                                if !pe.dom().contains((l, *point)) {
                                    assert(lc_sum(lc.terms@, *point, pe, (j + 1) as nat) is None);
                                    lemma_lc_sum_none(lc.terms@, *point, pe, (j + 1) as nat, lc.terms@.len());
                                    assert(crun(lc_s@, qseq, eqn_evaluations@, pe, (k + 1) as nat) is Error);
                                    lemma_crun_stays(lc_s@, qseq, eqn_evaluations@, pe, (k + 1) as nat, n);
                                }
                            },
                        }
                    }
//@afterloop 2
                proof {
                    if claimed_rhs@ != actual_rhs@ {
                        assert(crun(lc_s@, qseq, eqn_evaluations@, pe, (k + 1) as nat) is Rejected);
                        lemma_crun_stays(lc_s@, qseq, eqn_evaluations@, pe, (k + 1) as nat, n);
                    }
                }
//@end
}
pub proof fn lemma_crun_stays(m: Map<&String, &LinearCombination>, q: Seq<(String, (String, Pt))>, ev: Map<(String, Pt), Fr>, pe: Map<(String, Pt), Fr>, k: nat, n: nat)
    requires k <= n, !(crun(m, q, ev, pe, k) is Cont)
    ensures crun(m, q, ev, pe, n) == crun(m, q, ev, pe, k)
    decreases n
{ if k < n { lemma_crun_stays(m, q, ev, pe, k, (n - 1) as nat); } }
pub proof fn lemma_lc_sum_none(ts: Seq<(Fr, LCTerm)>, pt: Pt, pe: Map<(String, Pt), Fr>, k: nat, n: nat)
    requires k <= n, lc_sum(ts, pt, pe, k) is None
    ensures lc_sum(ts, pt, pe, n) is None
    decreases n
{ if k < n { lemma_lc_sum_none(ts, pt, pe, k, (n - 1) as nat); } }
