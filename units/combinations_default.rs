// PolynomialCommitment::check_combinations, the trait's default method (lib.rs)  (C06, C05)
//@use core ops_gen labeled_comm sponge std
//@typemap /Self::VerifierKey/ => VK
//@typemap /Self::Commitment/ => Comm
//@typemap /Self::BatchProof/ => BatchProof
//@typemap /Self::Error/ => Error
//@typemap /&QuerySet<P::Point>/ => &BTreeSet<(String, (String, Pt))>
//@typemap /&Evaluations<P::Point, F>/ => &BTreeMap<(String, Pt), Fr>
//@typemap /&BatchLCProof<F, BatchProof>/ => &BatchLCProof
//@typemap /<'a, R: RngCore>/ => <'a>
//@typemap /&mut R\b/ => &mut Rng
//@typemap /\bF::/ => Fr::
//@typemap /\(F, LCTerm\)/ => (Fr, LCTerm)
//@typemap /Vec<\(F,/ => Vec<(Fr,
//@enum file=poly-commit/src/error.rs name=Error
//@enum file=poly-commit/src/data_structures.rs name=LCTerm
//@struct file=poly-commit/src/data_structures.rs name=LinearCombination
//@use pctypes pcenv
//@spec group_spec batch_spec
pub struct BatchLCProof { pub proof: BatchProof, pub evals: Option<Vec<Fr>> }
impl LinearCombination { pub fn label(&self) -> (r: &String) ensures *r == self.label { &self.label } }
// ---- trusted environment of this method ----
// lc_query_set_to_poly_query_set (lib.rs): the (polynomial label, point label, point) triples needed by the queried combinations
pub uninterp spec fn pqs_spec(lcs: Map<&String, &LinearCombination>, qs: Set<(String, (String, Pt))>) -> Set<(String, (String, Pt))>;
#[verifier::external_body]
pub fn lc_query_set_to_poly_query_set(lcs: &BTreeMap<&String, &LinearCombination>, query_set: &BTreeSet<(String, (String, Pt))>) -> (r: BTreeSet<(String, (String, Pt))>)
    ensures r@ == pqs_spec(lcs@, query_set@) { unimplemented!() }
// the pairing of the prover-supplied evaluation list with the polynomial queries sorted by (label, point, point label)
// [`sorted_by_poly_and_query_label` zip `evals`, collected into a map]: taken by contract, NOT verified
pub uninterp spec fn pevals_spec(pqs: Set<(String, (String, Pt))>, evals: Option<Vec<Fr>>) -> Map<(String, Pt), Fr>;
#[verifier::external_body]
pub fn build_poly_evals(poly_query_set: &BTreeSet<(String, (String, Pt))>, evals: &Option<Vec<Fr>>) -> (r: BTreeMap<(String, Pt), Fr>)
    ensures evals is Some, r@ == pevals_spec(poly_query_set@, *evals) { unimplemented!() }
#[verifier::external_body] pub fn string_into(s: String) -> (r: String) ensures r == s { unimplemented!() }   // String::into::<String>
#[verifier::external_body] pub fn rt_label(l: &String, p: &Pt) -> (r: String) { unimplemented!() }        // format!("{}-{:?}", l, point): error text only

// ======================= specification =======================
pub open spec fn l_is_last(ls: Seq<&LinearCombination>, i: int) -> bool { 0 <= i < ls.len() && forall|j: int| i < j < ls.len() ==> (#[trigger] ls[j]).label != ls[i].label }
pub open spec fn lmap_ok(m: Map<&String, &LinearCombination>, ls: Seq<&LinearCombination>) -> bool {
    (forall|k: &String| m.dom().contains(k) == (exists|i: int| 0 <= i < ls.len() && (#[trigger] ls[i]).label == *k))
    && (forall|i: int| #[trigger] l_is_last(ls, i) ==> m[&ls[i].label] == ls[i])
}
// value of the first k terms of a combination at `pt` under the (to be verified) polynomial evaluations pe; None if one is missing
pub open spec fn lc_sum(ts: Seq<(Fr, LCTerm)>, pt: Pt, pe: Map<(String, Pt), Fr>, k: nat) -> Option<FS> decreases k {
    if k == 0 { Some(f_zero()) } else {
        match lc_sum(ts, pt, pe, (k - 1) as nat) {
            None => None,
            Some(acc) => match ts[k - 1].1 {
                LCTerm::One => Some(f_add(acc, f_mul(ts[k - 1].0@, f_one()))),
                LCTerm::PolyLabel(l) => if pe.dom().contains((l, pt)) { Some(f_add(acc, f_mul(ts[k - 1].0@, pe[(l, pt)]@))) } else { None },
            },
        }
    }
}
pub enum EqS { Cont, Rejected, Error }
// the equation checks over the first k queries (in the set's iteration order)
pub open spec fn crun(m: Map<&String, &LinearCombination>, q: Seq<(String, (String, Pt))>, ev: Map<(String, Pt), Fr>, pe: Map<(String, Pt), Fr>, k: nat) -> EqS decreases k {
    if k == 0 { EqS::Cont } else {
        match crun(m, q, ev, pe, (k - 1) as nat) {
            EqS::Cont => {
                let e = q[k - 1];
                if !m.dom().contains(&e.0) { EqS::Cont }                                   // a query for an unknown combination is skipped
                else if !ev.dom().contains((e.0, e.1.1)) { EqS::Error }                    // no claimed value
                else { match lc_sum(m[&e.0].terms@, e.1.1, pe, m[&e.0].terms@.len()) {
                    None => EqS::Error,                                                    // an underlying evaluation is missing
                    Some(v) => if ev[(e.0, e.1.1)]@ == v { EqS::Cont } else { EqS::Rejected },   // claimed value != sum_i coeff_i * eval_i (+ constants)
                } }
            },
            other => other,
        }
    }
}
pub open spec fn cc_post(vk: &VK, lcs: Seq<&LinearCombination>, cs: Seq<&LabeledCommitment<Comm>>, qs: Set<(String, (String, Pt))>, ev: Map<(String, Pt), Fr>, pr: &BatchLCProof, s0: SS, res: Result<bool, Error>, s1: SS) -> bool {
    exists|m: Map<&String, &LinearCombination>| #![trigger lmap_ok(m, lcs)] lmap_ok(m, lcs) && {
        let pqs = pqs_spec(m, qs); let pe = pevals_spec(pqs, pr.evals);
        match crun(m, set_seq(qs), ev, pe, set_seq(qs).len()) {
            EqS::Error => res is Err,
            EqS::Rejected => res == Ok::<bool, Error>(false) && s1 == s0,
            // every stated combination matches its claimed value under pe: the verdict is the batch verification of exactly those evaluations
            EqS::Cont => batch_post(vk, cs, pqs, pe, pr.proof.v@, s0, res, s1),
        }
    }
}

pub struct PC;
impl PC {
//@stub from=batch_default.rs id=lib.batch_check
//@fn id=lib.check_combinations file=poly-commit/src/lib.rs scope="pub trait PolynomialCommitment<F: PrimeField, P: Polynomial<F>>: Sized" name=check_combinations props=C06,C05
    #[verifier::loop_isolation(false)]
    fn check_combinations<'a>(vk: &VK, linear_combinations: Vec<&'a LinearCombination>, commitments: Vec<&'a LabeledCommitment<Comm>>, eqn_query_set: &BTreeSet<(String, (String, Pt))>, eqn_evaluations: &BTreeMap<(String, Pt), Fr>, proof: &BatchLCProof, sponge: &mut Sponge, rng: &mut Rng) -> (res: Result<bool, Error>)
    ensures
        cc_post(vk, linear_combinations@, commitments@, eqn_query_set@, eqn_evaluations@, proof, old(sponge).st@, res, final(sponge).st@),   // name=lib.check_combinations.equations_then_batch_verification props=C06,C05
//@body
//@r13
//@rw 1 /let BatchLCProof \{ proof, evals \} = proof;/ => let bp__ = proof; let proof = &bp__.proof; let evals = &bp__.evals;
//@rw 1 /(?s)let lc_s = BTreeMap::from_iter\((.*?)\);/ => let lv__: Vec<(&String, &LinearCombination)> = \1.collect();
        let lc_s: BTreeMap<&String, &LinearCombination> = btree_from_pairs(lv__);
        proof {
            assert forall|i: int| #[trigger] l_is_last(ls0, i) implies lc_s@[&ls0[i].label] == ls0[i] by {
                assert(lv__@[i].0 == &ls0[i].label);
                assert forall|j: int| i < j < lv__@.len() implies lv__@[j].0 != lv__@[i].0 by { assert(*lv__@[j].0 == ls0[j].label); }
            }
            assert forall|k: &String| lc_s@.dom().contains(k) == (exists|i: int| 0 <= i < ls0.len() && (#[trigger] ls0[i]).label == *k) by {
                if lc_s@.dom().contains(k) { let i = choose|i: int| 0 <= i < lv__@.len() && (#[trigger] lv__@[i]).0 == k; assert(ls0[i].label == *k); }
                if exists|i: int| 0 <= i < ls0.len() && (#[trigger] ls0[i]).label == *k { let i = choose|i: int| 0 <= i < ls0.len() && (#[trigger] ls0[i]).label == *k; assert(lv__@[i].0 == k); }
            }
            assert(lmap_ok(lc_s@, ls0));
        }
//@closure |lc| => |lc: &'a LinearCombination| -> (kv: (&String, &LinearCombination)) ensures *kv.0 == lc.label, kv.1 == lc
//@rw 1 /lc_query_set_to_poly_query_set\(lc_s\.values\(\)\.copied\(\), eqn_query_set\)/ => lc_query_set_to_poly_query_set(&lc_s, eqn_query_set)
//@rw 1 /(?s)let sorted_by_poly_and_query_label: BTreeSet<_> = poly_query_set.*?let poly_evals = Evaluations::from_iter\(.*?\n        \);/ => let poly_evals = build_poly_evals(&poly_query_set, evals);
//@rw 1 /for &\(ref lc_label, \(_, ref point\)\) in([^{]*?)eqn_query_set([^{]*)\{/ => let qv__ = query_set_to_vec(eqn_query_set); for q__ in\1qv__.iter()\2{ let lc_label: &String = &q__.0; let point: &Pt = &q__.1.1;
//@rw 1 /lc_s\.get\(lc_label\)/ => btree_get_by_label(&lc_s, lc_label)
//@rw 1 /lc_label\.clone\(\)/ => string_to_string(lc_label)
//@rw 1 /lc_label\.to_string\(\)/ => string_to_string(lc_label)
//@rw 1 /for \(coeff, label\) in([^{]*?)lc\.iter\(\)([^{]*)\{/ => for ct__ in\1lc.terms.iter()\2{ let coeff: &Fr = &ct__.0; let label: &LCTerm = &ct__.1;
//@rw 1 /l\.clone\(\)\.into\(\)/ => string_into(string_to_string(l))
//@rw 1 /format!\("[^"]*", l\.clone\(\), point\.clone\(\)\)/ => rt_label(l, point)
//@rw * /eprintln!\([^;]*\);/ => 
//@after start
        let ghost ls0 = linear_combinations@;
        let ghost s0 = sponge.st@;
//@beforeloop 1
        let ghost qseq = set_seq(eqn_query_set@);
        let ghost pe = poly_evals@;
        let ghost n = qseq.len();
//@loop 1 kw=for name=it
            invariant it.index@ <= qv__@.len(), qv__@.len() == n, forall|i: int| 0 <= i < n ==> *(#[trigger] qv__@[i]) == qseq[i],
                crun(lc_s@, qseq, eqn_evaluations@, pe, it.index@ as nat) is Cont, sponge.st@ == s0,
//@loopstart 1
            let ghost k = it.index@;
            proof { assert(*q__ == qseq[k]); }
//@before /let claimed_rhs = /
                proof {
                    if !eqn_evaluations@.dom().contains((*lc_label, *point)) {
                        assert(crun(lc_s@, qseq, eqn_evaluations@, pe, (k + 1) as nat) is Error);
                        lemma_crun_stays(lc_s@, qseq, eqn_evaluations@, pe, (k + 1) as nat, n);
                    }
                }
//@loop 2 kw=for name=it2
                    invariant it2.index@ <= lc.terms@.len(), lc_sum(lc.terms@, *point, pe, it2.index@ as nat) == Some(actual_rhs@),
//@loopstart 2
                    let ghost j = it2.index@;
                    proof {
                        assert(*ct__ == lc.terms@[j]);
                        match lc.terms@[j].1 {
                            LCTerm::One => {},
                            LCTerm::PolyLabel(l) => {
                                if !pe.dom().contains((l, *point)) {
                                    assert(lc_sum(lc.terms@, *point, pe, (j + 1) as nat) is None);
                                    lemma_lc_sum_none(lc.terms@, *point, pe, (j + 1) as nat, lc.terms@.len());
                                    assert(crun(lc_s@, qseq, eqn_evaluations@, pe, (k + 1) as nat) is Error);
                                    lemma_crun_stays(lc_s@, qseq, eqn_evaluations@, pe, (k + 1) as nat, n);
                                }
                            },
                        }
                    }
//@afterloop 2
                proof {
                    if claimed_rhs@ != actual_rhs@ {
                        assert(crun(lc_s@, qseq, eqn_evaluations@, pe, (k + 1) as nat) is Rejected);
                        lemma_crun_stays(lc_s@, qseq, eqn_evaluations@, pe, (k + 1) as nat, n);
                    }
                }
//@end
}
pub proof fn lemma_crun_stays(m: Map<&String, &LinearCombination>, q: Seq<(String, (String, Pt))>, ev: Map<(String, Pt), Fr>, pe: Map<(String, Pt), Fr>, k: nat, n: nat)
    requires k <= n, !(crun(m, q, ev, pe, k) is Cont)
    ensures crun(m, q, ev, pe, n) == crun(m, q, ev, pe, k)
    decreases n
{ if k < n { lemma_crun_stays(m, q, ev, pe, k, (n - 1) as nat); } }
pub proof fn lemma_lc_sum_none(ts: Seq<(Fr, LCTerm)>, pt: Pt, pe: Map<(String, Pt), Fr>, k: nat, n: nat)
    requires k <= n, lc_sum(ts, pt, pe, k) is None
    ensures lc_sum(ts, pt, pe, n) is None
    decreases n
{ if k < n { lemma_lc_sum_none(ts, pt, pe, k, (n - 1) as nat); } }
