// Short pairing verifiers: streaming_kzg::VerifierKey::verify, MultilinearPC::check  (C10, C02, C14)
//@use core ops_gen
//@spec ring
//@typemap /<E>/ => 
pub mod streaming_kzg {
    use super::*;
//@struct file=poly-commit/src/streaming_kzg/mod.rs name=VerifierKey
//@struct file=poly-commit/src/streaming_kzg/mod.rs name=Commitment
//@struct file=poly-commit/src/streaming_kzg/mod.rs name=EvaluationProof
    pub struct VerificationError;
    pub type VerificationResult = Result<(), VerificationError>;
    // published relation:  e(C - v*G, H) = e(pi, tau*H - alpha*H)   with G = powers_of_g[0], H = powers_of_g2[0], tau*H = powers_of_g2[1]
    pub open spec fn skzg_relation(vk: &VerifierKey, c: &Commitment, alpha: FS, v: FS, proof: &EvaluationProof) -> bool {
        pair(f_sub(c.0@, f_mul(vk.powers_of_g@[0]@, v)), vk.powers_of_g2@[0]@)
            == pair(proof.0@, f_add(f_mul(vk.powers_of_g2@[0]@, f_neg(alpha)), f_mul(vk.powers_of_g2@[1]@, f_one())))
    }
    impl VerifierKey {
//@fn id=streaming.verify file=poly-commit/src/streaming_kzg/mod.rs scope="impl<E: Pairing> VerifierKey<E>" name=verify props=C10,C02,C14
        pub fn verify(&self, commitment: &Commitment, alpha_ref: &Fr, evaluation: &Fr, proof: &EvaluationProof) -> (res: VerificationResult)
        requires
            self.powers_of_g@.len() >= 1,
            self.powers_of_g2@.len() >= 2,
        ensures
            (res is Ok) == skzg_relation(self, commitment, alpha_ref@, evaluation@, proof),   // name=streaming.verify.relation props=C10,C02,C14
//@body
//@destructure alpha_ref = &alpha
//@after start
        proof { reveal_with_fuel(dot, 3); broadcast use ax_add_zero, ax_add_comm; }
//@end
    }
//@lemma props=C02
    // C02: for a fixed point, value and proof, at most one commitment is accepted; for a fixed commitment, value and non-trivial proof, at most one point
    pub proof fn lemma_skzg_commitment_unique(vk: &VerifierKey, c1: &Commitment, c2: &Commitment, alpha: FS, v: FS, proof: &EvaluationProof)
        requires vk.powers_of_g2@[0]@ != f_zero(), skzg_relation(vk, c1, alpha, v, proof), skzg_relation(vk, c2, alpha, v, proof)
        ensures c1.0@ == c2.0@
    {
        let g = vk.powers_of_g@[0]@; let h = vk.powers_of_g2@[0]@;
        lemma_mul_cancel(f_sub(c1.0@, f_mul(g, v)), f_sub(c2.0@, f_mul(g, v)), h);
        lemma_sub_cancel_right(c1.0@, c2.0@, f_mul(g, v));
    }
//@lemma props=C02
    pub proof fn lemma_skzg_point_unique(vk: &VerifierKey, c: &Commitment, a1: FS, a2: FS, v: FS, proof: &EvaluationProof)
        requires vk.powers_of_g2@[0]@ != f_zero(), proof.0@ != f_zero(), skzg_relation(vk, c, a1, v, proof), skzg_relation(vk, c, a2, v, proof)
        ensures a1 == a2
    {
        let h = vk.powers_of_g2@[0]@; let t = f_mul(vk.powers_of_g2@[1]@, f_one());
        let r1 = f_add(f_mul(h, f_neg(a1)), t); let r2 = f_add(f_mul(h, f_neg(a2)), t);
        ax_mul_comm(proof.0@, r1); ax_mul_comm(proof.0@, r2);
        lemma_mul_cancel(r1, r2, proof.0@);
        lemma_add_cancel(f_mul(h, f_neg(a1)), f_mul(h, f_neg(a2)), t);
        ax_mul_comm(h, f_neg(a1)); ax_mul_comm(h, f_neg(a2));
        lemma_mul_cancel(f_neg(a1), f_neg(a2), h);
        lemma_neg_neg(a1); lemma_neg_neg(a2);
    }
//@lemma props=C02
    // C02: for a fixed commitment, point and proof, at most one value is accepted
    pub proof fn lemma_skzg_value_unique(vk: &VerifierKey, c: &Commitment, alpha: FS, v1: FS, v2: FS, proof: &EvaluationProof)
        requires vk.powers_of_g@[0]@ != f_zero(), vk.powers_of_g2@[0]@ != f_zero(), skzg_relation(vk, c, alpha, v1, proof), skzg_relation(vk, c, alpha, v2, proof)
        ensures v1 == v2
    {
        let g = vk.powers_of_g@[0]@; let h = vk.powers_of_g2@[0]@;
        lemma_mul_cancel(f_sub(c.0@, f_mul(g, v1)), f_sub(c.0@, f_mul(g, v2)), h);
        lemma_sub_cancel_left(c.0@, f_mul(g, v1), f_mul(g, v2));
        ax_mul_comm(g, v1); ax_mul_comm(g, v2);
        lemma_mul_cancel(v1, v2, g);
    }
}
pub mod multilinear_pc {
    use super::*;
//@typemap /Vec<EvaluationHyperCubeOnG1<E>>/ => Vec<Vec<G1Affine>>
//@typemap /Vec<EvaluationHyperCubeOnG2<E>>/ => Vec<Vec<G2Affine>>
//@typemap /&impl MultilinearExtension<E::ScalarField>/ => &MLE
//@typemap /<E::G1 as VariableBaseMSM>::/ => G1::
//@struct file=poly-commit/src/multilinear_pc/data_structures.rs name=UniversalParams
//@struct file=poly-commit/src/multilinear_pc/data_structures.rs name=VerifierKey
//@struct file=poly-commit/src/multilinear_pc/data_structures.rs name=CommitterKey
//@struct file=poly-commit/src/multilinear_pc/data_structures.rs name=Commitment
//@struct file=poly-commit/src/multilinear_pc/data_structures.rs name=Proof
    // published relation (PST13 multilinear, [Zhang et al. vSQL / Libra appendix]):
    //   e(C - v*G, H) = prod_{i < nv} e(G_mask_i - z_i*G, pi_i)
    pub open spec fn ml_lefts(vk: &VerifierKey, point: Seq<Fr>) -> Seq<FS> { Seq::new(vk.nv as nat, |i: int| f_sub(vk.g_mask_random@[i]@, f_mul(vk.g@, point[i]@))) }
    pub open spec fn mlpc_relation(vk: &VerifierKey, c: &Commitment, point: Seq<Fr>, v: FS, proof: &Proof) -> bool {
        pair(f_sub(c.g_product@, f_mul(vk.g@, v)), vk.h@)
            == dot(ml_lefts(vk, point), g2views(proof.proofs@), min(vk.nv as nat, proof.proofs@.len()))
    }
    // ark-poly MultilinearExtension (trusted): number of variables and the 2^nv evaluations over the hypercube
    pub struct MLE { pub num_vars: usize, pub evals: Vec<Fr> }
    impl MLE {
        #[verifier::external_body] pub fn num_vars(&self) -> (r: usize) ensures r == self.num_vars { unimplemented!() }
        #[verifier::external_body] pub fn to_evaluations(&self) -> (r: Vec<Fr>) ensures r@ == self.evals@ { unimplemented!() }
    }
    // `(&v[k..]).to_vec()`: a copy of the suffix starting at k (k > len: abort)
    #[verifier::external_body] pub fn vec_suffix_g1(v: &Vec<Vec<G1Affine>>, k: usize) -> (r: Vec<Vec<G1Affine>>) ensures k <= v@.len(), r@ == v@.subrange(k as int, v@.len() as int) { unimplemented!() }
    #[verifier::external_body] pub fn vec_suffix_g2(v: &Vec<Vec<G2Affine>>, k: usize) -> (r: Vec<Vec<G2Affine>>) ensures k <= v@.len(), r@ == v@.subrange(k as int, v@.len() as int) { unimplemented!() }
    #[verifier::external_body] pub fn vec_suffix_mask(v: &Vec<G1Affine>, k: usize) -> (r: Vec<G1Affine>) ensures k <= v@.len(), r@ == v@.subrange(k as int, v@.len() as int) { unimplemented!() }
    pub struct MultilinearPC;
    impl MultilinearPC {
//@fn id=multilinear_pc.trim file=poly-commit/src/multilinear_pc/mod.rs scope="impl<E: Pairing> MultilinearPC<E>" name=trim props=C09
        pub fn trim(params: &UniversalParams, supported_num_vars: usize) -> (r: (CommitterKey, VerifierKey))
        requires
            params.powers_of_g@.len() == params.num_vars, params.powers_of_h@.len() == params.num_vars, params.g_mask@.len() == params.num_vars,     // shape of setup's output
        ensures
            // (more variables than the parameters support: abort)  the keys are the LAST supported_num_vars tables / masks, same generators
            supported_num_vars <= params.num_vars,
            r.0.nv == supported_num_vars && r.1.nv == supported_num_vars && r.0.g == params.g && r.0.h == params.h && r.1.g == params.g && r.1.h == params.h,   // name=multilinear_pc.trim.generators_and_size props=C09
            r.0.powers_of_g@ == params.powers_of_g@.subrange(params.num_vars - supported_num_vars, params.num_vars as int)
                && r.0.powers_of_h@ == params.powers_of_h@.subrange(params.num_vars - supported_num_vars, params.num_vars as int),   // name=multilinear_pc.trim.committer_key_is_the_suffix_of_the_tables props=C09
            r.1.g_mask_random@ == params.g_mask@.subrange(params.num_vars - supported_num_vars, params.num_vars as int),   // name=multilinear_pc.trim.verifier_masks_are_the_matching_suffix props=C09
//@body
//@rw 1 /assert!\(supported_num_vars <= params\.num_vars\);/ => rassert!(supported_num_vars <= params.num_vars);
//@rw 1 /\(&params\.powers_of_h\[(.*?)\.\.\]\)\.to_vec\(\)/ => vec_suffix_g2(&params.powers_of_h, \1)
//@rw 1 /\(&params\.powers_of_g\[(.*?)\.\.\]\)\.to_vec\(\)/ => vec_suffix_g1(&params.powers_of_g, \1)
//@rw 1 /\(&params\.g_mask\[(.*?)\.\.\]\)\.to_vec\(\)/ => vec_suffix_mask(&params.g_mask, \1)
//@end
//@fn id=multilinear_pc.commit file=poly-commit/src/multilinear_pc/mod.rs scope="impl<E: Pairing> MultilinearPC<E>" name=commit props=C08,C19
        pub fn commit(ck: &CommitterKey, polynomial: &MLE) -> (res: Commitment)
        requires
            ck.powers_of_g@.len() >= 1,
        ensures
            res.nv == polynomial.num_vars,
            // one group element: the evaluations over the hypercube against the first row of the key
            res.g_product@ == msm(ck.powers_of_g@[0]@, fviews(polynomial.evals@), min(ck.powers_of_g@[0]@.len(), polynomial.evals@.len())),   // name=multilinear_pc.commit.key_defined_linear_map_of_the_evaluations props=C08,C19
//@body
//@rw 1 /let scalars: Vec<_> =/ => let scalars: Vec<BigInt> =
//@closure |x| => |x: Fr| -> (b: BigInt) ensures b@ == x@
//@rw 1 /&ck\.powers_of_g\[0\]/ => ck.powers_of_g[0].as_slice()
//@after /let scalars: Vec<_> =/
            proof { assert(bviews(scalars@) =~= fviews(polynomial.evals@)); }
//@end
//@fn id=multilinear_pc.check file=poly-commit/src/multilinear_pc/mod.rs scope="impl<E: Pairing> MultilinearPC<E>" name=check props=C10,C02
        pub fn check<'a>(vk: &VerifierKey, commitment: &Commitment, point: &[Fr], value: Fr, proof: &Proof) -> (res: bool)
        requires
            vk.nv <= vk.g_mask_random@.len(),
            vk.nv <= point@.len(),
        ensures
            res == mlpc_relation(vk, commitment, point@, value@, proof),   // name=multilinear_pc.check.relation props=C10,C02
//@body
//@closure |i| => |i: usize| -> (r: G1) requires i < vk.nv ensures r@ == f_sub(vk.g_mask_random@[i as int]@, g_mul@[i as int]@)
//@closure |x| #1 => |x: G1Affine| -> (r: G1Prepared) ensures r@ == x@
//@closure |x| #2 => |x: &G2Affine| -> (r: G2Prepared) ensures r@ == x@
//@before /let right =/
        proof {
            assert(g1prep_views(pairing_lefts@) =~= ml_lefts(vk, point@));
            assert(g2prep_views(pairing_rights@) =~= g2views(proof.proofs@));
        }
//@end
    }
//@lemma props=C02
    pub proof fn lemma_mlpc_commitment_unique(vk: &VerifierKey, c1: &Commitment, c2: &Commitment, point: Seq<Fr>, v: FS, proof: &Proof)
        requires vk.h@ != f_zero(), mlpc_relation(vk, c1, point, v, proof), mlpc_relation(vk, c2, point, v, proof)
        ensures c1.g_product@ == c2.g_product@
    {
        lemma_mul_cancel(f_sub(c1.g_product@, f_mul(vk.g@, v)), f_sub(c2.g_product@, f_mul(vk.g@, v)), vk.h@);
        lemma_sub_cancel_right(c1.g_product@, c2.g_product@, f_mul(vk.g@, v));
    }
//@lemma props=C02
    // C02: for a fixed commitment, point and proof, at most one value is accepted
    pub proof fn lemma_mlpc_value_unique(vk: &VerifierKey, c: &Commitment, point: Seq<Fr>, v1: FS, v2: FS, proof: &Proof)
        requires vk.g@ != f_zero(), vk.h@ != f_zero(), mlpc_relation(vk, c, point, v1, proof), mlpc_relation(vk, c, point, v2, proof)
        ensures v1 == v2
    {
        lemma_mul_cancel(f_sub(c.g_product@, f_mul(vk.g@, v1)), f_sub(c.g_product@, f_mul(vk.g@, v2)), vk.h@);
        lemma_sub_cancel_left(c.g_product@, f_mul(vk.g@, v1), f_mul(vk.g@, v2));
        ax_mul_comm(vk.g@, v1); ax_mul_comm(vk.g@, v2);
        lemma_mul_cancel(v1, v2, vk.g@);
    }
}
