// Short pairing verifiers: streaming_kzg::VerifierKey::verify, MultilinearPC::check  (C10, C02, C14)
//@use core ops_gen
//@spec ring
//@typemap /<E>/ => 
pub mod streaming_kzg {
    use super::*;
//@struct file=poly-commit/src/streaming_kzg/mod.rs name=VerifierKey
//@struct file=poly-commit/src/streaming_kzg/mod.rs name=Commitment
//@struct file=poly-commit/src/streaming_kzg/mod.rs name=EvaluationProof
    pub struct VerificationError;
    pub type VerificationResult = Result<(), VerificationError>;
    // published relation:  e(C - v*G, H) = e(pi, tau*H - alpha*H)   with G = powers_of_g[0], H = powers_of_g2[0], tau*H = powers_of_g2[1]
    pub open spec fn skzg_relation(vk: &VerifierKey, c: &Commitment, alpha: FS, v: FS, proof: &EvaluationProof) -> bool {
        pair(f_sub(c.0@, f_mul(vk.powers_of_g@[0]@, v)), vk.powers_of_g2@[0]@)
            == pair(proof.0@, f_add(f_mul(vk.powers_of_g2@[0]@, f_neg(alpha)), f_mul(vk.powers_of_g2@[1]@, f_one())))
    }
    impl VerifierKey {
//@fn id=streaming.verify file=poly-commit/src/streaming_kzg/mod.rs scope="impl<E: Pairing> VerifierKey<E>" name=verify props=C10,C02,C14
        pub fn verify(&self, commitment: &Commitment, alpha_ref: &Fr, evaluation: &Fr, proof: &EvaluationProof) -> (res: VerificationResult)
        requires
            self.powers_of_g@.len() >= 1,
            self.powers_of_g2@.len() >= 2,
        ensures
            (res is Ok) == skzg_relation(self, commitment, alpha_ref@, evaluation@, proof),   // name=streaming.verify.relation props=C10,C02,C14
//@body
//@destructure alpha_ref = &alpha
//@after /let ep =/
        proof { reveal_with_fuel(dot, 3); broadcast use ax_add_zero, ax_add_comm; }
//@end
    }
}
pub mod multilinear_pc {
    use super::*;
//@typemap /Vec<EvaluationHyperCubeOnG1<E>>/ => Vec<Vec<G1Affine>>
//@typemap /Vec<EvaluationHyperCubeOnG2<E>>/ => Vec<Vec<G2Affine>>
//@typemap /&impl MultilinearExtension<E::ScalarField>/ => &MLE
//@typemap /<E::G1 as VariableBaseMSM>::/ => G1::
//@struct file=poly-commit/src/multilinear_pc/data_structures.rs name=VerifierKey
//@struct file=poly-commit/src/multilinear_pc/data_structures.rs name=CommitterKey
//@struct file=poly-commit/src/multilinear_pc/data_structures.rs name=Commitment
//@struct file=poly-commit/src/multilinear_pc/data_structures.rs name=Proof
    // published relation (PST13 multilinear, [Zhang et al. vSQL / Libra appendix]):
    //   e(C - v*G, H) = prod_{i < nv} e(G_mask_i - z_i*G, pi_i)
    pub open spec fn ml_lefts(vk: &VerifierKey, point: Seq<Fr>) -> Seq<FS> { Seq::new(vk.nv as nat, |i: int| f_sub(vk.g_mask_random@[i]@, f_mul(vk.g@, point[i]@))) }
    pub open spec fn mlpc_relation(vk: &VerifierKey, c: &Commitment, point: Seq<Fr>, v: FS, proof: &Proof) -> bool {
        pair(f_sub(c.g_product@, f_mul(vk.g@, v)), vk.h@)
            == dot(ml_lefts(vk, point), g2views(proof.proofs@), min(vk.nv as nat, proof.proofs@.len()))
    }
    // ark-poly MultilinearExtension (trusted): number of variables and the 2^nv evaluations over the hypercube
    pub struct MLE { pub num_vars: usize, pub evals: Vec<Fr> }
    impl MLE {
        #[verifier::external_body] pub fn num_vars(&self) -> (r: usize) ensures r == self.num_vars { unimplemented!() }
        #[verifier::external_body] pub fn to_evaluations(&self) -> (r: Vec<Fr>) ensures r@ == self.evals@ { unimplemented!() }
    }
    pub struct MultilinearPC;
    impl MultilinearPC {
//@fn id=multilinear_pc.commit file=poly-commit/src/multilinear_pc/mod.rs scope="impl<E: Pairing> MultilinearPC<E>" name=commit props=C08,C19
        pub fn commit(ck: &CommitterKey, polynomial: &MLE) -> (res: Commitment)
        requires
            ck.powers_of_g@.len() >= 1,
        ensures
            res.nv == polynomial.num_vars,
            // one group element: the evaluations over the hypercube against the first row of the key
            res.g_product@ == msm(ck.powers_of_g@[0]@, fviews(polynomial.evals@), min(ck.powers_of_g@[0]@.len(), polynomial.evals@.len())),   // name=multilinear_pc.commit.key_defined_linear_map_of_the_evaluations props=C08,C19
//@body
//@rw 1 /let scalars: Vec<_> =/ => let scalars: Vec<BigInt> =
//@closure |x| => |x: Fr| -> (b: BigInt) ensures b@ == x@
//@rw 1 /&ck\.powers_of_g\[0\]/ => ck.powers_of_g[0].as_slice()
//@after /let scalars: Vec<_> =/
            proof { assert(bviews(scalars@) =~= fviews(polynomial.evals@)); }
//@end
//@fn id=multilinear_pc.check file=poly-commit/src/multilinear_pc/mod.rs scope="impl<E: Pairing> MultilinearPC<E>" name=check props=C10,C02
        pub fn check<'a>(vk: &VerifierKey, commitment: &Commitment, point: &[Fr], value: Fr, proof: &Proof) -> (res: bool)
        requires
            vk.nv <= vk.g_mask_random@.len(),
            vk.nv <= point@.len(),
        ensures
            res == mlpc_relation(vk, commitment, point@, value@, proof),   // name=multilinear_pc.check.relation props=C10,C02
//@body
//@closure |i| => |i: usize| -> (r: G1) requires i < vk.nv ensures r@ == f_sub(vk.g_mask_random@[i as int]@, g_mul@[i as int]@)
//@closure |x| #1 => |x: G1Affine| -> (r: G1Prepared) ensures r@ == x@
//@closure |x| #2 => |x: &G2Affine| -> (r: G2Prepared) ensures r@ == x@
//@before /let right =/
        proof {
            assert(g1prep_views(pairing_lefts@) =~= ml_lefts(vk, point@));
            assert(g2prep_views(pairing_rights@) =~= g2views(proof.proofs@));
        }
//@end
    }
}
