// linear_codes/utils.rs + utils.rs helpers: ceil_div, get_num_bytes, get_indices_from_sponge, calculate_t (C13, C17, C11)
//@use core ops_gen sponge std
//@enum file=poly-commit/src/error.rs name=Error
//@use real
//@spec lc_utils_spec

// ---------- oracle side ----------
pub proof fn lemma_bitlen_bounds(n: nat)
    ensures n < p2(bitlen(n)), n > 0 ==> n >= p2((bitlen(n) - 1) as nat)
    decreases n
{ if n > 0 { lemma_bitlen_bounds(n / 2); } }
pub proof fn lemma_p2_mono(a: nat, b: nat) requires a <= b ensures p2(a) <= p2(b) decreases b
{ if a < b { lemma_p2_mono(a, (b - 1) as nat); } }
pub proof fn lemma_p2_256(k: nat) ensures p2(8 * k) == pow256(k) decreases k
{ if k > 0 { lemma_p2_256((k - 1) as nat); reveal_with_fuel(p2, 9); assert(p2(8 * k) == 256 * p2((8 * (k - 1)) as nat)); } }
pub proof fn lemma_be_bound(b: Seq<u8>, k: nat) requires k <= b.len() ensures be_value(b, k) < pow256(k) decreases k
{ if k > 0 { lemma_be_bound(b, (k - 1) as nat); } }

pub proof fn lemma_ceil_div(x: int, y: int)
    requires y > 0, x >= 0
    ensures ((x + y - 1) / y) * y >= x, x > 0 ==> ((x + y - 1) / y - 1) * y < x, (x + y - 1) / y >= 0
{
    let r = (x + y - 1) / y;
    assert((x + y - 1) == y * r + (x + y - 1) % y) by { vstd::arithmetic::div_mod::lemma_fundamental_div_mod(x + y - 1, y); }
    assert(0 <= (x + y - 1) % y < y) by { vstd::arithmetic::div_mod::lemma_mod_bound(x + y - 1, y); }
    assert(r * y == y * r) by (nonlinear_arith);
    assert((r - 1) * y == r * y - y) by (nonlinear_arith);
    assert(r >= 0) by (nonlinear_arith) requires y * r + (x + y - 1) % y >= 0, (x + y - 1) % y < y, y > 0;
}
//@fn id=utils.ceil_div file=poly-commit/src/utils.rs scope=top name=ceil_div props=C17,C13,C19
pub fn ceil_div(x: usize, y: usize) -> (r: usize)
    requires
        y > 0,
        x + y <= usize::MAX,
    ensures
        r == (x + y - 1) / (y as int),      // name=utils.ceil_div.value props=C17,C13
        r * y >= x, x > 0 ==> (r - 1) * y < x,   // name=utils.ceil_div.is_ceiling props=C13,C19
//@body
//@after start
    proof { lemma_ceil_div(x as int, y as int); }
//@end

//@fn id=utils.ceil_mul file=poly-commit/src/utils.rs scope=top name=ceil_mul props=C13,C19
pub fn ceil_mul(a: usize, b: (usize, usize)) -> (r: usize)
    requires
        b.1 > 0,
        a * b.0 + b.1 <= usize::MAX,
    ensures
        r == (a * b.0 + b.1 - 1) / (b.1 as int),                              // name=utils.ceil_mul.value props=C13
        r * b.1 >= a * b.0, a * b.0 > 0 ==> (r - 1) * b.1 < a * b.0,          // name=utils.ceil_mul.is_ceiling_of_a_times_the_fraction props=C13,C19
//@body
//@after start
    proof {
        assert(a * b.0 >= 0) by (nonlinear_arith) requires a >= 0, b.0 >= 0;
        lemma_ceil_div((a * b.0) as int, b.1 as int);
    }
//@end

//@fn id=lc_utils.get_num_bytes file=poly-commit/src/linear_codes/utils.rs scope=top name=get_num_bytes props=C13
pub fn get_num_bytes(n: usize) -> (r: usize)
    ensures
        r <= 8,
        r == get_num_bytes_spec(n),
        n < pow256(r as nat),                            // name=lc_utils.get_num_bytes.enough_bytes props=C13
        r > 0 ==> n >= pow256((r - 1) as nat),           // name=lc_utils.get_num_bytes.least props=C13
//@body
//@before /ceil_div\(/
    proof {
        let b = bitlen(n as nat); let r = (b + 7) / 8;
        lemma_bitlen_bounds(n as nat);
        lemma_p2_mono(b, 8 * r); lemma_p2_256(r);
        if r > 0 { lemma_p2_256((r - 1) as nat); lemma_p2_mono((8 * (r - 1)) as nat, (b - 1) as nat); }
    }
//@end

//@fn id=lc_utils.get_indices_from_sponge file=poly-commit/src/linear_codes/utils.rs scope=top name=get_indices_from_sponge props=C13,C11,C10
pub fn get_indices_from_sponge(n: usize, t: usize, sponge: &mut Sponge) -> (res: Result<Vec<usize>, Error>)
    requires
        n > 0,
    ensures
        res is Ok,
        res->Ok_0@.len() == t,                                                         // name=lc_utils.indices.count_is_t props=C13
        forall|j: int| 0 <= j < t ==> (#[trigger] res->Ok_0@[j]) < n,                  // name=lc_utils.indices.in_range props=C13
        forall|j: int| 0 <= j < t ==> (#[trigger] res->Ok_0@[j]) == be_value(sp_sqb(idx_state(old(sponge).st@, get_num_bytes_spec(n), j as nat), get_num_bytes_spec(n)), get_num_bytes_spec(n)) % (n as nat),   // name=lc_utils.indices.derived_from_transcript props=C13,C10,C11
        final(sponge).st@ == idx_state(old(sponge).st@, get_num_bytes_spec(n), t as nat),   // name=lc_utils.indices.squeeze_absorb_schedule props=C11
//@body
//@rw 1 /let ind = bytes\.iter\(\)\.fold\(0, \|acc, &x\| (.*)\);/ => let mut acc__: usize = 0;
        for x__ in itb__: bytes.iter()
            invariant bytes@.len() == bytes_to_squeeze, bytes_to_squeeze <= 8, acc__ == be_value(bytes@, itb__.index@ as nat), acc__ < pow256(itb__.index@ as nat),
        {
            let acc = acc__; let x = *x__;
            proof {
                assert(acc < 0x100000000000000usize ==> (acc << 8usize) == acc * 256) by (bit_vector);
                reveal_with_fuel(pow256, 9);
                assert(pow256(itb__.index@ as nat) <= pow256(7)) by { lemma_pow256_mono(itb__.index@ as nat, 7); }
            }
            acc__ = \1;
        }
        let ind = acc__;
//@rw 1 /let mut indices = Vec::with_capacity\(t\);/ => let mut indices: Vec<usize> = Vec::with_capacity(t);
//@loop 1 kw=for name=it
        invariant n > 0, bytes_to_squeeze == get_num_bytes_spec(n), bytes_to_squeeze <= 8,
            indices@.len() == it.index@, 
            sponge.st@ == idx_state(old(sponge).st@, bytes_to_squeeze as nat, it.index@ as nat),
            forall|j: int| 0 <= j < it.index@ ==> (#[trigger] indices@[j]) < n,
            forall|j: int| 0 <= j < it.index@ ==> (#[trigger] indices@[j]) == be_value(sp_sqb(idx_state(old(sponge).st@, bytes_to_squeeze as nat, j as nat), bytes_to_squeeze as nat), bytes_to_squeeze as nat) % (n as nat),
//@end
pub proof fn lemma_pow256_mono(a: nat, b: nat) requires a <= b ensures pow256(a) <= pow256(b) decreases b
{ if a < b { lemma_pow256_mono(a, (b - 1) as nat); } }

// ======================= calculate_t (C13): least t with 2*(1 - d/2)^t + n/|F| <= 2^-lambda, over the reals =======================
#[verifier::external_body] pub fn modulus_bit_size() -> (r: u32) ensures r == MBS(), 0 < r < 0x4000_0000 { unimplemented!() }
//@fn id=lc_utils.calculate_t file=poly-commit/src/linear_codes/utils.rs scope=top name=calculate_t props=C13,C17,C19
pub fn calculate_t(sec_param: usize, distance: (usize, usize), codeword_len: usize) -> (res: Result<usize, Error>)
    requires
        sec_param <= 0x7fff_ffff,
    ensures
        (res is Ok) == t_params_ok(sec_param as int, distance, codeword_len as int),   // name=lc_utils.calculate_t.err_iff_unusable_parameters props=C13,C17
        res is Ok ==> res->Ok_0 <= codeword_len,                                       // name=lc_utils.calculate_t.capped_at_codeword_length props=C13,C19
        res is Ok ==> res->Ok_0 == t_value(sec_param as int, distance, codeword_len as int),   // name=lc_utils.calculate_t.value props=C13
        (res is Ok && 0 <= t_star(sec_param as int, distance, codeword_len as int) < codeword_len) ==> res->Ok_0 == t_star(sec_param as int, distance, codeword_len as int),   // name=lc_utils.calculate_t.is_t_star props=C13
        (res is Ok && t_star(sec_param as int, distance, codeword_len as int) >= codeword_len) ==> res->Ok_0 == codeword_len,   // name=lc_utils.calculate_t.cap props=C13,C19
//@body
//@rw 1 /F::MODULUS_BIT_SIZE/ => modulus_bit_size()
//@r8
//@rw 2 /"\s*"\s*\.to_string\(\)/ => rt_string()
//@after /let residual =/
    proof { ax_pow_pos(2real, field_bits as int); }
//@after /let denom =/
    proof {
        let d0 = distance.0 as real; let d1 = distance.1 as real;
        if distance.1 != 0 {
            assert((5real / 10real) * d0 / d1 == d0 / (2real * d1)) by (nonlinear_arith) requires d1 != 0real;
        }
        // (facts about ceil(nom / denom), wherever the quotient is used below)
        ax_ceil(nom@ / denom@); ax_ceil_int(r_ceil(nom@ / denom@));
    }
//@end

// the defining property of t*: it meets the soundness bound and t* - 1 does not
//@lemma props=C13
pub proof fn lemma_least_t(x: real, r_: real, t: int)
    requires 0real < x < 1real, 0real < r_, r_log2(x) < 0real, t >= 0
    ensures (2real * r_pow(x, t) <= r_) == ((t as real) >= (r_log2(r_) - 1real) / r_log2(x))
{
    broadcast use ax_log_mono, ax_log_pow, ax_log_half;
    let p = r_pow(x, t);
    ax_log_pow(x, t);
    assert((2real * p <= r_) == (p <= r_ / 2real)) by (nonlinear_arith);
    assert((p <= r_ / 2real) == (r_log2(p) <= r_log2(r_ / 2real)));
    let l = r_log2(x); let q = r_log2(r_) - 1real; let tr = t as real;
    assert((tr * l <= q) == (tr >= q / l)) by (nonlinear_arith) requires l < 0real;
}
//@lemma props=C13
pub proof fn lemma_t_star_is_least(sec_param: int, d: (usize, usize), n: int)
    requires t_params_ok(sec_param, d, n), t_base(d) < 1real, t_star(sec_param, d, n) >= 1
    ensures
        2real * r_pow(t_base(d), t_star(sec_param, d, n)) <= t_residual(sec_param, n),          // t* meets 2*(1-d/2)^t + n/|F| <= 2^-lambda
        !(2real * r_pow(t_base(d), t_star(sec_param, d, n) - 1) <= t_residual(sec_param, n)),   // t* - 1 does not
{
    let x = t_base(d); let r_ = t_residual(sec_param, n); let ts = t_star(sec_param, d, n);
    ax_log_one(); broadcast use ax_log_mono;
    assert(r_log2(x) <= r_log2(1real));
    let q = (r_log2(r_) - 1real) / r_log2(x);
    ax_ceil(q);
    lemma_least_t(x, r_, ts);
    lemma_least_t(x, r_, ts - 1);
}
