// InnerProductArgPC::open (ipa_pc/mod.rs), FIRST PHASE ONLY: the challenge-weighted combination of polynomials, commitments and blinding  (C11, C01, C04, C17)
//@use core ops_gen poly labeled labeled_comm sponge std ser
//@spec ring
//@typemap /<G>/ => 
//@typemap /G::Group::/ => G1::
//@typemap /Option<G>/ => Option<G1Affine>
//@typemap /Vec<G>/ => Vec<G1Affine>
//@typemap /: G,/ => : G1Affine,
//@typemap /&\[G\]/ => &[G1Affine]
//@typemap /\bG::zero\(\)/ => G1Affine::zero()
//@typemap /G::ScalarField::/ => Fr::
//@typemap /Self::CommitterKey/ => CommitterKey
//@typemap /Self::Commitment\b/ => Commitment
//@typemap /Self::CommitmentState/ => Randomness
//@typemap /Self::Error/ => Error
//@typemap /: &P =/ => : &Poly =
//@enum file=poly-commit/src/error.rs name=Error
//@struct file=poly-commit/src/ipa_pc/data_structures.rs name=CommitterKey
//@struct file=poly-commit/src/ipa_pc/data_structures.rs name=Commitment
//@struct file=poly-commit/src/ipa_pc/data_structures.rs name=Randomness
impl CommitterKey {
//@stub from=ipa.rs id=ipa.CommitterKey.supported_degree
}
//@struct file=poly-commit/src/ipa_pc/data_structures.rs name=Proof
pub type VerifierKey = CommitterKey;
//@use h2c
//@spec h2c_spec scp_spec ipa_spec ipa_rest_spec
// WHAT IS DROPPED: everything from `let h_prime = ..` on (the log(d) folding rounds over split_at_mut slices and the proof assembly) is cut and replaced by
// one abstract call; this unit decides the combination loop, the hiding step, the first round challenge and the transcript schedule of the prover.
#[verifier::external_body] pub fn vec_zero_fr(len: usize) -> (r: Vec<Fr>) ensures r@.len() == len, forall|i: int| 0 <= i < len ==> (#[trigger] r@[i])@ == f_zero() { unimplemented!() }
// `ipa_open_rest` = the rest of `open` from `let h_prime = ..` on: its contract is PROVED in units/ipa_open_fold.rs (the same source text, second fragment)
#[verifier::external_body] pub fn normalize_pair(a: G1, b: G1) -> (r: Vec<G1Affine>) ensures r@.len() == 2, r@[0]@ == a@, r@[1]@ == b@ { unimplemented!() }   // G::Group::normalize_batch(&[a, b])
impl Poly {
    #[verifier::external_body] pub fn sub_assign_poly(&mut self, q: &Poly) ensures forall|x: FS| #[trigger] final(self).ev(x) == f_sub(old(self).ev(x), q.ev(x)), final(self).wf(),
                final(self).coeffs@.len() <= (if old(self).coeffs@.len() >= q.coeffs@.len() { old(self).coeffs@.len() } else { q.coeffs@.len() }) { unimplemented!() }      // p -= &q
    #[verifier::external_body] pub fn from_coeffs1(a: Fr) -> (r: Poly) ensures forall|x: FS| #[trigger] r.ev(x) == a@, r.coeffs@.len() <= 1 { unimplemented!() }                                    // from_coefficients_slice(&[a])
    #[verifier::external_body] pub fn add_assign_scaled(&mut self, q: (Fr, &Poly))
        ensures forall|x: FS| #[trigger] final(self).ev(x) == f_add(old(self).ev(x), f_mul(q.0@, q.1.ev(x))), final(self).wf(),
                final(self).coeffs@.len() <= (if old(self).coeffs@.len() >= q.1.coeffs@.len() { old(self).coeffs@.len() } else { q.1.coeffs@.len() }) { unimplemented!() }
}
// X^(D - d) p(X) as shift_polynomial returns it (D = supported degree)
pub open spec fn ipa_shw(ck: &CommitterKey, d: usize, p: &Poly, x: FS) -> FS { if p.is_zero_spec() { f_zero() } else { f_mul(f_pow(x, (ck.comm_key@.len() - 1 - d) as nat), p.ev(x)) } }
// the prover's combined polynomial after k polynomials:  sum_j  xi_{2j} p_j  +  xi_{2j+1} X^(D-d_j) p_j  (second term for degree-bounded ones)
pub open spec fn ipa_cp(ck: &CommitterKey, lps: Seq<&LabeledPolynomial>, s: SS, k: nat, x: FS) -> FS decreases k {
    if k == 0 { f_zero() } else { let j = (k - 1) as nat; let a = f_add(ipa_cp(ck, lps, s, j, x), f_mul(sp_chal(s, 2 * j), lps[j as int].polynomial.ev(x)));
        match lps[j as int].degree_bound { Some(b) => f_add(a, f_mul(sp_chal(s, 2 * j + 1), ipa_shw(ck, b, &lps[j as int].polynomial, x))), None => a } }
}
// the combined blinding scalar
pub open spec fn ipa_cr(lps: Seq<&LabeledPolynomial>, sts: Seq<&Randomness>, s: SS, k: nat) -> FS decreases k {
    if k == 0 { f_zero() } else { let j = (k - 1) as nat;
        if lps[j as int].hiding_bound is Some {
            let a = f_add(ipa_cr(lps, sts, s, j), f_mul(sp_chal(s, 2 * j), sts[j as int].rand@));
            if lps[j as int].degree_bound is Some { f_add(a, f_mul(sp_chal(s, 2 * j + 1), sts[j as int].shifted_rand->Some_0@)) } else { a }
        } else { ipa_cr(lps, sts, s, j) } }
}
pub open spec fn min3(a: nat, b: nat, c: nat) -> nat { min(a, min(b, c)) }
pub struct InnerProductArgPC;
impl InnerProductArgPC {
//@stub from=ipa.rs id=ipa.check_degrees_and_bounds
//@stub from=ipa.rs id=ipa.cm_commit
//@stub from=ipa.rs id=ipa.compute_random_oracle_challenge
//@stub from=ipa_shift.rs id=ipa.shift_polynomial
//@stub from=ipa_open_fold.rs id=ipa.open.folding_rounds
//@fn id=ipa.open.combination_phase file=poly-commit/src/ipa_pc/mod.rs scope="impl<G, D, P> PolynomialCommitment<G::ScalarField, P> for InnerProductArgPC<G, D, P>" name=open props=C11,C01,C04,C17,C07
    fn open<'a>(ck: &CommitterKey, labeled_polynomials: Vec<&'a LabeledPolynomial>, commitments: Vec<&'a LabeledCommitment<Commitment>>, point: &'a Fr, sponge: &mut Sponge,
                states: Vec<&'a Randomness>, rng: Option<&mut Rng>) -> (res: Result<Proof, Error>)
    requires
        ck.comm_key@.len() >= 1, ck.comm_key@.len() < 0x4000_0000_0000_0000,
        exists|k: nat| vstd::arithmetic::power2::pow2(k) == ck.comm_key@.len(),     // the key length is a power of two (setup / trim round up to one)
        forall|i: int| 0 <= i < labeled_polynomials@.len() ==> (#[trigger] labeled_polynomials@[i]).polynomial.wf() && labeled_polynomials@[i].polynomial.coeffs@.len() < 0x4000_0000_0000_0000,
    ensures
        // the prover squeezes exactly like the verifier (succinct_check): one challenge up front, two per polynomial
        res is Ok ==> final(sponge).st@ == sp_iter(old(sponge).st@, 1 + 2 * min3(labeled_polynomials@.len(), commitments@.len(), states@.len())),   // name=ipa.open.squeeze_schedule_matches_verifier props=C11,C07,C01
//@body
//@rw 1 /P::zero\(\)/ => Poly::zero()
//@rw 1 /let polys_iter = labeled_polynomials\.into_iter\(\);/ => let polys_unused__ = 0usize;
//@rw 1 /let states_iter = states\.into_iter\(\);/ => let states_unused__ = 0usize;
//@rw 1 /let comms_iter = commitments\.into_iter\(\);/ => let comms_unused__ = 0usize;
//@rw 1 /polys_iter\.zip\(comms_iter\.zip\(states_iter\)\)/ => labeled_polynomials.into_iter().zip(commitments.into_iter().zip(states.into_iter()))
//@rw 2 /combined_polynomial \+= \((cur_challenge), ([^;]*)\);/ => combined_polynomial.add_assign_scaled((\1, \2));
//@rw 1 /commitment\.shifted_comm\.unwrap\(\)\.mul\(cur_challenge\)/ => commitment.shifted_comm.unwrap_abort().mul(cur_challenge)
//@rw 1 /shifted_rand\.unwrap\(\)\)/ => shifted_rand.unwrap_abort())
//@rw 1 /(?s)let h_prime = ck\.h\.mul\(round_challenge\)\.into_affine\(\);.*\}\)\s*\}\s*$/ => Self::ipa_open_rest(ck, &combined_polynomial, combined_rand, hiding_commitment, round_challenge, point, d, log_d) }
//@rw 1 /\bark_std::log2\(d \+ 1\) as usize/ => log2_ceil(d + 1) as usize
//@rw 1 /let mut rng = rng\.expect\("[^"]*"\);/ => let rng = rng.unwrap_abort();
//@rw 1 /P::rand\(d, &mut rng\)/ => Poly::rand(d, rng)
//@rw 1 /hiding_polynomial -= &P::from_coefficients_slice\(&\[(.*?)\]\);/ => let ghost hp0 = hiding_polynomial; let hv__ = \1; hiding_polynomial.sub_assign_poly(&Poly::from_coeffs1(hv__));
//@rw 1 /G::ScalarField::rand\(&mut rng\)/ => Fr::rand(rng)
//@rw 1 /(?s)G::Group::normalize_batch\(&\[combined_commitment_proj, hiding_commitment_proj\]\)/ => normalize_pair(combined_commitment_proj, hiding_commitment_proj)
//@rw 2 /batch\.pop\(\)\.unwrap\(\)/ => batch.pop().unwrap_abort()
//@rw 2 /let mut byte_vec = Vec::new\(\);/ => let mut byte_vec: Vec<u8> = Vec::new();
//@rw * /(?s)\.serialize_uncompressed\(&mut byte_vec\)\s*\.unwrap\(\)/ => .serialize_uncompressed(&mut byte_vec).unwrap_abort()
//@rw * /hiding_commitment\s*\.unwrap\(\)/ => hiding_commitment.unwrap_abort()
//@rw 1 /combined_polynomial \+= \(hiding_challenge, &hiding_polynomial\);/ => combined_polynomial.add_assign_scaled((hiding_challenge, &hiding_polynomial));
//@rw 1 /let mut combined_commitment;/ => let mut combined_commitment: G1Affine;
//@after start
        let ghost s0 = sponge.st@; let ghost lps = labeled_polynomials@; let ghost cs = commitments@; let ghost sts = states@;
//@loop 1 kw=for name=it
            invariant it.index@ <= min3(lps.len(), cs.len(), sts.len()), lps == labeled_polynomials@, cs == commitments@, sts == states@, s0 == old(sponge).st@,
                ck.comm_key@.len() >= 1, ck.comm_key@.len() < 0x4000_0000_0000_0000,
                forall|i: int| 0 <= i < lps.len() ==> (#[trigger] lps[i]).polynomial.wf() && lps[i].polynomial.coeffs@.len() < 0x4000_0000_0000_0000,
                sponge.st@ == sp_iter(s0, 1 + 2 * it.index@ as nat), cur_challenge@ == sp_chal(s0, 2 * it.index@ as nat),
                combined_commitment_proj@ == ipa_acc_c(cs, s0, it.index@ as nat),
                forall|x: FS| #[trigger] combined_polynomial.ev(x) == ipa_cp(ck, lps, s0, it.index@ as nat, x),
                combined_rand@ == ipa_cr(lps, sts, s0, it.index@ as nat),
                combined_polynomial.wf(), combined_polynomial.coeffs@.len() <= ck.comm_key@.len(),
//@after /let mut cur_challenge = sponge/
        proof { reveal_with_fuel(sp_iter, 3); }
//@loopstart 1
            proof { reveal_with_fuel(sp_iter, 4); }
//@after /let combined_v = combined_polynomial\.evaluate\(point\);/
        proof {
            let n = min3(lps.len(), cs.len(), sts.len());
            // what the first phase hands to the rest of the prover: the verifier's own combined commitment, the combined polynomial and its value at the point
            assert(combined_commitment_proj@ == ipa_acc_c(cs, s0, n));                                   // ipa.open.combined_commitment_is_the_verifiers
            assert(forall|x: FS| #[trigger] combined_polynomial.ev(x) == ipa_cp(ck, lps, s0, n, x));      // ipa.open.combined_polynomial
            assert(combined_v@ == ipa_cp(ck, lps, s0, n, point@));                                        // ipa.open.combined_value_is_the_combined_polynomial_at_the_point
            assert(combined_rand@ == ipa_cr(lps, sts, s0, n));                                            // ipa.open.combined_blinding
        }
//@before /if has_hiding \{/ #1
        let ghost mut g_hch: FS = f_zero(); let ghost mut g_hcm: FS = f_zero(); let ghost mut g_cr: FS = f_zero();
//@before /let mut hiding_polynomial = P::rand/
            let ghost cp0 = combined_polynomial; let ghost c00 = combined_commitment_proj@;
//@before /end_timer!\(hiding_time\);/
            proof {
                let v = combined_v@;
                g_hch = hiding_challenge@; g_hcm = hiding_commitment->Some_0@; g_cr = combined_rand@;
                assert(hiding_challenge@ == ro_chal(Seq::<u8>::empty() + g1_ser_u(c00) + fr_ser_u(point@) + fr_ser_u(v) + g1_ser_u(g_hcm)));
                assert(combined_commitment_proj@ == f_add(c00, f_sub(f_mul(g_hcm, g_hch), f_mul(ck.s@, g_cr))));
                // the hiding polynomial vanishes at the point: the claimed value is unchanged
                assert(hv__@ == hp0.ev(point@));
                lemma_sub_self(hv__@); lemma_mul_zero(g_hch); ax_add_zero(cp0.ev(point@));
                assert(combined_polynomial.ev(point@) == v);                                              // ipa.open.hiding_polynomial_vanishes_at_the_point
            }
//@before /let h_prime = ck\.h\.mul/
        proof {
            let n = min3(lps.len(), cs.len(), sts.len()); let c0 = ipa_acc_c(cs, s0, n); let v = combined_v@;
            // the first round challenge hashes (C, z, v) exactly as the verifier does (ipa_first)
            assert(round_challenge@ == ipa_first(combined_commitment@, point@, v));                      // ipa.open.first_round_challenge_as_the_verifier_derives_it
            if has_hiding {
                assert(hiding_commitment is Some && combined_rand is Some && hiding_commitment->Some_0@ == g_hcm && combined_rand->Some_0@ == g_cr);
                // C' = C + hch * hiding_comm - s * rand'   (the verifier's ipa_comb with proof.hiding_comm / proof.rand)
                assert(g_hch == ro_chal(Seq::<u8>::empty() + g1_ser_u(c0) + fr_ser_u(point@) + fr_ser_u(v) + g1_ser_u(g_hcm)));
                assert(combined_commitment@ == f_add(c0, f_sub(f_mul(g_hcm, g_hch), f_mul(ck.s@, g_cr))));   // ipa.open.hiding_step_as_the_verifier_recomputes_it
            } else {
                assert(hiding_commitment is None && combined_rand is None && combined_commitment@ == c0);
            }
        }
//@end
}
