// InnerProductArgPC::open (ipa_pc/mod.rs), FIRST PHASE ONLY: the challenge-weighted combination of polynomials, commitments and blinding  (C11, C01, C04, C17)
//@use core ops_gen poly labeled labeled_comm sponge std ser
//@spec ring
//@typemap /<G>/ => 
//@typemap /G::Group::/ => G1::
//@typemap /Option<G>/ => Option<G1Affine>
//@typemap /Vec<G>/ => Vec<G1Affine>
//@typemap /: G,/ => : G1Affine,
//@typemap /&\[G\]/ => &[G1Affine]
//@typemap /\bG::zero\(\)/ => G1Affine::zero()
//@typemap /G::ScalarField::/ => Fr::
//@typemap /Self::CommitterKey/ => CommitterKey
//@typemap /Self::Commitment\b/ => Commitment
//@typemap /Self::CommitmentState/ => Randomness
//@typemap /Self::Error/ => Error
//@typemap /: &P =/ => : &Poly =
//@enum file=poly-commit/src/error.rs name=Error
//@struct file=poly-commit/src/ipa_pc/data_structures.rs name=CommitterKey
//@struct file=poly-commit/src/ipa_pc/data_structures.rs name=Commitment
//@struct file=poly-commit/src/ipa_pc/data_structures.rs name=Randomness
impl CommitterKey {
//@stub from=ipa.rs id=ipa.CommitterKey.supported_degree
}
//@struct file=poly-commit/src/ipa_pc/data_structures.rs name=Proof
pub type VerifierKey = CommitterKey;
//@use h2c
//@spec h2c_spec scp_spec ipa_spec ipa_rest_spec pcf_spec ipa_msm_spec ipa_commit_spec
// WHAT IS DROPPED: everything from `let h_prime = ..` on (the log(d) folding rounds over split_at_mut slices and the proof assembly) is cut and replaced by
// one abstract call; this unit decides the combination loop, the hiding step, the first round challenge and the transcript schedule of the prover.
#[verifier::external_body] pub fn vec_zero_fr(len: usize) -> (r: Vec<Fr>) ensures r@.len() == len, forall|i: int| 0 <= i < len ==> (#[trigger] r@[i])@ == f_zero() { unimplemented!() }
// `ipa_open_rest` = the rest of `open` from `let h_prime = ..` on: its contract is PROVED in units/ipa_open_fold.rs (the same source text, second fragment)
#[verifier::external_body] pub fn normalize_pair(a: G1, b: G1) -> (r: Vec<G1Affine>) ensures r@.len() == 2, r@[0]@ == a@, r@[1]@ == b@ { unimplemented!() }   // G::Group::normalize_batch(&[a, b])
impl Poly {
    #[verifier::external_body] pub fn sub_assign_poly(&mut self, q: &Poly) ensures forall|x: FS| #[trigger] final(self).ev(x) == f_sub(old(self).ev(x), q.ev(x)), final(self).wf(),
                final(self).coeffs@.len() <= (if old(self).coeffs@.len() >= q.coeffs@.len() { old(self).coeffs@.len() } else { q.coeffs@.len() }) { unimplemented!() }      // p -= &q
    #[verifier::external_body] pub fn from_coeffs1(a: Fr) -> (r: Poly) ensures forall|x: FS| #[trigger] r.ev(x) == a@, r.coeffs@.len() <= 1 { unimplemented!() }                                    // from_coefficients_slice(&[a])
    #[verifier::external_body] pub fn add_assign_scaled(&mut self, q: (Fr, &Poly))
        ensures forall|x: FS| #[trigger] final(self).ev(x) == f_add(old(self).ev(x), f_mul(q.0@, q.1.ev(x))), final(self).wf(),
                forall|t: int| #[trigger] pcf(final(self), t) == f_add(pcf(old(self), t), f_mul(q.0@, pcf(q.1, t))),     // `p += (c, &q)` is coefficient-wise (ark-poly)
                final(self).coeffs@.len() <= (if old(self).coeffs@.len() >= q.1.coeffs@.len() { old(self).coeffs@.len() } else { q.1.coeffs@.len() }) { unimplemented!() }
}
// X^(D - d) p(X) as shift_polynomial returns it (D = supported degree)
pub open spec fn ipa_shw(ck: &CommitterKey, d: usize, p: &Poly, x: FS) -> FS { if p.is_zero_spec() { f_zero() } else { f_mul(f_pow(x, (ck.comm_key@.len() - 1 - d) as nat), p.ev(x)) } }
// the prover's combined polynomial after k polynomials:  sum_j  xi_{2j} p_j  +  xi_{2j+1} X^(D-d_j) p_j  (second term for degree-bounded ones)
pub open spec fn ipa_cp(ck: &CommitterKey, lps: Seq<&LabeledPolynomial>, s: SS, k: nat, x: FS) -> FS decreases k {
    if k == 0 { f_zero() } else { let j = (k - 1) as nat; let a = f_add(ipa_cp(ck, lps, s, j, x), f_mul(sp_chal(s, 2 * j), lps[j as int].polynomial.ev(x)));
        match lps[j as int].degree_bound { Some(b) => f_add(a, f_mul(sp_chal(s, 2 * j + 1), ipa_shw(ck, b, &lps[j as int].polynomial, x))), None => a } }
}
// the combined blinding scalar
pub open spec fn ipa_cr(lps: Seq<&LabeledPolynomial>, sts: Seq<&Randomness>, s: SS, k: nat) -> FS decreases k {
    if k == 0 { f_zero() } else { let j = (k - 1) as nat;
        if lps[j as int].hiding_bound is Some {
            let a = f_add(ipa_cr(lps, sts, s, j), f_mul(sp_chal(s, 2 * j), sts[j as int].rand@));
            if lps[j as int].degree_bound is Some { f_add(a, f_mul(sp_chal(s, 2 * j + 1), sts[j as int].shifted_rand->Some_0@)) } else { a }
        } else { ipa_cr(lps, sts, s, j) } }
}
// HYPOTHESIS of the completeness statements: commitment c and state st are what `commit` returns for p (implied by `ipa_commit_one`, units/ipa_commit.rs)
pub open spec fn ipa_honest(ck: &CommitterKey, p: &LabeledPolynomial, c: &LabeledCommitment<Commitment>, st: &Randomness) -> bool {
    let d = p.polynomial.degree_spec(); let n = ck.comm_key@.len();
    c.degree_bound == p.degree_bound && (c.commitment.shifted_comm is Some) == (p.degree_bound is Some)
    && (p.hiding_bound is None ==> st.rand@ == f_zero())
    && c.commitment.comm@ == f_add(msm(ck.comm_key@.subrange(0, (d + 1) as int), p.polynomial.cv(), min((d + 1) as nat, p.polynomial.len())), f_mul(ck.s@, st.rand@))
    && (p.degree_bound is Some ==> {
        let w = ck.comm_key@.subrange(n - 1 - p.degree_bound->Some_0, n as int);
        (p.hiding_bound is Some ==> st.shifted_rand is Some)
        && c.commitment.shifted_comm->Some_0@ == f_add(msm(w, p.polynomial.cv(), min(w.len(), p.polynomial.len())),
            if p.hiding_bound is Some { f_mul(ck.s@, st.shifted_rand->Some_0@) } else { f_zero() }) })
}
pub open spec fn ipa_all_honest(ck: &CommitterKey, lps: Seq<&LabeledPolynomial>, cs: Seq<&LabeledCommitment<Commitment>>, sts: Seq<&Randomness>) -> bool {
    forall|j: int| 0 <= j < min3(lps.len(), cs.len(), sts.len()) ==> ipa_honest(ck, #[trigger] lps[j], cs[j], sts[j])
}
// what `open` returns for honest inputs: a0 is the coefficient vector of the (blinded) combined polynomial; the commitment the VERIFIER starts its rounds from
// (ipa_comb with the proof's hiding_comm / rand) is <a0, G>, the claimed combined value is a0(z), and the rounds' relation holds for the verifier's first challenge
pub open spec fn ipa_open_comb(ck: &CommitterKey, cs: Seq<&LabeledCommitment<Commitment>>, z: FS, v: FS, s: SS, n: nat, pr: &Proof) -> FS {
    let c0 = ipa_acc_c(cs, s, n);
    if pr.hiding_comm is Some {
        let hc = ro_chal(Seq::<u8>::empty() + g1_ser_u(c0) + fr_ser_u(z) + fr_ser_u(v) + g1_ser_u(pr.hiding_comm->Some_0@));
        f_add(c0, f_sub(f_mul(pr.hiding_comm->Some_0@, hc), f_mul(ck.s@, pr.rand->Some_0@)))
    } else { c0 }
}
pub open spec fn ipa_open_wit(ck: &CommitterKey, lps: Seq<&LabeledPolynomial>, cs: Seq<&LabeledCommitment<Commitment>>, z: FS, s: SS, n: nat, pr: &Proof, a0: Seq<FS>) -> bool {
    let nn = ck.comm_key@.len(); let v = ipa_cp(ck, lps, s, n, z); let comb = ipa_open_comb(ck, cs, z, v, s, n, pr);
    a0.len() == nn && msm(ck.comm_key@, a0, nn) == comb && peval(a0, z, nn) == v && ipa_rest_rel(ck, a0, z, ipa_first(comb, z, v), pr)
}
pub open spec fn ipa_open_ok(ck: &CommitterKey, lps: Seq<&LabeledPolynomial>, cs: Seq<&LabeledCommitment<Commitment>>, sts: Seq<&Randomness>, z: FS, s: SS, pr: &Proof) -> bool {
    exists|a0: Seq<FS>| #[trigger] ipa_open_wit(ck, lps, cs, z, s, min3(lps.len(), cs.len(), sts.len()), pr, a0)
}
pub open spec fn min3(a: nat, b: nat, c: nat) -> nat { min(a, min(b, c)) }
pub struct InnerProductArgPC;
impl InnerProductArgPC {
//@stub from=ipa.rs id=ipa.check_degrees_and_bounds
//@stub from=ipa.rs id=ipa.cm_commit
//@stub from=ipa.rs id=ipa.compute_random_oracle_challenge
//@stub from=ipa_shift.rs id=ipa.shift_polynomial
//@stub from=ipa_open_fold.rs id=ipa.open.folding_rounds
//@fn id=ipa.open.combination_phase file=poly-commit/src/ipa_pc/mod.rs scope="impl<G, D, P> PolynomialCommitment<G::ScalarField, P> for InnerProductArgPC<G, D, P>" name=open props=C11,C01,C04,C17,C07,C19
    fn open<'a>(ck: &CommitterKey, labeled_polynomials: Vec<&'a LabeledPolynomial>, commitments: Vec<&'a LabeledCommitment<Commitment>>, point: &'a Fr, sponge: &mut Sponge,
                states: Vec<&'a Randomness>, rng: Option<&mut Rng>) -> (res: Result<Proof, Error>)
    requires
        ck.comm_key@.len() >= 1, ck.comm_key@.len() < 0x4000_0000_0000_0000,
        exists|k: nat| vstd::arithmetic::power2::pow2(k) == ck.comm_key@.len(),     // the key length is a power of two (setup / trim round up to one)
        forall|i: int| 0 <= i < labeled_polynomials@.len() ==> (#[trigger] labeled_polynomials@[i]).polynomial.wf() && labeled_polynomials@[i].polynomial.coeffs@.len() < 0x4000_0000_0000_0000,
    ensures
        // the prover squeezes exactly like the verifier (succinct_check): one challenge up front, two per polynomial
        res is Ok ==> final(sponge).st@ == sp_iter(old(sponge).st@, 1 + 2 * min3(labeled_polynomials@.len(), commitments@.len(), states@.len())),   // name=ipa.open.squeeze_schedule_matches_verifier props=C11,C07,C01,C19
        // COMPLETENESS, prover side: for honest commitments the proof satisfies the verifier's relation for the verifier's own starting commitment and challenges
        (res is Ok && ipa_all_honest(ck, labeled_polynomials@, commitments@, states@)) ==> ipa_open_ok(ck, labeled_polynomials@, commitments@, states@, point@, old(sponge).st@, &res->Ok_0),   // name=ipa.open.honest_inputs_give_a_proof_the_verifier_accepts props=C01,C10,C19
//@body
//@rw 1 /P::zero\(\)/ => Poly::zero()
//@rw 1 /let polys_iter = labeled_polynomials\.into_iter\(\);/ => let polys_unused__ = 0usize;
//@rw 1 /let states_iter = states\.into_iter\(\);/ => let states_unused__ = 0usize;
//@rw 1 /let comms_iter = commitments\.into_iter\(\);/ => let comms_unused__ = 0usize;
//@rw 1 /polys_iter\.zip\(comms_iter\.zip\(states_iter\)\)/ => labeled_polynomials.into_iter().zip(commitments.into_iter().zip(states.into_iter()))
//@rw 2 /combined_polynomial \+= \((cur_challenge), ([^;]*)\);/ => combined_polynomial.add_assign_scaled((\1, \2));
//@rw 1 /commitment\.shifted_comm\.unwrap\(\)\.mul\(cur_challenge\)/ => commitment.shifted_comm.unwrap_abort().mul(cur_challenge)
//@rw 1 /shifted_rand\.unwrap\(\)\)/ => shifted_rand.unwrap_abort())
//@rw 1 /(?s)let h_prime = ck\.h\.mul\(round_challenge\)\.into_affine\(\);.*\}\)\s*\}\s*$/ => let res__ = Self::ipa_open_rest(ck, &combined_polynomial, combined_rand, hiding_commitment, round_challenge, point, d, log_d); proof { if hon && res__ is Ok { let pr = res__->Ok_0; let key = ck.comm_key@; let nn = key.len(); let a0 = padz(combined_polynomial.cv(), nn); let n = min3(lps.len(), cs.len(), sts.len()); let v = combined_v@; assert(v == ipa_cp(ck, lps, s0, n, point@)); assert(ipa_open_comb(ck, cs, point@, v, s0, n, &pr) == combined_commitment@); lemma_peval_ext(combined_polynomial.cv(), a0, point@, combined_polynomial.len()); lemma_peval_trailing_zeros(a0, point@, combined_polynomial.len(), nn); assert(peval(a0, point@, nn) == v); assert(ipa_open_wit(ck, lps, cs, point@, s0, n, &pr, a0)); } } res__ }
//@rw 1 /\bark_std::log2\(d \+ 1\) as usize/ => log2_ceil(d + 1) as usize
//@rw 1 /let mut rng = rng\.expect\("[^"]*"\);/ => let rng = rng.unwrap_abort();
//@rw 1 /P::rand\(d, &mut rng\)/ => Poly::rand(d, rng)
//@rw 1 /hiding_polynomial -= &P::from_coefficients_slice\(&\[(.*?)\]\);/ => let ghost hp0 = hiding_polynomial; let hv__ = \1; hiding_polynomial.sub_assign_poly(&Poly::from_coeffs1(hv__));
//@rw 1 /G::ScalarField::rand\(&mut rng\)/ => Fr::rand(rng)
//@rw 1 /(?s)G::Group::normalize_batch\(&\[combined_commitment_proj, hiding_commitment_proj\]\)/ => normalize_pair(combined_commitment_proj, hiding_commitment_proj)
//@rw 2 /batch\.pop\(\)\.unwrap\(\)/ => batch.pop().unwrap_abort()
//@rw 2 /let mut byte_vec = Vec::new\(\);/ => let mut byte_vec: Vec<u8> = Vec::new();
//@rw * /(?s)\.serialize_uncompressed\(&mut byte_vec\)\s*\.unwrap\(\)/ => .serialize_uncompressed(&mut byte_vec).unwrap_abort()
//@rw * /hiding_commitment\s*\.unwrap\(\)/ => hiding_commitment.unwrap_abort()
//@rw 1 /combined_polynomial \+= \(hiding_challenge, &hiding_polynomial\);/ => combined_polynomial.add_assign_scaled((hiding_challenge, &hiding_polynomial));
//@rw 1 /let mut combined_commitment;/ => let mut combined_commitment: G1Affine;
//@after start
        let ghost s0 = sponge.st@; let ghost lps = labeled_polynomials@; let ghost cs = commitments@; let ghost sts = states@;
        let ghost hon = ipa_all_honest(ck, lps, cs, sts);
//@loop 1 kw=for name=it
            invariant it.index@ <= min3(lps.len(), cs.len(), sts.len()), lps == labeled_polynomials@, cs == commitments@, sts == states@, s0 == old(sponge).st@,
                ck.comm_key@.len() >= 1, ck.comm_key@.len() < 0x4000_0000_0000_0000,
                forall|i: int| 0 <= i < lps.len() ==> (#[trigger] lps[i]).polynomial.wf() && lps[i].polynomial.coeffs@.len() < 0x4000_0000_0000_0000,
                sponge.st@ == sp_iter(s0, 1 + 2 * it.index@ as nat), cur_challenge@ == sp_chal(s0, 2 * it.index@ as nat),
                combined_commitment_proj@ == ipa_acc_c(cs, s0, it.index@ as nat),
                forall|x: FS| #[trigger] combined_polynomial.ev(x) == ipa_cp(ck, lps, s0, it.index@ as nat, x),
                combined_rand@ == ipa_cr(lps, sts, s0, it.index@ as nat),
                combined_polynomial.wf(), combined_polynomial.coeffs@.len() <= ck.comm_key@.len(),
                hon == ipa_all_honest(ck, lps, cs, sts), !has_hiding ==> combined_rand@ == f_zero(),
                hon ==> f_add(pm(ck.comm_key@, &combined_polynomial), f_mul(ck.s@, combined_rand@)) == combined_commitment_proj@,
//@after /let mut cur_challenge = sponge/
        proof {
            reveal_with_fuel(sp_iter, 3);
            let key = ck.comm_key@; let zz = padz(combined_polynomial.cv(), key.len());
            assert forall|i: int| 0 <= i < key.len() implies zz[i] == f_zero() by {}
            lemma_dot_all_zero(g1views(key), zz, key.len()); lemma_mul_zero(ck.s@); ax_add_zero(f_zero());
        }
//@loopstart 1
            proof { reveal_with_fuel(sp_iter, 4); }
            let ghost jj = it.index@; let ghost cp_a = combined_polynomial; let ghost cr_a = combined_rand@; let ghost cc_a = combined_commitment_proj@; let ghost xi0 = cur_challenge@;
            let ghost mut sp_g: Poly = combined_polynomial;
//@before /let has_degree_bound = degree_bound\.is_some\(\);/
            let ghost cp_b = combined_polynomial; let ghost cr_b = combined_rand@; let ghost cc_b = combined_commitment_proj@; let ghost xi1 = cur_challenge@;
            proof {
                if hon {
                    let key = ck.comm_key@; let p = polynomial; let st = sts[jj];
                    assert(ipa_honest(ck, lps[jj], cs[jj], sts[jj]));
                    assert(p.coeffs@.len() > 0 ==> p.coeffs@[p.coeffs@.len() - 1]@ != f_zero());
                    if !p.is_zero_spec() { assert(p.degree_spec() + 1 == p.len()); }
                    lemma_pm_prefix(key, p, (p.degree_spec() + 1) as nat);
                    lemma_pm_lin(key, &cp_b, &cp_a, xi0, p);
                    if hiding_bound is Some { lemma_acc_alg(pm(key, &cp_a), cr_a, pm(key, p), st.rand@, ck.s@, xi0); }
                    else { lemma_acc_alg(pm(key, &cp_a), cr_a, pm(key, p), f_zero(), ck.s@, xi0); lemma_mul_zero(xi0); ax_add_zero(cr_a); }
                    assert(f_add(pm(key, &cp_b), f_mul(ck.s@, cr_b)) == cc_b);
                }
            }
//@after /let shifted_polynomial = Self::shift_polynomial\(ck, polynomial, degree_bound\);/
                proof { sp_g = shifted_polynomial; }
//@loopend 1
            proof {
                if hon {
                    let key = ck.comm_key@; let p = polynomial; let st = sts[jj];
                    if lps[jj].degree_bound is Some {
                        let b = lps[jj].degree_bound->Some_0;
                        if !p.is_zero_spec() { assert(p.degree_spec() + 1 == p.len()); }
                        lemma_pm_shift(key, p, &sp_g, b as nat);
                        lemma_pm_lin(key, &combined_polynomial, &cp_b, xi1, &sp_g);
                        if hiding_bound is Some { lemma_acc_alg(pm(key, &cp_b), cr_b, pm(key, &sp_g), st.shifted_rand->Some_0@, ck.s@, xi1); }
                        else { lemma_acc_alg(pm(key, &cp_b), cr_b, pm(key, &sp_g), f_zero(), ck.s@, xi1); lemma_mul_zero(xi1); ax_add_zero(cr_b); lemma_mul_zero(ck.s@); ax_add_zero(pm(key, &sp_g)); }
                    }
                    assert(f_add(pm(key, &combined_polynomial), f_mul(ck.s@, combined_rand@)) == combined_commitment_proj@);
                }
            }
//@after /let combined_v = combined_polynomial\.evaluate\(point\);/
        proof {
            let n = min3(lps.len(), cs.len(), sts.len());
            // what the first phase hands to the rest of the prover: the verifier's own combined commitment, the combined polynomial and its value at the point
            assert(combined_commitment_proj@ == ipa_acc_c(cs, s0, n));                                   // ipa.open.combined_commitment_is_the_verifiers
            assert(forall|x: FS| #[trigger] combined_polynomial.ev(x) == ipa_cp(ck, lps, s0, n, x));      // ipa.open.combined_polynomial
            assert(combined_v@ == ipa_cp(ck, lps, s0, n, point@));                                        // ipa.open.combined_value_is_the_combined_polynomial_at_the_point
            assert(combined_rand@ == ipa_cr(lps, sts, s0, n));                                            // ipa.open.combined_blinding
        }
//@before /if has_hiding \{/ #1
        let ghost mut g_hch: FS = f_zero(); let ghost mut g_hcm: FS = f_zero(); let ghost mut g_cr: FS = f_zero();
//@before /let mut hiding_polynomial = P::rand/
            let ghost cp0 = combined_polynomial; let ghost c00 = combined_commitment_proj@; let ghost cr0 = combined_rand@;
//@before /end_timer!\(hiding_time\);/
            proof {
                let v = combined_v@;
                g_hch = hiding_challenge@; g_hcm = hiding_commitment->Some_0@; g_cr = combined_rand@;
                assert(hiding_challenge@ == ro_chal(Seq::<u8>::empty() + g1_ser_u(c00) + fr_ser_u(point@) + fr_ser_u(v) + g1_ser_u(g_hcm)));
                assert(combined_commitment_proj@ == f_add(c00, f_sub(f_mul(g_hcm, g_hch), f_mul(ck.s@, g_cr))));
                // the hiding polynomial vanishes at the point: the claimed value is unchanged
                assert(hv__@ == hp0.ev(point@));
                lemma_sub_self(hv__@); lemma_mul_zero(g_hch); ax_add_zero(cp0.ev(point@));
                assert(combined_polynomial.ev(point@) == v);                                              // ipa.open.hiding_polynomial_vanishes_at_the_point
                if hon {
                    // the blinded combined polynomial is what the corrected commitment C' commits to:  M(cp + hch hp) = C + hch hiding_comm - s rand'
                    let key = ck.comm_key@;
                    assert(key.subrange(0, key.len() as int) =~= key);
                    lemma_pm_prefix(key, &hiding_polynomial, key.len());
                    lemma_pm_lin(key, &combined_polynomial, &cp0, g_hch, &hiding_polynomial);
                    lemma_hide_alg(pm(key, &cp0), cr0, pm(key, &hiding_polynomial), hiding_rand@, ck.s@, g_hch);
                    assert(pm(key, &combined_polynomial) == combined_commitment_proj@);
                }
            }
//@before /let combined_rand = if has_hiding/
        proof { if hon && !has_hiding { lemma_mul_zero(ck.s@); ax_add_zero(pm(ck.comm_key@, &combined_polynomial)); } assert(hon ==> pm(ck.comm_key@, &combined_polynomial) == combined_commitment_proj@); }
//@before /let h_prime = ck\.h\.mul/
        proof {
            let n = min3(lps.len(), cs.len(), sts.len()); let c0 = ipa_acc_c(cs, s0, n); let v = combined_v@;
            // the first round challenge hashes (C, z, v) exactly as the verifier does (ipa_first)
            assert(round_challenge@ == ipa_first(combined_commitment@, point@, v));                      // ipa.open.first_round_challenge_as_the_verifier_derives_it
            if has_hiding {
                assert(hiding_commitment is Some && combined_rand is Some && hiding_commitment->Some_0@ == g_hcm && combined_rand->Some_0@ == g_cr);
                // C' = C + hch * hiding_comm - s * rand'   (the verifier's ipa_comb with proof.hiding_comm / proof.rand)
                assert(g_hch == ro_chal(Seq::<u8>::empty() + g1_ser_u(c0) + fr_ser_u(point@) + fr_ser_u(v) + g1_ser_u(g_hcm)));
                assert(combined_commitment@ == f_add(c0, f_sub(f_mul(g_hcm, g_hch), f_mul(ck.s@, g_cr))));   // ipa.open.hiding_step_as_the_verifier_recomputes_it
            } else {
                assert(hiding_commitment is None && combined_rand is None && combined_commitment@ == c0);
            }
        }
//@end
}

// ---------------- completeness of the inner-product-argument scheme, over the contracts of open (both fragments) and check ----------------
pub proof fn lemma_p2_is_pow2_(k: nat) ensures p2(k) == vstd::arithmetic::power2::pow2(k) decreases k
{ vstd::arithmetic::power2::lemma2_to64(); if k > 0 { lemma_p2_is_pow2_((k - 1) as nat); vstd::arithmetic::power2::lemma_pow2_unfold(k); } }
// with the honest values v_j = p_j(z) the verifier's combined value is the combined polynomial at z
pub proof fn lemma_ipa_acc_v_is_cp(ck: &CommitterKey, lps: Seq<&LabeledPolynomial>, cs: Seq<&LabeledCommitment<Commitment>>, vs: Seq<Fr>, z: FS, s: SS, k: nat)
    requires k <= lps.len(), k <= cs.len(), k <= vs.len(),
        forall|j: int| 0 <= j < k ==> (#[trigger] cs[j]).degree_bound == lps[j].degree_bound && vs[j]@ == lps[j].polynomial.ev(z)
            && (lps[j].degree_bound is Some ==> lps[j].degree_bound->Some_0 <= ck.comm_key@.len() - 1)
    ensures ipa_acc_v(cs, vs, z, (ck.comm_key@.len() - 1) as nat, s, k) == ipa_cp(ck, lps, s, k, z)
    decreases k
{
    if k > 0 {
        let j = (k - 1) as nat; let ji = j as int;
        lemma_ipa_acc_v_is_cp(ck, lps, cs, vs, z, s, j);
        assert(cs[ji].degree_bound == lps[ji].degree_bound && vs[ji]@ == lps[ji].polynomial.ev(z));
        if lps[ji].degree_bound is Some {
            let b = lps[ji].degree_bound->Some_0; let p = lps[ji].polynomial; let x1 = sp_chal(s, 2 * j + 1); let v = vs[ji]@;
            let e = f_pow(z, (ck.comm_key@.len() - 1 - b) as nat);
            if p.is_zero_spec() {
                assert forall|i: int| 0 <= i < p.cv().len() implies p.cv()[i] == f_zero() by { assert(p.coeffs@[i]@ == f_zero()); }
                lemma_peval_zero(p.cv(), z, p.len());
                lemma_mul_zero(x1); ax_mul_comm(f_zero(), e); lemma_mul_zero(e);
            } else {
                ax_mul_assoc(x1, v, e); ax_mul_comm(v, e);
            }
        }
    }
}
// what `check` tests (its contract, units/ipa.rs: `Err` iff the round count is wrong, otherwise `Ok(relation && final key)`)
pub open spec fn ipa_check_accepts(vk: &VerifierKey, cs: Seq<&LabeledCommitment<Commitment>>, vs: Seq<Fr>, z: Fr, pr: &Proof, s: SS) -> bool {
    let n = min(cs.len(), vs.len());
    pr.l_vec@.len() == pr.r_vec@.len() && is_ceil_log2(vk.comm_key@.len(), pr.l_vec@.len())
    && ipa_relation(vk, cs, vs, z, pr, s, n)
    && ipa_final_key(vk, ipa_u(vk, cs, vs, z, pr, s, n)) == pr.final_comm_key@
}
//@lemma props=C01,C10
// COMPLETENESS: commitments as `commit` returns them (ipa_honest), the proof as `open` returns it (its postcondition ipa_open_ok), the claimed values the true
// evaluations  ==>  `check` accepts.   Hypotheses that are not discharged here: none beyond the listed ones (the key is any key of power-of-two length).
pub proof fn lemma_ipa_complete(ck: &CommitterKey, lps: Seq<&LabeledPolynomial>, cs: Seq<&LabeledCommitment<Commitment>>, sts: Seq<&Randomness>, vs: Seq<Fr>, z: Fr, s: SS, pr: &Proof)
    requires
        lps.len() == cs.len(), sts.len() == cs.len(), vs.len() == cs.len(), ck.comm_key@.len() >= 1,
        ipa_all_honest(ck, lps, cs, sts),
        forall|j: int| 0 <= j < lps.len() ==> (#[trigger] vs[j])@ == lps[j].polynomial.ev(z@) && (lps[j].degree_bound is Some ==> lps[j].degree_bound->Some_0 <= ck.comm_key@.len() - 1),
        ipa_open_ok(ck, lps, cs, sts, z@, s, pr),
    ensures
        ipa_check_accepts(ck, cs, vs, z, pr, s)
{
    let n = cs.len(); let nn = ck.comm_key@.len(); let k = pr.l_vec@.len();
    assert(min3(lps.len(), cs.len(), sts.len()) == n);
    let a0 = choose|a0: Seq<FS>| #[trigger] ipa_open_wit(ck, lps, cs, z@, s, n, pr, a0);
    assert(ipa_open_wit(ck, lps, cs, z@, s, n, pr, a0));
    assert forall|j: int| 0 <= j < n implies (#[trigger] cs[j]).degree_bound == lps[j].degree_bound && vs[j]@ == lps[j].polynomial.ev(z@)
        && (lps[j].degree_bound is Some ==> lps[j].degree_bound->Some_0 <= ck.comm_key@.len() - 1) by { assert(ipa_honest(ck, lps[j], cs[j], sts[j])); }
    lemma_ipa_acc_v_is_cp(ck, lps, cs, vs, z@, s, n);
    let v = ipa_cp(ck, lps, s, n, z@);
    assert(ipa_acc_v(cs, vs, z@, (nn - 1) as nat, s, n) == v);
    let comb = ipa_open_comb(ck, cs, z@, v, s, n, pr);
    assert(ipa_comb(ck, cs, vs, z, pr, s, n) == comb);
    let first = ipa_first(comb, z@, v); let hp = f_mul(ck.h@, first);
    assert(ipa_rest_rel(ck, a0, z@, first, pr));
    // round count
    lemma_p2_is_pow2_(k);
    if k >= 1 { lemma_p2_is_pow2_((k - 1) as nat); vstd::arithmetic::power2::lemma_pow2_unfold(k); vstd::arithmetic::power2::lemma_pow2_pos((k - 1) as nat); }
    vstd::arithmetic::power2::lemma2_to64();
    assert(is_ceil_log2(nn, k));
    // relation
    let u = ipa_rcs(first, pr.l_vec@, pr.r_vec@, k);
    assert(ipa_u(ck, cs, vs, z, pr, s, n) == u);
    let rhs = f_add(f_mul(pr.final_comm_key@, pr.c@), f_mul(hp, f_mul(scp_eval(u, z@, k), pr.c@)));
    ax_add_comm(f_zero(), f_mul(pr.final_comm_key@, pr.c@)); ax_add_zero(f_mul(pr.final_comm_key@, pr.c@)); ax_add_zero(rhs);
    lemma_sub_self(rhs);
    assert(ipa_relation(ck, cs, vs, z, pr, s, n));
    // final key
    assert(scp_coeffs(u).len() == vstd::arithmetic::power2::pow2(u.len())) by { reveal(scp_coeffs); }
}
//@lemma props=C01
// the hypothesis of the completeness lemma is what `commit` guarantees (its postcondition ipa_commit_one, units/ipa_commit.rs)
pub proof fn lemma_ipa_commit_is_honest(ck: &CommitterKey, p: &LabeledPolynomial, c: &LabeledCommitment<Commitment>, st: &Randomness, id: int, pos: nat)
    requires ipa_commit_one(ck, p, c, st, id, pos)
    ensures ipa_honest(ck, p, c, st)
{ }
//@lemma props=C01,C09
// the keys `setup` / `trim` return have a power-of-two length (their postconditions `ipa.setup.key_length_least_power_of_two`, `ipa.trim...`: `is_pow2` over p2):
// that is the precondition both fragments of `open` and the completeness lemma ask for
pub proof fn lemma_ipa_trimmed_key_is_usable(n: nat)
    requires is_pow2(n)
    ensures exists|k: nat| vstd::arithmetic::power2::pow2(k) == n
{
    let k = choose|k: nat| n == p2(k);
    lemma_p2_is_pow2_(k);
    assert(vstd::arithmetic::power2::pow2(k) == n);
}
