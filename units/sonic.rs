// SonicKZG10 verifier: get_shift_power, accumulate_elems, check_elems, check  (C10, C02, C04, C11)
//@use core ops_gen poly labeled_comm sponge std
//@spec ring
//@typemap /::<E, P>::/ => ::
//@typemap /<E>/ => 
//@typemap /\bP::Point\b/ => Fr
//@typemap /Self::VerifierKey/ => VerifierKey
//@typemap /Self::Commitment/ => Commitment
//@typemap /Self::Proof/ => kzg10::Proof
//@typemap /Self::Error/ => Error
//@enum file=poly-commit/src/error.rs name=Error
pub mod kzg10 {
    use super::*;
//@struct file=poly-commit/src/kzg10/data_structures.rs name=Commitment
//@struct file=poly-commit/src/kzg10/data_structures.rs name=Proof
}
pub type Commitment = kzg10::Commitment;
//@struct file=poly-commit/src/sonic_pc/data_structures.rs name=VerifierKey

//@spec sonic_spec
#[verifier::external_body]
pub fn binary_search_by_bound_g2(v: &Vec<(usize, G2Affine)>, bound: usize) -> (r: Result<usize, usize>)
    requires sonic_table_sorted_v(v@)
    ensures r is Ok ==> r->Ok_0 < v@.len() && v@[r->Ok_0 as int].0 == bound,
            r is Err ==> forall|i: int| 0 <= i < v@.len() ==> v@[i].0 != bound,
{ unimplemented!() }
impl VerifierKey {
//@fn id=sonic_pc.VerifierKey.get_shift_power file=poly-commit/src/sonic_pc/data_structures.rs scope="impl<E: Pairing> VerifierKey<E>" name=get_shift_power props=C04,C10
    pub fn get_shift_power(&self, degree_bound: usize) -> (r: Option<G2Prepared>)
    requires
        sonic_table_sorted(self),
    ensures
        (r is Some) == (sonic_shift_of(self, degree_bound) is Some),                 // name=sonic.get_shift_power.some_iff_bound_in_table props=C04
        r is Some ==> r->Some_0@ == sonic_shift_of(self, degree_bound)->Some_0,      // name=sonic.get_shift_power.returns_the_entry_of_that_bound props=C04,C10
//@body
//@rw * /v\.binary_search_by\(\|\(d, _\)\| d\.cmp\(&degree_bound\)\)/ => binary_search_by_bound_g2(v, degree_bound)
//@closure |v| => |v: &Vec<(usize, G2Affine)>| -> (o: Option<G2Prepared>)
            requires sonic_table_sorted_v(v@)
            ensures (o is Some) == (exists|i: int| 0 <= i < v@.len() && v@[i].0 == degree_bound),
                    o is Some ==> (exists|i: int| 0 <= i < v@.len() && v@[i].0 == degree_bound && o->Some_0@ == v@[i].1@)
//@closure |i| => |i: usize| -> (g: G2Prepared) requires i < v@.len() ensures g@ == v@[i as int].1@
//@end
}

pub struct SonicKZG10;
impl SonicKZG10 {
//@fn id=sonic_pc.accumulate_elems file=poly-commit/src/sonic_pc/mod.rs scope="impl<E, P> SonicKZG10<E, P>" name=accumulate_elems props=C10,C02,C04,C11
    fn accumulate_elems<'a>(combined_comms: &mut BTreeMap<Option<usize>, G1>, combined_witness: &mut G1, combined_adjusted_witness: &mut G1, vk: &VerifierKey,
        commitments: Vec<&'a LabeledCommitment<Commitment>>, point: Fr, values: Vec<Fr>, proof: &kzg10::Proof, sponge: &mut Sponge, randomizer: Option<Fr>)
    ensures
        // every degree-bound bucket gains exactly the challenge-weighted commitments carrying that bound
        forall|d: Option<usize>| (#[trigger] final(combined_comms)@.dom().contains(d)) == (old(combined_comms)@.dom().contains(d) || sonic_has_bound(commitments@, d, min(commitments@.len(), values@.len()))),   // name=sonic.accumulate.buckets_are_the_bounds_present props=C04,C10
        forall|d: Option<usize>| final(combined_comms)@.dom().contains(d) ==> (#[trigger] final(combined_comms)@[d])@ ==
            f_add(if old(combined_comms)@.dom().contains(d) { old(combined_comms)@[d]@ } else { f_zero() },
                  sonic_bucket(commitments@, old(sponge).st@, match randomizer { Some(r) => Some(r@), None => None }, d, min(commitments@.len(), values@.len()))),   // name=sonic.accumulate.bucket_contents props=C10,C04,C02
        final(combined_witness)@ == f_add(old(combined_witness)@, match randomizer { Some(r) => f_mul(proof.w@, r@), None => proof.w@ }),   // name=sonic.accumulate.witness props=C10
        final(combined_adjusted_witness)@ == f_add(old(combined_adjusted_witness)@, { let a = sonic_adjusted(vk, point@, proof, sonic_values(values@, old(sponge).st@, min(commitments@.len(), values@.len())));
            match randomizer { Some(r) => f_mul(a, r@), None => a } }),   // name=sonic.accumulate.adjusted_witness_carries_values_and_point props=C10,C02
        final(sponge).st@ == sp_iter(old(sponge).st@, 1 + min(commitments@.len(), values@.len())),   // name=sonic.accumulate.squeeze_schedule props=C11
//@body
//@rw * /\*combined_comms\.entry\(([^)]*)\)\.or_insert\(E::G1::zero\(\)\) \+= &comm_with_challenge;/ => btree_entry_add_g1(combined_comms, \1, &comm_with_challenge);
//@after start
        let ghost rz: Option<FS> = match randomizer { Some(r) => Some(r@), None => None };
//@loop 1 kw=for name=it
            invariant it.index@ <= min(commitments@.len(), values@.len()),
                rz == (match randomizer { Some(r) => Some(r@), None => None }),
                sponge.st@ == sp_iter(old(sponge).st@, 1 + it.index@ as nat),
                curr_challenge@ == sp_chal(old(sponge).st@, it.index@ as nat),
                combined_values@ == sonic_values(values@, old(sponge).st@, it.index@ as nat),
                forall|d: Option<usize>| (#[trigger] combined_comms@.dom().contains(d)) == (old(combined_comms)@.dom().contains(d) || sonic_has_bound(commitments@, d, it.index@ as nat)),
                forall|d: Option<usize>| combined_comms@.dom().contains(d) ==> (#[trigger] combined_comms@[d])@ ==
                    f_add(if old(combined_comms)@.dom().contains(d) { old(combined_comms)@[d]@ } else { f_zero() }, sonic_bucket(commitments@, old(sponge).st@, rz, d, it.index@ as nat)),
//@loopstart 1
            proof { reveal_with_fuel(sp_iter, 3); broadcast use ax_add_assoc, ax_add_zero, ax_add_comm; }
//@before /\*combined_comms\.entry\(/
            proof {
                let k = it.index@ as nat;
                if !sonic_has_bound(commitments@, degree_bound, k) { lemma_sonic_bucket_zero(commitments@, old(sponge).st@, rz, degree_bound, k); }
                assert(commitments@[k as int].degree_bound == degree_bound);
                assert(sonic_has_bound(commitments@, degree_bound, k + 1)) by { assert(0 <= k < k + 1 && (#[trigger] commitments@[k as int]).degree_bound == degree_bound); }
                assert forall|d: Option<usize>| sonic_has_bound(commitments@, d, k + 1) == (sonic_has_bound(commitments@, d, k) || d == degree_bound) by {
                    if sonic_has_bound(commitments@, d, k + 1) { let i = choose|i: int| 0 <= i < k + 1 && (#[trigger] commitments@[i]).degree_bound == d; if i < k { assert(sonic_has_bound(commitments@, d, k)); } }
                    if sonic_has_bound(commitments@, d, k) { let i = choose|i: int| 0 <= i < k && (#[trigger] commitments@[i]).degree_bound == d; assert(0 <= i < k + 1 && commitments@[i].degree_bound == d); }
                }
            }
//@after /let mut curr_challenge =/
        proof { reveal_with_fuel(sp_iter, 3); broadcast use ax_add_zero; }
//@end

//@fn id=sonic_pc.check_elems file=poly-commit/src/sonic_pc/mod.rs scope="impl<E, P> SonicKZG10<E, P>" name=check_elems props=C10,C02,C04
    fn check_elems(combined_comms: BTreeMap<Option<usize>, G1>, combined_witness: G1, combined_adjusted_witness: G1, vk: &VerifierKey) -> (res: Result<bool, Error>)
    requires
        sonic_table_sorted(vk),
    ensures
        // a bucket whose degree bound has no shift element in the verifier key is an error, never skipped
        (res is Err) == (exists|i: int| 0 <= i < btree_entries(combined_comms@).len() && sonic_unsupported(vk, (#[trigger] btree_entries(combined_comms@)[i]).0)),   // name=sonic.check_elems.err_iff_unsupported_bound props=C04
        // prod_d e(bucket_d, shift(d)) * e(-adjusted_witness, H) * e(-witness, beta H) == 1
        res is Ok ==> res->Ok_0 == (f_add(f_add(sonic_pairing_sum(btree_entries(combined_comms@), vk, btree_entries(combined_comms@).len()),
                                                 pair(f_neg(combined_adjusted_witness@), vk.prepared_h@)), pair(f_neg(combined_witness@), vk.prepared_beta_h@)) == f_zero()),   // name=sonic.check_elems.relation props=C10,C02,C04
//@body
//@rw * /combined_comms\.into_iter\(\)/ => ents_vec__.into_iter()
//@before /for \(degree_bound, comm\) in combined_comms/
        let ents_vec__ = btree_into_vec_g1(combined_comms);
//@rw * /\.map\(\|a\| a\.into\(\)\)/ => .map(|a: G1Affine| -> (p: G1Prepared) ensures p@ == a@ { G1Prepared::from(a) })
//@after start
        let ghost ents = btree_entries(combined_comms@);
//@loop 1 kw=for name=it
            invariant ents_vec__@ == ents, ents == btree_entries(combined_comms@), it.index@ <= ents.len(), sonic_table_sorted(vk),
                g1_projective_elems@.len() == it.index@, g2_prepared_elems@.len() == it.index@,
                forall|i: int| 0 <= i < it.index@ ==> !sonic_unsupported(vk, (#[trigger] ents[i]).0),
                dot(g1pviews(g1_projective_elems@), g2prep_views(g2_prepared_elems@), it.index@ as nat) == sonic_pairing_sum(ents, vk, it.index@ as nat),
//@loopstart 1
            let ghost a0 = g1_projective_elems@; let ghost b0 = g2_prepared_elems@;
            proof {
                assert(0 <= it.index@ < ents.len() && ents[it.index@ as int].0 == degree_bound);
                if degree_bound is Some && sonic_shift_of(vk, degree_bound->Some_0) is None { assert(sonic_unsupported(vk, (#[trigger] btree_entries(combined_comms@)[it.index@ as int]).0)); }
            }
//@loopend 1
            proof {
                let k = it.index@ as nat;
                lemma_dot_ext(g1pviews(g1_projective_elems@), g1pviews(a0), g2prep_views(g2_prepared_elems@), g2prep_views(b0), k);
            }
//@before /g1_projective_elems\.push\(-combined_adjusted_witness\);/
        let ghost a1 = g1_projective_elems@; let ghost b1 = g2_prepared_elems@;
        proof {
            // no entry was unsupported: the loop ran over all of them
            assert(forall|i: int| 0 <= i < ents.len() ==> !sonic_unsupported(vk, (#[trigger] ents[i]).0));
        }
//@before /let g1_prepared_elems_iter/
        proof {
            let n = ents.len();
            lemma_dot_ext(g1pviews(g1_projective_elems@), g1pviews(a1), g2prep_views(g2_prepared_elems@), g2prep_views(b1), n);
            reveal_with_fuel(dot, 3);
        }
//@before /let is_one: bool =/
        proof {
            assert(g1prep_views(g1_prepared_elems_iter@) =~= g1pviews(g1_projective_elems@));
        }
//@end

//@fn id=sonic_pc.check file=poly-commit/src/sonic_pc/mod.rs scope="impl<E, P> PolynomialCommitment<E::ScalarField, P> for SonicKZG10<E, P>" name=check props=C10,C02,C04,C11
    fn check<'a>(vk: &VerifierKey, commitments: Vec<&'a LabeledCommitment<Commitment>>, point: &'a Fr, values: Vec<Fr>, proof: &kzg10::Proof, sponge: &mut Sponge, _rng: Option<&mut Rng>) -> (res: Result<bool, Error>)
    requires
        sonic_table_sorted(vk),
    ensures
        final(sponge).st@ == sp_iter(old(sponge).st@, 1 + min(commitments@.len(), values@.len())),   // name=sonic.check.squeeze_schedule props=C11
        res is Ok ==> (exists|m: Map<Option<usize>, G1>| #![trigger btree_entries(m)]
            (forall|d: Option<usize>| (#[trigger] m.dom().contains(d)) == sonic_has_bound(commitments@, d, min(commitments@.len(), values@.len())))
            && (forall|d: Option<usize>| m.dom().contains(d) ==> (#[trigger] m[d])@ == f_add(f_zero(), sonic_bucket(commitments@, old(sponge).st@, None, d, min(commitments@.len(), values@.len()))))
            && res->Ok_0 == (f_add(f_add(sonic_pairing_sum(btree_entries(m), vk, btree_entries(m).len()),
                    pair(f_neg(f_add(f_zero(), sonic_adjusted(vk, point@, proof, sonic_values(values@, old(sponge).st@, min(commitments@.len(), values@.len()))))), vk.prepared_h@)),
                    pair(f_neg(f_add(f_zero(), proof.w@)), vk.prepared_beta_h@)) == f_zero())),   // name=sonic.check.relation props=C10,C02,C04
//@body
//@rw * /let mut combined_comms: BTreeMap<Option<usize>, E::G1> = BTreeMap::new\(\);/ => let mut combined_comms: BTreeMap<Option<usize>, G1> = BTreeMap::new();
//@end
}

//@lemma props=C02
// C02 for SonicKZG10::check: with everything else fixed (the bucket sum does not depend on the values), two accepted value vectors that differ at position i only
// agree at i, provided challenge i is non-zero (the relation is the text of sonic.check.relation / sonic.check_elems.relation)
pub proof fn lemma_sonic_check_value_unique_at(ps: FS, vk: &VerifierKey, z: FS, pr: &kzg10::Proof, vs: Seq<Fr>, vs2: Seq<Fr>, s: SS, k: nat, i: int)
    requires vk.g@ != f_zero(), vk.prepared_h@ != f_zero(), k <= vs.len(), k <= vs2.len(), 0 <= i < k, forall|j: int| 0 <= j < k && j != i ==> vs[j]@ == vs2[j]@,
        sp_chal(s, i as nat) != f_zero(), sonic_eq(ps, vk, z, pr, sonic_values(vs, s, k)), sonic_eq(ps, vk, z, pr, sonic_values(vs2, s, k))
    ensures vs[i]@ == vs2[i]@
{ lemma_sonic_value_unique_at(ps, vk, z, pr, vs, vs2, s, k, i); }
