// PolynomialCommitment::batch_check, the trait's default method (lib.rs): used by HyraxPC, LinearCodePCS (Ligero, Brakedown)  (C05, C17)
//@use core ops_gen labeled_comm sponge std
//@typemap /Self::VerifierKey/ => VK
//@typemap /Self::Commitment/ => Comm
//@typemap /Self::BatchProof/ => BatchProof
//@typemap /Self::Error/ => Error
//@typemap /&QuerySet<P::Point>/ => &BTreeSet<(String, (String, Pt))>
//@typemap /&Evaluations<P::Point, F>/ => &BTreeMap<(String, Pt), Fr>
//@typemap /<'a, R: RngCore>/ => <'a>
//@typemap /&mut R\b/ => &mut Rng
//@enum file=poly-commit/src/error.rs name=Error
//@use pctypes pcenv
//@spec group_spec batch_spec
pub struct PC;
impl PC {
    // Self::check of the scheme
    #[verifier::external_body]
    fn check<'a>(vk: &VK, commitments: Vec<&'a LabeledCommitment<Comm>>, point: &'a Pt, values: Vec<Fr>, proof: &Proof, sponge: &mut Sponge, _rng: Option<&mut Rng>) -> (res: Result<bool, Error>)
        ensures (res is Err) == (chk_dec(vk, commitments@, *point, values@, *proof, old(sponge).st@) is Error),
            res is Ok ==> res->Ok_0 == (chk_dec(vk, commitments@, *point, values@, *proof, old(sponge).st@) is Accept),
            res is Ok ==> final(sponge).st@ == chk_sponge(vk, commitments@, *point, values@, *proof, old(sponge).st@) { unimplemented!() }

//@fn id=lib.batch_check file=poly-commit/src/lib.rs scope="pub trait PolynomialCommitment<F: PrimeField, P: Polynomial<F>>: Sized" name=batch_check props=C05,C06,C17,C11
    #[verifier::loop_isolation(false)]
    fn batch_check<'a>(vk: &VK, commitments: Vec<&'a LabeledCommitment<Comm>>, query_set: &BTreeSet<(String, (String, Pt))>, evaluations: &BTreeMap<(String, Pt), Fr>, proof: &BatchProof, sponge: &mut Sponge, rng: &mut Rng) -> (res: Result<bool, Error>)
    ensures
        // the batch is decided group by group (one group per point label, in label order), each group by ONE call of the
        // per-point verifier on exactly the commitments and claimed values of the labels queried under that point label;
        // the result is the conjunction; a missing commitment / evaluation or an error of a per-point check is an error
        batch_post(vk, commitments@, query_set@, evaluations@, proof.v@, old(sponge).st@, res, final(sponge).st@),   // name=lib.batch_check.conjunction_of_per_point_checks props=C05,C11,C17
//@body
//@rw 1 /(?s)let commitments: BTreeMap<_, _> = (commitments\.into_iter\(\)\.map\(.*?\))\.collect\(\);/ => let cv__: Vec<(&String, &LabeledCommitment<Comm>)> = \1.collect();
        let commitments: BTreeMap<&String, &LabeledCommitment<Comm>> = btree_from_pairs(cv__);
        proof {
            assert forall|i: int| #[trigger] c_is_last(cs0, i) implies commitments@[&cs0[i].label] == cs0[i] by {
                assert(cv__@[i].0 == &cs0[i].label);
                assert forall|j: int| i < j < cv__@.len() implies cv__@[j].0 != cv__@[i].0 by { assert(*cv__@[j].0 == cs0[j].label); }
            }
            assert forall|k: &String| commitments@.dom().contains(k) == (exists|i: int| 0 <= i < cs0.len() && (#[trigger] cs0[i]).label == *k) by {
                if commitments@.dom().contains(k) { let i = choose|i: int| 0 <= i < cv__@.len() && (#[trigger] cv__@[i]).0 == k; assert(cs0[i].label == *k); }
                if exists|i: int| 0 <= i < cs0.len() && (#[trigger] cs0[i]).label == *k { let i = choose|i: int| 0 <= i < cs0.len() && (#[trigger] cs0[i]).label == *k; assert(cv__@[i].0 == k); }
            }
            assert(cmap_ok(commitments@, cs0));
        }
//@closure |c| => |c: &'a LabeledCommitment<Comm>| -> (kv: (&String, &LabeledCommitment<Comm>)) ensures *kv.0 == c.label, kv.1 == c
//@rw 1 /let mut query_to_labels_map = BTreeMap::new\(\);/ => let mut query_to_labels_map: BTreeMap<&String, (&Pt, BTreeSet<&String>)> = BTreeMap::new();
//@rw 1 /for \(label, \(point_label, point\)\) in([^{]*?)query_set\.iter\(\)([^{]*)\{/ => let qv__ = query_set_to_vec(query_set); for q__ in\1qv__.iter()\2{ let label: &String = &q__.0; let point_label: &String = &q__.1.0; let point: &Pt = &q__.1.1;
//@rw 1 /(?s)let labels = query_to_labels_map\s*\.entry\(point_label\)\s*\.or_insert\(\(point, BTreeSet::new\(\)\)\);\s*labels\.1\.insert\(label\);/ => group_insert(&mut query_to_labels_map, point_label, point, label);
//@rw 1 /let proofs: Vec<_> = proof\.clone\(\)\.into\(\);/ => let proofs: Vec<Proof> = batch_proof_to_vec(proof);
//@rw 1 /query_to_labels_map\.len\(\)/ => map_len(&query_to_labels_map)
//@rw 1 /for \(\(_point_label, \(point, labels\)\), proof\) in([^{]*?)query_to_labels_map\.into_iter\(\)\.zip\(proofs\)/ => let gv__ = map_into_sorted_vec(query_to_labels_map); let ghost gs = Seq::new(gv__@.len(), |i: int| (*gv__@[i].0, (*gv__@[i].1.0, set_vals(gv__@[i].1.1@))));
        proof { lemma_groups(query_set@, qmap0, gv__@, gs); }
        for ((_point_label, (point, labels)), proof) in\1gv__.into_iter().zip(proofs)
//@rw 1 /for label in([^{]*?)labels\.into_iter\(\)([^{]*)\{/ => let ghost lset = labels@; let lv__ = set_into_sorted_vec(labels); for label__r in\1lv__.iter()\2{ let label: &String = *label__r;
//@rw 1 /commitments\.get\(label\)/ => btree_get_by_label(&commitments, label)
//@rw * /label\.to_string\(\)/ => string_to_string(label)
//@rw 1 /label\.clone\(\)/ => string_to_string(label)
//@rw 1 /let mut values = Vec::new\(\);/ => let mut values: Vec<Fr> = Vec::new();
//@r13
//@rw 1 /Some\(rng\)/ => Some(&mut *rng)
//@after start
        let ghost pv0 = proof.v@;
        let ghost cs0 = commitments@;
        let ghost s0 = sponge.st@;
//@loop 1 kw=for name=it
            invariant it.index@ <= qv__@.len(), qv__@.len() == set_seq(query_set@).len(),
                forall|i: int| 0 <= i < qv__@.len() ==> *(#[trigger] qv__@[i]) == set_seq(query_set@)[i],
                qmap_abs(query_to_labels_map@, gmap(set_seq(query_set@), it.index@ as nat)),
//@loopstart 1
            let ghost m0 = query_to_labels_map@;
            let ghost kq = it.index@;
//@loopend 1
            proof {
                let qseq = set_seq(query_set@);
                assert(*q__ == qseq[kq]);
                lemma_gmap_step(m0, query_to_labels_map@, qseq, kq as nat, point_label, point, label);
            }
//@afterloop 1
        let ghost qmap0 = query_to_labels_map@;
//@loop 2 kw=for name=it2
            invariant it2.index@ <= gs.len(), gs.len() == gv__@.len(), gs.len() == proofs@.len(), proofs@ == pv0,
                gs == Seq::new(gv__@.len(), |i: int| (*gv__@[i].0, (*gv__@[i].1.0, set_vals(gv__@[i].1.1@)))),
                cmap_ok(commitments@, cs0),
                brun(vk, commitments@, evaluations@, gs, proofs@, s0, it2.index@ as nat) == Some((result, sponge.st@)),
//@loopstart 2
            let ghost k = it2.index@;
            let ghost s_k = sponge.st@;
            let ghost res_k = result;
            let ghost ls = labels_seq(gs[k].1.1);
//@loop 3 kw=for name=it3
                invariant k < gs.len(), it3.index@ <= lv__@.len(), lv__@.len() == ls.len(), forall|i: int| 0 <= i < ls.len() ==> *(#[trigger] lv__@[i]) == ls[i], comms@.len() == it3.index@, values@.len() == it3.index@,
                    gather_ok(commitments@, evaluations@, *point, ls, it3.index@ as nat),
                    forall|i: int| 0 <= i < it3.index@ ==> (#[trigger] comms@[i]) == commitments@[&ls[i]] && values@[i] == evaluations@[(ls[i], *point)],
//@loopstart 3
                    let ghost j = it3.index@; let ghost c0__ = comms@; let ghost v0__ = values@;
                    proof { assert(*label == ls[j]); }
//@before /let commitment = commitments\.get\(label\)/
                    proof {
                        if !commitments@.dom().contains(label) {
                            assert(!commitments@.dom().contains(&ls[j]));
                            assert(!gather_ok(commitments@, evaluations@, gs[k].1.0, ls, ls.len()));
                            lemma_brun_none(vk, commitments@, evaluations@, gs, pv0, s0, (k + 1) as nat, gs.len());
                        }
                    }
//@before /let v_i = evaluations\.get\(/
                    proof {
                        if !evaluations@.dom().contains((*label, *point)) {
                            assert(!evaluations@.dom().contains((ls[j], gs[k].1.0)));
                            assert(!gather_ok(commitments@, evaluations@, gs[k].1.0, ls, ls.len()));
                            lemma_brun_none(vk, commitments@, evaluations@, gs, pv0, s0, (k + 1) as nat, gs.len());
                        }
                    }
//@loopend 3
                    proof {
                        assert(comms@[j] == commitments@[&ls[j]]); assert(values@[j] == evaluations@[(ls[j], *point)]);
                        assert forall|i: int| 0 <= i < j + 1 implies (#[trigger] comms@[i]) == commitments@[&ls[i]] && values@[i] == evaluations@[(ls[i], *point)] by {
                            if i < j { assert(comms@[i] == c0__[i]); assert(values@[i] == v0__[i]); assert(c0__[i] == commitments@[&ls[i]]); }
                        }
                    }
//@beforeloop 3
                proof {
                    assert(*point == gs[k].1.0 && set_vals(labels@) == gs[k].1.1);
                    assert(proof == pv0[k]);
                }
//@afterloop 3
                proof {
                    assert(comms@ =~= gather_c(commitments@, ls));
                    assert forall|i: int| 0 <= i < ls.len() implies values@[i] == gather_v(evaluations@, *point, ls)[i] by { let c = comms@[i]; assert(c == commitments@[&ls[i]]); }
                    assert(values@ =~= gather_v(evaluations@, *point, ls));
                    assert(gather_ok(commitments@, evaluations@, *point, ls, ls.len()));
                    if chk_dec(vk, comms@, *point, values@, proof, s_k) is Error {
                        assert(brun(vk, commitments@, evaluations@, gs, pv0, s0, (k + 1) as nat) is None);
                        lemma_brun_none(vk, commitments@, evaluations@, gs, pv0, s0, (k + 1) as nat, gs.len());
                    }
                }
//@before /Ok\(result\)\s*\}$/
        proof { assert(groups_of(query_set@, gs) && cmap_ok(commitments@, cs0)); }
//@end
}
