// PolynomialCommitment::batch_check, the trait's default method (lib.rs): used by HyraxPC, LinearCodePCS (Ligero, Brakedown)  (C05, C17)
//@use core ops_gen labeled_comm sponge std
//@typemap /Self::VerifierKey/ => VK
//@typemap /Self::Commitment/ => Comm
//@typemap /Self::BatchProof/ => BatchProof
//@typemap /Self::Error/ => Error
//@typemap /&QuerySet<P::Point>/ => &BTreeSet<(String, (String, Pt))>
//@typemap /&Evaluations<P::Point, F>/ => &BTreeMap<(String, Pt), Fr>
//@typemap /<'a, R: RngCore>/ => <'a>
//@typemap /&mut R\b/ => &mut Rng
//@enum file=poly-commit/src/error.rs name=Error
// ---- environment (abstract): the scheme's own types and its per-point `check` ----
#[verifier::external_body] pub struct VK { _x: u8 }
#[verifier::external_body] pub struct Comm { _x: u8 }
#[verifier::external_body] pub struct Pt { _x: u8 }
#[verifier::external_body] pub struct Proof { _x: u8 }
pub struct BatchProof { pub v: Vec<Proof> }
impl Pt { #[verifier::external_body] pub fn clone(&self) -> (r: Pt) ensures r == *self { unimplemented!() } }
// `proof.clone().into()` : BatchProof -> Vec<Proof>
#[verifier::external_body] pub fn batch_proof_to_vec(p: &BatchProof) -> (r: Vec<Proof>) ensures r@ == p.v@ { unimplemented!() }
// the decision of the scheme's per-point verifier and the sponge state it leaves: deterministic functions of its inputs
// (the verifier's own RNG does not enter: the schemes that use this default method ignore it)
pub enum Dec { Accept, Reject, Error }
pub uninterp spec fn chk_dec(vk: &VK, comms: Seq<&LabeledCommitment<Comm>>, point: Pt, values: Seq<Fr>, proof: Proof, s: SS) -> Dec;
pub uninterp spec fn chk_sponge(vk: &VK, comms: Seq<&LabeledCommitment<Comm>>, point: Pt, values: Seq<Fr>, proof: Proof, s: SS) -> SS;
// order of the BTree collections on labels: a strict total order (lexicographic on strings), exposed only through sortedness of iteration
pub uninterp spec fn key_lt(a: String, b: String) -> bool;
// iteration sequence of a set (its elements, each once)
pub uninterp spec fn set_seq(s: Set<(String, (String, Pt))>) -> Seq<(String, (String, Pt))>;
#[verifier::external_body] pub fn query_set_to_vec(s: &BTreeSet<(String, (String, Pt))>) -> (r: Vec<&(String, (String, Pt))>)
    ensures r@.len() == set_seq(s@).len(), forall|i: int| 0 <= i < r@.len() ==> *(#[trigger] r@[i]) == set_seq(s@)[i],
            forall|q: (String, (String, Pt))| s@.contains(q) == (exists|i: int| 0 <= i < set_seq(s@).len() && #[trigger] set_seq(s@)[i] == q) { unimplemented!() }
#[verifier::external_body] pub fn string_to_string(s: &String) -> (r: String) ensures r == *s { unimplemented!() }
pub open spec fn set_vals(s: Set<&String>) -> Set<String> { s.map(|r: &String| *r) }
// `let labels = m.entry(point_label).or_insert((point, BTreeSet::new())); labels.1.insert(label);`
#[verifier::external_body]
pub fn group_insert<'a>(m: &mut BTreeMap<&'a String, (&'a Pt, BTreeSet<&'a String>)>, point_label: &'a String, point: &'a Pt, label: &'a String)
    ensures final(m)@.dom() == old(m)@.dom().insert(point_label),
        old(m)@.dom().contains(point_label) ==> final(m)@[point_label].0 == old(m)@[point_label].0 && final(m)@[point_label].1@ == old(m)@[point_label].1@.insert(label),
        !old(m)@.dom().contains(point_label) ==> final(m)@[point_label].0 == point && final(m)@[point_label].1@ == Set::<&String>::empty().insert(label),
        forall|k: &String| k != point_label && old(m)@.dom().contains(k) ==> final(m)@[k] == old(m)@[k] { unimplemented!() }
// BTreeMap::into_iter: the entries in increasing key order; BTreeSet::into_iter likewise
#[verifier::external_body]
pub fn map_into_sorted_vec<'a>(m: BTreeMap<&'a String, (&'a Pt, BTreeSet<&'a String>)>) -> (r: Vec<(&'a String, (&'a Pt, BTreeSet<&'a String>))>)
    ensures r@.len() == m@.dom().len(), m@.dom().finite(),
        forall|i: int| 0 <= i < r@.len() ==> m@.dom().contains((#[trigger] r@[i]).0) && r@[i].1 == m@[r@[i].0],
        forall|k: &String| m@.dom().contains(k) ==> exists|i: int| 0 <= i < r@.len() && (#[trigger] r@[i]).0 == k,
        forall|i: int, j: int| 0 <= i < j < r@.len() ==> key_lt(*(#[trigger] r@[i]).0, *(#[trigger] r@[j]).0) && r@[i].0 != r@[j].0 { unimplemented!() }
pub uninterp spec fn labels_seq(s: Set<String>) -> Seq<String>;     // the sorted enumeration of a label set
#[verifier::external_body]
pub fn set_into_sorted_vec<'a>(s: BTreeSet<&'a String>) -> (r: Vec<&'a String>)
    ensures r@.len() == labels_seq(set_vals(s@)).len(), forall|i: int| 0 <= i < r@.len() ==> *(#[trigger] r@[i]) == labels_seq(set_vals(s@))[i] { unimplemented!() }
#[verifier::external_body] pub fn btree_get_by_label<'b, V>(m: &'b BTreeMap<&String, V>, k: &String) -> (r: Option<&'b V>)
    ensures (r is Some) == m@.dom().contains(k), r is Some ==> *r->Some_0 == m@[k] { unimplemented!() }
#[verifier::external_body] pub fn map_len<'a>(m: &BTreeMap<&'a String, (&'a Pt, BTreeSet<&'a String>)>) -> (r: usize) ensures r == m@.dom().len(), m@.dom().finite() { unimplemented!() }

// ======================= specification =======================
// the grouping of the queries by point label, as built by iterating the query set: the point of a group is the point of the
// first query seen with that point label; its labels are all polynomial labels queried under that point label
pub open spec fn gmap(q: Seq<(String, (String, Pt))>, k: nat) -> Map<String, (Pt, Set<String>)> decreases k {
    if k == 0 { Map::empty() } else {
        let m = gmap(q, (k - 1) as nat); let e = q[k - 1];
        if m.dom().contains(e.1.0) { m.insert(e.1.0, (m[e.1.0].0, m[e.1.0].1.insert(e.0))) } else { m.insert(e.1.0, (e.1.1, Set::<String>::empty().insert(e.0))) }
    }
}
// commitments by label: the last one wins (BTreeMap::from_iter)
pub open spec fn c_is_last(cs: Seq<&LabeledCommitment<Comm>>, i: int) -> bool { 0 <= i < cs.len() && forall|j: int| i < j < cs.len() ==> (#[trigger] cs[j]).label != cs[i].label }
pub open spec fn cmap_ok(m: Map<&String, &LabeledCommitment<Comm>>, cs: Seq<&LabeledCommitment<Comm>>) -> bool {
    (forall|k: &String| m.dom().contains(k) == (exists|i: int| 0 <= i < cs.len() && (#[trigger] cs[i]).label == *k))
    && (forall|i: int| #[trigger] c_is_last(cs, i) ==> m[&cs[i].label] == cs[i])
}
// the per-group inputs of `check`: commitments and claimed values of the group's labels, in label order
pub open spec fn gather_ok(m: Map<&String, &LabeledCommitment<Comm>>, ev: Map<(String, Pt), Fr>, pt: Pt, ls: Seq<String>, k: nat) -> bool {
    forall|i: int| 0 <= i < k ==> m.dom().contains(&#[trigger] ls[i]) && ev.dom().contains((ls[i], pt))
}
pub open spec fn gather_c<'a>(m: Map<&'a String, &'a LabeledCommitment<Comm>>, ls: Seq<String>) -> Seq<&'a LabeledCommitment<Comm>> { Seq::new(ls.len(), |i: int| m[&ls[i]]) }
pub open spec fn gather_v(ev: Map<(String, Pt), Fr>, pt: Pt, ls: Seq<String>) -> Seq<Fr> { Seq::new(ls.len(), |i: int| ev[(ls[i], pt)]) }
// outcome of the batch after the first k groups (in point-label order): None = error, Some((all accepted so far, sponge state))
pub open spec fn brun(vk: &VK, m: Map<&String, &LabeledCommitment<Comm>>, ev: Map<(String, Pt), Fr>, gs: Seq<(String, (Pt, Set<String>))>, proofs: Seq<Proof>, s0: SS, k: nat) -> Option<(bool, SS)> decreases k {
    if k == 0 { Some((true, s0)) } else {
        match brun(vk, m, ev, gs, proofs, s0, (k - 1) as nat) {
            None => None,
            Some((b, s)) => {
                let g = gs[k - 1]; let ls = labels_seq(g.1.1);
                if !gather_ok(m, ev, g.1.0, ls, ls.len()) { None } else {
                    match chk_dec(vk, gather_c(m, ls), g.1.0, gather_v(ev, g.1.0, ls), proofs[k - 1], s) {
                        Dec::Error => None,
                        Dec::Accept => Some((b, chk_sponge(vk, gather_c(m, ls), g.1.0, gather_v(ev, g.1.0, ls), proofs[k - 1], s))),
                        Dec::Reject => Some((false, chk_sponge(vk, gather_c(m, ls), g.1.0, gather_v(ev, g.1.0, ls), proofs[k - 1], s))),
                    }
                }
            }
        }
    }
}
// the sorted group list of a query set: one entry per point label, in label order
pub open spec fn groups_of(qs: Set<(String, (String, Pt))>, gs: Seq<(String, (Pt, Set<String>))>) -> bool {
    let g = gmap(set_seq(qs), set_seq(qs).len());
    (forall|i: int, j: int| 0 <= i < j < gs.len() ==> (#[trigger] gs[i]).0 != (#[trigger] gs[j]).0)     // each point label once
    && (forall|i: int| 0 <= i < gs.len() ==> g.dom().contains((#[trigger] gs[i]).0) && gs[i].1 == g[gs[i].0])
    && (forall|k: String| g.dom().contains(k) ==> exists|i: int| 0 <= i < gs.len() && (#[trigger] gs[i]).0 == k)
    && (forall|i: int, j: int| 0 <= i < j < gs.len() ==> key_lt((#[trigger] gs[i]).0, (#[trigger] gs[j]).0))
}

pub struct PC;
impl PC {
    // Self::check of the scheme
    #[verifier::external_body]
    fn check<'a>(vk: &VK, commitments: Vec<&'a LabeledCommitment<Comm>>, point: &'a Pt, values: Vec<Fr>, proof: &Proof, sponge: &mut Sponge, _rng: Option<&mut Rng>) -> (res: Result<bool, Error>)
        ensures (res is Err) == (chk_dec(vk, commitments@, *point, values@, *proof, old(sponge).st@) is Error),
            res is Ok ==> res->Ok_0 == (chk_dec(vk, commitments@, *point, values@, *proof, old(sponge).st@) is Accept),
            res is Ok ==> final(sponge).st@ == chk_sponge(vk, commitments@, *point, values@, *proof, old(sponge).st@) { unimplemented!() }

//@fn id=lib.batch_check file=poly-commit/src/lib.rs scope="pub trait PolynomialCommitment<F: PrimeField, P: Polynomial<F>>: Sized" name=batch_check props=C05,C17,C11
    #[verifier::loop_isolation(false)]
    fn batch_check<'a>(vk: &VK, commitments: Vec<&'a LabeledCommitment<Comm>>, query_set: &BTreeSet<(String, (String, Pt))>, evaluations: &BTreeMap<(String, Pt), Fr>, proof: &BatchProof, sponge: &mut Sponge, rng: &mut Rng) -> (res: Result<bool, Error>)
    ensures
        // the batch is decided group by group (one group per point label, in label order), each group by ONE call of the
        // per-point verifier on exactly the commitments and claimed values of the labels queried under that point label;
        // the result is the conjunction; a missing commitment / evaluation or an error of a per-point check is an error
        exists|gs: Seq<(String, (Pt, Set<String>))>, m: Map<&String, &LabeledCommitment<Comm>>| #![trigger groups_of(query_set@, gs), cmap_ok(m, commitments@)]
            groups_of(query_set@, gs) && cmap_ok(m, commitments@) && gs.len() == proof.v@.len()     // (a different number of proofs aborts)
            && (res is Err) == (brun(vk, m, evaluations@, gs, proof.v@, old(sponge).st@, gs.len()) is None)
            && (res is Ok ==> res->Ok_0 == brun(vk, m, evaluations@, gs, proof.v@, old(sponge).st@, gs.len())->Some_0.0
                           && final(sponge).st@ == brun(vk, m, evaluations@, gs, proof.v@, old(sponge).st@, gs.len())->Some_0.1),   // name=lib.batch_check.conjunction_of_per_point_checks props=C05,C11,C17
//@body
//@rw 1 /(?s)let commitments: BTreeMap<_, _> = (commitments\.into_iter\(\)\.map\(.*?\))\.collect\(\);/ => let cv__: Vec<(&String, &LabeledCommitment<Comm>)> = \1.collect();
        let commitments: BTreeMap<&String, &LabeledCommitment<Comm>> = btree_from_pairs(cv__);
        proof {
            assert forall|i: int| #[trigger] c_is_last(cs0, i) implies commitments@[&cs0[i].label] == cs0[i] by {
                assert(cv__@[i].0 == &cs0[i].label);
                assert forall|j: int| i < j < cv__@.len() implies cv__@[j].0 != cv__@[i].0 by { assert(*cv__@[j].0 == cs0[j].label); }
            }
            assert forall|k: &String| commitments@.dom().contains(k) == (exists|i: int| 0 <= i < cs0.len() && (#[trigger] cs0[i]).label == *k) by {
                if commitments@.dom().contains(k) { let i = choose|i: int| 0 <= i < cv__@.len() && (#[trigger] cv__@[i]).0 == k; assert(cs0[i].label == *k); }
                if exists|i: int| 0 <= i < cs0.len() && (#[trigger] cs0[i]).label == *k { let i = choose|i: int| 0 <= i < cs0.len() && (#[trigger] cs0[i]).label == *k; assert(cv__@[i].0 == k); }
            }
            assert(cmap_ok(commitments@, cs0));
        }
//@closure |c| => |c: &'a LabeledCommitment<Comm>| -> (kv: (&String, &LabeledCommitment<Comm>)) ensures *kv.0 == c.label, kv.1 == c
//@rw 1 /let mut query_to_labels_map = BTreeMap::new\(\);/ => let mut query_to_labels_map: BTreeMap<&String, (&Pt, BTreeSet<&String>)> = BTreeMap::new();
//@rw 1 /for \(label, \(point_label, point\)\) in([^{]*?)query_set\.iter\(\)([^{]*)\{/ => let qv__ = query_set_to_vec(query_set); for q__ in\1qv__.iter()\2{ let label: &String = &q__.0; let point_label: &String = &q__.1.0; let point: &Pt = &q__.1.1;
//@rw 1 /(?s)let labels = query_to_labels_map\s*\.entry\(point_label\)\s*\.or_insert\(\(point, BTreeSet::new\(\)\)\);\s*labels\.1\.insert\(label\);/ => group_insert(&mut query_to_labels_map, point_label, point, label);
//@rw 1 /let proofs: Vec<_> = proof\.clone\(\)\.into\(\);/ => let proofs: Vec<Proof> = batch_proof_to_vec(proof);
//@rw 1 /query_to_labels_map\.len\(\)/ => map_len(&query_to_labels_map)
//@rw 1 /for \(\(_point_label, \(point, labels\)\), proof\) in([^{]*?)query_to_labels_map\.into_iter\(\)\.zip\(proofs\)/ => let gv__ = map_into_sorted_vec(query_to_labels_map); let ghost gs = Seq::new(gv__@.len(), |i: int| (*gv__@[i].0, (*gv__@[i].1.0, set_vals(gv__@[i].1.1@))));
        proof { lemma_groups(query_set@, qmap0, gv__@, gs); }
        for ((_point_label, (point, labels)), proof) in\1gv__.into_iter().zip(proofs)
//@rw 1 /for label in([^{]*?)labels\.into_iter\(\)([^{]*)\{/ => let ghost lset = labels@; let lv__ = set_into_sorted_vec(labels); for label__r in\1lv__.iter()\2{ let label: &String = *label__r;
//@rw 1 /commitments\.get\(label\)/ => btree_get_by_label(&commitments, label)
//@rw * /label\.to_string\(\)/ => string_to_string(label)
//@rw 1 /label\.clone\(\)/ => string_to_string(label)
//@rw 1 /let mut values = Vec::new\(\);/ => let mut values: Vec<Fr> = Vec::new();
//@r13
//@rw 1 /Some\(rng\)/ => Some(&mut *rng)
//@after start
        let ghost pv0 = proof.v@;
        let ghost cs0 = commitments@;
        let ghost s0 = sponge.st@;
//@loop 1 kw=for name=it
            invariant it.index@ <= qv__@.len(), qv__@.len() == set_seq(query_set@).len(),
                forall|i: int| 0 <= i < qv__@.len() ==> *(#[trigger] qv__@[i]) == set_seq(query_set@)[i],
                qmap_abs(query_to_labels_map@, gmap(set_seq(query_set@), it.index@ as nat)),
//@loopstart 1
            let ghost m0 = query_to_labels_map@;
            let ghost kq = it.index@;
//@loopend 1
            proof {
                let qseq = set_seq(query_set@);
                assert(*q__ == qseq[kq]);
                lemma_gmap_step(m0, query_to_labels_map@, qseq, kq as nat, point_label, point, label);
            }
//@afterloop 1
        let ghost qmap0 = query_to_labels_map@;
//@loop 2 kw=for name=it2
            invariant it2.index@ <= gs.len(), gs.len() == gv__@.len(), gs.len() == proofs@.len(), proofs@ == pv0,
                gs == Seq::new(gv__@.len(), |i: int| (*gv__@[i].0, (*gv__@[i].1.0, set_vals(gv__@[i].1.1@)))),
                cmap_ok(commitments@, cs0),
                brun(vk, commitments@, evaluations@, gs, proofs@, s0, it2.index@ as nat) == Some((result, sponge.st@)),
//@loopstart 2
            let ghost k = it2.index@;
            let ghost s_k = sponge.st@;
            let ghost res_k = result;
            let ghost ls = labels_seq(gs[k].1.1);
//@loop 3 kw=for name=it3
                invariant k < gs.len(), it3.index@ <= lv__@.len(), lv__@.len() == ls.len(), forall|i: int| 0 <= i < ls.len() ==> *(#[trigger] lv__@[i]) == ls[i], comms@.len() == it3.index@, values@.len() == it3.index@,
                    gather_ok(commitments@, evaluations@, *point, ls, it3.index@ as nat),
                    forall|i: int| 0 <= i < it3.index@ ==> (#[trigger] comms@[i]) == commitments@[&ls[i]] && values@[i] == evaluations@[(ls[i], *point)],
//@loopstart 3
                    let ghost j = it3.index@;
                    proof { assert(*label == ls[j]); }
//@before /let commitment = commitments\.get\(label\)/
                    proof {
                        if !commitments@.dom().contains(label) {
                            assert(!commitments@.dom().contains(&ls[j]));
                            assert(!gather_ok(commitments@, evaluations@, gs[k].1.0, ls, ls.len()));
                            lemma_brun_none(vk, commitments@, evaluations@, gs, pv0, s0, (k + 1) as nat, gs.len());
                        }
                    }
//@before /let v_i = evaluations\.get\(/
                    proof {
                        if !evaluations@.dom().contains((*label, *point)) {
                            assert(!evaluations@.dom().contains((ls[j], gs[k].1.0)));
                            assert(!gather_ok(commitments@, evaluations@, gs[k].1.0, ls, ls.len()));
                            lemma_brun_none(vk, commitments@, evaluations@, gs, pv0, s0, (k + 1) as nat, gs.len());
                        }
                    }
//@loopend 3
                    proof { assert(comms@[j] == commitments@[&ls[j]]); assert(values@[j] == evaluations@[(ls[j], *point)]); }
//@beforeloop 3
                proof {
                    assert(*point == gs[k].1.0 && set_vals(labels@) == gs[k].1.1);
                    assert(proof == pv0[k]);
                }
//@afterloop 3
                proof {
                    assert(comms@ =~= gather_c(commitments@, ls));
                    assert forall|i: int| 0 <= i < ls.len() implies values@[i] == gather_v(evaluations@, *point, ls)[i] by { let c = comms@[i]; assert(c == commitments@[&ls[i]]); }
                    assert(values@ =~= gather_v(evaluations@, *point, ls));
                    assert(gather_ok(commitments@, evaluations@, *point, ls, ls.len()));
                    if chk_dec(vk, comms@, *point, values@, proof, s_k) is Error {
                        assert(brun(vk, commitments@, evaluations@, gs, pv0, s0, (k + 1) as nat) is None);
                        lemma_brun_none(vk, commitments@, evaluations@, gs, pv0, s0, (k + 1) as nat, gs.len());
                    }
                }
//@before /Ok\(result\)\s*\}$/
        proof { assert(groups_of(query_set@, gs) && cmap_ok(commitments@, cs0)); }
//@end
}
pub open spec fn qmap_abs(m: Map<&String, (&Pt, BTreeSet<&String>)>, g: Map<String, (Pt, Set<String>)>) -> bool {
    (forall|k: &String| m.dom().contains(k) == g.dom().contains(*k))
    && (forall|k: &String| m.dom().contains(k) ==> *(#[trigger] m[k]).0 == g[*k].0 && set_vals(m[k].1@) == g[*k].1)
}
pub proof fn lemma_set_vals_insert(s: Set<&String>, r: &String)
    ensures set_vals(s.insert(r)) == set_vals(s).insert(*r), set_vals(Set::<&String>::empty()) == Set::<String>::empty()
{
    assert forall|x: String| set_vals(s.insert(r)).contains(x) == set_vals(s).insert(*r).contains(x) by {
        if set_vals(s.insert(r)).contains(x) { let w = choose|w: &String| s.insert(r).contains(w) && *w == x; if w != r { assert(s.contains(w)); } }
        if set_vals(s).insert(*r).contains(x) { if x == *r { assert(s.insert(r).contains(r)); } else { let w = choose|w: &String| s.contains(w) && *w == x; assert(s.insert(r).contains(w)); } }
    }
    assert(set_vals(s.insert(r)) =~= set_vals(s).insert(*r));
    assert(set_vals(Set::<&String>::empty()) =~= Set::<String>::empty());
}
// one query processed: the exec map follows gmap
pub proof fn lemma_gmap_step(m0: Map<&String, (&Pt, BTreeSet<&String>)>, m1: Map<&String, (&Pt, BTreeSet<&String>)>, q: Seq<(String, (String, Pt))>, k: nat, pl: &String, pt: &Pt, l: &String)
    requires
        k < q.len(), q[k as int] == (*l, (*pl, *pt)), qmap_abs(m0, gmap(q, k)),
        m1.dom() == m0.dom().insert(pl),
        m0.dom().contains(pl) ==> m1[pl].0 == m0[pl].0 && m1[pl].1@ == m0[pl].1@.insert(l),
        !m0.dom().contains(pl) ==> m1[pl].0 == pt && m1[pl].1@ == Set::<&String>::empty().insert(l),
        forall|k2: &String| k2 != pl && m0.dom().contains(k2) ==> m1[k2] == m0[k2],
    ensures qmap_abs(m1, gmap(q, k + 1))
{
    let g0 = gmap(q, k); let g1 = gmap(q, k + 1);
    assert(gmap(q, (k + 1) as nat) == if g0.dom().contains(*pl) { g0.insert(*pl, (g0[*pl].0, g0[*pl].1.insert(*l))) } else { g0.insert(*pl, (*pt, Set::<String>::empty().insert(*l))) });
    if m0.dom().contains(pl) { lemma_set_vals_insert(m0[pl].1@, l); } else { lemma_set_vals_insert(Set::<&String>::empty(), l); }
    assert forall|k2: &String| m1.dom().contains(k2) == g1.dom().contains(*k2) by { }
    assert forall|k2: &String| m1.dom().contains(k2) implies *(#[trigger] m1[k2]).0 == g1[*k2].0 && set_vals(m1[k2].1@) == g1[*k2].1 by {
        if k2 != pl { assert(m0.dom().contains(k2)); }
    }
}
pub proof fn lemma_brun_none(vk: &VK, m: Map<&String, &LabeledCommitment<Comm>>, ev: Map<(String, Pt), Fr>, gs: Seq<(String, (Pt, Set<String>))>, proofs: Seq<Proof>, s0: SS, k: nat, n: nat)
    requires k <= n, brun(vk, m, ev, gs, proofs, s0, k) is None
    ensures brun(vk, m, ev, gs, proofs, s0, n) is None
    decreases n
{ if k < n { lemma_brun_none(vk, m, ev, gs, proofs, s0, k, (n - 1) as nat); } }
pub proof fn lemma_groups(qs: Set<(String, (String, Pt))>, m: Map<&String, (&Pt, BTreeSet<&String>)>, gv: Seq<(&String, (&Pt, BTreeSet<&String>))>, gs: Seq<(String, (Pt, Set<String>))>)
    requires
        qmap_abs(m, gmap(set_seq(qs), set_seq(qs).len())),
        gv.len() == m.dom().len(), m.dom().finite(),
        forall|i: int| 0 <= i < gv.len() ==> m.dom().contains((#[trigger] gv[i]).0) && gv[i].1 == m[gv[i].0],
        forall|k: &String| m.dom().contains(k) ==> exists|i: int| 0 <= i < gv.len() && (#[trigger] gv[i]).0 == k,
        forall|i: int, j: int| 0 <= i < j < gv.len() ==> key_lt(*(#[trigger] gv[i]).0, *(#[trigger] gv[j]).0) && gv[i].0 != gv[j].0,
        gs == Seq::new(gv.len(), |i: int| (*gv[i].0, (*gv[i].1.0, set_vals(gv[i].1.1@)))),
    ensures groups_of(qs, gs)
{
    let g = gmap(set_seq(qs), set_seq(qs).len());
    assert forall|i: int, j: int| 0 <= i < j < gs.len() implies (#[trigger] gs[i]).0 != (#[trigger] gs[j]).0 by { assert(gv[i].0 != gv[j].0); }
    assert forall|k: String| g.dom().contains(k) implies exists|i: int| 0 <= i < gs.len() && (#[trigger] gs[i]).0 == k by {
        assert(m.dom().contains(&k));
        let i = choose|i: int| 0 <= i < gv.len() && (#[trigger] gv[i]).0 == &k; assert(gs[i].0 == k);
    }
    assert forall|i: int, j: int| 0 <= i < j < gs.len() implies key_lt((#[trigger] gs[i]).0, (#[trigger] gs[j]).0) by { assert(key_lt(*gv[i].0, *gv[j].0)); }
}
