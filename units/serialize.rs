// Hand-written CanonicalSerialize / CanonicalDeserialize / Valid implementations (C12).
// (template generated once by tools/gen_serialize_template.py; the extracted bodies are the real ones)
//@use core ops_gen std ser
//@typemap /Cow<'a, \[E::G1Affine\]>/ => Vec<G1Affine>
//@typemap /\bP::Term\b/ => Term
//@typemap /Vec::<G2Affine>::/ => Vec::<G2Affine>::
pub mod kzg10 {
    use super::*;
//@struct file=poly-commit/src/kzg10/data_structures.rs name=UniversalParams
    // canonical encoding of kzg10::UniversalParams: the listed fields, in declaration order
    pub open spec fn ser_UniversalParams(x: &UniversalParams, c: Compress) -> Seq<u8> {
        x.powers_of_g.ser(c) + x.powers_of_gamma_g.ser(c) + x.h.ser(c) + x.beta_h.ser(c) + x.neg_powers_of_h.ser(c)
    }
    pub open spec fn valid_UniversalParams(x: &UniversalParams) -> bool {
        x.powers_of_g.valid() && x.powers_of_gamma_g.valid() && x.h.valid() && x.beta_h.valid() && x.neg_powers_of_h.valid()
    }
    impl UniversalParams {
//@fn id=kzg10.UniversalParams.check file=poly-commit/src/kzg10/data_structures.rs scope="impl<E: Pairing> Valid for UniversalParams<E>" name=check props=C12
        pub fn check(&self) -> (res: Result<(), SerializationError>)
        ensures
            (res is Ok) == valid_UniversalParams(self),   // name=kzg10.UniversalParams.check.iff_all_components_valid props=C12
//@body
//@end
//@fn id=kzg10.UniversalParams.serialize_with_mode file=poly-commit/src/kzg10/data_structures.rs scope="impl<E: Pairing> CanonicalSerialize for UniversalParams<E>" name=serialize_with_mode props=C12
        pub fn serialize_with_mode(&self, writer: &mut Sink, compress: Compress) -> (res: Result<(), SerializationError>)
        ensures
            res is Ok ==> final(writer).bytes@ =~= old(writer).bytes@ + ser_UniversalParams(self, compress),   // name=kzg10.UniversalParams.serialize.writes_fields_in_order props=C12
//@body
//@rw 5 /&mut writer/ => &mut *writer
//@end
//@fn id=kzg10.UniversalParams.serialized_size file=poly-commit/src/kzg10/data_structures.rs scope="impl<E: Pairing> CanonicalSerialize for UniversalParams<E>" name=serialized_size props=C12
        pub fn serialized_size(&self, compress: Compress) -> (res: usize)
        requires
            ser_UniversalParams(self, compress).len() <= usize::MAX,
        ensures
            res == ser_UniversalParams(self, compress).len(),   // name=kzg10.UniversalParams.serialized_size.equals_bytes_written props=C12
//@body
//@end
//@fn id=kzg10.UniversalParams.deserialize_with_mode file=poly-commit/src/kzg10/data_structures.rs scope="impl<E: Pairing> CanonicalDeserialize for UniversalParams<E>" name=deserialize_with_mode props=C12
        pub fn deserialize_with_mode(reader: &mut Source, compress: Compress, validate: Validate) -> (res: Result<Self, SerializationError>)
        ensures
            res is Ok ==> old(reader).bytes@ =~= ser_UniversalParams(&res->Ok_0, compress) + final(reader).bytes@,   // name=kzg10.UniversalParams.deserialize.consumes_one_encoding props=C12
            res is Ok ==> (res->Ok_0.prepared_h@ == res->Ok_0.h@),   // name=kzg10.UniversalParams.deserialize.prepared_elements_rebuilt_0 props=C12
            res is Ok ==> (res->Ok_0.prepared_beta_h@ == res->Ok_0.beta_h@),   // name=kzg10.UniversalParams.deserialize.prepared_elements_rebuilt_1 props=C12
            (res is Ok && validate == Validate::Yes) ==> valid_UniversalParams(&res->Ok_0),   // name=kzg10.UniversalParams.deserialize.validates_when_asked props=C12
//@body
//@rw 5 /&mut reader/ => &mut *reader
//@end
    }
//@lemma props=C12
    pub proof fn lemma_UniversalParams_roundtrip(x: UniversalParams, y: UniversalParams, c: Compress, rest: Seq<u8>, rest2: Seq<u8>)
        requires ser_UniversalParams(&x, c) + rest == ser_UniversalParams(&y, c) + rest2
        ensures x.powers_of_g.ser(c) == y.powers_of_g.ser(c), x.powers_of_gamma_g.ser(c) == y.powers_of_gamma_g.ser(c), x.h.ser(c) == y.h.ser(c), x.beta_h.ser(c) == y.beta_h.ser(c), x.neg_powers_of_h.ser(c) == y.neg_powers_of_h.ser(c), rest == rest2
    {
        let a0 = ser_UniversalParams(&x, c) + rest; let b0 = ser_UniversalParams(&y, c) + rest2;
        let a1 = x.powers_of_gamma_g.ser(c) + x.h.ser(c) + x.beta_h.ser(c) + x.neg_powers_of_h.ser(c) + rest; let b1 = y.powers_of_gamma_g.ser(c) + y.h.ser(c) + y.beta_h.ser(c) + y.neg_powers_of_h.ser(c) + rest2;
        assert(a0 =~= x.powers_of_g.ser(c) + a1); assert(b0 =~= y.powers_of_g.ser(c) + b1);
        Canon::ser_injective(x.powers_of_g, y.powers_of_g, c, a1, b1);
        let a2 = x.h.ser(c) + x.beta_h.ser(c) + x.neg_powers_of_h.ser(c) + rest; let b2 = y.h.ser(c) + y.beta_h.ser(c) + y.neg_powers_of_h.ser(c) + rest2;
        assert(a1 =~= x.powers_of_gamma_g.ser(c) + a2); assert(b1 =~= y.powers_of_gamma_g.ser(c) + b2);
        Canon::ser_injective(x.powers_of_gamma_g, y.powers_of_gamma_g, c, a2, b2);
        let a3 = x.beta_h.ser(c) + x.neg_powers_of_h.ser(c) + rest; let b3 = y.beta_h.ser(c) + y.neg_powers_of_h.ser(c) + rest2;
        assert(a2 =~= x.h.ser(c) + a3); assert(b2 =~= y.h.ser(c) + b3);
        Canon::ser_injective(x.h, y.h, c, a3, b3);
        let a4 = x.neg_powers_of_h.ser(c) + rest; let b4 = y.neg_powers_of_h.ser(c) + rest2;
        assert(a3 =~= x.beta_h.ser(c) + a4); assert(b3 =~= y.beta_h.ser(c) + b4);
        Canon::ser_injective(x.beta_h, y.beta_h, c, a4, b4);
        let a5 = rest; let b5 = rest2;
        assert(a4 =~= x.neg_powers_of_h.ser(c) + a5); assert(b4 =~= y.neg_powers_of_h.ser(c) + b5);
        Canon::ser_injective(x.neg_powers_of_h, y.neg_powers_of_h, c, a5, b5);
    }
//@struct file=poly-commit/src/kzg10/data_structures.rs name=Powers
    // canonical encoding of kzg10::Powers: the listed fields, in declaration order
    pub open spec fn ser_Powers(x: &Powers, c: Compress) -> Seq<u8> {
        x.powers_of_g.ser(c) + x.powers_of_gamma_g.ser(c)
    }
    pub open spec fn valid_Powers(x: &Powers) -> bool { true }
    impl Powers {
//@fn id=kzg10.Powers.check file=poly-commit/src/kzg10/data_structures.rs scope="impl<'a, E: Pairing> Valid for Powers<'a, E>" name=check props=C12
        pub fn check(&self) -> (res: Result<(), SerializationError>)
        ensures
            (res is Ok) == valid_Powers(self),   // name=kzg10.Powers.check.iff_all_components_valid props=C12
//@body
//@end
//@fn id=kzg10.Powers.serialize_with_mode file=poly-commit/src/kzg10/data_structures.rs scope="impl<'a, E: Pairing> CanonicalSerialize for Powers<'a, E>" name=serialize_with_mode props=C12
        pub fn serialize_with_mode(&self, writer: &mut Sink, compress: Compress) -> (res: Result<(), SerializationError>)
        ensures
            res is Ok ==> final(writer).bytes@ =~= old(writer).bytes@ + ser_Powers(self, compress),   // name=kzg10.Powers.serialize.writes_fields_in_order props=C12
//@body
//@rw 2 /&mut writer/ => &mut *writer
//@end
//@fn id=kzg10.Powers.serialized_size file=poly-commit/src/kzg10/data_structures.rs scope="impl<'a, E: Pairing> CanonicalSerialize for Powers<'a, E>" name=serialized_size props=C12
        pub fn serialized_size(&self, compress: Compress) -> (res: usize)
        requires
            ser_Powers(self, compress).len() <= usize::MAX,
        ensures
            res == ser_Powers(self, compress).len(),   // name=kzg10.Powers.serialized_size.equals_bytes_written props=C12
//@body
//@end
//@fn id=kzg10.Powers.deserialize_with_mode file=poly-commit/src/kzg10/data_structures.rs scope="impl<'a, E: Pairing> CanonicalDeserialize for Powers<'a, E>" name=deserialize_with_mode props=C12
        pub fn deserialize_with_mode(reader: &mut Source, compress: Compress, validate: Validate) -> (res: Result<Self, SerializationError>)
        ensures
            res is Ok ==> old(reader).bytes@ =~= ser_Powers(&res->Ok_0, compress) + final(reader).bytes@,   // name=kzg10.Powers.deserialize.consumes_one_encoding props=C12
            (res is Ok && validate == Validate::Yes) ==> valid_Powers(&res->Ok_0),   // name=kzg10.Powers.deserialize.validates_when_asked props=C12
//@body
//@rw 2 /&mut reader/ => &mut *reader
//@rw 2 /Cow::Owned\((\w+)\)/ => \1
//@end
    }
//@lemma props=C12
    pub proof fn lemma_Powers_roundtrip(x: Powers, y: Powers, c: Compress, rest: Seq<u8>, rest2: Seq<u8>)
        requires ser_Powers(&x, c) + rest == ser_Powers(&y, c) + rest2
        ensures x.powers_of_g.ser(c) == y.powers_of_g.ser(c), x.powers_of_gamma_g.ser(c) == y.powers_of_gamma_g.ser(c), rest == rest2
    {
        let a0 = ser_Powers(&x, c) + rest; let b0 = ser_Powers(&y, c) + rest2;
        let a1 = x.powers_of_gamma_g.ser(c) + rest; let b1 = y.powers_of_gamma_g.ser(c) + rest2;
        assert(a0 =~= x.powers_of_g.ser(c) + a1); assert(b0 =~= y.powers_of_g.ser(c) + b1);
        Canon::ser_injective(x.powers_of_g, y.powers_of_g, c, a1, b1);
        let a2 = rest; let b2 = rest2;
        assert(a1 =~= x.powers_of_gamma_g.ser(c) + a2); assert(b1 =~= y.powers_of_gamma_g.ser(c) + b2);
        Canon::ser_injective(x.powers_of_gamma_g, y.powers_of_gamma_g, c, a2, b2);
    }
//@struct file=poly-commit/src/kzg10/data_structures.rs name=VerifierKey
    // canonical encoding of kzg10::VerifierKey: the listed fields, in declaration order
    pub open spec fn ser_VerifierKey(x: &VerifierKey, c: Compress) -> Seq<u8> {
        x.g.ser(c) + x.gamma_g.ser(c) + x.h.ser(c) + x.beta_h.ser(c)
    }
    pub open spec fn valid_VerifierKey(x: &VerifierKey) -> bool {
        x.g.valid() && x.gamma_g.valid() && x.h.valid() && x.beta_h.valid()
    }
    impl VerifierKey {
//@fn id=kzg10.VerifierKey.check file=poly-commit/src/kzg10/data_structures.rs scope="impl<E: Pairing> Valid for VerifierKey<E>" name=check props=C12
        pub fn check(&self) -> (res: Result<(), SerializationError>)
        ensures
            (res is Ok) == valid_VerifierKey(self),   // name=kzg10.VerifierKey.check.iff_all_components_valid props=C12
//@body
//@end
//@fn id=kzg10.VerifierKey.serialize_with_mode file=poly-commit/src/kzg10/data_structures.rs scope="impl<E: Pairing> CanonicalSerialize for VerifierKey<E>" name=serialize_with_mode props=C12
        pub fn serialize_with_mode(&self, writer: &mut Sink, compress: Compress) -> (res: Result<(), SerializationError>)
        ensures
            res is Ok ==> final(writer).bytes@ =~= old(writer).bytes@ + ser_VerifierKey(self, compress),   // name=kzg10.VerifierKey.serialize.writes_fields_in_order props=C12
//@body
//@rw 4 /&mut writer/ => &mut *writer
//@end
//@fn id=kzg10.VerifierKey.serialized_size file=poly-commit/src/kzg10/data_structures.rs scope="impl<E: Pairing> CanonicalSerialize for VerifierKey<E>" name=serialized_size props=C12
        pub fn serialized_size(&self, compress: Compress) -> (res: usize)
        requires
            ser_VerifierKey(self, compress).len() <= usize::MAX,
        ensures
            res == ser_VerifierKey(self, compress).len(),   // name=kzg10.VerifierKey.serialized_size.equals_bytes_written props=C12
//@body
//@end
//@fn id=kzg10.VerifierKey.deserialize_with_mode file=poly-commit/src/kzg10/data_structures.rs scope="impl<E: Pairing> CanonicalDeserialize for VerifierKey<E>" name=deserialize_with_mode props=C12
        pub fn deserialize_with_mode(reader: &mut Source, compress: Compress, validate: Validate) -> (res: Result<Self, SerializationError>)
        ensures
            res is Ok ==> old(reader).bytes@ =~= ser_VerifierKey(&res->Ok_0, compress) + final(reader).bytes@,   // name=kzg10.VerifierKey.deserialize.consumes_one_encoding props=C12
            res is Ok ==> (res->Ok_0.prepared_h@ == res->Ok_0.h@),   // name=kzg10.VerifierKey.deserialize.prepared_elements_rebuilt_0 props=C12
            res is Ok ==> (res->Ok_0.prepared_beta_h@ == res->Ok_0.beta_h@),   // name=kzg10.VerifierKey.deserialize.prepared_elements_rebuilt_1 props=C12
            (res is Ok && validate == Validate::Yes) ==> valid_VerifierKey(&res->Ok_0),   // name=kzg10.VerifierKey.deserialize.validates_when_asked props=C12
//@body
//@rw 4 /&mut reader/ => &mut *reader
//@end
    }
//@lemma props=C12
    pub proof fn lemma_VerifierKey_roundtrip(x: VerifierKey, y: VerifierKey, c: Compress, rest: Seq<u8>, rest2: Seq<u8>)
        requires ser_VerifierKey(&x, c) + rest == ser_VerifierKey(&y, c) + rest2
        ensures x.g.ser(c) == y.g.ser(c), x.gamma_g.ser(c) == y.gamma_g.ser(c), x.h.ser(c) == y.h.ser(c), x.beta_h.ser(c) == y.beta_h.ser(c), rest == rest2
    {
        let a0 = ser_VerifierKey(&x, c) + rest; let b0 = ser_VerifierKey(&y, c) + rest2;
        let a1 = x.gamma_g.ser(c) + x.h.ser(c) + x.beta_h.ser(c) + rest; let b1 = y.gamma_g.ser(c) + y.h.ser(c) + y.beta_h.ser(c) + rest2;
        assert(a0 =~= x.g.ser(c) + a1); assert(b0 =~= y.g.ser(c) + b1);
        Canon::ser_injective(x.g, y.g, c, a1, b1);
        let a2 = x.h.ser(c) + x.beta_h.ser(c) + rest; let b2 = y.h.ser(c) + y.beta_h.ser(c) + rest2;
        assert(a1 =~= x.gamma_g.ser(c) + a2); assert(b1 =~= y.gamma_g.ser(c) + b2);
        Canon::ser_injective(x.gamma_g, y.gamma_g, c, a2, b2);
        let a3 = x.beta_h.ser(c) + rest; let b3 = y.beta_h.ser(c) + rest2;
        assert(a2 =~= x.h.ser(c) + a3); assert(b2 =~= y.h.ser(c) + b3);
        Canon::ser_injective(x.h, y.h, c, a3, b3);
        let a4 = rest; let b4 = rest2;
        assert(a3 =~= x.beta_h.ser(c) + a4); assert(b3 =~= y.beta_h.ser(c) + b4);
        Canon::ser_injective(x.beta_h, y.beta_h, c, a4, b4);
    }
}
pub mod sonic_pc {
    use super::*;
//@struct file=poly-commit/src/sonic_pc/data_structures.rs name=VerifierKey
    // canonical encoding of sonic_pc::VerifierKey: the listed fields, in declaration order
    pub open spec fn ser_VerifierKey(x: &VerifierKey, c: Compress) -> Seq<u8> {
        x.g.ser(c) + x.gamma_g.ser(c) + x.h.ser(c) + x.beta_h.ser(c) + x.degree_bounds_and_neg_powers_of_h.ser(c) + x.supported_degree.ser(c) + x.max_degree.ser(c)
    }
    pub open spec fn valid_VerifierKey(x: &VerifierKey) -> bool {
        x.g.valid() && x.gamma_g.valid() && x.h.valid() && x.beta_h.valid() && x.degree_bounds_and_neg_powers_of_h.valid() && x.supported_degree <= x.max_degree
    }
    impl VerifierKey {
//@fn id=sonic_pc.VerifierKey.check file=poly-commit/src/sonic_pc/data_structures.rs scope="impl<E: Pairing> Valid for VerifierKey<E>" name=check props=C12
        pub fn check(&self) -> (res: Result<(), SerializationError>)
        ensures
            (res is Ok) == valid_VerifierKey(self),   // name=sonic_pc.VerifierKey.check.iff_all_components_valid props=C12
//@body
//@end
//@fn id=sonic_pc.VerifierKey.serialize_with_mode file=poly-commit/src/sonic_pc/data_structures.rs scope="impl<E: Pairing> CanonicalSerialize for VerifierKey<E>" name=serialize_with_mode props=C12
        pub fn serialize_with_mode(&self, writer: &mut Sink, compress: Compress) -> (res: Result<(), SerializationError>)
        ensures
            res is Ok ==> final(writer).bytes@ =~= old(writer).bytes@ + ser_VerifierKey(self, compress),   // name=sonic_pc.VerifierKey.serialize.writes_fields_in_order props=C12
//@body
//@rw 7 /&mut writer/ => &mut *writer
//@end
//@fn id=sonic_pc.VerifierKey.serialized_size file=poly-commit/src/sonic_pc/data_structures.rs scope="impl<E: Pairing> CanonicalSerialize for VerifierKey<E>" name=serialized_size props=C12
        pub fn serialized_size(&self, compress: Compress) -> (res: usize)
        requires
            ser_VerifierKey(self, compress).len() <= usize::MAX,
        ensures
            res == ser_VerifierKey(self, compress).len(),   // name=sonic_pc.VerifierKey.serialized_size.equals_bytes_written props=C12
//@body
//@end
//@fn id=sonic_pc.VerifierKey.deserialize_with_mode file=poly-commit/src/sonic_pc/data_structures.rs scope="impl<E: Pairing> CanonicalDeserialize for VerifierKey<E>" name=deserialize_with_mode props=C12
        pub fn deserialize_with_mode(reader: &mut Source, compress: Compress, validate: Validate) -> (res: Result<Self, SerializationError>)
        ensures
            res is Ok ==> old(reader).bytes@ =~= ser_VerifierKey(&res->Ok_0, compress) + final(reader).bytes@,   // name=sonic_pc.VerifierKey.deserialize.consumes_one_encoding props=C12
            res is Ok ==> (res->Ok_0.prepared_h@ == res->Ok_0.h@),   // name=sonic_pc.VerifierKey.deserialize.prepared_elements_rebuilt_0 props=C12
            res is Ok ==> (res->Ok_0.prepared_beta_h@ == res->Ok_0.beta_h@),   // name=sonic_pc.VerifierKey.deserialize.prepared_elements_rebuilt_1 props=C12
            (res is Ok && validate == Validate::Yes) ==> valid_VerifierKey(&res->Ok_0),   // name=sonic_pc.VerifierKey.deserialize.validates_when_asked props=C12
//@body
//@rw 7 /&mut reader/ => &mut *reader
//@end
    }
//@lemma props=C12
    pub proof fn lemma_VerifierKey_roundtrip(x: VerifierKey, y: VerifierKey, c: Compress, rest: Seq<u8>, rest2: Seq<u8>)
        requires ser_VerifierKey(&x, c) + rest == ser_VerifierKey(&y, c) + rest2
        ensures x.g.ser(c) == y.g.ser(c), x.gamma_g.ser(c) == y.gamma_g.ser(c), x.h.ser(c) == y.h.ser(c), x.beta_h.ser(c) == y.beta_h.ser(c), x.degree_bounds_and_neg_powers_of_h.ser(c) == y.degree_bounds_and_neg_powers_of_h.ser(c), x.supported_degree.ser(c) == y.supported_degree.ser(c), x.max_degree.ser(c) == y.max_degree.ser(c), rest == rest2
    {
        let a0 = ser_VerifierKey(&x, c) + rest; let b0 = ser_VerifierKey(&y, c) + rest2;
        let a1 = x.gamma_g.ser(c) + x.h.ser(c) + x.beta_h.ser(c) + x.degree_bounds_and_neg_powers_of_h.ser(c) + x.supported_degree.ser(c) + x.max_degree.ser(c) + rest; let b1 = y.gamma_g.ser(c) + y.h.ser(c) + y.beta_h.ser(c) + y.degree_bounds_and_neg_powers_of_h.ser(c) + y.supported_degree.ser(c) + y.max_degree.ser(c) + rest2;
        assert(a0 =~= x.g.ser(c) + a1); assert(b0 =~= y.g.ser(c) + b1);
        Canon::ser_injective(x.g, y.g, c, a1, b1);
        let a2 = x.h.ser(c) + x.beta_h.ser(c) + x.degree_bounds_and_neg_powers_of_h.ser(c) + x.supported_degree.ser(c) + x.max_degree.ser(c) + rest; let b2 = y.h.ser(c) + y.beta_h.ser(c) + y.degree_bounds_and_neg_powers_of_h.ser(c) + y.supported_degree.ser(c) + y.max_degree.ser(c) + rest2;
        assert(a1 =~= x.gamma_g.ser(c) + a2); assert(b1 =~= y.gamma_g.ser(c) + b2);
        Canon::ser_injective(x.gamma_g, y.gamma_g, c, a2, b2);
        let a3 = x.beta_h.ser(c) + x.degree_bounds_and_neg_powers_of_h.ser(c) + x.supported_degree.ser(c) + x.max_degree.ser(c) + rest; let b3 = y.beta_h.ser(c) + y.degree_bounds_and_neg_powers_of_h.ser(c) + y.supported_degree.ser(c) + y.max_degree.ser(c) + rest2;
        assert(a2 =~= x.h.ser(c) + a3); assert(b2 =~= y.h.ser(c) + b3);
        Canon::ser_injective(x.h, y.h, c, a3, b3);
        let a4 = x.degree_bounds_and_neg_powers_of_h.ser(c) + x.supported_degree.ser(c) + x.max_degree.ser(c) + rest; let b4 = y.degree_bounds_and_neg_powers_of_h.ser(c) + y.supported_degree.ser(c) + y.max_degree.ser(c) + rest2;
        assert(a3 =~= x.beta_h.ser(c) + a4); assert(b3 =~= y.beta_h.ser(c) + b4);
        Canon::ser_injective(x.beta_h, y.beta_h, c, a4, b4);
        let a5 = x.supported_degree.ser(c) + x.max_degree.ser(c) + rest; let b5 = y.supported_degree.ser(c) + y.max_degree.ser(c) + rest2;
        assert(a4 =~= x.degree_bounds_and_neg_powers_of_h.ser(c) + a5); assert(b4 =~= y.degree_bounds_and_neg_powers_of_h.ser(c) + b5);
        Canon::ser_injective(x.degree_bounds_and_neg_powers_of_h, y.degree_bounds_and_neg_powers_of_h, c, a5, b5);
        let a6 = x.max_degree.ser(c) + rest; let b6 = y.max_degree.ser(c) + rest2;
        assert(a5 =~= x.supported_degree.ser(c) + a6); assert(b5 =~= y.supported_degree.ser(c) + b6);
        Canon::ser_injective(x.supported_degree, y.supported_degree, c, a6, b6);
        let a7 = rest; let b7 = rest2;
        assert(a6 =~= x.max_degree.ser(c) + a7); assert(b6 =~= y.max_degree.ser(c) + b7);
        Canon::ser_injective(x.max_degree, y.max_degree, c, a7, b7);
    }
}
pub mod pst13 {
    use super::*;
//@struct file=poly-commit/src/marlin/marlin_pst13_pc/data_structures.rs name=UniversalParams
    // canonical encoding of pst13::UniversalParams: the listed fields, in declaration order
    pub open spec fn ser_UniversalParams(x: &UniversalParams, c: Compress) -> Seq<u8> {
        x.powers_of_g.ser(c) + x.gamma_g.ser(c) + x.powers_of_gamma_g.ser(c) + x.h.ser(c) + x.beta_h.ser(c) + x.num_vars.ser(c) + x.max_degree.ser(c)
    }
    pub open spec fn valid_UniversalParams(x: &UniversalParams) -> bool {
        x.powers_of_g.valid() && x.gamma_g.valid() && x.powers_of_gamma_g.valid() && x.h.valid() && x.beta_h.valid() && x.num_vars.valid() && x.max_degree.valid()
    }
    impl UniversalParams {
//@fn id=pst13.UniversalParams.check file=poly-commit/src/marlin/marlin_pst13_pc/data_structures.rs scope="impl<E, P> Valid for UniversalParams<E, P>" name=check props=C12
        pub fn check(&self) -> (res: Result<(), SerializationError>)
        ensures
            (res is Ok) == valid_UniversalParams(self),   // name=pst13.UniversalParams.check.iff_all_components_valid props=C12
//@body
//@end
//@fn id=pst13.UniversalParams.serialize_with_mode file=poly-commit/src/marlin/marlin_pst13_pc/data_structures.rs scope="impl<E, P> CanonicalSerialize for UniversalParams<E, P>" name=serialize_with_mode props=C12
        pub fn serialize_with_mode(&self, writer: &mut Sink, compress: Compress) -> (res: Result<(), SerializationError>)
        ensures
            res is Ok ==> final(writer).bytes@ =~= old(writer).bytes@ + ser_UniversalParams(self, compress),   // name=pst13.UniversalParams.serialize.writes_fields_in_order props=C12
//@body
//@rw 7 /&mut writer/ => &mut *writer
//@end
//@fn id=pst13.UniversalParams.serialized_size file=poly-commit/src/marlin/marlin_pst13_pc/data_structures.rs scope="impl<E, P> CanonicalSerialize for UniversalParams<E, P>" name=serialized_size props=C12
        pub fn serialized_size(&self, compress: Compress) -> (res: usize)
        requires
            ser_UniversalParams(self, compress).len() <= usize::MAX,
        ensures
            res == ser_UniversalParams(self, compress).len(),   // name=pst13.UniversalParams.serialized_size.equals_bytes_written props=C12
//@body
//@end
//@fn id=pst13.UniversalParams.deserialize_with_mode file=poly-commit/src/marlin/marlin_pst13_pc/data_structures.rs scope="impl<E, P> CanonicalDeserialize for UniversalParams<E, P>" name=deserialize_with_mode props=C12
        pub fn deserialize_with_mode(reader: &mut Source, compress: Compress, validate: Validate) -> (res: Result<Self, SerializationError>)
        ensures
            res is Ok ==> old(reader).bytes@ =~= ser_UniversalParams(&res->Ok_0, compress) + final(reader).bytes@,   // name=pst13.UniversalParams.deserialize.consumes_one_encoding props=C12
            res is Ok ==> (res->Ok_0.prepared_h@ == res->Ok_0.h@),   // name=pst13.UniversalParams.deserialize.prepared_elements_rebuilt_0 props=C12
            res is Ok ==> (res->Ok_0.prepared_beta_h@.len() == res->Ok_0.beta_h@.len()),   // name=pst13.UniversalParams.deserialize.prepared_elements_rebuilt_1 props=C12
            res is Ok ==> (forall|i: int| 0 <= i < res->Ok_0.beta_h@.len() ==> (#[trigger] res->Ok_0.prepared_beta_h@[i])@ == res->Ok_0.beta_h@[i]@),   // name=pst13.UniversalParams.deserialize.prepared_elements_rebuilt_2 props=C12
            (res is Ok && validate == Validate::Yes) ==> valid_UniversalParams(&res->Ok_0),   // name=pst13.UniversalParams.deserialize.validates_when_asked props=C12
//@body
//@rw 7 /&mut reader/ => &mut *reader
//@closure |x| => |x: &G2Affine| -> (p: G2Prepared) ensures p@ == x@
//@end
    }
//@lemma props=C12
    pub proof fn lemma_UniversalParams_roundtrip(x: UniversalParams, y: UniversalParams, c: Compress, rest: Seq<u8>, rest2: Seq<u8>)
        requires ser_UniversalParams(&x, c) + rest == ser_UniversalParams(&y, c) + rest2
        ensures x.powers_of_g.ser(c) == y.powers_of_g.ser(c), x.gamma_g.ser(c) == y.gamma_g.ser(c), x.powers_of_gamma_g.ser(c) == y.powers_of_gamma_g.ser(c), x.h.ser(c) == y.h.ser(c), x.beta_h.ser(c) == y.beta_h.ser(c), x.num_vars.ser(c) == y.num_vars.ser(c), x.max_degree.ser(c) == y.max_degree.ser(c), rest == rest2
    {
        let a0 = ser_UniversalParams(&x, c) + rest; let b0 = ser_UniversalParams(&y, c) + rest2;
        let a1 = x.gamma_g.ser(c) + x.powers_of_gamma_g.ser(c) + x.h.ser(c) + x.beta_h.ser(c) + x.num_vars.ser(c) + x.max_degree.ser(c) + rest; let b1 = y.gamma_g.ser(c) + y.powers_of_gamma_g.ser(c) + y.h.ser(c) + y.beta_h.ser(c) + y.num_vars.ser(c) + y.max_degree.ser(c) + rest2;
        assert(a0 =~= x.powers_of_g.ser(c) + a1); assert(b0 =~= y.powers_of_g.ser(c) + b1);
        Canon::ser_injective(x.powers_of_g, y.powers_of_g, c, a1, b1);
        let a2 = x.powers_of_gamma_g.ser(c) + x.h.ser(c) + x.beta_h.ser(c) + x.num_vars.ser(c) + x.max_degree.ser(c) + rest; let b2 = y.powers_of_gamma_g.ser(c) + y.h.ser(c) + y.beta_h.ser(c) + y.num_vars.ser(c) + y.max_degree.ser(c) + rest2;
        assert(a1 =~= x.gamma_g.ser(c) + a2); assert(b1 =~= y.gamma_g.ser(c) + b2);
        Canon::ser_injective(x.gamma_g, y.gamma_g, c, a2, b2);
        let a3 = x.h.ser(c) + x.beta_h.ser(c) + x.num_vars.ser(c) + x.max_degree.ser(c) + rest; let b3 = y.h.ser(c) + y.beta_h.ser(c) + y.num_vars.ser(c) + y.max_degree.ser(c) + rest2;
        assert(a2 =~= x.powers_of_gamma_g.ser(c) + a3); assert(b2 =~= y.powers_of_gamma_g.ser(c) + b3);
        Canon::ser_injective(x.powers_of_gamma_g, y.powers_of_gamma_g, c, a3, b3);
        let a4 = x.beta_h.ser(c) + x.num_vars.ser(c) + x.max_degree.ser(c) + rest; let b4 = y.beta_h.ser(c) + y.num_vars.ser(c) + y.max_degree.ser(c) + rest2;
        assert(a3 =~= x.h.ser(c) + a4); assert(b3 =~= y.h.ser(c) + b4);
        Canon::ser_injective(x.h, y.h, c, a4, b4);
        let a5 = x.num_vars.ser(c) + x.max_degree.ser(c) + rest; let b5 = y.num_vars.ser(c) + y.max_degree.ser(c) + rest2;
        assert(a4 =~= x.beta_h.ser(c) + a5); assert(b4 =~= y.beta_h.ser(c) + b5);
        Canon::ser_injective(x.beta_h, y.beta_h, c, a5, b5);
        let a6 = x.max_degree.ser(c) + rest; let b6 = y.max_degree.ser(c) + rest2;
        assert(a5 =~= x.num_vars.ser(c) + a6); assert(b5 =~= y.num_vars.ser(c) + b6);
        Canon::ser_injective(x.num_vars, y.num_vars, c, a6, b6);
        let a7 = rest; let b7 = rest2;
        assert(a6 =~= x.max_degree.ser(c) + a7); assert(b6 =~= y.max_degree.ser(c) + b7);
        Canon::ser_injective(x.max_degree, y.max_degree, c, a7, b7);
    }
//@struct file=poly-commit/src/marlin/marlin_pst13_pc/data_structures.rs name=VerifierKey
    // canonical encoding of pst13::VerifierKey: the listed fields, in declaration order
    pub open spec fn ser_VerifierKey(x: &VerifierKey, c: Compress) -> Seq<u8> {
        x.g.ser(c) + x.gamma_g.ser(c) + x.h.ser(c) + x.beta_h.ser(c) + x.num_vars.ser(c) + x.supported_degree.ser(c) + x.max_degree.ser(c)
    }
    pub open spec fn valid_VerifierKey(x: &VerifierKey) -> bool {
        x.g.valid() && x.gamma_g.valid() && x.h.valid() && x.beta_h.valid() && x.num_vars != 0 && x.supported_degree != 0 && x.max_degree != 0 && x.max_degree >= x.supported_degree
    }
    impl VerifierKey {
//@fn id=pst13.VerifierKey.check file=poly-commit/src/marlin/marlin_pst13_pc/data_structures.rs scope="impl<E: Pairing> Valid for VerifierKey<E>" name=check props=C12
        pub fn check(&self) -> (res: Result<(), SerializationError>)
        ensures
            (res is Ok) == valid_VerifierKey(self),   // name=pst13.VerifierKey.check.iff_all_components_valid props=C12
//@body
//@end
//@fn id=pst13.VerifierKey.serialize_with_mode file=poly-commit/src/marlin/marlin_pst13_pc/data_structures.rs scope="impl<E: Pairing> CanonicalSerialize for VerifierKey<E>" name=serialize_with_mode props=C12
        pub fn serialize_with_mode(&self, writer: &mut Sink, compress: Compress) -> (res: Result<(), SerializationError>)
        ensures
            res is Ok ==> final(writer).bytes@ =~= old(writer).bytes@ + ser_VerifierKey(self, compress),   // name=pst13.VerifierKey.serialize.writes_fields_in_order props=C12
//@body
//@rw 7 /&mut writer/ => &mut *writer
//@end
//@fn id=pst13.VerifierKey.serialized_size file=poly-commit/src/marlin/marlin_pst13_pc/data_structures.rs scope="impl<E: Pairing> CanonicalSerialize for VerifierKey<E>" name=serialized_size props=C12
        pub fn serialized_size(&self, compress: Compress) -> (res: usize)
        requires
            ser_VerifierKey(self, compress).len() <= usize::MAX,
        ensures
            res == ser_VerifierKey(self, compress).len(),   // name=pst13.VerifierKey.serialized_size.equals_bytes_written props=C12
//@body
//@end
//@fn id=pst13.VerifierKey.deserialize_with_mode file=poly-commit/src/marlin/marlin_pst13_pc/data_structures.rs scope="impl<E: Pairing> CanonicalDeserialize for VerifierKey<E>" name=deserialize_with_mode props=C12
        pub fn deserialize_with_mode(reader: &mut Source, compress: Compress, validate: Validate) -> (res: Result<Self, SerializationError>)
        ensures
            res is Ok ==> old(reader).bytes@ =~= ser_VerifierKey(&res->Ok_0, compress) + final(reader).bytes@,   // name=pst13.VerifierKey.deserialize.consumes_one_encoding props=C12
            res is Ok ==> (res->Ok_0.prepared_h@ == res->Ok_0.h@),   // name=pst13.VerifierKey.deserialize.prepared_elements_rebuilt_0 props=C12
            res is Ok ==> (res->Ok_0.prepared_beta_h@.len() == res->Ok_0.beta_h@.len()),   // name=pst13.VerifierKey.deserialize.prepared_elements_rebuilt_1 props=C12
            res is Ok ==> (forall|i: int| 0 <= i < res->Ok_0.beta_h@.len() ==> (#[trigger] res->Ok_0.prepared_beta_h@[i])@ == res->Ok_0.beta_h@[i]@),   // name=pst13.VerifierKey.deserialize.prepared_elements_rebuilt_2 props=C12
            (res is Ok && validate == Validate::Yes) ==> valid_VerifierKey(&res->Ok_0),   // name=pst13.VerifierKey.deserialize.validates_when_asked props=C12
//@body
//@rw 7 /&mut reader/ => &mut *reader
//@closure |x| => |x: &G2Affine| -> (p: G2Prepared) ensures p@ == x@
//@end
    }
//@lemma props=C12
    pub proof fn lemma_VerifierKey_roundtrip(x: VerifierKey, y: VerifierKey, c: Compress, rest: Seq<u8>, rest2: Seq<u8>)
        requires ser_VerifierKey(&x, c) + rest == ser_VerifierKey(&y, c) + rest2
        ensures x.g.ser(c) == y.g.ser(c), x.gamma_g.ser(c) == y.gamma_g.ser(c), x.h.ser(c) == y.h.ser(c), x.beta_h.ser(c) == y.beta_h.ser(c), x.num_vars.ser(c) == y.num_vars.ser(c), x.supported_degree.ser(c) == y.supported_degree.ser(c), x.max_degree.ser(c) == y.max_degree.ser(c), rest == rest2
    {
        let a0 = ser_VerifierKey(&x, c) + rest; let b0 = ser_VerifierKey(&y, c) + rest2;
        let a1 = x.gamma_g.ser(c) + x.h.ser(c) + x.beta_h.ser(c) + x.num_vars.ser(c) + x.supported_degree.ser(c) + x.max_degree.ser(c) + rest; let b1 = y.gamma_g.ser(c) + y.h.ser(c) + y.beta_h.ser(c) + y.num_vars.ser(c) + y.supported_degree.ser(c) + y.max_degree.ser(c) + rest2;
        assert(a0 =~= x.g.ser(c) + a1); assert(b0 =~= y.g.ser(c) + b1);
        Canon::ser_injective(x.g, y.g, c, a1, b1);
        let a2 = x.h.ser(c) + x.beta_h.ser(c) + x.num_vars.ser(c) + x.supported_degree.ser(c) + x.max_degree.ser(c) + rest; let b2 = y.h.ser(c) + y.beta_h.ser(c) + y.num_vars.ser(c) + y.supported_degree.ser(c) + y.max_degree.ser(c) + rest2;
        assert(a1 =~= x.gamma_g.ser(c) + a2); assert(b1 =~= y.gamma_g.ser(c) + b2);
        Canon::ser_injective(x.gamma_g, y.gamma_g, c, a2, b2);
        let a3 = x.beta_h.ser(c) + x.num_vars.ser(c) + x.supported_degree.ser(c) + x.max_degree.ser(c) + rest; let b3 = y.beta_h.ser(c) + y.num_vars.ser(c) + y.supported_degree.ser(c) + y.max_degree.ser(c) + rest2;
        assert(a2 =~= x.h.ser(c) + a3); assert(b2 =~= y.h.ser(c) + b3);
        Canon::ser_injective(x.h, y.h, c, a3, b3);
        let a4 = x.num_vars.ser(c) + x.supported_degree.ser(c) + x.max_degree.ser(c) + rest; let b4 = y.num_vars.ser(c) + y.supported_degree.ser(c) + y.max_degree.ser(c) + rest2;
        assert(a3 =~= x.beta_h.ser(c) + a4); assert(b3 =~= y.beta_h.ser(c) + b4);
        Canon::ser_injective(x.beta_h, y.beta_h, c, a4, b4);
        let a5 = x.supported_degree.ser(c) + x.max_degree.ser(c) + rest; let b5 = y.supported_degree.ser(c) + y.max_degree.ser(c) + rest2;
        assert(a4 =~= x.num_vars.ser(c) + a5); assert(b4 =~= y.num_vars.ser(c) + b5);
        Canon::ser_injective(x.num_vars, y.num_vars, c, a5, b5);
        let a6 = x.max_degree.ser(c) + rest; let b6 = y.max_degree.ser(c) + rest2;
        assert(a5 =~= x.supported_degree.ser(c) + a6); assert(b5 =~= y.supported_degree.ser(c) + b6);
        Canon::ser_injective(x.supported_degree, y.supported_degree, c, a6, b6);
        let a7 = rest; let b7 = rest2;
        assert(a6 =~= x.max_degree.ser(c) + a7); assert(b6 =~= y.max_degree.ser(c) + b7);
        Canon::ser_injective(x.max_degree, y.max_degree, c, a7, b7);
    }
}
