// MarlinKZG10::trim, kzg10::UniversalParams::max_degree (C09, C04)
//@use core ops_gen std
//@spec ring
//@typemap /::<E, P, Self>::/ => ::
//@typemap /::<E, P>::/ => ::
//@typemap /<E>/ => 
//@typemap /Self::UniversalParams/ => UniversalParams
//@typemap /Self::CommitterKey/ => CommitterKey
//@typemap /Self::VerifierKey/ => VerifierKey
//@typemap /Self::Error/ => Error
//@enum file=poly-commit/src/error.rs name=Error
pub mod kzg10 {
    use super::*;
//@struct file=poly-commit/src/kzg10/data_structures.rs name=UniversalParams
//@struct file=poly-commit/src/kzg10/data_structures.rs name=VerifierKey
    impl UniversalParams {
//@fn id=kzg10.UniversalParams.max_degree file=poly-commit/src/kzg10/data_structures.rs scope="impl<E: Pairing> PCUniversalParams for UniversalParams<E>" name=max_degree props=C09
        pub fn max_degree(&self) -> (r: usize)
        requires
            self.powers_of_g@.len() >= 1,
        ensures
            r == self.powers_of_g@.len() - 1,   // name=kzg10.UniversalParams.max_degree.truthful props=C09
//@body
//@end
    }
}
pub type UniversalParams = kzg10::UniversalParams;
//@struct file=poly-commit/src/marlin/marlin_pc/data_structures.rs name=CommitterKey
//@struct file=poly-commit/src/marlin/marlin_pc/data_structures.rs name=VerifierKey

//@spec marlin_srs_spec
pub open spec fn same_set(a: Seq<usize>, b: Seq<usize>) -> bool { forall|x: usize| a.contains(x) == b.contains(x) }
// trim's result is a faithful sub-key of pp (oracle side, from the property statement)
pub open spec fn trim_ok(pp: &UniversalParams, supported_degree: usize, hb: usize, bounds: Option<&[usize]>, ck: &CommitterKey, vk: &VerifierKey) -> bool {
    let max_degree = (pp.powers_of_g@.len() - 1) as usize;
    // exactly the requested plain powers and hiding powers
    ck.powers@ =~= pp.powers_of_g@.subrange(0, supported_degree + 1)
    && ck.powers_of_gamma_g@.len() == hb + 2
    && (forall|i: int| 0 <= i <= hb + 1 ==> (#[trigger] ck.powers_of_gamma_g@[i]) == pp.powers_of_gamma_g@[i as usize])
    // same generators in the verifier key
    && vk.vk.g == pp.powers_of_g@[0] && vk.vk.gamma_g == pp.powers_of_gamma_g@[0usize] && vk.vk.h == pp.h && vk.vk.beta_h == pp.beta_h
    && vk.vk.prepared_h@ == pp.prepared_h@ && vk.vk.prepared_beta_h@ == pp.prepared_beta_h@
    // truthful degree reports
    && ck.max_degree == max_degree && vk.max_degree == max_degree && vk.supported_degree == supported_degree
    // enforced bounds: sorted, without duplicates, exactly the requested set
    && (ck.enforced_degree_bounds is Some) == (bounds is Some)
    && (bounds is Some ==> (strictly_sorted_usize(ck.enforced_degree_bounds->Some_0@) && same_set(ck.enforced_degree_bounds->Some_0@, bounds->Some_0@)))
    // shift material for exactly the enforced bounds
    && (ck.shifted_powers is Some) == (bounds is Some && bounds->Some_0@.len() > 0)
    && (vk.degree_bounds_and_shift_powers is Some) == (ck.shifted_powers is Some)
    && (ck.shifted_powers is Some ==> {
        let eb = ck.enforced_degree_bounds->Some_0@; let tbl = vk.degree_bounds_and_shift_powers->Some_0@;
        ck.shifted_powers->Some_0@ =~= pp.powers_of_g@.subrange(max_degree - eb.last(), pp.powers_of_g@.len() as int)
        && tbl.len() == eb.len()
        && forall|i: int| 0 <= i < eb.len() ==> (#[trigger] tbl[i]).0 == eb[i] && tbl[i].1 == pp.powers_of_g@[max_degree - eb[i]]
    })
}
pub struct MarlinKZG10;
impl MarlinKZG10 {
//@fn id=marlin_pc.trim file=poly-commit/src/marlin/marlin_pc/mod.rs scope="impl<E, P> PolynomialCommitment<E::ScalarField, P> for MarlinKZG10<E, P>" name=trim props=C09,C04,C17
    fn trim(pp: &UniversalParams, supported_degree: usize, supported_hiding_bound: usize, enforced_degree_bounds: Option<&[usize]>) -> (res: Result<(CommitterKey, VerifierKey), Error>)
    requires
        pp.powers_of_g@.len() >= 1,
        supported_hiding_bound < usize::MAX - 1,
        // out-of-range hiding or degree-bound requests index outside the parameters and abort (C17: refused, never answered)
        forall|i: usize| i <= supported_hiding_bound + 1 ==> pp.powers_of_gamma_g@.dom().contains(i),
        enforced_degree_bounds is Some ==> forall|i: int| 0 <= i < enforced_degree_bounds->Some_0@.len() ==> enforced_degree_bounds->Some_0@[i] <= pp.powers_of_g@.len() - 1,
    ensures
        (res is Err) == (supported_degree > pp.powers_of_g@.len() - 1),   // name=marlin_pc.trim.err_iff_degree_beyond_parameters props=C09,C17
        res is Ok ==> res->Ok_0.0.powers@ =~= pp.powers_of_g@.subrange(0, supported_degree + 1),   // name=marlin_pc.trim.exactly_the_requested_powers props=C09
        res is Ok ==> res->Ok_0.0.powers_of_gamma_g@.len() == supported_hiding_bound + 2,          // name=marlin_pc.trim.hiding_powers_count props=C09
        res is Ok ==> (forall|i: int| 0 <= i <= supported_hiding_bound + 1 ==> (#[trigger] res->Ok_0.0.powers_of_gamma_g@[i]) == pp.powers_of_gamma_g@[i as usize]),   // name=marlin_pc.trim.hiding_powers props=C09
        res is Ok ==> (res->Ok_0.1.vk.g == pp.powers_of_g@[0] && res->Ok_0.1.vk.gamma_g == pp.powers_of_gamma_g@[0usize] && res->Ok_0.1.vk.h == pp.h && res->Ok_0.1.vk.beta_h == pp.beta_h),   // name=marlin_pc.trim.same_generators props=C09
        res is Ok ==> (res->Ok_0.1.vk.prepared_h@ == pp.prepared_h@ && res->Ok_0.1.vk.prepared_beta_h@ == pp.prepared_beta_h@),   // name=marlin_pc.trim.prepared_generators props=C09
        res is Ok ==> (res->Ok_0.0.max_degree == pp.powers_of_g@.len() - 1 && res->Ok_0.1.max_degree == pp.powers_of_g@.len() - 1 && res->Ok_0.1.supported_degree == supported_degree),   // name=marlin_pc.trim.truthful_degree_reports props=C09
        res is Ok ==> (res->Ok_0.0.enforced_degree_bounds is Some) == (enforced_degree_bounds is Some),
        (res is Ok && enforced_degree_bounds is Some) ==> (strictly_sorted_usize(res->Ok_0.0.enforced_degree_bounds->Some_0@) && same_set(res->Ok_0.0.enforced_degree_bounds->Some_0@, enforced_degree_bounds->Some_0@)),   // name=marlin_pc.trim.bounds_sorted_deduplicated_same_set props=C09,C04
        res is Ok ==> (res->Ok_0.0.shifted_powers is Some) == (enforced_degree_bounds is Some && enforced_degree_bounds->Some_0@.len() > 0),   // name=marlin_pc.trim.shifted_powers_iff_bounds props=C09,C04
        res is Ok ==> (res->Ok_0.1.degree_bounds_and_shift_powers is Some) == (res->Ok_0.0.shifted_powers is Some),
        (res is Ok && res->Ok_0.0.shifted_powers is Some) ==> res->Ok_0.0.shifted_powers->Some_0@ =~= pp.powers_of_g@.subrange(pp.powers_of_g@.len() - 1 - res->Ok_0.0.enforced_degree_bounds->Some_0@.last(), pp.powers_of_g@.len() as int),   // name=marlin_pc.trim.shifted_powers_window props=C09,C04
        (res is Ok && res->Ok_0.0.shifted_powers is Some) ==> res->Ok_0.1.degree_bounds_and_shift_powers->Some_0@.len() == res->Ok_0.0.enforced_degree_bounds->Some_0@.len(),   // name=marlin_pc.trim.one_shift_power_per_bound props=C09,C04
        (res is Ok && res->Ok_0.0.shifted_powers is Some) ==> (forall|i: int| 0 <= i < res->Ok_0.0.enforced_degree_bounds->Some_0@.len() ==>
            (#[trigger] res->Ok_0.1.degree_bounds_and_shift_powers->Some_0@[i]).0 == res->Ok_0.0.enforced_degree_bounds->Some_0@[i]
            && res->Ok_0.1.degree_bounds_and_shift_powers->Some_0@[i].1 == pp.powers_of_g@[pp.powers_of_g@.len() - 1 - res->Ok_0.0.enforced_degree_bounds->Some_0@[i]]),   // name=marlin_pc.trim.shift_power_is_the_power_for_that_bound props=C09,C04
//@body
//@rw 2 /pp\.powers_of_gamma_g\[&(\w+)\]/ => btree_index(&pp.powers_of_gamma_g, &\1)
//@rw 1 /v\.sort\(\);/ => sort_usize(&mut v);
//@rw 1 /v\.dedup\(\);/ => dedup_usize(&mut v);
//@rw 1 /sorted_enforced_degree_bounds\.sort\(\);/ => sort_usize(&mut sorted_enforced_degree_bounds);
//@before /let enforced_degree_bounds = enforced_degree_bounds\.map/
        let ghost bounds0 = enforced_degree_bounds;
//@before /let \(shifted_powers, degree_bounds_and_shift_powers\) =/
        proof {
            if enforced_degree_bounds is Some {
                let eb = enforced_degree_bounds->Some_0@;
                if bounds0->Some_0@.len() > 0 { assert(bounds0->Some_0@.contains(bounds0->Some_0@[0])); assert(eb.contains(bounds0->Some_0@[0])); }
                assert forall|i: int| 0 <= i < eb.len() implies (#[trigger] eb[i]) <= max_degree by {
                    assert(eb.contains(eb[i]));
                    let j = choose|j: int| 0 <= j < bounds0->Some_0@.len() && bounds0->Some_0@[j] == eb[i];
                }
            }
        }
//@before /let lowest_shifted_power =/
                    proof {
                        let sb = sorted_enforced_degree_bounds@; let eb = enforced_degree_bounds@;
                        assert(sb.len() == eb.len() && sb.len() > 0);
                        assert(sb.contains(sb.last()));
                        assert(eb.contains(sb.last()));
                        let j = choose|j: int| 0 <= j < eb.len() && eb[j] == sb.last();
                        // eb is already sorted, so its last element is its maximum, as is sb's
                        assert(eb.contains(eb.last()));
                        assert(sb.contains(eb.last()));
                        let k = choose|k: int| 0 <= k < sb.len() && sb[k] == eb.last();
                        assert(sb.last() == eb.last());
                    }
//@closure |i| => |i: usize| -> (r: G1Affine) requires i <= supported_hiding_bound + 1 ensures r == pp.powers_of_gamma_g@[i]
//@closure |v| => |v: &[usize]| -> (w: Vec<usize>) ensures strictly_sorted_usize(w@), same_set(w@, v@), w@.len() <= v@.len()
//@closure |d| => |d: &usize| -> (r: (usize, G1Affine)) requires *d <= max_degree, max_degree == pp.powers_of_g@.len() - 1 ensures r.0 == *d, r.1 == pp.powers_of_g@[max_degree - *d]
//@end
}

// ======================= C01/C09: trim keeps the trapdoor form =======================
// If the universal parameters are  g beta^i,  gamma_g beta^i,  h,  h beta  (what KZG10::setup returns: clause kzg10.setup.trapdoor_form in
// units/kzg10_setup.rs), the keys trim returns (trim_ok: the conjunction of the clauses proved for the real MarlinKZG10::trim above) are in the
// trapdoor form m_srs_ok that the MarlinKZG10 completeness lemma (units/marlin_prover.rs) takes as its hypothesis.
//@lemma props=C01,C09
pub proof fn lemma_trim_keeps_trapdoor_form(pp: &UniversalParams, supported_degree: usize, hb: usize, bounds: Option<&[usize]>, ck: &CommitterKey, vk: &VerifierKey, g: FS, gm: FS, beta: FS)
    requires
        pp.powers_of_g@.len() >= 1, supported_degree < pp.powers_of_g@.len(), pp.powers_of_g@.len() <= usize::MAX, hb < usize::MAX - 1,
        forall|i: int| 0 <= i < pp.powers_of_g@.len() ==> (#[trigger] pp.powers_of_g@[i])@ == f_mul(g, f_pow(beta, i as nat)),
        forall|i: usize| i <= hb + 1 ==> (#[trigger] pp.powers_of_gamma_g@[i])@ == f_mul(gm, f_pow(beta, i as nat)),
        pp.beta_h@ == f_mul(pp.h@, beta),
        trim_ok(pp, supported_degree, hb, bounds, ck, vk),
        bounds is Some ==> forall|i: int| 0 <= i < bounds->Some_0@.len() ==> (#[trigger] bounds->Some_0@[i]) < pp.powers_of_g@.len(),
    ensures
        m_srs_ok(ck, vk, beta)
{
    let n = pp.powers_of_g@.len(); let md = (n - 1) as usize;
    ax_mul_one(g); ax_mul_one(gm);
    assert(vk.vk.g@ == g && vk.vk.gamma_g@ == gm);
    assert(geometric(g1views(ck.powers@), g, beta, 0)) by {
        assert forall|i: int| 0 <= i < g1views(ck.powers@).len() implies #[trigger] g1views(ck.powers@)[i] == f_mul(g, f_pow(beta, 0 + i as nat)) by { assert(ck.powers@[i] == pp.powers_of_g@[i]); }
    }
    assert(geometric(g1views(ck.powers_of_gamma_g@), gm, beta, 0)) by {
        assert forall|i: int| 0 <= i < g1views(ck.powers_of_gamma_g@).len() implies #[trigger] g1views(ck.powers_of_gamma_g@)[i] == f_mul(gm, f_pow(beta, 0 + i as nat)) by {
            let iu = i as usize;
            assert(iu <= hb + 1 && iu as nat == i as nat);
            assert(ck.powers_of_gamma_g@[i] == pp.powers_of_gamma_g@[iu]);
            assert(pp.powers_of_gamma_g@[iu]@ == f_mul(gm, f_pow(beta, iu as nat)));
        }
    }
    if ck.shifted_powers is Some {
        let eb = ck.enforced_degree_bounds->Some_0@; let tbl = vk.degree_bounds_and_shift_powers->Some_0@; let sp = ck.shifted_powers->Some_0@;
        // every enforced bound is a requested bound, hence below the number of powers
        assert forall|i: int| 0 <= i < eb.len() implies (#[trigger] eb[i]) <= md by {
            assert(eb.contains(eb[i])); assert(bounds->Some_0@.contains(eb[i]));
            let j = choose|j: int| 0 <= j < bounds->Some_0@.len() && bounds->Some_0@[j] == eb[i];
            assert(bounds->Some_0@[j] < n);
        }
        assert(eb.len() > 0) by { assert(bounds->Some_0@.contains(bounds->Some_0@[0])); }
        assert(eb.last() <= md);
        let off = (md - eb.last()) as nat;
        assert(geometric(g1views(sp), g, beta, off)) by {
            assert forall|i: int| 0 <= i < g1views(sp).len() implies #[trigger] g1views(sp)[i] == f_mul(g, f_pow(beta, off + i as nat)) by {
                assert(sp[i] == pp.powers_of_g@[md - eb.last() + i]);
                assert((md - eb.last() + i) as nat == off + i as nat);
            }
        }
        assert forall|i: int| 0 <= i < tbl.len() implies (#[trigger] tbl[i]).0 <= ck.max_degree && tbl[i].1@ == f_mul(g, f_pow(beta, (ck.max_degree - tbl[i].0) as nat)) by {
            assert(tbl[i].0 == eb[i] && tbl[i].1 == pp.powers_of_g@[md - eb[i]]);
        }
    }
}
