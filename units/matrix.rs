// utils::Matrix layout functions and vector helpers (C08, C13)
//@use core ops_gen
//@spec ring vec_spec
//@typemap /Matrix<F>/ => Matrix
//@typemap /Vec<Vec<F>>/ => Vec<Vec<Fr>>
//@typemap /Vec<F>/ => Vec<Fr>
//@typemap /&\[F\]/ => &[Fr]
//@struct file=poly-commit/src/utils.rs name=Matrix
//@stub from=hyrax.rs id=utils.inner_product
// row-major matrix: entries[r][c]
pub open spec fn mat_wf(m: &Matrix) -> bool { m.entries@.len() == m.n && forall|r: int| 0 <= r < m.n ==> (#[trigger] m.entries@[r])@.len() == m.m }
impl Matrix {
//@fn id=utils.Matrix.new_from_flat file=poly-commit/src/utils.rs scope="impl<F: Field> Matrix<F>" name=new_from_flat props=C08
    pub fn new_from_flat(n: usize, m: usize, entry_list: &[Fr]) -> (r: Matrix)
    requires
        n * m <= usize::MAX,
    ensures
        entry_list@.len() == n * m,     // (otherwise the constructor panics)
        r.n == n, r.m == m, mat_wf(&r),
        forall|row: int, col: int| 0 <= row < n && 0 <= col < m ==> #[trigger] r.entries@[row]@[col] == entry_list@[m * row + col],   // name=utils.Matrix.new_from_flat.row_major_layout props=C08
//@body
//@closure |row| => |row: usize| -> (rv: Vec<Fr>) requires row < n, entry_list@.len() == n * m, n * m <= usize::MAX ensures rv@.len() == m, forall|c: int| 0 <= c < m ==> (#[trigger] rv@[c]) == entry_list@[m * row + c]
//@closure |col| => |col: usize| -> (e: Fr) requires col < m, row < n, entry_list@.len() == n * m, n * m <= usize::MAX ensures e == entry_list@[m * row + col] ;; proof { assert(m * row + col < n * m && m * row <= n * m) by (nonlinear_arith) requires row < n, col < m; }
//@end
}
