// utils::Matrix layout functions and vector helpers (C08, C13)
//@use core ops_gen
//@spec ring vec_spec
//@typemap /Matrix<F>/ => Matrix
//@typemap /Vec<Vec<F>>/ => Vec<Vec<Fr>>
//@typemap /Vec<F>/ => Vec<Fr>
//@typemap /&\[F\]/ => &[Fr]
//@typemap /<T: Copy>/ => 
//@typemap /Vec<Vec<T>>/ => Vec<Vec<Fr>>
//@typemap /&\[T\]/ => &[Fr]
//@struct file=poly-commit/src/utils.rs name=Matrix
//@stub from=hyrax.rs id=utils.inner_product
// row-major matrix: entries[r][c]
pub open spec fn mat_wf(m: &Matrix) -> bool { m.entries@.len() == m.n && forall|r: int| 0 <= r < m.n ==> (#[trigger] m.entries@[r])@.len() == m.m }
impl Matrix {
//@fn id=utils.Matrix.new_from_flat file=poly-commit/src/utils.rs scope="impl<F: Field> Matrix<F>" name=new_from_flat props=C08
    pub fn new_from_flat(n: usize, m: usize, entry_list: &[Fr]) -> (r: Matrix)
    requires
        n * m <= usize::MAX,
    ensures
        entry_list@.len() == n * m,     // (otherwise the constructor panics)
        r.n == n, r.m == m, mat_wf(&r),
        forall|row: int, col: int| 0 <= row < n && 0 <= col < m ==> #[trigger] r.entries@[row]@[col] == entry_list@[m * row + col],   // name=utils.Matrix.new_from_flat.row_major_layout props=C08
//@body
//@closure |row| => |row: usize| -> (rv: Vec<Fr>) requires row < n, entry_list@.len() == n * m, n * m <= usize::MAX ensures rv@.len() == m, forall|c: int| 0 <= c < m ==> (#[trigger] rv@[c]) == entry_list@[m * row + c]
//@closure |col| => |col: usize| -> (e: Fr) requires col < m, row < n, entry_list@.len() == n * m, n * m <= usize::MAX ensures e == entry_list@[m * row + col] ;; proof { assert(m * row + col < n * m && m * row <= n * m) by (nonlinear_arith) requires row < n, col < m; }
//@end

//@fn id=utils.Matrix.new_from_rows file=poly-commit/src/utils.rs scope="impl<F: Field> Matrix<F>" name=new_from_rows props=C08
    pub fn new_from_rows(row_list: Vec<Vec<Fr>>) -> (r: Matrix)
    requires
        row_list@.len() > 0,     // (an empty list indexes row 0 and panics)
    ensures
        r.n == row_list@.len(), r.m == row_list@[0]@.len(), r.entries@ == row_list@, mat_wf(&r),   // name=utils.Matrix.new_from_rows.rows_kept_and_rectangular props=C08
//@body
//@loop 1 kw=for name=it
            invariant m == row_list@[0]@.len(), row_list@.len() > 0,
                forall|i: int| 1 <= i < 1 + it.index@ ==> (#[trigger] row_list@[i])@.len() == m,
//@end

//@fn id=utils.Matrix.rows file=poly-commit/src/utils.rs scope="impl<F: Field> Matrix<F>" name=rows props=C08
    pub fn rows(&self) -> (r: Vec<Vec<Fr>>)
    ensures
        r@ == self.entries@,   // name=utils.Matrix.rows.returns_entries props=C08
//@body
//@rw * /self\.entries\.clone\(\)/ => clone_rows(&self.entries)
//@end

//@fn id=utils.Matrix.cols file=poly-commit/src/utils.rs scope="impl<F: Field> Matrix<F>" name=cols props=C08,C13
    pub fn cols(&self) -> (r: Vec<Vec<Fr>>)
    requires
        mat_wf(self),
    ensures
        r@.len() == self.m,
        forall|c: int| 0 <= c < self.m ==> (#[trigger] r@[c])@.len() == self.n,
        forall|c: int, rw: int| 0 <= c < self.m && 0 <= rw < self.n ==> #[trigger] r@[c]@[rw] == self.entries@[rw]@[c],   // name=utils.Matrix.cols.transpose props=C08,C13
//@body
//@closure |col| => |col: usize| -> (cv: Vec<Fr>) requires col < self.m, mat_wf(self) ensures cv@.len() == self.n, forall|rw: int| 0 <= rw < self.n ==> (#[trigger] cv@[rw]) == self.entries@[rw]@[col as int]
//@closure |row| => |row: usize| -> (e: Fr) requires row < self.n, col < self.m, mat_wf(self) ensures e == self.entries@[row as int]@[col as int]
//@end

//@fn id=utils.Matrix.row_mul file=poly-commit/src/utils.rs scope="impl<F: Field> Matrix<F>" name=row_mul props=C08,C13
    pub fn row_mul(&self, v: &[Fr]) -> (r: Vec<Fr>)
    requires
        mat_wf(self),
    ensures
        v@.len() == self.n,      // (otherwise the assertion panics)
        r@.len() == self.m,
        // (v * M)[c] = <v, column c>
        forall|c: int| 0 <= c < self.m ==> (#[trigger] r@[c])@ == ip(fviews(v@), Seq::new(self.n as nat, |rw: int| self.entries@[rw]@[c]@)),   // name=utils.Matrix.row_mul.linear_combination_of_rows props=C08,C13
//@body
//@closure |col| => |col: usize| -> (e: Fr) requires col < self.m, mat_wf(self), v@.len() == self.n ensures e@ == ip(fviews(v@), Seq::new(self.n as nat, |rw: int| self.entries@[rw]@[col as int]@)) ;; proof { assert forall|t: Seq<Fr>| t.len() == self.n && (forall|rw: int| 0 <= rw < self.n ==> (#[trigger] t[rw]) == self.entries@[rw]@[col as int]) implies #[trigger] fviews(t) == Seq::new(self.n as nat, |rw: int| self.entries@[rw]@[col as int]@) by { assert(fviews(t) =~= Seq::new(self.n as nat, |rw: int| self.entries@[rw]@[col as int]@)); } }
//@closure |row| => |row: usize| -> (e: Fr) requires row < self.n, col < self.m, mat_wf(self) ensures e == self.entries@[row as int]@[col as int]
//@end
}
// derived Clone on Vec<Vec<F>>
#[verifier::external_body] pub fn clone_rows(v: &Vec<Vec<Fr>>) -> (r: Vec<Vec<Fr>>) ensures r@ == v@ { unimplemented!() }

//@fn id=utils.scalar_by_vector file=poly-commit/src/utils.rs scope=top name=scalar_by_vector props=C08
pub fn scalar_by_vector(s: Fr, v: &[Fr]) -> (r: Vec<Fr>)
    ensures
        r@.len() == v@.len(),
        forall|i: int| 0 <= i < v@.len() ==> (#[trigger] r@[i])@ == f_mul(v@[i]@, s@),   // name=utils.scalar_by_vector.pointwise props=C08
//@body
//@closure |x| => |x: &Fr| -> (y: Fr) ensures y@ == f_mul(x@, s@)
//@end

//@fn id=utils.vector_sum file=poly-commit/src/utils.rs scope=top name=vector_sum props=C08
pub fn vector_sum(v1: &[Fr], v2: &[Fr]) -> (r: Vec<Fr>)
    ensures
        r@.len() == min(v1@.len(), v2@.len()),
        forall|i: int| 0 <= i < r@.len() ==> (#[trigger] r@[i])@ == f_add(v1@[i]@, v2@[i]@),   // name=utils.vector_sum.pointwise props=C08
//@body
//@rw * /\.zip\(v2\)/ => .zip(v2.iter())
//@closure |(li, ri)| => |q: (&Fr, &Fr)| -> (y: Fr) ensures y@ == f_add(q.0@, q.1@) ;; let (li, ri) = q;
//@end

//@fn id=hyrax.flat_to_matrix_column_major file=poly-commit/src/hyrax/utils.rs scope=top name=flat_to_matrix_column_major props=C08
pub fn flat_to_matrix_column_major(flat: &[Fr], n: usize, m: usize) -> (res: Vec<Vec<Fr>>)
    requires
        n * m <= usize::MAX,
    ensures
        flat@.len() == n * m,
        res@.len() == n,
        forall|row: int| 0 <= row < n ==> (#[trigger] res@[row])@.len() == m,
        forall|row: int, col: int| 0 <= row < n && 0 <= col < m ==> #[trigger] res@[row]@[col] == flat@[col * n + row],   // name=hyrax.flat_to_matrix_column_major.layout props=C08
//@body
//@rw * /let mut res = Vec::new\(\);/ => let mut res: Vec<Vec<Fr>> = Vec::new();
//@rw * /res\.push\(\(0\.\.m\)\.map\((.*)\)\.collect\(\)\)/ => { let rv__: Vec<Fr> = (0..m).map(\1).collect(); res.push(rv__) }
//@closure |col| => |col: usize| -> (e: Fr) requires col < m, row < n, flat@.len() == n * m, n * m <= usize::MAX ensures e == flat@[col * n + row] ;; proof { assert(col * n + row < n * m && col * n <= n * m) by (nonlinear_arith) requires row < n, col < m; }
//@loop 1 kw=for name=it
        invariant flat@.len() == n * m, n * m <= usize::MAX, res@.len() == it.index@, it.index@ <= n,
            forall|rw: int| 0 <= rw < it.index@ ==> (#[trigger] res@[rw])@.len() == m,
            forall|rw: int, col: int| 0 <= rw < it.index@ && 0 <= col < m ==> #[trigger] res@[rw]@[col] == flat@[col * n + rw],
//@end
