// SonicKZG10::check_combinations (sonic_pc/mod.rs): the linear-combination verifier of the Sonic scheme  (C06)
//@use core ops_gen poly labeled labeled_comm sponge std
//@spec ring
//@typemap /::<E, P>::/ => ::
//@typemap /<E>/ =>
//@typemap /Self::Commitment/ => Commitment
//@typemap /Self::Error/ => Error
//@typemap /E::ScalarField::/ => Fr::
//@typemap /E::G1::zero\(\)/ => G1::zero()
//@typemap /E::G1::normalize_batch/ => G1::normalize_batch
//@typemap /Self::batch_check\(/ => pc_batch_check(
//@enum file=poly-commit/src/error.rs name=Error
//@enum file=poly-commit/src/data_structures.rs name=LCTerm
//@typemap /\(F, LCTerm\)/ => (Fr, LCTerm)
//@typemap /Vec<\(F,/ => Vec<(Fr,
//@struct file=poly-commit/src/data_structures.rs name=LinearCombination
pub mod kzg10 {
    use super::*;
//@struct file=poly-commit/src/kzg10/data_structures.rs name=Commitment
}
pub type Commitment = kzg10::Commitment;
// the scheme's key, point and batch-proof types stay abstract: this method only hands them on
#[verifier::external_body] pub struct VK { _x: u8 }
#[verifier::external_body] pub struct Pt { _x: u8 }
#[verifier::external_body] pub struct BatchProof { _x: u8 }
impl Pt { #[verifier::external_body] pub fn clone(&self) -> (r: Pt) ensures r == *self { unimplemented!() } }
pub type Comm = Commitment;
//@use pcenv
//@spec group_spec lc_adjust_spec
pub struct BatchLCProof { pub proof: BatchProof, pub evals: Option<Vec<Fr>> }
impl LinearCombination {
    pub fn label(&self) -> (r: &String) ensures *r == self.label { &self.label }
    pub fn len(&self) -> (r: usize) ensures r == self.terms@.len() { self.terms.len() }
}
impl LCTerm {
//@stub from=linear_combination.rs id=lc.LCTerm.is_one vis=pub
//@stub from=marlin_combinations.rs id=lc.LCTerm.try_into_ref vis=pub
}
// ---- trusted environment ----
// SonicKZG10::batch_check (contract proved in units/sonic_batch.rs), taken here as a deterministic function of what it is given
pub open spec fn lcv(c: LabeledCommitment<Commitment>) -> (String, FS, Option<usize>) { (c.label, c.commitment.0@, c.degree_bound) }
pub open spec fn lcvs(cs: Seq<LabeledCommitment<Commitment>>) -> Seq<(String, FS, Option<usize>)> { Seq::new(cs.len(), |i: int| lcv(cs[i])) }
pub uninterp spec fn bc_res(vk: &VK, cs: Seq<(String, FS, Option<usize>)>, qs: Set<(String, (String, Pt))>, ev: Map<(String, Pt), Fr>, pr: BatchProof, s: SS, rid: int, rpos: nat) -> Result<bool, Error>;
pub uninterp spec fn bc_sponge(vk: &VK, cs: Seq<(String, FS, Option<usize>)>, qs: Set<(String, (String, Pt))>, ev: Map<(String, Pt), Fr>, pr: BatchProof, s: SS) -> SS;
#[verifier::external_body]
pub fn pc_batch_check(vk: &VK, commitments: &Vec<LabeledCommitment<Commitment>>, query_set: &BTreeSet<(String, (String, Pt))>, evaluations: &BTreeMap<(String, Pt), Fr>, proof: &BatchProof, sponge: &mut Sponge, rng: &mut Rng) -> (res: Result<bool, Error>)
    ensures res == bc_res(vk, lcvs(commitments@), query_set@, evaluations@, *proof, old(sponge).st@, old(rng).id@, old(rng).pos@),
        final(sponge).st@ == bc_sponge(vk, lcvs(commitments@), query_set@, evaluations@, *proof, old(sponge).st@) { unimplemented!() }
// ======================= specification =======================
// the polynomial terms of one combination (first k terms): sum_i c_i C_i and the degree bound the combination keeps; None = refused:
// a term without commitment, or a degree-bounded polynomial in a combination of more than one term (with a single term and a coefficient
// other than one the code aborts)
pub open spec fn sscan(m: Map<&String, &LabeledCommitment<Commitment>>, ts: Seq<(Fr, LCTerm)>, k: nat) -> Option<(FS, Option<usize>)> decreases k {
    if k == 0 { Some((f_zero(), None)) } else {
        match sscan(m, ts, (k - 1) as nat) {
            None => None,
            Some(p) => match ts[k - 1].1 {
                LCTerm::One => Some(p),
                LCTerm::PolyLabel(l) => if !m.dom().contains(&l) { None } else {
                    let c = m[&l]; let s = f_add(p.0, f_mul(c.commitment.0@, ts[k - 1].0@));
                    if c.degree_bound is Some { if ts.len() == 1 && ts[k - 1].0@ == f_one() { Some((s, c.degree_bound)) } else { None } }
                    else { Some((s, p.1)) }
                },
            },
        }
    }
}
pub open spec fn srun(m: Map<&String, &LabeledCommitment<Commitment>>, lcs: Seq<&LinearCombination>, n: nat) -> Option<Seq<(String, FS, Option<usize>)>> decreases n {
    if n == 0 { Some(Seq::empty()) } else {
        match srun(m, lcs, (n - 1) as nat) {
            None => None,
            Some(out) => { let ts = lcs[n - 1].terms@; match sscan(m, ts, ts.len()) {
                None => None,
                Some(p) => Some(out.push((lcs[n - 1].label, p.0, p.1))),
            } },
        }
    }
}
pub open spec fn scc_post(vk: &VK, lcs: Seq<&LinearCombination>, cs: Seq<&LabeledCommitment<Commitment>>, qs: Set<(String, (String, Pt))>, ev: Map<(String, Pt), Fr>, pr: &BatchLCProof, s0: SS, rid: int, rpos: nat, res: Result<bool, Error>, s1: SS) -> bool {
    exists|m: Map<&String, &LabeledCommitment<Commitment>>| #![trigger cmap_ok(m, cs)] cmap_ok(m, cs) && match srun(m, lcs, lcs.len()) {
        None => res is Err,
        Some(out) => res == bc_res(vk, out, qs, adj_ev(ev, lcs, lcs.len()), pr.proof, s0, rid, rpos) && s1 == bc_sponge(vk, out, qs, adj_ev(ev, lcs, lcs.len()), pr.proof, s0),
    }
}
pub open spec fn outs(info: Seq<(String, Option<usize>)>, cms: Seq<G1>) -> Seq<(String, FS, Option<usize>)> { Seq::new(info.len(), |j: int| (info[j].0, cms[j]@, info[j].1)) }
pub proof fn lemma_sscan_none(m: Map<&String, &LabeledCommitment<Commitment>>, ts: Seq<(Fr, LCTerm)>, k: nat, n: nat)
    requires k <= n, sscan(m, ts, k) is None
    ensures sscan(m, ts, n) is None
    decreases n
{ if k < n { lemma_sscan_none(m, ts, k, (n - 1) as nat); } }
pub proof fn lemma_srun_none(m: Map<&String, &LabeledCommitment<Commitment>>, lcs: Seq<&LinearCombination>, k: nat, n: nat)
    requires k <= n, srun(m, lcs, k) is None
    ensures srun(m, lcs, n) is None
    decreases n
{ if k < n { lemma_srun_none(m, lcs, k, (n - 1) as nat); } }
// ---- prover side: the scheme's commitment state (randomness) and batch_open, abstract ----
#[verifier::external_body] pub struct CK { _x: u8 }
#[verifier::external_body] pub struct St { _x: u8 }
pub uninterp spec fn st_empty() -> St;                          // PC::CommitmentState::empty()
pub uninterp spec fn st_axpy(acc: St, c: FS, s: St) -> St;      // acc += (c, &s)
impl St {
    #[verifier::external_body] pub fn empty() -> (r: St) ensures r == st_empty() { unimplemented!() }
    #[verifier::external_body] pub fn add_assign_scaled(&mut self, q: (Fr, &St)) ensures *final(self) == st_axpy(*old(self), q.0@, *q.1) { unimplemented!() }
}
#[verifier::external_body] pub fn opt_usize_max(a: Option<usize>, b: Option<usize>) -> (r: Option<usize>)     // core::cmp::max on Option<usize>: Some(_) > None
    ensures r == omax(a, b) { unimplemented!() }
pub open spec fn omax(a: Option<usize>, b: Option<usize>) -> Option<usize> { match (a, b) { (None, _) => b, (_, None) => a, (Some(x), Some(y)) => if x >= y { a } else { b } } }
pub uninterp spec fn bo_res(ck: &CK, ps: Seq<LabeledPolynomial>, cs: Seq<(String, FS, Option<usize>)>, qs: Set<(String, (String, Pt))>, sts: Seq<St>, s: SS, rng: Option<(int, nat)>) -> Result<BatchProof, Error>;
pub uninterp spec fn bo_sponge(ck: &CK, ps: Seq<LabeledPolynomial>, cs: Seq<(String, FS, Option<usize>)>, qs: Set<(String, (String, Pt))>, sts: Seq<St>, s: SS, rng: Option<(int, nat)>) -> SS;
pub open spec fn rng_in(r: Option<&mut Rng>) -> Option<(int, nat)> { match r { Some(g) => Some((g.id@, g.pos@)), None => None } }
#[verifier::external_body]
pub fn pc_batch_open(ck: &CK, polys: &Vec<LabeledPolynomial>, comms: &Vec<LabeledCommitment<Commitment>>, query_set: &BTreeSet<(String, (String, Pt))>, sponge: &mut Sponge, states: &Vec<St>, rng: Option<&mut Rng>) -> (res: Result<BatchProof, Error>)
    ensures res == bo_res(ck, polys@, lcvs(comms@), query_set@, states@, old(sponge).st@, rng_in(rng)),
        final(sponge).st@ == bo_sponge(ck, polys@, lcvs(comms@), query_set@, states@, old(sponge).st@, rng_in(rng)) { unimplemented!() }
#[verifier::external_body] pub fn tmap_get<'b, 'a>(m: &'b BTreeMap<&'a String, (&'a LabeledPolynomial, &'a St, &'a LabeledCommitment<Comm>)>, k: &String) -> (r: Option<&'b (&'a LabeledPolynomial, &'a St, &'a LabeledCommitment<Comm>)>)
    ensures (r is Some) == m@.dom().contains(k), r is Some ==> *r->Some_0 == m@[k] { unimplemented!() }
// polynomial / state / commitment triples by label: the last one wins
pub open spec fn t_is_last(ps: Seq<&LabeledPolynomial>, i: int) -> bool { 0 <= i < ps.len() && forall|j: int| i < j < ps.len() ==> (#[trigger] ps[j]).label != ps[i].label }
pub open spec fn tmap_ok(m: Map<&String, (&LabeledPolynomial, &St, &LabeledCommitment<Comm>)>, ps: Seq<&LabeledPolynomial>, sts: Seq<&St>, cs: Seq<&LabeledCommitment<Comm>>) -> bool {
    let n = min(min(ps.len(), sts.len()), cs.len());
    (forall|k: &String| m.dom().contains(k) == (exists|i: int| 0 <= i < n && (#[trigger] ps[i]).label == *k))
    && (forall|i: int| #[trigger] t_is_last(ps.subrange(0, n as int), i) ==> m[&ps[i].label] == (ps[i], sts[i], cs[i]))
}
// prover-side scan of the polynomial terms of one combination (first k terms): value of sum_i c_i p_i at x, the combined state, the combined commitment, the kept degree bound (decided on the POLYNOMIAL's bound) and the largest hiding bound
pub open spec fn p_ok(m: Map<&String, (&LabeledPolynomial, &St, &LabeledCommitment<Comm>)>, ts: Seq<(Fr, LCTerm)>, k: nat) -> bool decreases k {
    if k == 0 { true } else { p_ok(m, ts, (k - 1) as nat) && match ts[k - 1].1 {
        LCTerm::One => true,
        LCTerm::PolyLabel(l) => m.dom().contains(&l) && (m[&l].0.degree_bound is Some ==> ts.len() == 1 && ts[k - 1].0@ == f_one()),
    } }
}
pub open spec fn p_ev(m: Map<&String, (&LabeledPolynomial, &St, &LabeledCommitment<Comm>)>, ts: Seq<(Fr, LCTerm)>, k: nat, x: FS) -> FS decreases k {
    if k == 0 { f_zero() } else { match ts[k - 1].1 { LCTerm::One => p_ev(m, ts, (k - 1) as nat, x), LCTerm::PolyLabel(l) => f_add(p_ev(m, ts, (k - 1) as nat, x), f_mul(ts[k - 1].0@, m[&l].0.polynomial.ev(x))) } }
}
pub open spec fn p_st(m: Map<&String, (&LabeledPolynomial, &St, &LabeledCommitment<Comm>)>, ts: Seq<(Fr, LCTerm)>, k: nat) -> St decreases k {
    if k == 0 { st_empty() } else { match ts[k - 1].1 { LCTerm::One => p_st(m, ts, (k - 1) as nat), LCTerm::PolyLabel(l) => st_axpy(p_st(m, ts, (k - 1) as nat), ts[k - 1].0@, *m[&l].1) } }
}
pub open spec fn p_cm(m: Map<&String, (&LabeledPolynomial, &St, &LabeledCommitment<Comm>)>, ts: Seq<(Fr, LCTerm)>, k: nat) -> FS decreases k {
    if k == 0 { f_zero() } else { match ts[k - 1].1 { LCTerm::One => p_cm(m, ts, (k - 1) as nat),
        LCTerm::PolyLabel(l) => f_add(p_cm(m, ts, (k - 1) as nat), f_mul(m[&l].2.commitment.0@, ts[k - 1].0@)) } }
}
pub open spec fn p_db(m: Map<&String, (&LabeledPolynomial, &St, &LabeledCommitment<Comm>)>, ts: Seq<(Fr, LCTerm)>, k: nat) -> Option<usize> decreases k {
    if k == 0 { None } else { match ts[k - 1].1 { LCTerm::One => p_db(m, ts, (k - 1) as nat), LCTerm::PolyLabel(l) => if m[&l].0.degree_bound is Some { m[&l].0.degree_bound } else { p_db(m, ts, (k - 1) as nat) } } }
}
pub open spec fn p_hb(m: Map<&String, (&LabeledPolynomial, &St, &LabeledCommitment<Comm>)>, ts: Seq<(Fr, LCTerm)>, k: nat) -> Option<usize> decreases k {
    if k == 0 { None } else { match ts[k - 1].1 { LCTerm::One => p_hb(m, ts, (k - 1) as nat), LCTerm::PolyLabel(l) => omax(p_hb(m, ts, (k - 1) as nat), m[&l].0.hiding_bound) } }
}
pub open spec fn p_all_ok(m: Map<&String, (&LabeledPolynomial, &St, &LabeledCommitment<Comm>)>, lcs: Seq<&LinearCombination>, n: nat) -> bool decreases n {
    if n == 0 { true } else { p_all_ok(m, lcs, (n - 1) as nat) && p_ok(m, lcs[n - 1].terms@, lcs[n - 1].terms@.len()) }
}
// what is handed to the scheme's batch_open for combination i
pub open spec fn lc_opened(m: Map<&String, (&LabeledPolynomial, &St, &LabeledCommitment<Comm>)>, lc: &LinearCombination, p: LabeledPolynomial, st: St, c: (String, FS, Option<usize>)) -> bool {
    let ts = lc.terms@; let n = ts.len();
    p.label == lc.label && (forall|x: FS| #[trigger] p.polynomial.ev(x) == p_ev(m, ts, n, x)) && p.degree_bound == p_db(m, ts, n) && p.hiding_bound == p_hb(m, ts, n)
    && st == p_st(m, ts, n)
    && c == (lc.label, p_cm(m, ts, n), p_db(m, ts, n))
}
pub open spec fn soc_post(ck: &CK, lcs: Seq<&LinearCombination>, ps: Seq<&LabeledPolynomial>, cs: Seq<&LabeledCommitment<Commitment>>, qs: Set<(String, (String, Pt))>, sts: Seq<&St>, s0: SS, rng: Option<(int, nat)>, res: Result<BatchLCProof, Error>, s1: SS) -> bool {
    exists|m: Map<&String, (&LabeledPolynomial, &St, &LabeledCommitment<Comm>)>| #![trigger tmap_ok(m, ps, sts, cs)] tmap_ok(m, ps, sts, cs) && (
        if !p_all_ok(m, lcs, lcs.len()) { res is Err } else {
            exists|lps: Seq<LabeledPolynomial>, lsts: Seq<St>, lcms: Seq<(String, FS, Option<usize>)>| #![trigger bo_res(ck, lps, lcms, qs, lsts, s0, rng)]
                lps.len() == lcs.len() && lsts.len() == lcs.len() && lcms.len() == lcs.len()
                && (forall|i: int| 0 <= i < lcs.len() ==> lc_opened(m, #[trigger] lcs[i], lps[i], lsts[i], lcms[i]))
                && s1 == bo_sponge(ck, lps, lcms, qs, lsts, s0, rng)
                && match bo_res(ck, lps, lcms, qs, lsts, s0, rng) { Err(_) => res is Err, Ok(bp) => res is Ok && res->Ok_0.proof == bp && res->Ok_0.evals is None }
        })
}
pub proof fn lemma_p_ok_false(m: Map<&String, (&LabeledPolynomial, &St, &LabeledCommitment<Comm>)>, ts: Seq<(Fr, LCTerm)>, k: nat, n: nat)
    requires k <= n, !p_ok(m, ts, k)
    ensures !p_ok(m, ts, n)
    decreases n
{ if k < n { lemma_p_ok_false(m, ts, k, (n - 1) as nat); } }
pub proof fn lemma_p_all_false(m: Map<&String, (&LabeledPolynomial, &St, &LabeledCommitment<Comm>)>, lcs: Seq<&LinearCombination>, k: nat, n: nat)
    requires k <= n, !p_all_ok(m, lcs, k)
    ensures !p_all_ok(m, lcs, n)
    decreases n
{ if k < n { lemma_p_all_false(m, lcs, k, (n - 1) as nat); } }
//@lemma props=C06
// C06, Sonic, lock-step of prover and verifier: when both sides hold the same commitments under the same labels and the polynomials
// carry the degree bounds their commitments are labelled with, the commitments check_combinations forms are exactly the ones
// open_combinations handed to batch_open together with sum_i c_i p_i and sum_i c_i r_i - and whatever the prover accepts, the verifier does not refuse
pub open spec fn maps_agree(tm: Map<&String, (&LabeledPolynomial, &St, &LabeledCommitment<Comm>)>, m: Map<&String, &LabeledCommitment<Commitment>>) -> bool {
    (forall|k: &String| tm.dom().contains(k) == m.dom().contains(k))
    && (forall|k: &String| #[trigger] tm.dom().contains(k) ==> tm[k].2 == m[k] && tm[k].0.degree_bound == m[k].degree_bound)
}
pub proof fn lemma_sscan_lockstep(tm: Map<&String, (&LabeledPolynomial, &St, &LabeledCommitment<Comm>)>, m: Map<&String, &LabeledCommitment<Commitment>>, ts: Seq<(Fr, LCTerm)>, k: nat)
    requires maps_agree(tm, m), p_ok(tm, ts, k), k <= ts.len()
    ensures sscan(m, ts, k) == Some((p_cm(tm, ts, k), p_db(tm, ts, k)))
    decreases k
{
    if k > 0 {
        lemma_sscan_lockstep(tm, m, ts, (k - 1) as nat);
        match ts[k - 1].1 { LCTerm::One => {}, LCTerm::PolyLabel(l) => { assert(tm.dom().contains(&l)); } }
    }
}
pub proof fn lemma_sonic_lc_lockstep(tm: Map<&String, (&LabeledPolynomial, &St, &LabeledCommitment<Comm>)>, m: Map<&String, &LabeledCommitment<Commitment>>, lcs: Seq<&LinearCombination>, n: nat)
    requires maps_agree(tm, m), p_all_ok(tm, lcs, n), n <= lcs.len()
    ensures
        srun(m, lcs, n) is Some, srun(m, lcs, n)->Some_0.len() == n,      // name=sonic.combinations.verifier_does_not_refuse_what_the_prover_opened props=C06
        forall|i: int| 0 <= i < n ==> (#[trigger] srun(m, lcs, n)->Some_0[i]) == ({ let ts = lcs[i].terms@; (lcs[i].label, p_cm(tm, ts, ts.len()), p_db(tm, ts, ts.len())) }),   // name=sonic.combinations.verifier_forms_the_commitments_the_prover_opened props=C06
    decreases n
{
    if n > 0 {
        lemma_sonic_lc_lockstep(tm, m, lcs, (n - 1) as nat);
        let ts = lcs[n - 1].terms@;
        lemma_sscan_lockstep(tm, m, ts, ts.len());
        let prev = srun(m, lcs, (n - 1) as nat)->Some_0;
        assert forall|i: int| 0 <= i < n implies (#[trigger] srun(m, lcs, n)->Some_0[i]) == ({ let ts = lcs[i].terms@; (lcs[i].label, p_cm(tm, ts, ts.len()), p_db(tm, ts, ts.len())) }) by { if i < n - 1 { assert(srun(m, lcs, n)->Some_0[i] == prev[i]); } }
    }
}
pub struct SonicKZG10;
impl SonicKZG10 {
//@fn id=sonic.check_combinations file=poly-commit/src/sonic_pc/mod.rs scope="impl<E, P> PolynomialCommitment<E::ScalarField, P> for SonicKZG10<E, P>" name=check_combinations props=C06,C05,C04,C17,C02,C11
    #[verifier::loop_isolation(false)]
    fn check_combinations<'a>(vk: &VK, linear_combinations: Vec<&'a LinearCombination>, commitments: Vec<&'a LabeledCommitment<Commitment>>, eqn_query_set: &BTreeSet<(String, (String, Pt))>, eqn_evaluations: &BTreeMap<(String, Pt), Fr>, proof: &BatchLCProof, sponge: &mut Sponge, rng: &mut Rng) -> (res: Result<bool, Error>)
    ensures
        // every combination is turned into ONE commitment sum_i c_i C_i (with the kept degree bound), its constants are
        // subtracted from every claimed value of its label, and the verdict is the scheme's batch verification of exactly these;
        // a combination that would drop an enforced degree bound, or names a polynomial without commitment, is refused
        scc_post(vk, linear_combinations@, commitments@, eqn_query_set@, eqn_evaluations@, proof, old(sponge).st@, old(rng).id@, old(rng).pos@, res, final(sponge).st@),   // name=sonic.check_combinations.batch_verification_of_the_combined_commitments props=C06,C05,C04,C17,C02
//@body
//@rw 1 /let BatchLCProof \{ proof, \.\. \} = proof;/ => let proof = &proof.proof;
//@rw 1 /(?s)let label_comm_map = (commitments\s*\.into_iter\(\)\s*\.map\(.*?\))\s*\.collect::<BTreeMap<_, _>>\(\);/ => let cv__: Vec<(&String, &LabeledCommitment<Comm>)> = \1.collect();
        let label_comm_map: BTreeMap<&String, &LabeledCommitment<Comm>> = btree_from_pairs(cv__);
        proof {
            assert forall|i: int| #[trigger] c_is_last(cs0, i) implies label_comm_map@[&cs0[i].label] == cs0[i] by {
                assert(cv__@[i].0 == &cs0[i].label);
                assert forall|j: int| i < j < cv__@.len() implies cv__@[j].0 != cv__@[i].0 by { assert(*cv__@[j].0 == cs0[j].label); }
            }
            assert forall|k: &String| label_comm_map@.dom().contains(k) == (exists|i: int| 0 <= i < cs0.len() && (#[trigger] cs0[i]).label == *k) by {
                if label_comm_map@.dom().contains(k) { let i = choose|i: int| 0 <= i < cv__@.len() && (#[trigger] cv__@[i]).0 == k; assert(cs0[i].label == *k); }
                if exists|i: int| 0 <= i < cs0.len() && (#[trigger] cs0[i]).label == *k { let i = choose|i: int| 0 <= i < cs0.len() && (#[trigger] cs0[i]).label == *k; assert(cv__@[i].0 == k); }
            }
            assert(cmap_ok(label_comm_map@, cs0));
        }
//@closure |c| => |c: &'a LabeledCommitment<Comm>| -> (kv: (&String, &LabeledCommitment<Comm>)) ensures *kv.0 == c.label, kv.1 == c
//@rw 1 /let mut lc_commitments = Vec::new\(\);/ => let mut lc_commitments: Vec<G1> = Vec::new();
//@rw 1 /let mut lc_info = Vec::new\(\);/ => let mut lc_info: Vec<(String, Option<usize>)> = Vec::new();
//@rw 1 /let mut evaluations = eqn_evaluations\.clone\(\);/ => let mut evaluations = evals_clone(eqn_evaluations);
//@rw 1 /for lc in([^{]*?)linear_combinations([^{]*)\{/ => for lc__r in\1linear_combinations.iter()\2{ let lc: &LinearCombination = *lc__r;
//@rw 1 /lc\.label\(\)\.clone\(\)/ => string_to_string(lc.label())
//@rw 1 /let mut degree_bound = None;/ => let mut degree_bound: Option<usize> = None;
//@rw 1 /for \(coeff, label\) in([^{]*?)lc\.iter\(\)([^{]*)\{/ => for ct__ in\1lc.terms.iter()\2{ let coeff: &Fr = &ct__.0; let label: &LCTerm = &ct__.1;
//@rw 1 /for \(&\(ref label, _\), ref mut eval\) in([^{]*?)evaluations\.iter_mut\(\)([^{]*)\{/ => let ks__ = evals_keys(&evaluations); for k__ in\1ks__.iter()\2{ let label: &String = &k__.0; let mut eval__v: Fr = evals_get(&evaluations, k__);
//@rw 1 /if label == &lc_label \{/ => if string_eq(label, &lc_label) {
//@rw * /\*\*eval\b/ => eval__v
//@rw 1 /(?s)let &cur_comm = label_comm_map\.get\(label\)(.*?)\?;/ => let cur_comm: &LabeledCommitment<Comm> = *(btree_get_by_label(&label_comm_map, label)\1?);
//@rw * /label\.to_string\(\)/ => string_to_string(label)
//@rw 1 /\.map\(\|c\| kzg10::Commitment\(c\)\)/ => .map(|c: G1Affine| -> (o: Commitment) ensures o.0 == c { kzg10::Commitment(c) })
//@rw 1 /\.map\(\|\(\(label, d\), c\)\| LabeledCommitment::new\(label, c, d\)\)/ => .map(|t__: ((String, Option<usize>), Commitment)| -> (o: LabeledCommitment<Commitment>) ensures o.label == t__.0.0, o.commitment == t__.1, o.degree_bound == t__.0.1 { let ((label, d), c) = t__; LabeledCommitment::new(label, c, d) })
//@rw 1 /&eqn_query_set,/ => eqn_query_set,
//@before /let comms: Vec<Self::Commitment> = /
        let ghost lc_info0 = lc_info@; let ghost lc_comms0 = lc_commitments@;
//@after start
        let ghost cs0 = commitments@;
        let ghost lcs0 = linear_combinations@;
        let ghost s0 = sponge.st@;
        let ghost ev0 = eqn_evaluations@;
        let ghost rid = rng.id@; let ghost rpos = rng.pos@;
//@beforeloop 1
        proof {
            assert(outs(lc_info@, lc_commitments@) =~= Seq::empty());
            assert forall|k: (String, Pt)| ev0.dom().contains(k) implies (#[trigger] evaluations@[k])@ == f_sub(ev0[k]@, adj(lcs0, k.0, 0)) by { lemma_neg_zero(); ax_add_zero(ev0[k]@); }
        }
//@loop 1 kw=for name=it
            invariant it.index@ <= lcs0.len(), lc_info@.len() == it.index@, lc_commitments@.len() == it.index@, sponge.st@ == s0, rng.id@ == rid, rng.pos@ == rpos, cmap_ok(label_comm_map@, cs0),
                srun(label_comm_map@, lcs0, it.index@ as nat) == Some(outs(lc_info@, lc_commitments@)),
                forall|k: (String, Pt)| evaluations@.dom().contains(k) == ev0.dom().contains(k),
                forall|k: (String, Pt)| ev0.dom().contains(k) ==> (#[trigger] evaluations@[k])@ == f_sub(ev0[k]@, adj(lcs0, k.0, it.index@ as nat)),
//@loopstart 1
            let ghost i = it.index@;
            let ghost ts = lc.terms@;
            let ghost out0 = outs(lc_info@, lc_commitments@);
            proof { assert(lc == lcs0[i]); }
//@beforeloop 2
            proof {
                assert forall|k: (String, Pt)| ev0.dom().contains(k) implies (#[trigger] evaluations@[k])@ == f_sub(ev0[k]@, tot(lcs0, k.0, i as nat, lc_label, f_zero())) by { ax_add_zero(adj(lcs0, k.0, i as nat)); }
            }
//@loop 2 kw=for name=it2
                invariant it2.index@ <= ts.len(), ts == lc.terms@, lc == lcs0[i], num_polys == ts.len(), lc_label == lc.label,
                    sscan(label_comm_map@, ts, it2.index@ as nat) == Some((combined_comm@, degree_bound)),
                    ev_inv(evaluations@, ev0, lcs0, i as nat, lc_label, lc_const(ts, it2.index@ as nat)),
//@loopstart 2
                let ghost j = it2.index@;
                let ghost part = lc_const(ts, j as nat);
                proof { assert(*ct__ == ts[j]); }
//@beforeloop 3
                    let ghost e1 = evaluations@;
//@loop 3 kw=for name=it3
                        invariant it3.index@ <= ks__@.len(), label is One, *ct__ == ts[j],
                            forall|k: (String, Pt)| evaluations@.dom().contains(k) == e1.dom().contains(k),
                            forall|x: int| 0 <= x < ks__@.len() ==> e1.dom().contains(#[trigger] ks__@[x]),
                            forall|x: int, y: int| 0 <= x < y < ks__@.len() ==> ks__@[x] != ks__@[y],
                            forall|x: int| 0 <= x < ks__@.len() ==> (#[trigger] evaluations@[ks__@[x]]) == (if x < it3.index@ && ks__@[x].0 == lc_label { Fr::mk(f_sub(e1[ks__@[x]]@, coeff@)) } else { e1[ks__@[x]] }),
//@loopstart 3
                        let ghost t = it3.index@;
                        let ghost e2 = evaluations@;
                        proof { assert(*k__ == ks__@[t]); }
//@loopend 3
                        evals_put(&mut evaluations, k__, eval__v);
                        proof {
                            assert forall|x: int| 0 <= x < ks__@.len() implies (#[trigger] evaluations@[ks__@[x]]) == (if x < t + 1 && ks__@[x].0 == lc_label { Fr::mk(f_sub(e1[ks__@[x]]@, coeff@)) } else { e1[ks__@[x]] }) by {
                                assert(e2[ks__@[x]] == (if x < t && ks__@[x].0 == lc_label { Fr::mk(f_sub(e1[ks__@[x]]@, coeff@)) } else { e1[ks__@[x]] }));
                                if x != t { assert(ks__@[x] != ks__@[t]); }
                            }
                        }
//@afterloop 3
                    proof {
                        assert(lc_const(ts, (j + 1) as nat) == f_add(part, coeff@));
                        assert(sscan(label_comm_map@, ts, (j + 1) as nat) == sscan(label_comm_map@, ts, j as nat));
                        assert forall|k: (String, Pt)| ev0.dom().contains(k) implies (#[trigger] evaluations@[k])@ == f_sub(ev0[k]@, tot(lcs0, k.0, i as nat, lc_label, f_add(part, coeff@))) by {
                            let x = choose|x: int| 0 <= x < ks__@.len() && (#[trigger] ks__@[x]) == k;
                            assert(evaluations@[ks__@[x]] == (if k.0 == lc_label { Fr::mk(f_sub(e1[k]@, coeff@)) } else { e1[k] }));
                            if k.0 == lc_label { lemma_sub_step(ev0[k]@, adj(lcs0, k.0, i as nat), part, coeff@); }
                        }
                    }
//@before /let label: &String = label\.try_into\(\)/
                    proof { assert(lc_const(ts, (j + 1) as nat) == part); }
//@before /let &cur_comm = label_comm_map\.get\(label\)/
                    proof {
                        if !label_comm_map@.dom().contains(label) {
                            assert(sscan(label_comm_map@, ts, (j + 1) as nat) is None);
                            lemma_sscan_none(label_comm_map@, ts, (j + 1) as nat, ts.len());
                            lemma_srun_none(label_comm_map@, lcs0, (i + 1) as nat, lcs0.len());
                        }
                    }
//@before /return Err\((Self::)?Error::EquationHasDegreeBounds\(lc_label\)\);/
                        proof {
                            assert(sscan(label_comm_map@, ts, (j + 1) as nat) is None);
                            lemma_sscan_none(label_comm_map@, ts, (j + 1) as nat, ts.len());
                            lemma_srun_none(label_comm_map@, lcs0, (i + 1) as nat, lcs0.len());
                        }
//@afterloop 2
            let ghost info0 = lc_info@; let ghost cms0 = lc_commitments@;
//@loopend 1
            proof {
                assert(outs(lc_info@, lc_commitments@) =~= out0.push((lcs0[i].label, combined_comm@, degree_bound))) by {
                    assert forall|x: int| 0 <= x < i implies outs(lc_info@, lc_commitments@)[x] == out0[x] by { assert(lc_info@[x] == info0[x]); assert(lc_commitments@[x] == cms0[x]); }
                }
                assert forall|k: (String, Pt)| ev0.dom().contains(k) implies (#[trigger] evaluations@[k])@ == f_sub(ev0[k]@, adj(lcs0, k.0, (i + 1) as nat)) by { assert(evaluations@[k]@ == f_sub(ev0[k]@, tot(lcs0, k.0, i as nat, lc_label, lc_const(ts, ts.len())))); }
            }
//@before /Self::batch_check\(/
        proof {
            let n = lcs0.len();
            let out = outs(lc_info0, lc_comms0);
            assert(lcvs(lc_commitments@) =~= out);
            assert(evaluations@ =~= adj_ev(ev0, lcs0, n));
        }
//@end
//@fn id=sonic.open_combinations file=poly-commit/src/sonic_pc/mod.rs scope="impl<E, P> PolynomialCommitment<E::ScalarField, P> for SonicKZG10<E, P>" name=open_combinations props=C06,C04,C17,C11
    #[verifier::loop_isolation(false)]
    fn open_combinations<'a>(ck: &CK, linear_combinations: Vec<&'a LinearCombination>, polynomials: Vec<&'a LabeledPolynomial>, commitments: Vec<&'a LabeledCommitment<Commitment>>, query_set: &BTreeSet<(String, (String, Pt))>, sponge: &mut Sponge, states: Vec<&'a St>, rng: Option<&mut Rng>) -> (res: Result<BatchLCProof, Error>)
    ensures
        // for every combination the polynomial sum_i c_i p_i (constants left out: the verifier moves them to the claimed values), the
        // state sum_i c_i r_i and the commitment sum_i c_i C_i (with the kept bound) are handed to the scheme's
        // batch_open; a combination naming an unknown polynomial or mixing a degree-bounded polynomial with other terms is refused
        soc_post(ck, linear_combinations@, polynomials@, commitments@, query_set@, states@, old(sponge).st@, rng_in(rng), res, final(sponge).st@),   // name=sonic.open_combinations.batch_opening_of_the_combined_polynomials props=C06,C04,C17
//@body
//@rw 1 /(?s)let label_map = (polynomials\s*\.into_iter\(\).*?)\s*\.collect::<BTreeMap<_, _>>\(\);/ => let tv__: Vec<(&String, (&LabeledPolynomial, &St, &LabeledCommitment<Comm>))> = \1.collect();
        let label_map: BTreeMap<&String, (&LabeledPolynomial, &St, &LabeledCommitment<Comm>)> = btree_from_pairs(tv__);
        proof {
            let nn = min(min(ps0.len(), sts0.len()), cs0.len());
            assert(tv__@.len() == nn);
            assert forall|i: int| #[trigger] t_is_last(ps0.subrange(0, nn as int), i) implies label_map@[&ps0[i].label] == (ps0[i], sts0[i], cs0[i]) by {
                assert(tv__@[i].0 == &ps0[i].label);
                assert forall|j: int| i < j < tv__@.len() implies tv__@[j].0 != tv__@[i].0 by { assert(*tv__@[j].0 == ps0.subrange(0, nn as int)[j].label); }
            }
            assert forall|k: &String| label_map@.dom().contains(k) == (exists|i: int| 0 <= i < nn && (#[trigger] ps0[i]).label == *k) by {
                if label_map@.dom().contains(k) { let i = choose|i: int| 0 <= i < tv__@.len() && (#[trigger] tv__@[i]).0 == k; assert(ps0[i].label == *k); }
                if exists|i: int| 0 <= i < nn && (#[trigger] ps0[i]).label == *k { let i = choose|i: int| 0 <= i < nn && (#[trigger] ps0[i]).label == *k; assert(tv__@[i].0 == k); }
            }
            assert(tmap_ok(label_map@, ps0, sts0, cs0));
        }
//@closure |((p, s), c)| => |t: ((&'a LabeledPolynomial, &'a St), &'a LabeledCommitment<Comm>)| -> (kv: (&String, (&LabeledPolynomial, &St, &LabeledCommitment<Comm>))) ensures *kv.0 == t.0.0.label, kv.1 == (t.0.0, t.0.1, t.1) ;; let ((p, s), c) = t;
//@rw 1 /let mut lc_polynomials = Vec::new\(\);/ => let mut lc_polynomials: Vec<LabeledPolynomial> = Vec::new();
//@rw 1 /let mut lc_states = Vec::new\(\);/ => let mut lc_states: Vec<St> = Vec::new();
//@rw 1 /let mut lc_commitments = Vec::new\(\);/ => let mut lc_commitments: Vec<G1> = Vec::new();
//@rw 1 /let mut lc_info = Vec::new\(\);/ => let mut lc_info: Vec<(String, Option<usize>)> = Vec::new();
//@rw 1 /for lc in([^{]*?)linear_combinations([^{]*)\{/ => for lc__r in\1linear_combinations.iter()\2{ let lc: &LinearCombination = *lc__r;
//@rw 1 /let lc_label = lc\.label\(\)\.clone\(\);/ => let lc_label = string_to_string(lc.label());
//@rw 1 /lc_label\.clone\(\)/ => string_to_string(&lc_label)
//@rw 1 /let mut poly = P::zero\(\);/ => let mut poly = Poly::zero();
//@rw 1 /let mut degree_bound = None;/ => let mut degree_bound: Option<usize> = None;
//@rw 1 /let mut hiding_bound = None;/ => let mut hiding_bound: Option<usize> = None;
//@rw 1 /let mut state = Self::CommitmentState::empty\(\);/ => let mut state = St::empty();
//@rw 1 /for \(coeff, label\) in([^{]*?)lc\.iter\(\)\.filter\(\|\(_, l\)\| (.*?)\)((?:\s|\d+)*)\{/ => for ct__ in\1lc.terms.iter()\3{ let coeff: &Fr = &ct__.0; let label: &LCTerm = &ct__.1; let l: &LCTerm = label; let ghost j = it2.index@; proof { assert(*ct__ == ts[j]); } if \2 {
//@rw 1 /\.expect\("[^"]*"\)/ => .unwrap()
//@rw 1 /(?s)let &\(cur_poly, cur_state, curr_comm\) =\s*label_map\.get\(label\)(.*?)\?;/ => let t3__: (&LabeledPolynomial, &St, &LabeledCommitment<Comm>) = *(tmap_get(&label_map, label)\1?); let cur_poly = t3__.0; let cur_state = t3__.1; let curr_comm = t3__.2;
//@rw * /label\.to_string\(\)/ => string_to_string(label)
//@rw 1 /core::cmp::max\(/ => opt_usize_max(
//@rw 1 /state \+= \((.*)\);/ => state.add_assign_scaled((\1));
//@rw 1 /\.map\(\|c\| kzg10::Commitment::<E>\(c\)\)/ => .map(|c: G1Affine| -> (o: Commitment) ensures o.0 == c { kzg10::Commitment(c) })
//@rw 1 /\.map\(\|\(\(label, d\), c\)\| LabeledCommitment::new\(label, c, d\)\)/ => .map(|t__: ((String, Option<usize>), Commitment)| -> (o: LabeledCommitment<Commitment>) ensures o.label == t__.0.0, o.commitment == t__.1, o.degree_bound == t__.0.1 { let ((label, d), c) = t__; LabeledCommitment::new(label, c, d) })
//@rw 1 /(?s)Self::batch_open\(\s*ck,\s*lc_polynomials\.iter\(\),\s*lc_commitments\.iter\(\),\s*&query_set,\s*sponge,\s*lc_states\.iter\(\),\s*rng,\s*\)/ => pc_batch_open(ck, &lc_polynomials, &lc_commitments, query_set, sponge, &lc_states, rng)
//@before /let comms: Vec<Self::Commitment> = /
        let ghost lc_comms0 = lc_commitments@; let ghost lc_info0 = lc_info@;
//@after start
        let ghost ps0 = polynomials@; let ghost cs0 = commitments@; let ghost sts0 = states@; let ghost lcs0 = linear_combinations@;
        let ghost s0 = sponge.st@; let ghost rin = rng_in(rng);
//@loop 1 kw=for name=it
            invariant it.index@ <= lcs0.len(), lc_info@.len() == it.index@, lc_commitments@.len() == it.index@, lc_polynomials@.len() == it.index@, lc_states@.len() == it.index@,
                sponge.st@ == s0, rng_in(rng) == rin, tmap_ok(label_map@, ps0, sts0, cs0),
                p_all_ok(label_map@, lcs0, it.index@ as nat),
                forall|q: int| 0 <= q < lc_info@.len() ==> lc_opened(label_map@, #[trigger] lcs0[q], lc_polynomials@[q], lc_states@[q], (lc_info@[q].0, lc_commitments@[q]@, lc_info@[q].1)),
//@loopstart 1
            let ghost i = it.index@;
            let ghost ts = lc.terms@;
            let ghost mm = label_map@;
            proof { assert(lc == lcs0[i]); }
//@beforeloop 2
            proof { }
//@loop 2 kw=for name=it2
                invariant it2.index@ <= ts.len(), ts == lc.terms@, lc == lcs0[i], num_polys == ts.len(), lc_label == lc.label, mm == label_map@,
                    p_ok(mm, ts, it2.index@ as nat),
                    forall|x: FS| #[trigger] poly.ev(x) == p_ev(mm, ts, it2.index@ as nat, x),
                    state == p_st(mm, ts, it2.index@ as nat), comm@ == p_cm(mm, ts, it2.index@ as nat),
                    degree_bound == p_db(mm, ts, it2.index@ as nat), hiding_bound == p_hb(mm, ts, it2.index@ as nat),
//@before /let &\(cur_poly, cur_state, cur_comm\) =/
                let ghost poly0 = poly;
                proof {
                    if !mm.dom().contains(label) {
                        assert(!p_ok(mm, ts, (j + 1) as nat));
                        lemma_p_ok_false(mm, ts, (j + 1) as nat, ts.len());
                        lemma_p_all_false(mm, lcs0, (i + 1) as nat, lcs0.len());
                    }
                }
//@before /return Err\((Self::)?Error::EquationHasDegreeBounds\(lc_label\)\);/
                    proof {
                        assert(!p_ok(mm, ts, (j + 1) as nat));
                        lemma_p_ok_false(mm, ts, (j + 1) as nat, ts.len());
                        lemma_p_all_false(mm, lcs0, (i + 1) as nat, lcs0.len());
                    }
//@after /comm \+= &curr_comm\.commitment\(\)\.0\.mul\(\*coeff\);/
                proof {
                    assert forall|x: FS| #[trigger] poly.ev(x) == p_ev(mm, ts, (j + 1) as nat, x) by { assert(poly0.ev(x) == p_ev(mm, ts, j as nat, x)); }
                }
//@loopend 2
                }
                proof {
                    match ts[j].1 { LCTerm::One => { assert(p_ok(mm, ts, (j + 1) as nat)); }, LCTerm::PolyLabel(l) => {} }
                }
//@afterloop 2
            let ghost info0 = lc_info@; let ghost cms0 = lc_commitments@; let ghost lp0 = lc_polynomials@; let ghost ls0 = lc_states@;
//@loopend 1
            proof {
                assert forall|q: int| 0 <= q < lc_info@.len() implies lc_opened(mm, #[trigger] lcs0[q], lc_polynomials@[q], lc_states@[q], (lc_info@[q].0, lc_commitments@[q]@, lc_info@[q].1)) by {
                    if q < i { assert(lc_info@[q] == info0[q] && lc_commitments@[q] == cms0[q] && lc_polynomials@[q] == lp0[q] && lc_states@[q] == ls0[q]); }
                }
            }
//@before /let proof = Self::batch_open\(/
        proof {
            assert(lcvs(lc_commitments@) =~= outs(lc_info0, lc_comms0));
            assert forall|q: int| 0 <= q < lcs0.len() implies lc_opened(label_map@, #[trigger] lcs0[q], lc_polynomials@[q], lc_states@[q], lcvs(lc_commitments@)[q]) by { }
        }
//@end
}
