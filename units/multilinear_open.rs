// MultilinearPC::open (multilinear_pc/mod.rs): the prover of the multilinear PST scheme  (C01, C19, C17)
//@use core ops_gen std
//@spec ring
//@typemap /<E>/ =>
//@typemap /Vec<EvaluationHyperCubeOnG1<E>>/ => Vec<Vec<G1Affine>>
//@typemap /Vec<EvaluationHyperCubeOnG2<E>>/ => Vec<Vec<G2Affine>>
//@typemap /&impl MultilinearExtension<E::ScalarField>/ => &MLE
//@typemap /<E::G2 as VariableBaseMSM>::/ => G2::
//@typemap /E::ScalarField::/ => Fr::
//@typemap /&\[E::ScalarField\]/ => &[Fr]
//@struct file=poly-commit/src/multilinear_pc/data_structures.rs name=CommitterKey
//@struct file=poly-commit/src/multilinear_pc/data_structures.rs name=Proof
// ark-poly MultilinearExtension (trusted): number of variables and the 2^nv evaluations over the hypercube
pub struct MLE { pub num_vars: usize, pub evals: Vec<Fr> }
impl MLE {
    #[verifier::external_body] pub fn num_vars(&self) -> (r: usize) ensures r == self.num_vars { unimplemented!() }
    #[verifier::external_body] pub fn to_evaluations(&self) -> (r: Vec<Fr>) ensures r@ == self.evals@ { unimplemented!() }
}
#[verifier::external_body] pub fn vec_of_empty_fr(n: usize) -> (r: Vec<Vec<Fr>>) ensures r@.len() == n, forall|i: int| 0 <= i < n ==> (#[trigger] r@[i])@.len() == 0 { unimplemented!() }   // (0..n).map(|_| Vec::new()).collect()
#[verifier::external_body] pub fn vec_zero_fr(n: usize) -> (r: Vec<Fr>) ensures r@.len() == n, forall|i: int| 0 <= i < n ==> (#[trigger] r@[i])@ == f_zero() { unimplemented!() }          // (0..n).map(|_| zero).collect()
// `v[a][b] = x` on a vector of vectors (out-of-range index: abort)
#[verifier::external_body] pub fn vv_set(v: &mut Vec<Vec<Fr>>, a: usize, b: usize, x: Fr)
    ensures a < old(v)@.len(), b < old(v)@[a as int]@.len(), final(v)@.len() == old(v)@.len(), final(v)@[a as int]@ == old(v)@[a as int]@.update(b as int, x),
            forall|t: int| 0 <= t < old(v)@.len() && t != a ==> final(v)@[t] == old(v)@[t] { unimplemented!() }
// `(lo..hi).map(f).collect()` into big integers
#[verifier::external_body] pub fn range_map_bigint<F: Fn(usize) -> BigInt>(lo: usize, hi: usize, f: F) -> (r: Vec<BigInt>)
    requires forall|i: usize| lo <= i < hi ==> #[trigger] f.requires((i,))
    ensures r@.len() == (if hi >= lo { hi - lo } else { 0 }), forall|i: int| 0 <= i < r@.len() ==> f.ensures(((lo + i) as usize,), #[trigger] r@[i]) { unimplemented!() }
// ======================= specification (multilinear PST / Libra: fold one variable at a time) =======================
pub open spec fn pw(k: nat) -> nat { vstd::arithmetic::power2::pow2(k) }
// the evaluation table after the first i coordinates of the point are substituted (variable 0 = least significant index bit)
pub open spec fn mfold(ev: Seq<FS>, pt: Seq<FS>, i: nat) -> Seq<FS> decreases i {
    if i == 0 { ev } else { let p = mfold(ev, pt, (i - 1) as nat);
        Seq::new((p.len() / 2) as nat, |b: int| f_add(f_mul(p[2 * b], f_sub(f_one(), pt[i - 1])), f_mul(p[2 * b + 1], pt[i - 1]))) }
}
// the i-th quotient: q_i(b) = t(.., 1, b) - t(.., 0, b) on the table folded i times
pub open spec fn mquot(ev: Seq<FS>, pt: Seq<FS>, i: nat) -> Seq<FS> { let p = mfold(ev, pt, i); Seq::new((p.len() / 2) as nat, |b: int| f_sub(p[2 * b + 1], p[2 * b])) }
pub open spec fn mscal(ev: Seq<FS>, pt: Seq<FS>, i: nat, n: nat) -> Seq<FS> { Seq::new(n, |x: int| mquot(ev, pt, i)[x / 2]) }
// bit-shift facts (usize is 64 bits wide here)
pub proof fn lemma_pw_facts(k: nat) requires 1 <= k < 63 ensures pw(k) == 2 * pw((k - 1) as nat), pw(k) < 0x8000_0000_0000_0000, pw((k - 1) as nat) >= 1, (1usize << (k as usize)) == pw(k), (1usize << ((k - 1) as usize)) == pw((k - 1) as nat)
{
    vstd::arithmetic::power2::lemma_pow2_unfold(k); vstd::arithmetic::power2::lemma_pow2_strictly_increases(k, 63); vstd::arithmetic::power2::lemma2_to64(); vstd::arithmetic::power2::lemma2_to64_rest();
    vstd::arithmetic::power2::lemma_pow2_pos((k - 1) as nat);
    vstd::arithmetic::power2::lemma_pow2_strictly_increases((k - 1) as nat, 63);
    vstd::bits::lemma_usize_shl_is_mul(1usize, k as usize); vstd::bits::lemma_usize_shl_is_mul(1usize, (k - 1) as usize);
}
pub proof fn lemma_shl1(b: usize, k: nat) requires k < 62, b < pw(k) ensures (b << 1usize) == 2 * b, ((b << 1usize) + 1) as int == 2 * b + 1, 2 * b + 1 < pw(k + 1)
{
    vstd::arithmetic::power2::lemma_pow2_unfold(k + 1); vstd::arithmetic::power2::lemma_pow2_strictly_increases(k, 62); vstd::arithmetic::power2::lemma2_to64(); vstd::arithmetic::power2::lemma2_to64_rest();
    assert(b < 0x4000_0000_0000_0000);
    assert((b << 1usize) == mul(2, b)) by (bit_vector) requires b < 0x4000_0000_0000_0000usize;
}
pub proof fn lemma_shr1(x: usize, k: nat) requires 1 <= k < 64, x < pw(k) ensures (x >> 1usize) as int == x as int / 2, x as int / 2 < pw((k - 1) as nat)
{
    vstd::arithmetic::power2::lemma_pow2_unfold(k);
    assert((x >> 1usize) == x / 2) by (bit_vector);
}
pub struct MultilinearPC;
impl MultilinearPC {
//@fn id=multilinear_pc.open file=poly-commit/src/multilinear_pc/mod.rs scope="impl<E: Pairing> MultilinearPC<E>" name=open props=C01,C19,C17
    pub fn open(ck: &CommitterKey, polynomial: &MLE, point: &[Fr]) -> (res: Proof)
    requires
        polynomial.num_vars < 63,
        polynomial.evals@.len() == pw(polynomial.num_vars as nat),
        point@.len() >= polynomial.num_vars, ck.powers_of_h@.len() >= polynomial.num_vars,      // (fewer coordinates or key rows: index out of bounds, abort)
    ensures
        polynomial.num_vars == ck.nv,                                  // name=multilinear_pc.open.wrong_number_of_variables_aborts props=C17
        res.proofs@.len() == ck.nv,                                    // name=multilinear_pc.open.one_group_element_per_variable props=C19,C01
        // pi_i commits, under the i-th G2 row of the key, to the i-th quotient of the fold (each quotient value used for both values of variable i)
        forall|i: int| 0 <= i < ck.nv ==> (#[trigger] res.proofs@[i])@ == dot(g2views(ck.powers_of_h@[i]@), mscal(fviews(polynomial.evals@), fviews(point@), i as nat, pw((ck.nv - i) as nat)),
                min(ck.powers_of_h@[i]@.len(), pw((ck.nv - i) as nat))),   // name=multilinear_pc.open.proof_commits_to_the_quotients_of_the_fold props=C01
//@body
//@rw 2 /let mut (r|q): Vec<Vec<E::ScalarField>> = \(0\.\.nv \+ 1\)\.map\(\|_\| Vec::new\(\)\)\.collect\(\);/ => let mut \1: Vec<Vec<Fr>> = vec_of_empty_fr(nv + 1);
//@rw 1 /r\[nv\] = polynomial\.to_evaluations\(\);/ => r.set(nv, polynomial.to_evaluations());
//@rw 1 /(?s)q\[k\] = \(0\.\.\(1 << \(k - 1\)\)\)\s*\.map\(\|_\| E::ScalarField::zero\(\)\)\s*\.collect\(\);/ => q.set(k, vec_zero_fr(1 << (k - 1)));
//@rw 1 /(?s)r\[k - 1\] = \(0\.\.\(1 << \(k - 1\)\)\)\s*\.map\(\|_\| E::ScalarField::zero\(\)\)\s*\.collect\(\);/ => r.set(k - 1, vec_zero_fr(1 << (k - 1)));
//@rw 1 /q\[k\]\[b\] = ([^;]*);/ => { let v__ = \1; vv_set(&mut q, k, b, v__); }
//@rw 1 /(?s)r\[k - 1\]\[b\] = ([^;]*);/ => { let v__ = \1; vv_set(&mut r, k - 1, b, v__); }
//@rw 1 /(?s)let scalars: Vec<_> = \(0\.\.\(1 << k\)\)\s*\.map\(\|x\| (q\[k\]\[x >> 1\]\.into_bigint\(\))\)[^.;]*\.collect\(\);/ => let scalars: Vec<BigInt> = range_map_bigint(0, 1 << k, |x: usize| -> (o: BigInt) requires x < pw(k as nat), q@.len() == nv + 1, q@[k as int]@.len() == pw((k - 1) as nat), k >= 1, k < 64 ensures o@ == q@[k as int]@[x as int / 2]@ { proof { lemma_shr1(x, k as nat); } \1 });
//@rw 1 /&ck\.powers_of_h\[i\], &scalars/ => ck.powers_of_h[i].as_slice(), scalars.as_slice()
//@rw 1 /let mut proofs = Vec::new\(\);/ => let mut proofs: Vec<G2Affine> = Vec::new();
//@after start
        let ghost ev = fviews(polynomial.evals@); let ghost pt = fviews(point@);
//@loop 1 kw=for name=it
            invariant it.index@ <= nv, nv == ck.nv, point@.len() >= nv, ck.powers_of_h@.len() >= nv, nv == polynomial.num_vars, nv < 63, r@.len() == nv + 1, q@.len() == nv + 1, proofs@.len() == it.index@,
                ev == fviews(polynomial.evals@), pt == fviews(point@), ev.len() == pw(nv as nat),
                fviews(r@[nv - it.index@]@) == mfold(ev, pt, it.index@ as nat), r@[nv - it.index@]@.len() == pw((nv - it.index@) as nat),
                forall|t: int| 0 <= t < it.index@ ==> (#[trigger] proofs@[t])@ == dot(g2views(ck.powers_of_h@[t]@), mscal(ev, pt, t as nat, pw((nv - t) as nat)), min(ck.powers_of_h@[t]@.len(), pw((nv - t) as nat))),
//@loopstart 1
            proof { lemma_pw_facts((nv - i) as nat); }
            let ghost rk = r@[nv - i]@;
//@loop 2 kw=for name=it2
                invariant it2.index@ <= pw((k - 1) as nat), (1usize << ((k - 1) as usize)) == pw((k - 1) as nat), k == nv - i, 1 <= k <= nv, nv < 63, i < nv, r@.len() == nv + 1, q@.len() == nv + 1,
                    r@[k as int]@ == rk, rk.len() == pw(k as nat), pw(k as nat) == 2 * pw((k - 1) as nat), pw(k as nat) < 0x8000_0000_0000_0000,
                    q@[k as int]@.len() == pw((k - 1) as nat), r@[k - 1]@.len() == pw((k - 1) as nat), point_at_k == point@[i as int],
                    forall|c: int| 0 <= c < it2.index@ ==> (#[trigger] q@[k as int]@[c])@ == f_sub(rk[2 * c + 1]@, rk[2 * c]@),
                    forall|c: int| 0 <= c < it2.index@ ==> (#[trigger] r@[k - 1]@[c])@ == f_add(f_mul(rk[2 * c]@, f_sub(f_one(), point_at_k@)), f_mul(rk[2 * c + 1]@, point_at_k@)),
//@loopstart 2
                proof { lemma_shl1(b, (k - 1) as nat); }
//@before /let pi_h =/
            proof {
                assert(fviews(r@[k - 1]@) =~= mfold(ev, pt, (i + 1) as nat));
                assert(bviews(scalars@) =~= mscal(ev, pt, i as nat, pw(k as nat))) by {
                    assert forall|x: int| 0 <= x < pw(k as nat) implies bviews(scalars@)[x] == mscal(ev, pt, i as nat, pw(k as nat))[x] by { assert(q@[k as int]@[x / 2]@ == f_sub(rk[2 * (x / 2) + 1]@, rk[2 * (x / 2)]@)); }
                }
            }
//@end
}
