// MultilinearPC::open (multilinear_pc/mod.rs): the prover of the multilinear PST scheme  (C01, C19, C17)
//@use core ops_gen std
//@spec ring
//@typemap /<E>/ =>
//@typemap /Vec<EvaluationHyperCubeOnG1<E>>/ => Vec<Vec<G1Affine>>
//@typemap /Vec<EvaluationHyperCubeOnG2<E>>/ => Vec<Vec<G2Affine>>
//@typemap /&impl MultilinearExtension<E::ScalarField>/ => &MLE
//@typemap /<E::G2 as VariableBaseMSM>::/ => G2::
//@typemap /E::ScalarField::/ => Fr::
//@typemap /\bF::/ => Fr::
//@typemap /DenseMultilinearExtension::/ => DenseMLE::
//@typemap /&\[E::ScalarField\]/ => &[Fr]
//@struct file=poly-commit/src/multilinear_pc/data_structures.rs name=CommitterKey
//@struct file=poly-commit/src/multilinear_pc/data_structures.rs name=Proof
// ark-poly MultilinearExtension (trusted): number of variables and the 2^nv evaluations over the hypercube
pub struct MLE { pub num_vars: usize, pub evals: Vec<Fr> }
impl MLE {
    #[verifier::external_body] pub fn num_vars(&self) -> (r: usize) ensures r == self.num_vars { unimplemented!() }
    #[verifier::external_body] pub fn to_evaluations(&self) -> (r: Vec<Fr>) ensures r@ == self.evals@ { unimplemented!() }
}
#[verifier::external_body] pub fn vec_of_empty_fr(n: usize) -> (r: Vec<Vec<Fr>>) ensures r@.len() == n, forall|i: int| 0 <= i < n ==> (#[trigger] r@[i])@.len() == 0 { unimplemented!() }   // (0..n).map(|_| Vec::new()).collect()
#[verifier::external_body] pub fn vec_zero_fr(n: usize) -> (r: Vec<Fr>) ensures r@.len() == n, forall|i: int| 0 <= i < n ==> (#[trigger] r@[i])@ == f_zero() { unimplemented!() }          // (0..n).map(|_| zero).collect()
// `v[a][b] = x` on a vector of vectors (out-of-range index: abort)
#[verifier::external_body] pub fn vv_set(v: &mut Vec<Vec<Fr>>, a: usize, b: usize, x: Fr)
    ensures a < old(v)@.len(), b < old(v)@[a as int]@.len(), final(v)@.len() == old(v)@.len(), final(v)@[a as int]@ == old(v)@[a as int]@.update(b as int, x),
            forall|t: int| 0 <= t < old(v)@.len() && t != a ==> final(v)@[t] == old(v)@[t] { unimplemented!() }
// `(lo..hi).map(f).collect()` into big integers
#[verifier::external_body] pub fn range_map_bigint<F: Fn(usize) -> BigInt>(lo: usize, hi: usize, f: F) -> (r: Vec<BigInt>)
    requires forall|i: usize| lo <= i < hi ==> #[trigger] f.requires((i,))
    ensures r@.len() == (if hi >= lo { hi - lo } else { 0 }), forall|i: int| 0 <= i < r@.len() ==> f.ensures(((lo + i) as usize,), #[trigger] r@[i]) { unimplemented!() }
// ======================= specification (multilinear PST / Libra: fold one variable at a time) =======================
pub open spec fn pw(k: nat) -> nat { vstd::arithmetic::power2::pow2(k) }
// the evaluation table after the first i coordinates of the point are substituted (variable 0 = least significant index bit)
pub open spec fn mfold(ev: Seq<FS>, pt: Seq<FS>, i: nat) -> Seq<FS> decreases i {
    if i == 0 { ev } else { let p = mfold(ev, pt, (i - 1) as nat);
        Seq::new((p.len() / 2) as nat, |b: int| f_add(f_mul(p[2 * b], f_sub(f_one(), pt[i - 1])), f_mul(p[2 * b + 1], pt[i - 1]))) }
}
// the i-th quotient: q_i(b) = t(.., 1, b) - t(.., 0, b) on the table folded i times
pub open spec fn mquot(ev: Seq<FS>, pt: Seq<FS>, i: nat) -> Seq<FS> { let p = mfold(ev, pt, i); Seq::new((p.len() / 2) as nat, |b: int| f_sub(p[2 * b + 1], p[2 * b])) }
pub open spec fn mscal(ev: Seq<FS>, pt: Seq<FS>, i: nat, n: nat) -> Seq<FS> { Seq::new(n, |x: int| mquot(ev, pt, i)[x / 2]) }
// bit-shift facts (usize is 64 bits wide here)
pub proof fn lemma_pw_facts(k: nat) requires 1 <= k < 63 ensures pw(k) == 2 * pw((k - 1) as nat), pw(k) < 0x8000_0000_0000_0000, pw((k - 1) as nat) >= 1, (1usize << (k as usize)) == pw(k), (1usize << ((k - 1) as usize)) == pw((k - 1) as nat)
{
    vstd::arithmetic::power2::lemma_pow2_unfold(k); vstd::arithmetic::power2::lemma_pow2_strictly_increases(k, 63); vstd::arithmetic::power2::lemma2_to64(); vstd::arithmetic::power2::lemma2_to64_rest();
    vstd::arithmetic::power2::lemma_pow2_pos((k - 1) as nat);
    vstd::arithmetic::power2::lemma_pow2_strictly_increases((k - 1) as nat, 63);
    vstd::bits::lemma_usize_shl_is_mul(1usize, k as usize); vstd::bits::lemma_usize_shl_is_mul(1usize, (k - 1) as usize);
}
pub proof fn lemma_shl1(b: usize, k: nat) requires k < 62, b < pw(k) ensures (b << 1usize) == 2 * b, ((b << 1usize) + 1) as int == 2 * b + 1, 2 * b + 1 < pw(k + 1)
{
    vstd::arithmetic::power2::lemma_pow2_unfold(k + 1); vstd::arithmetic::power2::lemma_pow2_strictly_increases(k, 62); vstd::arithmetic::power2::lemma2_to64(); vstd::arithmetic::power2::lemma2_to64_rest();
    assert(b < 0x4000_0000_0000_0000);
    assert((b << 1usize) == mul(2, b)) by (bit_vector) requires b < 0x4000_0000_0000_0000usize;
}
pub proof fn lemma_shr1(x: usize, k: nat) requires 1 <= k < 64, x < pw(k) ensures (x >> 1usize) as int == x as int / 2, x as int / 2 < pw((k - 1) as nat)
{
    vstd::arithmetic::power2::lemma_pow2_unfold(k);
    assert((x >> 1usize) == x / 2) by (bit_vector);
}
pub struct MultilinearPC;
impl MultilinearPC {
//@fn id=multilinear_pc.open file=poly-commit/src/multilinear_pc/mod.rs scope="impl<E: Pairing> MultilinearPC<E>" name=open props=C01,C19,C17
    pub fn open(ck: &CommitterKey, polynomial: &MLE, point: &[Fr]) -> (res: Proof)
    requires
        polynomial.num_vars < 63,
        polynomial.evals@.len() == pw(polynomial.num_vars as nat),
        point@.len() >= polynomial.num_vars, ck.powers_of_h@.len() >= polynomial.num_vars,      // (fewer coordinates or key rows: index out of bounds, abort)
    ensures
        polynomial.num_vars == ck.nv,                                  // name=multilinear_pc.open.wrong_number_of_variables_aborts props=C17
        res.proofs@.len() == ck.nv,                                    // name=multilinear_pc.open.one_group_element_per_variable props=C19,C01
        // pi_i commits, under the i-th G2 row of the key, to the i-th quotient of the fold (each quotient value used for both values of variable i)
        forall|i: int| 0 <= i < ck.nv ==> (#[trigger] res.proofs@[i])@ == dot(g2views(ck.powers_of_h@[i]@), mscal(fviews(polynomial.evals@), fviews(point@), i as nat, pw((ck.nv - i) as nat)),
                min(ck.powers_of_h@[i]@.len(), pw((ck.nv - i) as nat))),   // name=multilinear_pc.open.proof_commits_to_the_quotients_of_the_fold props=C01
//@body
//@rw 2 /let mut (r|q): Vec<Vec<E::ScalarField>> = \(0\.\.nv \+ 1\)\.map\(\|_\| Vec::new\(\)\)\.collect\(\);/ => let mut \1: Vec<Vec<Fr>> = vec_of_empty_fr(nv + 1);
//@rw 1 /r\[nv\] = polynomial\.to_evaluations\(\);/ => r.set(nv, polynomial.to_evaluations());
//@rw 1 /(?s)q\[k\] = \(0\.\.\(1 << \(k - 1\)\)\)\s*\.map\(\|_\| E::ScalarField::zero\(\)\)\s*\.collect\(\);/ => q.set(k, vec_zero_fr(1 << (k - 1)));
//@rw 1 /(?s)r\[k - 1\] = \(0\.\.\(1 << \(k - 1\)\)\)\s*\.map\(\|_\| E::ScalarField::zero\(\)\)\s*\.collect\(\);/ => r.set(k - 1, vec_zero_fr(1 << (k - 1)));
//@rw 1 /q\[k\]\[b\] = ([^;]*);/ => { let v__ = \1; vv_set(&mut q, k, b, v__); }
//@rw 1 /(?s)r\[k - 1\]\[b\] = ([^;]*);/ => { let v__ = \1; vv_set(&mut r, k - 1, b, v__); }
//@rw 1 /(?s)let scalars: Vec<_> = \(0\.\.\(1 << k\)\)\s*\.map\(\|x\| (q\[k\]\[x >> 1\]\.into_bigint\(\))\)[^.;]*\.collect\(\);/ => let scalars: Vec<BigInt> = range_map_bigint(0, 1 << k, |x: usize| -> (o: BigInt) requires x < pw(k as nat), q@.len() == nv + 1, q@[k as int]@.len() == pw((k - 1) as nat), k >= 1, k < 64 ensures o@ == q@[k as int]@[x as int / 2]@ { proof { lemma_shr1(x, k as nat); } \1 });
//@rw 1 /&ck\.powers_of_h\[i\], &scalars/ => ck.powers_of_h[i].as_slice(), scalars.as_slice()
//@rw 1 /let mut proofs = Vec::new\(\);/ => let mut proofs: Vec<G2Affine> = Vec::new();
//@after start
        let ghost ev = fviews(polynomial.evals@); let ghost pt = fviews(point@);
//@loop 1 kw=for name=it
            invariant it.index@ <= nv, nv == ck.nv, point@.len() >= nv, ck.powers_of_h@.len() >= nv, nv == polynomial.num_vars, nv < 63, r@.len() == nv + 1, q@.len() == nv + 1, proofs@.len() == it.index@,
                ev == fviews(polynomial.evals@), pt == fviews(point@), ev.len() == pw(nv as nat),
                fviews(r@[nv - it.index@]@) == mfold(ev, pt, it.index@ as nat), r@[nv - it.index@]@.len() == pw((nv - it.index@) as nat),
                forall|t: int| 0 <= t < it.index@ ==> (#[trigger] proofs@[t])@ == dot(g2views(ck.powers_of_h@[t]@), mscal(ev, pt, t as nat, pw((nv - t) as nat)), min(ck.powers_of_h@[t]@.len(), pw((nv - t) as nat))),
//@loopstart 1
            proof { lemma_pw_facts((nv - i) as nat); }
            let ghost rk = r@[nv - i]@;
//@loop 2 kw=for name=it2
                invariant it2.index@ <= pw((k - 1) as nat), (1usize << ((k - 1) as usize)) == pw((k - 1) as nat), k == nv - i, 1 <= k <= nv, nv < 63, i < nv, r@.len() == nv + 1, q@.len() == nv + 1,
                    r@[k as int]@ == rk, rk.len() == pw(k as nat), pw(k as nat) == 2 * pw((k - 1) as nat), pw(k as nat) < 0x8000_0000_0000_0000,
                    q@[k as int]@.len() == pw((k - 1) as nat), r@[k - 1]@.len() == pw((k - 1) as nat), point_at_k == point@[i as int],
                    forall|c: int| 0 <= c < it2.index@ ==> (#[trigger] q@[k as int]@[c])@ == f_sub(rk[2 * c + 1]@, rk[2 * c]@),
                    forall|c: int| 0 <= c < it2.index@ ==> (#[trigger] r@[k - 1]@[c])@ == f_add(f_mul(rk[2 * c]@, f_sub(f_one(), point_at_k@)), f_mul(rk[2 * c + 1]@, point_at_k@)),
//@loopstart 2
                proof { lemma_shl1(b, (k - 1) as nat); }
//@before /let pi_h =/
            proof {
                assert(fviews(r@[k - 1]@) =~= mfold(ev, pt, (i + 1) as nat));
                assert(bviews(scalars@) =~= mscal(ev, pt, i as nat, pw(k as nat))) by {
                    assert forall|x: int| 0 <= x < pw(k as nat) implies bviews(scalars@)[x] == mscal(ev, pt, i as nat, pw(k as nat))[x] by { assert(q@[k as int]@[x / 2]@ == f_sub(rk[2 * (x / 2) + 1]@, rk[2 * (x / 2)]@)); }
                }
            }
//@end
}
// ======================= setup helpers (multilinear_pc/mod.rs) =======================
#[verifier::external_body] pub fn slice_to_vec_fr(s: &[Fr]) -> (r: Vec<Fr>) ensures r@ == s@ { unimplemented!() }       // poly.to_vec()
#[verifier::external_body] pub fn usize_is_pow2(n: usize) -> (r: bool) ensures r == (exists|k: nat| k < 64 && n == pw(k)) { unimplemented!() }   // usize::is_power_of_two
// ark_std::log2: the least r with x <= 2^r
#[verifier::external_body] pub fn log2_ceil_u(x: usize) -> (r: u32) ensures r <= 64, x <= pw(r as nat), x > 1 ==> pw((r - 1) as nat) < x, x <= 1 ==> r == 0 { unimplemented!() }
// `(lo..hi).map(f).collect()` into field elements
#[verifier::external_body] pub fn range_map_fr<F: Fn(usize) -> Fr>(lo: usize, hi: usize, f: F) -> (r: Vec<Fr>)
    requires forall|i: usize| lo <= i < hi ==> #[trigger] f.requires((i,))
    ensures r@.len() == (if hi >= lo { hi - lo } else { 0 }), forall|i: int| 0 <= i < r@.len() ==> f.ensures(((lo + i) as usize,), #[trigger] r@[i]) { unimplemented!() }
pub struct DenseMLE { pub num_vars: usize, pub evaluations: Vec<Fr> }
impl DenseMLE { #[verifier::external_body] pub fn from_evaluations_vec(num_vars: usize, evaluations: Vec<Fr>) -> (r: DenseMLE) ensures r.num_vars == num_vars, r.evaluations == evaluations { unimplemented!() } }
// bit i of x
pub open spec fn bit(x: int, i: nat) -> int { (x / (pw(i) as int)) % 2 }
// the i-th eq table: over all x in {0,1}^dim, eq(t_i, bit i of x)
pub open spec fn eq_table_ok(t: Seq<Fr>, tbl: &DenseMLE, i: int, dim: nat) -> bool {
    tbl.num_vars == dim && tbl.evaluations@.len() == pw(dim) && forall|x: int| 0 <= x < pw(dim) ==> (#[trigger] tbl.evaluations@[x])@ == eq1(t[i]@, bit(x, i as nat))
}
// eq(t, b) for a bit b:  t b + (1 - t)(1 - b)  =  2 t b - b - t + 1
pub open spec fn eq1(t: FS, b: int) -> FS { if b == 1 { t } else { f_sub(f_one(), t) } }
pub proof fn lemma_shr_bit(x: usize, i: usize) requires i < 63, x < pw(63) ensures ((x >> i) & 1usize) as int == bit(x as int, i as nat)
{
    vstd::arithmetic::power2::lemma_pow2_pos(i as nat);
    vstd::bits::lemma_usize_shr_is_div(x, i);
    assert(((x >> i) & 1usize) == (x >> i) % 2) by (bit_vector);
}
pub proof fn lemma_pw_shl(k: nat) requires k < 63 ensures (1usize << (k as usize)) == pw(k), pw(k) < pw(63), pw(63) == 0x8000_0000_0000_0000
{
    vstd::arithmetic::power2::lemma_pow2_strictly_increases(k, 63); vstd::arithmetic::power2::lemma2_to64(); vstd::arithmetic::power2::lemma2_to64_rest();
    vstd::bits::lemma_usize_shl_is_mul(1usize, k as usize);
}
// 2 t b - b - t + 1 is eq(t, b) for a bit b  (b given as the field element 0 or 1)
pub proof fn lemma_eq1(t: FS, xi: FS, b: int)
    requires b == 0 || b == 1, xi == (if b == 1 { f_one() } else { f_zero() })
    ensures f_add(f_sub(f_sub(f_add(f_mul(t, xi), f_mul(t, xi)), xi), t), f_one()) == eq1(t, b)
{
    if b == 1 {
        ax_mul_one(t);
        // (t + t) - 1 - t + 1 == t
        let a = f_add(t, t);
        ax_add_comm(f_sub(f_sub(a, f_one()), t), f_one());
        ax_add_assoc(a, f_neg(f_one()), f_neg(t)); ax_add_comm(f_neg(f_one()), f_neg(t)); ax_add_assoc(a, f_neg(t), f_neg(f_one()));
        ax_add_assoc(t, t, f_neg(t)); ax_add_neg(t); ax_add_zero(t);
        assert(f_sub(f_sub(a, f_one()), t) == f_add(t, f_neg(f_one())));
        ax_add_assoc(t, f_neg(f_one()), f_one()); ax_add_comm(f_neg(f_one()), f_one()); ax_add_neg(f_one()); ax_add_zero(t);
        ax_add_comm(f_add(t, f_neg(f_one())), f_one());
    } else {
        lemma_mul_zero(t); ax_add_zero(f_zero()); lemma_neg_zero(); ax_add_zero(f_zero());
        // (0 - 0) - t + 1 == 1 - t
        ax_add_comm(f_zero(), f_neg(t)); ax_add_zero(f_neg(t));
        ax_add_comm(f_neg(t), f_one());
    }
}
pub proof fn lemma_shl_pad(x: usize, nv: nat, pad: nat) requires nv + pad < 64, x < pw(nv), pad < 63 ensures (x << (pad as usize)) as int == x * pw(pad), x * pw(pad) < pw(nv + pad)
{
    vstd::arithmetic::power2::lemma_pow2_adds(nv, pad);
    vstd::arithmetic::power2::lemma_pow2_pos(pad);
    assert(x * pw(pad) < pw(nv) * pw(pad)) by (nonlinear_arith) requires x < pw(nv), pw(pad) > 0;
    vstd::arithmetic::power2::lemma_pow2_strictly_increases(nv + pad, 64); vstd::arithmetic::power2::lemma2_to64(); vstd::arithmetic::power2::lemma2_to64_rest();
    assert(x * pw(pad) <= usize::MAX);
    vstd::bits::lemma_usize_shl_is_mul(x, pad as usize);
}
pub proof fn lemma_log2_of_pow2(n: usize, k: nat, r: nat) requires k < 64, n == pw(k), r <= 64, n <= pw(r), n > 1 ==> pw((r - 1) as nat) < n, n <= 1 ==> r == 0
    ensures r == k
{
    vstd::arithmetic::power2::lemma2_to64();
    if r < k { vstd::arithmetic::power2::lemma_pow2_strictly_increases(r, k); }
    if r > k { if n > 1 { if r - 1 > k { vstd::arithmetic::power2::lemma_pow2_strictly_increases(k, (r - 1) as nat); } } else { if k > 0 { vstd::arithmetic::power2::lemma_pow2_strictly_increases(0, k); } } }
}
//@fn id=multilinear_pc.eq_extension file=poly-commit/src/multilinear_pc/mod.rs scope=top name=eq_extension props=C09,C01
fn eq_extension(t: &[Fr]) -> (r: Vec<DenseMLE>)
    requires
        t@.len() < 63,
    ensures
        r@.len() == t@.len(),
        // the i-th table: over all x in {0,1}^dim, eq(t_i, bit i of x)
        forall|i: int| 0 <= i < t@.len() ==> eq_table_ok(t@, &#[trigger] r@[i], i, t@.len()),   // name=multilinear_pc.eq_extension.table_of_eq_t_i_with_bit_i props=C09,C01
//@body
//@rw 1 /let mut result = Vec::new\(\);/ => let mut result: Vec<DenseMLE> = Vec::new();
//@rw 1 /let mut poly = Vec::with_capacity\(1 << dim\);/ => let mut poly: Vec<Fr> = Vec::with_capacity(1 << dim);
//@after /let dim = t\.len\(\);/
    proof { lemma_pw_shl(dim as nat); }
//@loop 1 kw=for name=it
        invariant it.index@ <= dim, dim == t@.len(), dim < 63, result@.len() == it.index@, (1usize << dim) == pw(dim as nat), pw(dim as nat) < pw(63),
            forall|k: int| 0 <= k < it.index@ ==> eq_table_ok(t@, &#[trigger] result@[k], k, dim as nat),
//@loop 2 kw=for name=it2
            invariant it2.index@ <= pw(dim as nat), poly@.len() == it2.index@, i < dim, dim == t@.len(), dim < 63, (1usize << dim) == pw(dim as nat), pw(dim as nat) < pw(63),
                forall|y: int| 0 <= y < it2.index@ ==> (#[trigger] poly@[y])@ == eq1(t@[i as int]@, bit(y, i as nat)),
//@loopstart 2
            proof { lemma_shr_bit(x, i); }
//@before /poly\.push\(/
            proof { lemma_eq1(ti@, xi@, bit(x as int, i as nat)); }
//@end
//@fn id=multilinear_pc.remove_dummy_variable file=poly-commit/src/multilinear_pc/mod.rs scope=top name=remove_dummy_variable props=C09
fn remove_dummy_variable(poly: &[Fr], pad: usize) -> (r: Vec<Fr>)
    requires
        pad < 63,
        pad > 0 ==> (exists|k: nat| #![trigger pw(k)] k < 64 && poly@.len() == pw(k) && pad <= k),      // (not a power of two, or fewer than `pad` index bits: abort)
    ensures
        pad == 0 ==> r@ == poly@,
        // keep the entries whose `pad` lowest index bits are zero
        pad > 0 ==> (exists|k: nat| #![trigger pw(k)] k < 64 && poly@.len() == pw(k) && k >= pad && r@.len() == pw((k - pad) as nat)
            && forall|x: int| 0 <= x < r@.len() ==> (#[trigger] r@[x]) == poly@[x * pw(pad as nat)]),   // name=multilinear_pc.remove_dummy_variable.keeps_every_2_to_the_pad_th_entry props=C09
//@body
//@rw 1 /return poly\.to_vec\(\);/ => return slice_to_vec_fr(poly);
//@rw 1 /!poly\.len\(\)\.is_power_of_two\(\)/ => !usize_is_pow2(poly.len())
//@rw 1 /let nv = ark_std::log2\(poly\.len\(\)\) as usize - pad;/ => let lg__ = log2_ceil_u(poly.len()); proof { lemma_log2_of_pow2(poly@.len() as usize, kk, lg__ as nat); } let nv = lg__ as usize - pad;
//@rw 1 /let table: Vec<_> = \(0\.\.\(1 << nv\)\)\.map\(\|x\| poly\[x << pad\]\)\.collect\(\);/ => let table: Vec<Fr> = range_map_fr(0, 1 << nv, |x: usize| -> (o: Fr) requires x < pw(nv as nat), nv + pad == kk, kk < 64, poly@.len() == pw(kk), pad < 63 ensures o == poly@[x * pw(pad as nat)] { proof { lemma_shl_pad(x, nv as nat, pad as nat); } poly[x << pad] });
//@before /let nv = ark_std::log2/
    let ghost kk: nat = choose|k: nat| #![trigger pw(k)] k < 64 && poly@.len() == pw(k) && pad <= k;
//@before /let table: Vec<_> =/
    proof { lemma_pw_shl(nv as nat); }
//@end
// ======================= MultilinearPC::setup =======================
pub proof fn lemma_moff_mono(nv: nat, i: nat) ensures moff(nv, i + 1) == moff(nv, i) + pw((nv - i) as nat) { }
// the offset of row m plus its length is at most the offset of any later row
pub proof fn lemma_moff_step(nv: nat, m: nat, i: nat) requires m < i ensures moff(nv, m) + pw((nv - m) as nat) <= moff(nv, i) decreases i
{ if i > m + 1 { lemma_moff_step(nv, m, (i - 1) as nat); } }
pub proof fn lemma_moff_total(nv: nat, i: nat) requires i <= nv, nv < 62 ensures moff(nv, i) + pw((nv - i + 1) as nat) == pw(nv + 1), moff(nv, i) < 0x8000_0000_0000_0000 decreases i
{
    vstd::arithmetic::power2::lemma_pow2_strictly_increases(nv + 1, 63); vstd::arithmetic::power2::lemma2_to64_rest();
    if i > 0 { lemma_moff_total(nv, (i - 1) as nat); vstd::arithmetic::power2::lemma_pow2_unfold((nv - (i - 1) + 1) as nat); }
}
pub proof fn lemma_pw0_() ensures pw(0) == 1 { vstd::arithmetic::power2::lemma2_to64(); }
pub proof fn lemma_pw_inj(a: nat, b: nat) requires pw(a) == pw(b) ensures a == b
{ if a < b { vstd::arithmetic::power2::lemma_pow2_strictly_increases(a, b); } if b < a { vstd::arithmetic::power2::lemma_pow2_strictly_increases(b, a); } }
pub proof fn lemma_pw_split(n: nat, i: nat) requires i <= n ensures pw(n) == pw((n - i) as nat) * pw(i), pw(i) >= 1, pw((n - i) as nat) >= 1
{ vstd::arithmetic::power2::lemma_pow2_adds((n - i) as nat, i); vstd::arithmetic::power2::lemma_pow2_pos(i); vstd::arithmetic::power2::lemma_pow2_pos((n - i) as nat); }
pub proof fn lemma_mul_lt_pw(y: int, a: nat, b: nat) requires 0 <= y < pw(a) ensures 0 <= y * pw(b) < pw(a + b)
{
    vstd::arithmetic::power2::lemma_pow2_adds(a, b); vstd::arithmetic::power2::lemma_pow2_pos(b);
    assert(y * pw(b) < pw(a) * pw(b)) by (nonlinear_arith) requires y < pw(a), pw(b) > 0;
    assert(y * pw(b) >= 0) by (nonlinear_arith) requires y >= 0, pw(b) > 0;
}

//@struct file=poly-commit/src/multilinear_pc/data_structures.rs name=UniversalParams
// std LinkedList used as a double-ended queue: a sequence (front = index 0)
#[verifier::external_body] #[verifier::reject_recursive_types(T)] pub struct LList<T> { _p: core::marker::PhantomData<T> }
impl<T> View for LList<T> { type V = Seq<T>; uninterp spec fn view(&self) -> Seq<T>; }
impl<T> LList<T> {
    #[verifier::external_body] pub fn new() -> (r: Self) ensures r@.len() == 0 { unimplemented!() }
    #[verifier::external_body] pub fn from_vec(v: Vec<T>) -> (r: Self) ensures r@ == v@ { unimplemented!() }                       // LinkedList::from_iter(v.into_iter())
    #[verifier::external_body] pub fn pop_back_unwrap(&mut self) -> (r: T) ensures old(self)@.len() > 0, r == old(self)@.last(), final(self)@ == old(self)@.drop_last() { unimplemented!() }    // pop_back().unwrap(): empty aborts
    #[verifier::external_body] pub fn pop_front_unwrap(&mut self) -> (r: T) ensures old(self)@.len() > 0, r == old(self)@[0], final(self)@ == old(self)@.subrange(1, old(self)@.len() as int) { unimplemented!() }
    #[verifier::external_body] pub fn push_front(&mut self, x: T) ensures final(self)@ == seq![x] + old(self)@ { unimplemented!() }
}
// `(0..n).map(|_| Fr::rand(rng)).collect()`: n consecutive draws
#[verifier::external_body] pub fn rand_vec(n: usize, rng: &mut Rng) -> (r: Vec<Fr>)
    ensures r@.len() == n, forall|i: int| 0 <= i < n ==> (#[trigger] r@[i])@ == draw(old(rng).id@, old(rng).pos@ + i as nat), final(rng).id == old(rng).id, final(rng).pos@ == old(rng).pos@ + n, final(rng).present == old(rng).present { unimplemented!() }
// `dst.extend((0..n).map(|x| src[x]))`: appends src[0..n]  (n > |src|: abort)
#[verifier::external_body] pub fn extend_prefix(dst: &mut Vec<Fr>, src: &Vec<Fr>, n: usize) ensures n <= src@.len(), final(dst)@ == old(dst)@ + src@.subrange(0, n as int) { unimplemented!() }
#[verifier::external_body] pub fn range_to_vec_g1(v: &Vec<G1Affine>, a: usize, b: usize) -> (r: Vec<G1Affine>) ensures a <= b <= v@.len(), r@ == v@.subrange(a as int, b as int) { unimplemented!() }   // (&v[a..b]).to_vec()
#[verifier::external_body] pub fn range_to_vec_g2(v: &Vec<G2Affine>, a: usize, b: usize) -> (r: Vec<G2Affine>) ensures a <= b <= v@.len(), r@ == v@.subrange(a as int, b as int) { unimplemented!() }
pub struct BatchMulPreprocessing { pub base: Ghost<FS> }
impl BatchMulPreprocessing {
    #[verifier::external_body] pub fn new(base: G1, n: usize) -> (r: BatchMulPreprocessing) ensures r.base@ == base@ { unimplemented!() }
    #[verifier::external_body] pub fn batch_mul(&self, s: &[Fr]) -> (r: Vec<G1Affine>) ensures r@.len() == s@.len(), forall|i: int| 0 <= i < s@.len() ==> (#[trigger] r@[i])@ == f_mul(self.base@, s@[i]@) { unimplemented!() }
}
// ---- specification ----
// E_i(x) = prod_{j = i}^{nv-1} eq(t_j, bit j of x), built from the top variable down
pub open spec fn eqtop(t: Seq<Fr>, i: nat, x: int) -> FS decreases t.len() - i {
    if i + 1 >= t.len() { eq1(t[t.len() - 1]@, bit(x, (t.len() - 1) as nat)) } else { f_mul(eqtop(t, i + 1, x), eq1(t[i as int]@, bit(x, i))) }
}
// row i of the parameters at index y (y < 2^(nv-i)): the hypercube point whose low i index bits are dropped
pub open spec fn mrow(t: Seq<Fr>, i: nat, y: int) -> FS { eqtop(t, i, y * pw(i)) }
pub open spec fn moff(nv: nat, i: nat) -> nat decreases i { if i == 0 { 0 } else { moff(nv, (i - 1) as nat) + pw((nv - (i - 1)) as nat) } }
pub open spec fn mlpc_setup_ok(pp: &UniversalParams, nv: usize, id: int, pos: nat) -> bool {
    let g = draw(id, pos); let h = draw(id, pos + 1);
    let t = Seq::new(nv as nat, |i: int| Fr::mk(draw(id, pos + 2 + i as nat)));
    pp.num_vars == nv && pp.g@ == g && pp.h@ == h
    && pp.powers_of_g@.len() == nv && pp.powers_of_h@.len() == nv && pp.g_mask@.len() == nv
    && (forall|i: int| 0 <= i < nv ==> (#[trigger] pp.g_mask@[i])@ == f_mul(g, t[i]@))
    && (forall|i: int| 0 <= i < nv ==> (#[trigger] pp.powers_of_g@[i])@.len() == pw((nv - i) as nat) && pp.powers_of_h@[i]@.len() == pw((nv - i) as nat))
    && (forall|i: int, y: int| 0 <= i < nv && 0 <= y < pw((nv - i) as nat) ==> (#[trigger] pp.powers_of_g@[i]@[y])@ == f_mul(g, mrow(t, i as nat, y)))
    && (forall|i: int, y: int| 0 <= i < nv && 0 <= y < pw((nv - i) as nat) ==> (#[trigger] pp.powers_of_h@[i]@[y])@ == f_mul(h, mrow(t, i as nat, y)))
}
impl MultilinearPC {
//@fn id=multilinear_pc.setup file=poly-commit/src/multilinear_pc/mod.rs scope="impl<E: Pairing> MultilinearPC<E>" name=setup props=C09,C17
    pub fn setup(num_vars: usize, rng: &mut Rng) -> (res: UniversalParams)
    requires
        num_vars < 62,
    ensures
        num_vars > 0,      // name=multilinear_pc.setup.zero_variables_abort props=C17
        // one common trapdoor point t (drawn after the two generators); row i, index y: the generator scaled by prod_{j>=i} eq(t_j, bit j-i of y)
        mlpc_setup_ok(&res, num_vars, old(rng).id@, old(rng).pos@),   // name=multilinear_pc.setup.every_row_is_the_eq_product_at_one_trapdoor_point props=C09
        final(rng).pos@ == old(rng).pos@ + 2 + num_vars,
//@body
//@rw 1 /E::G1::rand\(rng\)/ => G1::rand(rng)
//@rw 1 /E::G2::rand\(rng\)/ => G2::rand(rng)
//@rw 1 /let mut powers_of_g = Vec::new\(\);/ => let mut powers_of_g: Vec<Vec<G1Affine>> = Vec::new();
//@rw 1 /let mut powers_of_h = Vec::new\(\);/ => let mut powers_of_h: Vec<Vec<G2Affine>> = Vec::new();
//@rw 1 /let t: Vec<_> = \(0\.\.num_vars\)\.map\(\|_\| E::ScalarField::rand\(rng\)\)\.collect\(\);/ => let t: Vec<Fr> = rand_vec(num_vars, rng);
//@rw 1 /(?s)let mut eq: LinkedList<DenseMultilinearExtension<E::ScalarField>> =\s*LinkedList::from_iter\(eq_extension\(&t\)\.into_iter\(\)\);/ => let mut eq: LList<DenseMLE> = LList::from_vec(eq_extension(t.as_slice()));
//@rw 1 /let mut eq_arr = LinkedList::new\(\);/ => let mut eq_arr: LList<Vec<Fr>> = LList::new();
//@rw 2 /eq\.pop_back\(\)\.unwrap\(\)\.evaluations/ => eq.pop_back_unwrap().evaluations
//@rw 1 /remove_dummy_variable\(&base, i\)/ => remove_dummy_variable(base.as_slice(), i)
//@rw 1 /let eq = eq_arr\.pop_front\(\)\.unwrap\(\);/ => let eq = eq_arr.pop_front_unwrap();
//@rw 1 /(?s)let pp_k_powers = \(0\.\.\(1 << \(num_vars - i\)\)\)\.map\(\|x\| eq\[x\]\);\s*pp_powers\.extend\(pp_k_powers\);/ => extend_prefix(&mut pp_powers, &eq, 1 << (num_vars - i));
//@rw 1 /let mut pp_powers = Vec::new\(\);/ => let mut pp_powers: Vec<Fr> = Vec::new();
//@rw 1 /g_table\.batch_mul\(&pp_powers\)/ => g_table.batch_mul(pp_powers.as_slice())
//@rw 1 /h\.batch_mul\(&pp_powers\)/ => h.batch_mul(pp_powers.as_slice())
//@rw 1 /\(&pp_g\[start\.\.\(start \+ size\)\]\)\.to_vec\(\)/ => range_to_vec_g1(&pp_g, start, start + size)
//@rw 1 /\(&pp_h\[start\.\.\(start \+ size\)\]\)\.to_vec\(\)/ => range_to_vec_g2(&pp_h, start, start + size)
//@rw 1 /g_table\.batch_mul\(&t\)/ => g_table.batch_mul(t.as_slice())
//@closure |(a, b)| => |ab__: (Fr, Fr)| -> (o: Fr) ensures o@ == f_mul(ab__.0@, ab__.1@) ;; let (a, b) = ab__;
//@after start
        let ghost id0 = rng.id@; let ghost pos0 = rng.pos@;
//@after /let t: Vec<_> =/
        let ghost ts = t@; let ghost nv = num_vars as nat;
        proof { lemma_pw_shl(nv); }
//@after /let mut eq: LinkedList/
        let ghost tabs = eq@;
//@loop 1 kw=for name=it1
            invariant it1.index@ <= nv, nv == num_vars, nv < 62, nv >= 1, ts == t@, ts.len() == nv, tabs.len() == nv,
                forall|k: int| 0 <= k < nv ==> eq_table_ok(ts, &#[trigger] tabs[k], k, nv),
                ({ let lo = nv - it1.index@;
                   eq@.len() == (if lo >= 1 { lo - 1 } else { 0 }) && (forall|k: int| 0 <= k < eq@.len() ==> eq@[k] == tabs[k])
                   && base@.len() == pw(nv) && (forall|x: int| 0 <= x < pw(nv) ==> (#[trigger] base@[x])@ == eqtop(ts, (if lo >= 1 { lo - 1 } else { 0 }) as nat, x))
                   && eq_arr@.len() == it1.index@
                   && (forall|m: int| 0 <= m < it1.index@ ==> (#[trigger] eq_arr@[m])@.len() == pw((nv - (lo + m)) as nat))
                   && (forall|m: int, y: int| 0 <= m < it1.index@ && 0 <= y < pw((nv - (lo + m)) as nat) ==> (#[trigger] eq_arr@[m]@[y])@ == mrow(ts, (lo + m) as nat, y)) }),
//@loopstart 1
            let ghost c0 = it1.index@; let ghost lo = nv - c0; let ghost base0 = base@; let ghost arr0 = eq_arr@; let ghost eq0 = eq@;
            proof {
                assert(i == lo - 1);
                lemma_pw_shl(nv); lemma_pw_split(nv, i as nat);
                if i > 0 { assert(base0.len() == pw(nv) && i <= nv); }
            }
//@after /eq_arr\.push_front\(/
            proof {
                let r = eq_arr@[0]@;
                assert(eq_arr@ =~= seq![eq_arr@[0]] + arr0);
                if i > 0 {
                    let k = choose|k: nat| #![trigger pw(k)] k < 64 && base0.len() == pw(k) && k >= i && r.len() == pw((k - i) as nat) && forall|x: int| 0 <= x < r.len() ==> (#[trigger] r[x]) == base0[x * pw(i as nat)];
                    lemma_pw_inj(k, nv);
                } else { lemma_pw0_(); }
                assert(r.len() == pw((nv - i) as nat));
                assert forall|y: int| 0 <= y < pw((nv - i) as nat) implies (#[trigger] r[y])@ == mrow(ts, i as nat, y) by {
                    lemma_mul_lt_pw(y, (nv - i) as nat, i as nat);
                    if i > 0 { assert(r[y] == base0[y * pw(i as nat)]); } else { assert(y * pw(0) == y); }
                }
            }
//@loopend 1
            proof {
                let lo1 = lo - 1;
                if i != 0 {
                    assert(eq0.last() == tabs[i - 1]);
                    assert(eq_table_ok(ts, &tabs[i - 1], i - 1, nv));
                    assert forall|x: int| 0 <= x < pw(nv) implies (#[trigger] base@[x])@ == eqtop(ts, (i - 1) as nat, x) by {
                        assert(base@[x]@ == f_mul(base0[x]@, tabs[i - 1].evaluations@[x]@));
                    }
                }
                assert forall|m: int| 0 <= m < c0 + 1 implies (#[trigger] eq_arr@[m])@.len() == pw((nv - (lo1 + m)) as nat) by { if m > 0 { assert(eq_arr@[m] == arr0[m - 1]); } }
                assert forall|m: int, y: int| 0 <= m < c0 + 1 && 0 <= y < pw((nv - (lo1 + m)) as nat) implies (#[trigger] eq_arr@[m]@[y])@ == mrow(ts, (lo1 + m) as nat, y) by { if m > 0 { assert(eq_arr@[m] == arr0[m - 1]); } }
            }
//@loop 2 kw=for name=it2
            invariant it2.index@ <= nv, nv == num_vars, nv < 62, nv >= 1, ts.len() == nv, eq_arr@.len() == nv - it2.index@, pp_powers@.len() == moff(nv, it2.index@ as nat),
                forall|m: int| 0 <= m < nv - it2.index@ ==> (#[trigger] eq_arr@[m])@.len() == pw((nv - (it2.index@ + m)) as nat),
                forall|m: int, y: int| 0 <= m < nv - it2.index@ && 0 <= y < pw((nv - (it2.index@ + m)) as nat) ==> (#[trigger] eq_arr@[m]@[y])@ == mrow(ts, (it2.index@ + m) as nat, y),
                forall|m: int, y: int| 0 <= m < it2.index@ && 0 <= y < pw((nv - m) as nat) ==> (#[trigger] pp_powers@[moff(nv, m as nat) + y])@ == mrow(ts, m as nat, y),
//@loopstart 2
            let ghost arr0 = eq_arr@; let ghost pp0 = pp_powers@;
            proof { lemma_pw_shl((nv - i) as nat); lemma_moff_mono(nv, i as nat); }
//@loopend 2
            proof {
                assert(eq@ == arr0[0]@);
                assert forall|m: int| 0 <= m < nv - (i + 1) implies (#[trigger] eq_arr@[m]) == arr0[m + 1] by { }
                assert forall|m: int, y: int| 0 <= m < i + 1 && 0 <= y < pw((nv - m) as nat) implies (#[trigger] pp_powers@[moff(nv, m as nat) + y])@ == mrow(ts, m as nat, y) by {
                    if m < i { lemma_moff_step(nv, m as nat, i as nat); assert(pp_powers@[moff(nv, m as nat) + y] == pp0[moff(nv, m as nat) + y]); }
                    else { assert(pp_powers@[moff(nv, i as nat) + y] == eq@[y]); }
                }
            }
//@before /let g_table = BatchMulPreprocessing::new/
        proof { lemma_moff_total(nv, nv); lemma_pw_shl(nv); }
//@loop 3 kw=for name=it3
            invariant it3.index@ <= nv, nv == num_vars, nv < 62, nv >= 1, start == moff(nv, it3.index@ as nat), powers_of_g@.len() == it3.index@, powers_of_h@.len() == it3.index@,
                pp_g@.len() == moff(nv, nv) && pp_h@.len() == moff(nv, nv) && pp_powers@.len() == moff(nv, nv), moff(nv, nv) < 0x8000_0000_0000_0000,
                forall|j: int| 0 <= j < pp_g@.len() ==> (#[trigger] pp_g@[j])@ == f_mul(g@, pp_powers@[j]@),
                forall|j: int| 0 <= j < pp_h@.len() ==> (#[trigger] pp_h@[j])@ == f_mul(h@, pp_powers@[j]@),
                forall|m: int| 0 <= m < it3.index@ ==> (#[trigger] powers_of_g@[m])@.len() == pw((nv - m) as nat) && powers_of_h@[m]@.len() == pw((nv - m) as nat),
                forall|m: int, y: int| 0 <= m < it3.index@ && 0 <= y < pw((nv - m) as nat) ==> (#[trigger] powers_of_g@[m]@[y])@ == f_mul(g@, pp_powers@[moff(nv, m as nat) + y]@),
                forall|m: int, y: int| 0 <= m < it3.index@ && 0 <= y < pw((nv - m) as nat) ==> (#[trigger] powers_of_h@[m]@[y])@ == f_mul(h@, pp_powers@[moff(nv, m as nat) + y]@),
//@loopstart 3
            proof { lemma_pw_shl((nv - i) as nat); lemma_moff_step(nv, i as nat, nv); }
//@before /UniversalParams \{/
        proof {
            let tsp = Seq::new(nv, |k: int| Fr::mk(draw(id0, pos0 + 2 + k as nat)));
            assert(ts =~= tsp);
            assert(g@ == draw(id0, pos0) && h@ == draw(id0, pos0 + 1));
            assert forall|i: int, y: int| 0 <= i < nv && 0 <= y < pw((nv - i) as nat) implies (#[trigger] powers_of_g@[i]@[y])@ == f_mul(g@, mrow(tsp, i as nat, y)) by {
                assert(pp_powers@[moff(nv, i as nat) + y]@ == mrow(ts, i as nat, y));
            }
            assert forall|i: int, y: int| 0 <= i < nv && 0 <= y < pw((nv - i) as nat) implies (#[trigger] powers_of_h@[i]@[y])@ == f_mul(h@, mrow(tsp, i as nat, y)) by {
                assert(pp_powers@[moff(nv, i as nat) + y]@ == mrow(ts, i as nat, y));
            }
            assert forall|i: int| 0 <= i < nv implies (#[trigger] g_mask@[i])@ == f_mul(g@, tsp[i]@) by { assert(g_mask@[i]@ == f_mul(g@, t@[i]@)); }
        }
//@end
}
// ======================= completeness of the multilinear scheme, over the contracts of setup, commit, open and check =======================
// row i of the key extended by the (empty) row nv
pub open spec fn mrowx(t: Seq<Fr>, i: nat, y: int) -> FS { if i >= t.len() { f_one() } else { mrow(t, i, y) } }
// sum_{y < n} a[y] * row_i[y]:  the multilinear extension of the table a in the variables i.. at the trapdoor coordinates t_i..
pub open spec fn rsum(t: Seq<Fr>, i: nat, a: Seq<FS>, n: nat) -> FS decreases n { if n == 0 { f_zero() } else { f_add(rsum(t, i, a, (n - 1) as nat), f_mul(a[n - 1], mrowx(t, i, n - 1))) } }
// the product of eq factors from variable j up depends only on the index bits from j up
pub proof fn lemma_eqtop_high_bits(t: Seq<Fr>, j: nat, x: int, x2: int)
    requires j < t.len(), x >= 0, x2 >= 0, x / (pw(j) as int) == x2 / (pw(j) as int)
    ensures eqtop(t, j, x) == eqtop(t, j, x2)
    decreases t.len() - j
{
    vstd::arithmetic::power2::lemma_pow2_pos(j);
    if j + 1 < t.len() {
        vstd::arithmetic::power2::lemma_pow2_unfold(j + 1);
        vstd::arithmetic::div_mod::lemma_div_denominator(x, pw(j) as int, 2);
        vstd::arithmetic::div_mod::lemma_div_denominator(x2, pw(j) as int, 2);
        assert(pw(j + 1) as int == pw(j) as int * 2) by (nonlinear_arith) requires pw(j + 1) == 2 * pw(j);
        lemma_eqtop_high_bits(t, j + 1, x, x2);
    }
}
// rows of consecutive levels:  row_i[2b] = row_{i+1}[b] (1 - t_i),  row_i[2b+1] = row_{i+1}[b] t_i
pub proof fn lemma_mrow_pairs(t: Seq<Fr>, i: nat, b: int)
    requires i < t.len(), b >= 0
    ensures mrowx(t, i, 2 * b) == f_mul(mrowx(t, i + 1, b), f_sub(f_one(), t[i as int]@)), mrowx(t, i, 2 * b + 1) == f_mul(mrowx(t, i + 1, b), t[i as int]@)
{
    let p = pw(i) as int; let ti = t[i as int]@;
    vstd::arithmetic::power2::lemma_pow2_pos(i); vstd::arithmetic::power2::lemma_pow2_unfold(i + 1);
    let x0 = (2 * b) * p; let x1 = (2 * b + 1) * p;
    assert(x0 == b * (2 * p)) by (nonlinear_arith) requires x0 == (2 * b) * p;
    assert(x1 == b * (2 * p) + p) by (nonlinear_arith) requires x1 == (2 * b + 1) * p;
    assert(x0 >= 0 && x1 >= 0) by (nonlinear_arith) requires x0 == (2 * b) * p, x1 == (2 * b + 1) * p, b >= 0, p > 0;
    // bit i of x0 is 0, of x1 is 1
    vstd::arithmetic::div_mod::lemma_div_multiples_vanish(2 * b, p);
    vstd::arithmetic::div_mod::lemma_div_multiples_vanish(2 * b + 1, p);
    assert(x0 == p * (2 * b) && x1 == p * (2 * b + 1)) by (nonlinear_arith) requires x0 == (2 * b) * p, x1 == (2 * b + 1) * p;
    assert(x0 / p == 2 * b && x1 / p == 2 * b + 1);
    assert(bit(x0, i) == 0 && bit(x1, i) == 1);
    if i + 1 < t.len() {
        // the higher factors are those of b * 2^(i+1)
        let p2 = pw(i + 1) as int;
        assert(p2 == 2 * p);
        vstd::arithmetic::div_mod::lemma_fundamental_div_mod_converse(x0, p2, b, 0);
        vstd::arithmetic::div_mod::lemma_fundamental_div_mod_converse(x1, p2, b, p);
        assert(b * p2 == x0) by (nonlinear_arith) requires x0 == b * (2 * p), p2 == 2 * p;
        lemma_eqtop_high_bits(t, i + 1, x1, x0);
        assert(mrow(t, i + 1, b) == eqtop(t, i + 1, b * pw(i + 1)));
        assert(eqtop(t, i, x0) == f_mul(eqtop(t, i + 1, x0), eq1(ti, 0)));
        assert(eqtop(t, i, x1) == f_mul(eqtop(t, i + 1, x1), eq1(ti, 1)));
    } else {
        assert(eqtop(t, i, x0) == eq1(ti, 0) && eqtop(t, i, x1) == eq1(ti, 1));
        ax_mul_comm(f_one(), f_sub(f_one(), ti)); ax_mul_one(f_sub(f_one(), ti)); ax_mul_comm(f_one(), ti); ax_mul_one(ti);
    }
}
// folding a table at coordinate c:  a'[b] = a[2b] (1 - c) + a[2b+1] c
pub open spec fn tfold(a: Seq<FS>, c: FS) -> Seq<FS> { Seq::new((a.len() / 2) as nat, |b: int| f_add(f_mul(a[2 * b], f_sub(f_one(), c)), f_mul(a[2 * b + 1], c))) }
// the sum against row i of a table of 2n entries is the sum against row i+1 of the table folded at t_i
pub proof fn lemma_rsum_fold(t: Seq<Fr>, i: nat, a: Seq<FS>, n: nat)
    requires i < t.len(), a.len() >= 2 * n
    ensures rsum(t, i, a, 2 * n) == rsum(t, i + 1, tfold(a, t[i as int]@), n)
    decreases n
{
    if n > 0 {
        let b = (n - 1) as int; let ti = t[i as int]@; let m = mrowx(t, i + 1, b); let u = f_sub(f_one(), ti);
        lemma_rsum_fold(t, i, a, (n - 1) as nat);
        lemma_mrow_pairs(t, i, b);
        assert(rsum(t, i, a, (2 * n - 1) as nat) == f_add(rsum(t, i, a, (2 * n - 2) as nat), f_mul(a[2 * b], mrowx(t, i, 2 * b))));
        assert(rsum(t, i, a, 2 * n) == f_add(rsum(t, i, a, (2 * n - 1) as nat), f_mul(a[2 * b + 1], mrowx(t, i, 2 * b + 1))));
        // a0 (m u) + a1 (m ti) == (a0 u + a1 ti) m
        let a0 = a[2 * b]; let a1 = a[2 * b + 1];
        ax_mul_comm(m, u); ax_mul_assoc(a0, u, m); ax_mul_comm(m, ti); ax_mul_assoc(a1, ti, m);
        ax_mul_comm(f_add(f_mul(a0, u), f_mul(a1, ti)), m); ax_distrib(m, f_mul(a0, u), f_mul(a1, ti)); ax_mul_comm(m, f_mul(a0, u)); ax_mul_comm(m, f_mul(a1, ti));
        ax_add_assoc(rsum(t, i, a, (2 * n - 2) as nat), f_mul(a0, f_mul(m, u)), f_mul(a1, f_mul(m, ti)));
        assert(tfold(a, ti)[b] == f_add(f_mul(a0, u), f_mul(a1, ti)));
    }
}
pub proof fn lemma_rsum_ext(t: Seq<Fr>, i: nat, a: Seq<FS>, a2: Seq<FS>, n: nat)
    requires n <= a.len(), n <= a2.len(), forall|y: int| 0 <= y < n ==> a[y] == a2[y]
    ensures rsum(t, i, a, n) == rsum(t, i, a2, n)
    decreases n
{ if n > 0 { lemma_rsum_ext(t, i, a, a2, (n - 1) as nat); } }
// linear in the table:  w = u + c v  ==>  rsum(w) = rsum(u) + c rsum(v)
pub proof fn lemma_rsum_lin(t: Seq<Fr>, i: nat, u: Seq<FS>, v: Seq<FS>, c: FS, w: Seq<FS>, n: nat)
    requires n <= u.len(), n <= v.len(), n <= w.len(), forall|y: int| 0 <= y < n ==> w[y] == f_add(u[y], f_mul(c, v[y]))
    ensures rsum(t, i, w, n) == f_add(rsum(t, i, u, n), f_mul(c, rsum(t, i, v, n)))
    decreases n
{
    if n == 0 { lemma_mul_zero(c); ax_add_zero(f_zero()); }
    else {
        let y = n - 1; let m = mrowx(t, i, y);
        lemma_rsum_lin(t, i, u, v, c, w, (n - 1) as nat);
        ax_mul_comm(w[y], m); ax_distrib(m, u[y], f_mul(c, v[y])); ax_mul_comm(m, u[y]); ax_mul_comm(m, f_mul(c, v[y])); ax_mul_assoc(c, v[y], m);
        lemma_add_swap(rsum(t, i, u, (n - 1) as nat), f_mul(c, rsum(t, i, v, (n - 1) as nat)), f_mul(u[y], m), f_mul(c, f_mul(v[y], m)));
        ax_distrib(c, rsum(t, i, v, (n - 1) as nat), f_mul(v[y], m));
    }
}
// a key row (generator times the row entries) against a table
pub proof fn lemma_row_dot(t: Seq<Fr>, i: nat, g: FS, row: Seq<FS>, a: Seq<FS>, n: nat)
    requires n <= row.len(), n <= a.len(), forall|y: int| 0 <= y < n ==> row[y] == f_mul(g, mrowx(t, i, y))
    ensures dot(row, a, n) == f_mul(g, rsum(t, i, a, n))
    decreases n
{
    if n == 0 { lemma_mul_zero(g); }
    else {
        let y = n - 1; let m = mrowx(t, i, y);
        lemma_row_dot(t, i, g, row, a, (n - 1) as nat);
        ax_mul_assoc(g, m, a[y]); ax_mul_comm(m, a[y]);
        ax_distrib(g, rsum(t, i, a, (n - 1) as nat), f_mul(a[y], m));
    }
}
// (a0 (1-c) + a1 c) - (a0 (1-z) + a1 z) == (c - z)(a1 - a0)      [one pair of the table, folded at c and at z]
pub proof fn lemma_fold_diff(a0: FS, a1: FS, c: FS, z: FS)
    ensures f_add(f_mul(a0, f_sub(f_one(), c)), f_mul(a1, c)) == f_add(f_add(f_mul(a0, f_sub(f_one(), z)), f_mul(a1, z)), f_mul(f_sub(c, z), f_sub(a1, a0)))
{
    // a0 (1 - x) + a1 x == a0 + x (a1 - a0)
    lemma_fold_form(a0, a1, c); lemma_fold_form(a0, a1, z);
    let dd = f_sub(a1, a0);
    // a0 + c d == (a0 + z d) + (c - z) d
    ax_mul_comm(f_sub(c, z), dd); lemma_distrib_sub(dd, c, z); ax_mul_comm(dd, c); ax_mul_comm(dd, z);
    let cd = f_mul(c, dd); let zd = f_mul(z, dd);
    ax_add_assoc(a0, zd, f_sub(cd, zd)); ax_add_comm(cd, f_neg(zd)); ax_add_assoc(zd, f_neg(zd), cd); ax_add_neg(zd); ax_add_comm(f_zero(), cd); ax_add_zero(cd);
}
pub proof fn lemma_fold_form(a0: FS, a1: FS, x: FS)
    ensures f_add(f_mul(a0, f_sub(f_one(), x)), f_mul(a1, x)) == f_add(a0, f_mul(x, f_sub(a1, a0)))
{
    lemma_distrib_sub(a0, f_one(), x); ax_mul_one(a0);
    lemma_distrib_sub(x, a1, a0); ax_mul_comm(x, a1); ax_mul_comm(x, a0);
    let p = f_mul(a0, x); let q = f_mul(a1, x);
    // (a0 - p) + q == a0 + (q - p)
    ax_add_assoc(a0, f_neg(p), q); ax_add_comm(f_neg(p), q);
}
// head(n) = sum_{j < n} (t_j - z_j) * Q_j,   Q_j = the j-th quotient table against row j (each quotient value used for both values of variable j)
pub open spec fn mhead(t: Seq<Fr>, ev: Seq<FS>, z: Seq<FS>, n: nat) -> FS decreases n {
    if n == 0 { f_zero() } else { let j = (n - 1) as nat; f_add(mhead(t, ev, z, j), f_mul(f_sub(t[j as int]@, z[j as int]), rsum(t, j, mscal(ev, z, j, pw((t.len() - j) as nat)), pw((t.len() - j) as nat)))) }
}
pub proof fn lemma_mfold_len(ev: Seq<FS>, z: Seq<FS>, nv: nat, i: nat)
    requires i <= nv, ev.len() == pw(nv)
    ensures mfold(ev, z, i).len() == pw((nv - i) as nat)
    decreases i
{
    if i > 0 { lemma_mfold_len(ev, z, nv, (i - 1) as nat); vstd::arithmetic::power2::lemma_pow2_unfold((nv - i + 1) as nat); }
}
// the telescoping identity:  ev~(t) == r_i~(t_i..) + head(i)
pub proof fn lemma_ml_telescope(t: Seq<Fr>, ev: Seq<FS>, z: Seq<FS>, i: nat)
    requires i <= t.len(), ev.len() == pw(t.len()), z.len() >= t.len()
    ensures rsum(t, 0, ev, pw(t.len())) == f_add(rsum(t, i, mfold(ev, z, i), pw((t.len() - i) as nat)), mhead(t, ev, z, i))
    decreases i
{
    let nv = t.len();
    if i == 0 { ax_add_zero(rsum(t, 0, ev, pw(nv))); }
    else {
        let j = (i - 1) as nat; let k = (nv - j) as nat; let h = pw((k - 1) as nat);
        lemma_ml_telescope(t, ev, z, j);
        lemma_mfold_len(ev, z, nv, j); lemma_mfold_len(ev, z, nv, i);
        vstd::arithmetic::power2::lemma_pow2_unfold(k);
        let r = mfold(ev, z, j); let r2 = mfold(ev, z, i); let tj = t[j as int]@; let zj = z[j as int]; let q = mquot(ev, z, j); let ms = mscal(ev, z, j, pw(k));
        assert(r.len() == 2 * h && r2.len() == h && q.len() == h);
        // r~(t_j..) folds at t_j;  r2 is r folded at z_j;  pairwise difference (t_j - z_j) q
        lemma_rsum_fold(t, j, r, h);
        let ft = tfold(r, tj);
        assert forall|b: int| 0 <= b < h implies ft[b] == f_add(r2[b], f_mul(f_sub(tj, zj), q[b])) by { lemma_fold_diff(r[2 * b], r[2 * b + 1], tj, zj); }
        lemma_rsum_lin(t, i, r2, q, f_sub(tj, zj), ft, h);
        // the quotient table used twice against row j is the quotient table against row j+1
        lemma_rsum_fold(t, j, ms, h);
        let fq = tfold(ms, tj);
        assert forall|b: int| 0 <= b < h implies fq[b] == q[b] by {
            assert(ms[2 * b] == q[(2 * b) / 2] && ms[2 * b + 1] == q[(2 * b + 1) / 2]);
            lemma_fold_form(q[b], q[b], tj); lemma_sub_self(q[b]); lemma_mul_zero(tj); ax_add_zero(q[b]);
        }
        lemma_rsum_ext(t, i, fq, q, h);
        // reassociate: (A + head(j)) with A = B + c Q
        let bb = rsum(t, i, r2, h); let cq = f_mul(f_sub(tj, zj), rsum(t, i, q, h));
        ax_add_assoc(bb, cq, mhead(t, ev, z, j)); ax_add_comm(cq, mhead(t, ev, z, j));
    }
}
//@lemma props=C01
// COMPLETENESS of the multilinear scheme, stated over the values the contracts speak about: a key whose rows are the eq products at one trapdoor point t
// (mlpc_setup_ok, postcondition of `setup`; `trim` with all variables keeps it), the commitment `commit` returns (c = <row 0 of G1, evaluations>), the proof `open`
// returns (pfs[i] = <row i of G2, i-th quotient table used for both values of variable i>), the claimed value the fold of the table at the point (the multilinear
// extension at z)  ==>  the equation `check` decides:  e(C - v G, H) == sum_i e(mask_i - z_i G, pi_i).
pub proof fn lemma_mlpc_complete(t: Seq<Fr>, g: FS, h: FS, ev: Seq<FS>, z: Seq<FS>, c: FS, pfs: Seq<FS>, row_g0: Seq<FS>, rows_h: Seq<Seq<FS>>, masks: Seq<FS>)
    requires
        t.len() >= 1, ev.len() == pw(t.len()), z.len() >= t.len(),
        row_g0.len() == pw(t.len()), forall|y: int| 0 <= y < pw(t.len()) ==> #[trigger] row_g0[y] == f_mul(g, mrow(t, 0, y)),
        rows_h.len() == t.len(), forall|i: int| 0 <= i < t.len() ==> (#[trigger] rows_h[i]).len() == pw((t.len() - i) as nat),
        forall|i: int, y: int| 0 <= i < t.len() && 0 <= y < pw((t.len() - i) as nat) ==> (#[trigger] rows_h[i][y]) == f_mul(h, mrow(t, i as nat, y)),
        masks.len() == t.len(), forall|i: int| 0 <= i < t.len() ==> #[trigger] masks[i] == f_mul(g, t[i]@),
        c == dot(row_g0, ev, pw(t.len())),
        pfs.len() == t.len(), forall|i: int| 0 <= i < t.len() ==> #[trigger] pfs[i] == dot(rows_h[i], mscal(ev, z, i as nat, pw((t.len() - i) as nat)), pw((t.len() - i) as nat)),
    ensures
        pair(f_sub(c, f_mul(g, mfold(ev, z, t.len())[0])), h) == dot(Seq::new(t.len(), |i: int| f_sub(masks[i], f_mul(g, z[i]))), pfs, t.len())
{
    let nv = t.len(); let v = mfold(ev, z, nv)[0]; let lefts = Seq::new(nv, |i: int| f_sub(masks[i], f_mul(g, z[i])));
    lemma_ml_telescope(t, ev, z, nv);
    lemma_mfold_len(ev, z, nv, nv);
    vstd::arithmetic::power2::lemma2_to64();
    // the last level: one entry against the empty row
    let rl = mfold(ev, z, nv);
    assert(rsum(t, nv, rl, 1) == f_add(rsum(t, nv, rl, 0), f_mul(rl[0], mrowx(t, nv, 0))));
    ax_mul_one(v); ax_add_comm(f_zero(), v); ax_add_zero(v);
    assert(rsum(t, 0, ev, pw(nv)) == f_add(v, mhead(t, ev, z, nv)));
    // c = g * ev~(t)
    assert forall|y: int| 0 <= y < pw(nv) implies row_g0[y] == f_mul(g, mrowx(t, 0, y)) by {}
    lemma_row_dot(t, 0, g, row_g0, ev, pw(nv));
    // left: (g (v + head) - g v) h == (g head) h
    let hd = mhead(t, ev, z, nv);
    ax_distrib(g, v, hd); ax_add_comm(f_mul(g, v), f_mul(g, hd)); ax_add_assoc(f_mul(g, hd), f_mul(g, v), f_neg(f_mul(g, v))); ax_add_neg(f_mul(g, v)); ax_add_zero(f_mul(g, hd));
    assert(f_sub(c, f_mul(g, v)) == f_mul(g, hd));
    lemma_ml_right(t, g, h, ev, z, pfs, rows_h, masks, nv);
}
// right: sum_{i < n} (mask_i - g z_i) pi_i == (g head(n)) h
pub proof fn lemma_ml_right(t: Seq<Fr>, g: FS, h: FS, ev: Seq<FS>, z: Seq<FS>, pfs: Seq<FS>, rows_h: Seq<Seq<FS>>, masks: Seq<FS>, n: nat)
    requires n <= t.len(), z.len() >= t.len(), rows_h.len() == t.len(), masks.len() == t.len(), pfs.len() == t.len(),
        forall|i: int| 0 <= i < t.len() ==> (#[trigger] rows_h[i]).len() == pw((t.len() - i) as nat),
        forall|i: int, y: int| 0 <= i < t.len() && 0 <= y < pw((t.len() - i) as nat) ==> (#[trigger] rows_h[i][y]) == f_mul(h, mrow(t, i as nat, y)),
        forall|i: int| 0 <= i < t.len() ==> #[trigger] masks[i] == f_mul(g, t[i]@),
        forall|i: int| 0 <= i < t.len() ==> #[trigger] pfs[i] == dot(rows_h[i], mscal(ev, z, i as nat, pw((t.len() - i) as nat)), pw((t.len() - i) as nat)),
    ensures dot(Seq::new(t.len(), |i: int| f_sub(masks[i], f_mul(g, z[i]))), pfs, n) == f_mul(f_mul(g, mhead(t, ev, z, n)), h)
    decreases n
{
    let lefts = Seq::new(t.len(), |i: int| f_sub(masks[i], f_mul(g, z[i])));
    if n == 0 { lemma_mul_zero(g); ax_mul_comm(f_zero(), h); lemma_mul_zero(h); }
    else {
        let j = (n - 1) as nat; let ji = j as int; let k = pw((t.len() - j) as nat); let ms = mscal(ev, z, j, k); let qj = rsum(t, j, ms, k); let d = f_sub(t[ji]@, z[ji]);
        lemma_ml_right(t, g, h, ev, z, pfs, rows_h, masks, j);
        assert forall|y: int| 0 <= y < k implies rows_h[ji][y] == f_mul(h, mrowx(t, j, y)) by { assert(rows_h[ji][y] == f_mul(h, mrow(t, j, y))); }
        assert(rows_h[ji].len() == k);
        lemma_row_dot(t, j, h, rows_h[ji], ms, k);
        assert(pfs[ji] == f_mul(h, qj));
        // (g t_j - g z_j)(h Q) == (g (d Q)) h
        lemma_distrib_sub(g, t[ji]@, z[ji]);
        assert(lefts[ji] == f_mul(g, d));
        ax_mul_comm(h, qj); ax_mul_assoc(f_mul(g, d), qj, h); ax_mul_assoc(g, d, qj);
        // (g head_j) h + (g (d Q)) h == (g (head_j + d Q)) h
        let hj = mhead(t, ev, z, j); let x = f_mul(d, qj);
        ax_distrib(g, hj, x);
        ax_mul_comm(f_add(f_mul(g, hj), f_mul(g, x)), h); ax_distrib(h, f_mul(g, hj), f_mul(g, x)); ax_mul_comm(h, f_mul(g, hj)); ax_mul_comm(h, f_mul(g, x));
    }
}
