// Marlin::combine_and_normalize (marlin/mod.rs) and MarlinKZG10::batch_check (marlin_pc/mod.rs)  (C05, C10, C11)
//@use core ops_gen poly labeled labeled_comm sponge std
//@spec ring
//@typemap /::<E, P, Self>::/ => ::
//@typemap /::<E, P>::/ => ::
//@typemap /<E>/ =>
//@typemap /\bmarlin_pc::/ =>
//@typemap /\bP::Point\b/ => Fr
//@typemap /<'a, D: Clone \+ Ord \+ Sync>/ => <'a>
//@typemap /&QuerySet<D>/ => &BTreeSet<(String, (String, Fr))>
//@typemap /&Evaluations<D, E::ScalarField>/ => &BTreeMap<(String, Fr), Fr>
//@typemap /&QuerySet<Fr>/ => &BTreeSet<(String, (String, Fr))>
//@typemap /&Evaluations<E::ScalarField, Fr>/ => &BTreeMap<(String, Fr), Fr>
//@typemap /Vec<D>/ => Vec<Fr>
//@typemap /Self::VerifierKey/ => VerifierKey
//@typemap /Self::Commitment/ => Commitment
//@typemap /Self::BatchProof/ => Vec<kzg10::Proof>
//@typemap /Self::Error/ => Error
//@typemap /<'a, R: RngCore>/ => <'a>
//@typemap /&mut R\b/ => &mut Rng
//@typemap /E::G1::normalize_batch/ => G1::normalize_batch
//@enum file=poly-commit/src/error.rs name=Error
pub mod kzg10 {
    use super::*;
//@struct file=poly-commit/src/kzg10/data_structures.rs name=VerifierKey
//@struct file=poly-commit/src/kzg10/data_structures.rs name=Commitment
//@struct file=poly-commit/src/kzg10/data_structures.rs name=Proof
//@spec kzg10_check_spec
    pub struct KZG10;
    impl KZG10 {
//@stub from=kzg10.rs id=kzg10.batch_check
    }
}
//@struct file=poly-commit/src/marlin/marlin_pc/data_structures.rs name=Commitment
//@struct file=poly-commit/src/marlin/marlin_pc/data_structures.rs name=VerifierKey
//@spec marlin_sched_spec marlin_acc_spec
pub type Comm = Commitment;
pub type Pt = Fr;
//@use pcenv
//@spec group_spec
#[verifier::external_body] pub fn fr_clone(x: &Fr) -> (r: Fr) ensures r == *x { unimplemented!() }   // <Fr as Clone>::clone

// ======================= specification =======================
// sponge state before group k: every group costs its accumulation's squeezes
pub open spec fn cstate(m: Map<&String, &LabeledCommitment<Comm>>, gs: Seq<(String, (Pt, Set<String>))>, s0: SS, k: nat) -> SS decreases k {
    if k == 0 { s0 } else { let ls = labels_seq(gs[k - 1].1.1); sp_iter(cstate(m, gs, s0, (k - 1) as nat), nsq(gather_c(m, ls), ls.len())) }
}
// group k of the batch: the challenge-weighted combination of the commitments / claimed values queried under that point label
#[verifier::opaque]
pub open spec fn comb_c(vk: Option<&VerifierKey>, m: Map<&String, &LabeledCommitment<Comm>>, ev: Map<(String, Pt), Fr>, gs: Seq<(String, (Pt, Set<String>))>, s0: SS, k: int) -> FS {
    let ls = labels_seq(gs[k].1.1); acc_c(gather_c(m, ls), gather_v(ev, gs[k].1.0, ls), vk->Some_0, cstate(m, gs, s0, k as nat), ls.len())
}
#[verifier::opaque]
pub open spec fn comb_v(m: Map<&String, &LabeledCommitment<Comm>>, ev: Map<(String, Pt), Fr>, gs: Seq<(String, (Pt, Set<String>))>, s0: SS, k: int) -> FS {
    let ls = labels_seq(gs[k].1.1); acc_v(gather_c(m, ls), gather_v(ev, gs[k].1.0, ls), cstate(m, gs, s0, k as nat), ls.len())
}
pub open spec fn cn_post(vk: Option<&VerifierKey>, cs: Seq<&LabeledCommitment<Comm>>, qs: Set<(String, (String, Pt))>, ev: Map<(String, Pt), Fr>, s0: SS,
                         out: (Vec<kzg10::Commitment>, Vec<Fr>, Vec<Fr>), s1: SS) -> bool {
    exists|gs: Seq<(String, (Pt, Set<String>))>, m: Map<&String, &LabeledCommitment<Comm>>| #![trigger groups_of(qs, gs), cmap_ok(m, cs)]
        groups_of(qs, gs) && cmap_ok(m, cs)
        && out.0@.len() == gs.len() && out.1@.len() == gs.len() && out.2@.len() == gs.len()        // one combined (commitment, point, value) per point label
        && (forall|k: int| 0 <= k < gs.len() ==> gather_ok(m, ev, (#[trigger] gs[k]).1.0, labels_seq(gs[k].1.1), labels_seq(gs[k].1.1).len()))   // nothing missing
        && (forall|k: int| 0 <= k < gs.len() ==> (#[trigger] out.0@[k]).0@ == comb_c(vk, m, ev, gs, s0, k) && out.1@[k] == gs[k].1.0 && out.2@[k]@ == comb_v(m, ev, gs, s0, k))
        && s1 == cstate(m, gs, s0, gs.len())
}

pub struct Marlin;
impl Marlin {
//@stub from=marlin.rs id=marlin.accumulate_commitments_and_values
//@fn id=marlin.combine_and_normalize file=poly-commit/src/marlin/mod.rs scope="impl<E, P, PC> Marlin<E, P, PC>" name=combine_and_normalize props=C05,C10,C11,C17
    #[verifier::loop_isolation(false)]
    fn combine_and_normalize<'a>(commitments: Vec<&'a LabeledCommitment<Commitment>>, query_set: &BTreeSet<(String, (String, Fr))>, evaluations: &BTreeMap<(String, Fr), Fr>, sponge: &mut Sponge, vk: Option<&VerifierKey>) -> (res: Result<(Vec<kzg10::Commitment>, Vec<Fr>, Vec<Fr>), Error>)
    requires
        vk is Some ==> shift_table_sorted(vk->Some_0),
    ensures
        res is Ok ==> cn_post(vk, commitments@, query_set@, evaluations@, old(sponge).st@, res->Ok_0, final(sponge).st@),   // name=marlin.combine_and_normalize.one_accumulation_per_point_label props=C05,C10,C11
//@body
//@rw 1 /(?s)let commitments: BTreeMap<_, _> = (commitments\.into_iter\(\)\.map\(.*?\))\.collect\(\);/ => let cv__: Vec<(&String, &LabeledCommitment<Comm>)> = \1.collect();
        let commitments: BTreeMap<&String, &LabeledCommitment<Comm>> = btree_from_pairs(cv__);
        proof {
            assert forall|i: int| #[trigger] c_is_last(cs0, i) implies commitments@[&cs0[i].label] == cs0[i] by {
                assert(cv__@[i].0 == &cs0[i].label);
                assert forall|j: int| i < j < cv__@.len() implies cv__@[j].0 != cv__@[i].0 by { assert(*cv__@[j].0 == cs0[j].label); }
            }
            assert forall|k: &String| commitments@.dom().contains(k) == (exists|i: int| 0 <= i < cs0.len() && (#[trigger] cs0[i]).label == *k) by {
                if commitments@.dom().contains(k) { let i = choose|i: int| 0 <= i < cv__@.len() && (#[trigger] cv__@[i]).0 == k; assert(cs0[i].label == *k); }
                if exists|i: int| 0 <= i < cs0.len() && (#[trigger] cs0[i]).label == *k { let i = choose|i: int| 0 <= i < cs0.len() && (#[trigger] cs0[i]).label == *k; assert(cv__@[i].0 == k); }
            }
            assert(cmap_ok(commitments@, cs0));
        }
//@closure |c| => |c: &'a LabeledCommitment<Comm>| -> (kv: (&String, &LabeledCommitment<Comm>)) ensures *kv.0 == c.label, kv.1 == c
//@rw 1 /let mut query_to_labels_map = BTreeMap::new\(\);/ => let mut query_to_labels_map: BTreeMap<&String, (&Pt, BTreeSet<&String>)> = BTreeMap::new();
//@rw 1 /for \(label, \(point_label, point\)\) in([^{]*?)query_set\.iter\(\)([^{]*)\{/ => let qv__ = query_set_to_vec(query_set); for q__ in\1qv__.iter()\2{ let label: &String = &q__.0; let point_label: &String = &q__.1.0; let point: &Pt = &q__.1.1;
//@rw 1 /(?s)let labels = query_to_labels_map\s*\.entry\(point_label\)\s*\.or_insert\(\(point, BTreeSet::new\(\)\)\);\s*labels\.1\.insert\(label\);/ => group_insert(&mut query_to_labels_map, point_label, point, label);
//@rw 1 /let mut combined_comms = Vec::new\(\);/ => let mut combined_comms: Vec<G1> = Vec::new();
//@rw 1 /let mut combined_queries = Vec::new\(\);/ => let mut combined_queries: Vec<Fr> = Vec::new();
//@rw 1 /let mut combined_evals = Vec::new\(\);/ => let mut combined_evals: Vec<Fr> = Vec::new();
//@rw 1 /for \(_, \(point, labels\)\) in([^{]*?)query_to_labels_map\.into_iter\(\)/ => let gv__ = map_into_sorted_vec(query_to_labels_map); let ghost gs = Seq::new(gv__@.len(), |i: int| (*gv__@[i].0, (*gv__@[i].1.0, set_vals(gv__@[i].1.1@))));
        proof { lemma_groups(query_set@, qmap0, gv__@, gs); }
        for (_pl, (point, labels)) in\1gv__.into_iter()
//@rw 1 /for label in([^{]*?)labels\.into_iter\(\)([^{]*)\{/ => let ghost lset = labels@; let lv__ = set_into_sorted_vec(labels); for label__r in\1lv__.iter()\2{ let label: &String = *label__r;
//@rw 1 /commitments\.get\(label\)/ => btree_get_by_label(&commitments, label)
//@rw * /label\.to_string\(\)/ => string_to_string(label)
//@rw 1 /label\.clone\(\)/ => string_to_string(label)
//@rw * /point\.clone\(\)/ => fr_clone(point)
//@rw 1 /let mut values_to_combine = Vec::new\(\);/ => let mut values_to_combine: Vec<Fr> = Vec::new();
//@closure |c| #2 => |c: G1Affine| -> (k: kzg10::Commitment) ensures k.0 == c
//@rw 1 /kzg10::Commitment\(c\.into\(\)\)/ => kzg10::Commitment(c)
//@after start
        let ghost cs0 = commitments@;
        let ghost s0 = sponge.st@;
//@loop 1 kw=for name=it
            invariant it.index@ <= qv__@.len(), qv__@.len() == set_seq(query_set@).len(),
                forall|i: int| 0 <= i < qv__@.len() ==> *(#[trigger] qv__@[i]) == set_seq(query_set@)[i],
                qmap_abs(query_to_labels_map@, gmap(set_seq(query_set@), it.index@ as nat)),
//@loopstart 1
            let ghost m0 = query_to_labels_map@;
            let ghost kq = it.index@;
//@loopend 1
            proof {
                let qseq = set_seq(query_set@);
                assert(*q__ == qseq[kq]);
                lemma_gmap_step(m0, query_to_labels_map@, qseq, kq as nat, point_label, point, label);
            }
//@afterloop 1
        let ghost qmap0 = query_to_labels_map@;
//@loop 2 kw=for name=it2
            invariant it2.index@ <= gs.len(), gs.len() == gv__@.len(),
                gs == Seq::new(gv__@.len(), |i: int| (*gv__@[i].0, (*gv__@[i].1.0, set_vals(gv__@[i].1.1@)))),
                combined_comms@.len() == it2.index@, combined_queries@.len() == it2.index@, combined_evals@.len() == it2.index@,
                sponge.st@ == cstate(commitments@, gs, s0, it2.index@ as nat),
                forall|k: int| 0 <= k < it2.index@ ==> gather_ok(commitments@, evaluations@, (#[trigger] gs[k]).1.0, labels_seq(gs[k].1.1), labels_seq(gs[k].1.1).len()),
                forall|k: int| 0 <= k < it2.index@ ==> (#[trigger] combined_comms@[k])@ == comb_c(vk, commitments@, evaluations@, gs, s0, k) && combined_queries@[k] == gs[k].1.0
                    && combined_evals@[k]@ == comb_v(commitments@, evaluations@, gs, s0, k),
//@loopstart 2
            let ghost k = it2.index@;
            let ghost ls = labels_seq(gs[k].1.1);
//@beforeloop 3
                proof { assert(*point == gs[k].1.0 && set_vals(labels@) == gs[k].1.1); }
//@loop 3 kw=for name=it3
                invariant k < gs.len(), it3.index@ <= lv__@.len(), lv__@.len() == ls.len(), forall|i: int| 0 <= i < ls.len() ==> *(#[trigger] lv__@[i]) == ls[i],
                    comms_to_combine@.len() == it3.index@, values_to_combine@.len() == it3.index@,
                    gather_ok(commitments@, evaluations@, *point, ls, it3.index@ as nat),
                    forall|i: int| 0 <= i < it3.index@ ==> (#[trigger] comms_to_combine@[i]) == commitments@[&ls[i]] && values_to_combine@[i] == evaluations@[(ls[i], *point)],
//@loopstart 3
                    let ghost j = it3.index@; let ghost c0__ = comms_to_combine@; let ghost v0__ = values_to_combine@;
                    proof { assert(*label == ls[j]); }
//@loopend 3
                    proof {
                        assert(comms_to_combine@[j] == commitments@[&ls[j]]); assert(values_to_combine@[j] == evaluations@[(ls[j], *point)]);
                        assert forall|i: int| 0 <= i < j + 1 implies (#[trigger] comms_to_combine@[i]) == commitments@[&ls[i]] && values_to_combine@[i] == evaluations@[(ls[i], *point)] by {
                            if i < j { assert(comms_to_combine@[i] == c0__[i]); assert(values_to_combine@[i] == v0__[i]); assert(c0__[i] == commitments@[&ls[i]]); }
                        }
                    }
//@afterloop 3
                proof {
                    assert forall|i: int| 0 <= i < ls.len() implies values_to_combine@[i] == gather_v(evaluations@, *point, ls)[i] by { let c = comms_to_combine@[i]; assert(c == commitments@[&ls[i]]); }
                    assert(comms_to_combine@ =~= gather_c(commitments@, ls));
                    assert(values_to_combine@ =~= gather_v(evaluations@, *point, ls));
                    assert(gather_ok(commitments@, evaluations@, *point, ls, ls.len()));
                }
//@loopend 2
            proof {
                assert(combined_comms@[k]@ == comb_c(vk, commitments@, evaluations@, gs, s0, k) && combined_evals@[k]@ == comb_v(commitments@, evaluations@, gs, s0, k)) by {
                    reveal(comb_c); reveal(comb_v);
                }
                assert(sponge.st@ == cstate(commitments@, gs, s0, (k + 1) as nat));
            }
//@before /let norm_time =/
        let ghost cc0 = combined_comms@;
//@before /Ok\(\(combined_comms, combined_queries, combined_evals\)\)/
        proof {
            assert(groups_of(query_set@, gs) && cmap_ok(commitments@, cs0));
            assert forall|k: int| 0 <= k < gs.len() implies (#[trigger] combined_comms@[k]).0@ == comb_c(vk, commitments@, evaluations@, gs, s0, k) by {
                assert(combined_comms_affine@[k]@ == cc0[k]@);
            }
        }
//@end
}

pub struct MarlinKZG10;
impl MarlinKZG10 {
//@fn id=marlin_pc.batch_check file=poly-commit/src/marlin/marlin_pc/mod.rs scope="impl<E, P> PolynomialCommitment<E::ScalarField, P> for MarlinKZG10<E, P>" name=batch_check props=C05,C10,C11
    fn batch_check<'a>(vk: &VerifierKey, commitments: Vec<&'a LabeledCommitment<Commitment>>, query_set: &BTreeSet<(String, (String, Fr))>, values: &BTreeMap<(String, Fr), Fr>, proof: &Vec<kzg10::Proof>, sponge: &mut Sponge, rng: &mut Rng) -> (res: Result<bool, Error>)
    requires
        shift_table_sorted(vk), kzg10::vk_wf(&vk.vk),
    ensures
        // the batch is decided by the KZG10 batch relation over one challenge-weighted (commitment, point, value) per point label;
        // a proof count different from the number of point labels aborts
        res is Ok ==> exists|out: (Vec<kzg10::Commitment>, Vec<Fr>, Vec<Fr>)| #![trigger cn_post(Some(vk), commitments@, query_set@, values@, old(sponge).st@, out, final(sponge).st@)]
            cn_post(Some(vk), commitments@, query_set@, values@, old(sponge).st@, out, final(sponge).st@) && proof@.len() == out.1@.len()
            && res->Ok_0 == kzg10::kzg_batch_relation(&vk.vk, out.0@, out.1@, out.2@, proof@, old(rng).id@, old(rng).pos@, proof@.len()),   // name=marlin_pc.batch_check.kzg_batch_relation_over_per_point_accumulations props=C05,C10,C11
//@body
//@rw 1 /&proof,/ => proof.as_slice(),
//@rw 1 /&combined_comms,/ => combined_comms.as_slice(),
//@rw 1 /&combined_queries,/ => combined_queries.as_slice(),
//@rw 1 /&combined_evals,/ => combined_evals.as_slice(),
//@after /Some\(vk\),\s*\)\?;/
        let ghost out = (combined_comms, combined_queries, combined_evals);
//@end
}
