// Marlin (marlin/mod.rs, marlin/marlin_pc): verifier-side accumulation, single check, shift powers.
//@use core ops_gen poly labeled labeled_comm sponge std
//@spec ring
//@typemap /::<E, P, Self>::/ => ::
//@typemap /::<E, P>::/ => ::
//@typemap /<E>/ => 
//@typemap /\bmarlin_pc::/ => 
//@typemap /\bP::Point\b/ => Fr
//@typemap /kzg10::Powers<'a, E>/ => kzg10::Powers
//@enum file=poly-commit/src/error.rs name=Error
pub mod kzg10 {
    use super::*;
//@struct file=poly-commit/src/kzg10/data_structures.rs name=VerifierKey
//@struct file=poly-commit/src/kzg10/data_structures.rs name=Commitment
//@struct file=poly-commit/src/kzg10/data_structures.rs name=Proof
//@typemap /Cow<'a, \[E::G1Affine\]>/ => Vec<G1Affine>
//@struct file=poly-commit/src/kzg10/data_structures.rs name=Powers
//@spec kzg10_check_spec
    pub struct KZG10;
    impl KZG10 {
//@stub from=kzg10.rs id=kzg10.check
    }
}
//@struct file=poly-commit/src/marlin/marlin_pc/data_structures.rs name=Commitment
//@struct file=poly-commit/src/marlin/marlin_pc/data_structures.rs name=VerifierKey
//@struct file=poly-commit/src/marlin/marlin_pc/data_structures.rs name=CommitterKey

// ======================= specification (Marlin [CHMMVW20] sec. 6.1 / appendix: batching with degree bounds) =======================
// One challenge per commitment, one more per degree-bounded commitment, all squeezed successively from the sponge.
//@spec marlin_sched_spec
//@spec marlin_acc_spec
impl VerifierKey {
//@fn id=marlin_pc.VerifierKey.get_shift_power file=poly-commit/src/marlin/marlin_pc/data_structures.rs scope="impl<E: Pairing> VerifierKey<E>" name=get_shift_power props=C04,C10
    pub fn get_shift_power(&self, bound: usize) -> (r: Option<G1Affine>)
    requires
        shift_table_sorted(self),
    ensures
        (r is Some) == (shift_of(self, bound) is Some),        // name=marlin.get_shift_power.some_iff_bound_in_table props=C04
        r is Some ==> r->Some_0@ == shift_of(self, bound)->Some_0,   // name=marlin.get_shift_power.returns_the_entry_of_that_bound props=C04,C10
//@body
//@rw 1 /v\.binary_search_by\(\|\(d, _\)\| d\.cmp\(&bound\)\)/ => binary_search_by_bound(v, bound)
//@closure |v| => |v: &Vec<(usize, G1Affine)>| -> (o: Option<G1Affine>)
            requires shift_table_sorted_v(v@)
            ensures (o is Some) == (exists|i: int| 0 <= i < v@.len() && v@[i].0 == bound),
                    o is Some ==> (exists|i: int| 0 <= i < v@.len() && v@[i].0 == bound && o->Some_0 == v@[i].1)
//@closure |i| => |i: usize| -> (g: G1Affine) requires i < v@.len() ensures g == v@[i as int].1
//@end
}
pub open spec fn shift_table_sorted_v(v: Seq<(usize, G1Affine)>) -> bool { forall|i: int, j: int| 0 <= i < j < v.len() ==> v[i].0 < v[j].0 }
// R9: `v.binary_search_by(|(d, _)| d.cmp(&bound))` with the std-documented contract, specialised to this key type
#[verifier::external_body]
pub fn binary_search_by_bound(v: &Vec<(usize, G1Affine)>, bound: usize) -> (r: Result<usize, usize>)
    requires shift_table_sorted_v(v@)
    ensures r is Ok ==> r->Ok_0 < v@.len() && v@[r->Ok_0 as int].0 == bound,
            r is Err ==> forall|i: int| 0 <= i < v@.len() ==> v@[i].0 != bound,
{ unimplemented!() }

pub struct Marlin;
impl Marlin {
//@fn id=marlin.accumulate_commitments_and_values file=poly-commit/src/marlin/mod.rs scope="impl<E, P, PC> Marlin<E, P, PC>" name=accumulate_commitments_and_values props=C10,C04,C11,C02
    fn accumulate_commitments_and_values<'a>(commitments: Vec<&'a LabeledCommitment<Commitment>>, values: Vec<Fr>, sponge: &mut Sponge, vk: Option<&VerifierKey>) -> (res: Result<(G1, Fr), Error>)
    requires
        vk is Some ==> shift_table_sorted(vk->Some_0),
    ensures
        // without a key (the PST13 caller passes None) no commitment may carry a degree bound: `vk.unwrap()` aborts
        res is Ok && vk is None ==> forall|j: int| 0 <= j < min(commitments@.len(), values@.len()) ==> (#[trigger] commitments@[j]).degree_bound is None,   // name=marlin.accumulate.no_key_no_degree_bounds props=C04,C17
        res is Ok ==> res->Ok_0.0@ == acc_c(commitments@, values@, vk->Some_0, old(sponge).st@, min(commitments@.len(), values@.len())),   // name=marlin.accumulate.combined_commitment props=C10,C04,C02
        res is Ok ==> res->Ok_0.1@ == acc_v(commitments@, values@, old(sponge).st@, min(commitments@.len(), values@.len())),                // name=marlin.accumulate.combined_value props=C10,C02
        res is Ok ==> final(sponge).st@ == sp_iter(old(sponge).st@, nsq(commitments@, min(commitments@.len(), values@.len()))),            // name=marlin.accumulate.squeeze_schedule props=C11
        res is Ok ==> bounds_supported(commitments@, vk->Some_0, min(commitments@.len(), values@.len())),                                    // name=marlin.accumulate.unsupported_bound_is_err props=C04
        res is Ok ==> forall|j: int| 0 <= j < min(commitments@.len(), values@.len()) ==> (#[trigger] commitments@[j]).degree_bound.is_some() == commitments@[j].commitment.shifted_comm.is_some(),   // name=marlin.accumulate.bound_and_shifted_commitment_agree props=C04
//@body
//@rw * /\bvk\s*\.unwrap\(\)/ => vk.unwrap_abort()
//@loop 1 kw=for name=it
          invariant
            it.index@ <= min(commitments@.len(), values@.len()), vk is Some ==> shift_table_sorted(vk->Some_0),
            vk is None ==> forall|j: int| 0 <= j < it.index@ ==> (#[trigger] commitments@[j]).degree_bound is None,
            sponge.st@ == sp_iter(old(sponge).st@, nsq(commitments@, it.index@ as nat)),
            combined_comm@ == acc_c(commitments@, values@, vk->Some_0, old(sponge).st@, it.index@ as nat),
            combined_value@ == acc_v(commitments@, values@, old(sponge).st@, it.index@ as nat),
            bounds_supported(commitments@, vk->Some_0, it.index@ as nat),
            forall|j: int| 0 <= j < it.index@ ==> (#[trigger] commitments@[j]).degree_bound.is_some() == commitments@[j].commitment.shifted_comm.is_some(),
//@before /let degree_bound = labeled_commitment\.degree_bound\(\);/
            proof { reveal_with_fuel(sp_iter, 3); }
//@end
}

pub struct MarlinKZG10;
impl MarlinKZG10 {
//@fn id=marlin_pc.check file=poly-commit/src/marlin/marlin_pc/mod.rs scope="impl<E, P> PolynomialCommitment<E::ScalarField, P> for MarlinKZG10<E, P>" name=check props=C10,C02,C04,C11
    fn check<'a>(vk: &VerifierKey, commitments: Vec<&'a LabeledCommitment<Commitment>>, point: &'a Fr, values: Vec<Fr>, proof: &kzg10::Proof, sponge: &mut Sponge, _rng: Option<&mut Rng>) -> (res: Result<bool, Error>)
    requires
        shift_table_sorted(vk),
    ensures
        // the decision is the KZG relation on the accumulated commitment and value
        res is Ok ==> res->Ok_0 == kzg10::kzg_relation_raw(&vk.vk, acc_c(commitments@, values@, vk, old(sponge).st@, min(commitments@.len(), values@.len())), *point,
                                        acc_v(commitments@, values@, old(sponge).st@, min(commitments@.len(), values@.len())), proof),   // name=marlin_pc.check.relation props=C10,C02,C04
        res is Ok ==> final(sponge).st@ == sp_iter(old(sponge).st@, nsq(commitments@, min(commitments@.len(), values@.len()))),   // name=marlin_pc.check.squeeze_schedule props=C11
        res is Ok ==> bounds_supported(commitments@, vk, min(commitments@.len(), values@.len())),   // name=marlin_pc.check.unsupported_bound_is_err props=C04
//@body
//@end
}

// ======================= committer key (C04, C08, C09) =======================
// R: `Cow::from(&[T])` (`.into()` on a slice) -- same sequence
#[verifier::external_body] pub fn cow_from_slice(s: &[G1Affine]) -> (r: Vec<G1Affine>) ensures r@ == s@ { unimplemented!() }
pub open spec fn ck_wf(ck: &CommitterKey) -> bool {
    ck.powers@.len() >= 1
    && (ck.shifted_powers is Some ==> (ck.enforced_degree_bounds is Some && ck.enforced_degree_bounds->Some_0@.len() > 0
        && sorted_usize(ck.enforced_degree_bounds->Some_0@)
        && ck.enforced_degree_bounds->Some_0@.last() <= ck.shifted_powers->Some_0@.len()))
}
impl CommitterKey {
//@fn id=marlin_pc.CommitterKey.powers file=poly-commit/src/marlin/marlin_pc/data_structures.rs scope="impl<E: Pairing> CommitterKey<E>" name=powers props=C08,C09
    pub fn powers<'a>(&'a self) -> (r: kzg10::Powers)
    ensures
        r.powers_of_g@ == self.powers@,                       // name=marlin_pc.ck.powers.plain_powers props=C08,C09
        r.powers_of_gamma_g@ == self.powers_of_gamma_g@,      // name=marlin_pc.ck.powers.gamma_powers props=C08,C09
//@body
//@rw 2 /(self\.\w+)\.as_slice\(\)\.into\(\)/ => cow_from_slice(\1.as_slice())
//@end

//@fn id=marlin_pc.CommitterKey.shifted_powers file=poly-commit/src/marlin/marlin_pc/data_structures.rs scope="impl<E: Pairing> CommitterKey<E>" name=shifted_powers props=C04,C08,C09
    pub fn shifted_powers<'a>(&'a self, degree_bound: Option<usize>) -> (r: Option<kzg10::Powers>)
    requires
        ck_wf(self),
    ensures
        (r is Some) == (self.shifted_powers is Some),
        // the window for bound d starts at (largest enforced bound - d): committing a degree-<=d polynomial under it lands on the top powers
        (r is Some && degree_bound is Some) ==> (self.enforced_degree_bounds->Some_0@.contains(degree_bound->Some_0)
            && r->Some_0.powers_of_g@ == self.shifted_powers->Some_0@.subrange(self.enforced_degree_bounds->Some_0@.last() - degree_bound->Some_0, self.shifted_powers->Some_0@.len() as int)),   // name=marlin_pc.ck.shifted_powers.window_start props=C04,C08
        (r is Some && degree_bound is None) ==> r->Some_0.powers_of_g@ =~= self.shifted_powers->Some_0@,   // name=marlin_pc.ck.shifted_powers.full_window props=C04
        r is Some ==> r->Some_0.powers_of_gamma_g@ == self.powers_of_gamma_g@,   // name=marlin_pc.ck.shifted_powers.gamma_powers props=C08
//@body
//@rw 1 /degree_bound\.into\(\)/ => degree_bound
//@rw 1 /assert!\(self\s*\.enforced_degree_bounds\s*\.as_ref\(\)\s*\.unwrap\(\)\s*\.contains\(&degree_bound\)\)/ => rassert!(contains_usize(self.enforced_degree_bounds.as_ref().unwrap().as_slice(), &degree_bound))
//@rw 1 /\(&shifted_powers\[powers_range\]\)\.into\(\)/ => cow_from_slice(&shifted_powers[powers_range])
//@rw 1 /self\.powers_of_gamma_g\.as_slice\(\)\.into\(\)/ => cow_from_slice(self.powers_of_gamma_g.as_slice())
//@closure |shifted_powers| => |shifted_powers: &Vec<G1Affine>| -> (o: kzg10::Powers)
            requires ck_wf(self), self.shifted_powers is Some, *shifted_powers == self.shifted_powers->Some_0
            ensures degree_bound is Some ==> (self.enforced_degree_bounds->Some_0@.contains(degree_bound->Some_0)
                        && o.powers_of_g@ == shifted_powers@.subrange(self.enforced_degree_bounds->Some_0@.last() - degree_bound->Some_0, shifted_powers@.len() as int)),
                    degree_bound is None ==> o.powers_of_g@ =~= shifted_powers@,
                    o.powers_of_gamma_g@ == self.powers_of_gamma_g@
//@end

//@fn id=marlin_pc.CommitterKey.supported_degree file=poly-commit/src/marlin/marlin_pc/data_structures.rs scope="impl<E: Pairing> PCCommitterKey for CommitterKey<E>" name=supported_degree props=C09
    pub fn supported_degree(&self) -> (r: usize)
    requires
        self.powers@.len() >= 1,
    ensures
        r == self.powers@.len() - 1,   // name=marlin_pc.ck.supported_degree.truthful props=C09
//@body
//@end
}

//@lemma props=C02
// C02 for MarlinKZG10::check without degree bounds: two value vectors that differ at position i only and are both accepted (postcondition marlin_pc.check.relation)
// agree at i, provided the challenge of that position is non-zero.  (With degree bounds the combined commitment depends on the values as well: not covered.)
pub proof fn lemma_marlin_check_value_unique_at(vk: &VerifierKey, cs: Seq<&LabeledCommitment<Commitment>>, point: Fr, vs: Seq<Fr>, vs2: Seq<Fr>, pr: &kzg10::Proof, s: SS, i: int)
    requires vk.vk.g@ != f_zero(), vk.vk.h@ != f_zero(), vs.len() == vs2.len(), 0 <= i < min(cs.len(), vs.len()),
        forall|j: int| 0 <= j < min(cs.len(), vs.len()) ==> (#[trigger] cs[j]).degree_bound is None,
        forall|j: int| 0 <= j < min(cs.len(), vs.len()) && j != i ==> vs[j]@ == vs2[j]@,
        sp_chal(s, nsq(cs, i as nat)) != f_zero(),
        kzg10::kzg_relation_raw(&vk.vk, acc_c(cs, vs, vk, s, min(cs.len(), vs.len())), point, acc_v(cs, vs, s, min(cs.len(), vs.len())), pr),
        kzg10::kzg_relation_raw(&vk.vk, acc_c(cs, vs2, vk, s, min(cs.len(), vs.len())), point, acc_v(cs, vs2, s, min(cs.len(), vs.len())), pr),
    ensures vs[i]@ == vs2[i]@
{
    let n = min(cs.len(), vs.len());
    lemma_acc_c_no_bounds(cs, vs, Some(vk), s, n); lemma_acc_c_no_bounds(cs, vs2, Some(vk), s, n);
    kzg10::lemma_kzg_raw_value_unique(&vk.vk, acc_c0(cs, s, n), point, acc_v(cs, vs, s, n), acc_v(cs, vs2, s, n), pr);
    lemma_acc_v_unique_at(cs, vs, vs2, s, n, i);
}
