// Ligero matrix dimensions and coefficient-matrix construction (C19, C17, C01)
//@use core ops_gen sponge std real
//@spec lc_utils_spec
//@typemap /::<F>\(/ => (
//@typemap /\bF::/ => Fr::
//@typemap /Matrix<F>/ => Matrix
//@typemap /Self::LinCodePCParams/ => LigeroPCParams
//@enum file=poly-commit/src/error.rs name=Error derive=Debug
#[verifier::external_body] pub fn modulus_bit_size() -> (r: u32) ensures r == MBS(), 0 < r < 0x4000_0000 { unimplemented!() }
//@stub from=lc_utils.rs id=lc_utils.calculate_t
//@stub from=lc_utils.rs id=utils.ceil_div
// the parameter object (only the fields used here; the hash parameters are irrelevant to the dimensions)
pub struct LigeroPCParams { pub sec_param: usize, pub rho_inv: usize, pub check_well_formedness: bool }
// utils::Matrix constructors / accessors: taken by contract here (row-major layout)
pub struct Matrix { pub n: usize, pub m: usize, pub entries: Vec<Vec<Fr>> }
impl Matrix {
    #[verifier::external_body] pub fn new_from_flat(n: usize, m: usize, entry_list: &[Fr]) -> (r: Matrix)
        ensures entry_list@.len() == n * m, r.n == n, r.m == m, r.entries@.len() == n { unimplemented!() }
    #[verifier::external_body] pub fn new_from_rows(row_list: Vec<Vec<Fr>>) -> (r: Matrix)
        ensures row_list@.len() > 0, r.n == row_list@.len(), r.entries@ == row_list@ { unimplemented!() }
    #[verifier::external_body] pub fn rows(&self) -> (r: Vec<Vec<Fr>>) ensures r@ == self.entries@ { unimplemented!() }
}
// t >= 1 whenever the parameters are usable (so the division by t below is defined)
pub proof fn lemma_t_star_pos(sec_param: int, d: (usize, usize), n: int)
    requires t_params_ok(sec_param, d, n), sec_param >= 0, n >= 0
    ensures t_star(sec_param, d, n) >= 1
{
    let x = t_base(d); let r_ = t_residual(sec_param, n);
    ax_log_one(); broadcast use ax_log_mono;
    ax_pow2_le_one(-sec_param); ax_pow_pos(2real, MBS() as int);
    assert((n as real) / r_pow(2real, MBS() as int) >= 0real) by (nonlinear_arith) requires n >= 0, r_pow(2real, MBS() as int) > 0real;
    assert(r_ <= 1real);
    assert(r_log2(r_) <= r_log2(1real));
    let d0 = d.0 as real; let d1 = d.1 as real;
    assert(d0 / (2real * d1) >= 0real) by (nonlinear_arith) requires d0 >= 0real, d1 > 0real;
    assert(x <= 1real);
    assert(r_log2(x) <= r_log2(1real));
    let nom = r_log2(r_) - 1real; let den = r_log2(x);
    assert(nom / den > 0real) by (nonlinear_arith) requires nom < 0real, den < 0real;
    ax_ceil(nom / den);
}
pub open spec fn is_p2(n: nat) -> bool { exists|k: nat| n == p2(k) }
pub proof fn lemma_p2_is_pow2(k: nat) ensures p2(k) == vstd::arithmetic::power2::pow2(k) decreases k
{ if k > 0 { lemma_p2_is_pow2((k - 1) as nat); vstd::arithmetic::power2::lemma_pow2_unfold(k); } else { vstd::arithmetic::power2::lemma2_to64(); } }
pub proof fn lemma_p2_mono(a: nat, b: nat) requires a <= b ensures p2(a) <= p2(b) decreases b
{ if a < b { lemma_p2_mono(a, (b - 1) as nat); } }
// what the rounding `1 << log2(s)` yields for 1 <= s <= 2^50: a power of two in [s, 2s)
pub proof fn lemma_round_up(sv: int, r: u32)
    requires 1 <= sv <= 0x4_0000_0000_0000, r <= 64, sv <= p2(r as nat), sv > 1 ==> p2((r - 1) as nat) < sv, sv <= 1 ==> r == 0
    ensures r < 60, (1usize << r) == p2(r as nat), p2(r as nat) >= 1, p2(r as nat) < 0x1000_0000_0000_0000
{
    lemma_p2_is_pow2(r as nat); vstd::arithmetic::power2::lemma2_to64();
    if r >= 52 { lemma_p2_mono(51, (r - 1) as nat); lemma_p2_is_pow2(51); assert(vstd::arithmetic::power2::pow2(51) == 0x8_0000_0000_0000) by { vstd::arithmetic::power2::lemma2_to64_rest(); } }
    vstd::arithmetic::power2::lemma_pow2_strictly_increases(r as nat, 60); vstd::arithmetic::power2::lemma2_to64_rest();
    vstd::arithmetic::power2::lemma_pow2_pos(r as nat);
    vstd::bits::lemma_usize_shl_is_mul(1usize, r as usize);
}

impl LigeroPCParams {
    pub fn sec_param(&self) -> (r: usize) ensures r == self.sec_param { self.sec_param }
//@fn id=ligero.distance file=poly-commit/src/linear_codes/ligero.rs scope="impl<F, C, H> LinCodeParametersInfo<C, H> for LigeroPCParams<F, C, H>" name=distance props=C13
    pub fn distance(&self) -> (r: (usize, usize))
    requires
        self.rho_inv >= 1,
    ensures
        r == ((self.rho_inv - 1) as usize, self.rho_inv),   // name=ligero.distance.reed_solomon_relative_distance props=C13
//@body
//@end

//@fn id=ligero.compute_dimensions file=poly-commit/src/linear_codes/ligero.rs scope="impl<F, C, H> LinCodeParametersInfo<C, H> for LigeroPCParams<F, C, H>" name=compute_dimensions props=C19,C17
    pub fn compute_dimensions(&self, poly_len: usize) -> (r: (usize, usize))
    requires
        self.rho_inv >= 1, self.sec_param <= 0x7fff_ffff,
        poly_len > 0,                      // an empty coefficient vector makes t = 0 and ceil_div(0, 0) aborts (finding F7)
        poly_len < 0x1_0000_0000_0000,     // keeps 2 * poly_len + t and the power-of-two rounding inside usize
        t_params_ok(self.sec_param as int, ((self.rho_inv - 1) as usize, self.rho_inv), poly_len as int),   // otherwise calculate_t(..).unwrap() aborts
    ensures
        is_p2(r.0 as nat),                                             // name=ligero.compute_dimensions.columns_power_of_two props=C19
        r.0 < 0x1000_0000_0000_0000,
        r.0 * r.1 >= poly_len, r.1 >= 1, (r.1 - 1) * r.0 < poly_len,   // name=ligero.compute_dimensions.least_row_count_covering_the_polynomial props=C19
        // balance: n is the power of two just above sqrt(ceil(2N/t)): n^2 >= ceil(2N/t) and (n/2)^2 < ceil(2N/t) + ... (n < 2*ceil(sqrt(.)))
        (r.0 as real) * (r.0 as real) >= ((2 * poly_len + t_value(self.sec_param as int, ((self.rho_inv - 1) as usize, self.rho_inv), poly_len as int) - 1) / t_value(self.sec_param as int, ((self.rho_inv - 1) as usize, self.rho_inv), poly_len as int)) as real,   // name=ligero.compute_dimensions.square_covers_2N_over_t props=C19
//@body
//@r8
//@rw * /calculate_t\((.*)\)\.unwrap\(\)/ => calculate_t(\1).unwrap_abort()
//@rw * /\bark_std::log2\(|\blog2\(/ => log2_ceil(
//@rw * /let n = 1 << /  => let n: usize = 1usize << 
//@before /let n = 1 << /
        let ghost c0 = ((2 * poly_len + t - 1) / (t as int));
        proof {
            lemma_t_star_pos(self.sec_param as int, ((self.rho_inv - 1) as usize, self.rho_inv), poly_len as int);
            assert(t >= 1);
            assert(c0 >= 1 && c0 <= 2 * poly_len) by (nonlinear_arith) requires c0 == (2 * poly_len + t - 1) / (t as int), t >= 1, poly_len >= 1;
            ax_sqrt(c0 as real); ax_ceil(r_sqrt(c0 as real)); ax_ceil_int(r_ceil(r_sqrt(c0 as real)));
            let s = r_ceil(r_sqrt(c0 as real));
            // s >= 1 and s <= c0 (sqrt(x) <= x for x >= 1), so the rounding below stays far inside usize
            assert(s >= 1 && s <= c0 + 1) by (nonlinear_arith) requires (s as real) >= r_sqrt(c0 as real), (s as real) < r_sqrt(c0 as real) + 1real, r_sqrt(c0 as real) * r_sqrt(c0 as real) == c0 as real, r_sqrt(c0 as real) >= 0real, c0 >= 1;
            assert forall|r: u32| (r <= 64 && s <= #[trigger] p2(r as nat) && (s > 1 ==> p2((r - 1) as nat) < s) && (s <= 1 ==> r == 0))
                implies r < 60 && (1usize << r) == p2(r as nat) && p2(r as nat) >= 1 && p2(r as nat) < 0x1000_0000_0000_0000 by { lemma_round_up(s, r); }
        }
//@after /let n = 1 << /
        proof {
            let s = r_ceil(r_sqrt(c0 as real));
            assert(n >= s && is_p2(n as nat));
            assert((n as real) * (n as real) >= c0 as real) by (nonlinear_arith)
                requires (n as real) >= (s as real), (s as real) >= r_sqrt(c0 as real), r_sqrt(c0 as real) * r_sqrt(c0 as real) == c0 as real, r_sqrt(c0 as real) >= 0real;
        }
//@after /let m = ceil_div\(poly_len, n\);/
        proof {
            assert(m >= 1) by (nonlinear_arith) requires m * n >= poly_len, poly_len >= 1, n >= 1;
        }
//@end
}

// ---- LinearEncode::compute_matrices (default method): arranges poly_to_vec(p) into an n x m matrix and encodes the rows
#[verifier::external_body] pub struct PolyAbs { _x: u8 }
pub uninterp spec fn poly_to_vec_spec(p: &PolyAbs) -> Seq<FS>;
pub uninterp spec fn encode_row_spec(row: Seq<FS>, p: &LigeroPCParams) -> Seq<FS>;
pub struct LinearEncodeImpl;
impl LinearEncodeImpl {
    #[verifier::external_body] fn poly_to_vec(polynomial: &PolyAbs) -> (r: Vec<Fr>) ensures fviews(r@) == poly_to_vec_spec(polynomial) { unimplemented!() }
    #[verifier::external_body] fn encode(msg: &Vec<Fr>, param: &LigeroPCParams) -> (r: Result<Vec<Fr>, Error>) ensures r is Ok ==> fviews(r->Ok_0@) == encode_row_spec(fviews(msg@), param) { unimplemented!() }
//@fn id=linear_codes.compute_matrices file=poly-commit/src/linear_codes/mod.rs scope="pub trait LinearEncode<F, C, P, H>" name=compute_matrices props=C17,C01,C19
    fn compute_matrices(polynomial: &PolyAbs, param: &LigeroPCParams) -> (r: (Matrix, Matrix))
    requires
        param.rho_inv >= 1, param.sec_param <= 0x7fff_ffff,
        poly_to_vec_spec(polynomial).len() < 0x1_0000_0000_0000,
        // the security parameters must be usable for the number of coefficients laid out (the zero polynomial is laid out as ONE zero coefficient)
        t_params_ok(param.sec_param as int, ((param.rho_inv - 1) as usize, param.rho_inv), (if poly_to_vec_spec(polynomial).len() == 0 { 1int } else { poly_to_vec_spec(polynomial).len() as int })),
        // NOTE: no requirement that the coefficient vector is non-empty: the zero polynomial is an in-domain request (C17; finding F7, fixed)
    ensures
        r.0.n * r.0.m >= poly_to_vec_spec(polynomial).len(), r.0.n * r.0.m >= 1,   // name=linear_codes.compute_matrices.matrix_holds_all_coefficients props=C01,C19,C17
        is_p2(r.0.n as nat),
        r.1.n == r.0.n,                                         // name=linear_codes.compute_matrices.encoded_matrix_has_same_row_count props=C19
//@body
//@rw * /coeffs\.resize\(n_rows \* n_cols, F::zero\(\)\);/ => vec_resize_fr(&mut coeffs, n_rows * n_cols, Fr::zero());
//@rw * /Self::encode\(r, param\)\.unwrap\(\)/ => Self::encode(r, param).unwrap_abort()
//@closure |r| => |r: &Vec<Fr>| -> (e: Vec<Fr>) ensures fviews(e@) == encode_row_spec(fviews(r@), param)
//@before /coeffs\.resize\(/
        proof { assert(n_rows * n_cols < 0x1000_0000_0000_0000 + 0x1_0000_0000_0000) by (nonlinear_arith) requires (n_cols - 1) * n_rows < 0x1_0000_0000_0000, n_rows < 0x1000_0000_0000_0000, n_cols >= 1; }
//@end
}
// R: Vec::resize(new_len, value)
#[verifier::external_body] pub fn vec_resize_fr(v: &mut Vec<Fr>, new_len: usize, value: Fr)
    ensures final(v)@.len() == new_len, forall|i: int| 0 <= i < new_len ==> (#[trigger] final(v)@[i]) == (if i < old(v)@.len() { old(v)@[i] } else { value })
{ unimplemented!() }
