// streaming_kzg: time-efficient prover (commit, open), helpers msm / powers, init_stack  (C14, C01, C08)
//@use core ops_gen
//@spec ring
//@typemap /<E>/ => 
//@typemap /\bmsm::<E>\(/ => msm_(
//@typemap /\bF::/ => Fr::
pub mod streaming_kzg {
    use super::*;
//@struct file=poly-commit/src/streaming_kzg/mod.rs name=Commitment
//@struct file=poly-commit/src/streaming_kzg/mod.rs name=EvaluationProof
//@struct file=poly-commit/src/streaming_kzg/time.rs name=CommitterKey

//@fn id=streaming.msm file=poly-commit/src/streaming_kzg/mod.rs scope=top name=msm props=C14,C08
    pub fn msm_(bases: &[G1Affine], scalars: &[Fr]) -> (r: G1Affine)
    ensures
        r@ == msm(bases@, fviews(scalars@), min(bases@.len(), scalars@.len())),   // name=streaming.msm.value props=C14,C08
//@body
//@closure |x| => |x: &Fr| -> (b: BigInt) ensures b@ == x@
//@after start
        let ghost scalars_in = scalars@;
//@after /let scalars =/
        proof { assert(bviews(scalars@) =~= fviews(scalars_in)); }
//@end

//@fn id=streaming.powers file=poly-commit/src/streaming_kzg/mod.rs scope=top name=powers props=C14
    pub fn powers(element: Fr, len: usize) -> (r: Vec<Fr>)
    ensures
        r@.len() == len,
        forall|i: int| 0 <= i < len ==> (#[trigger] r@[i])@ == f_pow(element@, i as nat),   // name=streaming.powers.consecutive_powers props=C14
//@body
//@rw 1 /vec!\[F::one\(\); len\]/ => vec_one(len)
//@rw 1 /powers\[i\] = element \* powers\[i - 1\];/ => powers.set(i, element * powers[i - 1]);
//@loop 1 kw=for name=it
            invariant powers@.len() == len, it.index@ <= len || len == 0,
                forall|j: int| 0 <= j < len ==> (j <= it.index@ ==> (#[trigger] powers@[j])@ == f_pow(element@, j as nat)),
                forall|j: int| it.index@ < j < len ==> (#[trigger] powers@[j])@ == f_one(),
//@loopstart 1
            proof { broadcast use ax_mul_comm; }
//@end
    // `v.iter().take(n)`: the first min(n, len) elements
    #[verifier::external_body] pub fn slice_take(v: &Vec<Fr>, n: usize) -> (r: &[Fr]) ensures r@.len() == (if n <= v@.len() { n as nat } else { v@.len() }), forall|i: int| 0 <= i < r@.len() ==> r@[i] == v@[i] { unimplemented!() }
    // R: `vec![F::one(); len]`
    #[verifier::external_body] pub fn vec_one(len: usize) -> (r: Vec<Fr>) ensures r@.len() == len, forall|i: int| 0 <= i < len ==> (#[trigger] r@[i])@ == f_one() { unimplemented!() }

    // ---- Horner synthetic division (oracle): h_k = p[n-k] + alpha * h_{k-1},  h_0 = 0.
    //      h_n = p(alpha);  the quotient (p(X) - p(alpha)) / (X - alpha) has coefficients q_i = h_{n-1-i}
    pub open spec fn horner(p: Seq<FS>, a: FS, k: nat) -> FS decreases k {
        if k == 0 { f_zero() } else { f_add(p[p.len() - k], f_mul(horner(p, a, (k - 1) as nat), a)) }
    }
    // peval with the lowest coefficient split off:  p(x) = c[0] + x * (c[1..])(x)
    pub proof fn lemma_peval_front(c: Seq<FS>, x: FS, n: nat)
        requires 1 <= n <= c.len()
        ensures peval(c, x, n) == f_add(c[0], f_mul(peval(c.subrange(1, c.len() as int), x, (n - 1) as nat), x))
        decreases n
    {
        let t = c.subrange(1, c.len() as int);
        if n == 1 {
            assert(peval(c, x, 0) == f_zero());
            assert(peval(t, x, 0) == f_zero());
            lemma_mul_zero(x);
            broadcast use ax_mul_one, ax_add_zero, ax_add_comm;
            assert(f_pow(x, 0) == f_one());
        } else {
            lemma_peval_front(c, x, (n - 1) as nat);
            assert(t[n - 2] == c[n - 1]);
            // p_n = p_{n-1} + c[n-1] x^{n-1};  t_{n-1} = t_{n-2} + c[n-1] x^{n-2}
            let a = c[0]; let tp = peval(t, x, (n - 2) as nat); let cn = c[n - 1]; let xp = f_pow(x, (n - 2) as nat);
            assert(f_pow(x, (n - 1) as nat) == f_mul(xp, x));
            assert(f_mul(f_add(tp, f_mul(cn, xp)), x) == f_add(f_mul(tp, x), f_mul(cn, f_mul(xp, x)))) by {
                broadcast use ax_mul_comm, ax_distrib, ax_mul_assoc;
            }
            broadcast use ax_add_assoc;
        }
    }
    // Horner's value after all n steps is the evaluation
    pub proof fn lemma_horner_is_eval(p: Seq<FS>, a: FS, k: nat)
        requires k <= p.len()
        ensures horner(p, a, k) == peval(p.subrange(p.len() - k, p.len() as int), a, k)
        decreases k
    {
        if k > 0 {
            lemma_horner_is_eval(p, a, (k - 1) as nat);
            let s = p.subrange(p.len() - k, p.len() as int);
            lemma_peval_front(s, a, k);
            assert(s.subrange(1, s.len() as int) =~= p.subrange(p.len() - (k - 1), p.len() as int));
        }
    }

    impl CommitterKey {
//@fn id=streaming.time.new file=poly-commit/src/streaming_kzg/time.rs scope="impl<E: Pairing> CommitterKey<E>" name=new props=C09,C14
        pub fn new(max_degree: usize, max_eval_points: usize, rng: &mut Rng) -> (r: Self)
        requires
            max_degree < usize::MAX, max_eval_points < usize::MAX,
        ensures
            // trapdoor form: tau, G and H are the first three draws of the caller's RNG
            r.powers_of_g@.len() == max_degree + 1,
            forall|i: int| 0 <= i <= max_degree ==> (#[trigger] r.powers_of_g@[i])@ == f_mul(draw(old(rng).id@, old(rng).pos@ + 1), f_pow(draw(old(rng).id@, old(rng).pos@), i as nat)),   // name=streaming.time.new.g1_powers_of_tau props=C09,C14
            r.powers_of_g2@.len() == (if max_eval_points <= max_degree { max_eval_points + 1 } else { max_degree + 1 }),
            forall|i: int| 0 <= i < r.powers_of_g2@.len() ==> (#[trigger] r.powers_of_g2@[i])@ == f_mul(draw(old(rng).id@, old(rng).pos@ + 2), f_pow(draw(old(rng).id@, old(rng).pos@), i as nat)),   // name=streaming.time.new.g2_powers_of_tau props=C09,C14
//@body
//@rw 1 /E::ScalarField::rand\(rng\)/ => Fr::rand(rng)
//@rw 1 /E::G1::rand\(rng\)/ => G1::rand(rng)
//@rw 1 /E::G2::rand\(rng\)/ => G2::rand(rng)
//@rw 1 /(?s)powers_of_tau\s*\.iter\(\)\s*\.take\(max_eval_points \+ 1\)/ => slice_take(&powers_of_tau, max_eval_points + 1).iter()
//@closure |t| => |t: &Fr| -> (o: G2Affine) ensures o@ == f_mul(g2@, t@)
//@end
//@fn id=streaming.time.commit file=poly-commit/src/streaming_kzg/time.rs scope="impl<E: Pairing> CommitterKey<E>" name=commit props=C14,C08,C01,C19
        pub fn commit(&self, polynomial: &[Fr]) -> (r: Commitment)
        ensures
            r.0@ == msm(self.powers_of_g@, fviews(polynomial@), min(self.powers_of_g@.len(), polynomial@.len())),   // name=streaming.time.commit.value props=C14,C08,C19
//@body
//@end

//@fn id=streaming.time.batch_commit file=poly-commit/src/streaming_kzg/time.rs scope="impl<E: Pairing> CommitterKey<E>" name=batch_commit props=C14,C08
        pub fn batch_commit(&self, polynomials: Vec<&Vec<Fr>>) -> (r: Vec<Commitment>)
        ensures
            r@.len() == polynomials@.len(),   // name=streaming.time.batch_commit.one_commitment_per_polynomial props=C14
            forall|i: int| 0 <= i < polynomials@.len() ==> (#[trigger] r@[i]).0@ == msm(self.powers_of_g@, fviews(polynomials@[i]@), min(self.powers_of_g@.len(), polynomials@[i]@.len())),   // name=streaming.time.batch_commit.each_is_the_commitment_of_its_polynomial props=C14,C08
//@body
//@rw 1 /p\.borrow\(\)/ => p.as_slice()
//@rw 1 /\.collect::<Vec<_>>\(\)/ => .collect::<Vec<Commitment>>()
//@closure |p| => |p: &Vec<Fr>| -> (o: Commitment) ensures o.0@ == msm(self.powers_of_g@, fviews(p@), min(self.powers_of_g@.len(), p@.len()))
//@end
//@fn id=streaming.time.open file=poly-commit/src/streaming_kzg/time.rs scope="impl<E: Pairing> CommitterKey<E>" name=open props=C14,C01,C19
        pub fn open(&self, polynomial: &[Fr], evalualtion_point: &Fr) -> (r: (Fr, EvaluationProof))
        ensures
            r.0@ == peval(fviews(polynomial@), evalualtion_point@, polynomial@.len()),   // name=streaming.time.open.evaluation_is_p_of_alpha props=C14,C01,C19
            exists|q: Seq<FS>| #![trigger q.len()] q.len() == (if polynomial@.len() == 0 { 0 } else { polynomial@.len() - 1 })
                && (forall|i: int| 0 <= i < q.len() ==> q[i] == horner(fviews(polynomial@), evalualtion_point@, (polynomial@.len() - 1 - i) as nat))
                && r.1.0@ == msm(self.powers_of_g@, q, min(self.powers_of_g@.len(), q.len())),   // name=streaming.time.open.proof_commits_to_horner_quotient props=C14,C01,C19
//@body
//@rw 1 /let mut quotient = Vec::new\(\);/ => let mut quotient: Vec<Fr> = Vec::new();
//@rw 1 /for &c in/ => for c__ in
//@rw 1 /(?s)let \(&evaluation, quotient\) = quotient\s*\.split_first\(\)\s*\.unwrap_or\(\(&E::ScalarField::zero\(\), &\[\]\)\);/ => let ghost q0 = quotient@; let (evaluation, quotient) = split_first_or_zero(&quotient);
//@loop 1 kw=for name=it
                invariant it.index@ <= polynomial@.len(), quotient@.len() == it.index@,
                    previous@ == horner(fviews(polynomial@), evalualtion_point@, it.index@ as nat),
                    forall|j: int| 0 <= j < it.index@ ==> (#[trigger] quotient@[j])@ == horner(fviews(polynomial@), evalualtion_point@, (it.index@ - j) as nat),
//@loopstart 1
                let c = *c__;
//@before /let evaluation_proof =/
            proof {
                let pv = fviews(polynomial@); let n = polynomial@.len();
                lemma_horner_is_eval(pv, evalualtion_point@, n);
                assert(pv.subrange(0, n as int) =~= pv);
                assert(fviews(quotient@).len() == (if n == 0 { 0 } else { n - 1 }));
            }
//@end
    }
    // R: `slice.split_first().unwrap_or((&zero, &[]))`
    #[verifier::external_body]
    pub fn split_first_or_zero(v: &Vec<Fr>) -> (r: (Fr, &[Fr]))
        ensures v@.len() == 0 ==> (r.0@ == f_zero() && r.1@.len() == 0),
                v@.len() > 0 ==> (r.0 == v@[0] && r.1@ == v@.subrange(1, v@.len() as int))
    { unimplemented!() }

    // ---- FoldedPolynomialTree stack initialisation: zero-valued placeholders that pad n up to a multiple of 2^k
    pub open spec fn stack_sum(st: Seq<(usize, Fr)>, k: nat) -> nat decreases k {
        if k == 0 { 0 } else { stack_sum(st, (k - 1) as nat) + vstd::arithmetic::power2::pow2(st[k - 1].0 as nat) }
    }
    pub proof fn lemma_stack_sum_ext(a: Seq<(usize, Fr)>, b: Seq<(usize, Fr)>, k: nat)
        requires k <= a.len(), k <= b.len(), forall|j: int| 0 <= j < k ==> a[j].0 == b[j].0
        ensures stack_sum(a, k) == stack_sum(b, k)
        decreases k
    { if k > 0 { lemma_stack_sum_ext(a, b, (k - 1) as nat); } }
//@fn id=streaming.init_stack file=poly-commit/src/streaming_kzg/data_structures.rs scope=top name=init_stack props=C14
    pub fn init_stack(n: usize, challenges_len: usize) -> (stack: Vec<(usize, Fr)>)
    requires
        challenges_len < 64,
    ensures
        forall|j: int| 0 <= j < stack@.len() ==> (#[trigger] stack@[j]).0 < challenges_len && stack@[j].1@ == f_zero(),   // name=streaming.init_stack.levels_in_range_values_zero props=C14
        forall|a: int, b: int| 0 <= a < b < stack@.len() ==> stack@[a].0 > stack@[b].0,                                      // name=streaming.init_stack.levels_strictly_decreasing props=C14
        (n as nat) % vstd::arithmetic::power2::pow2(challenges_len as nat) == 0 ==> stack@.len() == 0,
        (n as nat) % vstd::arithmetic::power2::pow2(challenges_len as nat) != 0 ==>
            stack_sum(stack@, stack@.len()) == vstd::arithmetic::power2::pow2(challenges_len as nat) - (n as nat) % vstd::arithmetic::power2::pow2(challenges_len as nat),   // name=streaming.init_stack.pads_to_next_multiple props=C14
//@body
//@rw 1 /let mut stack = Vec::with_capacity\(challenges_len\);/ => let mut stack: Vec<(usize, Fr)> = Vec::with_capacity(challenges_len);
//@rw 1 /let chunk_size = 1 << challenges_len;/ => let chunk_size: usize = 1 << challenges_len;
//@after /let chunk_size =/
        proof { vstd::arithmetic::power2::lemma_pow2_strictly_increases(challenges_len as nat, 64); vstd::arithmetic::power2::lemma2_to64(); vstd::arithmetic::power2::lemma_pow2_pos(challenges_len as nat); vstd::bits::lemma_usize_shl_is_mul(1usize, challenges_len); }
//@after /let (mut )?delta =/
        let ghost delta0 = delta as nat;
//@loop 1 kw=for name=it
                invariant challenges_len < 64, it.index@ <= challenges_len,
                    delta < vstd::arithmetic::power2::pow2((challenges_len - it.index@) as nat),
                    delta + stack_sum(stack@, stack@.len()) == delta0,
                    forall|j: int| 0 <= j < stack@.len() ==> (#[trigger] stack@[j]).0 < challenges_len && stack@[j].1@ == f_zero() && stack@[j].0 >= challenges_len - it.index@,
                    forall|a: int, b: int| 0 <= a < b < stack@.len() ==> stack@[a].0 > stack@[b].0,
//@loopstart 1
                proof {
                    assert(i == challenges_len - 1 - it.index@);
                    vstd::arithmetic::power2::lemma_pow2_strictly_increases(i as nat, 64); vstd::arithmetic::power2::lemma2_to64();
                    vstd::arithmetic::power2::lemma_pow2_pos(i as nat);
                    vstd::bits::lemma_usize_shl_is_mul(1usize, i);
                    vstd::arithmetic::power2::lemma_pow2_unfold((i + 1) as nat);
                    assert forall|z: Fr| stack_sum(stack@.push((i, z)), stack@.len() + 1) == stack_sum(stack@, stack@.len()) + vstd::arithmetic::power2::pow2(i as nat) by { lemma_stack_sum_ext(stack@.push((i, z)), stack@, stack@.len()); }
                }
//@end
}
