// linear_codes::utils::SprsMat (the sparse matrices of the Brakedown encoder, CSC format): row_mul  (C13, C08)
// Decided here for EVERY matrix satisfying the CSC representation invariant and every vector: `row_mul` returns one entry per column, entry j is the sum over the
// stored entries of column j of v[row] * value, and that map is linear in v (lemma).
// REWRITE, stated: the two nested iterator chains `(0..m).map(|j| { .. }).collect()` and `col_ind[ij].iter().zip(&val[ij]).map(|(&idx, x)| E).sum()` become index
// loops; the summand is the captured source expression E and the range bounds are the captured source expressions.  Slicing with an invalid range would abort in the
// source before the first summand; the representation invariant (a precondition here) excludes that.
//@use core ops_gen std
//@spec ring
//@typemap /<F: Field>/ => 
//@typemap /SprsMat<F>/ => SprsMat
//@typemap /Vec<F>/ => Vec<Fr>
//@typemap /&\[F\]/ => &[Fr]
//@typemap /&\[Vec<\(usize, F\)>\]/ => &[Vec<(usize, Fr)>]
//@typemap /Vec::<F>::/ => Vec::<Fr>::
//@struct file=poly-commit/src/linear_codes/utils.rs name=SprsMat
// CSC representation invariant: m + 1 monotone column pointers into the entry arrays, every stored row index below n
pub open spec fn sprs_wf(s: &SprsMat) -> bool {
    s.ind_ptr@.len() == s.m + 1 && s.col_ind@.len() == s.val@.len()
    && (forall|j: int| 0 <= j < s.m ==> #[trigger] s.ind_ptr@[j] <= s.ind_ptr@[j + 1])
    && (forall|j: int| 0 <= j <= s.m ==> #[trigger] s.ind_ptr@[j] <= s.val@.len())
    && (forall|k: int| 0 <= k < s.col_ind@.len() ==> #[trigger] s.col_ind@[k] < s.n)
}
// sum over the entries a .. a + k of the entry arrays:  sum v[row_t] * val_t
pub open spec fn sprs_sum(s: &SprsMat, v: Seq<FS>, a: int, k: nat) -> FS decreases k {
    if k == 0 { f_zero() } else { f_add(sprs_sum(s, v, a, (k - 1) as nat), f_mul(v[s.col_ind@[a + k - 1] as int], s.val@[a + k - 1]@)) }
}
// entry j of v * M
pub open spec fn sprs_col(s: &SprsMat, v: Seq<FS>, j: int) -> FS { sprs_sum(s, v, s.ind_ptr@[j] as int, (s.ind_ptr@[j + 1] - s.ind_ptr@[j]) as nat) }
impl SprsMat {
//@fn id=lc_utils.SprsMat.row_mul file=poly-commit/src/linear_codes/utils.rs scope="impl<F: Field> SprsMat<F>" name=row_mul props=C13,C08
    pub fn row_mul(&self, v: &[Fr]) -> (r: Vec<Fr>)
    requires
        sprs_wf(self), v@.len() >= self.n,
    ensures
        r@.len() == self.m,   // name=lc_utils.SprsMat.row_mul.one_entry_per_column props=C13,C08
        forall|j: int| 0 <= j < self.m ==> (#[trigger] r@[j])@ == sprs_col(self, fviews(v@), j),   // name=lc_utils.SprsMat.row_mul.entry_is_the_column_sum props=C13,C08
//@body
//@rw 1 /(?s)\(0\.\.([^()]*)\)\s*\.map\(\|j\| \{\s*let ij = (.*?)\.\.(.*?);\s*self\.col_ind\[ij\.clone\(\)\]\s*\.iter\(\)\s*\.zip\(&self\.val\[ij\]\)\s*\.map\(\|\(&idx, x\)\| (.*?)\)\s*\.sum::<F>\(\)\s*\}\)\s*\.collect::<Vec<_>>\(\)/ => { let mut out__: Vec<Fr> = Vec::new(); let hi__: usize = \1; for j in itj: 0..hi__ invariant sprs_wf(self), v@.len() >= self.n, hi__ <= self.m, out__@.len() == j, (forall|q: int| 0 <= q < j ==> (#[trigger] out__@[q])@ == sprs_col(self, fviews(v@), q)) { let a__: usize = \2; let b__: usize = \3; let mut acc__ = Fr::zero(); for k__ in itk: a__..b__ invariant sprs_wf(self), v@.len() >= self.n, 0 <= j < self.m, a__ == self.ind_ptr@[j as int], b__ == self.ind_ptr@[j + 1], a__ <= k__ <= b__, acc__@ == sprs_sum(self, fviews(v@), a__ as int, (k__ - a__) as nat) { let idx = self.col_ind[k__]; let x = &self.val[k__]; let t__ = \4; acc__ = acc__ + t__; } out__.push(acc__); } out__ }
//@end
}
#[verifier::external_body] pub fn vec_zero_usize(len: usize) -> (r: Vec<usize>) ensures r@.len() == len, forall|i: int| 0 <= i < len ==> #[trigger] r@[i] == 0 { unimplemented!() }   // vec![0; len]
// the first j input columns, one after the other
pub open spec fn flat(list: Seq<Vec<(usize, Fr)>>, j: nat) -> Seq<(usize, Fr)> decreases j { if j == 0 { Seq::empty() } else { flat(list, (j - 1) as nat) + list[j - 1]@ } }
pub proof fn lemma_flat_mono(list: Seq<Vec<(usize, Fr)>>, a: nat, b: nat) requires a <= b ensures flat(list, a).len() <= flat(list, b).len() decreases b
{ if a < b { lemma_flat_mono(list, a, (b - 1) as nat); } }
// entry t of column q sits at position |flat(q)| + t of every longer concatenation
pub proof fn lemma_flat_index(list: Seq<Vec<(usize, Fr)>>, m: nat, q: int, t: int)
    requires 0 <= q < m, 0 <= t < list[q]@.len()
    ensures flat(list, q as nat).len() + t < flat(list, m).len(), flat(list, m)[flat(list, q as nat).len() + t] == list[q]@[t]
    decreases m
{ if q < m - 1 { lemma_flat_index(list, (m - 1) as nat, q, t); } }
// every position of the concatenation belongs to some (column, offset)
pub open spec fn entry_at(list: Seq<Vec<(usize, Fr)>>, q: int, t: int, k: int) -> bool { 0 <= t < list[q]@.len() && k == flat(list, q as nat).len() + t }
pub proof fn lemma_entry_of(list: Seq<Vec<(usize, Fr)>>, m: nat, k: int)
    requires 0 <= k < flat(list, m).len()
    ensures exists|q: int, t: int| 0 <= q < m && #[trigger] entry_at(list, q, t, k)
    decreases m
{
    if m > 0 {
        if k < flat(list, (m - 1) as nat).len() { lemma_entry_of(list, (m - 1) as nat, k); let (q, t) = choose|q: int, t: int| 0 <= q < m - 1 && #[trigger] entry_at(list, q, t, k); assert(0 <= q < m && entry_at(list, q, t, k)); }
        else { let q = m - 1; let t = k - flat(list, (m - 1) as nat).len(); assert(0 <= q < m && entry_at(list, q, t, k)); }
    }
}
// the entry arrays hold exactly the sequence f
pub open spec fn holds(col_ind: Seq<usize>, val: Seq<Fr>, f: Seq<(usize, Fr)>) -> bool {
    col_ind.len() == f.len() && val.len() == f.len() && forall|k: int| 0 <= k < f.len() ==> col_ind[k] == (#[trigger] f[k]).0 && val[k] == f[k].1
}
impl SprsMat {
//@fn id=lc_utils.SprsMat.new_from_columns file=poly-commit/src/linear_codes/utils.rs scope="impl<F: Field> SprsMat<F>" name=new_from_columns props=C08,C13
    pub fn new_from_columns(n: usize, m: usize, d: usize, list: &[Vec<(usize, Fr)>]) -> (r: SprsMat)
    requires
        d * n <= usize::MAX, m < usize::MAX,
    ensures
        r.n == n && r.m == m && r.d == d && list@.len() == m,   // name=lc_utils.SprsMat.new_from_columns.dimensions_as_given props=C08
        // the entry arrays are the input columns one after the other, and pointer j is the number of entries before column j
        holds(r.col_ind@, r.val@, flat(list@, m as nat)),   // name=lc_utils.SprsMat.new_from_columns.entries_in_column_order props=C08,C13
        r.ind_ptr@.len() == m + 1 && (forall|j: int| 0 <= j <= m ==> #[trigger] r.ind_ptr@[j] == flat(list@, j as nat).len()),   // name=lc_utils.SprsMat.new_from_columns.column_pointers_are_the_running_entry_counts props=C08,C13
        // (the source checks the NUMBER of entries per column, not their row indices: the representation invariant needs in-range rows from the caller)
        (forall|j: int, t: int| 0 <= j < m && 0 <= t < list@[j]@.len() ==> (#[trigger] list@[j]@[t]).0 < n) ==> sprs_wf(&r),   // name=lc_utils.SprsMat.new_from_columns.representation_invariant_for_in_range_rows props=C08,C13
//@body
//@rw 1 /vec!\[0; m \+ 1\]/ => vec_zero_usize(m + 1)
//@rw * /assert!\(/ => rassert!(
//@rw 1 /ind_ptr\[j \+ 1\] \+= 1;/ => let cnt__ = ind_ptr[j + 1] + 1; ind_ptr.set(j + 1, cnt__);
//@rw 1 /ind_ptr\[j \+ 1\] \+= ind_ptr\[j\];/ => let sum__ = ind_ptr[j + 1] + ind_ptr[j]; ind_ptr.set(j + 1, sum__);
//@loop 1 kw=for name=itj
            invariant list@.len() == m, m < usize::MAX, ind_ptr@.len() == m + 1, holds(col_ind@, val@, flat(list@, j as nat)),
                forall|q: int| 0 <= q <= j ==> #[trigger] ind_ptr@[q] == flat(list@, q as nat).len(),
                forall|q: int| j < q <= m ==> #[trigger] ind_ptr@[q] == 0,
//@loop 2 kw=for name=itt
                invariant 0 <= j < m, list@.len() == m, ind_ptr@.len() == m + 1, itt.index@ <= list@[j as int]@.len(),
                    holds(col_ind@, val@, flat(list@, j as nat) + list@[j as int]@.take(itt.index@ as int)),
                    ind_ptr@[j + 1] == itt.index@,
                    forall|q: int| 0 <= q <= j ==> #[trigger] ind_ptr@[q] == flat(list@, q as nat).len(),
                    forall|q: int| j + 1 < q <= m ==> #[trigger] ind_ptr@[q] == 0,
//@beforeloop 2
            proof { assert(flat(list@, j as nat) + list@[j as int]@.take(0) =~= flat(list@, j as nat)); }
//@loopstart 2
                proof { axiom_vec_len_bound(&col_ind); }
                let ghost f0 = flat(list@, j as nat) + list@[j as int]@.take(itt.index@ as int);
//@loopend 2
                proof {
                    let t0 = itt.index@ as int; let f1 = flat(list@, j as nat) + list@[j as int]@.take(t0 + 1);
                    assert(f1 =~= f0.push(list@[j as int]@[t0]));
                }
//@afterloop 2
            proof { axiom_vec_len_bound(&col_ind); assert(list@[j as int]@.take(list@[j as int]@.len() as int) =~= list@[j as int]@); }
//@afterloop 1
        proof {
            if forall|j: int, t: int| 0 <= j < m && 0 <= t < list@[j]@.len() ==> (#[trigger] list@[j]@[t]).0 < n {
                assert forall|j: int| 0 <= j < m implies #[trigger] ind_ptr@[j] <= ind_ptr@[j + 1] by { lemma_flat_mono(list@, j as nat, (j + 1) as nat); }
                assert forall|j: int| 0 <= j <= m implies #[trigger] ind_ptr@[j] <= val@.len() by { lemma_flat_mono(list@, j as nat, m as nat); }
                assert forall|k: int| 0 <= k < col_ind@.len() implies #[trigger] col_ind@[k] < n by {
                    lemma_entry_of(list@, m as nat, k);
                    let (q, t) = choose|q: int, t: int| 0 <= q < m && #[trigger] entry_at(list@, q, t, k);
                    lemma_flat_index(list@, m as nat, q, t);
                    assert(list@[q]@[t].0 < n);
                }
            }
        }
//@end
}
// v * M is linear in v
//@lemma props=C13
pub proof fn lemma_sprs_linear(s: &SprsMat, v1: Seq<FS>, v2: Seq<FS>, c: FS, w: Seq<FS>, a: int, k: nat)
    requires forall|i: int| 0 <= i < s.n ==> #[trigger] w[i] == f_add(v1[i], f_mul(c, v2[i])),
        a >= 0, a + k <= s.col_ind@.len(), forall|t: int| 0 <= t < s.col_ind@.len() ==> #[trigger] s.col_ind@[t] < s.n,
    ensures sprs_sum(s, w, a, k) == f_add(sprs_sum(s, v1, a, k), f_mul(c, sprs_sum(s, v2, a, k)))
    decreases k
{
    if k == 0 { lemma_mul_zero(c); ax_add_zero(f_zero()); }
    else {
        lemma_sprs_linear(s, v1, v2, c, w, a, (k - 1) as nat);
        let t = a + k - 1; let i = s.col_ind@[t] as int; let x = s.val@[t]@;
        assert(s.col_ind@[t] < s.n);
        assert(w[i] == f_add(v1[i], f_mul(c, v2[i])));
        let s1 = sprs_sum(s, v1, a, (k - 1) as nat); let s2 = sprs_sum(s, v2, a, (k - 1) as nat);
        // (v1 + c v2) x = v1 x + c (v2 x)
        ax_mul_comm(w[i], x); ax_distrib(x, v1[i], f_mul(c, v2[i])); ax_mul_comm(x, v1[i]); ax_mul_comm(x, f_mul(c, v2[i])); ax_mul_assoc(c, v2[i], x);
        lemma_add_swap(s1, f_mul(c, s2), f_mul(v1[i], x), f_mul(c, f_mul(v2[i], x)));
        ax_distrib(c, s2, f_mul(v2[i], x));
    }
}
