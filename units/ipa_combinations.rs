// InnerProductArgPC::{combine_shifted_comm, construct_labeled_commitments, check_combinations} (ipa_pc/mod.rs): the linear-combination verifier of the IPA scheme  (C06)
//@use core ops_gen poly labeled_comm sponge std
//@spec ring
//@typemap /<G>/ =>
//@typemap /G::Group::/ => G1::
//@typemap /Option<G::Group>/ => Option<G1>
//@typemap /&\[G::Group\]/ => &Vec<G1>
//@typemap /Option<G>/ => Option<G1Affine>
//@typemap /G::ScalarField::/ => Fr::
//@typemap /: G::ScalarField/ => : Fr
//@typemap /Self::Commitment/ => Commitment
//@typemap /Self::Error/ => Error
//@typemap /Self::batch_check\(/ => pc_batch_check(
//@enum file=poly-commit/src/error.rs name=Error
//@enum file=poly-commit/src/data_structures.rs name=LCTerm
//@typemap /\(F, LCTerm\)/ => (Fr, LCTerm)
//@typemap /Vec<\(F,/ => Vec<(Fr,
//@struct file=poly-commit/src/data_structures.rs name=LinearCombination
//@typemap /: G,/ => : G1Affine,
//@struct file=poly-commit/src/ipa_pc/data_structures.rs name=Commitment
// the scheme's key, point and batch-proof types stay abstract: this method only hands them on
#[verifier::external_body] pub struct VK { _x: u8 }
#[verifier::external_body] pub struct Pt { _x: u8 }
#[verifier::external_body] pub struct BatchProof { _x: u8 }
impl Pt { #[verifier::external_body] pub fn clone(&self) -> (r: Pt) ensures r == *self { unimplemented!() } }
pub type Comm = Commitment;
//@use pcenv
//@spec group_spec lc_adjust_spec
pub struct BatchLCProof { pub proof: BatchProof, pub evals: Option<Vec<Fr>> }
impl LinearCombination {
    pub fn label(&self) -> (r: &String) ensures *r == self.label { &self.label }
    pub fn len(&self) -> (r: usize) ensures r == self.terms@.len() { self.terms.len() }
}
impl LCTerm {
//@stub from=linear_combination.rs id=lc.LCTerm.is_one vis=pub
//@stub from=marlin_combinations.rs id=lc.LCTerm.try_into_ref vis=pub
}
#[verifier::external_body]
pub fn opt_map_or<T, U, F: FnOnce(T) -> U>(o: Option<T>, d: U, f: F) -> (r: U)     // Option::map_or
    requires o is Some ==> f.requires((o->Some_0,)),
    ensures o is None ==> r == d, o is Some ==> f.ensures((o->Some_0,), r)
{ unimplemented!() }
// ---- trusted environment ----
// InnerProductArgPC::batch_check (contract proved in units/ipa_batch.rs), taken here as a deterministic function of what it is given
pub open spec fn aview(c: Option<G1Affine>) -> Option<FS> { match c { Some(g) => Some(g@), None => None } }
pub open spec fn gview(c: Option<G1>) -> Option<FS> { match c { Some(g) => Some(g@), None => None } }
pub open spec fn lcv(c: LabeledCommitment<Commitment>) -> (String, FS, Option<FS>, Option<usize>) { (c.label, c.commitment.comm@, aview(c.commitment.shifted_comm), c.degree_bound) }
pub open spec fn lcvs(cs: Seq<LabeledCommitment<Commitment>>) -> Seq<(String, FS, Option<FS>, Option<usize>)> { Seq::new(cs.len(), |i: int| lcv(cs[i])) }
pub uninterp spec fn bc_res(vk: &VK, cs: Seq<(String, FS, Option<FS>, Option<usize>)>, qs: Set<(String, (String, Pt))>, ev: Map<(String, Pt), Fr>, pr: BatchProof, s: SS, rid: int, rpos: nat) -> Result<bool, Error>;
pub uninterp spec fn bc_sponge(vk: &VK, cs: Seq<(String, FS, Option<FS>, Option<usize>)>, qs: Set<(String, (String, Pt))>, ev: Map<(String, Pt), Fr>, pr: BatchProof, s: SS) -> SS;
#[verifier::external_body]
pub fn pc_batch_check(vk: &VK, commitments: &Vec<LabeledCommitment<Commitment>>, query_set: &BTreeSet<(String, (String, Pt))>, evaluations: &BTreeMap<(String, Pt), Fr>, proof: &BatchProof, sponge: &mut Sponge, rng: &mut Rng) -> (res: Result<bool, Error>)
    ensures res == bc_res(vk, lcvs(commitments@), query_set@, evaluations@, *proof, old(sponge).st@, old(rng).id@, old(rng).pos@),
        final(sponge).st@ == bc_sponge(vk, lcvs(commitments@), query_set@, evaluations@, *proof, old(sponge).st@) { unimplemented!() }
#[verifier::external_body] pub fn g1a_clone(x: &G1Affine) -> (r: G1Affine) ensures r == *x { unimplemented!() }   // <G as Clone>::clone
// ======================= specification =======================
pub open spec fn wf_comms(cs: Seq<&LabeledCommitment<Commitment>>) -> bool { forall|i: int| 0 <= i < cs.len() ==> ((#[trigger] cs[i]).degree_bound is Some) == (cs[i].commitment.shifted_comm is Some) }
// adding c * S to the running shifted sum (nothing to add if the commitment has no shifted part)
pub open spec fn shf(p: Option<FS>, s: Option<FS>, c: FS) -> Option<FS> { match s { Some(s) => Some(match p { Some(q) => f_add(q, f_mul(s, c)), None => f_mul(s, c) }), None => p } }
// number of flat elements taken by the first k combinations: one, plus one for a kept degree bound
pub open spec fn need(info: Seq<(String, Option<usize>)>, k: int) -> int decreases k { if k <= 0 { 0 } else { need(info, k - 1) + (if info[k - 1].1 is Some { 2int } else { 1int }) } }
pub open spec fn outs(info: Seq<(String, Option<usize>)>, els: Seq<G1>) -> Seq<(String, FS, Option<FS>, Option<usize>)> {
    Seq::new(info.len(), |j: int| (info[j].0, els[need(info, j)]@, if info[j].1 is Some { Some(els[need(info, j) + 1]@) } else { None }, info[j].1))
}
pub proof fn lemma_need_prefix(info: Seq<(String, Option<usize>)>, x: (String, Option<usize>), k: int)
    requires k <= info.len()
    ensures need(info.push(x), k) == need(info, k)
    decreases k
{ if k > 0 { lemma_need_prefix(info, x, k - 1); assert(info.push(x)[k - 1] == info[k - 1]); } }
pub proof fn lemma_need_mono(info: Seq<(String, Option<usize>)>, a: int, b: int)
    requires 0 <= a <= b
    ensures need(info, a) <= need(info, b)
    decreases b
{ if a < b { lemma_need_mono(info, a, b - 1); } }
// the polynomial terms of one combination (first k terms): sum_i c_i C_i, sum_i c_i S_i and the degree bound the combination keeps; None = refused
pub open spec fn iscan(m: Map<&String, &LabeledCommitment<Commitment>>, ts: Seq<(Fr, LCTerm)>, k: nat) -> Option<(FS, Option<FS>, Option<usize>)> decreases k {
    if k == 0 { Some((f_zero(), None, None)) } else {
        match iscan(m, ts, (k - 1) as nat) {
            None => None,
            Some(p) => match ts[k - 1].1 {
                LCTerm::One => Some(p),
                LCTerm::PolyLabel(l) => if !m.dom().contains(&l) { None } else {
                    let c = m[&l]; let s = f_add(p.0, f_mul(c.commitment.comm@, ts[k - 1].0@)); let sh = shf(p.1, aview(c.commitment.shifted_comm), ts[k - 1].0@);
                    if c.degree_bound is Some { if ts.len() == 1 && ts[k - 1].0@ == f_one() { Some((s, sh, c.degree_bound)) } else { None } }
                    else { Some((s, sh, p.2)) }
                },
            },
        }
    }
}
pub open spec fn irun(m: Map<&String, &LabeledCommitment<Commitment>>, lcs: Seq<&LinearCombination>, n: nat) -> Option<Seq<(String, FS, Option<FS>, Option<usize>)>> decreases n {
    if n == 0 { Some(Seq::empty()) } else {
        match irun(m, lcs, (n - 1) as nat) {
            None => None,
            Some(out) => { let ts = lcs[n - 1].terms@; match iscan(m, ts, ts.len()) {
                None => None,
                Some(p) => Some(out.push((lcs[n - 1].label, p.0, p.1, p.2))),
            } },
        }
    }
}
pub open spec fn icc_post(vk: &VK, lcs: Seq<&LinearCombination>, cs: Seq<&LabeledCommitment<Commitment>>, qs: Set<(String, (String, Pt))>, ev: Map<(String, Pt), Fr>, pr: &BatchLCProof, s0: SS, rid: int, rpos: nat, res: Result<bool, Error>, s1: SS) -> bool {
    exists|m: Map<&String, &LabeledCommitment<Commitment>>| #![trigger cmap_ok(m, cs)] cmap_ok(m, cs) && match irun(m, lcs, lcs.len()) {
        None => res is Err,
        Some(out) => res == bc_res(vk, out, qs, adj_ev(ev, lcs, lcs.len()), pr.proof, s0, rid, rpos) && s1 == bc_sponge(vk, out, qs, adj_ev(ev, lcs, lcs.len()), pr.proof, s0),
    }
}
pub proof fn lemma_iscan_none(m: Map<&String, &LabeledCommitment<Commitment>>, ts: Seq<(Fr, LCTerm)>, k: nat, n: nat)
    requires k <= n, iscan(m, ts, k) is None
    ensures iscan(m, ts, n) is None
    decreases n
{ if k < n { lemma_iscan_none(m, ts, k, (n - 1) as nat); } }
pub proof fn lemma_irun_none(m: Map<&String, &LabeledCommitment<Commitment>>, lcs: Seq<&LinearCombination>, k: nat, n: nat)
    requires k <= n, irun(m, lcs, k) is None
    ensures irun(m, lcs, n) is None
    decreases n
{ if k < n { lemma_irun_none(m, lcs, k, (n - 1) as nat); } }
pub struct InnerProductArgPC;
impl InnerProductArgPC {
//@fn id=ipa.combine_shifted_comm file=poly-commit/src/ipa_pc/mod.rs scope="impl<G, D, P> InnerProductArgPC<G, D, P>" name=combine_shifted_comm props=C06,C04
    fn combine_shifted_comm(combined_comm: Option<G1>, new_comm: Option<G1Affine>, coeff: Fr) -> (r: Option<G1>)
    ensures
        gview(r) == shf(gview(combined_comm), aview(new_comm), coeff@),   // name=ipa.combine_shifted_comm.adds_the_scaled_shifted_part props=C06,C04
//@body
//@rw 1 /combined_comm\.map_or\(coeff_new_comm, /=> opt_map_or(combined_comm, coeff_new_comm, 
//@closure |c| => |c: G1| -> (o: G1) ensures o@ == f_add(c@, coeff_new_comm@)
//@end
//@fn id=ipa.construct_labeled_commitments file=poly-commit/src/ipa_pc/mod.rs scope="impl<G, D, P> InnerProductArgPC<G, D, P>" name=construct_labeled_commitments props=C06,C04
    fn construct_labeled_commitments(lc_info: &Vec<(String, Option<usize>)>, elements: &Vec<G1>) -> (r: Vec<LabeledCommitment<Commitment>>)
    requires
        need(lc_info@, lc_info@.len() as int) <= elements@.len(),     // one element per combination plus one per kept degree bound
    ensures
        lcvs(r@) =~= outs(lc_info@, elements@),     // name=ipa.construct_labeled_commitments.regroups_the_flat_elements_by_degree_bound props=C06,C04
//@body
//@rw 1 /for info in([^{]*?)lc_info\.into_iter\(\)([^{]*)\{/ => for info in\1lc_info.iter()\2{
//@rw 1 /let commitment;/ => let commitment: Commitment;
//@rw 1 /let label = info\.0\.clone\(\);/ => let label = string_to_string(&info.0);
//@rw * /comms\[(i|i \+ 1)\]\.clone\(\)/ => g1a_clone(&comms[\1])
//@rw 1 /return commitments;/ => proof { assert(lcvs(commitments@) =~= outs(lc_info@, elements@)); } return commitments;
//@rw 1 /let mut commitments = Vec::new\(\);/ => let mut commitments: Vec<LabeledCommitment<Commitment>> = Vec::new();
//@loop 1 kw=for name=it
            invariant it.index@ <= lc_info@.len(), i == need(lc_info@, it.index@), commitments@.len() == it.index@, comms@.len() == elements@.len(),
                need(lc_info@, lc_info@.len() as int) <= elements@.len(),
                forall|q: int| 0 <= q < elements@.len() ==> (#[trigger] comms@[q])@ == elements@[q]@,
                forall|q: int| 0 <= q < commitments@.len() ==> lcv(#[trigger] commitments@[q]) == outs(lc_info@, elements@)[q],
//@loopstart 1
            let ghost k = it.index@;
            proof { assert(*info == lc_info@[k]); lemma_need_mono(lc_info@, k + 1, lc_info@.len() as int); }
//@end
//@fn id=ipa.check_combinations file=poly-commit/src/ipa_pc/mod.rs scope="impl<G, D, P> PolynomialCommitment<G::ScalarField, P> for InnerProductArgPC<G, D, P>" name=check_combinations props=C06,C05,C04,C17
    #[verifier::loop_isolation(false)]
    fn check_combinations<'a>(vk: &VK, linear_combinations: Vec<&'a LinearCombination>, commitments: Vec<&'a LabeledCommitment<Commitment>>, eqn_query_set: &BTreeSet<(String, (String, Pt))>, eqn_evaluations: &BTreeMap<(String, Pt), Fr>, proof: &BatchLCProof, sponge: &mut Sponge, rng: &mut Rng) -> (res: Result<bool, Error>)
    requires
        // every commitment handed in is well-formed: a shifted part exactly for the degree-bounded ones (otherwise the flat element list
        // built below and its regrouping by degree bound fall out of step)
        forall|i: int| 0 <= i < commitments@.len() ==> ((#[trigger] commitments@[i]).degree_bound is Some) == (commitments@[i].commitment.shifted_comm is Some),
    ensures
        // every combination is turned into ONE commitment sum_i c_i C_i (and sum_i c_i S_i with the kept degree bound), its constants are
        // subtracted from every claimed value of its label, and the verdict is the scheme's batch verification of exactly these;
        // a combination that would drop an enforced degree bound, or names a polynomial without commitment, is refused
        icc_post(vk, linear_combinations@, commitments@, eqn_query_set@, eqn_evaluations@, proof, old(sponge).st@, old(rng).id@, old(rng).pos@, res, final(sponge).st@),   // name=ipa.check_combinations.batch_verification_of_the_combined_commitments props=C06,C05,C04,C17
//@body
//@rw 1 /let BatchLCProof \{ proof, \.\. \} = proof;/ => let proof = &proof.proof;
//@rw 1 /(?s)let label_comm_map = (commitments\s*\.into_iter\(\)\s*\.map\(.*?\))\s*\.collect::<BTreeMap<_, _>>\(\);/ => let cv__: Vec<(&String, &LabeledCommitment<Comm>)> = \1.collect();
        let label_comm_map: BTreeMap<&String, &LabeledCommitment<Comm>> = btree_from_pairs(cv__);
        proof {
            assert forall|i: int| #[trigger] c_is_last(cs0, i) implies label_comm_map@[&cs0[i].label] == cs0[i] by {
                assert(cv__@[i].0 == &cs0[i].label);
                assert forall|j: int| i < j < cv__@.len() implies cv__@[j].0 != cv__@[i].0 by { assert(*cv__@[j].0 == cs0[j].label); }
            }
            assert forall|k: &String| label_comm_map@.dom().contains(k) == (exists|i: int| 0 <= i < cs0.len() && (#[trigger] cs0[i]).label == *k) by {
                if label_comm_map@.dom().contains(k) { let i = choose|i: int| 0 <= i < cv__@.len() && (#[trigger] cv__@[i]).0 == k; assert(cs0[i].label == *k); }
                if exists|i: int| 0 <= i < cs0.len() && (#[trigger] cs0[i]).label == *k { let i = choose|i: int| 0 <= i < cs0.len() && (#[trigger] cs0[i]).label == *k; assert(cv__@[i].0 == k); }
            }
            assert(cmap_ok(label_comm_map@, cs0));
        }
//@closure |c| => |c: &'a LabeledCommitment<Comm>| -> (kv: (&String, &LabeledCommitment<Comm>)) ensures *kv.0 == c.label, kv.1 == c
//@rw 1 /let mut lc_commitments = Vec::new\(\);/ => let mut lc_commitments: Vec<G1> = Vec::new();
//@rw 1 /let mut lc_info = Vec::new\(\);/ => let mut lc_info: Vec<(String, Option<usize>)> = Vec::new();
//@rw 1 /let mut evaluations = eqn_evaluations\.clone\(\);/ => let mut evaluations = evals_clone(eqn_evaluations);
//@rw 1 /for lc in([^{]*?)linear_combinations([^{]*)\{/ => for lc__r in\1linear_combinations.iter()\2{ let lc: &LinearCombination = *lc__r;
//@rw 1 /lc\.label\(\)\.clone\(\)/ => string_to_string(lc.label())
//@rw 1 /let mut degree_bound = None;/ => let mut degree_bound: Option<usize> = None;
//@rw 1 /for \(coeff, label\) in([^{]*?)lc\.iter\(\)([^{]*)\{/ => for ct__ in\1lc.terms.iter()\2{ let coeff: &Fr = &ct__.0; let label: &LCTerm = &ct__.1;
//@rw 1 /for \(&\(ref label, _\), ref mut eval\) in([^{]*?)evaluations\.iter_mut\(\)([^{]*)\{/ => let ks__ = evals_keys(&evaluations); for k__ in\1ks__.iter()\2{ let label: &String = &k__.0; let mut eval__v: Fr = evals_get(&evaluations, k__);
//@rw 1 /if label == &lc_label \{/ => if string_eq(label, &lc_label) {
//@rw * /\*\*eval\b/ => eval__v
//@rw 1 /(?s)let &cur_comm = label_comm_map\.get\(label\)(.*?)\?;/ => let cur_comm: &LabeledCommitment<Comm> = *(btree_get_by_label(&label_comm_map, label)\1?);
//@rw * /label\.to_string\(\)/ => string_to_string(label)
//@rw 1 /&eqn_query_set,/ => eqn_query_set,
//@before /let lc_commitments = Self::construct_labeled_commitments\(/
        let ghost lc_info0 = lc_info@; let ghost lc_comms0 = lc_commitments@;
//@after start
        let ghost cs0 = commitments@;
        let ghost lcs0 = linear_combinations@;
        let ghost s0 = sponge.st@;
        let ghost ev0 = eqn_evaluations@;
        let ghost rid = rng.id@; let ghost rpos = rng.pos@;
//@beforeloop 1
        proof {
            assert(outs(lc_info@, lc_commitments@) =~= Seq::empty());
            assert forall|k: (String, Pt)| ev0.dom().contains(k) implies (#[trigger] evaluations@[k])@ == f_sub(ev0[k]@, adj(lcs0, k.0, 0)) by { lemma_neg_zero(); ax_add_zero(ev0[k]@); }
        }
//@loop 1 kw=for name=it
            invariant it.index@ <= lcs0.len(), lc_info@.len() == it.index@, lc_commitments@.len() == need(lc_info@, it.index@), wf_comms(cs0), sponge.st@ == s0, rng.id@ == rid, rng.pos@ == rpos, cmap_ok(label_comm_map@, cs0),
                irun(label_comm_map@, lcs0, it.index@ as nat) == Some(outs(lc_info@, lc_commitments@)),
                forall|k: (String, Pt)| evaluations@.dom().contains(k) == ev0.dom().contains(k),
                forall|k: (String, Pt)| ev0.dom().contains(k) ==> (#[trigger] evaluations@[k])@ == f_sub(ev0[k]@, adj(lcs0, k.0, it.index@ as nat)),
//@loopstart 1
            let ghost i = it.index@;
            let ghost ts = lc.terms@;
            let ghost out0 = outs(lc_info@, lc_commitments@);
            proof { assert(lc == lcs0[i]); }
//@beforeloop 2
            proof {
                assert forall|k: (String, Pt)| ev0.dom().contains(k) implies (#[trigger] evaluations@[k])@ == f_sub(ev0[k]@, tot(lcs0, k.0, i as nat, lc_label, f_zero())) by { ax_add_zero(adj(lcs0, k.0, i as nat)); }
            }
//@loop 2 kw=for name=it2
                invariant it2.index@ <= ts.len(), ts == lc.terms@, lc == lcs0[i], num_polys == ts.len(), lc_label == lc.label,
                    iscan(label_comm_map@, ts, it2.index@ as nat) == Some((combined_comm@, gview(combined_shifted_comm), degree_bound)),
                    (degree_bound is Some) == (combined_shifted_comm is Some),
                    ev_inv(evaluations@, ev0, lcs0, i as nat, lc_label, lc_const(ts, it2.index@ as nat)),
//@loopstart 2
                let ghost j = it2.index@;
                let ghost part = lc_const(ts, j as nat);
                proof { assert(*ct__ == ts[j]); }
//@beforeloop 3
                    let ghost e1 = evaluations@;
//@loop 3 kw=for name=it3
                        invariant it3.index@ <= ks__@.len(), label is One, *ct__ == ts[j],
                            forall|k: (String, Pt)| evaluations@.dom().contains(k) == e1.dom().contains(k),
                            forall|x: int| 0 <= x < ks__@.len() ==> e1.dom().contains(#[trigger] ks__@[x]),
                            forall|x: int, y: int| 0 <= x < y < ks__@.len() ==> ks__@[x] != ks__@[y],
                            forall|x: int| 0 <= x < ks__@.len() ==> (#[trigger] evaluations@[ks__@[x]]) == (if x < it3.index@ && ks__@[x].0 == lc_label { Fr::mk(f_sub(e1[ks__@[x]]@, coeff@)) } else { e1[ks__@[x]] }),
//@loopstart 3
                        let ghost t = it3.index@;
                        let ghost e2 = evaluations@;
                        proof { assert(*k__ == ks__@[t]); }
//@loopend 3
                        evals_put(&mut evaluations, k__, eval__v);
                        proof {
                            assert forall|x: int| 0 <= x < ks__@.len() implies (#[trigger] evaluations@[ks__@[x]]) == (if x < t + 1 && ks__@[x].0 == lc_label { Fr::mk(f_sub(e1[ks__@[x]]@, coeff@)) } else { e1[ks__@[x]] }) by {
                                assert(e2[ks__@[x]] == (if x < t && ks__@[x].0 == lc_label { Fr::mk(f_sub(e1[ks__@[x]]@, coeff@)) } else { e1[ks__@[x]] }));
                                if x != t { assert(ks__@[x] != ks__@[t]); }
                            }
                        }
//@afterloop 3
                    proof {
                        assert(lc_const(ts, (j + 1) as nat) == f_add(part, coeff@));
                        assert(iscan(label_comm_map@, ts, (j + 1) as nat) == iscan(label_comm_map@, ts, j as nat));
                        assert forall|k: (String, Pt)| ev0.dom().contains(k) implies (#[trigger] evaluations@[k])@ == f_sub(ev0[k]@, tot(lcs0, k.0, i as nat, lc_label, f_add(part, coeff@))) by {
                            let x = choose|x: int| 0 <= x < ks__@.len() && (#[trigger] ks__@[x]) == k;
                            assert(evaluations@[ks__@[x]] == (if k.0 == lc_label { Fr::mk(f_sub(e1[k]@, coeff@)) } else { e1[k] }));
                            if k.0 == lc_label { lemma_sub_step(ev0[k]@, adj(lcs0, k.0, i as nat), part, coeff@); }
                        }
                    }
//@before /let label: &String = label\.try_into\(\)/
                    proof { assert(lc_const(ts, (j + 1) as nat) == part); }
//@before /let &cur_comm = label_comm_map\.get\(label\)/
                    proof {
                        if !label_comm_map@.dom().contains(label) {
                            assert(iscan(label_comm_map@, ts, (j + 1) as nat) is None);
                            lemma_iscan_none(label_comm_map@, ts, (j + 1) as nat, ts.len());
                            lemma_irun_none(label_comm_map@, lcs0, (i + 1) as nat, lcs0.len());
                        }
                    }
//@before /if num_polys == 1 && cur_comm\.degree_bound\(\)\.is_some\(\) \{/
                    proof { let ci = lemma_cmap_entry(label_comm_map@, cs0, label); assert((cur_comm.degree_bound is Some) == (cur_comm.commitment.shifted_comm is Some)); }
//@before /return Err\((Self::)?Error::EquationHasDegreeBounds\(lc_label\)\);/
                        proof {
                            assert(iscan(label_comm_map@, ts, (j + 1) as nat) is None);
                            lemma_iscan_none(label_comm_map@, ts, (j + 1) as nat, ts.len());
                            lemma_irun_none(label_comm_map@, lcs0, (i + 1) as nat, lcs0.len());
                        }
//@afterloop 2
            let ghost info0 = lc_info@; let ghost cms0 = lc_commitments@;
//@loopend 1
            proof {
                let info = lc_info@; let els = lc_commitments@; let x = (lc_label, degree_bound);
                assert(info == info0.push(x));
                assert forall|q: int| 0 <= q <= i implies need(info, q) == need(info0, q) by { lemma_need_prefix(info0, x, q); }
                assert(need(info, i + 1) == els.len());
                assert(outs(info, els) =~= out0.push((lcs0[i].label, combined_comm@, gview(combined_shifted_comm), degree_bound))) by {
                    assert forall|q: int| 0 <= q < i implies outs(info, els)[q] == out0[q] by {
                        lemma_need_mono(info0, q + 1, i);
                        assert(info[q] == info0[q]);
                        assert(els[need(info0, q)] == cms0[need(info0, q)]);
                        if info0[q].1 is Some { assert(els[need(info0, q) + 1] == cms0[need(info0, q) + 1]); }
                    }
                }
                assert forall|k: (String, Pt)| ev0.dom().contains(k) implies (#[trigger] evaluations@[k])@ == f_sub(ev0[k]@, adj(lcs0, k.0, (i + 1) as nat)) by { assert(evaluations@[k]@ == f_sub(ev0[k]@, tot(lcs0, k.0, i as nat, lc_label, lc_const(ts, ts.len())))); }
            }
//@before /Self::batch_check\(/
        proof {
            let n = lcs0.len();
            let out = outs(lc_info0, lc_comms0);
            assert(lcvs(lc_commitments@) =~= out);
            assert(evaluations@ =~= adj_ev(ev0, lcs0, n));
        }
//@end
}
