// InnerProductArgPC::setup / trim (ipa_pc/mod.rs), UniversalParams::max_degree  (C09, C19, C17)
//@use core ops_gen std
//@typemap /<G>/ => 
//@typemap /Vec<G>/ => Vec<G1Affine>
//@typemap /: G,/ => : G1Affine,
//@typemap /Self::UniversalParams/ => UniversalParams
//@typemap /Self::CommitterKey/ => CommitterKey
//@typemap /Self::VerifierKey/ => VerifierKey
//@typemap /Self::Error/ => Error
//@typemap /<R: RngCore>/ => 
//@typemap /&mut R\b/ => &mut Rng
//@enum file=poly-commit/src/error.rs name=Error
//@struct file=poly-commit/src/ipa_pc/data_structures.rs name=UniversalParams
//@struct file=poly-commit/src/ipa_pc/data_structures.rs name=CommitterKey
pub type VerifierKey = CommitterKey;
// the i-th transparent generator: hash-to-curve by try-and-increment over the byte strings PROTOCOL_NAME || i and PROTOCOL_NAME || i || j
//@use h2c
//@spec h2c_spec
pub open spec fn ipa_gen(i: nat) -> AS { h2c_gen(i) }

impl UniversalParams {
//@fn id=ipa.UniversalParams.max_degree file=poly-commit/src/ipa_pc/data_structures.rs scope="impl<G: AffineRepr> PCUniversalParams for UniversalParams<G>" name=max_degree props=C09
    pub fn max_degree(&self) -> (r: usize)
    requires
        self.comm_key@.len() >= 1,
    ensures
        r == self.comm_key@.len() - 1,   // name=ipa.UniversalParams.max_degree.truthful props=C09
//@body
//@end
}

pub struct InnerProductArgPC;
impl InnerProductArgPC {
//@fn id=ipa.sample_generators file=poly-commit/src/ipa_pc/mod.rs scope="impl<G, D, P> InnerProductArgPC<G, D, P>" name=sample_generators props=C09
    #[verifier::exec_allows_no_decreases_clause]
    fn sample_generators(num_generators: usize) -> (r: Vec<G1Affine>)
    ensures
        r@.len() == num_generators,
        forall|i: int| 0 <= i < num_generators ==> (#[trigger] r@[i])@ == ipa_gen(i as nat),   // name=ipa.sample_generators.each_generator_is_the_first_curve_point_of_its_own_index_sequence props=C09
//@body
//@rw 1 /(?s)let generators: Vec<_> = ark_std::cfg_into_iter!\(0\.\.num_generators\)\s*\.map\(\|i\| \{(.*?)\n            \}\)\s*\.collect\(\);/ => let mut generators: Vec<G1> = Vec::new();
        let mut i__o: usize = 0;
        while i__o < num_generators
            invariant i__o <= num_generators, generators@.len() == i__o, forall|q: int| 0 <= q < generators@.len() ==> (#[trigger] generators@[q])@ == ipa_gen(q as nat),
        {
            let ghost gens0 = generators@;
            let i = i__o;
            let gp__: G1 = {\1
            };
            generators.push(gp__);
            proof { assert forall|q: int| 0 <= q < generators@.len() implies (#[trigger] generators@[q])@ == ipa_gen(q as nat) by { if q < i__o { assert(generators@[q] == gens0[q]); } } }
            ctr_inc(&mut i__o);
        }
//@rw * /\[Self::PROTOCOL_NAME, &(\w+)\.to_le_bytes\(\)\]\.concat\(\)\.as_slice\(\)/ => bytes_concat2(protocol_name(), &u64_to_le_bytes(\1)).as_slice()
//@rw * /Self::PROTOCOL_NAME\.to_vec\(\)/ => protocol_name()
//@rw * /bytes\.extend\((\w+)\.to_le_bytes\(\)\);/ => bytes_extend(&mut bytes, &u64_to_le_bytes(\1));
//@rw * /D::digest\(/ => digest(
//@rw * /G::from_random_bytes\(/ => from_random_bytes(
//@rw 1 /j \+= 1;/ => ctr_inc_u64(&mut j);
//@rw 1 /generator\.mul_by_cofactor_to_group\(\)/ => mul_by_cofactor_to_group(generator)
//@rw 1 /G::Group::normalize_batch\(/ => G1::normalize_batch(
//@loop 1 kw=while
                    invariant j as nat == tt, g == attempt(i, tt), forall|t2: nat| t2 < tt ==> attempt(i, t2) is None, i as nat == i__o,
//@beforeloop 1
                let ghost mut tt: nat = 0;
//@loopend 1
                    proof { tt = tt + 1; }
//@before /let generator = g\.unwrap\(\);/
                proof { assert(first_hit(i, tt)); lemma_first_hit_unique(i, tt); }
//@end

//@fn id=ipa.setup file=poly-commit/src/ipa_pc/mod.rs scope="impl<G, D, P> PolynomialCommitment<G::ScalarField, P> for InnerProductArgPC<G, D, P>" name=setup props=C09,C19,C17
    fn setup(max_degree: usize, _num_vars: Option<usize>, _rng: &mut Rng) -> (res: Result<UniversalParams, Error>)
    requires
        max_degree < 0x4000_0000_0000_0000,
    ensures
        res is Ok,
        // |comm_key| = the least power of two >= max_degree + 1   (one generator per coefficient, rounded up for the halving rounds)
        is_pow2(res->Ok_0.comm_key@.len()) && res->Ok_0.comm_key@.len() >= max_degree + 1
            && (forall|q: nat| is_pow2(q) && q >= max_degree + 1 ==> res->Ok_0.comm_key@.len() <= q),   // name=ipa.setup.key_length_least_power_of_two props=C09,C19
        forall|i: int| 0 <= i < res->Ok_0.comm_key@.len() ==> (#[trigger] res->Ok_0.comm_key@[i])@ == ipa_gen(i as nat),   // name=ipa.setup.generators_derived_from_index props=C09
        res->Ok_0.s@ == ipa_gen(res->Ok_0.comm_key@.len()) && res->Ok_0.h@ == ipa_gen((res->Ok_0.comm_key@.len() + 1) as nat),   // name=ipa.setup.h_and_s_are_the_next_two_generators props=C09
//@body
//@rw * /generators\.pop\(\)\.unwrap\(\)/ => generators.pop().unwrap_abort()
//@end

//@fn id=ipa.trim file=poly-commit/src/ipa_pc/mod.rs scope="impl<G, D, P> PolynomialCommitment<G::ScalarField, P> for InnerProductArgPC<G, D, P>" name=trim props=C09,C19,C17
    fn trim(pp: &UniversalParams, supported_degree: usize, _supported_hiding_bound: usize, _enforced_degree_bounds: Option<&[usize]>) -> (res: Result<(CommitterKey, VerifierKey), Error>)
    requires
        pp.comm_key@.len() >= 1, supported_degree < 0x4000_0000_0000_0000,
    ensures
        // refused exactly when the rounded-up degree exceeds the parameters
        (res is Err) == (exists|q: nat| is_pow2(q) && q >= supported_degree + 1 && q > pp.comm_key@.len() && (forall|q2: nat| is_pow2(q2) && q2 >= supported_degree + 1 ==> q <= q2)),   // name=ipa.trim.refuses_iff_beyond_parameters props=C17,C09
        res is Ok ==> is_pow2(res->Ok_0.0.comm_key@.len()) && res->Ok_0.0.comm_key@.len() >= supported_degree + 1
            && (forall|q: nat| is_pow2(q) && q >= supported_degree + 1 ==> res->Ok_0.0.comm_key@.len() <= q),   // name=ipa.trim.key_length_least_power_of_two props=C09,C19
        res is Ok ==> res->Ok_0.0.comm_key@ == pp.comm_key@.subrange(0, res->Ok_0.0.comm_key@.len() as int) && res->Ok_0.0.h == pp.h && res->Ok_0.0.s == pp.s
            && res->Ok_0.0.max_degree == pp.comm_key@.len() - 1,   // name=ipa.trim.committer_key_is_prefix_of_parameters props=C09
        res is Ok ==> res->Ok_0.1.comm_key@ == res->Ok_0.0.comm_key@ && res->Ok_0.1.h == pp.h && res->Ok_0.1.s == pp.s && res->Ok_0.1.max_degree == res->Ok_0.0.max_degree,   // name=ipa.trim.verifier_key_equals_committer_key props=C09
//@body
//@end
}
