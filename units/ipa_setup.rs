// InnerProductArgPC::setup / trim (ipa_pc/mod.rs), UniversalParams::max_degree  (C09, C19, C17)
//@use core ops_gen std
//@typemap /<G>/ => 
//@typemap /Vec<G>/ => Vec<G1Affine>
//@typemap /: G,/ => : G1Affine,
//@typemap /Self::UniversalParams/ => UniversalParams
//@typemap /Self::CommitterKey/ => CommitterKey
//@typemap /Self::VerifierKey/ => VerifierKey
//@typemap /Self::Error/ => Error
//@typemap /<R: RngCore>/ => 
//@typemap /&mut R\b/ => &mut Rng
//@enum file=poly-commit/src/error.rs name=Error
//@struct file=poly-commit/src/ipa_pc/data_structures.rs name=UniversalParams
//@struct file=poly-commit/src/ipa_pc/data_structures.rs name=CommitterKey
pub type VerifierKey = CommitterKey;
// the i-th transparent generator: hash-to-curve of (PROTOCOL_NAME, i[, j]) - a deterministic function of i   [sample_generators is outside the verified text]
pub uninterp spec fn ipa_gen(i: nat) -> AS;

impl UniversalParams {
//@fn id=ipa.UniversalParams.max_degree file=poly-commit/src/ipa_pc/data_structures.rs scope="impl<G: AffineRepr> PCUniversalParams for UniversalParams<G>" name=max_degree props=C09
    pub fn max_degree(&self) -> (r: usize)
    requires
        self.comm_key@.len() >= 1,
    ensures
        r == self.comm_key@.len() - 1,   // name=ipa.UniversalParams.max_degree.truthful props=C09
//@body
//@end
}

pub struct InnerProductArgPC;
impl InnerProductArgPC {
    #[verifier::external_body] fn sample_generators(num_generators: usize) -> (r: Vec<G1Affine>)
        ensures r@.len() == num_generators, forall|i: int| 0 <= i < num_generators ==> (#[trigger] r@[i])@ == ipa_gen(i as nat) { unimplemented!() }

//@fn id=ipa.setup file=poly-commit/src/ipa_pc/mod.rs scope="impl<G, D, P> PolynomialCommitment<G::ScalarField, P> for InnerProductArgPC<G, D, P>" name=setup props=C09,C19,C17
    fn setup(max_degree: usize, _num_vars: Option<usize>, _rng: &mut Rng) -> (res: Result<UniversalParams, Error>)
    requires
        max_degree < 0x4000_0000_0000_0000,
    ensures
        res is Ok,
        // |comm_key| = the least power of two >= max_degree + 1   (one generator per coefficient, rounded up for the halving rounds)
        is_pow2(res->Ok_0.comm_key@.len()) && res->Ok_0.comm_key@.len() >= max_degree + 1
            && (forall|q: nat| is_pow2(q) && q >= max_degree + 1 ==> res->Ok_0.comm_key@.len() <= q),   // name=ipa.setup.key_length_least_power_of_two props=C09,C19
        forall|i: int| 0 <= i < res->Ok_0.comm_key@.len() ==> (#[trigger] res->Ok_0.comm_key@[i])@ == ipa_gen(i as nat),   // name=ipa.setup.generators_derived_from_index props=C09
        res->Ok_0.s@ == ipa_gen(res->Ok_0.comm_key@.len()) && res->Ok_0.h@ == ipa_gen((res->Ok_0.comm_key@.len() + 1) as nat),   // name=ipa.setup.h_and_s_are_the_next_two_generators props=C09
//@body
//@rw * /generators\.pop\(\)\.unwrap\(\)/ => generators.pop().unwrap_abort()
//@end

//@fn id=ipa.trim file=poly-commit/src/ipa_pc/mod.rs scope="impl<G, D, P> PolynomialCommitment<G::ScalarField, P> for InnerProductArgPC<G, D, P>" name=trim props=C09,C19,C17
    fn trim(pp: &UniversalParams, supported_degree: usize, _supported_hiding_bound: usize, _enforced_degree_bounds: Option<&[usize]>) -> (res: Result<(CommitterKey, VerifierKey), Error>)
    requires
        pp.comm_key@.len() >= 1, supported_degree < 0x4000_0000_0000_0000,
    ensures
        // refused exactly when the rounded-up degree exceeds the parameters
        (res is Err) == (exists|q: nat| is_pow2(q) && q >= supported_degree + 1 && q > pp.comm_key@.len() && (forall|q2: nat| is_pow2(q2) && q2 >= supported_degree + 1 ==> q <= q2)),   // name=ipa.trim.refuses_iff_beyond_parameters props=C17,C09
        res is Ok ==> is_pow2(res->Ok_0.0.comm_key@.len()) && res->Ok_0.0.comm_key@.len() >= supported_degree + 1
            && (forall|q: nat| is_pow2(q) && q >= supported_degree + 1 ==> res->Ok_0.0.comm_key@.len() <= q),   // name=ipa.trim.key_length_least_power_of_two props=C09,C19
        res is Ok ==> res->Ok_0.0.comm_key@ == pp.comm_key@.subrange(0, res->Ok_0.0.comm_key@.len() as int) && res->Ok_0.0.h == pp.h && res->Ok_0.0.s == pp.s
            && res->Ok_0.0.max_degree == pp.comm_key@.len() - 1,   // name=ipa.trim.committer_key_is_prefix_of_parameters props=C09
        res is Ok ==> res->Ok_0.1.comm_key@ == res->Ok_0.0.comm_key@ && res->Ok_0.1.h == pp.h && res->Ok_0.1.s == pp.s && res->Ok_0.1.max_degree == res->Ok_0.0.max_degree,   // name=ipa.trim.verifier_key_equals_committer_key props=C09
//@body
//@end
}
