// streaming_kzg/data_structures.rs: the folded-polynomial iterators (C14)
// Decided here, for EVERY coefficient stream, challenge list and call: the stack of pending partial folds tiles the consumed prefix of the
// (front-zero-padded) coefficient sequence, level by level, and every item handed out is the fold of the aligned window that ends at the
// current position.  NOT decided: that the space-efficient prover built on these streams returns the same proofs as the time-efficient one.
//@use core ops_gen std
//@spec ring
//@typemap /<'a, F, I>/ => <'a>
//@typemap /<F: Field>/ =>
//@typemap /&'a \[F\]/ => Vec<Fr>
//@typemap /iterator: I\b/ => iterator: CoeffIter
//@typemap /Vec<\(usize, F\)>/ => Vec<(usize, Fr)>
//@typemap /\bF::/ => Fr::
//@typemap /Option<<Self as Iterator>::Item>/ => Option<(usize, Fr)>
//@typemap /Option<Self::Item>/ => Option<Fr>
// ---- trusted environment: the inner coefficient iterator (any `Iterator` whose items borrow field elements): a sequence and a cursor ----
pub struct CoeffIter { pub v: Vec<Fr>, pub pos: usize }
impl CoeffIter {
    #[verifier::external_body] pub fn next(&mut self) -> (r: Option<Fr>)
        ensures final(self).v == old(self).v, old(self).pos < old(self).v@.len() ==> (r == Some(old(self).v@[old(self).pos as int]) && final(self).pos == old(self).pos + 1),
                old(self).pos >= old(self).v@.len() ==> (r is None && final(self).pos == old(self).pos) { unimplemented!() }
}
#[verifier::external_body] pub fn vec_truncate(v: &mut Vec<(usize, Fr)>, n: usize) requires n <= old(v)@.len() ensures final(v)@ == old(v)@.subrange(0, n as int) { unimplemented!() }   // Vec::truncate
//@struct file=poly-commit/src/streaming_kzg/data_structures.rs name=FoldedPolynomialTreeIter
//@spec fold_spec
pub open spec fn tree_wf(it: &FoldedPolynomialTreeIter) -> bool {
    let d = it.challenges@.len(); let n = it_n(it.iterator.v@, it.iterator.pos as nat, d);
    d < 63 && it.iterator.pos <= it.iterator.v@.len() && it.iterator.v@.len() < 0x4000_0000_0000_0000
    && wfs(fviews(it.challenges@), padded(it.iterator.v@, d), d, it.stack@, n as int)
}
//@stub from=streaming.rs id=streaming.init_stack vis=pub
impl FoldedPolynomialTreeIter {
//@fn id=streaming.FoldedPolynomialTreeIter.new file=poly-commit/src/streaming_kzg/data_structures.rs scope="impl<'a, F, I> FoldedPolynomialTreeIter<'a, F, I>" name=new props=C14
    fn new(iterator: CoeffIter, n: usize, challenges: Vec<Fr>) -> (r: Self)
    requires
        n == iterator.v@.len(), iterator.pos == 0, challenges@.len() < 63, n < 0x4000_0000_0000_0000,
    ensures
        tree_wf(&r) && r.iterator == iterator && r.challenges@ == challenges@,   // name=streaming.tree_iter.new.starts_with_the_zero_padding_on_the_stack props=C14
//@body
//@after /let stack = init_stack/
        proof { lemma_wfs_init(fviews(challenges@), iterator.v@, challenges@.len() as nat, stack@); }
//@end
//@fn id=streaming.FoldedPolynomialTreeIter.next file=poly-commit/src/streaming_kzg/data_structures.rs scope="impl<'a, F, I> Iterator for FoldedPolynomialTreeIter<'a, F, I>" name=next props=C14,C17
    fn next(&mut self) -> (r: Option<(usize, Fr)>)
    requires
        tree_wf(old(self)),
    ensures
        tree_wf(final(self)) && final(self).challenges@ == old(self).challenges@ && final(self).iterator.v == old(self).iterator.v,   // name=streaming.tree_iter.next.stack_keeps_tiling_the_consumed_prefix props=C14,C17
        // every item handed out: a level 1..=depth and the fold of the window of 2^level coefficients that ends at the current position
        r is Some ==> (1 <= r->Some_0.0 <= old(self).challenges@.len()
            && pw(r->Some_0.0 as nat) <= it_n(final(self).iterator.v@, final(self).iterator.pos as nat, final(self).challenges@.len())
            && r->Some_0.1@ == ffold(fviews(old(self).challenges@), r->Some_0.0 as nat, padded(old(self).iterator.v@, old(self).challenges@.len()).subrange(
                it_n(final(self).iterator.v@, final(self).iterator.pos as nat, final(self).challenges@.len()) - pw(r->Some_0.0 as nat),
                it_n(final(self).iterator.v@, final(self).iterator.pos as nat, final(self).challenges@.len()) as int))),   // name=streaming.tree_iter.next.item_is_the_fold_of_the_window_ending_here props=C14
        r is None ==> final(self).iterator.pos == final(self).iterator.v@.len(),   // name=streaming.tree_iter.next.none_only_when_the_coefficients_are_exhausted props=C14
    decreases old(self).iterator.v@.len() - old(self).iterator.pos
//@body
//@rw 1 /\*self\.iterator\.next\(\)\?\.borrow\(\)/ => self.iterator.next()?
//@rw 1 /self\.stack\.truncate\(len - 2\);/ => vec_truncate(&mut self.stack, len - 2);
//@rw 1 /self\.stack\.push\(item\)/ => self.stack.push(item);
//@after start
        let ghost ch = fviews(self.challenges@); let ghost d = self.challenges@.len() as nat; let ghost data = self.iterator.v@; let ghost pd = padded(data, d);
        let ghost st0 = self.stack@; let ghost n0 = it_n(data, self.iterator.pos as nat, d) as int; let ghost pos0 = self.iterator.pos;
        proof { lemma_padded_len(data, d); }
//@before /let \(_level, lhs\) = self\.stack\[len - 1\];/
            proof { lemma_step_fold(ch, pd, d, st0, n0); }
//@before /if item\.0 != self\.challenges\.len\(\) \{/
        let ghost stm = self.stack@; let ghost n1 = it_n(data, self.iterator.pos as nat, d) as int;
        proof {
            if self.iterator.pos == pos0 + 1 { lemma_step_read1(ch, pd, d, st0, n0, item.1@); }
            if self.iterator.pos == pos0 { assert(stm =~= st0.subrange(0, st0.len() - 2)); }
            assert(step_ok(ch, pd, d, stm, n1, item.0 as nat, item.1@));
            lemma_step_value(ch, pd, d, stm, n1, item.0 as nat, item.1@);
            if item.0 as nat == d { lemma_finish_return(ch, pd, d, stm, n1, item.1@); } else { lemma_finish_push(ch, pd, d, stm, n1, item.0, item.1); }
        }
//@end
}
