// streaming_kzg/data_structures.rs: the declared sizes of the folded-polynomial streams (`Iterable::len` of FoldedPolynomialTree / FoldedPolynomialStream,
// `FoldedPolynomialTree::depth`)  (C14: the space prover sizes its key windows from these; C19)
// The `Iterable` trait methods are emitted as inherent functions (bodies extracted); the coefficient stream `&S` and the challenge slice are instantiated at (owned) in-memory vectors.
//@use core ops_gen std
//@spec ring
//@typemap /<'a, F, S>/ =>
//@typemap /&'a \[F\]/ => Vec<Fr>
//@typemap /&'a S\b/ => Vec<Fr>
//@struct file=poly-commit/src/streaming_kzg/data_structures.rs name=FoldedPolynomialTree
//@struct file=poly-commit/src/streaming_kzg/data_structures.rs name=FoldedPolynomialStream
//@stub from=lc_utils.rs id=utils.ceil_div vis=pub
impl FoldedPolynomialTree {
//@fn id=streaming.FoldedPolynomialTree.depth file=poly-commit/src/streaming_kzg/data_structures.rs scope="impl<'a, F, S> FoldedPolynomialTree<'a, F, S>" name=depth props=C14
    pub fn depth(&self) -> (r: usize)
    ensures
        r == self.challenges@.len(),     // name=streaming.FoldedPolynomialTree.depth.one_level_per_challenge props=C14
//@body
//@end
//@fn id=streaming.FoldedPolynomialTree.len file=poly-commit/src/streaming_kzg/data_structures.rs scope="impl<'a, F, S> Iterable for FoldedPolynomialTree<'a, F, S>" name=len props=C14,C19
    pub fn len(&self) -> (r: usize)
    ensures
        r == self.coefficients@.len(),     // name=streaming.FoldedPolynomialTree.len.length_of_the_coefficient_stream props=C14,C19
//@body
//@end
}
impl FoldedPolynomialStream {
//@fn id=streaming.FoldedPolynomialStream.len file=poly-commit/src/streaming_kzg/data_structures.rs scope="impl<'a, F, S> Iterable for FoldedPolynomialStream<'a, F, S>" name=len props=C14,C19
    fn stream_len(&self) -> (r: usize)
    requires
        self.0.challenges@.len() < 64,       // (a deeper tree overflows the shift: abort in debug builds)
        self.0.coefficients@.len() + vstd::arithmetic::power2::pow2(self.0.challenges@.len()) <= usize::MAX,
    ensures
        // the k-fold folding of n coefficients has ceil(n / 2^k) coefficients
        r == (self.0.coefficients@.len() + vstd::arithmetic::power2::pow2(self.0.challenges@.len()) - 1) / (vstd::arithmetic::power2::pow2(self.0.challenges@.len()) as int),     // name=streaming.FoldedPolynomialStream.len.ceil_of_n_over_two_to_the_depth props=C14,C19
//@body
//@after start
        proof {
            let k = self.0.challenges@.len();
            vstd::bits::lemma_u64_shl_is_mul(1u64, k as u64);
            vstd::arithmetic::power2::lemma_pow2_pos(k);
        }
//@end
}
