// SuccinctCheckPolynomial::compute_coeffs (ipa_pc/data_structures.rs) and its agreement with `evaluate`  (C16, C10)
//@use core ops_gen std
//@spec ring scp_spec
//@typemap /\bF::/ => Fr::
//@typemap /Vec<F>/ => Vec<Fr>
//@struct file=poly-commit/src/ipa_pc/data_structures.rs name=SuccinctCheckPolynomial
use vstd::arithmetic::power2::pow2;
#[verifier::external_body] pub fn vec_ones(n: usize) -> (r: Vec<Fr>) ensures r@.len() == n, forall|i: int| 0 <= i < n ==> (#[trigger] r@[i])@ == f_one() { unimplemented!() }   // vec![F::one(); n]
impl SuccinctCheckPolynomial {
//@fn id=ipa.SuccinctCheckPolynomial.compute_coeffs file=poly-commit/src/ipa_pc/data_structures.rs scope="impl<F: Field> SuccinctCheckPolynomial<F>" name=compute_coeffs props=C16,C10
    pub fn compute_coeffs(&self) -> (r: Vec<Fr>)
    requires
        self.0@.len() <= 32,       // 2^len coefficients are held in memory
    ensures
        r@.len() == vstd::arithmetic::power2::pow2(self.0@.len()),
        fviews(r@) == scp_coeffs(fviews(self.0@)),   // name=ipa.scp.compute_coeffs.is_the_expanded_coefficient_vector props=C16,C10
        forall|j: int| 0 <= j < r@.len() ==> (#[trigger] r@[j])@ == cfn(fviews(self.0@), self.0@.len(), self.0@.len(), j),   // name=ipa.scp.compute_coeffs.coefficient_is_product_of_selected_challenges props=C16,C10
//@body
//@rw 1 /let mut coeffs = vec!\[F::one\(\); 1 << log_d\];/ => proof { if log_d < 32 { vstd::arithmetic::power2::lemma_pow2_strictly_increases(log_d as nat, 32); } vstd::arithmetic::power2::lemma2_to64(); vstd::arithmetic::power2::lemma_pow2_pos(log_d as nat); vstd::bits::lemma_usize_shl_is_mul(1usize, log_d); }
        let mut coeffs: Vec<Fr> = vec_ones(1usize << log_d);
//@rw 1 /let elem_degree = 1 << \(log_d - i\);/ => proof { let e = (log_d - i) as nat; vstd::arithmetic::power2::lemma_pow2_strictly_increases(e, 64); vstd::arithmetic::power2::lemma2_to64(); vstd::arithmetic::power2::lemma_pow2_pos(e); vstd::bits::lemma_usize_shl_is_mul(1usize, (log_d - i) as usize); }
            let elem_degree: usize = 1usize << (log_d - i);
//@name stepx = /\.step_by\((.*?)\) \{/
//@rw 1 /for start in \((.*?)\.\.(.*?)\)\.step_by\((.*?)\) \{/ => let mut start: usize = \1;
            let ghost mut c: int = 1;
            proof {
                lemma_block_facts(k, m, n as int, ed as int);
                assert forall|j: int| 0 <= j < ed implies #[trigger] cfn(u, k, m, j) == cfn(u, k, (m - 1) as nat, j) by { lemma_even_block(u, k, m, ed as int, 0, j); }
            }
            while start < \2
                invariant coeffs@.len() == n, n == pow2(k), ed == pow2((k - m) as nat), ed == elem_degree, 1 <= m <= k, k <= 32, u == fviews(self.0@), k == self.0@.len(), m == i, challenge@ == u[m - 1],
                    start == ed * c, c % 2 == 1, c >= 1, start <= n + ed, n == ed * pow2(m), pow2(m) % 2 == 0, ed >= 1, n <= 0x1_0000_0000,
                    forall|j: int| 0 <= j < start && j < n ==> (#[trigger] coeffs@[j])@ == cfn(u, k, m, j),
                    forall|j: int| start <= j < n ==> (#[trigger] coeffs@[j])@ == cfn(u, k, (m - 1) as nat, j),
                decreases n + ed - start,
            {
                proof {
                    let pm = pow2(m) as int;
                    assert(c < pm) by (nonlinear_arith) requires ed * c < ed * pm, ed >= 1;
                    assert(ed * (c + 1) <= ed * pm) by (nonlinear_arith) requires c + 1 <= pm, ed >= 1;
                    assert(ed * (c + 1) == ed * c + ed) by (nonlinear_arith);
                }
//@rw 1 /coeffs\[start \+ offset\] \*= challenge;/ => let t__ = coeffs[start + offset] * challenge; coeffs.set(start + offset, t__);
//@before /coeffs\s*\}$/
        proof { reveal(scp_coeffs); assert(fviews(coeffs@) =~= scp_coeffs(u)); }
//@after start
        let ghost u = fviews(self.0@);
        let ghost k = self.0@.len();
        let ghost n = pow2(k);
        proof { if k < 32 { vstd::arithmetic::power2::lemma_pow2_strictly_increases(k, 32); } vstd::arithmetic::power2::lemma2_to64(); }
//@loop 1 kw=for name=it
            invariant coeffs@.len() == n, n == pow2(k), k <= 32, n <= 0x1_0000_0000, u == fviews(self.0@), k == self.0@.len(), log_d == k, *challenges == self.0, it.index@ <= k,
                forall|j: int| 0 <= j < n ==> (#[trigger] coeffs@[j])@ == cfn(u, k, it.index@ as nat, j),
//@loopstart 1
            let ghost m = (it.index@ + 1) as nat;
            let ghost ed = pow2((k - m) as nat);
//@loop 3 kw=for name=it3
                    invariant it3.index@ <= ed, coeffs@.len() == n, start + ed <= n, n <= 0x1_0000_0000, c >= 1, ed >= 1, start == ed * c, c % 2 == 1, ed == elem_degree, challenge@ == u[m - 1], 1 <= m <= k, n == pow2(k), ed == pow2((k - m) as nat),
                        forall|j: int| 0 <= j < start + it3.index@ ==> (#[trigger] coeffs@[j])@ == cfn(u, k, m, j),
                        forall|j: int| start + it3.index@ <= j < n ==> (#[trigger] coeffs@[j])@ == cfn(u, k, (m - 1) as nat, j),
//@loopstart 3
                    proof { lemma_odd_block(u, k, m, ed as int, c, (start + offset) as int); }
//@loopend 2
                proof {
                    assert forall|j: int| start + ed <= j < start + 2 * ed && j < n implies #[trigger] cfn(u, k, m, j) == cfn(u, k, (m - 1) as nat, j) by {
                        assert(start + ed == ed * (c + 1)) by (nonlinear_arith) requires start == ed * c;
                        lemma_even_block(u, k, m, ed as int, c + 1, j);
                    }
                    assert(start + 2 * ed == ed * (c + 2)) by (nonlinear_arith) requires start == ed * c;
                    c = c + 2;
                }
                start = start + $stepx;
//@end
}
//@lemma props=C16
// C16: SuccinctCheckPolynomial::evaluate(z) [unit ipa.SuccinctCheckPolynomial.evaluate: == scp_eval(u, z, k)] equals the value at z of the
// polynomial whose coefficient vector compute_coeffs returns [above: == scp_coeffs(u)], which has 2^k coefficients; for every challenge list and every z
pub proof fn lemma_evaluate_agrees_with_compute_coeffs(u: Seq<FS>, z: FS, evaluate_result: FS, coeffs: Seq<FS>)
    requires
        evaluate_result == scp_eval(u, z, u.len()),      // postcondition of evaluate
        coeffs == scp_coeffs(u),                         // postcondition of compute_coeffs
    ensures
        coeffs.len() == pow2(u.len()),                               // name=ipa.scp.two_to_the_k_coefficients props=C16
        evaluate_result == peval(coeffs, z, coeffs.len()),           // name=ipa.scp.evaluate_equals_expanded_coefficients_at_every_point props=C16
{ lemma_scp_agree(u, z); }
// ---- arithmetic of the block structure ----
pub proof fn lemma_block_facts(k: nat, m: nat, n: int, ed: int)
    requires 1 <= m <= k, n == pow2(k), ed == pow2((k - m) as nat)
    ensures n == ed * pow2(m), pow2(m) % 2 == 0, ed >= 1
{
    vstd::arithmetic::power2::lemma_pow2_adds((k - m) as nat, m);
    vstd::arithmetic::power2::lemma_pow2_pos((k - m) as nat);
    vstd::arithmetic::power2::lemma_pow2_unfold(m);
    assert(pow2(m) == 2 * pow2((m - 1) as nat));
}
// j in block number q (q*ed <= j < (q+1)*ed): bit (k-m) of j is the parity of q
pub proof fn lemma_blockno(ed: int, q: int, j: int)
    requires ed >= 1, q >= 0, ed * q <= j < ed * q + ed
    ensures j / ed == q
{ assert(j == q * ed + (j - ed * q)) by (nonlinear_arith); vstd::arithmetic::div_mod::lemma_fundamental_div_mod_converse(j, ed, q, j - ed * q); }
pub proof fn lemma_even_block(u: Seq<FS>, k: nat, m: nat, ed: int, q: int, j: int)
    requires 1 <= m <= k, ed == pow2((k - m) as nat), ed >= 1, q >= 0, q % 2 == 0, ed * q <= j < ed * q + ed
    ensures cfn(u, k, m, j) == cfn(u, k, (m - 1) as nat, j)
{ lemma_blockno(ed, q, j); ax_mul_one(cfn(u, k, (m - 1) as nat, j)); }
pub proof fn lemma_odd_block(u: Seq<FS>, k: nat, m: nat, ed: int, q: int, j: int)
    requires 1 <= m <= k, ed == pow2((k - m) as nat), ed >= 1, q >= 0, q % 2 == 1, ed * q <= j < ed * q + ed
    ensures cfn(u, k, m, j) == f_mul(cfn(u, k, (m - 1) as nat, j), u[m - 1])
{ lemma_blockno(ed, q, j); }
