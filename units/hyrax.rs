// Hyrax verifier (hyrax/mod.rs) and helpers  (C10, C02, C03, C11, C17)
//@use core ops_gen labeled_comm sponge std ser
//@spec ring vec_spec hyrax_spec
//@typemap /\bF::/ => Fr::
//@typemap /<G>/ => 
//@typemap /Self::VerifierKey/ => HyraxUniversalParams
//@typemap /Self::Proof/ => Vec<HyraxProof>
//@typemap /Self::Commitment/ => HyraxCommitment
//@typemap /Self::Error/ => Error
//@typemap /\bP::Point\b/ => Vec<Fr>
//@typemap /: G =/ => : G1Affine =
//@typemap /Vec<G>/ => Vec<G1Affine>
//@typemap /: G,/ => : G1Affine,
//@typemap /\|_\|/ => |_e|
//@enum file=poly-commit/src/error.rs name=Error
//@struct file=poly-commit/src/hyrax/data_structures.rs name=HyraxUniversalParams
//@struct file=poly-commit/src/hyrax/data_structures.rs name=HyraxCommitment
//@struct file=poly-commit/src/hyrax/data_structures.rs name=HyraxProof
// derived CanonicalSerialize impls (trusted): only their byte image is used
impl SerBytes for HyraxUniversalParams { uninterp spec fn ser_bytes(&self) -> Seq<u8>; }

// ---- utils::inner_product
//@fn id=utils.inner_product file=poly-commit/src/utils.rs scope=top name=inner_product props=C10,C08
pub fn inner_product(v1: &[Fr], v2: &[Fr]) -> (r: Fr)
    ensures
        r@ == fsum(pointwise_mul(fviews(v1@), fviews(v2@)), min(v1@.len(), v2@.len())),   // name=utils.inner_product.value props=C10,C08
//@body
//@rw 1 /(?s)(ark_std::cfg_iter!\(v1\).*)\.sum\(\)/ => { let t__: Vec<Fr> = \1.collect(); proof { assert(fviews(t__@) =~= pointwise_mul(fviews(v1@), fviews(v2@))); } sum_vec(&t__) }
//@rw 1 /\.zip\(v2\)/ => .zip(v2.iter())
//@closure |(li, ri)| => |q: (&Fr, &Fr)| -> (r: Fr) ensures r@ == f_mul(q.0@, q.1@) ;; let (li, ri) = q;
//@end

// tensor_prime (hyrax/utils.rs).  `a.chain(b).collect()` is rewritten to `collect a; collect b; append` (definition of Iterator::chain)
//@fn id=hyrax.tensor_prime file=poly-commit/src/hyrax/utils.rs scope=top name=tensor_prime props=C01,C10
pub fn tensor_prime(values: &[Fr]) -> (r: Vec<Fr>)
    ensures
        fviews(r@) == tensor_prime_spec(fviews(values@)), r@.len() == vstd::arithmetic::power2::pow2(values@.len()),   // name=hyrax.tensor_prime.all_products_of_the_coordinates_or_their_complements props=C01,C10
    decreases values@.len(),
//@body
//@rw 1 /return vec!\[F::one\(\)\];/ => let one__ = vec_one1(); proof { assert(fviews(one__@) =~= tensor_prime_spec(fviews(values@))); vstd::arithmetic::power2::lemma2_to64(); } return one__;
//@rw 1 /tensor_prime\(&values\[1\.\.\]\)/ => tensor_prime(slice_from1(values))
//@rw 1 /(?s)cfg_iter!\(tail\)\s*\.map\(\|v\| (.*?)\)\s*\.chain\(cfg_iter!\(tail\)\.map\(\|v\| (.*?)\)\)\s*\.collect\(\)/ => { let mut a__: Vec<Fr> = tail.iter().map(|v: &Fr| -> (o: Fr) ensures o@ == f_mul(v@, f_sub(f_one(), val@)) { \1 }).collect();
        let mut b__: Vec<Fr> = tail.iter().map(|v: &Fr| -> (o: Fr) ensures o@ == f_mul(v@, val@) { \2 }).collect();
        a__.append(&mut b__);
        proof {
            let vs = fviews(values@); let t = tensor_prime_spec(vs.subrange(1, vs.len() as int));
            assert(fviews(values@.subrange(1, values@.len() as int)) =~= vs.subrange(1, vs.len() as int));
            assert(fviews(a__@) =~= tensor_prime_spec(vs));
            lemma_tensor_prime_len(vs);
        }
        a__ }
//@end
#[verifier::external_body] pub fn vec_one1() -> (r: Vec<Fr>) ensures r@.len() == 1, r@[0]@ == f_one() { unimplemented!() }       // vec![F::one()]
#[verifier::external_body] pub fn slice_from1(v: &[Fr]) -> (r: &[Fr]) requires v@.len() >= 1 ensures r@ == v@.subrange(1, v@.len() as int) { unimplemented!() }   // &v[1..]

pub struct HyraxPC;
impl HyraxPC {
//@fn id=hyrax.pedersen_commit file=poly-commit/src/hyrax/mod.rs scope="impl<G, P> HyraxPC<G, P>" name=pedersen_commit props=C10,C08,C19
    fn pedersen_commit(key: &[G1Affine], scalars: &[Fr]) -> (r: G1)
    ensures
        key@.len() == scalars@.len(),
        r@ == pedersen(key@, fviews(scalars@)),   // name=hyrax.pedersen_commit.value props=C10,C08,C19
//@body
//@closure |s| => |s: &Fr| -> (b: BigInt) ensures b@ == s@
//@after /let scalars_bigint =/
        proof { assert(bviews(scalars_bigint@) =~= fviews(scalars@)); }
//@end

//@fn id=hyrax.check file=poly-commit/src/hyrax/mod.rs scope="impl<G, P> PolynomialCommitment<G::ScalarField, P> for HyraxPC<G, P>" name=check props=C10,C02,C03,C11,C17
    #[verifier::loop_isolation(false)]
    fn check<'a>(vk: &HyraxUniversalParams, commitments: Vec<&'a LabeledCommitment<HyraxCommitment>>, point: &'a Vec<Fr>, _values: Vec<Fr>, proof: &Vec<HyraxProof>, sponge: &mut Sponge, _rng: Option<&mut Rng>) -> (res: Result<bool, Error>)
    requires
        point@.len() < 128,
        vk.com_key@.len() >= 1,
    ensures
        point@.len() % 2 == 1 ==> res is Err,    // name=hyrax.check.odd_number_of_variables_is_err props=C17
        // acceptance implies both dot-product equations for every (commitment, proof) pair, under the transcript-derived challenge
        (res is Ok && res->Ok_0) ==> (forall|i: int| 0 <= i < min(commitments@.len(), proof@.len()) ==>
            (#[trigger] commitments@[i]).commitment.row_coms@.len() == vstd::arithmetic::power2::pow2((point@.len() / 2) as nat)
            && hyrax_eq14(vk, hyrax_r(fviews(point@)), &proof@[i], hyrax_chal(old(sponge).st@, vk, commitments@, fviews(point@), proof@, i as nat))
            && hyrax_eq13(vk, commitments@[i].commitment.row_coms@, hyrax_l(fviews(point@)), &proof@[i], hyrax_chal(old(sponge).st@, vk, commitments@, fviews(point@), proof@, i as nat))),   // name=hyrax.check.accept_implies_eq13_eq14 props=C10,C02
        (res is Ok && res->Ok_0) ==> final(sponge).st@ == hyrax_state(old(sponge).st@, vk, commitments@, fviews(point@), proof@, min(commitments@.len(), proof@.len())),   // name=hyrax.check.absorb_squeeze_schedule props=C11
        (point@.len() % 2 == 0 && proof@.len() != commitments@.len()) ==> res is Err,   // name=hyrax.check.err_if_proof_count_differs props=C03,C17
        (res is Ok && res->Ok_0) ==> proof@.len() >= commitments@.len(),   // name=hyrax.check.accept_implies_a_proof_for_every_commitment props=C03 finding=F8
        (res is Ok && res->Ok_0) ==> (forall|i: int| 0 <= i < min(commitments@.len(), _values@.len()) ==> hyrax_value_bound(vk, (#[trigger] _values@[i])@, &proof@[i])),   // name=hyrax.check.accept_implies_claimed_value_bound_to_com_eval props=C02,C10 finding=F1
//@body
//@r13
//@rw 1 /point\.iter\(\)\.rev\(\)\.cloned\(\)\.collect\(\)/ => point.iter().rev().map(|x: &Fr| -> (y: Fr) ensures y == *x { *x }).collect()
//@closure |chi| => |chi: &Fr| -> (b: BigInt) ensures b@ == chi@
//@before /let l = tensor_prime\(point_lower\);/
        proof {
            assert(fviews(point_rev@) =~= rev_seq(fviews(point@)));
            assert(fviews(point_lower@) =~= rev_seq(fviews(point@)).subrange((point@.len() / 2) as int, point@.len() as int));
            assert(fviews(point_upper@) =~= rev_seq(fviews(point@)).subrange(0, (point@.len() / 2) as int));
        }
//@before /let commitments: Vec<_> = commitments\.into_iter\(\)\.collect\(\);/
        let ghost commitments0 = commitments@;
//@after /let commitments: Vec<_> = commitments\.into_iter\(\)\.collect\(\);/
        proof { assert(commitments@ == commitments0); }
//@loop 1 kw=for name=it
            invariant commitments@ == commitments0, commitments@.len() == proof@.len(),
                it.index@ <= min(commitments@.len(), proof@.len()), point@.len() < 128, n == point@.len(), n % 2 == 0, vk.com_key@.len() >= 1,
                fviews(l@) == hyrax_l(fviews(point@)), fviews(r@) == hyrax_r(fviews(point@)),
                sponge.st@ == hyrax_state(old(sponge).st@, vk, commitments@, fviews(point@), proof@, it.index@ as nat),
                forall|i: int| 0 <= i < it.index@ ==>
                    (#[trigger] commitments@[i]).commitment.row_coms@.len() == vstd::arithmetic::power2::pow2((point@.len() / 2) as nat)
                    && hyrax_eq14(vk, hyrax_r(fviews(point@)), &proof@[i], hyrax_chal(old(sponge).st@, vk, commitments@, fviews(point@), proof@, i as nat))
                    && hyrax_eq13(vk, commitments@[i].commitment.row_coms@, hyrax_l(fviews(point@)), &proof@[i], hyrax_chal(old(sponge).st@, vk, commitments@, fviews(point@), proof@, i as nat)),
//@before /let t_prime: G =/
            proof { assert(bviews(l_bigint@) =~= fviews(l@)); }
//@before /if row_coms\.len\(\) != 1 << n \/ 2 \{/
            proof {
                vstd::arithmetic::power2::lemma_pow2_strictly_increases((n / 2) as nat, 64); vstd::arithmetic::power2::lemma2_to64();
                vstd::arithmetic::power2::lemma_pow2_pos((n / 2) as nat);
                vstd::bits::lemma_usize_shl_is_mul(1usize, (n / 2) as usize);
            }
//@end
}
