// InnerProductArgPC::batch_check (ipa_pc/mod.rs)  (C05, C10, C11)
//@use core ops_gen poly labeled labeled_comm sponge std ser
//@spec ring
//@typemap /<G>/ =>
//@typemap /G::Group::/ => G1::
//@typemap /Option<G>/ => Option<G1Affine>
//@typemap /Vec<G>/ => Vec<G1Affine>
//@typemap /: G,/ => : G1Affine,
//@typemap /G::ScalarField::/ => Fr::
//@typemap /\bP::Point\b/ => Fr
//@typemap /\bP::zero\(\)/ => Poly::zero()
//@typemap /\bP::from_coefficients_vec\b/ => Poly::from_coefficients_vec
//@typemap /Vec<F>/ => Vec<Fr>
//@typemap /Self::VerifierKey/ => VerifierKey
//@typemap /Self::Commitment/ => Commitment
//@typemap /Self::BatchProof/ => Vec<Proof>
//@typemap /Self::Error/ => Error
//@typemap /&QuerySet<Fr>/ => &BTreeSet<(String, (String, Fr))>
//@typemap /&Evaluations<Fr::ScalarField, Fr>/ => &BTreeMap<(String, Fr), Fr>
//@typemap /&Evaluations<G::ScalarField, Fr>/ => &BTreeMap<(String, Fr), Fr>
//@typemap /<'a, R: RngCore>/ => <'a>
//@typemap /&mut R\b/ => &mut Rng
//@enum file=poly-commit/src/error.rs name=Error
//@struct file=poly-commit/src/ipa_pc/data_structures.rs name=CommitterKey
//@struct file=poly-commit/src/ipa_pc/data_structures.rs name=Commitment
//@struct file=poly-commit/src/ipa_pc/data_structures.rs name=Proof
//@struct file=poly-commit/src/ipa_pc/data_structures.rs name=SuccinctCheckPolynomial
pub type VerifierKey = CommitterKey;
pub type Comm = Commitment;
pub type Pt = Fr;
//@use pcenv
//@use h2c
//@spec group_spec h2c_spec scp_spec ipa_spec
impl SuccinctCheckPolynomial {
//@stub from=ipa_coeffs.rs id=ipa.SuccinctCheckPolynomial.compute_coeffs vis=pub
}
// coefficient i of a dense polynomial (0 beyond its length)
pub open spec fn cf(p: Seq<FS>, i: int) -> FS { if 0 <= i < p.len() { p[i] } else { f_zero() } }
pub open spec fn padded(p: Seq<FS>, n: nat) -> Seq<FS> { Seq::new(n, |i: int| cf(p, i)) }
// commitment of a coefficient vector under the whole key (missing coefficients are zero; surplus ones are ignored by the MSM)
pub open spec fn kdot(key: Seq<G1Affine>, p: Seq<FS>) -> FS { dot(g1views(key), padded(p, key.len()), key.len()) }
impl Poly {
    // `p += (f, &q)` on DensePolynomial: coefficient-wise p_i + f * q_i (trailing zeros may be trimmed)   [assumed]
    #[verifier::external_body] pub fn add_assign_scaled(&mut self, q: (Fr, &Poly))
        ensures forall|i: int| #[trigger] cf(final(self).cv(), i) == f_add(cf(old(self).cv(), i), f_mul(q.0@, cf(q.1.cv(), i))) { unimplemented!() }
}
pub proof fn lemma_msm_is_kdot(key: Seq<G1Affine>, p: Seq<FS>)
    ensures msm(key, p, min(key.len(), p.len())) == kdot(key, p)
{
    let n = key.len(); let m = min(key.len(), p.len());
    lemma_dot_ext(g1views(key), g1views(key), p, padded(p, n), m);
    lemma_kdot_tail(key, p, m, n);
}
pub proof fn lemma_kdot_tail(key: Seq<G1Affine>, p: Seq<FS>, m: nat, n: nat)
    requires m <= n, n <= key.len(), m == min(key.len(), p.len())
    ensures dot(g1views(key), padded(p, key.len()), n) == dot(g1views(key), padded(p, key.len()), m)
    decreases n
{ if m < n { lemma_kdot_tail(key, p, m, (n - 1) as nat); lemma_mul_zero(g1views(key)[n - 1]); ax_add_zero(dot(g1views(key), padded(p, key.len()), (n - 1) as nat)); } }
pub proof fn lemma_kdot_linear(key: Seq<G1Affine>, a: Seq<FS>, b: Seq<FS>, f: FS, c: Seq<FS>)
    requires forall|i: int| #[trigger] cf(c, i) == f_add(cf(a, i), f_mul(f, cf(b, i)))
    ensures kdot(key, c) == f_add(kdot(key, a), f_mul(f, kdot(key, b)))
{
    let n = key.len();
    let fb = Seq::new(n, |i: int| f_mul(f, cf(b, i)));
    assert forall|i: int| 0 <= i < n implies padded(c, n)[i] == f_add(padded(a, n)[i], fb[i]) by { let t = cf(c, i); }
    lemma_dot_add(g1views(key), padded(a, n), fb, padded(c, n), n);
    lemma_dot_scale(g1views(key), padded(b, n), f, fb, n);
}

// ======================= specification =======================
pub open spec fn i_r(id: int, pos: nat, g: nat) -> FS { if g == 0 { f_one() } else { draw_u128(id, (pos + g - 1) as nat) } }
pub open spec fn i_nsq(k: nat) -> nat { 1 + 2 * k }
pub open spec fn i_state(gs: Seq<(String, (Pt, Set<String>))>, s0: SS, k: nat) -> SS decreases k {
    if k == 0 { s0 } else { sp_iter(i_state(gs, s0, (k - 1) as nat), i_nsq(labels_seq(gs[k - 1].1.1).len())) }
}
// group g passes the succinct check
#[verifier::opaque]
pub open spec fn i_rel(vk: &VerifierKey, m: Map<&String, &LabeledCommitment<Comm>>, ev: Map<(String, Pt), Fr>, gs: Seq<(String, (Pt, Set<String>))>, pv: Seq<Proof>, s0: SS, g: int) -> bool {
    let ls = labels_seq(gs[g].1.1);
    ipa_relation(vk, gather_c(m, ls), gather_v(ev, gs[g].1.0, ls), gs[g].1.0, &pv[g], i_state(gs, s0, g as nat), ls.len())
}
// coefficient vector of group g's check polynomial
#[verifier::opaque]
pub open spec fn i_h(vk: &VerifierKey, m: Map<&String, &LabeledCommitment<Comm>>, ev: Map<(String, Pt), Fr>, gs: Seq<(String, (Pt, Set<String>))>, pv: Seq<Proof>, s0: SS, g: int) -> Seq<FS> {
    let ls = labels_seq(gs[g].1.1);
    scp_coeffs(ipa_u(vk, gather_c(m, ls), gather_v(ev, gs[g].1.0, ls), gs[g].1.0, &pv[g], i_state(gs, s0, g as nat), ls.len()))
}
// sum_g r_g * <key, h_g>   and   sum_g r_g * final_comm_key_g
pub open spec fn i_lhs(vk: &VerifierKey, m: Map<&String, &LabeledCommitment<Comm>>, ev: Map<(String, Pt), Fr>, gs: Seq<(String, (Pt, Set<String>))>, pv: Seq<Proof>, s0: SS, id: int, pos: nat, k: nat) -> FS decreases k {
    if k == 0 { f_zero() } else { f_add(i_lhs(vk, m, ev, gs, pv, s0, id, pos, (k - 1) as nat), f_mul(i_r(id, pos, (k - 1) as nat), kdot(vk.comm_key@, i_h(vk, m, ev, gs, pv, s0, k - 1)))) }
}
pub open spec fn i_rhs(pv: Seq<Proof>, id: int, pos: nat, k: nat) -> FS decreases k {
    if k == 0 { f_zero() } else { f_add(i_rhs(pv, id, pos, (k - 1) as nat), f_mul(pv[k - 1].final_comm_key@, i_r(id, pos, (k - 1) as nat))) }
}
pub open spec fn ibatch_post(vk: &VerifierKey, cs: Seq<&LabeledCommitment<Comm>>, qs: Set<(String, (String, Pt))>, ev: Map<(String, Pt), Fr>, pv: Seq<Proof>, s0: SS, id: int, pos: nat, res: Result<bool, Error>) -> bool {
    exists|gs: Seq<(String, (Pt, Set<String>))>, m: Map<&String, &LabeledCommitment<Comm>>| #![trigger groups_of(qs, gs), cmap_ok(m, cs)]
        groups_of(qs, gs) && cmap_ok(m, cs) && gs.len() == pv.len()      // (a different number of proofs aborts)
        // accepted iff every group passes its succinct check and the randomised combination of the final keys matches
        && res->Ok_0 == ((forall|g: int| 0 <= g < gs.len() ==> #[trigger] i_rel(vk, m, ev, gs, pv, s0, g))
                         && i_lhs(vk, m, ev, gs, pv, s0, id, pos, gs.len()) == i_rhs(pv, id, pos, gs.len()))
}

pub struct InnerProductArgPC;
impl InnerProductArgPC {
//@stub from=ipa.rs id=ipa.succinct_check
//@stub from=ipa.rs id=ipa.cm_commit
//@fn id=ipa.batch_check file=poly-commit/src/ipa_pc/mod.rs scope="impl<G, D, P> PolynomialCommitment<G::ScalarField, P> for InnerProductArgPC<G, D, P>" name=batch_check props=C05,C10,C11,C17
    #[verifier::loop_isolation(false)]
    fn batch_check<'a>(vk: &VerifierKey, commitments: Vec<&'a LabeledCommitment<Commitment>>, query_set: &BTreeSet<(String, (String, Fr))>, values: &BTreeMap<(String, Fr), Fr>, proof: &Vec<Proof>, sponge: &mut Sponge, rng: &mut Rng) -> (res: Result<bool, Error>)
    requires
        vk.comm_key@.len() >= 1, vk.comm_key@.len() < usize::MAX, rng.present@,
        forall|i: int| 0 <= i < commitments@.len() ==> ((#[trigger] commitments@[i]).degree_bound is Some ==> commitments@[i].degree_bound->Some_0 <= vk.comm_key@.len() - 1),
        forall|i: int| 0 <= i < proof@.len() ==> min((#[trigger] proof@[i]).l_vec@.len(), proof@[i].r_vec@.len()) < 32,
    ensures
        res is Ok ==> ibatch_post(vk, commitments@, query_set@, values@, proof@, old(sponge).st@, old(rng).id@, old(rng).pos@, res),   // name=ipa.batch_check.all_succinct_checks_and_randomised_final_key props=C05,C10,C11,C17
//@body
//@rw 1 /(?s)let commitments: BTreeMap<_, _> = (commitments\.into_iter\(\)\.map\(.*?\))\.collect\(\);/ => let cv__: Vec<(&String, &LabeledCommitment<Comm>)> = \1.collect();
        let commitments: BTreeMap<&String, &LabeledCommitment<Comm>> = btree_from_pairs(cv__);
        proof {
            assert forall|i: int| #[trigger] c_is_last(cs0, i) implies commitments@[&cs0[i].label] == cs0[i] by {
                assert(cv__@[i].0 == &cs0[i].label);
                assert forall|j: int| i < j < cv__@.len() implies cv__@[j].0 != cv__@[i].0 by { assert(*cv__@[j].0 == cs0[j].label); }
            }
            assert forall|k: &String| commitments@.dom().contains(k) == (exists|i: int| 0 <= i < cs0.len() && (#[trigger] cs0[i]).label == *k) by {
                if commitments@.dom().contains(k) { let i = choose|i: int| 0 <= i < cv__@.len() && (#[trigger] cv__@[i]).0 == k; assert(cs0[i].label == *k); }
                if exists|i: int| 0 <= i < cs0.len() && (#[trigger] cs0[i]).label == *k { let i = choose|i: int| 0 <= i < cs0.len() && (#[trigger] cs0[i]).label == *k; assert(cv__@[i].0 == k); }
            }
            assert(cmap_ok(commitments@, cs0));
        }
//@closure |c| => |c: &'a LabeledCommitment<Comm>| -> (kv: (&String, &LabeledCommitment<Comm>)) ensures *kv.0 == c.label, kv.1 == c
//@rw 1 /let mut query_to_labels_map = BTreeMap::new\(\);/ => let mut query_to_labels_map: BTreeMap<&String, (&Pt, BTreeSet<&String>)> = BTreeMap::new();
//@rw 1 /for \(label, \(point_label, point\)\) in([^{]*?)query_set\.iter\(\)([^{]*)\{/ => let qv__ = query_set_to_vec(query_set); for q__ in\1qv__.iter()\2{ let label: &String = &q__.0; let point_label: &String = &q__.1.0; let point: &Pt = &q__.1.1;
//@rw 1 /(?s)let labels = query_to_labels_map\s*\.entry\(point_label\)\s*\.or_insert\(\(point, BTreeSet::new\(\)\)\);\s*labels\.1\.insert\(label\);/ => group_insert(&mut query_to_labels_map, point_label, point, label);
//@rw 1 /query_to_labels_map\.len\(\)/ => map_len(&query_to_labels_map)
//@rw 1 /for \(\(_point_label, \(point, labels\)\), p\) in([^{]*?)query_to_labels_map\.into_iter\(\)\.zip\(proof\)/ => let gv__ = map_into_sorted_vec(query_to_labels_map); let ghost gs = Seq::new(gv__@.len(), |i: int| (*gv__@[i].0, (*gv__@[i].1.0, set_vals(gv__@[i].1.1@))));
        proof { lemma_groups(query_set@, qmap0, gv__@, gs); }
        for ((_point_label, (point, labels)), p) in\1gv__.into_iter().zip(proof.iter())
//@rw 1 /for label in([^{]*?)labels\.into_iter\(\)([^{]*)\{/ => let ghost lset = labels@; let lv__ = set_into_sorted_vec(labels); for label__r in\1lv__.iter()\2{ let label: &String = *label__r;
//@rw 1 /commitments\.get\(label\)/ => btree_get_by_label(&commitments, label)
//@rw * /label\.to_string\(\)/ => string_to_string(label)
//@rw 1 /label\.clone\(\)/ => string_to_string(label)
//@rw 1 /let mut vals = Vec::new\(\);/ => let mut vals: Vec<Fr> = Vec::new();
//@rw 1 /u128::rand\(rng\)\.into\(\)/ => Fr::from_u128_rand(rng)
//@rw 1 /comms\.into_iter\(\), \*point, vals\.into_iter\(\), p, sponge/ => comms, *point, vals, p, sponge
//@rw 1 /check_poly\.unwrap\(\)/ => check_poly.unwrap_abort()
//@rw 1 /combined_check_poly \+= \(randomizer, &check_poly\);/ => combined_check_poly.add_assign_scaled((randomizer, &check_poly));
//@after start
        let ghost cs0 = commitments@;
        let ghost s0 = sponge.st@;
        let ghost id0 = rng.id@; let ghost pos0 = rng.pos@;
        let ghost pv0 = proof@;
//@loop 1 kw=for name=it
            invariant it.index@ <= qv__@.len(), qv__@.len() == set_seq(query_set@).len(),
                forall|i: int| 0 <= i < qv__@.len() ==> *(#[trigger] qv__@[i]) == set_seq(query_set@)[i],
                qmap_abs(query_to_labels_map@, gmap(set_seq(query_set@), it.index@ as nat)),
//@loopstart 1
            let ghost m0 = query_to_labels_map@;
            let ghost kq = it.index@;
//@loopend 1
            proof {
                let qseq = set_seq(query_set@);
                assert(*q__ == qseq[kq]);
                lemma_gmap_step(m0, query_to_labels_map@, qseq, kq as nat, point_label, point, label);
            }
//@afterloop 1
        let ghost qmap0 = query_to_labels_map@;
//@beforeloop 2
        proof { lemma_dot_all_zero_second(g1views(vk.comm_key@), padded(combined_check_poly.cv(), vk.comm_key@.len()), vk.comm_key@.len()); }
//@loop 2 kw=for name=it2
            invariant it2.index@ <= gs.len(), gs.len() == gv__@.len(), gs.len() == pv0.len(),
                gs == Seq::new(gv__@.len(), |i: int| (*gv__@[i].0, (*gv__@[i].1.0, set_vals(gv__@[i].1.1@)))),
                rng.id@ == id0, rng.present@, rng.pos@ == pos0 + it2.index@, randomizer@ == i_r(id0, pos0, it2.index@ as nat),
                sponge.st@ == i_state(gs, s0, it2.index@ as nat),
                forall|g: int| 0 <= g < it2.index@ ==> #[trigger] i_rel(vk, commitments@, values@, gs, pv0, s0, g),
                kdot(vk.comm_key@, combined_check_poly.cv()) == i_lhs(vk, commitments@, values@, gs, pv0, s0, id0, pos0, it2.index@ as nat),
                combined_final_key@ == i_rhs(pv0, id0, pos0, it2.index@ as nat),
//@loopstart 2
            let ghost k = it2.index@;
            let ghost ls = labels_seq(gs[k].1.1);
            let ghost cp0 = combined_check_poly.cv();
//@beforeloop 3
                proof { assert(*point == gs[k].1.0 && set_vals(labels@) == gs[k].1.1); assert(*p == pv0[k]); }
//@loop 3 kw=for name=it3
                invariant k < gs.len(), it3.index@ <= lv__@.len(), lv__@.len() == ls.len(), forall|i: int| 0 <= i < ls.len() ==> *(#[trigger] lv__@[i]) == ls[i],
                    comms@.len() == it3.index@, vals@.len() == it3.index@,
                    gather_ok(commitments@, values@, *point, ls, it3.index@ as nat),
                    forall|i: int| 0 <= i < it3.index@ ==> (#[trigger] comms@[i]) == commitments@[&ls[i]] && vals@[i] == values@[(ls[i], *point)],
//@loopstart 3
                    let ghost j = it3.index@; let ghost c0__ = comms@; let ghost v0__ = vals@;
                    proof { assert(*label == ls[j]); }
//@loopend 3
                    proof {
                        assert(comms@[j] == commitments@[&ls[j]]); assert(vals@[j] == values@[(ls[j], *point)]);
                        assert forall|i: int| 0 <= i < j + 1 implies (#[trigger] comms@[i]) == commitments@[&ls[i]] && vals@[i] == values@[(ls[i], *point)] by {
                            if i < j { assert(comms@[i] == c0__[i]); assert(vals@[i] == v0__[i]); assert(c0__[i] == commitments@[&ls[i]]); }
                        }
                    }
//@afterloop 3
                proof {
                    assert forall|i: int| 0 <= i < ls.len() implies vals@[i] == gather_v(values@, *point, ls)[i] by { let c = comms@[i]; assert(c == commitments@[&ls[i]]); }
                    assert(comms@ =~= gather_c(commitments@, ls));
                    assert(vals@ =~= gather_v(values@, *point, ls));
                    assert forall|i: int| 0 <= i < comms@.len() implies ((#[trigger] comms@[i]).degree_bound is Some ==> comms@[i].degree_bound->Some_0 <= vk.comm_key@.len() - 1) by {
                        let lc = commitments@[&ls[i]]; assert(commitments@.dom().contains(&ls[i]));
                        let w = choose|w: int| 0 <= w < cs0.len() && (#[trigger] cs0[w]).label == ls[i];
                        lemma_cmap_member(commitments@, cs0, &ls[i]);
                    }
                }
//@after /let check_poly =\s*Self::succinct_check/
            let ghost rel_k = check_poly is Some;
            let ghost u_k = if check_poly is Some { fviews(check_poly->Some_0.0@) } else { Seq::empty() };
            proof {
                assert(rel_k == i_rel(vk, commitments@, values@, gs, pv0, s0, k)) by { reveal(i_rel); }
                if rel_k { assert(scp_coeffs(u_k) == i_h(vk, commitments@, values@, gs, pv0, s0, k)) by { reveal(i_h); } }
            }
//@before /combined_check_poly \+= \(randomizer, &check_poly\);/
            let ghost cpb = combined_check_poly.cv();
//@after /combined_check_poly \+= \(randomizer, &check_poly\);/
            proof {
                let hk = i_h(vk, commitments@, values@, gs, pv0, s0, k);
                assert forall|i: int| cf(check_poly.cv(), i) == cf(hk, i) by { }
                lemma_kdot_ext(vk.comm_key@, check_poly.cv(), hk);
                lemma_kdot_linear(vk.comm_key@, cp0, check_poly.cv(), randomizer@, combined_check_poly.cv());
                ax_mul_comm(pv0[k].final_comm_key@, randomizer@);
            }
//@before /let final_key = Self::cm_commit\(/
        proof { assert(groups_of(query_set@, gs) && cmap_ok(commitments@, cs0)); }
//@after /let final_key = Self::cm_commit\(/
        proof {
            lemma_msm_is_kdot(vk.comm_key@, combined_check_poly.cv());
            broadcast use ax_add_zero;
            lemma_sub_zero_iff(final_key@, combined_final_key@);
        }
//@end
}
pub proof fn lemma_dot_all_zero_second(a: Seq<FS>, s: Seq<FS>, n: nat)
    requires n <= a.len(), n <= s.len(), forall|i: int| 0 <= i < n ==> s[i] == f_zero()
    ensures dot(a, s, n) == f_zero()
    decreases n
{ if n > 0 { lemma_dot_all_zero_second(a, s, (n - 1) as nat); lemma_mul_zero(a[n - 1]); ax_add_zero(f_zero()); } }
pub proof fn lemma_sub_zero_iff(a: FS, b: FS) ensures (f_sub(a, b) == f_zero()) == (a == b)
{ if f_sub(a, b) == f_zero() { lemma_sub_zero_eq(a, b); } else if a == b { lemma_sub_self(a); } }
pub proof fn lemma_kdot_ext(key: Seq<G1Affine>, a: Seq<FS>, b: Seq<FS>)
    requires forall|i: int| cf(a, i) == cf(b, i)
    ensures kdot(key, a) == kdot(key, b)
{ assert(padded(a, key.len()) =~= padded(b, key.len())); }
// every commitment stored in the label map is one of the given commitments
pub proof fn lemma_cmap_member(m: Map<&String, &LabeledCommitment<Comm>>, cs: Seq<&LabeledCommitment<Comm>>, k: &String)
    requires cmap_ok(m, cs), m.dom().contains(k)
    ensures exists|i: int| 0 <= i < cs.len() && m[k] == #[trigger] cs[i]
{
    // the last commitment carrying label k
    let w = choose|i: int| 0 <= i < cs.len() && (#[trigger] cs[i]).label == *k;
    lemma_last_exists(cs, *k, w, cs.len() as int);
    let j = choose|j: int| c_is_last(cs, j) && cs[j].label == *k;
    assert(m[&cs[j].label] == cs[j]);
}
pub proof fn lemma_last_exists(cs: Seq<&LabeledCommitment<Comm>>, l: String, w: int, n: int)
    requires 0 <= w < n <= cs.len(), cs[w].label == l
    ensures exists|j: int| #[trigger] c_is_last(cs, j) && cs[j].label == l
    decreases cs.len() - w
{
    if forall|j: int| w < j < cs.len() ==> (#[trigger] cs[j]).label != l { assert(c_is_last(cs, w)); }
    else { let j2 = choose|j: int| w < j < cs.len() && (#[trigger] cs[j]).label == l; lemma_last_exists(cs, l, j2, cs.len() as int); }
}
