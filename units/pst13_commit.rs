// MarlinPST13::commit, check_degrees_and_bounds, check_hiding_bound, convert_to_bigints (marlin/marlin_pst13_pc/mod.rs)  (C08, C07, C17)
//@use core ops_gen labeled_comm sponge std
//@spec ring
//@typemap /\bP::Term::/ => Term::
//@typemap /<E>/ => 
//@typemap /Self::CommitterKey/ => CommitterKey
//@typemap /Self::Commitment\b/ => marlin_pc::Commitment
//@typemap /Self::CommitmentState/ => Randomness
//@typemap /Self::Error/ => Error
//@typemap /Randomness::<E, P>::/ => Randomness::
//@typemap /<E::G1 as VariableBaseMSM>::/ => G1::
//@typemap /: &P =/ => : &MvPoly =
//@typemap /\(p: &P\)/ => (p: &MvPoly)
//@typemap /Vec<<E::ScalarField as PrimeField>::BigInt>/ => Vec<BigInt>
//@typemap /&'a LabeledPolynomial<E::ScalarField, P>/ => &'a LabeledMv
//@enum file=poly-commit/src/error.rs name=Error
pub mod kzg10 {
    use super::*;
//@struct file=poly-commit/src/kzg10/data_structures.rs name=Commitment
}
pub mod marlin_pc {
    use super::*;
//@struct file=poly-commit/src/marlin/marlin_pc/data_structures.rs name=Commitment
}
// ---- trusted environment: ark-poly sparse multivariate polynomials, the term-indexed key, the blinding polynomial ----
pub struct Term { pub v: Vec<(usize, usize)> }
impl Term {
    #[verifier::external_body] pub fn is_constant(&self) -> (r: bool) ensures r == (self.v@.len() == 0) { unimplemented!() }     // (monomials in normal form)
    #[verifier::external_body] pub fn vars(&self) -> (r: Vec<usize>) ensures r@.len() == self.v@.len(), forall|i: int| 0 <= i < r@.len() ==> r@[i] == (#[trigger] self.v@[i]).0 { unimplemented!() }
    #[verifier::external_body] pub fn degree(&self) -> (r: usize) ensures r == tdeg(self.v@, self.v@.len()) { unimplemented!() }
}
pub open spec fn tdeg(t: Seq<(usize, usize)>, k: nat) -> nat decreases k { if k == 0 { 0 } else { tdeg(t, (k - 1) as nat) + t[k - 1].1 as nat } }
pub struct MvPoly { pub num_vars: usize, pub terms: Vec<(Fr, Term)> }
impl MvPoly {
    #[verifier::external_body] pub fn terms(&self) -> (r: &Vec<(Fr, Term)>) ensures r@ == self.terms@ { unimplemented!() }
    #[verifier::external_body] pub fn degree(&self) -> (r: usize) ensures r == self.deg() { unimplemented!() }
    #[verifier::external_body] pub fn zero() -> (r: MvPoly) ensures r.terms@.len() == 0, r.num_vars == 0 { unimplemented!() }
    pub uninterp spec fn deg(&self) -> usize;
}
pub struct LabeledMv { pub label: String, pub polynomial: MvPoly, pub hiding_bound: Option<usize> }
impl LabeledMv {
    pub fn label(&self) -> (r: &String) ensures *r == self.label { &self.label }
    pub fn polynomial(&self) -> (r: &MvPoly) ensures *r == self.polynomial { &self.polynomial }
    pub fn hiding_bound(&self) -> (r: Option<usize>) ensures r == self.hiding_bound { self.hiding_bound }
    #[verifier::external_body] pub fn degree(&self) -> (r: usize) ensures r == self.polynomial.deg() { unimplemented!() }     // Deref to the polynomial
    #[verifier::external_body] pub fn is_zero(&self) -> (r: bool) ensures r ==> forall|x: Asg| #[trigger] mve(self.polynomial.terms@, x) == f_zero() { unimplemented!() }     // Deref to the polynomial (same contract as MvPoly::is_zero)
}
// CommitterKey: the term-indexed table powers_of_g (BTreeMap<Term, G1Affine>) is read through `get(term).unwrap()` only
pub struct CommitterKey { pub powers_of_g: TermTable, pub gamma_g: G1Affine, pub powers_of_gamma_g: Vec<Vec<G1Affine>>, pub num_vars: usize, pub supported_degree: usize, pub max_degree: usize }
#[verifier::external_body] pub struct TermTable { _x: u8 }
pub uninterp spec fn pst_key(t: &TermTable, m: Seq<(usize, usize)>) -> FS;        // the key element stored for monomial m
#[verifier::external_body] pub fn table_get(t: &TermTable, term: &Term) -> (r: G1Affine) ensures r@ == pst_key(t, term.v@) { unimplemented!() }   // `*t.get(term).unwrap()`: a missing monomial aborts
pub struct Randomness { pub blinding_polynomial: MvPoly }
// every monomial of a blinding polynomial is a constant or a power x_v^k of ONE variable with v < num_vars and k <= degree (ark-poly SparsePolynomial::rand)
pub open spec fn blinding_ok(p: &MvPoly, num_vars: nat, d: nat) -> bool {
    forall|i: int| 0 <= i < p.terms@.len() ==> (#[trigger] p.terms@[i]).1.v@.len() <= 1
        && (p.terms@[i].1.v@.len() == 1 ==> p.terms@[i].1.v@[0].0 < num_vars && 1 <= p.terms@[i].1.v@[0].1 <= d)
}
// the degree parameter a random polynomial was sampled with (its univariate summands have d + 1 random coefficients each)
pub uninterp spec fn sampled_degree(p: &MvPoly) -> nat;
impl MvPoly {
    // SparsePolynomial::rand(d, l, rng): the sum of l univariate polynomials of degree d with coefficients from the caller's stream   [assumed]
    #[verifier::external_body] pub fn rand(d: usize, l: usize, rng: &mut Rng) -> (r: MvPoly)
        ensures old(rng).present@, blinding_ok(&r, l as nat, d as nat), r.num_vars == l, sampled_degree(&r) == d,
            final(rng).id == old(rng).id, final(rng).present == old(rng).present, final(rng).pos@ >= old(rng).pos@ + r.terms@.len(),
            forall|i: int| 0 <= i < r.terms@.len() ==> (#[trigger] r.terms@[i]).0@ == draw(old(rng).id@, old(rng).pos@ + i as nat) { unimplemented!() }
}
impl Randomness {
//@fn id=pst13.Randomness.calculate_hiding_polynomial_degree file=poly-commit/src/marlin/marlin_pst13_pc/data_structures.rs scope="impl<E, P> Randomness<E, P>" name=calculate_hiding_polynomial_degree props=C07
    pub fn calculate_hiding_polynomial_degree(hiding_bound: usize) -> (r: usize)
    requires
        hiding_bound < usize::MAX,
    ensures
        r == hiding_bound + 1,   // name=pst13.Randomness.hiding_polynomial_degree_is_bound_plus_one props=C07
//@body
//@end
//@fn id=pst13.Randomness.empty file=poly-commit/src/marlin/marlin_pst13_pc/data_structures.rs scope="impl<E, P> PCCommitmentState for Randomness<E, P>" name=empty props=C07
    pub fn empty() -> (r: Randomness)
    ensures
        r.blinding_polynomial.terms@.len() == 0, r.blinding_polynomial.num_vars == 0,   // name=pst13.Randomness.empty.zero_blinding_polynomial props=C07
//@body
//@rw 1 /P::zero\(\)/ => MvPoly::zero()
//@rw 1 /_engine: PhantomData,/ =>
//@end
//@fn id=pst13.Randomness.rand file=poly-commit/src/marlin/marlin_pst13_pc/data_structures.rs scope="impl<E, P> PCCommitmentState for Randomness<E, P>" name=rand props=C07
    pub fn rand(hiding_bound: usize, _b: bool, num_vars: Option<usize>, rng: &mut Rng) -> (r: Randomness)
    requires
        hiding_bound < usize::MAX,
    ensures
        // (no variable count: abort)  one univariate blinding polynomial of degree hiding_bound + 1 per variable, coefficients fresh from the caller's RNG
        num_vars is Some, old(rng).present@, blinding_ok(&r.blinding_polynomial, num_vars->Some_0 as nat, (hiding_bound + 1) as nat),
        sampled_degree(&r.blinding_polynomial) == hiding_bound + 1,   // name=pst13.Randomness.rand.degree_bound_plus_one_per_variable props=C07
        final(rng).id == old(rng).id, final(rng).present == old(rng).present, final(rng).pos@ >= old(rng).pos@ + r.blinding_polynomial.terms@.len(),
        forall|i: int| 0 <= i < r.blinding_polynomial.terms@.len() ==> (#[trigger] r.blinding_polynomial.terms@[i]).0@ == draw(old(rng).id@, old(rng).pos@ + i as nat),   // name=pst13.Randomness.rand.coefficients_from_the_callers_rng props=C07
//@body
//@destructure _b = _
//@rw 1 /P::rand\((.*?), num_vars\.unwrap\(\), rng\)/ => MvPoly::rand(\1, num_vars.unwrap_abort(), rng)
//@rw 1 /_engine: PhantomData,/ =>
//@end
}

//@spec mvpoly_spec pst13_setup_spec
// ======================= specification =======================
pub open spec fn coeffs_of(ts: Seq<(Fr, Term)>) -> Seq<FS> { Seq::new(ts.len(), |i: int| ts[i].0@) }
pub open spec fn keys_of(t: &TermTable, ts: Seq<(Fr, Term)>) -> Seq<FS> { Seq::new(ts.len(), |i: int| pst_key(t, ts[i].1.v@)) }
// hiding generator for a (univariate) monomial: gamma*G for the constant, else the trimmed power of gamma*G for x_v^k
pub open spec fn gamma_key(ck: &CommitterKey, m: Seq<(usize, usize)>) -> FS { if m.len() == 0 { ck.gamma_g@ } else { ck.powers_of_gamma_g@[m[0].0 as int]@[tdeg(m, m.len()) - 1]@ } }
pub open spec fn gkeys_of(ck: &CommitterKey, ts: Seq<(Fr, Term)>) -> Seq<FS> { Seq::new(ts.len(), |i: int| gamma_key(ck, ts[i].1.v@)) }
pub open spec fn pst_ck_wf(ck: &CommitterKey) -> bool {
    ck.powers_of_gamma_g@.len() == ck.num_vars && forall|v: int| 0 <= v < ck.num_vars ==> (#[trigger] ck.powers_of_gamma_g@[v])@.len() >= ck.supported_degree + 1      // trim keeps e[..=supported_degree]
}
#[verifier::opaque]
pub open spec fn pst_commit_one(ck: &CommitterKey, p: &LabeledMv, c: &LabeledCommitment<marlin_pc::Commitment>, st: &Randomness) -> bool {
    c.label == p.label && c.degree_bound is None && c.commitment.shifted_comm is None
    // sum over the polynomial's monomials of coeff * key[monomial]  +  sum over the blinding monomials of coeff * gamma-key[monomial]
    && c.commitment.comm.0@ == f_add(dot(keys_of(&ck.powers_of_g, p.polynomial.terms@), coeffs_of(p.polynomial.terms@), p.polynomial.terms@.len()),
                                     dot(gkeys_of(ck, st.blinding_polynomial.terms@), coeffs_of(st.blinding_polynomial.terms@), st.blinding_polynomial.terms@.len()))
    && (p.hiding_bound is None ==> st.blinding_polynomial.terms@.len() == 0)
}

// ---- trim: the parameters and the operations on the term-indexed table ----
pub struct UniversalParams { pub powers_of_g: TermTable, pub gamma_g: G1Affine, pub powers_of_gamma_g: Vec<Vec<G1Affine>>, pub h: G2Affine, pub beta_h: Vec<G2Affine>, pub prepared_h: G2Prepared, pub prepared_beta_h: Vec<G2Prepared>, pub num_vars: usize, pub max_degree: usize }
pub struct VerifierKey { pub g: G1Affine, pub gamma_g: G1Affine, pub h: G2Affine, pub beta_h: Vec<G2Affine>, pub prepared_h: G2Prepared, pub prepared_beta_h: Vec<G2Prepared>, pub num_vars: usize, pub supported_degree: usize, pub max_degree: usize }
pub uninterp spec fn pst_has(t: &TermTable, m: Seq<(usize, usize)>) -> bool;      // the table has an entry for monomial m
// `t.iter().filter(|(k, _)| keep(k)).map(|(k, v)| (k.clone(), v.clone())).collect()`: the entries whose monomial passes the filter, unchanged
#[verifier::external_body]
pub fn table_filter<F: Fn(&Term) -> bool>(t: &TermTable, keep: F, Ghost(pred): Ghost<spec_fn(Seq<(usize, usize)>) -> bool>) -> (r: TermTable)
    requires forall|k: &Term| #[trigger] keep.requires((k,)), forall|k: &Term, b: bool| #[trigger] keep.ensures((k,), b) ==> b == pred(k.v@)
    ensures forall|m: Seq<(usize, usize)>| #[trigger] pst_has(&r, m) == (pst_has(t, m) && pred(m)), forall|m: Seq<(usize, usize)>| #[trigger] pst_has(&r, m) ==> pst_key(&r, m) == pst_key(t, m)
{ unimplemented!() }
#[verifier::external_body] pub fn table_index(t: &TermTable, term: &Term) -> (r: G1Affine) ensures pst_has(t, term.v@), r@ == pst_key(t, term.v@) { unimplemented!() }   // `t[&term]`: a missing monomial aborts
impl Term { #[verifier::external_body] pub fn new(v: Vec<(usize, usize)>) -> (r: Term) ensures v@.len() == 0 ==> r.v@ == Seq::<(usize, usize)>::empty(), (v@.len() == 1 && v@[0].1 > 0) ==> r.v@ == v@ { unimplemented!() } }      // SparseTerm::new (normal form; the empty list stays empty)
#[verifier::external_body] pub fn vec_prefix_incl(e: &Vec<G1Affine>, k: usize) -> (r: Vec<G1Affine>) requires k < e@.len() ensures r@ == e@.subrange(0, k + 1) { unimplemented!() }    // e[..=k].to_vec()
#[verifier::external_body] pub fn vec_g2_clone(v: &Vec<G2Affine>) -> (r: Vec<G2Affine>) ensures r@ == v@ { unimplemented!() }
#[verifier::external_body] pub fn g2p_clone(v: &G2Prepared) -> (r: G2Prepared) ensures r == *v { unimplemented!() }
#[verifier::external_body] pub fn vec_g2p_clone(v: &Vec<G2Prepared>) -> (r: Vec<G2Prepared>) ensures r@ == v@ { unimplemented!() }
// ---- open: polynomial / randomness arithmetic by evaluation, the quotient decomposition (proved in units/pst13_divide.rs), the proof ----
pub struct Proof { pub w: Vec<G1Affine>, pub random_v: Option<Fr> }
pub open spec fn umax(a: usize, b: usize) -> usize { if a >= b { a } else { b } }
impl MvPoly {
    // `p += (c, &q)` on SparsePolynomial: the sum as a polynomial function; every monomial of the result is a monomial of an operand   [assumed]
    #[verifier::external_body] pub fn add_assign_scaled(&mut self, q: (Fr, &MvPoly))
        ensures forall|x: Asg| #[trigger] mve(final(self).terms@, x) == f_add(mve(old(self).terms@, x), f_mul(q.0@, mve(q.1.terms@, x))),
            final(self).num_vars == umax(old(self).num_vars, q.1.num_vars),
            forall|lo: int, hi: int| #[trigger] terms_ok(old(self).terms@, lo, hi) && terms_ok(q.1.terms@, lo, hi) ==> terms_ok(final(self).terms@, lo, hi),
            blinding_ok(old(self), q.1.num_vars as nat, usize::MAX as nat) && blinding_ok(q.1, q.1.num_vars as nat, usize::MAX as nat) ==> blinding_ok(final(self), q.1.num_vars as nat, usize::MAX as nat) { unimplemented!() }
    #[verifier::external_body] pub fn add_assign_ref(&mut self, q: &MvPoly)       // `p += &q`
        ensures forall|x: Asg| #[trigger] mve(final(self).terms@, x) == f_add(mve(old(self).terms@, x), mve(q.terms@, x)), final(self).num_vars == umax(old(self).num_vars, q.num_vars),
            forall|lo: int, hi: int| #[trigger] terms_ok(old(self).terms@, lo, hi) && terms_ok(q.terms@, lo, hi) ==> terms_ok(final(self).terms@, lo, hi) { unimplemented!() }
    #[verifier::external_body] pub fn evaluate(&self, point: &Vec<Fr>) -> (r: Fr) ensures r@ == mve(self.terms@, zf(point@)) { unimplemented!() }
    #[verifier::external_body] pub fn is_zero(&self) -> (r: bool) ensures r ==> forall|x: Asg| #[trigger] mve(self.terms@, x) == f_zero() { unimplemented!() }
}
impl Randomness {
//@fn id=pst13.Randomness.add_assign_scaled file=poly-commit/src/marlin/marlin_pst13_pc/data_structures.rs scope="impl<'a, E, P> AddAssign<\(E::ScalarField, &'a Randomness<E, P>\)> for Randomness<E, P>" name=add_assign props=C07,C01
    pub fn add_assign(&mut self, q: (Fr, &Randomness))
    ensures
        forall|x: Asg| #[trigger] mve(final(self).blinding_polynomial.terms@, x) == f_add(mve(old(self).blinding_polynomial.terms@, x), f_mul(q.0@, mve(q.1.blinding_polynomial.terms@, x))),   // name=pst13.Randomness.add_assign_scaled.blinding_polynomials_add_linearly props=C07,C01
        final(self).blinding_polynomial.num_vars == umax(old(self).blinding_polynomial.num_vars, q.1.blinding_polynomial.num_vars),
        forall|lo: int, hi: int| #[trigger] terms_ok(old(self).blinding_polynomial.terms@, lo, hi) && terms_ok(q.1.blinding_polynomial.terms@, lo, hi) ==> terms_ok(final(self).blinding_polynomial.terms@, lo, hi),
//@body
//@destructure q = (f, other)
//@rw * /self\.blinding_polynomial \+= \((.*)\);/ => self.blinding_polynomial.add_assign_scaled((\1));
//@rw * /self\.blinding_polynomial \+= &(.*);/ => self.blinding_polynomial.add_assign_ref(&\1);
//@end
//@fn id=pst13.Randomness.is_hiding file=poly-commit/src/marlin/marlin_pst13_pc/data_structures.rs scope="impl<E, P> Randomness<E, P>" name=is_hiding props=C07
    pub fn is_hiding(&self) -> (r: bool)
    ensures
        !r ==> forall|x: Asg| #[trigger] mve(self.blinding_polynomial.terms@, x) == f_zero(),   // name=pst13.Randomness.is_hiding.false_only_for_the_zero_blinding_polynomial props=C07
//@body
//@end
}
// `ck.powers_of_gamma_g[v][d - 1]`: the gamma power of variable v and degree d (out of range, or d = 0: abort)
#[verifier::external_body] pub fn gamma_at(ck: &CommitterKey, v: usize, d: usize) -> (r: G1Affine)
    ensures v < ck.powers_of_gamma_g@.len(), 1 <= d <= ck.powers_of_gamma_g@[v as int]@.len(), r == ck.powers_of_gamma_g@[v as int]@[d - 1] { unimplemented!() }
#[verifier::external_body] pub fn vec_resize_g1(v: &mut Vec<G1>, n: usize, x: G1)     // Vec::resize
    ensures final(v)@.len() == n, forall|i: int| 0 <= i < n && i < old(v)@.len() ==> final(v)@[i] == old(v)@[i], forall|i: int| old(v)@.len() <= i < n ==> final(v)@[i] == x { unimplemented!() }
#[verifier::external_body] pub fn vec_at<T>(v: &Vec<T>, i: usize) -> (r: &T) ensures i < v@.len(), *r == v@[i as int] { unimplemented!() }      // v[i] on prover-side data: out of range aborts
pub proof fn lemma_terms_ok_mono(ts: Seq<(Fr, Term)>, lo: int, hi: int, hi2: int)
    requires terms_ok(ts, lo, hi), hi <= hi2
    ensures terms_ok(ts, lo, hi2)
{ assert forall|k: int| 0 <= k < ts.len() implies term_wf((#[trigger] ts[k]).1.v@) && term_vars_in(ts[k].1.v@, lo, hi2) by { assert(term_vars_in(ts[k].1.v@, lo, hi)); } }
// what the proof holds for witness i: the term-indexed commitment of the i-th quotient, plus (hiding) the gamma-commitment of the i-th quotient of the blinding polynomial
pub open spec fn wcomm(ck: &CommitterKey, w: &MvPoly) -> FS { dot(keys_of(&ck.powers_of_g, w.terms@), coeffs_of(w.terms@), w.terms@.len()) }
pub open spec fn wpart(ck: &CommitterKey, ws: Seq<MvPoly>, i: int) -> FS { if 0 <= i < ws.len() { wcomm(ck, &ws[i]) } else { f_zero() } }
pub open spec fn hcomm(ck: &CommitterKey, w: &MvPoly) -> FS { dot(gkeys_of(ck, w.terms@), coeffs_of(w.terms@), w.terms@.len()) }
pub open spec fn gkey_at_ok(ck: &CommitterKey, m: Seq<(usize, usize)>) -> bool { m.len() == 0 || (m[0].0 < ck.powers_of_gamma_g@.len() && 1 <= tdeg(m, m.len()) <= ck.powers_of_gamma_g@[m[0].0 as int]@.len()) }
// challenge-weighted sums of the polynomials / blinding polynomials: sum_j xi_j p_j with xi_j the j-th squeeze
pub open spec fn pacc(ps: Seq<&LabeledMv>, s: SS, k: nat, x: Asg) -> FS decreases k { if k == 0 { f_zero() } else { f_add(pacc(ps, s, (k - 1) as nat, x), f_mul(sp_sq_fe(sp_iter(s, (k - 1) as nat)), mve(ps[k - 1].polynomial.terms@, x))) } }
pub open spec fn racc(sts: Seq<&Randomness>, s: SS, k: nat, x: Asg) -> FS decreases k { if k == 0 { f_zero() } else { f_add(racc(sts, s, (k - 1) as nat, x), f_mul(sp_sq_fe(sp_iter(s, (k - 1) as nat)), mve(sts[k - 1].blinding_polynomial.terms@, x))) } }
// the relation between the inputs of `open`, the challenge-weighted sums p, r, their quotient decompositions ws, hws and the proof
pub open spec fn pst_open_rel(ck: &CommitterKey, ps: Seq<&LabeledMv>, point: Seq<Fr>, sts: Seq<&Randomness>, s0: SS, pr: &Proof, p: MvPoly, r: MvPoly, ws: Seq<MvPoly>, hws: Seq<MvPoly>) -> bool {
    let n = min(ps.len(), sts.len()); let hid = pr.random_v is Some;
        (forall|x: Asg| #[trigger] mve(p.terms@, x) == pacc(ps, s0, n, x)) && (forall|x: Asg| #[trigger] mve(r.terms@, x) == racc(sts, s0, n, x))
        // the witnesses are an exact decomposition  p(X) - p(z) = sum_i (X_i - z_i) w_i(X)   (and the same for the blinding polynomial when hiding)
        && ws.len() == p.num_vars && (forall|x: Asg| f_sub(#[trigger] mve(p.terms@, x), mve(p.terms@, zf(point))) == qsum(ws, x, zf(point), p.num_vars as nat))
        && (hid ==> hws.len() == r.num_vars && (forall|x: Asg| f_sub(#[trigger] mve(r.terms@, x), mve(r.terms@, zf(point))) == qsum(hws, x, zf(point), r.num_vars as nat)))
        && (!hid ==> forall|x: Asg| #[trigger] mve(r.terms@, x) == f_zero())
        // one witness per variable of the sum - and, when hiding, per variable of the blinding polynomial, which ranges over all variables of the key
        && (hid ==> hws.len() >= ws.len()) && pr.w@.len() == (if hid { hws.len() } else { ws.len() })
        && (forall|i: int| 0 <= i < pr.w@.len() ==> (#[trigger] pr.w@[i])@ == (if hid { f_add(wpart(ck, ws, i), hcomm(ck, &hws[i])) } else { wcomm(ck, &ws[i]) }))
        && (hid ==> pr.random_v->Some_0@ == mve(r.terms@, zf(point)))
}
pub open spec fn pst_open_post(ck: &CommitterKey, ps: Seq<&LabeledMv>, point: Seq<Fr>, sts: Seq<&Randomness>, s0: SS, pr: &Proof) -> bool {
    exists|p: MvPoly, r: MvPoly, ws: Seq<MvPoly>, hws: Seq<MvPoly>| #![trigger qsum(ws, zf(point), zf(point), 0), qsum(hws, zf(point), zf(point), 0), mve(p.terms@, zf(point)), mve(r.terms@, zf(point))]
        pst_open_rel(ck, ps, point, sts, s0, pr, p, r, ws, hws)
}
//@spec pst13_complete
//@lemma props=C01,C15
// C01 / C15, MarlinPST13: completeness of single-point openings as a lemma over the three contracts.  Hypotheses: the key is in trapdoor form
// (setup is not under contract: its monomial enumeration is out of reach), the commitments are what `commit` returns (unit pst13.commit), the proof is
// what `open` returns (unit pst13.open, relation pst_open_rel), the blinding polynomials and their quotients consist of univariate monomials (the
// "implicit assumption" stated in the source of `open`), the claimed values are the true evaluations.  Conclusion: the pairing equation that `check`
// is proved to decide (unit pst13.check; same relation text) holds - for polynomials with arbitrary mixed monomials, any point, hiding or not, any
// number of polynomials, and also when the polynomials use fewer variables than the key (finding F10 was the counterexample to exactly this step).
pub proof fn lemma_pst13_complete(ck: &CommitterKey, vk: &VerifierKey, g: FS, gm: FS, hh: FS, beta: Asg,
        ps: Seq<&LabeledMv>, cs: Seq<&LabeledCommitment<marlin_pc::Commitment>>, sts: Seq<&Randomness>, vs: Seq<Fr>, point: Seq<Fr>, s0: SS, pr: &Proof,
        p: MvPoly, r: MvPoly, ws: Seq<MvPoly>, hws: Seq<MvPoly>)
    requires
        pst_trapdoor(ck, vk, g, gm, hh, beta),
        sts.len() == ps.len(), cs.len() == ps.len(), vs.len() == ps.len(),
        forall|j: int| 0 <= j < ps.len() ==> pst_commit_one(ck, #[trigger] ps[j], cs[j], sts[j]) && univariate_terms(sts[j].blinding_polynomial.terms@),
        forall|j: int| 0 <= j < ps.len() ==> (#[trigger] vs[j])@ == mve(ps[j].polynomial.terms@, zf(point)),
        pst_open_rel(ck, ps, point, sts, s0, pr, p, r, ws, hws),
        pr.random_v is Some ==> forall|i: int| 0 <= i < hws.len() ==> univariate_terms((#[trigger] hws[i]).terms@),
        pr.w@.len() <= vk.beta_h@.len(), pr.w@.len() <= point.len(),
    ensures
        pair(pst_inner(vk, pst_cacc(cs, s0, ps.len()), pst_vacc(vs, s0, ps.len()), pr), vk.h@) == pst_rhs(vk, pr.w@, point, pr.w@.len()),   // name=pst13.complete.honest_proof_satisfies_the_verifiers_pairing_equation props=C01,C15
{ lemma_pst13_complete_alg(ck, vk, g, gm, hh, beta, ps, cs, sts, vs, point, s0, pr, p, r, ws, hws); }
// ---- truthful degree reports (PCUniversalParams / PCCommitterKey / PCVerifierKey impls) ----
impl UniversalParams {
//@fn id=pst13.UniversalParams.max_degree file=poly-commit/src/marlin/marlin_pst13_pc/data_structures.rs scope="impl<E, P> PCUniversalParams for UniversalParams<E, P>" name=max_degree props=C09
    pub fn max_degree(&self) -> (r: usize)
    ensures
        r == self.max_degree,   // name=pst13.UniversalParams.max_degree.truthful props=C09
//@body
//@end
}
impl CommitterKey {
//@fn id=pst13.CommitterKey.max_degree file=poly-commit/src/marlin/marlin_pst13_pc/data_structures.rs scope="impl<E, P> PCCommitterKey for CommitterKey<E, P>" name=max_degree props=C09
    pub fn max_degree(&self) -> (r: usize)
    ensures
        r == self.max_degree,   // name=pst13.CommitterKey.max_degree.truthful props=C09
//@body
//@end
//@fn id=pst13.CommitterKey.supported_degree file=poly-commit/src/marlin/marlin_pst13_pc/data_structures.rs scope="impl<E, P> PCCommitterKey for CommitterKey<E, P>" name=supported_degree props=C09
    pub fn supported_degree(&self) -> (r: usize)
    ensures
        r == self.supported_degree,   // name=pst13.CommitterKey.supported_degree.truthful props=C09
//@body
//@end
}
impl VerifierKey {
//@fn id=pst13.VerifierKey.max_degree file=poly-commit/src/marlin/marlin_pst13_pc/data_structures.rs scope="impl<E: Pairing> PCVerifierKey for VerifierKey<E>" name=max_degree props=C09
    pub fn max_degree(&self) -> (r: usize)
    ensures
        r == self.max_degree,   // name=pst13.VerifierKey.max_degree.truthful props=C09
//@body
//@end
//@fn id=pst13.VerifierKey.supported_degree file=poly-commit/src/marlin/marlin_pst13_pc/data_structures.rs scope="impl<E: Pairing> PCVerifierKey for VerifierKey<E>" name=supported_degree props=C09
    pub fn supported_degree(&self) -> (r: usize)
    ensures
        r == self.supported_degree,   // name=pst13.VerifierKey.supported_degree.truthful props=C09
//@body
//@end
}
pub struct MarlinPST13;
impl MarlinPST13 {
//@fn id=pst13.check_degrees_and_bounds file=poly-commit/src/marlin/marlin_pst13_pc/mod.rs scope="impl<E: Pairing, P: DenseMVPolynomial<E::ScalarField>> MarlinPST13<E, P>" name=check_degrees_and_bounds props=C17
    fn check_degrees_and_bounds<'a>(supported_degree: usize, p: &'a LabeledMv) -> (res: Result<(), Error>)
    ensures
        (res is Ok) == (p.polynomial.deg() <= supported_degree),   // name=pst13.check_degrees_and_bounds.iff props=C17
//@body
//@rw * /p\.label\(\)\.to_string\(\)/ => string_to_string(p.label())
//@end

//@fn id=pst13.check_hiding_bound file=poly-commit/src/marlin/marlin_pst13_pc/mod.rs scope="impl<E: Pairing, P: DenseMVPolynomial<E::ScalarField>> MarlinPST13<E, P>" name=check_hiding_bound props=C17,C07
    fn check_hiding_bound(hiding_poly_degree: usize, num_powers: usize) -> (res: Result<(), Error>)
    ensures
        (res is Ok) == (hiding_poly_degree != 0 && hiding_poly_degree < num_powers),   // name=pst13.check_hiding_bound.iff props=C17,C07
//@body
//@end

//@fn id=pst13.convert_to_bigints file=poly-commit/src/marlin/marlin_pst13_pc/mod.rs scope="impl<E: Pairing, P: DenseMVPolynomial<E::ScalarField>> MarlinPST13<E, P>" name=convert_to_bigints props=C08
    fn convert_to_bigints(p: &MvPoly) -> (r: Vec<BigInt>)
    ensures
        bviews(r@) == coeffs_of(p.terms@),   // name=pst13.convert_to_bigints.coefficients_in_term_order props=C08
//@body
//@rw 1 /ark_std::cfg_into_iter!\(p\.terms\(\)\)/ => p.terms().iter()
//@closure |(coeff, _)| => |ct: &(Fr, Term)| -> (b: BigInt) ensures b@ == ct.0@ ;; let coeff = &ct.0;
//@rw 1 /let plain_coeffs = /  => let plain_coeffs: Vec<BigInt> =
//@after /let plain_coeffs = /
        proof { assert(bviews(plain_coeffs@) =~= coeffs_of(p.terms@)); }
//@end

//@fn id=pst13.commit file=poly-commit/src/marlin/marlin_pst13_pc/mod.rs scope="impl<E, P> PolynomialCommitment<E::ScalarField, P> for MarlinPST13<E, P>" name=commit props=C08,C07,C17,C01,C19
    fn commit<'a>(ck: &CommitterKey, polynomials: Vec<&'a LabeledMv>, rng: Option<&mut Rng>) -> (res: Result<(Vec<LabeledCommitment<marlin_pc::Commitment>>, Vec<Randomness>), Error>)
    requires
        pst_ck_wf(ck), ck.supported_degree < usize::MAX,
        forall|i: int| 0 <= i < polynomials@.len() ==> ((#[trigger] polynomials@[i]).hiding_bound is Some ==> polynomials@[i].hiding_bound->Some_0 < usize::MAX - 1),
    ensures
        res is Ok ==> (forall|i: int| 0 <= i < polynomials@.len() ==> (#[trigger] polynomials@[i]).polynomial.deg() <= ck.supported_degree
            && (polynomials@[i].hiding_bound is Some ==> (polynomials@[i].hiding_bound->Some_0 != 0 && polynomials@[i].hiding_bound->Some_0 <= ck.supported_degree))),   // name=pst13.commit.degree_or_hiding_bound_beyond_key_refused props=C17,C19
        res is Ok ==> res->Ok_0.0@.len() == polynomials@.len() && res->Ok_0.1@.len() == polynomials@.len(),   // name=pst13.commit.one_commitment_and_state_per_polynomial props=C01,C19
        res is Ok ==> (forall|i: int| 0 <= i < polynomials@.len() ==> pst_commit_one(ck, (#[trigger] polynomials@[i]), &res->Ok_0.0@[i], &res->Ok_0.1@[i])),   // name=pst13.commit.term_indexed_linear_map_plus_blinding props=C08,C07,C01,C19
        (res is Ok && rng is None) ==> (forall|i: int| 0 <= i < polynomials@.len() ==> (#[trigger] polynomials@[i]).hiding_bound is None),   // name=pst13.commit.hiding_without_rng_never_succeeds props=C07,C17,C19
        // in-domain requests are answered: an error means some polynomial exceeds the supported degree or asks for a hiding bound of zero / beyond the key
        res is Err ==> (exists|i: int| 0 <= i < polynomials@.len() && !((#[trigger] polynomials@[i]).polynomial.deg() <= ck.supported_degree
            && (polynomials@[i].hiding_bound is Some ==> (polynomials@[i].hiding_bound->Some_0 != 0 && polynomials@[i].hiding_bound->Some_0 <= ck.supported_degree)))),   // name=pst13.commit.only_out_of_domain_requests_are_refused props=C17,C01,C19
//@body
//@rw * /&mut crate::optional_rng::OptionalRng\(rng\)/ => &mut optional_rng_wrap(rng)
//@rw * /label\.to_string\(\)/ => string_to_string(label)
//@rw 1 /let mut commitments = Vec::new\(\);/ => let mut commitments: Vec<LabeledCommitment<marlin_pc::Commitment>> = Vec::new();
//@rw 1 /let mut randomness = Vec::new\(\);/ => let mut randomness: Vec<Randomness> = Vec::new();
//@rw 1 /(?s)let powers_of_g = ark_std::cfg_iter!\(polynomial\.terms\(\)\)\s*\.map\(\|\(_, term\)\| (.*?)\)\s*\.collect::<Vec<_>>\(\);/ => let powers_of_g: Vec<G1Affine> = polynomial.terms().iter().map(|ct: &(Fr, Term)| -> (g: G1Affine) ensures g@ == pst_key(&ck.powers_of_g, ct.1.v@) { let term = &ct.1; \1 }).collect();
            proof { assert(g1views(powers_of_g@) =~= keys_of(&ck.powers_of_g, polynomial.terms@)); }
//@rw * /\*ck\.powers_of_g\.get\(([^()]*)\)\.unwrap\(\)/ => table_get(&ck.powers_of_g, \1)
//@rw 1 /(?s)let powers_of_gamma_g = rand\s*\.blinding_polynomial\s*\.terms\(\)\s*\.iter\(\)\s*\.map\(\|\(_, term\)\| \{(.*?)\n\s*\}\)\s*\.collect::<Vec<_>>\(\);/ => let powers_of_gamma_g: Vec<G1Affine> = rand.blinding_polynomial.terms().iter().map(|ct: &(Fr, Term)| -> (g: G1Affine)
                    requires pst_ck_wf(ck), ct.1.v@.len() <= 1, ct.1.v@.len() == 1 ==> (ct.1.v@[0].0 < ck.num_vars && 1 <= ct.1.v@[0].1 <= ck.supported_degree + 1)
                    ensures g@ == gamma_key(ck, ct.1.v@) { let term = &ct.1; proof { reveal_with_fuel(tdeg, 2); } \1 }).collect();
            proof { assert(g1views(powers_of_gamma_g@) =~= gkeys_of(ck, rand.blinding_polynomial.terms@)); }
//@rw 1 /Self::convert_to_bigints\(&polynomial\)/ => Self::convert_to_bigints(polynomial)
//@rw 1 /ck\.powers_of_gamma_g\[vars\[0\]\]\[term\.degree\(\) - 1\]/ => ck.powers_of_gamma_g[vars[0]][term.degree() - 1]
//@after start
        let ghost rng_present = rng is Some;
//@loop 1 kw=for name=it
            invariant pst_ck_wf(ck), ck.supported_degree < usize::MAX, it.index@ <= polynomials@.len(), commitments@.len() == it.index@, randomness@.len() == it.index@,
                rng.present@ ==> rng_present,
                forall|i: int| 0 <= i < polynomials@.len() ==> ((#[trigger] polynomials@[i]).hiding_bound is Some ==> polynomials@[i].hiding_bound->Some_0 < usize::MAX - 1),
                forall|i: int| 0 <= i < it.index@ ==> (#[trigger] polynomials@[i]).polynomial.deg() <= ck.supported_degree
                    && (polynomials@[i].hiding_bound is Some ==> (polynomials@[i].hiding_bound->Some_0 != 0 && polynomials@[i].hiding_bound->Some_0 <= ck.supported_degree && rng_present))
                    && pst_commit_one(ck, polynomials@[i], &commitments@[i], &randomness@[i]),
//@loopstart 1
            let ghost k = it.index@;
//@before /let powers_of_gamma_g = rand/
            proof { assert(blinding_ok(&rand.blinding_polynomial, ck.num_vars as nat, (ck.supported_degree + 1) as nat)); }
//@after /let mut commitment = /
            proof {
                assert(g1views(powers_of_g@) == keys_of(&ck.powers_of_g, polynomial.terms@));
                assert(bviews(plain_ints@) == coeffs_of(polynomial.terms@));
                assert(powers_of_g@.len() == polynomial.terms@.len() && plain_ints@.len() == polynomial.terms@.len());
                assert(commitment@ == msm(powers_of_g@, bviews(plain_ints@), polynomial.terms@.len()));
                assert(commitment@ == dot(keys_of(&ck.powers_of_g, polynomial.terms@), coeffs_of(polynomial.terms@), polynomial.terms@.len()));
            }
//@before /commitment \+= &random_commitment;/
            proof {
                let bt = rand.blinding_polynomial.terms@;
                assert(g1views(powers_of_gamma_g@) == gkeys_of(ck, bt));
                assert(bviews(random_ints@) == coeffs_of(bt));
                assert(powers_of_gamma_g@.len() == bt.len() && random_ints@.len() == bt.len());
                assert(random_commitment@ == msm(powers_of_gamma_g@, bviews(random_ints@), bt.len()));
                assert(random_commitment@ == dot(gkeys_of(ck, bt), coeffs_of(bt), bt.len()));
            }
//@loopend 1
            proof {
                let pk = polynomials@[k]; let c = &commitments@[k]; let st = &randomness@[k];
                assert(p == pk);
                assert(c.label == pk.label && c.degree_bound is None && c.commitment.shifted_comm is None);
                assert(pk.hiding_bound is None ==> st.blinding_polynomial.terms@.len() == 0);
                assert(c.commitment.comm.0@ == f_add(dot(keys_of(&ck.powers_of_g, pk.polynomial.terms@), coeffs_of(pk.polynomial.terms@), pk.polynomial.terms@.len()),
                                     dot(gkeys_of(ck, st.blinding_polynomial.terms@), coeffs_of(st.blinding_polynomial.terms@), st.blinding_polynomial.terms@.len())));
                assert(pst_commit_one(ck, polynomials@[k], &commitments@[k], &randomness@[k])) by { reveal(pst_commit_one); }
            }
//@end
//@fn id=pst13.trim file=poly-commit/src/marlin/marlin_pst13_pc/mod.rs scope="impl<E, P> PolynomialCommitment<E::ScalarField, P> for MarlinPST13<E, P>" name=trim props=C09,C15,C17
    fn trim(pp: &UniversalParams, supported_degree: usize, _supported_hiding_bound: usize, _enforced_degree_bounds: Option<&[usize]>) -> (res: Result<(CommitterKey, VerifierKey), Error>)
    requires
        forall|v: int| 0 <= v < pp.powers_of_gamma_g@.len() ==> (#[trigger] pp.powers_of_gamma_g@[v])@.len() > pp.max_degree,    // setup publishes max_degree + 2 gamma powers per variable
    ensures
        (res is Err) == (supported_degree > pp.max_degree),   // name=pst13.trim.refused_iff_degree_beyond_parameters props=C17,C09
        // the committer key keeps EXACTLY the monomials of total degree <= supported_degree, each with the parameters' group element
        res is Ok ==> (forall|m: Seq<(usize, usize)>| #[trigger] pst_has(&res->Ok_0.0.powers_of_g, m) == (pst_has(&pp.powers_of_g, m) && tdeg(m, m.len()) <= supported_degree)),   // name=pst13.trim.keeps_exactly_the_monomials_up_to_the_supported_degree props=C15,C09
        res is Ok ==> (forall|m: Seq<(usize, usize)>| #[trigger] pst_has(&res->Ok_0.0.powers_of_g, m) ==> pst_key(&res->Ok_0.0.powers_of_g, m) == pst_key(&pp.powers_of_g, m)),   // name=pst13.trim.kept_monomials_keep_their_key_element props=C15,C09
        res is Ok ==> res->Ok_0.0.powers_of_gamma_g@.len() == pp.powers_of_gamma_g@.len()
            && (forall|v: int| 0 <= v < pp.powers_of_gamma_g@.len() ==> (#[trigger] res->Ok_0.0.powers_of_gamma_g@[v])@ == pp.powers_of_gamma_g@[v]@.subrange(0, supported_degree + 1)),   // name=pst13.trim.gamma_powers_prefix_per_variable props=C09
        res is Ok ==> res->Ok_0.0.gamma_g == pp.gamma_g && res->Ok_0.0.num_vars == pp.num_vars && res->Ok_0.0.supported_degree == supported_degree && res->Ok_0.0.max_degree == pp.max_degree
            && res->Ok_0.1.g@ == pst_key(&pp.powers_of_g, Seq::empty()) && res->Ok_0.1.gamma_g == pp.gamma_g && res->Ok_0.1.h == pp.h && res->Ok_0.1.beta_h@ == pp.beta_h@
            && res->Ok_0.1.prepared_h == pp.prepared_h && res->Ok_0.1.prepared_beta_h@ == pp.prepared_beta_h@
            && res->Ok_0.1.num_vars == pp.num_vars && res->Ok_0.1.supported_degree == supported_degree && res->Ok_0.1.max_degree == pp.max_degree,   // name=pst13.trim.generators_and_degrees_agree props=C09
//@body
//@rw 1 /pp\.max_degree\(\)/ => pp.max_degree
//@rw 1 /(?s)let powers_of_g = pp\s*\.powers_of_g\s*\.iter\(\)\s*\.filter\(\|\(k, _\)\| (.*?)\)\s*\.map\(\|\(k, v\)\| \(k\.clone\(\), v\.clone\(\)\)\)\s*\.collect\(\);/ => let powers_of_g: TermTable = table_filter(&pp.powers_of_g, |k: &Term| -> (b: bool) ensures b == (tdeg(k.v@, k.v@.len()) <= supported_degree) { \1 }, Ghost(|m: Seq<(usize, usize)>| tdeg(m, m.len()) <= supported_degree));
//@rw 1 /(?s)let powers_of_gamma_g = pp\s*\.powers_of_gamma_g\s*\.iter\(\)\s*\.map\(\|e\| (.*?)\)\s*\.collect\(\);/ => let powers_of_gamma_g: Vec<Vec<G1Affine>> = pp.powers_of_gamma_g.iter().map(|e: &Vec<G1Affine>| -> (o: Vec<G1Affine>) requires e@.len() > supported_degree ensures o@ == e@.subrange(0, supported_degree + 1) { \1 }).collect();
//@rw 1 /e\[\.\.=supported_degree\]\.to_vec\(\)/ => vec_prefix_incl(e, supported_degree)
//@rw 1 /pp\.powers_of_g\[&P::Term::new\(vec!\[\]\)\]/ => table_index(&pp.powers_of_g, &Term::new(Vec::new()))
//@rw 1 /pp\.beta_h\.clone\(\)/ => vec_g2_clone(&pp.beta_h)
//@rw 1 /pp\.prepared_h\.clone\(\)/ => g2p_clone(&pp.prepared_h)
//@rw 1 /pp\.prepared_beta_h\.clone\(\)/ => vec_g2p_clone(&pp.prepared_beta_h)
//@end
//@stub from=pst13_divide.rs id=pst13.divide_at_point
//@fn id=pst13.open file=poly-commit/src/marlin/marlin_pst13_pc/mod.rs scope="impl<E, P> PolynomialCommitment<E::ScalarField, P> for MarlinPST13<E, P>" name=open props=C01,C07,C11,C15,C17,C19
    #[verifier::loop_isolation(false)]
    fn open<'a>(ck: &CommitterKey, labeled_polynomials: Vec<&'a LabeledMv>, _commitments: Vec<&'a LabeledCommitment<marlin_pc::Commitment>>, point: &Vec<Fr>, sponge: &mut Sponge, states: Vec<&'a Randomness>, _rng: Option<&mut Rng>) -> (res: Result<Proof, Error>)
    requires
        // well-formed inputs: monomials in normal form over the polynomials' own variables, blinding polynomials as Randomness::rand makes them, a point with a coordinate per variable
        forall|i: int| 0 <= i < labeled_polynomials@.len() ==> terms_ok((#[trigger] labeled_polynomials@[i]).polynomial.terms@, 0, labeled_polynomials@[i].polynomial.num_vars as int) && labeled_polynomials@[i].polynomial.num_vars <= point@.len(),
        forall|i: int| 0 <= i < states@.len() ==> terms_ok((#[trigger] states@[i]).blinding_polynomial.terms@, 0, states@[i].blinding_polynomial.num_vars as int) && states@[i].blinding_polynomial.num_vars <= point@.len(),
    ensures
        res is Ok ==> (forall|i: int| 0 <= i < min(labeled_polynomials@.len(), states@.len()) ==> (#[trigger] labeled_polynomials@[i]).polynomial.deg() <= ck.supported_degree),   // name=pst13.open.degree_beyond_key_refused props=C17,C19
        // one challenge per polynomial, as the verifier squeezes them
        res is Ok ==> final(sponge).st@ == sp_iter(old(sponge).st@, min(labeled_polynomials@.len(), states@.len())),   // name=pst13.open.squeeze_schedule_matches_verifier props=C11,C19
        // the proof commits to the exact quotient decomposition of the challenge-weighted sum (plus, when hiding, that of the summed blinding polynomials, and its value at the point)
        res is Ok ==> pst_open_post(ck, labeled_polynomials@, point@, states@, old(sponge).st@, &res->Ok_0),   // name=pst13.open.witness_commitments_of_the_exact_decomposition props=C01,C07,C15,C19
//@body
//@rw 1 /let mut p = P::zero\(\);/ => let mut p = MvPoly::zero();
//@rw 1 /Self::check_degrees_and_bounds\(ck\.supported_degree, &polynomial\)\?;/ => Self::check_degrees_and_bounds(ck.supported_degree, polynomial)?;
//@rw 1 /p \+= \((.*)\);/ => p.add_assign_scaled((\1));
//@rw 1 /r \+= \((.*)\);/ => r.add_assign((\1));
//@rw 1 /(?s)let mut w = witnesses\s*\.iter\(\)\s*\.map\(\|w\| \{(.*?)\n\s*\}\)\s*\.collect::<Vec<_>>\(\);/ => let mut w: Vec<G1> = witnesses.iter().map(|w: &MvPoly| -> (o: G1) ensures o@ == wcomm(ck, w) {\1
            }).collect();
//@rw 1 /(?s)let powers_of_g = ark_std::cfg_iter!\(w\.terms\(\)\)\s*\.map\(\|\(_, term\)\| (.*?)\)\s*\.collect::<Vec<_>>\(\);/ => let powers_of_g: Vec<G1Affine> = w.terms().iter().map(|ct: &(Fr, Term)| -> (g: G1Affine) ensures g@ == pst_key(&ck.powers_of_g, ct.1.v@) { let term = &ct.1; \1 }).collect();
                proof { assert(g1views(powers_of_g@) =~= keys_of(&ck.powers_of_g, w.terms@)); }
//@rw * /\*ck\.powers_of_g\.get\(([^()]*)\)\.unwrap\(\)/ => table_get(&ck.powers_of_g, \1)
//@rw 1 /Self::convert_to_bigints\(&w\)/ => Self::convert_to_bigints(w)
//@before /<E::G1 as VariableBaseMSM>::msm_bigint\(&powers_of_g, &witness_ints\)/
                proof { assert(bviews(witness_ints@) == coeffs_of(w.terms@)); assert(powers_of_g@.len() == w.terms@.len() && witness_ints@.len() == w.terms@.len()); }
//@rw 1 /(?s)ark_std::cfg_iter_mut!\(w\)\s*\.enumerate\(\)\s*\.for_each\(\|\(i, witness\)\| \{(.*?)\n\s*\}\);/ => let ghost w0 = w@;
            let mut i: usize = 0;
            while i < w.len()
                invariant i <= w@.len(), i <= hiding_witnesses@.len(), w@.len() >= hiding_witnesses@.len(), w@.len() == w0.len(), forall|q: int| 0 <= q < w0.len() ==> (#[trigger] w0[q])@ == wpart(ck, witnesses@, q),
                    forall|q: int| 0 <= q < i ==> (#[trigger] w@[q])@ == f_add(w0[q]@, hcomm(ck, &hiding_witnesses@[q])),
                    forall|q: int| i <= q < w@.len() ==> (#[trigger] w@[q]) == w0[q],
                decreases w@.len() - i,
            {
                let ghost wprev = w@;
                let mut witness: G1 = w[i];\1
                proof {
                    let hw = hiding_witnesses@[i as int];
                    assert(g1views(powers_of_gamma_g@) == gkeys_of(ck, hw.terms@)); assert(bviews(hiding_witness_ints@) == coeffs_of(hw.terms@));
                    assert(g1views(powers_of_gamma_g@).len() == powers_of_gamma_g@.len() && bviews(hiding_witness_ints@).len() == hiding_witness_ints@.len());
                    assert(gkeys_of(ck, hw.terms@).len() == hw.terms@.len() && coeffs_of(hw.terms@).len() == hw.terms@.len());
                    assert(witness@ == f_add(w0[i as int]@, hcomm(ck, &hw)));
                }
                w.set(i, witness);
                ctr_inc(&mut i);
            }
//@rw * /w\.resize\((.*?), E::G1::zero\(\)\);/ => vec_resize_g1(&mut w, \1, G1::zero());
//@rw 1 /let hiding_witness = &hiding_witnesses\[i\];/ => let hiding_witness: &MvPoly = vec_at(&hiding_witnesses, i);
//@rw 1 /(?s)let powers_of_gamma_g = hiding_witness\s*\.terms\(\)\s*\.iter\(\)\s*\.map\(\|\(_, term\)\| \{(.*?)\n\s*\}\)\s*\.collect::<Vec<_>>\(\);/ => let powers_of_gamma_g: Vec<G1Affine> = hiding_witness.terms().iter().map(|ct: &(Fr, Term)| -> (g: G1Affine) ensures g@ == gamma_key(ck, ct.1.v@) { let term = &ct.1; proof { reveal_with_fuel(tdeg, 2); } \1 }).collect();
                    proof { assert(g1views(powers_of_gamma_g@) =~= gkeys_of(ck, hiding_witness.terms@)); }
//@rw 1 /ck\.powers_of_gamma_g\[vars\[0\]\]\[term\.degree\(\) - 1\]/ => gamma_at(ck, vars[0], term.degree())
//@rw 1 /\*witness \+= &/ => witness += &
//@rw 1 /(?s)Ok\(Proof \{\s*w: w\.into_iter\(\)\.map\(\|w\| w\.into_affine\(\)\)\.collect\(\),\s*random_v,\s*\}\)/ => let ghost wfin = w@;
        let wa__: Vec<G1Affine> = w.into_iter().map(|wg: G1| -> (a: G1Affine) ensures a@ == wg@ { wg.into_affine() }).collect();
        proof {
            let hid = random_v is Some; let rp = r.blinding_polynomial;
            let hws = if hid { hw_opt->Some_0@ } else { witnesses@ };
            let pr = Proof { w: wa__, random_v };
            assert(qsum(witnesses@, zf(pt), zf(pt), 0) == f_zero() && qsum(hws, zf(pt), zf(pt), 0) == f_zero());
            assert(mve(p.terms@, zf(pt)) == pacc(ps0, s0, n, zf(pt)) && mve(rp.terms@, zf(pt)) == racc(sts0, s0, n, zf(pt)));
            assert(pr.w@.len() == (if hid { hws.len() } else { witnesses@.len() }));
            assert forall|i: int| 0 <= i < pr.w@.len() implies (#[trigger] pr.w@[i])@ == (if hid { f_add(wpart(ck, witnesses@, i), hcomm(ck, &hws[i])) } else { wcomm(ck, &witnesses@[i]) }) by {
                assert(pr.w@[i]@ == wfin[i]@); if i < witnesses@.len() { assert(wc0[i]@ == wcomm(ck, &witnesses@[i])); }
            }
            assert(pst_open_post(ck, ps0, pt, sts0, s0, &pr));
        }
        Ok(Proof { w: wa__, random_v })
//@after start
        let ghost ps0 = labeled_polynomials@; let ghost sts0 = states@; let ghost s0 = sponge.st@; let ghost n = min(ps0.len(), sts0.len()); let ghost pt = point@;
//@loop 1 kw=for name=it
            invariant it.index@ <= n, sponge.st@ == sp_iter(s0, it.index@ as nat),
                forall|q: int| 0 <= q < it.index@ ==> (#[trigger] ps0[q]).polynomial.deg() <= ck.supported_degree,
                forall|x: Asg| #[trigger] mve(p.terms@, x) == pacc(ps0, s0, it.index@ as nat, x),
                forall|x: Asg| #[trigger] mve(r.blinding_polynomial.terms@, x) == racc(sts0, s0, it.index@ as nat, x),
                terms_ok(p.terms@, 0, p.num_vars as int), p.num_vars <= pt.len(), terms_ok(r.blinding_polynomial.terms@, 0, r.blinding_polynomial.num_vars as int), r.blinding_polynomial.num_vars <= pt.len(),
//@loopstart 1
            let ghost k = it.index@; let ghost p0 = p; let ghost r0 = r;
            proof { reveal_with_fuel(sp_iter, 2); }
//@loopend 1
            proof {
                lemma_terms_ok_mono(p0.terms@, 0, p0.num_vars as int, p.num_vars as int); lemma_terms_ok_mono(ps0[k].polynomial.terms@, 0, ps0[k].polynomial.num_vars as int, p.num_vars as int);
                lemma_terms_ok_mono(r0.blinding_polynomial.terms@, 0, r0.blinding_polynomial.num_vars as int, r.blinding_polynomial.num_vars as int);
                lemma_terms_ok_mono(sts0[k].blinding_polynomial.terms@, 0, sts0[k].blinding_polynomial.num_vars as int, r.blinding_polynomial.num_vars as int);
                assert forall|x: Asg| #[trigger] mve(p.terms@, x) == pacc(ps0, s0, (k + 1) as nat, x) by { assert(mve(p0.terms@, x) == pacc(ps0, s0, k as nat, x)); }
                assert forall|x: Asg| #[trigger] mve(r.blinding_polynomial.terms@, x) == racc(sts0, s0, (k + 1) as nat, x) by { assert(mve(r0.blinding_polynomial.terms@, x) == racc(sts0, s0, k as nat, x)); }
            }
//@before /let random_v = if let Some\(hiding_witnesses\) = hiding_witnesses \{/
        let ghost hw_opt = hiding_witnesses; let ghost wc0 = w@;
        proof { assert forall|q: int| 0 <= q < witnesses@.len() implies (#[trigger] wc0[q])@ == wcomm(ck, &witnesses@[q]) by { } }
//@end
}
