// PolynomialCommitment::open_combinations, the trait's default method (lib.rs), and its lock-step with the default check_combinations  (C06)
//@use core ops_gen poly labeled labeled_comm sponge std
//@typemap /Self::CommitterKey/ => CK
//@typemap /Self::Commitment\b/ => Comm
//@typemap /Self::CommitmentState/ => St
//@typemap /Self::BatchProof/ => BatchProof
//@typemap /Self::Error/ => Error
//@typemap /Self::batch_open\(/ => pc_batch_open(
//@enum file=poly-commit/src/error.rs name=Error
//@enum file=poly-commit/src/data_structures.rs name=LCTerm
//@typemap /\(F, LCTerm\)/ => (Fr, LCTerm)
//@typemap /Vec<\(F,/ => Vec<(Fr,
//@struct file=poly-commit/src/data_structures.rs name=LinearCombination
// the scheme's own types stay abstract; points are field elements here (evaluate_query_set is proved for those)
#[verifier::external_body] pub struct CK { _x: u8 }
#[verifier::external_body] pub struct St { _x: u8 }
#[verifier::external_body] pub struct Comm { _x: u8 }
#[verifier::external_body] pub struct BatchProof { _x: u8 }
pub type Pt = Fr;
//@use pcenv lcenv
//@spec lc_default_spec
pub struct BatchLCProof { pub proof: BatchProof, pub evals: Option<Vec<Fr>> }
impl LinearCombination { pub fn label(&self) -> (r: &String) ensures *r == self.label { &self.label } }
// ---- environment: the scheme's batch_open as a deterministic function of what it is given ----
pub uninterp spec fn bo_res(ck: &CK, ps: Seq<&LabeledPolynomial>, cs: Seq<&LabeledCommitment<Comm>>, qs: Set<(String, (String, Pt))>, sts: Seq<&St>, s: SS, rng: Option<(int, nat)>) -> Result<BatchProof, Error>;
pub uninterp spec fn bo_sponge(ck: &CK, ps: Seq<&LabeledPolynomial>, cs: Seq<&LabeledCommitment<Comm>>, qs: Set<(String, (String, Pt))>, sts: Seq<&St>, s: SS, rng: Option<(int, nat)>) -> SS;
pub open spec fn rng_in(r: Option<&mut Rng>) -> Option<(int, nat)> { match r { Some(g) => Some((g.id@, g.pos@)), None => None } }
#[verifier::external_body]
pub fn pc_batch_open(ck: &CK, polys: Vec<&LabeledPolynomial>, comms: Vec<&LabeledCommitment<Comm>>, query_set: &BTreeSet<(String, (String, Pt))>, sponge: &mut Sponge, states: Vec<&St>, rng: Option<&mut Rng>) -> (res: Result<BatchProof, Error>)
    ensures res == bo_res(ck, polys@, comms@, query_set@, states@, old(sponge).st@, rng_in(rng)),
        final(sponge).st@ == bo_sponge(ck, polys@, comms@, query_set@, states@, old(sponge).st@, rng_in(rng)) { unimplemented!() }
//@stub from=combinations_default.rs id=lib.lc_query_set_to_poly_query_set vis=pub
//@stub from=query_set.rs id=lib.evaluate_query_set vis=pub
// ======================= specification =======================
pub open spec fn is_last(ps: Seq<&LabeledPolynomial>, i: int) -> bool { 0 <= i < ps.len() && forall|j: int| i < j < ps.len() ==> (#[trigger] ps[j]).label != ps[i].label }
pub open spec fn q_ok(ps: Seq<&LabeledPolynomial>, q: (String, (String, Fr)), ev: Map<(String, Fr), Fr>) -> bool {
    forall|i: int| #[trigger] is_last(ps, i) && ps[i].label == q.0 ==> ev.dom().contains((q.0, q.1.1)) && ev[(q.0, q.1.1)]@ == ps[i].polynomial.ev(q.1.1@)
}
// E holds, for exactly the (polynomial label, point) pairs of the polynomial queries, the evaluation of that polynomial there   [postcondition of evaluate_query_set]
pub open spec fn true_evals(ps: Seq<&LabeledPolynomial>, pqs: Set<(String, (String, Pt))>, e: Map<(String, Pt), Fr>) -> bool {
    (forall|q: (String, (String, Fr))| pqs.contains(q) ==> #[trigger] q_ok(ps, q, e))
    && (forall|q: (String, (String, Fr))| pqs.contains(q) ==> e.dom().contains((q.0, q.1.1)))
    && (forall|k: (String, Fr)| e.dom().contains(k) ==> exists|q: (String, (String, Fr))| pqs.contains(q) && q.0 == k.0 && q.1.1 == k.1)
}
// the transmitted list: the values of E in key order
pub open spec fn evals_ok(e: Map<(String, Pt), Fr>, v: Seq<Fr>) -> bool { kseq_ok(e.dom()) && v.len() == kseq(e.dom()).len() && forall|i: int| 0 <= i < v.len() ==> (#[trigger] v[i]) == e[kseq(e.dom())[i]] }
pub open spec fn oc_post(ck: &CK, lcs: Seq<&LinearCombination>, ps: Seq<&LabeledPolynomial>, cs: Seq<&LabeledCommitment<Comm>>, qs: Set<(String, (String, Pt))>, sts: Seq<&St>, s0: SS, rng: Option<(int, nat)>, res: Result<BatchLCProof, Error>, s1: SS) -> bool {
    exists|pqs: Set<(String, (String, Pt))>, e: Map<(String, Pt), Fr>| #![trigger true_evals(ps, pqs, e)]
        (forall|m: Map<&String, &LinearCombination>| #[trigger] lmap_ok(m, lcs) ==> is_pqs(m, qs, pqs))      // the polynomial queries behind the combination queries
        && true_evals(ps, pqs, e)
        && s1 == bo_sponge(ck, ps, cs, pqs, sts, s0, rng)
        && match bo_res(ck, ps, cs, pqs, sts, s0, rng) {
            Err(_) => res is Err,
            // the scheme's batch opening of those queries, plus ONE evaluation per distinct (polynomial, point) pair in key order
            Ok(bp) => res is Ok && res->Ok_0.proof == bp && res->Ok_0.evals is Some && evals_ok(e, res->Ok_0.evals->Some_0@),
        }
}
pub struct PC;
impl PC {
//@fn id=lib.open_combinations file=poly-commit/src/lib.rs scope="pub trait PolynomialCommitment<F: PrimeField, P: Polynomial<F>>: Sized" name=open_combinations props=C06,C11
    fn open_combinations<'a>(ck: &CK, linear_combinations: Vec<&'a LinearCombination>, polynomials: Vec<&'a LabeledPolynomial>, commitments: Vec<&'a LabeledCommitment<Comm>>, query_set: &BTreeSet<(String, (String, Pt))>, sponge: &mut Sponge, states: Vec<&'a St>, rng: Option<&mut Rng>) -> (res: Result<BatchLCProof, Error>)
    ensures
        oc_post(ck, linear_combinations@, polynomials@, commitments@, query_set@, states@, old(sponge).st@, rng_in(rng), res, final(sponge).st@),   // name=lib.open_combinations.batch_opening_plus_one_evaluation_per_polynomial_and_point props=C06
//@body
//@rw 1 /let linear_combinations: Vec<_> = linear_combinations\.into_iter\(\)\.collect\(\);/ => let linear_combinations: Vec<&LinearCombination> = vec_refs_copy(&linear_combinations);
//@rw 1 /let polynomials: Vec<_> = polynomials\.into_iter\(\)\.collect\(\);/ => let polynomials: Vec<&LabeledPolynomial> = vec_refs_copy(&polynomials);
//@rw 1 /linear_combinations\.iter\(\)\.copied\(\)/ => vec_refs_copy(&linear_combinations)
//@rw 1 /polynomials\.iter\(\)\.copied\(\)/ => vec_refs_copy(&polynomials)
//@rw 1 /poly_evals\.values\(\)\.copied\(\)\.collect\(\)/ => evals_values_vec(&poly_evals)
//@after start
        let ghost rin = rng_in(rng);
        let ghost lcs0 = linear_combinations@; let ghost ps0 = polynomials@;
//@before /let proof = Self::batch_open\(/
        proof {
            assert(true_evals(ps0, poly_query_set@, poly_evals@));
            assert forall|m: Map<&String, &LinearCombination>| #[trigger] lmap_ok(m, lcs0) implies is_pqs(m, query_set@, poly_query_set@) by { }
        }
//@end
}
//@lemma props=C06
// C06, default methods, lock-step of prover and verifier: the evaluation list the default open_combinations transmits (one value per distinct
// (polynomial, point) pair, in key order) is paired by the default check_combinations with exactly those pairs - whatever the number of point
// labels that carry the same point value - so the verifier recomputes every combination from the TRUE evaluations of the polynomials
pub proof fn lemma_default_lc_lockstep(ps: Seq<&LabeledPolynomial>, pqs: Set<(String, (String, Pt))>, e: Map<(String, Pt), Fr>, evals: Vec<Fr>)
    requires
        true_evals(ps, pqs, e), evals_ok(e, evals@),        // open_combinations (above)
    ensures
        pevals_spec(pqs, Some(evals)) =~= e,                // what check_combinations (unit lib.check_combinations) uses as `poly_evals`   // name=lib.default_combinations.verifier_pairs_each_evaluation_with_its_polynomial_and_point props=C06
{
    assert forall|k: (String, Pt)| e.dom().contains(k) == keyset(pqs).contains(k) by {
        if e.dom().contains(k) { let q = choose|q: (String, (String, Fr))| pqs.contains(q) && q.0 == k.0 && q.1.1 == k.1; assert(keyset(pqs).contains((q.0, q.1.1))); }
        if keyset(pqs).contains(k) { let q = choose|q: (String, (String, Pt))| pqs.contains(q) && k == (q.0, q.1.1); assert(e.dom().contains((q.0, q.1.1))); }
    }
    assert(e.dom() =~= keyset(pqs));
    let ks = kseq(keyset(pqs)); let n = lmin(ks.len(), evals@.len());
    lemma_pm(ks, evals@, n);
    assert forall|k: (String, Pt)| e.dom().contains(k) implies pm(ks, evals@, n)[k] == e[k] by { let i = choose|i: int| 0 <= i < ks.len() && #[trigger] ks[i] == k; assert(evals@[i] == e[ks[i]]); }
}
