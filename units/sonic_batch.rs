// SonicKZG10::batch_check (sonic_pc/mod.rs)  (C05, C10, C11)
//@use core ops_gen poly labeled_comm sponge std
//@spec ring
//@typemap /::<E, P>::/ => ::
//@typemap /<E>/ =>
//@typemap /\bP::Point\b/ => Fr
//@typemap /Self::VerifierKey/ => VerifierKey
//@typemap /Self::Commitment/ => Commitment
//@typemap /Self::BatchProof/ => Vec<kzg10::Proof>
//@typemap /Self::Error/ => Error
//@typemap /&QuerySet<Fr>/ => &BTreeSet<(String, (String, Fr))>
//@typemap /&Evaluations<E::ScalarField, Fr>/ => &BTreeMap<(String, Fr), Fr>
//@typemap /<'a, R: RngCore>/ => <'a>
//@typemap /&mut R\b/ => &mut Rng
//@typemap /E::ScalarField::/ => Fr::
//@typemap /E::G1::zero\(\)/ => G1::zero()
//@typemap /: E::G1 =/ => : G1 =
//@typemap /BTreeMap<Option<usize>, E::G1>/ => BTreeMap<Option<usize>, G1>
//@enum file=poly-commit/src/error.rs name=Error
pub mod kzg10 {
    use super::*;
//@struct file=poly-commit/src/kzg10/data_structures.rs name=Commitment
//@struct file=poly-commit/src/kzg10/data_structures.rs name=Proof
}
pub type Commitment = kzg10::Commitment;
//@struct file=poly-commit/src/sonic_pc/data_structures.rs name=VerifierKey
//@spec sonic_spec
pub type Comm = Commitment;
pub type Pt = Fr;
//@use pcenv
//@spec group_spec

// ======================= specification =======================
// randomizer of group g: 1 for the first, then 128-bit draws
pub open spec fn s_r(id: int, pos: nat, g: nat) -> FS { if g == 0 { f_one() } else { draw_u128(id, (pos + g - 1) as nat) } }
pub open spec fn s_state(m: Map<&String, &LabeledCommitment<Comm>>, gs: Seq<(String, (Pt, Set<String>))>, s0: SS, k: nat) -> SS decreases k {
    if k == 0 { s0 } else { sp_iter(s_state(m, gs, s0, (k - 1) as nat), 1 + labels_seq(gs[k - 1].1.1).len()) }
}
// accumulators after the first k groups
pub open spec fn s_bucket(m: Map<&String, &LabeledCommitment<Comm>>, gs: Seq<(String, (Pt, Set<String>))>, s0: SS, id: int, pos: nat, d: Option<usize>, k: nat) -> FS decreases k {
    if k == 0 { f_zero() } else { let g = (k - 1) as nat; let ls = labels_seq(gs[g as int].1.1);
        f_add(s_bucket(m, gs, s0, id, pos, d, g), sonic_bucket(gather_c(m, ls), s_state(m, gs, s0, g), Some(s_r(id, pos, g)), d, ls.len())) }
}
pub open spec fn s_has(m: Map<&String, &LabeledCommitment<Comm>>, gs: Seq<(String, (Pt, Set<String>))>, d: Option<usize>, k: nat) -> bool decreases k {
    if k == 0 { false } else { s_has(m, gs, d, (k - 1) as nat) || sonic_has_bound(gather_c(m, labels_seq(gs[k - 1].1.1)), d, labels_seq(gs[k - 1].1.1).len()) }
}
pub open spec fn s_wit(pv: Seq<kzg10::Proof>, id: int, pos: nat, k: nat) -> FS decreases k {
    if k == 0 { f_zero() } else { f_add(s_wit(pv, id, pos, (k - 1) as nat), f_mul(pv[k - 1].w@, s_r(id, pos, (k - 1) as nat))) }
}
pub open spec fn s_adj(vk: &VerifierKey, m: Map<&String, &LabeledCommitment<Comm>>, ev: Map<(String, Pt), Fr>, gs: Seq<(String, (Pt, Set<String>))>, pv: Seq<kzg10::Proof>, s0: SS, id: int, pos: nat, k: nat) -> FS decreases k {
    if k == 0 { f_zero() } else { let g = (k - 1) as nat; let ls = labels_seq(gs[g as int].1.1);
        f_add(s_adj(vk, m, ev, gs, pv, s0, id, pos, g),
              f_mul(sonic_adjusted(vk, gs[g as int].1.0@, &pv[g as int], sonic_values(gather_v(ev, gs[g as int].1.0, ls), s_state(m, gs, s0, g), ls.len())), s_r(id, pos, g))) }
}
pub proof fn lemma_s_bucket_zero(m: Map<&String, &LabeledCommitment<Comm>>, gs: Seq<(String, (Pt, Set<String>))>, s0: SS, id: int, pos: nat, d: Option<usize>, k: nat)
    requires !s_has(m, gs, d, k)
    ensures s_bucket(m, gs, s0, id, pos, d, k) == f_zero()
    decreases k
{
    if k > 0 {
        let g = (k - 1) as nat; let ls = labels_seq(gs[g as int].1.1);
        lemma_s_bucket_zero(m, gs, s0, id, pos, d, g);
        lemma_sonic_bucket_zero(gather_c(m, ls), s_state(m, gs, s0, g), Some(s_r(id, pos, g)), d, ls.len());
        ax_add_zero(f_zero());
    }
}
// the accumulators handed to check_elems
pub open spec fn sb_acc_ok(vk: &VerifierKey, m: Map<&String, &LabeledCommitment<Comm>>, ev: Map<(String, Pt), Fr>, gs: Seq<(String, (Pt, Set<String>))>, pv: Seq<kzg10::Proof>, s0: SS, id: int, pos: nat,
                           cc: Map<Option<usize>, G1>, w: FS, a: FS, k: nat) -> bool {
    (forall|d: Option<usize>| (#[trigger] cc.dom().contains(d)) == s_has(m, gs, d, k))
    && (forall|d: Option<usize>| cc.dom().contains(d) ==> (#[trigger] cc[d])@ == s_bucket(m, gs, s0, id, pos, d, k))
    && w == s_wit(pv, id, pos, k) && a == s_adj(vk, m, ev, gs, pv, s0, id, pos, k)
}
pub open spec fn sbatch_post(vk: &VerifierKey, cs: Seq<&LabeledCommitment<Comm>>, qs: Set<(String, (String, Pt))>, ev: Map<(String, Pt), Fr>, pv: Seq<kzg10::Proof>, s0: SS, id: int, pos: nat, res: Result<bool, Error>, s1: SS) -> bool {
    exists|gs: Seq<(String, (Pt, Set<String>))>, m: Map<&String, &LabeledCommitment<Comm>>, cc: Map<Option<usize>, G1>| #![trigger groups_of(qs, gs), cmap_ok(m, cs), btree_entries(cc)]
        groups_of(qs, gs) && cmap_ok(m, cs) && gs.len() == pv.len()      // (a different number of proofs aborts)
        && (forall|k: int| 0 <= k < gs.len() ==> gather_ok(m, ev, (#[trigger] gs[k]).1.0, labels_seq(gs[k].1.1), labels_seq(gs[k].1.1).len()))
        && sb_acc_ok(vk, m, ev, gs, pv, s0, id, pos, cc, s_wit(pv, id, pos, gs.len()), s_adj(vk, m, ev, gs, pv, s0, id, pos, gs.len()), gs.len())
        && s1 == s_state(m, gs, s0, gs.len())
        // one randomised pairing equation over the per-point accumulations
        && res->Ok_0 == (f_add(f_add(sonic_pairing_sum(btree_entries(cc), vk, btree_entries(cc).len()), pair(f_neg(s_adj(vk, m, ev, gs, pv, s0, id, pos, gs.len())), vk.prepared_h@)),
                               pair(f_neg(s_wit(pv, id, pos, gs.len())), vk.prepared_beta_h@)) == f_zero())
}

pub struct SonicKZG10;
impl SonicKZG10 {
//@stub from=sonic.rs id=sonic_pc.accumulate_elems
//@stub from=sonic.rs id=sonic_pc.check_elems
//@fn id=sonic_pc.batch_check file=poly-commit/src/sonic_pc/mod.rs scope="impl<E, P> PolynomialCommitment<E::ScalarField, P> for SonicKZG10<E, P>" name=batch_check props=C05,C10,C11,C17
    #[verifier::loop_isolation(false)]
    fn batch_check<'a>(vk: &VerifierKey, commitments: Vec<&'a LabeledCommitment<Commitment>>, query_set: &BTreeSet<(String, (String, Fr))>, values: &BTreeMap<(String, Fr), Fr>, proof: &Vec<kzg10::Proof>, sponge: &mut Sponge, rng: &mut Rng) -> (res: Result<bool, Error>)
    requires
        sonic_table_sorted(vk), rng.present@,
    ensures
        res is Ok ==> sbatch_post(vk, commitments@, query_set@, values@, proof@, old(sponge).st@, old(rng).id@, old(rng).pos@, res, final(sponge).st@),   // name=sonic_pc.batch_check.one_randomised_equation_over_per_point_accumulations props=C05,C10,C11,C17
//@body
//@rw 1 /(?s)let commitments: BTreeMap<_, _> = (commitments\.into_iter\(\)\.map\(.*?\))\.collect\(\);/ => let cv__: Vec<(&String, &LabeledCommitment<Comm>)> = \1.collect();
        let commitments: BTreeMap<&String, &LabeledCommitment<Comm>> = btree_from_pairs(cv__);
        proof {
            assert forall|i: int| #[trigger] c_is_last(cs0, i) implies commitments@[&cs0[i].label] == cs0[i] by {
                assert(cv__@[i].0 == &cs0[i].label);
                assert forall|j: int| i < j < cv__@.len() implies cv__@[j].0 != cv__@[i].0 by { assert(*cv__@[j].0 == cs0[j].label); }
            }
            assert forall|k: &String| commitments@.dom().contains(k) == (exists|i: int| 0 <= i < cs0.len() && (#[trigger] cs0[i]).label == *k) by {
                if commitments@.dom().contains(k) { let i = choose|i: int| 0 <= i < cv__@.len() && (#[trigger] cv__@[i]).0 == k; assert(cs0[i].label == *k); }
                if exists|i: int| 0 <= i < cs0.len() && (#[trigger] cs0[i]).label == *k { let i = choose|i: int| 0 <= i < cs0.len() && (#[trigger] cs0[i]).label == *k; assert(cv__@[i].0 == k); }
            }
            assert(cmap_ok(commitments@, cs0));
        }
//@closure |c| => |c: &'a LabeledCommitment<Comm>| -> (kv: (&String, &LabeledCommitment<Comm>)) ensures *kv.0 == c.label, kv.1 == c
//@rw 1 /let mut query_to_labels_map = BTreeMap::new\(\);/ => let mut query_to_labels_map: BTreeMap<&String, (&Pt, BTreeSet<&String>)> = BTreeMap::new();
//@rw 1 /for \(label, \(point_label, point\)\) in([^{]*?)query_set\.iter\(\)([^{]*)\{/ => let qv__ = query_set_to_vec(query_set); for q__ in\1qv__.iter()\2{ let label: &String = &q__.0; let point_label: &String = &q__.1.0; let point: &Pt = &q__.1.1;
//@rw 1 /(?s)let labels = query_to_labels_map\s*\.entry\(point_label\)\s*\.or_insert\(\(point, BTreeSet::new\(\)\)\);\s*labels\.1\.insert\(label\);/ => group_insert(&mut query_to_labels_map, point_label, point, label);
//@rw 1 /query_to_labels_map\.len\(\)/ => map_len(&query_to_labels_map)
//@rw 1 /for \(\(_point_label, \(point, labels\)\), p\) in([^{]*?)query_to_labels_map\.into_iter\(\)\.zip\(proof\)/ => let gv__ = map_into_sorted_vec(query_to_labels_map); let ghost gs = Seq::new(gv__@.len(), |i: int| (*gv__@[i].0, (*gv__@[i].1.0, set_vals(gv__@[i].1.1@))));
        proof { lemma_groups(query_set@, qmap0, gv__@, gs); }
        for ((_point_label, (point, labels)), p) in\1gv__.into_iter().zip(proof.iter())
//@rw 1 /for label in([^{]*?)labels\.into_iter\(\)([^{]*)\{/ => let ghost lset = labels@; let lv__ = set_into_sorted_vec(labels); for label__r in\1lv__.iter()\2{ let label: &String = *label__r;
//@rw 1 /commitments\.get\(label\)/ => btree_get_by_label(&commitments, label)
//@rw * /label\.to_string\(\)/ => string_to_string(label)
//@rw 1 /label\.clone\(\)/ => string_to_string(label)
//@rw 1 /let mut values_to_combine = Vec::new\(\);/ => let mut values_to_combine: Vec<Fr> = Vec::new();
//@rw 1 /comms_to_combine\.into_iter\(\),/ => comms_to_combine,
//@rw 1 /values_to_combine\.into_iter\(\),/ => values_to_combine,
//@rw 1 /u128::rand\(rng\)\.into\(\)/ => Fr::from_u128_rand(rng)
//@after start
        let ghost cs0 = commitments@;
        let ghost s0 = sponge.st@;
        let ghost id0 = rng.id@; let ghost pos0 = rng.pos@;
        let ghost pv0 = proof@;
//@loop 1 kw=for name=it
            invariant it.index@ <= qv__@.len(), qv__@.len() == set_seq(query_set@).len(),
                forall|i: int| 0 <= i < qv__@.len() ==> *(#[trigger] qv__@[i]) == set_seq(query_set@)[i],
                qmap_abs(query_to_labels_map@, gmap(set_seq(query_set@), it.index@ as nat)),
//@loopstart 1
            let ghost m0 = query_to_labels_map@;
            let ghost kq = it.index@;
//@loopend 1
            proof {
                let qseq = set_seq(query_set@);
                assert(*q__ == qseq[kq]);
                lemma_gmap_step(m0, query_to_labels_map@, qseq, kq as nat, point_label, point, label);
            }
//@afterloop 1
        let ghost qmap0 = query_to_labels_map@;
//@loop 2 kw=for name=it2
            invariant it2.index@ <= gs.len(), gs.len() == gv__@.len(), gs.len() == pv0.len(),
                gs == Seq::new(gv__@.len(), |i: int| (*gv__@[i].0, (*gv__@[i].1.0, set_vals(gv__@[i].1.1@)))),
                rng.id@ == id0, rng.present@, rng.pos@ == pos0 + it2.index@, randomizer@ == s_r(id0, pos0, it2.index@ as nat),
                sponge.st@ == s_state(commitments@, gs, s0, it2.index@ as nat),
                forall|k: int| 0 <= k < it2.index@ ==> gather_ok(commitments@, values@, (#[trigger] gs[k]).1.0, labels_seq(gs[k].1.1), labels_seq(gs[k].1.1).len()),
                sb_acc_ok(vk, commitments@, values@, gs, pv0, s0, id0, pos0, combined_comms@, combined_witness@, combined_adjusted_witness@, it2.index@ as nat),
//@loopstart 2
            let ghost k = it2.index@;
            let ghost ls = labels_seq(gs[k].1.1);
            let ghost cc_k = combined_comms@;
//@beforeloop 3
                proof { assert(*point == gs[k].1.0 && set_vals(labels@) == gs[k].1.1); assert(*p == pv0[k]); }
//@loop 3 kw=for name=it3
                invariant k < gs.len(), it3.index@ <= lv__@.len(), lv__@.len() == ls.len(), forall|i: int| 0 <= i < ls.len() ==> *(#[trigger] lv__@[i]) == ls[i],
                    comms_to_combine@.len() == it3.index@, values_to_combine@.len() == it3.index@,
                    gather_ok(commitments@, values@, *point, ls, it3.index@ as nat),
                    forall|i: int| 0 <= i < it3.index@ ==> (#[trigger] comms_to_combine@[i]) == commitments@[&ls[i]] && values_to_combine@[i] == values@[(ls[i], *point)],
//@loopstart 3
                    let ghost j = it3.index@; let ghost c0__ = comms_to_combine@; let ghost v0__ = values_to_combine@;
                    proof { assert(*label == ls[j]); }
//@loopend 3
                    proof {
                        assert(comms_to_combine@[j] == commitments@[&ls[j]]); assert(values_to_combine@[j] == values@[(ls[j], *point)]);
                        assert forall|i: int| 0 <= i < j + 1 implies (#[trigger] comms_to_combine@[i]) == commitments@[&ls[i]] && values_to_combine@[i] == values@[(ls[i], *point)] by {
                            if i < j { assert(comms_to_combine@[i] == c0__[i]); assert(values_to_combine@[i] == v0__[i]); assert(c0__[i] == commitments@[&ls[i]]); }
                        }
                    }
//@afterloop 3
                proof {
                    assert forall|i: int| 0 <= i < ls.len() implies values_to_combine@[i] == gather_v(values@, *point, ls)[i] by { let c = comms_to_combine@[i]; assert(c == commitments@[&ls[i]]); }
                    assert(comms_to_combine@ =~= gather_c(commitments@, ls));
                    assert(values_to_combine@ =~= gather_v(values@, *point, ls));
                    assert(gather_ok(commitments@, values@, *point, ls, ls.len()));
                }
//@loopend 2
            proof {
                assert forall|d: Option<usize>| (#[trigger] combined_comms@.dom().contains(d)) == s_has(commitments@, gs, d, (k + 1) as nat) by { }
                assert forall|d: Option<usize>| combined_comms@.dom().contains(d) implies (#[trigger] combined_comms@[d])@ == s_bucket(commitments@, gs, s0, id0, pos0, d, (k + 1) as nat) by {
                    if !cc_k.dom().contains(d) { lemma_s_bucket_zero(commitments@, gs, s0, id0, pos0, d, k as nat); }
                }
                ax_mul_comm(pv0[k].w@, s_r(id0, pos0, k as nat));
            }
//@before /Self::check_elems\(/
        proof {
            assert(groups_of(query_set@, gs) && cmap_ok(commitments@, cs0));
            let e = btree_entries(combined_comms@);
        }
//@end
}
