// MarlinKZG10 prover side: marlin_pc::Randomness::rand, shift_polynomial, commit  (C01, C04, C07, C08, C17)
//@use core ops_gen poly labeled labeled_comm sponge std
//@spec ring
//@typemap /::<E, P, Self>::/ => ::
//@typemap /::<E, P>::/ => ::
//@typemap /<E>/ => 
//@typemap /\bmarlin_pc::/ => 
//@typemap /\bP::Point\b/ => Fr
//@typemap /\bP::/ => Poly::
//@typemap /: &P\b/ => : &Poly
//@typemap /: P,/ => : Poly,
//@typemap /kzg10::Powers<'a, E>/ => kzg10::Powers
//@typemap /kzg10::Randomness<F, P>/ => kzg10::Randomness
//@typemap /Self::CommitterKey/ => CommitterKey
//@typemap /Self::Commitment/ => Commitment
//@typemap /Self::CommitmentState/ => Randomness
//@typemap /Self::Error/ => Error
//@typemap /PhantomData<F>/ => PhantomData<Fr>
//@typemap /\bPhantomData\b/ => core::marker::PhantomData
//@enum file=poly-commit/src/error.rs name=Error
pub mod kzg10 {
    use super::*;
//@struct file=poly-commit/src/kzg10/data_structures.rs name=Commitment
//@typemap /Cow<'a, \[E::G1Affine\]>/ => Vec<G1Affine>
//@struct file=poly-commit/src/kzg10/data_structures.rs name=Powers
//@struct file=poly-commit/src/kzg10/data_structures.rs name=Randomness
//@struct file=poly-commit/src/kzg10/data_structures.rs name=VerifierKey
//@struct file=poly-commit/src/kzg10/data_structures.rs name=Proof
//@spec kzg10_check_spec kzg10_commit_spec
    impl Randomness {
        #[verifier::external_body] pub fn clone(&self) -> (r: Randomness) ensures r == *self { unimplemented!() }   // #[derive(Clone)]: an equal value   [assumed]
//@stub from=kzg10.rs id=kzg10.Randomness.rand
//@stub from=kzg10.rs id=kzg10.Randomness.empty
//@fn id=kzg10.Randomness.add_assign_scaled file=poly-commit/src/kzg10/data_structures.rs scope="impl<'a, F: PrimeField, P: DenseUVPolynomial<F>> AddAssign<\(F, &'a Randomness<F, P>\)>\s+for Randomness<F, P>" name=add_assign props=C08,C01
        pub fn add_assign_scaled(&mut self, q: (Fr, &Randomness))
        ensures
            forall|x: FS| #[trigger] final(self).blinding_polynomial.ev(x) == f_add(old(self).blinding_polynomial.ev(x), f_mul(q.0@, q.1.blinding_polynomial.ev(x))),   // name=kzg10.Randomness.add_assign_scaled.linear props=C08,C01
            final(self).blinding_polynomial.coeffs@.len() <= (if old(self).blinding_polynomial.coeffs@.len() >= q.1.blinding_polynomial.coeffs@.len() { old(self).blinding_polynomial.coeffs@.len() } else { q.1.blinding_polynomial.coeffs@.len() }),
//@body
//@destructure q = (f, other)
//@end
    }
    pub struct KZG10;
    impl KZG10 {
//@stub from=kzg10.rs id=kzg10.commit
//@stub from=kzg10.rs id=kzg10.check_degrees_and_bounds
//@stub from=kzg10.rs id=kzg10.compute_witness_polynomial
//@stub from=kzg10.rs id=kzg10.open_with_witness_polynomial
//@stub from=kzg10.rs id=kzg10.open
    }
}
//@struct file=poly-commit/src/marlin/marlin_pc/data_structures.rs name=Commitment
//@struct file=poly-commit/src/marlin/marlin_pc/data_structures.rs name=CommitterKey
//@struct file=poly-commit/src/marlin/marlin_pc/data_structures.rs name=Randomness
//@struct file=poly-commit/src/marlin/marlin_pc/data_structures.rs name=VerifierKey
pub open spec fn ck_wf(ck: &CommitterKey) -> bool {
    ck.powers@.len() >= 1
    && (ck.enforced_degree_bounds is Some ==> sorted_usize(ck.enforced_degree_bounds->Some_0@))
    && (ck.shifted_powers is Some ==> (ck.enforced_degree_bounds is Some && ck.enforced_degree_bounds->Some_0@.len() > 0
        && ck.enforced_degree_bounds->Some_0@.last() < ck.shifted_powers->Some_0@.len()))   // (trim keeps max_bound + 1 shifted powers)
    // trim provides shifted powers exactly when some bound is enforced
    && ((ck.enforced_degree_bounds is Some && ck.enforced_degree_bounds->Some_0@.len() > 0) ==> ck.shifted_powers is Some)
    && (ck.enforced_degree_bounds is Some && ck.enforced_degree_bounds->Some_0@.len() > 0 ==> ck.enforced_degree_bounds->Some_0@.last() < 0x4000_0000_0000_0000)
}
#[verifier::external_body] pub fn cow_from_slice(s: &[G1Affine]) -> (r: Vec<G1Affine>) ensures r@ == s@ { unimplemented!() }
impl CommitterKey {
//@stub from=marlin.rs id=marlin_pc.CommitterKey.powers
//@stub from=marlin.rs id=marlin_pc.CommitterKey.shifted_powers
//@stub from=marlin.rs id=marlin_pc.CommitterKey.supported_degree
}

impl Randomness {
//@fn id=marlin_pc.Randomness.rand file=poly-commit/src/marlin/marlin_pc/data_structures.rs scope="impl<F: PrimeField, P: DenseUVPolynomial<F>> PCCommitmentState for Randomness<F, P>" name=rand props=C07
    pub fn rand(hiding_bound: usize, has_degree_bound: bool, _a: Option<usize>, rng: &mut Rng) -> (r: Self)
    requires
        hiding_bound < usize::MAX - 1,
    ensures
        (r.shifted_rand is Some) == has_degree_bound,
        r.rand.blinding_polynomial.coeffs@.len() == hiding_bound + 2,   // name=marlin_pc.Randomness.rand.h_plus_2 props=C07
        has_degree_bound ==> r.shifted_rand->Some_0.blinding_polynomial.coeffs@.len() == hiding_bound + 2,
        // two blinded commitments => two disjoint runs of fresh draws
        has_degree_bound ==> (forall|i: int| 0 <= i <= hiding_bound + 1 ==> (#[trigger] r.shifted_rand->Some_0.blinding_polynomial.coeffs@[i])@ == draw(old(rng).id@, old(rng).pos@ + i as nat)),   // name=marlin_pc.Randomness.rand.shifted_fresh props=C07
        forall|i: int| 0 <= i <= hiding_bound + 1 ==> (#[trigger] r.rand.blinding_polynomial.coeffs@[i])@ == draw(old(rng).id@, old(rng).pos@ + (if has_degree_bound { hiding_bound + 2 } else { 0 }) as nat + i as nat),   // name=marlin_pc.Randomness.rand.independent_of_shifted props=C07
        final(rng).pos@ == old(rng).pos@ + (if has_degree_bound { 2 * (hiding_bound + 2) } else { hiding_bound + 2 }),
//@body
//@end
}

pub proof fn lemma_from_coeffs_ev(r: &Poly, v: Seq<Fr>, x: FS)
    requires r.coeffs@.len() <= v.len(), r.coeffs@ == v.subrange(0, r.coeffs@.len() as int), forall|i: int| r.coeffs@.len() <= i < v.len() ==> (#[trigger] v[i])@ == f_zero()
    ensures r.ev(x) == peval(fviews(v), x, v.len())
{ lemma_peval_trailing_zeros(fviews(v), x, r.len(), v.len()); lemma_peval_ext(fviews(v), r.cv(), x, r.len()); }
//@fn id=marlin_pc.shift_polynomial file=poly-commit/src/marlin/marlin_pc/mod.rs scope=top name=shift_polynomial props=C04,C01
pub fn shift_polynomial(ck: &CommitterKey, p: &Poly, degree_bound: usize) -> (r: Poly)
    requires
        !p.is_zero_spec() ==> (ck.enforced_degree_bounds is Some && ck.enforced_degree_bounds->Some_0@.len() > 0 && degree_bound <= ck.enforced_degree_bounds->Some_0@.last()),
        p.coeffs@.len() + (if ck.enforced_degree_bounds is Some && ck.enforced_degree_bounds->Some_0@.len() > 0 { ck.enforced_degree_bounds->Some_0@.last() as int } else { 0 }) < usize::MAX,
    ensures
        // X^(max_bound - d) * p(X)
        forall|x: FS| #[trigger] r.ev(x) == (if p.is_zero_spec() { f_zero() } else { f_mul(f_pow(x, (ck.enforced_degree_bounds->Some_0@.last() - degree_bound) as nat), p.ev(x)) }),   // name=marlin_pc.shift_polynomial.multiplies_by_x_to_the_shift props=C04,C01
        r.wf(), p.is_zero_spec() ==> r.coeffs@.len() == 0, !p.is_zero_spec() ==> r.coeffs@.len() <= ck.enforced_degree_bounds->Some_0@.last() - degree_bound + p.coeffs@.len(),
//@body
//@rw * /\.expect\("Polynomial requires degree bounds, but `ck` does not support any"\)/ => .unwrap_abort()
//@rw * /vec!\[E::ScalarField::zero\(\); largest_enforced_degree_bound - degree_bound\]/ => vec_zero(*largest_enforced_degree_bound - degree_bound)
//@rw * /\.expect\("\s*"\)/ => .unwrap_abort()
//@before /shifted_polynomial_coeffs\.extend_from_slice/
        let ghost z0 = shifted_polynomial_coeffs@;
//@before /P::from_coefficients_vec\(shifted_polynomial_coeffs\)/
        let ghost v0 = shifted_polynomial_coeffs@;
        proof {
            assert(fviews(v0) =~= fviews(z0) + p.cv());
            assert forall|x: FS| peval(fviews(v0), x, v0.len()) == f_mul(f_pow(x, z0.len()), p.ev(x)) by { lemma_peval_shift(fviews(z0), p.cv(), x, p.len()); }
            assert forall|rr: Poly, x: FS| (rr.coeffs@.len() <= v0.len() && rr.coeffs@ == v0.subrange(0, rr.coeffs@.len() as int) && (forall|i: int| rr.coeffs@.len() <= i < v0.len() ==> (#[trigger] v0[i])@ == f_zero()))
                implies #[trigger] rr.ev(x) == peval(fviews(v0), x, v0.len()) by { lemma_from_coeffs_ev(&rr, v0, x); }
        }
//@end
#[verifier::external_body] pub fn vec_zero(len: usize) -> (r: Vec<Fr>) ensures r@.len() == len, forall|i: int| 0 <= i < len ==> (#[trigger] r@[i])@ == f_zero() { unimplemented!() }

// ======================= MarlinKZG10::commit =======================
// per polynomial: the plain commitment under ck.powers() and, iff a degree bound is declared, the shifted one under
// ck.shifted_powers(bound); each with its own blinding polynomial
pub open spec fn marlin_commit_one(ck: &CommitterKey, p: &LabeledPolynomial, c: &LabeledCommitment<Commitment>, st: &Randomness) -> bool {
    c.label == p.label && c.degree_bound == p.degree_bound
    && (c.commitment.shifted_comm is Some) == (p.degree_bound is Some) && (st.shifted_rand is Some) == (p.degree_bound is Some)
    && c.commitment.comm.0@ == f_add(msm(ck.powers@, p.polynomial.cv(), p.polynomial.len()),
            msm(ck.powers_of_gamma_g@, st.rand.blinding_polynomial.cv(), min(ck.powers_of_gamma_g@.len(), st.rand.blinding_polynomial.len())))
    && (p.degree_bound is Some ==> {
            let w = ck.shifted_powers->Some_0@.subrange(ck.enforced_degree_bounds->Some_0@.last() - p.degree_bound->Some_0, ck.shifted_powers->Some_0@.len() as int);
            c.commitment.shifted_comm->Some_0.0@ == f_add(msm(w, p.polynomial.cv(), p.polynomial.len()),
                msm(ck.powers_of_gamma_g@, st.shifted_rand->Some_0.blinding_polynomial.cv(), min(ck.powers_of_gamma_g@.len(), st.shifted_rand->Some_0.blinding_polynomial.len()))) })
    && (p.hiding_bound is None ==> (st.rand.blinding_polynomial.len() == 0 && (p.degree_bound is Some ==> st.shifted_rand->Some_0.blinding_polynomial.len() == 0)))
    && (p.hiding_bound is Some ==> (st.rand.blinding_polynomial.len() == p.hiding_bound->Some_0 + 2
            && (p.degree_bound is Some ==> st.shifted_rand->Some_0.blinding_polynomial.len() == p.hiding_bound->Some_0 + 2)))
}
pub open spec fn marlin_admissible(ck: &CommitterKey, p: &LabeledPolynomial) -> bool {
    p.polynomial.degree_spec() + 1 <= ck.powers@.len()
    && (p.degree_bound is Some ==> (ck.enforced_degree_bounds is Some && ck.enforced_degree_bounds->Some_0@.contains(p.degree_bound->Some_0)
            && p.polynomial.degree_spec() <= p.degree_bound->Some_0 && p.degree_bound->Some_0 <= ck.max_degree && ck.shifted_powers is Some))
}
pub open spec fn marlin_hiding_ok(ck: &CommitterKey, p: &LabeledPolynomial, has_rng: bool) -> bool {
    p.hiding_bound is Some ==> (has_rng && p.hiding_bound->Some_0 + 1 < ck.powers_of_gamma_g@.len())
}
pub struct MarlinKZG10;
impl MarlinKZG10 {
//@fn id=marlin_pc.commit file=poly-commit/src/marlin/marlin_pc/mod.rs scope="impl<E, P> PolynomialCommitment<E::ScalarField, P> for MarlinKZG10<E, P>" name=commit props=C01,C04,C07,C08,C17,C19
    fn commit<'a>(ck: &CommitterKey, polynomials: Vec<&'a LabeledPolynomial>, rng: Option<&mut Rng>) -> (res: Result<(Vec<LabeledCommitment<Commitment>>, Vec<Randomness>), Error>)
    requires
        ck_wf(ck),
        forall|i: int| 0 <= i < polynomials@.len() ==> (#[trigger] polynomials@[i]).polynomial.wf() && polynomials@[i].polynomial.coeffs@.len() < usize::MAX
            && (polynomials@[i].hiding_bound is Some ==> polynomials@[i].hiding_bound->Some_0 < usize::MAX - 1),
    ensures
        // a polynomial above its declared bound / the supported degree, or with a bound the key was not trimmed for, is refused
        res is Ok ==> (forall|i: int| 0 <= i < polynomials@.len() ==> ((#[trigger] polynomials@[i]).degree_bound is Some ==>
            (ck.enforced_degree_bounds is Some && ck.enforced_degree_bounds->Some_0@.contains(polynomials@[i].degree_bound->Some_0)
             && polynomials@[i].polynomial.degree_spec() <= polynomials@[i].degree_bound->Some_0 && polynomials@[i].degree_bound->Some_0 <= ck.max_degree))),   // name=marlin_pc.commit.bound_violations_are_refused props=C04,C17,C19
        res is Ok ==> (forall|i: int| 0 <= i < polynomials@.len() ==> (#[trigger] polynomials@[i]).polynomial.degree_spec() + 1 <= ck.powers@.len()),   // name=marlin_pc.commit.degree_beyond_key_is_refused props=C17,C04,C19
        res is Ok ==> res->Ok_0.0@.len() == polynomials@.len() && res->Ok_0.1@.len() == polynomials@.len(),   // name=marlin_pc.commit.one_commitment_and_state_per_polynomial props=C01,C19
        res is Ok ==> (forall|i: int| 0 <= i < polynomials@.len() ==> marlin_commit_one(ck, (#[trigger] polynomials@[i]), &res->Ok_0.0@[i], &res->Ok_0.1@[i])),   // name=marlin_pc.commit.commitments_are_the_key_defined_linear_maps props=C08,C01,C04,C07,C19
        (res is Ok && rng is None) ==> (forall|i: int| 0 <= i < polynomials@.len() ==> (#[trigger] polynomials@[i]).hiding_bound is None),   // name=marlin_pc.commit.hiding_without_rng_never_succeeds props=C07,C17,C19
        // in-domain requests are answered: an error means some polynomial is out of domain
        res is Err ==> (exists|i: int| 0 <= i < polynomials@.len() && !(marlin_admissible(ck, #[trigger] polynomials@[i]) && marlin_hiding_ok(ck, polynomials@[i], rng is Some))),   // name=marlin_pc.commit.only_out_of_domain_requests_are_refused props=C17,C01,C19
//@body
//@rw * /&mut crate::optional_rng::OptionalRng\(rng\)/ => &mut optional_rng_wrap(rng)
//@rw * /Some\(rng\)/ => Some(&mut *rng)
//@rw * /ck\s*\.shifted_powers\(degree_bound\)/ => ck.shifted_powers(Some(degree_bound))
//@rw * /label\.to_string\(\)/ => string_to_string(label)
//@rw * /let mut commitments = Vec::new\(\);/ => let mut commitments: Vec<LabeledCommitment<Commitment>> = Vec::new();
//@rw * /let mut states = Vec::new\(\);/ => let mut states: Vec<Randomness> = Vec::new();
//@closure |bounds| => |bounds: &Vec<usize>| -> (sl: &[usize]) ensures sl@ == bounds@
//@after start
        let ghost rng_present = rng is Some;
//@loop 1 kw=for name=it
            invariant ck_wf(ck), it.index@ <= polynomials@.len(), commitments@.len() == it.index@, states@.len() == it.index@,
                rng.present@ ==> rng_present,
                forall|i: int| 0 <= i < polynomials@.len() ==> (#[trigger] polynomials@[i]).polynomial.wf() && polynomials@[i].polynomial.coeffs@.len() < usize::MAX
                    && (polynomials@[i].hiding_bound is Some ==> polynomials@[i].hiding_bound->Some_0 < usize::MAX - 1),
                forall|i: int| 0 <= i < it.index@ ==> marlin_admissible(ck, (#[trigger] polynomials@[i])) && marlin_commit_one(ck, polynomials@[i], &commitments@[i], &states@[i])
                    && (polynomials@[i].hiding_bound is Some ==> rng_present),
//@end

//@fn id=marlin_pc.open file=poly-commit/src/marlin/marlin_pc/mod.rs scope="impl<E, P> PolynomialCommitment<E::ScalarField, P> for MarlinKZG10<E, P>" name=open optclosures=? props=C11,C04,C17,C01,C19,C07
    fn open<'a>(ck: &CommitterKey, labeled_polynomials: Vec<&'a LabeledPolynomial>, _commitments: Vec<&'a LabeledCommitment<Commitment>>, point: &'a Fr, sponge: &mut Sponge,
                states: Vec<&'a Randomness>, _rng: Option<&mut Rng>) -> (res: Result<kzg10::Proof, Error>)
    requires
        ck_wf(ck),
        forall|i: int| 0 <= i < labeled_polynomials@.len() ==> (#[trigger] labeled_polynomials@[i]).polynomial.wf() && labeled_polynomials@[i].polynomial.coeffs@.len() < 0x4000_0000_0000_0000,
    ensures
        // the prover squeezes exactly like the verifier: one challenge per polynomial and one more per degree-bounded polynomial
        res is Ok ==> final(sponge).st@ == sp_iter(old(sponge).st@, open_nsq(labeled_polynomials@, min(labeled_polynomials@.len(), states@.len()))),   // name=marlin_pc.open.squeeze_schedule_matches_verifier props=C11
        res is Ok ==> (forall|i: int| 0 <= i < min(labeled_polynomials@.len(), states@.len()) ==> marlin_admissible_open(ck, (#[trigger] labeled_polynomials@[i]))),   // name=marlin_pc.open.bound_violations_are_refused props=C04,C17
        res is Ok ==> (forall|i: int| 0 <= i < min(labeled_polynomials@.len(), states@.len()) ==> (#[trigger] labeled_polynomials@[i]).degree_bound.is_some() == states@[i].shifted_rand.is_some()),
        // VALUE: the proof is the KZG10 opening of the challenge-weighted sums of the polynomials and blinding polynomials, plus the
        // commitment to the challenge-weighted sum of the shifted witnesses of the degree-bounded polynomials
        res is Ok ==> marlin_open_post(ck, labeled_polynomials@, states@, *point, old(sponge).st@, min(labeled_polynomials@.len(), states@.len()), &res->Ok_0),   // name=marlin_pc.open.proof_opens_the_challenge_weighted_sums props=C01,C19,C07
//@body
//@rw * /\b(p|r|shifted_w|shifted_r|shifted_r_witness) \+= \((challenge_j(?:_1)?), ([^;]*)\);/ => \1.add_assign_scaled((\2, \3));
//@rw * /ck\.shifted_powers\(None\)/ => ck.shifted_powers(None)
//@rw * /let shifted_witness = shift_polynomial\(ck, &witness, degree_bound\);/ => let shifted_witness = shift_polynomial(ck, &witness, degree_bound);
//@closure |bounds| => |bounds: &Vec<usize>| -> (sl: &[usize]) ensures sl@ == bounds@
//@closure |v| => |v: Fr| -> (o: Fr) ensures o@ == f_add(v@, shifted_random_v@)
//@beforeloop 1
        let ghost s0 = sponge.st@;
        let ghost lps = labeled_polynomials@;
        let ghost sts = states@;
        let ghost mut ws: Seq<Poly> = Seq::empty();
        let ghost mut hws: Seq<Option<Poly>> = Seq::empty();
//@loop 1 kw=for name=it
            invariant ck_wf(ck), it.index@ <= min(labeled_polynomials@.len(), states@.len()),
                s0 == old(sponge).st@, lps == labeled_polynomials@, sts == states@,
                sponge.st@ == sp_iter(old(sponge).st@, open_nsq(labeled_polynomials@, it.index@ as nat)),
                forall|i: int| 0 <= i < labeled_polynomials@.len() ==> (#[trigger] labeled_polynomials@[i]).polynomial.wf() && labeled_polynomials@[i].polynomial.coeffs@.len() < 0x4000_0000_0000_0000,
                enforce_degree_bound ==> ck.shifted_powers is Some,
                forall|i: int| 0 <= i < it.index@ ==> marlin_admissible_open(ck, (#[trigger] labeled_polynomials@[i])) && labeled_polynomials@[i].degree_bound.is_some() == states@[i].shifted_rand.is_some(),
                p.wf(), shifted_w.wf(), p.coeffs@.len() < 0x4000_0000_0000_0000, shifted_w.coeffs@.len() < 0x8000_0000_0000_0000,
                // value level
                ws.len() == it.index@, hws.len() == it.index@,
                m_wit_ok(lps, sts, ws, hws, point@, it.index@ as nat),
                enforce_degree_bound == m_any_bound(lps, it.index@ as nat),
                forall|x: FS| #[trigger] p.ev(x) == m_cp(lps, s0, it.index@ as nat, x),
                forall|x: FS| #[trigger] r.blinding_polynomial.ev(x) == m_cr(lps, sts, s0, it.index@ as nat, x),
                forall|x: FS| #[trigger] shifted_w.ev(x) == m_csw(ck, lps, ws, s0, it.index@ as nat, x),
                forall|x: FS| #[trigger] shifted_r.blinding_polynomial.ev(x) == m_csr(lps, sts, s0, it.index@ as nat, x),
                forall|x: FS| #[trigger] shifted_r_witness.ev(x) == m_csrw(lps, hws, s0, it.index@ as nat, x),
                r.blinding_polynomial.len() <= m_rlen(sts, it.index@ as nat),
                shifted_r_witness.len() <= m_hwlen(lps, hws, it.index@ as nat),
//@loopstart 1
            proof { reveal_with_fuel(sp_iter, 3); }
            let ghost idx = it.index@ as nat;
            let ghost ws0 = ws; let ghost hws0 = hws; let ghost sw0 = shifted_w; let ghost srw0 = shifted_r_witness;
            proof {
                ws = ws.push(polynomial.polynomial); hws = hws.push(None);
                lemma_m_ext(ck, lps, sts, ws0, ws, hws0, hws, s0, point@, idx);
            }
//@after /let shifted_witness = shift_polynomial/
                let ghost ws1 = ws; let ghost hws1 = hws;
                proof {
                    ws = ws.update(idx as int, witness); hws = hws.update(idx as int, shifted_rand_witness);
                    lemma_m_ext(ck, lps, sts, ws1, ws, hws1, hws, s0, point@, idx);
                }
//@after /if let Some\(shifted_rand_witness\) = shifted_rand_witness \{/
                proof {
                    assert(ws[idx as int] == witness && hws[idx as int] == hws1.update(idx as int, hws[idx as int])[idx as int]);
                    assert(m_xi1(lps, s0, idx) == challenge_j_1@);
                    assert(lps[idx as int].degree_bound == Some(degree_bound));
                    assert forall|x: FS| #[trigger] shifted_w.ev(x) == m_csw(ck, lps, ws, s0, idx + 1, x) by {
                        assert(m_csw(ck, lps, ws, s0, idx, x) == m_csw(ck, lps, ws1, s0, idx, x));
                        assert(m_csw(ck, lps, ws1, s0, idx, x) == m_csw(ck, lps, ws0, s0, idx, x));
                        assert(sw0.ev(x) == m_csw(ck, lps, ws0, s0, idx, x));
                        assert(shifted_witness.ev(x) == m_shw(ck, degree_bound, &witness, x));
                    }
                    assert forall|x: FS| #[trigger] shifted_r_witness.ev(x) == m_csrw(lps, hws, s0, idx + 1, x) by {
                        assert(m_csrw(lps, hws, s0, idx, x) == m_csrw(lps, hws1, s0, idx, x));
                        assert(m_csrw(lps, hws1, s0, idx, x) == m_csrw(lps, hws0, s0, idx, x));
                        assert(srw0.ev(x) == m_csrw(lps, hws0, s0, idx, x));
                    }
                }
//@loopend 1
            proof {
                if lps[idx as int].degree_bound is None {
                    assert forall|x: FS| #[trigger] shifted_w.ev(x) == m_csw(ck, lps, ws, s0, idx + 1, x) by {
                        assert(m_csw(ck, lps, ws, s0, idx, x) == m_csw(ck, lps, ws0, s0, idx, x));
                        assert(sw0.ev(x) == m_csw(ck, lps, ws0, s0, idx, x));
                    }
                    assert forall|x: FS| #[trigger] shifted_r_witness.ev(x) == m_csrw(lps, hws, s0, idx + 1, x) by {
                        assert(m_csrw(lps, hws, s0, idx, x) == m_csrw(lps, hws0, s0, idx, x));
                        assert(srw0.ev(x) == m_csrw(lps, hws0, s0, idx, x));
                    }
                }
            }
//@afterloop 1
        let ghost kk = min(labeled_polynomials@.len(), states@.len());
        let ghost gp = p; let ghost gr = r; let ghost gsw = shifted_w; let ghost gsr = shifted_r; let ghost gsrw = shifted_r_witness;
//@after /let proof = kzg10::KZG10::open\(/
        let ghost pr0 = proof;
//@before /Ok\(kzg10::Proof \{/
        proof {
            let g = MOpenWit { ws, hws, p: gp, r: gr, pr0, sw: gsw, sr: gsr, srw: gsrw };
            assert(marlin_open_rel(ck, lps, sts, *point, s0, kk, w@, random_v, g));
            let ghost rp = kzg10::Proof { w: G1Affine::mk(w@), random_v };
            assert(rp.w@ == w@);
            assert(marlin_open_rel(ck, lps, sts, *point, s0, kk, rp.w@, rp.random_v, g));
            assert(marlin_open_post(ck, lps, sts, *point, s0, kk, &rp));
        }
//@end
}
impl Poly {
    // `p += (f, &q)` as a method (the operator desugars to AddAssign::add_assign)
    #[verifier::external_body] pub fn add_assign_scaled(&mut self, q: (Fr, &Poly))
        ensures forall|x: FS| #[trigger] final(self).ev(x) == f_add(old(self).ev(x), f_mul(q.0@, q.1.ev(x))), final(self).wf(),
                final(self).coeffs@.len() <= (if old(self).coeffs@.len() >= q.1.coeffs@.len() { old(self).coeffs@.len() } else { q.1.coeffs@.len() }),
    { unimplemented!() }
}
//@spec marlin_sched_spec marlin_acc_spec marlin_srs_spec marlin_complete
// C11, Marlin: prover (open) and verifier (accumulate / check) squeeze the same number of challenges whenever the degree-bound
// pattern of the polynomials equals that of the commitments, so from equal sponge states they end in equal states
//@lemma props=C11
pub proof fn lemma_marlin_lockstep(ps: Seq<&LabeledPolynomial>, cs: Seq<&LabeledCommitment<Commitment>>, s: SS, k: nat)
    requires k <= ps.len(), k <= cs.len(), forall|i: int| 0 <= i < k ==> (#[trigger] ps[i]).degree_bound.is_some() == cs[i].degree_bound.is_some()
    ensures open_nsq(ps, k) == nsq(cs, k), sp_iter(s, open_nsq(ps, k)) == sp_iter(s, nsq(cs, k))
    decreases k
{ if k > 0 { lemma_marlin_lockstep(ps, cs, s, (k - 1) as nat); } }
pub open spec fn open_nsq(ps: Seq<&LabeledPolynomial>, k: nat) -> nat decreases k {
    if k == 0 { 0 } else { open_nsq(ps, (k - 1) as nat) + 1 + (if ps[k - 1].degree_bound is Some { 1nat } else { 0nat }) }
}
pub open spec fn marlin_admissible_open(ck: &CommitterKey, p: &LabeledPolynomial) -> bool {
    p.degree_bound is Some ==> (ck.enforced_degree_bounds is Some && ck.enforced_degree_bounds->Some_0@.contains(p.degree_bound->Some_0)
            && p.polynomial.degree_spec() <= p.degree_bound->Some_0 && p.degree_bound->Some_0 <= ck.max_degree)
}

// ======================= C01: completeness of MarlinKZG10 (with degree bounds and hiding) as a lemma over the contracts above =======================
// For keys in trapdoor form (m_srs_ok), commitments as MarlinKZG10::commit returns them (marlin_commit_one = clause
// marlin_pc.commit.commitments_are_the_key_defined_linear_maps), the true evaluations as claimed values and a proof as MarlinKZG10::open
// returns it from the same sponge state (marlin_open_post = clause marlin_pc.open.proof_opens_the_challenge_weighted_sums), the relation
// that MarlinKZG10::check decides (clause marlin_pc.check.relation in units/marlin.rs: kzg_relation_raw on acc_c / acc_v) holds.
//@lemma props=C01
pub proof fn lemma_marlin_complete(ck: &CommitterKey, vk: &VerifierKey, beta: FS, lps: Seq<&LabeledPolynomial>, cs: Seq<&LabeledCommitment<Commitment>>, sts: Seq<&Randomness>, vs: Seq<Fr>,
                                   z: Fr, s: SS, k: nat, proof: &kzg10::Proof)
    requires
        m_srs_ok(ck, vk, beta), k <= lps.len(), k <= cs.len(), k <= sts.len(), k <= vs.len(),
        forall|j: int| 0 <= j < k ==> marlin_commit_one(ck, #[trigger] lps[j], cs[j], sts[j]) && m_lens_ok(ck, lps[j], sts[j]) && vs[j]@ == lps[j].polynomial.ev(z@)
            && (lps[j].degree_bound is Some ==> shift_of(vk, lps[j].degree_bound->Some_0) is Some),
        marlin_open_post(ck, lps, sts, z, s, k, proof),
        m_nondegenerate(lps, sts, s, k, z@),
    ensures
        kzg10::kzg_relation_raw(&vk.vk, acc_c(cs, vs, vk, s, k), z, acc_v(cs, vs, s, k), proof)
{
    let gw = choose|g: MOpenWit| #[trigger] marlin_open_rel(ck, lps, sts, z, s, k, proof.w@, proof.random_v, g);
    lemma_marlin_complete_w(ck, vk, beta, lps, cs, sts, vs, z, s, k, proof, gw);
}
// the excluded corner cannot occur without hiding: if no degree-bounded polynomial carries a shifted blinding polynomial, SR(z) = 0
//@lemma props=C01
pub proof fn lemma_marlin_nonhiding_is_nondegenerate(lps: Seq<&LabeledPolynomial>, sts: Seq<&Randomness>, s: SS, k: nat, z: FS)
    requires k <= lps.len(), k <= sts.len(),
        forall|j: int| 0 <= j < k ==> ((#[trigger] lps[j]).degree_bound is Some ==> sts[j].shifted_rand->Some_0.blinding_polynomial.len() == 0)
    ensures m_csr(lps, sts, s, k, z) == f_zero(), m_nondegenerate(lps, sts, s, k, z)
    decreases k
{
    if k > 0 {
        let j = (k - 1) as nat;
        lemma_marlin_nonhiding_is_nondegenerate(lps, sts, s, j, z);
        if lps[j as int].degree_bound is Some { lemma_mul_zero(m_xi1(lps, s, j)); ax_add_zero(f_zero()); }
    }
}
// the size hypotheses of the completeness lemma are what MarlinKZG10::commit's admission clauses give (for a well-formed key and polynomials in normal form)
//@lemma props=C01
pub proof fn lemma_marlin_sizes_from_commit(ck: &CommitterKey, lp: &LabeledPolynomial, cm: &LabeledCommitment<Commitment>, st: &Randomness)
    requires ck_wf(ck), lp.polynomial.wf(), marlin_admissible(ck, lp), marlin_hiding_ok(ck, lp, true), marlin_commit_one(ck, lp, cm, st)
    ensures m_lens_ok(ck, lp, st)
{
    let p = lp.polynomial;
    if p.len() > 0 { assert(p.coeffs@[p.len() - 1]@ != f_zero()); assert(!p.is_zero_spec()); }
    if lp.degree_bound is Some {
        let eb = ck.enforced_degree_bounds->Some_0@; let d = lp.degree_bound->Some_0;
        let i = choose|i: int| 0 <= i < eb.len() && eb[i] == d;
        assert(eb[i] <= eb[eb.len() - 1]);
    }
}
