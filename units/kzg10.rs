// KZG10 (kzg10/mod.rs): admission checks, commit, witness, open, check.
//@use core ops_gen poly labeled std
//@spec ring
//@typemap /Cow<'a, \[E::G1Affine\]>/ => Vec<G1Affine>
//@typemap /Randomness::<E::ScalarField, P>::/ => Randomness::
//@typemap /\bP::Point\b/ => Fr
//@typemap /\bP::/ => Poly::
//@typemap /: P\b/ => : Poly
//@typemap /PhantomData<F>/ => PhantomData<Fr>
//@typemap /\bPhantomData\b/ => core::marker::PhantomData
//@enum file=poly-commit/src/error.rs name=Error
//@struct file=poly-commit/src/kzg10/data_structures.rs name=VerifierKey
//@struct file=poly-commit/src/kzg10/data_structures.rs name=Powers
//@struct file=poly-commit/src/kzg10/data_structures.rs name=Commitment
//@struct file=poly-commit/src/kzg10/data_structures.rs name=Proof
//@struct file=poly-commit/src/kzg10/data_structures.rs name=Randomness

//@spec kzg10_check_spec kzg10_commit_spec
impl Powers {
    // mirror of kzg10::Powers::size (a one-line getter)
    pub fn size(&self) -> (r: usize) ensures r == self.powers_of_g@.len() { self.powers_of_g.len() }
}

//@fn id=kzg10.Randomness.calculate_hiding_polynomial_degree file=poly-commit/src/kzg10/data_structures.rs scope="impl<F: PrimeField, P: DenseUVPolynomial<F>> Randomness<F, P>" name=calculate_hiding_polynomial_degree props=C07,C17
pub fn calculate_hiding_polynomial_degree(hiding_bound: usize) -> (r: usize)
    requires
        hiding_bound < usize::MAX,
    ensures
        r == hiding_bound + 1,   // name=kzg10.hiding_degree props=C07
//@body
//@end

impl Randomness {
//@fn id=kzg10.Randomness.is_hiding file=poly-commit/src/kzg10/data_structures.rs scope="impl<F: PrimeField, P: DenseUVPolynomial<F>> Randomness<F, P>" name=is_hiding props=C07
    pub fn is_hiding(&self) -> (r: bool)
    ensures
        r == !self.blinding_polynomial.is_zero_spec(),
//@body
//@end
//@fn id=kzg10.Randomness.empty file=poly-commit/src/kzg10/data_structures.rs scope="impl<F: PrimeField, P: DenseUVPolynomial<F>> PCCommitmentState for Randomness<F, P>" name=empty props=C07
    pub fn empty() -> (r: Self)
    ensures
        r.blinding_polynomial.coeffs@.len() == 0,   // name=kzg10.Randomness.empty.no_blinding props=C07
//@body
//@end
//@fn id=kzg10.Randomness.rand file=poly-commit/src/kzg10/data_structures.rs scope="impl<F: PrimeField, P: DenseUVPolynomial<F>> PCCommitmentState for Randomness<F, P>" name=rand props=C07
    pub fn rand(hiding_bound: usize, _a: bool, _b: Option<usize>, rng: &mut Rng) -> (r: Self)
    requires
        hiding_bound < usize::MAX - 1,
    ensures
        r.blinding_polynomial.coeffs@.len() == hiding_bound + 2,   // name=kzg10.Randomness.rand.h_plus_2_coefficients props=C07
        r.blinding_polynomial.wf(),
        final(rng).id == old(rng).id,
        final(rng).present == old(rng).present,
        old(rng).present@,                                         // name=kzg10.Randomness.rand.absent_rng_aborts props=C07
        final(rng).pos@ == old(rng).pos@ + hiding_bound + 2,       // name=kzg10.Randomness.rand.draws_from_caller_stream props=C07
        forall|i: int| 0 <= i <= hiding_bound + 1 ==> (#[trigger] r.blinding_polynomial.coeffs@[i])@ == draw(old(rng).id@, old(rng).pos@ + i as nat),   // name=kzg10.Randomness.rand.fresh props=C07
//@body
//@rw 1 /Self::calculate_hiding_polynomial_degree/ => calculate_hiding_polynomial_degree
//@end
}

pub struct KZG10;
impl KZG10 {
//@fn id=kzg10.batch_check file=poly-commit/src/kzg10/mod.rs scope="impl<E, P> KZG10<E, P>" name=batch_check props=C05,C10,C02,C17
    pub fn batch_check(vk: &VerifierKey, commitments: &[Commitment], points: &[Fr], values: &[Fr], proofs: &[Proof], rng: &mut Rng) -> (res: Result<bool, Error>)
    requires
        vk_wf(vk),
    ensures
        (res is Ok) == (commitments@.len() == points@.len() && points@.len() == values@.len() && values@.len() == proofs@.len()),   // name=kzg10.batch_check.err_iff_lengths_differ props=C05,C17
        (res is Ok && res->Ok_0) ==> commitments@.len() == points@.len() && points@.len() == values@.len() && values@.len() == proofs@.len(),   // name=kzg10.batch_check.accept_implies_equal_lengths props=C05 finding=F5
        res is Ok ==> res->Ok_0 == kzg_batch_relation(vk, commitments@, points@, values@, proofs@, old(rng).id@, old(rng).pos@, bc_len(commitments@, points@, values@, proofs@)),   // name=kzg10.batch_check.relation props=C05,C10,C02
//@body
//@rw 1 /u128::rand\(rng\)\.into\(\)/ => Fr::from_u128_rand(rng)
//@rw 1 /E::multi_pairing\(/ => E::multi_pairing2(
//@rw 1 /commitments\.iter\(\)\.zip\(points\)\.zip\(values\)\.zip\(proofs\)/ => commitments.iter().zip(points.iter()).zip(values.iter()).zip(proofs.iter())
//@loop 1 kw=for name=it
          invariant
            vk_wf(vk),
            it.index@ <= bc_len(commitments@, points@, values@, proofs@),
            rng.id == old(rng).id, rng.pos@ == old(rng).pos@ + it.index@,
            randomizer@ == bc_r(old(rng).id@, old(rng).pos@, it.index@ as nat),
            total_c@ == bc_total_c(commitments@, points@, proofs@, old(rng).id@, old(rng).pos@, it.index@ as nat),
            total_w@ == bc_total_w(proofs@, old(rng).id@, old(rng).pos@, it.index@ as nat),
            g_multiplier@ == bc_g_mult(values@, old(rng).id@, old(rng).pos@, it.index@ as nat),
            gamma_g_multiplier@ == bc_gamma_mult(proofs@, old(rng).id@, old(rng).pos@, it.index@ as nat),
//@end

//@fn id=kzg10.check_degree_is_too_large file=poly-commit/src/kzg10/mod.rs scope="impl<E, P> KZG10<E, P>" name=check_degree_is_too_large props=C17,C04
    pub fn check_degree_is_too_large(degree: usize, num_powers: usize) -> (res: Result<(), Error>)
    requires
        degree < usize::MAX,
    ensures
        (res is Ok) == (degree + 1 <= num_powers),   // name=kzg10.check_degree_is_too_large.iff props=C17,C04
//@body
//@end

//@fn id=kzg10.check_hiding_bound file=poly-commit/src/kzg10/mod.rs scope="impl<E, P> KZG10<E, P>" name=check_hiding_bound props=C17,C07
    pub fn check_hiding_bound(hiding_poly_degree: usize, num_powers: usize) -> (res: Result<(), Error>)
    ensures
        (res is Ok) == (hiding_poly_degree != 0 && hiding_poly_degree < num_powers),   // name=kzg10.check_hiding_bound.iff props=C17,C07
//@body
//@end

//@fn id=kzg10.check_degrees_and_bounds file=poly-commit/src/kzg10/mod.rs scope="impl<E, P> KZG10<E, P>" name=check_degrees_and_bounds props=C04,C17
    pub fn check_degrees_and_bounds<'a>(supported_degree: usize, max_degree: usize, enforced_degree_bounds: Option<&[usize]>, p: &'a LabeledPolynomial) -> (res: Result<(), Error>)
    requires
        enforced_degree_bounds is Some ==> sorted_usize(enforced_degree_bounds->Some_0@),
    ensures
        (res is Ok) == (p.degree_bound is None || (enforced_degree_bounds is Some && enforced_degree_bounds->Some_0@.contains(p.degree_bound->Some_0)
                        && p.polynomial.degree_spec() <= p.degree_bound->Some_0 && p.degree_bound->Some_0 <= max_degree)),   // name=kzg10.check_degrees_and_bounds.iff props=C04,C17
//@body
//@rw 1 /enforced_degree_bounds\.binary_search\(&bound\)/ => binary_search_usize(enforced_degree_bounds, &bound)
//@rw 1 /p\.label\(\)\.to_string\(\)/ => string_to_string(p.label())
//@end

//@fn id=kzg10.commit file=poly-commit/src/kzg10/mod.rs scope="impl<E, P> KZG10<E, P>" name=commit props=C01,C07,C08,C17,C19
    pub fn commit(powers: &Powers, polynomial: &Poly, hiding_bound: Option<usize>, rng: Option<&mut Rng>) -> (res: Result<(Commitment, Randomness), Error>)
    requires
        polynomial.wf(),
        polynomial.coeffs@.len() < usize::MAX,
        hiding_bound is Some ==> hiding_bound->Some_0 < usize::MAX - 1,
    ensures
        // admission (C17): too many coefficients, missing RNG, bad hiding bound => Err
        polynomial.degree_spec() + 1 > powers.powers_of_g@.len() ==> res is Err,   // name=kzg10.commit.err_too_many_coefficients props=C17,C19
        (hiding_bound is Some && rng is None) ==> res is Err,                      // name=kzg10.commit.err_missing_rng props=C17,C07,C19
        (hiding_bound is Some && hiding_bound->Some_0 + 1 >= powers.powers_of_gamma_g@.len()) ==> res is Err,   // name=kzg10.commit.err_hiding_bound_too_large props=C17,C19
        // in-domain requests succeed
        (polynomial.degree_spec() + 1 <= powers.powers_of_g@.len() && (hiding_bound is None || (rng is Some && hiding_bound->Some_0 + 1 < powers.powers_of_gamma_g@.len()))) ==> res is Ok,   // name=kzg10.commit.in_domain_ok props=C17,C01,C19
        // value (C08, C01): the key-defined linear map of the coefficients plus the blinding term under the gamma powers
        res is Ok ==> res->Ok_0.0.0@ == commit_spec(powers, polynomial.cv(), res->Ok_0.1.blinding_polynomial.cv()),   // name=kzg10.commit.value props=C08,C01,C07,C19
        // non-hiding: no blinding polynomial, caller's RNG untouched
        (res is Ok && hiding_bound is None) ==> res->Ok_0.1.blinding_polynomial.coeffs@.len() == 0,   // name=kzg10.commit.non_hiding_has_no_blinding props=C07,C19
        (hiding_bound is None && rng is Some) ==> final(rng->Some_0).pos == old(rng->Some_0).pos,   // name=kzg10.commit.non_hiding_rng_untouched props=C07,C19
        // hiding: h + 2 fresh coefficients from the caller's stream
        (res is Ok && hiding_bound is Some) ==> res->Ok_0.1.blinding_polynomial.coeffs@.len() == hiding_bound->Some_0 + 2,   // name=kzg10.commit.h_plus_2_blinding_coefficients props=C07,C19
        (res is Ok && hiding_bound is Some) ==> (forall|i: int| 0 <= i <= hiding_bound->Some_0 + 1 ==> (#[trigger] res->Ok_0.1.blinding_polynomial.coeffs@[i])@ == draw(old(rng->Some_0).id@, old(rng->Some_0).pos@ + i as nat)),   // name=kzg10.commit.blinding_is_fresh_from_caller_rng props=C07,C19
        (res is Ok && hiding_bound is Some) ==> final(rng->Some_0).pos@ == old(rng->Some_0).pos@ + hiding_bound->Some_0 + 2,   // name=kzg10.commit.rng_advanced props=C07,C19
        res is Ok ==> res->Ok_0.1.blinding_polynomial.wf(),
        (res is Ok && hiding_bound is Some) ==> old(rng->Some_0).present@,   // name=kzg10.commit.hiding_with_absent_wrapped_rng_aborts props=C07,C19
        rng is Some ==> (final(rng->Some_0).id == old(rng->Some_0).id && final(rng->Some_0).present == old(rng->Some_0).present),
        (rng is Some && hiding_bound is Some) ==> final(rng->Some_0).pos@ >= old(rng->Some_0).pos@,
//@body
//@after /let mut commitment =/
        proof {
            let n = polynomial.coeffs@.len(); let k = num_leading_zeros as nat;
            lemma_dot_zero_prefix(g1views(powers.powers_of_g@), polynomial.cv(), n, k);
            lemma_dot_ext(g1views(powers.powers_of_g@.subrange(k as int, powers.powers_of_g@.len() as int)),
                          g1views(powers.powers_of_g@).subrange(k as int, powers.powers_of_g@.len() as int),
                          bviews(plain_coeffs@), polynomial.cv().subrange(k as int, n as int), (n - k) as nat);
            assert(commitment@ == msm(powers.powers_of_g@, polynomial.cv(), n));
        }
        let ghost c0 = commitment@;
//@before /commitment \+= &random_commitment;/
        proof {
            assert(bviews(random_ints@) =~= randomness.blinding_polynomial.cv());
        }
//@end

//@fn id=kzg10.compute_witness_polynomial file=poly-commit/src/kzg10/mod.rs scope="impl<E, P> KZG10<E, P>" name=compute_witness_polynomial props=C01
    pub fn compute_witness_polynomial(p: &Poly, point: Fr, randomness: &Randomness) -> (res: Result<(Poly, Option<Poly>), Error>)
    ensures
        res is Ok,
        // p(x) = w(x) * (x - z) + p(z) for every x
        forall|x: FS| p.ev(x) == f_add(f_mul(#[trigger] res->Ok_0.0.ev(x), f_sub(x, point@)), p.ev(point@)),   // name=kzg10.witness.quotient_identity props=C01
        res->Ok_0.0.wf(),
        res->Ok_0.0.coeffs@.len() + 1 <= p.coeffs@.len() || res->Ok_0.0.coeffs@.len() == 0,
        (res->Ok_0.1 is Some) == !randomness.blinding_polynomial.is_zero_spec(),   // name=kzg10.witness.hiding_witness_iff_hiding props=C01,C07
        res->Ok_0.1 is Some ==> (forall|x: FS| randomness.blinding_polynomial.ev(x) == f_add(f_mul(#[trigger] res->Ok_0.1->Some_0.ev(x), f_sub(x, point@)), randomness.blinding_polynomial.ev(point@))),   // name=kzg10.witness.blinding_quotient_identity props=C01,C07
        res->Ok_0.1 is Some ==> res->Ok_0.1->Some_0.coeffs@.len() + 1 <= randomness.blinding_polynomial.coeffs@.len() || res->Ok_0.1->Some_0.coeffs@.len() == 0,
//@body
//@before /let divisor =/
        proof { ax_one_ne_zero(); }
//@after /let divisor =/
        proof {
            lemma_neg_neg(point@);
            assert(divisor.coeffs@.len() == 2);
            assert(is_linear_monic(&divisor) && lin_root(&divisor) == point@);
            assert(!divisor.is_zero_spec()) by { assert(divisor.coeffs@[1]@ == f_one()); }
        }
//@end

//@fn id=kzg10.open_with_witness_polynomial file=poly-commit/src/kzg10/mod.rs scope="impl<E, P> KZG10<E, P>" name=open_with_witness_polynomial props=C01,C07,C17,C19
    pub fn open_with_witness_polynomial<'a>(powers: &Powers, point: Fr, randomness: &Randomness, witness_polynomial: &Poly, hiding_witness_polynomial: Option<&Poly>) -> (res: Result<Proof, Error>)
    requires
        witness_polynomial.wf(),
        witness_polynomial.coeffs@.len() < usize::MAX,
    ensures
        (res is Ok) == (witness_polynomial.degree_spec() + 1 <= powers.powers_of_g@.len()),   // name=kzg10.open_w.admission props=C17,C19
        res is Ok ==> res->Ok_0.w@ == f_add(msm(powers.powers_of_g@, witness_polynomial.cv(), witness_polynomial.len()),
            match hiding_witness_polynomial { Some(hw) => msm(powers.powers_of_gamma_g@, hw.cv(), min(powers.powers_of_gamma_g@.len(), hw.len())), None => f_zero() }),   // name=kzg10.open_w.witness_commitment props=C01,C19
        res is Ok ==> (res->Ok_0.random_v is Some) == (hiding_witness_polynomial is Some),   // name=kzg10.open_w.random_v_present_iff_hiding props=C07,C19
        (res is Ok && hiding_witness_polynomial is Some) ==> res->Ok_0.random_v->Some_0@ == randomness.blinding_polynomial.ev(point@),   // name=kzg10.open_w.random_v_is_blinding_evaluation props=C07,C01,C19
//@body
//@after /let mut w =/
        proof {
            broadcast use ring_axioms;
            let n = witness_polynomial.coeffs@.len(); let k = num_leading_zeros as nat;
            lemma_dot_zero_prefix(g1views(powers.powers_of_g@), witness_polynomial.cv(), n, k);
            lemma_dot_ext(g1views(powers.powers_of_g@.subrange(k as int, powers.powers_of_g@.len() as int)),
                          g1views(powers.powers_of_g@).subrange(k as int, powers.powers_of_g@.len() as int),
                          bviews(witness_coeffs@), witness_polynomial.cv().subrange(k as int, n as int), (n - k) as nat);
            assert(w@ == msm(powers.powers_of_g@, witness_polynomial.cv(), n));
        }
//@after /let random_witness_coeffs = convert_to_bigints/
            proof { assert(bviews(random_witness_coeffs@) =~= hiding_witness_polynomial.cv()); }
//@end

//@fn id=kzg10.open file=poly-commit/src/kzg10/mod.rs scope="impl<E, P> KZG10<E, P>" name=open props=C01,C07,C17,C19
    pub fn open<'a>(powers: &Powers, p: &Poly, point: Fr, rand: &Randomness) -> (res: Result<Proof, Error>)
    requires
        p.wf(),
        p.coeffs@.len() < usize::MAX,
    ensures
        (res is Ok) == (p.degree_spec() + 1 <= powers.powers_of_g@.len()),   // name=kzg10.open.admission props=C17,C01,C19
        res is Ok ==> open_spec(powers, p, point, rand, res->Ok_0),           // name=kzg10.open.proof_is_commitment_to_quotient props=C01,C07,C19
//@body
//@end

//@fn id=kzg10.check file=poly-commit/src/kzg10/mod.rs scope="impl<E, P> KZG10<E, P>" name=check props=C10,C02,C01,C17
    pub fn check(vk: &VerifierKey, comm: &Commitment, point: Fr, value: Fr, proof: &Proof) -> (res: Result<bool, Error>)
    ensures
        res is Ok,
        res->Ok_0 == kzg_relation(vk, comm, point, value, proof),   // name=kzg10.check.relation props=C10,C02,C01
//@body
//@end
}

//@fn id=kzg10.skip_leading_zeros_and_convert_to_bigints file=poly-commit/src/kzg10/mod.rs scope=top name=skip_leading_zeros_and_convert_to_bigints props=C08,C01
fn skip_leading_zeros_and_convert_to_bigints(p: &Poly) -> (res: (usize, Vec<BigInt>))
    ensures
        res.0 <= p.coeffs@.len(),
        res.1@.len() == p.coeffs@.len() - res.0,
        forall|i: int| 0 <= i < res.0 ==> (#[trigger] p.coeffs@[i])@ == f_zero(),                    // name=kzg10.skip.only_zeros_skipped props=C08
        forall|i: int| 0 <= i < res.1@.len() ==> (#[trigger] res.1@[i])@ == p.coeffs@[res.0 + i]@,   // name=kzg10.skip.rest_kept props=C08
        p.wf() && p.coeffs@.len() > 0 ==> res.0 < p.coeffs@.len(),
//@body
//@loop 1 kw=while
      invariant num_leading_zeros <= p.coeffs@.len(), forall|i: int| 0 <= i < num_leading_zeros ==> (#[trigger] p.coeffs@[i])@ == f_zero()
      decreases p.coeffs@.len() - num_leading_zeros
//@end

//@fn id=kzg10.convert_to_bigints file=poly-commit/src/kzg10/mod.rs scope=top name=convert_to_bigints props=C08,C01
fn convert_to_bigints(p: &[Fr]) -> (res: Vec<BigInt>)
    ensures
        res@.len() == p@.len(),
        forall|i: int| 0 <= i < p@.len() ==> (#[trigger] res@[i])@ == p@[i]@,   // name=kzg10.convert.pointwise props=C08
//@body
//@closure |s| => |s: &Fr| -> (b: BigInt) ensures b@ == s@
//@end

// ======================= C01: completeness of KZG10 as a lemma over the contracts above =======================
proof fn lemma_pow0(x: FS, g: FS) ensures f_mul(g, f_pow(x, 0)) == g { broadcast use ring_axioms; }

// (g*(W*(b-z)) + c*(R*(b-z))) * h == (g*W + c*R) * (h*b - h*z)
proof fn lemma_kzg_algebra(g: FS, c: FS, h: FS, b: FS, z: FS, w: FS, r: FS)
    ensures f_mul(f_add(f_mul(g, f_mul(w, f_sub(b, z))), f_mul(c, f_mul(r, f_sub(b, z)))), h)
         == f_mul(f_add(f_mul(g, w), f_mul(c, r)), f_sub(f_mul(h, b), f_mul(h, z)))
{
    broadcast use ring_axioms;
    let d = f_sub(b, z);
    lemma_distrib_sub(h, b, z);
    assert(f_sub(f_mul(h, b), f_mul(h, z)) == f_mul(h, d));
    assert(f_mul(g, f_mul(w, d)) == f_mul(f_mul(g, w), d));
    assert(f_mul(c, f_mul(r, d)) == f_mul(f_mul(c, r), d));
    let s = f_add(f_mul(g, w), f_mul(c, r));
    assert(f_add(f_mul(f_mul(g, w), d), f_mul(f_mul(c, r), d)) == f_mul(s, d)) by {
        assert(f_mul(d, s) == f_add(f_mul(d, f_mul(g, w)), f_mul(d, f_mul(c, r))));
    }
    assert(f_mul(f_mul(s, d), h) == f_mul(s, f_mul(d, h)));
    assert(f_mul(d, h) == f_mul(h, d));
}
// (a + y) + (c + x) - ... helper: (g*(q + pz) + c*(t + rz)) - g*pz - c*rz == g*q + c*t
proof fn lemma_kzg_cancel(g: FS, c: FS, q: FS, pz: FS, t: FS, rz: FS)
    ensures f_sub(f_sub(f_add(f_mul(g, f_add(q, pz)), f_mul(c, f_add(t, rz))), f_mul(g, pz)), f_mul(c, rz)) == f_add(f_mul(g, q), f_mul(c, t))
{
    broadcast use ring_axioms;
    let gq = f_mul(g, q); let gp = f_mul(g, pz); let ct = f_mul(c, t); let cr = f_mul(c, rz);
    assert(f_mul(g, f_add(q, pz)) == f_add(gq, gp));
    assert(f_mul(c, f_add(t, rz)) == f_add(ct, cr));
    lemma_add_swap(gq, gp, ct, cr);
    // (gq + ct) + (gp + cr) - gp - cr
    let a = f_add(gq, ct);
    assert(f_add(f_add(a, f_add(gp, cr)), f_neg(gp)) == f_add(a, cr)) by {
        assert(f_add(f_add(a, f_add(gp, cr)), f_neg(gp)) == f_add(a, f_add(f_add(gp, cr), f_neg(gp))));
        assert(f_add(f_add(gp, cr), f_neg(gp)) == cr) by {
            assert(f_add(gp, cr) == f_add(cr, gp));
            assert(f_add(f_add(cr, gp), f_neg(gp)) == f_add(cr, f_add(gp, f_neg(gp))));
        }
    }
    assert(f_add(f_add(a, cr), f_neg(cr)) == f_add(a, f_add(cr, f_neg(cr))));
}

//@lemma props=C01
pub proof fn lemma_kzg10_complete(powers: &Powers, vk: &VerifierKey, beta: FS, p: &Poly, point: Fr, rand: &Randomness, comm: Commitment, proof: Proof)
    requires
        srs_ok(powers, vk, beta),
        p.len() <= powers.powers_of_g@.len(),
        rand.blinding_polynomial.len() <= powers.powers_of_gamma_g@.len(),
        comm.0@ == commit_spec(powers, p.cv(), rand.blinding_polynomial.cv()),   // postcondition kzg10.commit.value
        open_spec(powers, p, point, rand, proof),                                // postcondition kzg10.open.proof_is_commitment_to_quotient
    ensures
        kzg_relation(vk, &comm, point, Fr::mk(p.ev(point@)), &proof),
{
    let (w, hw): (Poly, Option<Poly>) = choose|w: Poly, hw: Option<Poly>| #![trigger w.cv(), hw.is_some()]
        (forall|x: FS| p.ev(x) == f_add(f_mul(#[trigger] w.ev(x), f_sub(x, point@)), p.ev(point@)))
        && (hw is Some) == !rand.blinding_polynomial.is_zero_spec()
        && (hw is Some ==> (forall|x: FS| rand.blinding_polynomial.ev(x) == f_add(f_mul(#[trigger] hw->Some_0.ev(x), f_sub(x, point@)), rand.blinding_polynomial.ev(point@))))
        && proof.w@ == f_add(msm(powers.powers_of_g@, w.cv(), w.len()),
              match hw { Some(h) => msm(powers.powers_of_gamma_g@, h.cv(), min(powers.powers_of_gamma_g@.len(), h.len())), None => f_zero() })
        && (proof.random_v is Some) == (hw is Some)
        && (hw is Some ==> proof.random_v->Some_0@ == rand.blinding_polynomial.ev(point@))
        && w.len() <= powers.powers_of_g@.len()
        && (hw is Some ==> hw->Some_0.len() + 1 <= rand.blinding_polynomial.len() || hw->Some_0.len() == 0);
    let g = vk.g@; let c = vk.gamma_g@; let h = vk.h@; let z = point@;
    let r = rand.blinding_polynomial;
    let pb = p.ev(beta); let pz = p.ev(z); let wb = w.ev(beta);
    let rb = r.ev(beta); let rz = r.ev(z);
    let d = f_sub(beta, z);
    lemma_pow0(beta, g); lemma_pow0(beta, c);
    lemma_dot_geometric(g1views(powers.powers_of_g@), g, beta, 0, p.cv(), p.len());
    lemma_dot_geometric(g1views(powers.powers_of_gamma_g@), c, beta, 0, r.cv(), r.len());
    lemma_dot_geometric(g1views(powers.powers_of_g@), g, beta, 0, w.cv(), w.len());
    assert(comm.0@ == f_add(f_mul(g, pb), f_mul(c, rb)));
    assert(pb == f_add(f_mul(wb, d), pz));
    match hw {
        Some(hwp) => {
            let hb = hwp.ev(beta);
            lemma_dot_geometric(g1views(powers.powers_of_gamma_g@), c, beta, 0, hwp.cv(), hwp.len());
            assert(rb == f_add(f_mul(hb, d), rz));
            assert(proof.w@ == f_add(f_mul(g, wb), f_mul(c, hb)));
            lemma_kzg_cancel(g, c, f_mul(wb, d), pz, f_mul(hb, d), rz);
            lemma_kzg_algebra(g, c, h, beta, z, wb, hb);
        }
        None => {
            // non-hiding: blinding polynomial is zero
            lemma_peval_zero(r.cv(), beta, r.len());
            lemma_kzg_nonhiding(g, c, h, beta, z, wb, pz);
        }
    }
}
// non-hiding instance: ((g*(W*(b-z) + pz) + c*0) - g*pz) * h == (g*W + 0) * (h*b - h*z)
proof fn lemma_kzg_nonhiding(g: FS, c: FS, h: FS, b: FS, z: FS, w: FS, pz: FS)
    ensures f_mul(f_sub(f_add(f_mul(g, f_add(f_mul(w, f_sub(b, z)), pz)), f_mul(c, f_zero())), f_mul(g, pz)), h)
         == f_mul(f_add(f_mul(g, w), f_zero()), f_sub(f_mul(h, b), f_mul(h, z)))
{
    broadcast use ring_axioms;
    lemma_mul_zero(c);
    let d = f_sub(b, z);
    lemma_kzg_cancel(g, c, f_mul(w, d), pz, f_zero(), f_zero());
    lemma_kzg_algebra(g, c, h, b, z, w, f_zero());
    lemma_mul_zero(d);
}

// ======================= C02: every part of the statement is pinned by an accepting check =======================
// (stronger than the property: no honesty assumption on the proof; uses only the field axioms)
//@lemma props=C02
pub proof fn lemma_kzg10_value_unique(vk: &VerifierKey, comm: &Commitment, point: Fr, v1: Fr, v2: Fr, proof: &Proof)
    requires vk.g@ != f_zero(), vk.h@ != f_zero(),
             kzg_relation(vk, comm, point, v1, proof), kzg_relation(vk, comm, point, v2, proof),
    ensures v1@ == v2@
{
    lemma_mul_cancel(kzg_lhs(vk, comm, v1, proof), kzg_lhs(vk, comm, v2, proof), vk.h@);
    let a1 = f_sub(comm.0@, f_mul(vk.g@, v1@)); let a2 = f_sub(comm.0@, f_mul(vk.g@, v2@));
    match proof.random_v {
        Some(rv) => { lemma_sub_cancel_right(a1, a2, f_mul(vk.gamma_g@, rv@)); }
        None => {}
    }
    lemma_sub_cancel_left(comm.0@, f_mul(vk.g@, v1@), f_mul(vk.g@, v2@));
    broadcast use ax_mul_comm;
    lemma_mul_cancel(v1@, v2@, vk.g@);
}
//@lemma props=C02
pub proof fn lemma_kzg10_commitment_unique(vk: &VerifierKey, c1: &Commitment, c2: &Commitment, point: Fr, v: Fr, proof: &Proof)
    requires vk.h@ != f_zero(),
             kzg_relation(vk, c1, point, v, proof), kzg_relation(vk, c2, point, v, proof),
    ensures c1.0@ == c2.0@
{
    lemma_mul_cancel(kzg_lhs(vk, c1, v, proof), kzg_lhs(vk, c2, v, proof), vk.h@);
    let a1 = f_sub(c1.0@, f_mul(vk.g@, v@)); let a2 = f_sub(c2.0@, f_mul(vk.g@, v@));
    match proof.random_v {
        Some(rv) => { lemma_sub_cancel_right(a1, a2, f_mul(vk.gamma_g@, rv@)); }
        None => {}
    }
    lemma_sub_cancel_right(c1.0@, c2.0@, f_mul(vk.g@, v@));
}
//@lemma props=C02
pub proof fn lemma_kzg10_point_unique(vk: &VerifierKey, comm: &Commitment, z1: Fr, z2: Fr, v: Fr, proof: &Proof)
    requires vk.h@ != f_zero(), proof.w@ != f_zero(),
             kzg_relation(vk, comm, z1, v, proof), kzg_relation(vk, comm, z2, v, proof),
    ensures z1@ == z2@
{
    let r1 = f_sub(vk.beta_h@, f_mul(vk.h@, z1@)); let r2 = f_sub(vk.beta_h@, f_mul(vk.h@, z2@));
    assert(f_mul(proof.w@, r1) == f_mul(proof.w@, r2));
    broadcast use ax_mul_comm;
    lemma_mul_cancel(r1, r2, proof.w@);
    lemma_sub_cancel_left(vk.beta_h@, f_mul(vk.h@, z1@), f_mul(vk.h@, z2@));
    lemma_mul_cancel(z1@, z2@, vk.h@);
}
