// KZG10 (kzg10/mod.rs): admission checks, commit, witness, open, check.
//@use core ops_gen poly labeled
//@spec ring
//@typemap /Cow<'a, \[E::G1Affine\]>/ => Vec<G1Affine>
//@typemap /Randomness::<E::ScalarField, P>::/ => Randomness::
//@typemap /\bP::Point\b/ => Fr
//@typemap /\bP::/ => Poly::
//@typemap /: P\b/ => : Poly
//@typemap /PhantomData<F>/ => PhantomData<Fr>
//@typemap /\bPhantomData\b/ => core::marker::PhantomData
//@enum file=poly-commit/src/error.rs name=Error
//@struct file=poly-commit/src/kzg10/data_structures.rs name=VerifierKey
//@struct file=poly-commit/src/kzg10/data_structures.rs name=Powers
//@struct file=poly-commit/src/kzg10/data_structures.rs name=Commitment
//@struct file=poly-commit/src/kzg10/data_structures.rs name=Proof
//@struct file=poly-commit/src/kzg10/data_structures.rs name=Randomness

// ======================= specification (written from the KZG10 / Marlin papers) =======================
// e(C - v*G - rv*gammaG, H) = e(W, beta*H - z*H)
pub open spec fn kzg_lhs(vk: &VerifierKey, comm: &Commitment, value: Fr, proof: &Proof) -> FS {
    let inner = f_sub(comm.0@, f_mul(vk.g@, value@));
    match proof.random_v {
        Some(rv) => f_sub(inner, f_mul(vk.gamma_g@, rv@)),
        None => inner,
    }
}
pub open spec fn kzg_relation(vk: &VerifierKey, comm: &Commitment, point: Fr, value: Fr, proof: &Proof) -> bool {
    pair(kzg_lhs(vk, comm, value, proof), vk.h@) == pair(proof.w@, f_sub(vk.beta_h@, f_mul(vk.h@, point@)))
}
// commitment = sum_i p_i * powers_of_g[i]  +  sum_i r_i * powers_of_gamma_g[i]
pub open spec fn commit_spec(powers: &Powers, p: Seq<FS>, blind: Seq<FS>) -> FS {
    f_add(msm(powers.powers_of_g@, p, p.len()),
          msm(powers.powers_of_gamma_g@, blind, min(powers.powers_of_gamma_g@.len(), blind.len())))
}
impl Powers {
    // mirror of kzg10::Powers::size (a one-line getter)
    pub fn size(&self) -> (r: usize) ensures r == self.powers_of_g@.len() { self.powers_of_g.len() }
}

//@fn id=kzg10.Randomness.calculate_hiding_polynomial_degree file=poly-commit/src/kzg10/data_structures.rs scope="impl<F: PrimeField, P: DenseUVPolynomial<F>> Randomness<F, P>" name=calculate_hiding_polynomial_degree props=C07,C17
pub fn calculate_hiding_polynomial_degree(hiding_bound: usize) -> (r: usize)
    requires
        hiding_bound < usize::MAX,
    ensures
        r == hiding_bound + 1,   // name=kzg10.hiding_degree props=C07
//@body
//@end

impl Randomness {
//@fn id=kzg10.Randomness.is_hiding file=poly-commit/src/kzg10/data_structures.rs scope="impl<F: PrimeField, P: DenseUVPolynomial<F>> Randomness<F, P>" name=is_hiding props=C07
    pub fn is_hiding(&self) -> (r: bool)
    ensures
        r == !self.blinding_polynomial.is_zero_spec(),
//@body
//@end
//@fn id=kzg10.Randomness.empty file=poly-commit/src/kzg10/data_structures.rs scope="impl<F: PrimeField, P: DenseUVPolynomial<F>> PCCommitmentState for Randomness<F, P>" name=empty props=C07
    pub fn empty() -> (r: Self)
    ensures
        r.blinding_polynomial.coeffs@.len() == 0,   // name=kzg10.Randomness.empty.no_blinding props=C07
//@body
//@end
//@fn id=kzg10.Randomness.rand file=poly-commit/src/kzg10/data_structures.rs scope="impl<F: PrimeField, P: DenseUVPolynomial<F>> PCCommitmentState for Randomness<F, P>" name=rand props=C07
    pub fn rand(hiding_bound: usize, _a: bool, _b: Option<usize>, rng: &mut Rng) -> (r: Self)
    requires
        hiding_bound < usize::MAX - 1,
    ensures
        r.blinding_polynomial.coeffs@.len() == hiding_bound + 2,   // name=kzg10.Randomness.rand.h_plus_2_coefficients props=C07
        r.blinding_polynomial.wf(),
        final(rng).id == old(rng).id,
        final(rng).pos@ == old(rng).pos@ + hiding_bound + 2,       // name=kzg10.Randomness.rand.draws_from_caller_stream props=C07
        forall|i: int| 0 <= i <= hiding_bound + 1 ==> (#[trigger] r.blinding_polynomial.coeffs@[i])@ == draw(old(rng).id@, old(rng).pos@ + i as nat),   // name=kzg10.Randomness.rand.fresh props=C07
//@body
//@rw 1 /Self::calculate_hiding_polynomial_degree/ => calculate_hiding_polynomial_degree
//@end
}

pub struct KZG10;
impl KZG10 {
//@fn id=kzg10.check_degree_is_too_large file=poly-commit/src/kzg10/mod.rs scope="impl<E, P> KZG10<E, P>" name=check_degree_is_too_large props=C17,C04
    pub fn check_degree_is_too_large(degree: usize, num_powers: usize) -> (res: Result<(), Error>)
    requires
        degree < usize::MAX,
    ensures
        (res is Ok) == (degree + 1 <= num_powers),   // name=kzg10.check_degree_is_too_large.iff props=C17,C04
//@body
//@end

//@fn id=kzg10.check_hiding_bound file=poly-commit/src/kzg10/mod.rs scope="impl<E, P> KZG10<E, P>" name=check_hiding_bound props=C17,C07
    pub fn check_hiding_bound(hiding_poly_degree: usize, num_powers: usize) -> (res: Result<(), Error>)
    ensures
        (res is Ok) == (hiding_poly_degree != 0 && hiding_poly_degree < num_powers),   // name=kzg10.check_hiding_bound.iff props=C17,C07
//@body
//@end

//@fn id=kzg10.commit file=poly-commit/src/kzg10/mod.rs scope="impl<E, P> KZG10<E, P>" name=commit props=C01,C07,C08,C17
    pub fn commit(powers: &Powers, polynomial: &Poly, hiding_bound: Option<usize>, rng: Option<&mut Rng>) -> (res: Result<(Commitment, Randomness), Error>)
    requires
        polynomial.wf(),
        polynomial.coeffs@.len() < usize::MAX,
        hiding_bound is Some ==> hiding_bound->Some_0 < usize::MAX - 1,
    ensures
        // admission (C17): too many coefficients, missing RNG, bad hiding bound => Err
        polynomial.degree_spec() + 1 > powers.powers_of_g@.len() ==> res is Err,   // name=kzg10.commit.err_too_many_coefficients props=C17
        (hiding_bound is Some && rng is None) ==> res is Err,                      // name=kzg10.commit.err_missing_rng props=C17,C07
        (hiding_bound is Some && hiding_bound->Some_0 + 1 >= powers.powers_of_gamma_g@.len()) ==> res is Err,   // name=kzg10.commit.err_hiding_bound_too_large props=C17
        // in-domain requests succeed
        (polynomial.degree_spec() + 1 <= powers.powers_of_g@.len() && (hiding_bound is None || (rng is Some && hiding_bound->Some_0 + 1 < powers.powers_of_gamma_g@.len()))) ==> res is Ok,   // name=kzg10.commit.in_domain_ok props=C17,C01
        // value (C08, C01): the key-defined linear map of the coefficients plus the blinding term under the gamma powers
        res is Ok ==> res->Ok_0.0.0@ == commit_spec(powers, polynomial.cv(), res->Ok_0.1.blinding_polynomial.cv()),   // name=kzg10.commit.value props=C08,C01,C07
        // non-hiding: no blinding polynomial, caller's RNG untouched
        (res is Ok && hiding_bound is None) ==> res->Ok_0.1.blinding_polynomial.coeffs@.len() == 0,   // name=kzg10.commit.non_hiding_has_no_blinding props=C07
        (hiding_bound is None && rng is Some) ==> final(rng->Some_0).pos == old(rng->Some_0).pos,   // name=kzg10.commit.non_hiding_rng_untouched props=C07
        // hiding: h + 2 fresh coefficients from the caller's stream
        (res is Ok && hiding_bound is Some) ==> res->Ok_0.1.blinding_polynomial.coeffs@.len() == hiding_bound->Some_0 + 2,   // name=kzg10.commit.h_plus_2_blinding_coefficients props=C07
        (res is Ok && hiding_bound is Some) ==> (forall|i: int| 0 <= i <= hiding_bound->Some_0 + 1 ==> (#[trigger] res->Ok_0.1.blinding_polynomial.coeffs@[i])@ == draw(old(rng->Some_0).id@, old(rng->Some_0).pos@ + i as nat)),   // name=kzg10.commit.blinding_is_fresh_from_caller_rng props=C07
        (res is Ok && hiding_bound is Some) ==> final(rng->Some_0).pos@ == old(rng->Some_0).pos@ + hiding_bound->Some_0 + 2,   // name=kzg10.commit.rng_advanced props=C07
        res is Ok ==> res->Ok_0.1.blinding_polynomial.wf(),
//@body
//@after /let mut commitment =/
        proof {
            let n = polynomial.coeffs@.len(); let k = num_leading_zeros as nat;
            lemma_dot_zero_prefix(g1views(powers.powers_of_g@), polynomial.cv(), n, k);
            lemma_dot_ext(g1views(powers.powers_of_g@.subrange(k as int, powers.powers_of_g@.len() as int)),
                          g1views(powers.powers_of_g@).subrange(k as int, powers.powers_of_g@.len() as int),
                          bviews(plain_coeffs@), polynomial.cv().subrange(k as int, n as int), (n - k) as nat);
            assert(commitment@ == msm(powers.powers_of_g@, polynomial.cv(), n));
        }
        let ghost c0 = commitment@;
//@before /commitment \+= &random_commitment;/
        proof {
            assert(bviews(random_ints@) =~= randomness.blinding_polynomial.cv());
        }
//@end

//@fn id=kzg10.compute_witness_polynomial file=poly-commit/src/kzg10/mod.rs scope="impl<E, P> KZG10<E, P>" name=compute_witness_polynomial props=C01
    pub fn compute_witness_polynomial(p: &Poly, point: Fr, randomness: &Randomness) -> (res: Result<(Poly, Option<Poly>), Error>)
    ensures
        res is Ok,
        // p(x) = w(x) * (x - z) + p(z) for every x
        forall|x: FS| p.ev(x) == f_add(f_mul(#[trigger] res->Ok_0.0.ev(x), f_sub(x, point@)), p.ev(point@)),   // name=kzg10.witness.quotient_identity props=C01
        res->Ok_0.0.wf(),
        res->Ok_0.0.coeffs@.len() + 1 <= p.coeffs@.len() || res->Ok_0.0.coeffs@.len() == 0,
        (res->Ok_0.1 is Some) == !randomness.blinding_polynomial.is_zero_spec(),   // name=kzg10.witness.hiding_witness_iff_hiding props=C01,C07
        res->Ok_0.1 is Some ==> (forall|x: FS| randomness.blinding_polynomial.ev(x) == f_add(f_mul(#[trigger] res->Ok_0.1->Some_0.ev(x), f_sub(x, point@)), randomness.blinding_polynomial.ev(point@))),   // name=kzg10.witness.blinding_quotient_identity props=C01,C07
        res->Ok_0.1 is Some ==> res->Ok_0.1->Some_0.coeffs@.len() + 1 <= randomness.blinding_polynomial.coeffs@.len() || res->Ok_0.1->Some_0.coeffs@.len() == 0,
//@body
//@before /let divisor =/
        proof { ax_one_ne_zero(); }
//@after /let divisor =/
        proof {
            lemma_neg_neg(point@);
            assert(divisor.coeffs@.len() == 2);
            assert(is_linear_monic(&divisor) && lin_root(&divisor) == point@);
            assert(!divisor.is_zero_spec()) by { assert(divisor.coeffs@[1]@ == f_one()); }
        }
//@end

//@fn id=kzg10.open_with_witness_polynomial file=poly-commit/src/kzg10/mod.rs scope="impl<E, P> KZG10<E, P>" name=open_with_witness_polynomial props=C01,C07,C17
    pub fn open_with_witness_polynomial<'a>(powers: &Powers, point: Fr, randomness: &Randomness, witness_polynomial: &Poly, hiding_witness_polynomial: Option<&Poly>) -> (res: Result<Proof, Error>)
    requires
        witness_polynomial.wf(),
        witness_polynomial.coeffs@.len() < usize::MAX,
    ensures
        (res is Ok) == (witness_polynomial.degree_spec() + 1 <= powers.powers_of_g@.len()),   // name=kzg10.open_w.admission props=C17
        res is Ok ==> res->Ok_0.w@ == f_add(msm(powers.powers_of_g@, witness_polynomial.cv(), witness_polynomial.len()),
            match hiding_witness_polynomial { Some(hw) => msm(powers.powers_of_gamma_g@, hw.cv(), min(powers.powers_of_gamma_g@.len(), hw.len())), None => f_zero() }),   // name=kzg10.open_w.witness_commitment props=C01
        res is Ok ==> (res->Ok_0.random_v is Some) == (hiding_witness_polynomial is Some),   // name=kzg10.open_w.random_v_present_iff_hiding props=C07
        (res is Ok && hiding_witness_polynomial is Some) ==> res->Ok_0.random_v->Some_0@ == randomness.blinding_polynomial.ev(point@),   // name=kzg10.open_w.random_v_is_blinding_evaluation props=C07,C01
//@body
//@after /let mut w =/
        proof {
            broadcast use ring_axioms;
            let n = witness_polynomial.coeffs@.len(); let k = num_leading_zeros as nat;
            lemma_dot_zero_prefix(g1views(powers.powers_of_g@), witness_polynomial.cv(), n, k);
            lemma_dot_ext(g1views(powers.powers_of_g@.subrange(k as int, powers.powers_of_g@.len() as int)),
                          g1views(powers.powers_of_g@).subrange(k as int, powers.powers_of_g@.len() as int),
                          bviews(witness_coeffs@), witness_polynomial.cv().subrange(k as int, n as int), (n - k) as nat);
            assert(w@ == msm(powers.powers_of_g@, witness_polynomial.cv(), n));
        }
//@after /let random_witness_coeffs = convert_to_bigints/
            proof { assert(bviews(random_witness_coeffs@) =~= hiding_witness_polynomial.cv()); }
//@end

//@fn id=kzg10.open file=poly-commit/src/kzg10/mod.rs scope="impl<E, P> KZG10<E, P>" name=open props=C01,C07,C17
    pub fn open<'a>(powers: &Powers, p: &Poly, point: Fr, rand: &Randomness) -> (res: Result<Proof, Error>)
    requires
        p.wf(),
        p.coeffs@.len() < usize::MAX,
    ensures
        (res is Ok) == (p.degree_spec() + 1 <= powers.powers_of_g@.len()),   // name=kzg10.open.admission props=C17,C01
        res is Ok ==> open_spec(powers, p, point, rand, res->Ok_0),           // name=kzg10.open.proof_is_commitment_to_quotient props=C01,C07
//@body
//@end

//@fn id=kzg10.check file=poly-commit/src/kzg10/mod.rs scope="impl<E, P> KZG10<E, P>" name=check props=C10,C02,C01,C17
    pub fn check(vk: &VerifierKey, comm: &Commitment, point: Fr, value: Fr, proof: &Proof) -> (res: Result<bool, Error>)
    ensures
        res is Ok,
        res->Ok_0 == kzg_relation(vk, comm, point, value, proof),   // name=kzg10.check.relation props=C10,C02,C01
//@body
//@end
}

// what `open` returns: a commitment to quotient polynomials w, wr with
//   p(x) = w(x)(x - z) + p(z),   r(x) = wr(x)(x - z) + r(z)   (wr only if the commitment is hiding)
pub open spec fn open_spec(powers: &Powers, p: &Poly, point: Fr, rand: &Randomness, proof: Proof) -> bool {
    exists|w: Poly, hw: Option<Poly>| #![trigger w.cv(), hw.is_some()]
        (forall|x: FS| p.ev(x) == f_add(f_mul(#[trigger] w.ev(x), f_sub(x, point@)), p.ev(point@)))
        && (hw is Some) == !rand.blinding_polynomial.is_zero_spec()
        && (hw is Some ==> (forall|x: FS| rand.blinding_polynomial.ev(x) == f_add(f_mul(#[trigger] hw->Some_0.ev(x), f_sub(x, point@)), rand.blinding_polynomial.ev(point@))))
        && proof.w@ == f_add(msm(powers.powers_of_g@, w.cv(), w.len()),
              match hw { Some(h) => msm(powers.powers_of_gamma_g@, h.cv(), min(powers.powers_of_gamma_g@.len(), h.len())), None => f_zero() })
        && (proof.random_v is Some) == (hw is Some)
        && (hw is Some ==> proof.random_v->Some_0@ == rand.blinding_polynomial.ev(point@))
        && w.len() <= powers.powers_of_g@.len()
        && (hw is Some ==> hw->Some_0.len() + 1 <= rand.blinding_polynomial.len() || hw->Some_0.len() == 0)
}

//@fn id=kzg10.skip_leading_zeros_and_convert_to_bigints file=poly-commit/src/kzg10/mod.rs scope=top name=skip_leading_zeros_and_convert_to_bigints props=C08,C01
fn skip_leading_zeros_and_convert_to_bigints(p: &Poly) -> (res: (usize, Vec<BigInt>))
    ensures
        res.0 <= p.coeffs@.len(),
        res.1@.len() == p.coeffs@.len() - res.0,
        forall|i: int| 0 <= i < res.0 ==> (#[trigger] p.coeffs@[i])@ == f_zero(),                    // name=kzg10.skip.only_zeros_skipped props=C08
        forall|i: int| 0 <= i < res.1@.len() ==> (#[trigger] res.1@[i])@ == p.coeffs@[res.0 + i]@,   // name=kzg10.skip.rest_kept props=C08
        p.wf() && p.coeffs@.len() > 0 ==> res.0 < p.coeffs@.len(),
//@body
//@loop 1 kw=while
      invariant num_leading_zeros <= p.coeffs@.len(), forall|i: int| 0 <= i < num_leading_zeros ==> (#[trigger] p.coeffs@[i])@ == f_zero()
      decreases p.coeffs@.len() - num_leading_zeros
//@end

//@fn id=kzg10.convert_to_bigints file=poly-commit/src/kzg10/mod.rs scope=top name=convert_to_bigints props=C08,C01
fn convert_to_bigints(p: &[Fr]) -> (res: Vec<BigInt>)
    ensures
        res@.len() == p@.len(),
        forall|i: int| 0 <= i < p@.len() ==> (#[trigger] res@[i])@ == p@[i]@,   // name=kzg10.convert.pointwise props=C08
//@body
//@closure |s| => |s: &Fr| -> (b: BigInt) ensures b@ == s@
//@end
