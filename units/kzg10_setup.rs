// KZG10::setup (C09): universal parameters are the stated powers of one trapdoor.
//@use core ops_gen std
//@spec ring
//@typemap /<E>/ => 
//@typemap /::<E, P>::/ => ::
//@enum file=poly-commit/src/error.rs name=Error
//@struct file=poly-commit/src/kzg10/data_structures.rs name=UniversalParams

// ---- what "well-formed SRS" means (trapdoor form; every pairing identity of the property follows from it by bilinearity)
pub open spec fn srs_wf(pp: &UniversalParams, max_degree: nat, produce_g2_powers: bool, beta: FS, g: FS, gamma_g: FS, h: FS) -> bool {
    pp.powers_of_g@.len() == max_degree + 1
    && (forall|i: int| 0 <= i <= max_degree ==> (#[trigger] pp.powers_of_g@[i])@ == f_mul(g, f_pow(beta, i as nat)))
    && (forall|i: usize| pp.powers_of_gamma_g@.dom().contains(i) == (i <= max_degree + 1))
    && (forall|i: usize| i <= max_degree + 1 ==> (#[trigger] pp.powers_of_gamma_g@[i])@ == f_mul(gamma_g, f_pow(beta, i as nat)))
    && pp.h@ == h && pp.beta_h@ == f_mul(h, beta)
    && pp.prepared_h@ == h && pp.prepared_beta_h@ == f_mul(h, beta)
    && (produce_g2_powers ==> ((forall|i: usize| pp.neg_powers_of_h@.dom().contains(i) == (i <= max_degree))
        && forall|i: usize| i <= max_degree ==> (#[trigger] pp.neg_powers_of_h@[i])@ == f_mul(h, f_pow(f_inv(beta), i as nat))))
    && (!produce_g2_powers ==> pp.neg_powers_of_h@ == Map::<usize, G2Affine>::empty())
}
pub struct KZG10;
impl KZG10 {
//@fn id=kzg10.setup file=poly-commit/src/kzg10/mod.rs scope="impl<E, P> KZG10<E, P>" name=setup props=C09,C17
    pub fn setup(max_degree: usize, produce_g2_powers: bool, rng: &mut Rng) -> (res: Result<UniversalParams, Error>)
    requires
        max_degree < usize::MAX - 1,
        produce_g2_powers ==> draw(old(rng).id@, old(rng).pos@) != f_zero(),   // beta = 0 makes the G2-powers branch divide by zero (abort)
    ensures
        (res is Err) == (max_degree < 1),   // name=kzg10.setup.err_iff_degree_zero props=C09,C17
        res is Ok ==> srs_wf(&res->Ok_0, max_degree as nat, produce_g2_powers, draw(old(rng).id@, old(rng).pos@), draw(old(rng).id@, old(rng).pos@ + 1),
                             draw(old(rng).id@, old(rng).pos@ + 2), draw(old(rng).id@, old(rng).pos@ + 3)),   // name=kzg10.setup.trapdoor_form props=C09
        res is Ok ==> final(rng).pos@ == old(rng).pos@ + 4,
//@body
//@rw 2 /(?s)(\w+)\s*\.batch_mul\(&(\w+)\)\s*\.into_iter\(\)\s*\.enumerate\(\)\s*\.collect\(\)/ => btree_from_indexed(\1.batch_mul(&\2))
//@loop 1 kw=for name=it1
            invariant beta@ == draw(old(rng).id@, old(rng).pos@), max_degree < usize::MAX - 1,
                powers_of_beta@.len() == 1 + it1.index@,
                forall|i: int| 0 <= i < powers_of_beta@.len() ==> (#[trigger] powers_of_beta@[i])@ == f_pow(beta@, i as nat),
                cur@ == f_pow(beta@, (it1.index@ + 1) as nat),
//@loop 2 kw=for name=it2
                invariant beta@ == draw(old(rng).id@, old(rng).pos@), beta@ != f_zero(), max_degree < usize::MAX - 1,
                    neg_powers_of_beta@.len() == 1 + it2.index@,
                    forall|i: int| 0 <= i < neg_powers_of_beta@.len() ==> (#[trigger] neg_powers_of_beta@[i])@ == f_pow(f_inv(beta@), i as nat),
                    cur@ == f_pow(f_inv(beta@), (it2.index@ + 1) as nat),
//@before /let mut cur = beta;/
        proof { broadcast use ax_mul_comm, ax_mul_one; reveal_with_fuel(f_pow, 2); }
//@before /let mut neg_powers_of_beta =/
            proof { broadcast use ax_mul_comm, ax_mul_one; reveal_with_fuel(f_pow, 2); }
//@end
}
// ======================= the scheme-level setup wrappers: which kind of universal parameters each scheme asks for =======================
pub mod kzg10 { pub use super::KZG10; }
// `.map_err(Into::into)` with Self::Error = Error: the identity on the error
#[verifier::external_body] pub fn map_err_into(r: Result<UniversalParams, Error>) -> (o: Result<UniversalParams, Error>) ensures o == r { unimplemented!() }
pub struct MarlinKZG10;
impl MarlinKZG10 {
//@fn id=marlin_pc.setup file=poly-commit/src/marlin/marlin_pc/mod.rs scope="impl<E, P> PolynomialCommitment<E::ScalarField, P> for MarlinKZG10<E, P>" name=setup props=C09,C17
    fn setup(max_degree: usize, _num_vars: Option<usize>, rng: &mut Rng) -> (res: Result<UniversalParams, Error>)
    requires
        max_degree < usize::MAX - 1,
    ensures
        (res is Err) == (max_degree < 1),   // name=marlin_pc.setup.err_iff_degree_zero props=C09,C17
        // KZG10 parameters in trapdoor form WITHOUT the G2 powers (Marlin enforces degree bounds in G1)
        res is Ok ==> srs_wf(&res->Ok_0, max_degree as nat, false, draw(old(rng).id@, old(rng).pos@), draw(old(rng).id@, old(rng).pos@ + 1),
                             draw(old(rng).id@, old(rng).pos@ + 2), draw(old(rng).id@, old(rng).pos@ + 3)),   // name=marlin_pc.setup.kzg10_parameters_in_trapdoor_form props=C09
//@body
//@rw 1 /(kzg10::KZG10::setup\(max_degree, \w+, rng\))\.map_err\(Into::into\)/ => map_err_into(\1)
//@end
}
pub struct SonicKZG10;
impl SonicKZG10 {
//@fn id=sonic_pc.setup file=poly-commit/src/sonic_pc/mod.rs scope="impl<E, P> PolynomialCommitment<E::ScalarField, P> for SonicKZG10<E, P>" name=setup props=C09,C17,C04
    fn setup(max_degree: usize, _nv: Option<usize>, rng: &mut Rng) -> (res: Result<UniversalParams, Error>)
    requires
        max_degree < usize::MAX - 1,
        draw(old(rng).id@, old(rng).pos@) != f_zero(),      // (trapdoor 0: the negative powers do not exist - abort)
    ensures
        (res is Err) == (max_degree < 1),   // name=sonic_pc.setup.err_iff_degree_zero props=C09,C17
        // KZG10 parameters in trapdoor form WITH the negative powers of beta in G2 that Sonic's degree-bound check pairs against
        res is Ok ==> srs_wf(&res->Ok_0, max_degree as nat, true, draw(old(rng).id@, old(rng).pos@), draw(old(rng).id@, old(rng).pos@ + 1),
                             draw(old(rng).id@, old(rng).pos@ + 2), draw(old(rng).id@, old(rng).pos@ + 3)),   // name=sonic_pc.setup.kzg10_parameters_with_g2_powers props=C09,C04
//@body
//@rw 1 /(kzg10::KZG10::<E, P>::setup\(max_degree, \w+, rng\))\.map_err\(Into::into\)/ => map_err_into(\1)
//@rw 1 /fn setup<R: RngCore>\(\s*max_degree: usize,\s*_: Option<usize>,/ => fn setup<R: RngCore>(max_degree: usize, _nv: Option<usize>,
//@end
}

