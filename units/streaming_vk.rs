// streaming_kzg: the verifier key derived from the two committer keys (`From<&CommitterKey>` in time.rs, `From<&CommitterKeyStream>` in space.rs)
// `CommitterKey::max_eval_points`, and the homomorphic `+` of evaluation proofs  (C09: the derived key is a restriction of the committer key; C14: both provers share one verifier key)
// The two trait methods `From::from` are emitted as inherent functions `from_committer_key` / `from_stream` (Verus accepts no `requires` on a
// trait impl, and one type cannot carry two inherent `from`); the BODIES are the extracted text.
//@use core ops_gen std
//@spec ring
//@typemap /<E, SG>/ =>
//@typemap /<E>/ =>
//@typemap /: SG,/ => : Vec<G1Affine>,
pub mod streaming_kzg {
    use super::*;
//@struct file=poly-commit/src/streaming_kzg/mod.rs name=VerifierKey
//@struct file=poly-commit/src/streaming_kzg/time.rs name=CommitterKey
//@struct file=poly-commit/src/streaming_kzg/space.rs name=CommitterKeyStream
//@struct file=poly-commit/src/streaming_kzg/mod.rs name=EvaluationProof
    // ---- trusted environment ----
    // `stream.iter().last().expect(..)`: the last element of the stream; an empty stream aborts (divergence => non-emptiness as a postcondition)
    #[verifier::external_body] pub fn stream_last_g1(v: &Vec<G1Affine>) -> (r: G1Affine) ensures v@.len() >= 1, r == v@[v@.len() - 1] { unimplemented!() }
    #[verifier::external_body] pub fn vec_g2_to_vec(v: &Vec<G2Affine>) -> (r: Vec<G2Affine>) ensures r@ == v@ { unimplemented!() }      // <[T]>::to_vec on a Vec
    #[verifier::external_body] pub fn vec1_g1(g: G1Affine) -> (r: Vec<G1Affine>) ensures r@ == seq![g] { unimplemented!() }             // vec![g]
    impl CommitterKey {
//@fn id=streaming.time.max_eval_points file=poly-commit/src/streaming_kzg/time.rs scope="impl<E: Pairing> CommitterKey<E>" name=max_eval_points props=C14,C09
        pub fn max_eval_points(&self) -> (r: usize)
        requires
            self.powers_of_g2@.len() >= 1,      // (an empty G2 table underflows: abort; `CommitterKey::new` always publishes max_eval_points + 1 >= 1 elements)
        ensures
            r == self.powers_of_g2@.len() - 1,   // name=streaming.time.max_eval_points.g2_table_length_minus_one props=C14,C09
//@body
//@end
    }
    impl VerifierKey {
//@fn id=streaming.time.verifier_key_from file=poly-commit/src/streaming_kzg/time.rs scope="impl<E: Pairing> From<&CommitterKey<E>> for VerifierKey<E>" name=from props=C14,C09
        pub fn from_committer_key(ck: &CommitterKey) -> (r: VerifierKey)
        requires
            ck.powers_of_g2@.len() >= 1,
            ck.powers_of_g@.len() >= ck.powers_of_g2@.len() - 1,     // (fewer G1 powers than evaluation points: the slice aborts)
        ensures
            // the verifier key is a PREFIX of the committer key: all G2 powers, and as many G1 powers as evaluation points
            r.powers_of_g2@ == ck.powers_of_g2@,     // name=streaming.time.verifier_key_from.g2_powers_are_the_committer_keys props=C14,C09
            r.powers_of_g@ == ck.powers_of_g@.subrange(0, ck.powers_of_g2@.len() - 1),     // name=streaming.time.verifier_key_from.g1_prefix_of_the_committer_key props=C14,C09
//@body
//@after start
            proof { axiom_vec_len_bound(&ck.powers_of_g2); }
//@end
//@fn id=streaming.space.verifier_key_from file=poly-commit/src/streaming_kzg/space.rs scope="impl<E, SG> From<&CommitterKeyStream<E, SG>> for VerifierKey<E>" name=from props=C14,C09
        pub fn from_stream(ck: &CommitterKeyStream) -> (r: VerifierKey)
        ensures
            ck.powers_of_g@.len() >= 1,      // name=streaming.space.verifier_key_from.empty_stream_aborts props=C17
            // the key stream lists the powers from the highest DOWN: its last element is the generator g = beta^0 g
            r.powers_of_g@ == seq![ck.powers_of_g@[ck.powers_of_g@.len() - 1]],     // name=streaming.space.verifier_key_from.g_is_the_last_stream_element props=C14,C09
            r.powers_of_g2@ == ck.powers_of_g2@,     // name=streaming.space.verifier_key_from.g2_powers_are_the_streams props=C14,C09
//@body
//@rw 1 /(?s)\*ck\s*\.powers_of_g\s*\.iter\(\)\s*\.last\(\)\s*\.expect\(LENGTH_MISMATCH_MSG\)\s*\.borrow\(\)/ => stream_last_g1(&ck.powers_of_g)
//@rw 1 /ck\.powers_of_g2\.to_vec\(\)/ => vec_g2_to_vec(&ck.powers_of_g2)
//@rw 1 /vec!\[g\]/ => vec1_g1(g)
//@end
    }
    impl EvaluationProof {
//@fn id=streaming.evaluation_proof_add file=poly-commit/src/streaming_kzg/mod.rs scope="impl<E: Pairing> Add for EvaluationProof<E>" name=add props=C14,C08
        // (`Add::add` emitted as an inherent function; `Self::Output` is `Self`)
        pub fn add_proof(self, rhs: Self) -> (r: EvaluationProof)
        ensures
            r.0@ == f_add(self.0@, rhs.0@),     // name=streaming.evaluation_proof_add.sum_of_the_group_elements props=C14,C08
//@body
//@end
    }
}
