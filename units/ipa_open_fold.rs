// InnerProductArgPC::open (ipa_pc/mod.rs), SECOND PHASE: the log(d+1) folding rounds and the proof assembly  (C01, C10, C11, C19)
// The unit is the text of `open` from `let h_prime = ..` to the end; everything before it (verified in units/ipa_open.rs) is cut and its live variables become
// the parameters of `ipa_open_rest`, the function that the first phase calls at the cut point.
// REPRESENTATION CHANGE (stated in DESIGN 8.2): the four `&mut [T]` views (`coeffs`, `z`, `key_proj`, and the halves `split_at_mut` returns) are owned vectors here:
// `v.as_mut_slice()` -> `v`, `s.split_at_mut(m)` -> the pair of vectors (s[..m], s[m..]).  The source only ever continues with the LEFT half (`coeffs = coeffs_l`), so
// nothing observable is lost.  The three `cfg_iter_mut!(l).zip(r).for_each(|(a, b)| *a += &(E))` chains are rewritten to index loops whose added term is the captured E.
//@use core ops_gen poly labeled labeled_comm sponge std ser
//@spec ring
//@typemap /<G>/ => 
//@typemap /G::Group::/ => G1::
//@typemap /Option<G>/ => Option<G1Affine>
//@typemap /Vec<G>/ => Vec<G1Affine>
//@typemap /: G,/ => : G1Affine,
//@typemap /&\[G\]/ => &[G1Affine]
//@typemap /\bG::zero\(\)/ => G1Affine::zero()
//@typemap /G::ScalarField::/ => Fr::
//@typemap /Self::CommitterKey/ => CommitterKey
//@typemap /Self::Commitment\b/ => Commitment
//@typemap /Self::CommitmentState/ => Randomness
//@typemap /Self::Error/ => Error
//@typemap /: &P =/ => : &Poly =
//@enum file=poly-commit/src/error.rs name=Error
//@struct file=poly-commit/src/ipa_pc/data_structures.rs name=CommitterKey
//@struct file=poly-commit/src/ipa_pc/data_structures.rs name=Commitment
//@struct file=poly-commit/src/ipa_pc/data_structures.rs name=Randomness
impl CommitterKey {
//@stub from=ipa.rs id=ipa.CommitterKey.supported_degree
}
//@struct file=poly-commit/src/ipa_pc/data_structures.rs name=Proof
pub type VerifierKey = CommitterKey;
//@use h2c
//@spec h2c_spec scp_spec ipa_spec vec_spec ipa_fold_spec ipa_rest_spec
#[verifier::external_body] pub fn normalize_pair(a: G1, b: G1) -> (r: Vec<G1Affine>) ensures r@.len() == 2, r@[0]@ == a@, r@[1]@ == b@ { unimplemented!() }   // G::Group::normalize_batch(&[a, b])
#[verifier::external_body] pub fn fr_to_vec(s: &[Fr]) -> (r: Vec<Fr>) ensures r@ == s@ { unimplemented!() }                               // <[F]>::to_vec
#[verifier::external_body] pub fn fr_split(v: Vec<Fr>, m: usize) -> (r: (Vec<Fr>, Vec<Fr>)) ensures m <= v@.len(), r.0@ == v@.subrange(0, m as int), r.1@ == v@.subrange(m as int, v@.len() as int) { unimplemented!() }   // split_at_mut (panics when m > len)
#[verifier::external_body] pub fn g1p_split(v: Vec<G1>, m: usize) -> (r: (Vec<G1>, Vec<G1>)) ensures m <= v@.len(), r.0@ == v@.subrange(0, m as int), r.1@ == v@.subrange(m as int, v@.len() as int) { unimplemented!() }
#[verifier::external_body] pub fn g1_split_at<'a>(v: &'a Vec<G1Affine>, m: usize) -> (r: (&'a [G1Affine], &'a [G1Affine])) ensures m <= v@.len(), r.0@ == v@.subrange(0, m as int), r.1@ == v@.subrange(m as int, v@.len() as int) { unimplemented!() }   // <[G]>::split_at
#[verifier::external_body] pub fn g1_into_groups(v: &Vec<G1Affine>) -> (r: Vec<G1>) ensures r@.len() == v@.len(), forall|i: int| 0 <= i < v@.len() ==> (#[trigger] r@[i])@ == v@[i]@ { unimplemented!() }   // iter().map(|x| (*x).into()).collect()
pub fn min_usize(a: usize, b: usize) -> (r: usize) ensures r == min(a as nat, b as nat) { if a < b { a } else { b } }

pub proof fn lemma_ip_is_dot(a: Seq<FS>, b: Seq<FS>, n: nat)
    requires n <= a.len(), n <= b.len()
    ensures fsum(pointwise_mul(a, b), n) == dot(a, b, n)
    decreases n
{ if n > 0 { lemma_ip_is_dot(a, b, (n - 1) as nat); } }
// the transcript functions only look at the first k entries of the L / R vectors
pub proof fn lemma_rc_ext(start: FS, first: FS, ls: Seq<G1Affine>, rs: Seq<G1Affine>, ls2: Seq<G1Affine>, rs2: Seq<G1Affine>, k: nat)
    requires k <= ls.len(), k <= rs.len(), k <= ls2.len(), k <= rs2.len(), forall|i: int| 0 <= i < k ==> ls[i] == ls2[i] && rs[i] == rs2[i]
    ensures ipa_rc(first, ls, rs, k) == ipa_rc(first, ls2, rs2, k), ipa_rcomm(start, first, ls, rs, k) == ipa_rcomm(start, first, ls2, rs2, k)
    decreases k
{ if k > 0 { lemma_rc_ext(start, first, ls, rs, ls2, rs2, (k - 1) as nat); } }
pub proof fn lemma_rcs_push(first: FS, ls: Seq<G1Affine>, rs: Seq<G1Affine>, l: G1Affine, r: G1Affine)
    requires ls.len() == rs.len()
    ensures ipa_rcs(first, ls.push(l), rs.push(r), ls.len() + 1) =~= ipa_rcs(first, ls, rs, ls.len()).push(ipa_rc(first, ls.push(l), rs.push(r), ls.len() + 1))
{
    let k = ls.len();
    assert forall|i: int| 0 <= i < k implies #[trigger] ipa_rcs(first, ls.push(l), rs.push(r), k + 1)[i] == ipa_rcs(first, ls, rs, k)[i] by {
        lemma_rc_ext(f_zero(), first, ls.push(l), rs.push(r), ls, rs, (i + 1) as nat);
    }
}
// one round on the prover's state, in the shape the executable code produces it
pub proof fn lemma_ipa_round(g: Seq<FS>, a: Seq<FS>, b: Seq<FS>, hp: FS, x: FS, xi: FS, lv: FS, rv: FS, g2: Seq<FS>, a2: Seq<FS>, b2: Seq<FS>)
    requires g.len() == a.len(), b.len() == a.len(), a.len() % 2 == 0, f_mul(x, xi) == f_one(),
        lv == f_add(f_add(dot(lhalf(g), rhalf(a), a.len() / 2), f_zero()), f_mul(hp, fsum(pointwise_mul(rhalf(a), lhalf(b)), a.len() / 2))),
        rv == f_add(f_add(dot(rhalf(g), lhalf(a), a.len() / 2), f_zero()), f_mul(hp, fsum(pointwise_mul(lhalf(a), rhalf(b)), a.len() / 2))),
        g2 =~= fold1(g, x), a2 =~= fold1(a, xi), b2 =~= fold1(b, x)
    ensures ipa_p(g2, a2, b2, hp) == f_add(ipa_p(g, a, b, hp), f_add(f_mul(lv, xi), f_mul(rv, x)))
{
    let h = a.len() / 2;
    lemma_ip_is_dot(rhalf(a), lhalf(b), h); lemma_ip_is_dot(lhalf(a), rhalf(b), h);
    ax_add_zero(dot(lhalf(g), rhalf(a), h)); ax_add_zero(dot(rhalf(g), lhalf(a), h));
    lemma_fold_round(g, a, b, hp, x, xi);
}
// the end of the rounds: vectors of length one
pub proof fn lemma_ipa_final(g0: Seq<FS>, b0: Seq<FS>, z: FS, u: Seq<FS>, g: Seq<FS>, a: Seq<FS>, b: Seq<FS>, hp: FS)
    requires g.len() == 1, a.len() == 1, b.len() == 1, folded(g0, u, g), folded(b0, u, b), b0.len() == g0.len(), forall|i: int| 0 <= i < b0.len() ==> b0[i] == f_pow(z, i as nat)
    ensures g0.len() == vstd::arithmetic::power2::pow2(u.len()),
        ipa_p(g, a, b, hp) == f_add(f_mul(g[0], a[0]), f_mul(hp, f_mul(scp_eval(u, z, u.len()), a[0]))),
        g[0] == dot(g0, scp_coeffs(u), g0.len())
{
    lemma_folded_final(g0, u, g); lemma_folded_final(b0, u, b);
    lemma_scp_agree(u, z);
    lemma_dot_powers(b0, scp_coeffs(u), z, b0.len());
    assert(dot(g, a, 1) == f_add(dot(g, a, 0), f_mul(g[0], a[0])));
    assert(dot(a, b, 1) == f_add(dot(a, b, 0), f_mul(a[0], b[0])));
    ax_add_comm(f_zero(), f_mul(g[0], a[0])); ax_add_zero(f_mul(g[0], a[0]));
    ax_add_comm(f_zero(), f_mul(a[0], b[0])); ax_add_zero(f_mul(a[0], b[0]));
    ax_mul_comm(a[0], b[0]);
}
pub proof fn lemma_pow2_halve(k: nat)
    requires vstd::arithmetic::power2::pow2(k) > 1
    ensures k >= 1, vstd::arithmetic::power2::pow2(k) == 2 * vstd::arithmetic::power2::pow2((k - 1) as nat), vstd::arithmetic::power2::pow2((k - 1) as nat) >= 1
{
    vstd::arithmetic::power2::lemma2_to64();
    if k >= 1 { vstd::arithmetic::power2::lemma_pow2_unfold(k); vstd::arithmetic::power2::lemma_pow2_pos((k - 1) as nat); }
}
pub struct InnerProductArgPC;
impl InnerProductArgPC {
//@stub from=ipa.rs id=ipa.cm_commit
//@stub from=ipa.rs id=ipa.compute_random_oracle_challenge
}
//@stub from=hyrax.rs id=utils.inner_product vis=pub
impl InnerProductArgPC {
//@fn id=ipa.open.folding_rounds file=poly-commit/src/ipa_pc/mod.rs scope="impl<G, D, P> PolynomialCommitment<G::ScalarField, P> for InnerProductArgPC<G, D, P>" name=open fragment=1 props=C01,C10,C11,C19
    fn ipa_open_rest(ck: &CommitterKey, combined_polynomial: &Poly, combined_rand: Option<Fr>, hiding_commitment: Option<G1Affine>, first_challenge: Fr, point: &Fr, d: usize, log_d: usize) -> (res: Result<Proof, Error>)
    requires
        d + 1 == ck.comm_key@.len(), d < 0x4000_0000_0000_0000, combined_polynomial.coeffs@.len() <= d + 1,
        exists|k: nat| vstd::arithmetic::power2::pow2(k) == d + 1,     // the key length is a power of two (setup / trim round up to one)
    ensures
        res is Ok ==> res->Ok_0.hiding_comm == hiding_commitment && res->Ok_0.rand == combined_rand,   // name=ipa.open.proof_carries_the_hiding_commitment_and_blinding props=C01,C07
        res is Ok ==> ipa_rest_rel(ck, padz(fviews(combined_polynomial.coeffs@), (d + 1) as nat), point@, first_challenge@, &res->Ok_0),   // name=ipa.open.rounds_produce_a_proof_that_satisfies_the_verifiers_relation props=C01,C10,C11
        res is Ok ==> res->Ok_0.l_vec@.len() == res->Ok_0.r_vec@.len() && vstd::arithmetic::power2::pow2(res->Ok_0.l_vec@.len()) == d + 1,   // name=ipa.open.log_many_rounds props=C19
//@body
//@rw 1 /(?s)^(\s*\{).*?(?=let h_prime = ck\.h\.mul\(round_challenge\)\.into_affine\(\);)/ => \1 let mut round_challenge = first_challenge; 
//@rw 1 /for _(?= in[^;{]*coeffs\.len\(\)\.\.\(d \+ 1\))/ => for pi__
//@rw 1 /for _(?= in[^;{]*0\.\.\(d \+ 1\))/ => for zi__
//@rw 1 /combined_polynomial\.coeffs\(\)\.to_vec\(\)/ => fr_to_vec(combined_polynomial.coeffs())
//@rw 1 /let mut coeffs = coeffs\.as_mut_slice\(\);/ => let mut coeffs: Vec<Fr> = coeffs;
//@rw 1 /let mut z = z\.as_mut_slice\(\);/ => let mut z: Vec<Fr> = z;
//@rw 1 /let mut key_proj: Vec<G::Group> = ck\.comm_key\.iter\(\)\.map\(\|x\| \(\*x\)\.into\(\)\)\.collect\(\);/ => let mut key_proj: Vec<G1> = g1_into_groups(&ck.comm_key);
//@rw 1 /let mut key_proj = key_proj\.as_mut_slice\(\);/ => let mut key_proj: Vec<G1> = key_proj;
//@rw 1 /let mut temp;/ => let mut temp: Vec<G1Affine> = Vec::new();
//@rw 1 /let \(coeffs_l, coeffs_r\) = coeffs\.split_at_mut\(n \/ 2\);/ => let (mut coeffs_l, coeffs_r) = fr_split(coeffs, n / 2);
//@rw 1 /let \(z_l, z_r\) = z\.split_at_mut\(n \/ 2\);/ => let (mut z_l, z_r) = fr_split(z, n / 2);
//@rw 1 /let \(key_l, key_r\) = comm_key\.split_at\(n \/ 2\);/ => let (key_l, key_r) = g1_split_at(comm_key, n / 2);
//@rw 1 /let \(key_proj_l, _\) = key_proj\.split_at_mut\(n \/ 2\);/ => let (mut key_proj_l, kpr__) = g1p_split(key_proj, n / 2);
//@rw 1 /(?s)ark_std::cfg_iter_mut!\(coeffs_l\)\s*\.zip\(coeffs_r\)\s*\.for_each\(\|\(c_l, c_r\)\| \*c_l \+= &\((.*?)\)\);/ => let ghost s0__ = coeffs_l@; let m__ = min_usize(coeffs_l.len(), coeffs_r.len()); for i__ in it1: 0..m__ invariant coeffs_l@.len() == s0__.len(), m__ <= s0__.len(), m__ <= coeffs_r@.len(), (forall|j: int| 0 <= j < i__ ==> (#[trigger] coeffs_l@[j])@ == f_add(s0__[j]@, f_mul(round_challenge_inv@, coeffs_r@[j]@))), (forall|j: int| i__ <= j < s0__.len() ==> #[trigger] coeffs_l@[j] == s0__[j]) { let c_r = &coeffs_r[i__]; let add__ = \1; let new__ = coeffs_l[i__] + add__; coeffs_l.set(i__, new__); }
//@rw 1 /(?s)ark_std::cfg_iter_mut!\(z_l\)\s*\.zip\(z_r\)\s*\.for_each\(\|\(z_l, z_r\)\| \*z_l \+= &\((.*?)\)\);/ => let ghost s1__ = z_l@; let m__ = min_usize(z_l.len(), z_r.len()); for i__ in it2: 0..m__ invariant z_l@.len() == s1__.len(), m__ <= s1__.len(), m__ <= z_r@.len(), (forall|j: int| 0 <= j < i__ ==> (#[trigger] z_l@[j])@ == f_add(s1__[j]@, f_mul(round_challenge@, z_r@[j]@))), (forall|j: int| i__ <= j < s1__.len() ==> #[trigger] z_l@[j] == s1__[j]) { let new__ = { let z_r = &z_r[i__]; let add__ = \1; z_l[i__] + add__ }; z_l.set(i__, new__); }
//@rw 1 /(?s)ark_std::cfg_iter_mut!\(key_proj_l\)\s*\.zip\(key_r\)\s*\.for_each\(\|\(k_l, k_r\)\| \*k_l \+= &\((.*?)\)\);/ => let ghost s2__ = key_proj_l@; let m__ = min_usize(key_proj_l.len(), key_r.len()); for i__ in it3: 0..m__ invariant key_proj_l@.len() == s2__.len(), m__ <= s2__.len(), m__ <= key_r@.len(), (forall|j: int| 0 <= j < i__ ==> (#[trigger] key_proj_l@[j])@ == f_add(s2__[j]@, f_mul(key_r@[j]@, round_challenge@))), (forall|j: int| i__ <= j < s2__.len() ==> #[trigger] key_proj_l@[j] == s2__[j]) { let k_r = &key_r[i__]; let add__ = \1; let new__ = key_proj_l[i__] + add__; key_proj_l.set(i__, new__); }
//@rw 2 /Self::cm_commit\((key_[lr]), (coeffs_[lr]), None, None\)/ => Self::cm_commit(\1, \2.as_slice(), None, None)
//@rw 2 /inner_product\((coeffs_[lr]), (z_[lr])\)/ => inner_product(\1.as_slice(), \2.as_slice())
//@rw 1 /G::Group::normalize_batch\(&\[l, r\]\)/ => normalize_pair(l, r)
//@rw 1 /G::Group::normalize_batch\(key_proj\)/ => G1::normalize_batch(key_proj.as_slice())
//@rw 1 /let mut byte_vec = Vec::new\(\);/ => let mut byte_vec: Vec<u8> = Vec::new();
//@rw * /(?s)\.serialize_uncompressed\(&mut byte_vec\)\s*\.unwrap\(\)/ => .serialize_uncompressed(&mut byte_vec).unwrap_abort()
//@rw 1 /round_challenge\.inverse\(\)\.unwrap\(\)/ => round_challenge.inverse().unwrap_abort()
//@after /let h_prime = ck\.h\.mul/
        let ghost first = first_challenge@; let ghost hp = f_mul(ck.h@, first); let ghost n0 = (d + 1) as nat; let ghost zz = point@;
        let ghost g0 = g1views(ck.comm_key@); let ghost a0 = padz(fviews(combined_polynomial.coeffs@), n0); let ghost b0 = zpows(zz, n0);
        let ghost cl0 = combined_polynomial.coeffs@.len(); let ghost k0 = choose|k: nat| vstd::arithmetic::power2::pow2(k) == d + 1;
        let ghost p0 = ipa_p(g0, a0, b0, hp);
//@loop 2 kw=for name=itp
                invariant cl0 <= pi__ <= d + 1, coeffs@.len() == pi__, cl0 == combined_polynomial.coeffs@.len(),
                    forall|i: int| 0 <= i < cl0 ==> #[trigger] coeffs@[i] == combined_polynomial.coeffs@[i],
                    forall|i: int| cl0 <= i < coeffs@.len() ==> (#[trigger] coeffs@[i])@ == f_zero(),
//@loop 3 kw=for name=itz
            invariant zi__ <= d + 1, z@.len() == zi__, cur_z@ == f_pow(point@, zi__ as nat),
                forall|i: int| 0 <= i < z@.len() ==> (#[trigger] z@[i])@ == f_pow(point@, i as nat),
//@beforeloop 4
        let ghost mut kk: nat = k0;
        proof {
            assert(fviews(coeffs@) =~= a0); assert(fviews(z@) =~= b0); assert(g1pviews(key_proj@) =~= g0);
            lemma_folded_init(g0); lemma_folded_init(b0);
            assert(ipa_rcs(first, l_vec@, r_vec@, 0) =~= Seq::<FS>::empty());
        }
//@loop 4 kw=while
            invariant 1 <= n <= d + 1, coeffs@.len() == n, z@.len() == n, key_proj@.len() == n, comm_key@.len() == n,
                l_vec@.len() == r_vec@.len(), vstd::arithmetic::power2::pow2(kk) == n, kk + l_vec@.len() == k0, vstd::arithmetic::power2::pow2(k0) == n0, n0 == d + 1, d < 0x4000_0000_0000_0000,
                h_prime@ == hp, first == first_challenge@, zz == point@,
                round_challenge@ == ipa_rc(first, l_vec@, r_vec@, l_vec@.len()),
                ipa_p(g1views(comm_key@), fviews(coeffs@), fviews(z@), hp) == ipa_rcomm(p0, first, l_vec@, r_vec@, l_vec@.len()),
                g1pviews(key_proj@) =~= g1views(comm_key@),
                folded(g0, ipa_rcs(first, l_vec@, r_vec@, l_vec@.len()), g1views(comm_key@)),
                folded(b0, ipa_rcs(first, l_vec@, r_vec@, l_vec@.len()), fviews(z@)),
            decreases n
//@loopstart 4
            let ghost gv = g1views(comm_key@); let ghost av = fviews(coeffs@); let ghost bv = fviews(z@); let ghost ls0 = l_vec@; let ghost rs0 = r_vec@;
            let ghost rc0 = round_challenge@; let ghost u0 = ipa_rcs(first, ls0, rs0, ls0.len()); let ghost kp0 = key_proj@;
            proof { lemma_pow2_halve(kk); }
//@before /let l = Self::cm_commit/
            proof {
                assert(fviews(coeffs_l@) =~= lhalf(av)); assert(fviews(coeffs_r@) =~= rhalf(av)); assert(fviews(z_l@) =~= lhalf(bv)); assert(fviews(z_r@) =~= rhalf(bv));
                assert(g1views(key_l@) =~= lhalf(gv)); assert(g1views(key_r@) =~= rhalf(gv)); assert(g1pviews(key_proj_l@) =~= lhalf(gv));
            }
//@after /let round_challenge_inv = /
            proof {
                let ls1 = l_vec@; let rs1 = r_vec@; let k = ls0.len();
                assert(ls1 == ls0.push(lr@[0]) && rs1 == rs0.push(lr@[1]));
                lemma_rc_ext(p0, first, ls0, rs0, ls1, rs1, k);
                assert(round_challenge@ == ipa_rc(first, ls1, rs1, k + 1));
                lemma_rcs_push(first, ls0, rs0, lr@[0], lr@[1]);
                ax_mul_inv(round_challenge@);
            }
//@before /coeffs = coeffs_l;/
            proof {
                let x = round_challenge@; let xi = round_challenge_inv@; let h = (n / 2) as int;
                assert(fviews(coeffs_l@) =~= fold1(av, xi));
                assert(fviews(z_l@) =~= fold1(bv, x));
                assert(g1pviews(key_proj_l@) =~= fold1(gv, x)) by {
                    assert forall|j: int| 0 <= j < h implies (#[trigger] key_proj_l@[j])@ == f_add(gv[j], f_mul(x, gv[j + h])) by { ax_mul_comm(key_r@[j]@, x); assert(key_r@[j]@ == rhalf(gv)[j]); assert(s2__[j]@ == lhalf(gv)[j]); }
                }
                lemma_ipa_round(gv, av, bv, hp, x, xi, lr@[0]@, lr@[1]@, fold1(gv, x), fold1(av, xi), fold1(bv, x));
                lemma_folded_step(g0, u0, gv, x, fold1(gv, x)); lemma_folded_step(b0, u0, bv, x, fold1(bv, x));
            }
//@after /comm_key = &temp;/
            proof { assert(g1views(comm_key@) =~= g1pviews(key_proj@)); }
//@loopend 4
            proof { kk = (kk - 1) as nat; }
//@afterloop 4
        proof {
            if kk >= 1 { vstd::arithmetic::power2::lemma_pow2_unfold(kk); vstd::arithmetic::power2::lemma_pow2_pos((kk - 1) as nat); }
            let u = ipa_rcs(first, l_vec@, r_vec@, l_vec@.len());
            assert(forall|i: int| 0 <= i < b0.len() ==> b0[i] == f_pow(zz, i as nat));
            lemma_ipa_final(g0, b0, zz, u, g1views(comm_key@), fviews(coeffs@), fviews(z@), hp);
            lemma_dot_comm(a0, b0, n0); lemma_dot_powers(b0, a0, zz, n0);
            assert(p0 == f_add(msm(ck.comm_key@, a0, n0), f_mul(hp, peval(a0, zz, n0))));
        }
//@end
}
