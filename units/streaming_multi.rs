// streaming_kzg::VerifierKey::verify_multi_points and interpolate_poly (streaming_kzg/mod.rs): the multi-point verifier  (C14, C05, C02, C10)
//@use core ops_gen poly std
//@spec ring
//@typemap /<E>/ =>
//@typemap /\bmsm::<E>\(/ => msm_(
//@typemap /interpolate_poly::<E>\(/ => interpolate_poly(
//@typemap /E::ScalarField::/ => Fr::
//@typemap /\bE::G1::/ => G1::
//@typemap /\bE::G2::/ => G2::
//@typemap /<E::G2 as VariableBaseMSM>::/ => G2::
//@typemap /<E::G1 as VariableBaseMSM>::/ => G1::
//@typemap /DensePolynomial::from_coefficients_vec/ => Poly::from_coefficients_vec
//@typemap /DensePolynomial<E::ScalarField>/ => Poly
//@typemap /&\[E::ScalarField\]/ => &[Fr]
pub mod streaming_kzg {
    use super::*;
//@struct file=poly-commit/src/streaming_kzg/mod.rs name=VerifierKey
//@struct file=poly-commit/src/streaming_kzg/mod.rs name=Commitment
//@struct file=poly-commit/src/streaming_kzg/mod.rs name=EvaluationProof
    pub struct VerificationError;
    pub type VerificationResult = Result<(), VerificationError>;
    // ---- trusted environment: ark-poly DensePolynomial arithmetic (by evaluation), and the two iterator-style helpers of this file ----
    impl Poly {
        #[verifier::external_body] pub fn mul_poly(&self, o: &Poly) -> (r: Poly) ensures forall|x: FS| #[trigger] r.ev(x) == f_mul(self.ev(x), o.ev(x)) { unimplemented!() }       // &a * &b  (Mul<&DensePolynomial>)
        #[verifier::external_body] pub fn mul_scalar(&self, c: Fr) -> (r: Poly) ensures forall|x: FS| #[trigger] r.ev(x) == f_mul(self.ev(x), c@) { unimplemented!() }            // &a * c   (Mul<F>)
        #[verifier::external_body] pub fn add_poly(&self, o: &Poly) -> (r: Poly) ensures forall|x: FS| #[trigger] r.ev(x) == f_add(self.ev(x), o.ev(x)) { unimplemented!() }       // &a + &b
        #[verifier::external_body] pub fn from_coeffs1(a: Fr) -> (r: Poly) ensures forall|x: FS| #[trigger] r.ev(x) == a@ { unimplemented!() }                                    // from_coefficients_vec(vec![a])
        #[verifier::external_body] pub fn from_coeffs2(a: Fr, b: Fr) -> (r: Poly) ensures forall|x: FS| #[trigger] r.ev(x) == f_add(a@, f_mul(b@, x)) { unimplemented!() }        // from_coefficients_vec(vec![a, b])
    }
    // prod_{t < k} (x - pts[t])
    pub open spec fn vprod(pts: Seq<Fr>, k: nat, x: FS) -> FS decreases k { if k == 0 { f_one() } else { f_mul(vprod(pts, (k - 1) as nat, x), f_sub(x, pts[k - 1]@)) } }
    // vanishing_polynomial, linear_combination: contracts proved in units/streaming_helpers.rs
//@stub from=streaming_helpers.rs id=streaming.vanishing_polynomial vis=pub
    pub open spec fn cf(p: Seq<Fr>, t: int) -> FS { if 0 <= t < p.len() { p[t]@ } else { f_zero() } }
    pub open spec fn lc_cf(ps: Seq<Vec<Fr>>, cs: Seq<Fr>, k: nat, t: int) -> FS decreases k { if k == 0 { f_zero() } else { f_add(lc_cf(ps, cs, (k - 1) as nat, t), f_mul(cf(ps[k - 1]@, t), cs[k - 1]@)) } }
//@stub from=streaming_helpers.rs id=streaming.linear_combination vis=pub
//@stub from=streaming.rs id=streaming.msm vis=pub
//@stub from=streaming.rs id=streaming.powers vis=pub
    #[verifier::external_body] pub fn vec_one(len: usize) -> (r: Vec<Fr>) ensures r@.len() == len, forall|i: int| 0 <= i < len ==> (#[trigger] r@[i])@ == f_one() { unimplemented!() }
    // ======================= specification =======================
    // prod_{t < k, t != j} (x - xs[t])
    pub open spec fn lprod(xs: Seq<Fr>, j: int, k: nat, x: FS) -> FS decreases k { if k == 0 { f_one() } else if k - 1 == j { lprod(xs, j, (k - 1) as nat, x) } else { f_mul(lprod(xs, j, (k - 1) as nat, x), f_sub(x, xs[k - 1]@)) } }
    // the interpolant through (xs[j], ys[j]), j < m, evaluated at x:  sum_j (s_j * y_j) * L_j(x)
    pub open spec fn isum(ys: Seq<Fr>, sca: Seq<Fr>, lang: Seq<Poly>, m: nat, x: FS) -> FS decreases m { if m == 0 { f_zero() } else { f_add(isum(ys, sca, lang, (m - 1) as nat, x), f_mul(lang[m - 1].ev(x), f_mul(sca[m - 1]@, ys[m - 1]@))) } }
    pub open spec fn lagrange_tables_ok(xs: Seq<Fr>, sca: Seq<Fr>, lang: Seq<Poly>) -> bool {
        sca.len() == xs.len() && lang.len() == xs.len()
        && (forall|j: int| 0 <= j < xs.len() ==> (#[trigger] sca[j])@ == f_inv(lprod(xs, j, xs.len(), xs[j]@)))                 // 1 / prod_{k != j} (x_j - x_k)
        && (forall|j: int, x: FS| 0 <= j < xs.len() ==> #[trigger] lang[j].ev(x) == lprod(xs, j, xs.len(), x))                    // prod_{k != j} (X - x_k)
    }

//@fn id=streaming.interpolate_poly file=poly-commit/src/streaming_kzg/mod.rs scope=top name=interpolate_poly props=C14,C05
    pub fn interpolate_poly(eval_points: &[Fr], evals: &[Fr], sca_inverse: &[Fr], lang: &[Poly]) -> (r: Poly)
    requires
        sca_inverse@.len() >= min(eval_points@.len(), evals@.len()), lang@.len() >= min(eval_points@.len(), evals@.len()),
    ensures
        forall|x: FS| #[trigger] r.ev(x) == isum(evals@, sca_inverse@, lang@, min(eval_points@.len(), evals@.len()), x),   // name=streaming.interpolate_poly.sum_of_scaled_lagrange_polynomials props=C14,C05
        forall|x: FS| #[trigger] peval(fviews(r.coeffs@), x, r.coeffs@.len()) == isum(evals@, sca_inverse@, lang@, min(eval_points@.len(), evals@.len()), x),
//@body
//@rw 1 /DensePolynomial::from_coefficients_vec\(vec!\[E::ScalarField::zero\(\)\]\)/ => Poly::from_coeffs1(Fr::zero())
//@rw 1 /\(&lang\[j\]\)\.mul\((.*)\);/ => lang[j].mul_scalar(\1);
//@rw 1 /\(&res\)\.add\(&l_poly\)/ => res.add_poly(&l_poly)
//@loop 1 kw=for name=it
        invariant it.index@ <= min(eval_points@.len(), evals@.len()), sca_inverse@.len() >= min(eval_points@.len(), evals@.len()), lang@.len() >= min(eval_points@.len(), evals@.len()),
            forall|x: FS| #[trigger] res.ev(x) == isum(evals@, sca_inverse@, lang@, it.index@ as nat, x),
//@loopstart 1
        let ghost res0 = res; let ghost jj = it.index@;
//@loopend 1
        proof { assert forall|x: FS| #[trigger] res.ev(x) == isum(evals@, sca_inverse@, lang@, (jj + 1) as nat, x) by { assert(res0.ev(x) == isum(evals@, sca_inverse@, lang@, jj as nat, x)); } }
//@before /res\s*\}$/
    proof { assert forall|x: FS| #[trigger] peval(fviews(res.coeffs@), x, res.coeffs@.len()) == isum(evals@, sca_inverse@, lang@, min(eval_points@.len(), evals@.len()), x) by { assert(res.ev(x) == isum(evals@, sca_inverse@, lang@, min(eval_points@.len(), evals@.len()), x)); } }
//@end
    // what the verifier decides: e(sum_i eta^i C_i - [I](tau) G, H) == e(pi, [Z](tau) H) with Z the vanishing polynomial of the points and
    // I = sum_i eta^i I_i, I_i the Lagrange interpolant of the i-th claimed evaluation vector
    pub open spec fn cviews(cs: Seq<Commitment>) -> Seq<G1Affine> { Seq::new(cs.len(), |i: int| cs[i].0) }
    pub open spec fn smp_relation(vk: &VerifierKey, cs: Seq<Commitment>, xs: Seq<Fr>, evs: Seq<Vec<Fr>>, pr: &EvaluationProof, eta: FS) -> bool {
        exists|z: Poly, sca: Seq<Fr>, lang: Seq<Poly>, ipolys: Seq<Vec<Fr>>, ip: Seq<Fr>, etas: Seq<Fr>| #![trigger lagrange_tables_ok(xs, sca, lang), ipolys.len(), ip.len(), etas.len(), z.ev(f_zero())]
            (forall|x: FS| #[trigger] z.ev(x) == vprod(xs, xs.len(), x))
            && lagrange_tables_ok(xs, sca, lang)
            && etas.len() == evs.len() && (forall|i: int| 0 <= i < etas.len() ==> (#[trigger] etas[i])@ == f_pow(eta, i as nat))
            && ipolys.len() == evs.len()
            && (forall|i: int, x: FS| 0 <= i < evs.len() ==> #[trigger] peval(fviews(ipolys[i]@), x, ipolys[i]@.len()) == isum(evs[i]@, sca, lang, min(xs.len(), evs[i]@.len()), x))
            && (forall|t: int| #[trigger] cf(ip, t) == lc_cf(ipolys, etas, min(ipolys.len(), etas.len()), t))
            && pair(f_sub(msm(cviews(cs), fviews(etas), min(cs.len(), etas.len())), msm(vk.powers_of_g@, fviews(ip), min(vk.powers_of_g@.len(), ip.len()))), vk.powers_of_g2@[0]@)
               == pair(pr.0@, dot(g2views(vk.powers_of_g2@), fviews(z.coeffs@), min(vk.powers_of_g2@.len(), z.coeffs@.len())))
    }
    impl VerifierKey {
//@fn id=streaming.verify_multi_points file=poly-commit/src/streaming_kzg/mod.rs scope="impl<E: Pairing> VerifierKey<E>" name=verify_multi_points props=C14,C05,C02,C10
        #[verifier::loop_isolation(false)]
        pub fn verify_multi_points(&self, commitments: &[Commitment], eval_points: &[Fr], evaluations: &[Vec<Fr>], proof: &EvaluationProof, open_chal: &Fr) -> (res: VerificationResult)
        requires
            self.powers_of_g2@.len() >= 1,
            forall|i: int| 0 <= i < evaluations@.len() ==> (#[trigger] evaluations@[i])@.len() <= eval_points@.len(),       // (surplus evaluations are ignored; fewer are interpolated through fewer points)
        ensures
            res is Ok ==> smp_relation(self, commitments@, eval_points@, evaluations@, proof, open_chal@),   // name=streaming.verify_multi_points.accepts_only_the_interpolated_batch_relation props=C14,C05,C02,C10
//@body
//@rw 1 /zeros\.iter\(\)/ => zeros.coeffs.iter()
//@rw 1 /let zeros = <E::G2 as VariableBaseMSM>::msm_bigint/ => let zeros_g2 = G2::msm_bigint
//@rw 1 /E::pairing\(proof\.0, zeros\)/ => E::pairing(proof.0, zeros_g2)
//@rw 1 /zeros\.coeffs\.iter\(\)\.map\(\|x\| x\.into_bigint\(\)\)/ => zeros.coeffs.iter().map(|zx: &Fr| -> (b: BigInt) ensures b@ == zx@ { zx.into_bigint() })
//@rw 1 /etas\.iter\(\)\.map\(\|e\| e\.into_bigint\(\)\)/ => etas.iter().map(|ex: &Fr| -> (b: BigInt) ensures b@ == ex@ { ex.into_bigint() })
//@rw 1 /let mut sca_inverse = Vec::new\(\);/ => let mut sca_inverse: Vec<Fr> = Vec::new();
//@rw 1 /let mut lang = Vec::new\(\);/ => let mut lang: Vec<Poly> = Vec::new();
//@rw 1 /DensePolynomial::from_coefficients_vec\(vec!\[E::ScalarField::one\(\)\]\)/ => Poly::from_coeffs1(Fr::one())
//@rw 1 /DensePolynomial::from_coefficients_vec\(vec!\[(.*?), E::ScalarField::one\(\)\]\)/ => Poly::from_coeffs2(\1, Fr::one())
//@rw 1 /l_poly\.mul\(&tmp_poly\)/ => l_poly.mul_poly(&tmp_poly)
//@rw 1 /sca\.inverse\(\)\.unwrap\(\)/ => sca.inverse().unwrap_abort()
//@rw 1 /(?s)(linear_combination\(.*?\))\.unwrap\(\)/ => \1.unwrap_abort()
//@rw 1 /(?s)let interpolated_polynomials = evaluations\s*\.iter\(\)\s*\.map\(\|e\| (.*?)\)\s*\.collect::<Vec<_>>\(\);/ => let interpolated_polynomials: Vec<Vec<Fr>> = evaluations.iter().map(|e: &Vec<Fr>| -> (o: Vec<Fr>)
                requires e@.len() <= xs0.len(), xs0 == eval_points@, lagrange_tables_ok(xs0, sca_inverse@, lang@)
                ensures forall|x: FS| #[trigger] peval(fviews(o@), x, o@.len()) == isum(e@, sca_inverse@, lang@, min(xs0.len(), e@.len()), x) { \1 }).collect();
//@rw 1 /interpolate_poly::<E>\(eval_points, e, &sca_inverse, &lang\)\.coeffs/ => interpolate_poly(eval_points, e.as_slice(), sca_inverse.as_slice(), lang.as_slice()).coeffs
//@rw 1 /&interpolated_polynomials\[\.\.\]/ => interpolated_polynomials.as_slice()
//@rw 1 /commitments\.iter\(\)\.map\(\|x\| x\.0\)/ => commitments.iter().map(|cx: &Commitment| -> (o: G1Affine) ensures o == cx.0 { cx.0 })
//@after start
            let ghost xs0 = eval_points@;
//@loop 1 kw=for name=it
                invariant it.index@ <= xs0.len(), xs0 == eval_points@, sca_inverse@.len() == it.index@,
                    forall|q: int| 0 <= q < sca_inverse@.len() ==> (#[trigger] sca_inverse@[q])@ == f_inv(lprod(xs0, q, xs0.len(), xs0[q]@)),
//@loopstart 1
                let ghost jj = it.index@; let ghost si0 = sca_inverse@;
//@loop 2 kw=for name=it2
                    invariant it2.index@ <= xs0.len(), jj < xs0.len(), j == jj, *x_j == xs0[jj], sca@ == lprod(xs0, jj, it2.index@ as nat, xs0[jj]@),
//@loopend 1
                proof { assert forall|q: int| 0 <= q < sca_inverse@.len() implies (#[trigger] sca_inverse@[q])@ == f_inv(lprod(xs0, q, xs0.len(), xs0[q]@)) by { if q < jj { assert(sca_inverse@[q] == si0[q]); } } }
//@loop 3 kw=for name=it3
                invariant it3.index@ <= xs0.len(), xs0 == eval_points@, lang@.len() == it3.index@,
                    forall|q: int, x: FS| 0 <= q < lang@.len() ==> #[trigger] lang@[q].ev(x) == lprod(xs0, q, xs0.len(), x),
//@loopstart 3
                let ghost jj = it3.index@; let ghost lg0 = lang@;
//@loop 4 kw=for name=it4
                    invariant it4.index@ <= xs0.len(), jj < xs0.len(), j == jj, forall|x: FS| #[trigger] l_poly.ev(x) == lprod(xs0, jj, it4.index@ as nat, x),
//@loopstart 4
                    let ghost kk = it4.index@; let ghost lp0 = l_poly;
//@loopend 4
                    proof {
                        assert forall|x: FS| #[trigger] l_poly.ev(x) == lprod(xs0, jj, (kk + 1) as nat, x) by {
                            assert(lp0.ev(x) == lprod(xs0, jj, kk as nat, x));
                            if kk != jj { ax_mul_comm(x, f_one()); ax_mul_one(x); ax_add_comm(f_neg(xs0[kk]@), x); }
                        }
                    }
//@loopend 3
                proof { assert forall|q: int, x: FS| 0 <= q < lang@.len() implies #[trigger] lang@[q].ev(x) == lprod(xs0, q, xs0.len(), x) by { if q < jj { assert(lang@[q] == lg0[q]); } } }
//@before /let etas = powers\(/
            proof { assert(lagrange_tables_ok(xs0, sca_inverse@, lang@)); }
//@before /let g2 = self\.powers_of_g2\[0\];/
            proof {
                let z = zeros; let sca = sca_inverse@; let lg = lang@; let ipolys = interpolated_polynomials@; let ip = i_poly@; let et = etas@; let evs = evaluations@;
                assert(comm_vec@ =~= cviews(commitments@));
                assert(bviews(etas_repr@) =~= fviews(et));
                assert(bviews(zeros_repr@) =~= fviews(z.coeffs@));
                assert(lagrange_tables_ok(xs0, sca, lg));
                assert(et.len() == evs.len() && ipolys.len() == evs.len());
                assert forall|i: int, x: FS| 0 <= i < evs.len() implies #[trigger] peval(fviews(ipolys[i]@), x, ipolys[i]@.len()) == isum(evs[i]@, sca, lg, min(xs0.len(), evs[i]@.len()), x) by { }
                assert(forall|t: int| #[trigger] cf(ip, t) == lc_cf(ipolys, et, min(ipolys.len(), et.len()), t));
                assert(z.ev(f_zero()) == vprod(xs0, xs0.len(), f_zero()));
                assert(f_comm@ == msm(cviews(commitments@), fviews(et), min(commitments@.len(), et.len())));
                assert(i_comm@ == msm(self.powers_of_g@, fviews(ip), min(self.powers_of_g@.len(), ip.len())));
                assert(zeros_g2@ == dot(g2views(self.powers_of_g2@), fviews(z.coeffs@), min(self.powers_of_g2@.len(), z.coeffs@.len())));
            }
//@end
    }

    // ======================= the time-efficient MULTI-POINT prover (time.rs) =======================
//@struct file=poly-commit/src/streaming_kzg/time.rs name=CommitterKey
    // DensePolynomial::from_coefficients_slice: same contract as from_coefficients_vec on a copy of the slice   [assumed]
    #[verifier::external_body] pub fn poly_from_slice(v: &[Fr]) -> (r: Poly)
        ensures r.wf(), r.coeffs@.len() <= v@.len(), r.coeffs@ == v@.subrange(0, r.coeffs@.len() as int),
                forall|i: int| r.coeffs@.len() <= i < v@.len() ==> (#[trigger] v@[i])@ == f_zero() { unimplemented!() }
    // WHAT the multi-point prover returns: the commitment to the Euclidean quotient q of the polynomial by the vanishing polynomial
    // Z = prod_j (X - point_j):   f(X) = q(X) Z(X) + r(X)  with  deg r < number of points
    pub open spec fn tmp_rel(ck: &CommitterKey, f: Seq<Fr>, pts: Seq<Fr>, res_v: FS, q: Poly, r: Seq<FS>) -> bool {
        res_v == msm(ck.powers_of_g@, q.cv(), min(ck.powers_of_g@.len(), q.len()))
        && r.len() <= pts.len()
        && forall|x: FS| peval(fviews(f), x, f.len()) == f_add(f_mul(#[trigger] q.ev(x), vprod(pts, pts.len(), x)), peval(r, x, r.len()))
    }
    pub open spec fn tmp_post(ck: &CommitterKey, f: Seq<Fr>, pts: Seq<Fr>, res: &EvaluationProof) -> bool { exists|q: Poly, r: Seq<FS>| #[trigger] tmp_rel(ck, f, pts, res.0@, q, r) }
    pub proof fn lemma_from_slice_ev(p: &Poly, v: Seq<Fr>, x: FS)
        requires p.coeffs@.len() <= v.len(), p.coeffs@ == v.subrange(0, p.coeffs@.len() as int), forall|i: int| p.coeffs@.len() <= i < v.len() ==> (#[trigger] v[i])@ == f_zero()
        ensures p.ev(x) == peval(fviews(v), x, v.len())
    { lemma_peval_trailing_zeros(fviews(v), x, p.len(), v.len()); lemma_peval_ext(fviews(v), p.cv(), x, p.len()); }
    impl CommitterKey {
//@stub from=streaming.rs id=streaming.time.commit vis=pub
//@fn id=streaming.time.open_multi_points file=poly-commit/src/streaming_kzg/time.rs scope="impl<E: Pairing> CommitterKey<E>" name=open_multi_points props=C14,C01,C19
        pub fn open_multi_points(&self, polynomial: &[Fr], eval_points: &[Fr]) -> (res: EvaluationProof)
        ensures
            tmp_post(self, polynomial@, eval_points@, &res),   // name=streaming.time.open_multi_points.proof_commits_to_the_quotient_by_the_vanishing_polynomial props=C14,C01,C19
//@body
//@rw 1 /DensePolynomial::from_coefficients_slice\(polynomial\)/ => poly_from_slice(polynomial)
//@rw * /\b(z_poly|f_poly|q_poly)\.len\(\)/ => \1.coeffs.len()
//@rw 1 /EvaluationProof\(self\.commit\(&q_poly\.coeffs\)\.0\)/ => let res__ = EvaluationProof(self.commit(q_poly.coeffs.as_slice()).0); proof { assert(tmp_rel(self, polynomial@, eval_points@, res__.0@, q_poly, rr)); } res__
//@after /let f_poly =/
            let ghost f0 = f_poly;
            proof { assert forall|x: FS| f0.ev(x) == peval(fviews(polynomial@), x, polynomial@.len()) by { lemma_from_slice_ev(&f0, polynomial@, x); } }
//@after /let q_poly =/
            let ghost rr = choose|r: Seq<FS>| #[trigger] euclid(&f0, &z_poly, &q_poly, r);
            proof {
                assert(euclid(&f0, &z_poly, &q_poly, rr));
                assert forall|x: FS| peval(fviews(polynomial@), x, polynomial@.len()) == f_add(f_mul(#[trigger] q_poly.ev(x), vprod(eval_points@, eval_points@.len(), x)), peval(rr, x, rr.len())) by {
                    assert(f0.ev(x) == f_add(f_mul(q_poly.ev(x), z_poly.ev(x)), peval(rr, x, rr.len())));
                }
                assert(tmp_rel(self, polynomial@, eval_points@, msm(self.powers_of_g@, q_poly.cv(), min(self.powers_of_g@.len(), q_poly.len())), q_poly, rr));
            }
//@end
//@fn id=streaming.time.batch_open_multi_points file=poly-commit/src/streaming_kzg/time.rs scope="impl<E: Pairing> CommitterKey<E>" name=batch_open_multi_points props=C14,C01,C05,C19
        pub fn batch_open_multi_points(&self, polynomials: &[Vec<Fr>], eval_points: &[Fr], eval_chal: &Fr) -> (res: EvaluationProof)
        requires
            self.powers_of_g2@.len() <= usize::MAX,
        ensures
            // the batch proof is the multi-point proof of the eta-weighted coefficient-wise sum  sum_i eta^i f_i  (the zero polynomial for an empty batch)
            exists|bp: Seq<Fr>| #[trigger] tbm_rel(self, polynomials@, eval_points@, eval_chal@, &res, bp),   // name=streaming.time.batch_open_multi_points.opens_the_eta_weighted_sum props=C14,C01,C05,C19
            eval_points@.len() < self.powers_of_g2@.len(),   // name=streaming.time.batch_open_multi_points.more_points_than_g2_powers_aborts props=C14,C17,C19
//@body
//@rw 1 /linear_combination\(polynomials, &etas\)\.unwrap_or_else\(\|\| vec!\[E::ScalarField::zero\(\)\]\)/ => opt_vec_or_zero1(linear_combination(polynomials, etas.as_slice()))
//@rw 1 /self\.open_multi_points\(&batched_polynomial, eval_points\)/ => let res__ = self.open_multi_points(batched_polynomial.as_slice(), eval_points); proof { assert(tbm_rel(self, polynomials@, eval_points@, eval_chal@, &res__, batched_polynomial@)); } res__
//@before /self\.open_multi_points\(/
            proof {
                let bp = batched_polynomial@; let n = polynomials@.len();
                assert(etas@.len() == n);
                assert forall|t: int| #[trigger] cf(bp, t) == lc_cf(polynomials@, pow_seq(eval_chal@, n), n, t) by {
                    lemma_lc_cf_ext(polynomials@, etas@, pow_seq(eval_chal@, n), n, t);
                    if n == 0 { }
                }
            }
//@end
    }
    pub open spec fn tbm_rel(ck: &CommitterKey, ps: Seq<Vec<Fr>>, pts: Seq<Fr>, eta: FS, res: &EvaluationProof, bp: Seq<Fr>) -> bool {
        tmp_post(ck, bp, pts, res) && (forall|t: int| #[trigger] cf(bp, t) == lc_cf(ps, pow_seq(eta, ps.len()), ps.len(), t))
    }
    // `opt.unwrap_or_else(|| vec![zero])`
    #[verifier::external_body] pub fn opt_vec_or_zero1(o: Option<Vec<Fr>>) -> (r: Vec<Fr>)
        ensures o is Some ==> r == o->Some_0, o is None ==> (r@.len() == 1 && r@[0]@ == f_zero()) { unimplemented!() }
    pub open spec fn pow_seq(x: FS, n: nat) -> Seq<Fr> { Seq::new(n, |i: int| Fr::mk(f_pow(x, i as nat))) }
    pub proof fn lemma_lc_cf_ext(ps: Seq<Vec<Fr>>, a: Seq<Fr>, b: Seq<Fr>, k: nat, t: int)
        requires k <= a.len(), k <= b.len(), forall|i: int| 0 <= i < k ==> (#[trigger] a[i])@ == b[i]@
        ensures lc_cf(ps, a, k, t) == lc_cf(ps, b, k, t)
        decreases k
    { if k > 0 { lemma_lc_cf_ext(ps, a, b, (k - 1) as nat, t); } }
}
